(* C11 - Annotated arrays keep time base, channel labels and metadata aligned with data.
   Property theorems only; every proof is `exact <lemma of PData/Proofs.v>`.

   Vocabulary (PData/Spec.v):  [wf x]  the label / metadata counts of x equal its axis lengths (1-D, 2-D or 3-D);
   [denotes nd ix k per]  NumPy reads the index expression ix on an nd-dimensional array as k leading new axes and one
   item per axis, the time item a slice and at most one list/mask (ix is ANY tuple or bare index over ints, slices,
   lists, boolean masks, Ellipsis, newaxis);  [valid_on sh per]  NumPy does not raise IndexError for it;
   [getitem]  the model of PipelineData.__getitem__ (normalize_index + attribute fix-up on top of ndarray indexing). *)
From PV Require Import PData.Model PData.Spec PData.Proofs.

(* The code's own index normalisation and attribute fix-up agree with NumPy's reading of the index expression,
   for EVERY expression of the language, every shape, every s0 and rate: the result carries the per-axis
   selection of the data and, selected by the very same items, the labels and metadata. *)
Theorem C11_getitem_regular : forall x ix k per,
  wf x -> denotes (ndim x) ix k per -> valid_on (shape x) per ->
  exists d0 d', np_regular (dat x) per = Some d0 /\ wrap_new k d0 = Some d' /\
                getitem x ix = RArr (spec_result x k per d').
Proof. exact getitem_regular. Qed.
Print Assumptions C11_getitem_regular.

(* unit-step time slice: rate unchanged, the time axis of the slice is the slice of the time axis (positive,
   negative, omitted and out-of-range bounds alike), and every row of data is cut by the same slice, so every
   remaining sample keeps its absolute timestamp *)
Theorem C11_time_axis_commutes : forall x ix k per r a b c,
  wf x -> denotes (ndim x) ix k per -> valid_on (shape x) per -> time_item per = ISlice a b c ->
  step_of c = 1 -> getitem x ix = RArr r ->
  fsn r = fsn x /\ fsd r = fsd x /\ taxis r = py_slice a b (taxis x) /\
  Forall (fun row' => exists row, In row (rows (dat x)) /\ row' = py_slice a b row) (rows (dat r)).
Proof. exact time_axis_commutes. Qed.
Print Assumptions C11_time_axis_commutes.

(* strided time slice: the rate is divided by the step (fs = fsn / fsd) and the rows hold every step-th sample *)
Theorem C11_stride_rate : forall x ix k per r a b c,
  wf x -> denotes (ndim x) ix k per -> valid_on (shape x) per -> time_item per = ISlice a b c ->
  getitem x ix = RArr r ->
  1 <= step_of c /\ fsn r = fsn x /\ fsd r = fsd x * step_of c /\
  n_time r = py_slice_len (n_time x) a b (step_of c) /\
  Forall (fun row' => exists row, In row (rows (dat x)) /\ row' = py_slice_step a b (step_of c) row) (rows (dat r)).
Proof. exact stride_rate. Qed.
Print Assumptions C11_stride_rate.

(* int / slice / list / boolean-mask indexing of the channel and epoch axes selects the matching labels and
   metadata entries: they are selected by the same items as the data, and every row of the result carries the
   label and the metadata entry of the row it was cut from.  Excluded: the recorded finding
   getitem:3d-int-on-channel-axis-keeps-epoch-axis. *)
Theorem C11_labels_metadata_follow : forall x ix k per r,
  wf x -> denotes (ndim x) ix k per -> valid_on (shape x) per ->
  epoch_without_channel (ndim x) k per = false ->
  getitem x ix = RArr r ->
  chan r = spec_chan k per (chan x) /\ meta r = spec_meta k per (meta x) /\
  forall md ch row', has_row r md ch row' ->
    exists row, has_row x md ch row /\ row' = sel_t (time_item per) row.
Proof. exact annotations_follow. Qed.
Print Assumptions C11_labels_metadata_follow.

(* ... and their counts equal the axis lengths of the result: slicing well-formed arrays gives well-formed arrays,
   hence the same holds after any sequence of such index expressions *)
Theorem C11_counts_partial : forall x ix k per r,
  wf x -> denotes (ndim x) ix k per -> valid_on (shape x) per ->
  epoch_without_channel (ndim x) k per = false ->
  getitem x ix = RArr r -> wf r.
Proof. exact counts. Qed.
Print Assumptions C11_counts_partial.

(* the full statement (without the exclusion) is false of the code: x3d[:, 0] (known finding) *)
Theorem C11_counts_refuted :
  exists x ix k per r, wf x /\ denotes (ndim x) ix k per /\ valid_on (shape x) per /\
    epoch_without_channel (ndim x) k per = true /\ getitem x ix = RArr r /\ ~ wf r.
Proof. exact counts_refuted. Qed.
Print Assumptions C11_counts_refuted.

(* lists / masks on two axes at once are outside [denotes]: NumPy pairs them (known finding) *)
Theorem C11_paired_indices_refuted : exists x ix r, wf x /\ getitem x ix = RArr r /\ ~ wf r.
Proof. exact pairing_refuted. Qed.
Print Assumptions C11_paired_indices_refuted.

(* arithmetic with scalars, unary functions, copies and dtype casts keep every annotation *)
Theorem C11_ops_keep_annotations : forall f x,
  shape (map_data f x) = shape x /\ s0 (map_data f x) = s0 x /\ fsn (map_data f x) = fsn x /\
  fsd (map_data f x) = fsd x /\ chan (map_data f x) = chan x /\ meta (map_data f x) = meta x /\
  taxis (map_data f x) = taxis x /\ (wf x -> wf (map_data f x)).
Proof. exact ops_keep_annotations. Qed.
Print Assumptions C11_ops_keep_annotations.

(* the code before the three repairs of branch fix-C11 *)
Theorem C11_time_axis_unrepaired_refuted :
  exists x a r, wf x /\ getitem_unrepaired x {| sole := true; items := [ISlice (Some a) None None] |} = RArr r /\
                taxis r <> py_slice (Some a) None (taxis x).
Proof. exact time_axis_unrepaired_refuted. Qed.
Print Assumptions C11_time_axis_unrepaired_refuted.
Theorem C11_labels_unrepaired_refuted :
  exists x bs r, wf x /\ getitem_unrepaired x {| sole := true; items := [IMask bs false] |} = RArr r /\
                 chan r <> sel_lab (IMask bs false) (chan x) /\ ~ wf r.
Proof. exact labels_unrepaired_refuted. Qed.
Print Assumptions C11_labels_unrepaired_refuted.
Theorem C11_mask_in_tuple_unrepaired_refuted :
  exists x bs, wf x /\ getitem_unrepaired x (tuple [full; IMask bs true]) = RErr EValue /\
               exists r, getitem x (tuple [full; IMask bs true]) = RArr r /\ wf r.
Proof. exact mask_in_tuple_unrepaired_refuted. Qed.
Print Assumptions C11_mask_in_tuple_unrepaired_refuted.

(* the hypotheses are satisfiable: x[np.newaxis, ..., -20:] on a 1-D array of 10 samples starting at sample 5 *)
Example C11_ex :
  let x := mk [10] 5 1000 1 (LOne 70) (LOne 90) in
  let ix := tuple [INewaxis; IEllipsis; ISlice (Some (-20)) None None] in
  wf x /\ denotes (ndim x) ix 1 [ISlice (Some (-20)) None None] /\ valid_on (shape x) [ISlice (Some (-20)) None None] /\
  getitem x ix = mkv [1; 10] [0; 1; 2; 3; 4; 5; 6; 7; 8; 9] 5 1000 1 (LMany [70]) (LOne 90).
Proof.
  cbn zeta. split; [unfold wf; reflexivity|]. split.
  - eexists. split; [vm_compute; reflexivity|]. split; [vm_compute; reflexivity|]. split; [reflexivity | vm_compute; discriminate].
  - split; [reflexivity | vm_compute; reflexivity].
Qed.

(* Concatenation along time.  ANY split of the time axis into adjacent pieces x[..., c(i):c(i+1)] (any number of cut
   points 0 <= c1 <= ... <= cm = n_time, empty pieces allowed; the pieces are well-formed, so this composes with
   any further slicing) concatenates back to the original array with its annotations ... *)
Theorem C11_concat_restores : forall x cuts,
  wf x -> cuts <> [] -> cuts_ok 0 cuts (n_time x) ->
  exists ps, all_arrays (map (getitem x) (piece_indices 0 cuts)) = inr ps /\ Forall wf ps /\
             concat_pd DTime ps = RArr x.
Proof. exact concat_restores. Qed.
Print Assumptions C11_concat_restores.

(* ... and whatever concat accepts is consistent: pieces with a gap or an overlap, another rate, other channel
   labels, other metadata or another dimensionality are rejected (the result is an error value) *)
Theorem C11_concat_rejects : forall ps r,
  Forall wf ps -> concat_pd DTime ps = RArr r ->
  exists base rest, ps = base :: rest /\ consistent base rest /\
    s0 r = s0 base /\ fsn r = fsn base /\ fsd r = fsd base /\ chan r = chan base /\ meta r = meta base.
Proof. exact concat_rejects. Qed.
Print Assumptions C11_concat_rejects.

Example C11_concat_ex :
  let x := mk [2; 5] (-3) 1000 1 (LMany [70; 71]) (LOne 90) in
  wf x /\ cuts_ok 0 [2; 2; 5] (n_time x) /\
  (exists p q, getitem x (time_piece 0 2) = RArr p /\ getitem x (time_piece 3 5) = RArr q /\
               concat_pd DTime [p; q] = RErr EValue).
Proof.
  cbn zeta. split; [unfold wf; cbn; repeat split; try lia; repeat constructor|].
  split; [cbn; lia|]. eexists. eexists. split; [vm_compute; reflexivity|]. split; vm_compute; reflexivity.
Qed.

(* ================================================================== extension: the definitions added to PData/Model.v by the
   coverage audit (PipelineData.__new__, pipeline.concat as called, operations followed by indexing).
   Proofs in PData/ProofsX.v; vocabulary defined there: [nd_array sh d] d is a genuine ndarray of shape sh;
   [new_accepts] the constructor's two length checks; [new_unchecked_ok] no label list without channel axis / no
   metadata list without epoch axis; [forget x] the plain ndarray under x; [regular_chain] every expression of a chain
   is in the per-axis class of [denotes] (or refused by NumPy); [map_res f] f applied to the elements of a result. *)
From PV Require Import PData.ProofsX.

(* PipelineData.__new__ raises exactly when a supplied channel / metadata list has the wrong length (or is a scalar
   where a list is needed), for every shape, data, s0 and rate ... *)
Theorem C11_new_error_iff : forall sh d s fn fd ch md,
  (exists e, pd_new sh d s fn fd ch md = RErr e) <-> new_accepts sh ch md = false.
Proof. exact new_error_iff. Qed.
Print Assumptions C11_new_error_iff.
(* ... otherwise it returns the array with the supplied / default annotations ... *)
Theorem C11_new_result : forall sh d s fn fd ch md, new_accepts sh ch md = true ->
  pd_new sh d s fn fd ch md =
  RArr {| shape := sh; dat := d; s0 := s; fsn := fn; fsd := fd; chan := new_chan sh ch; meta := new_meta sh md |}.
Proof. exact new_result. Qed.
Print Assumptions C11_new_result.
(* ... which is inside the domain [wf] of the theorems above exactly when no label list was given for an array
   without channel axis and no metadata list for one without epoch axis (the constructor does not look at those) *)
Theorem C11_new_wellformed_partial : forall sh d s fn fd ch md p,
  nd_array sh d -> pd_new sh d s fn fd ch md = RArr p -> (wf p <-> new_unchecked_ok sh ch md = true).
Proof. exact new_wellformed_partial. Qed.
Print Assumptions C11_new_wellformed_partial.
(* "every array a user can construct is well-formed" is false of the code: PipelineData(np.arange(3), fs=1000,
   channel=['a', 'b']) is accepted; x[np.newaxis, :] then raises 'Too many channels' *)
Theorem C11_new_wellformed_refuted :
  exists sh d s fn fd ch md p, nd_array sh d /\ pd_new sh d s fn fd ch md = RArr p /\ ~ wf p /\
    getitem p (tuple [INewaxis; full]) = RErr EValue.
Proof. exact new_wellformed_refuted. Qed.
Print Assumptions C11_new_wellformed_refuted.

(* pipeline.concat: all pieces annotated = the annotated concatenation of the theorems above, for every axis *)
Theorem C11_concat_any_annotated : forall dm ps, ps <> [] ->
  concat_any (Some dm) (map PAnn ps) = cres_of false (concat_pd dm ps).
Proof. exact concat_any_annotated. Qed.
Print Assumptions C11_concat_any_annotated.
(* an unknown axis, a mix of plain and annotated pieces, and no piece at all are always refused *)
Theorem C11_concat_any_refuses : forall dm ps,
  (dm = None -> concat_any dm ps = CErr EValue) /\
  (existsb is_plain ps = true -> forallb is_plain ps = false -> concat_any dm ps = CErr EValue) /\
  (ps = [] -> concat_any dm ps = CErr EValue).
Proof. exact concat_any_refuses. Qed.
Print Assumptions C11_concat_any_refuses.
(* all pieces plain, along time: whenever it returns, the shapes agreed off the time axis, the time axis is the sum,
   the result is well-shaped and each row is the concatenation of the pieces' rows (shape law + data); and it
   returns whenever the shapes agree *)
Theorem C11_concat_any_plain_time : forall sh d rest sh' d',
  wf_dat sh d -> Forall piece_ok rest ->
  concat_any (Some DTime) (PPlain sh d :: rest) = CPlain sh' d' ->
  Forall (fun p => is_plain p = true /\ removelast (piece_shape p) = removelast sh) rest /\
  sh' = set_time sh (time_total (last sh 0) rest) /\ wf_dat sh' d' /\ rows d' = cat_rows (rows d) rest.
Proof. exact concat_any_plain_time. Qed.
Print Assumptions C11_concat_any_plain_time.
Theorem C11_concat_any_plain_time_accepts : forall rest sh d,
  wf_dat sh d -> Forall piece_ok rest ->
  Forall (fun p => is_plain p = true /\ removelast (piece_shape p) = removelast sh) rest ->
  exists sh' d', concat_any (Some DTime) (PPlain sh d :: rest) = CPlain sh' d'.
Proof. exact concat_any_plain_time_accepts. Qed.
Print Assumptions C11_concat_any_plain_time_accepts.
(* forgetting the annotations commutes with concatenation along time *)
Theorem C11_concat_any_forget : forall ps r,
  Forall wf ps -> concat_pd DTime ps = RArr r ->
  concat_any (Some DTime) (map forget ps) = CPlain (shape r) (dat r).
Proof. exact concat_any_forget. Qed.
Print Assumptions C11_concat_any_forget.
(* C11_concat_restores / C11_concat_rejects lifted to pipeline.concat *)
Theorem C11_concat_any_restores : forall x cuts,
  wf x -> cuts <> [] -> cuts_ok 0 cuts (n_time x) ->
  exists ps, all_arrays (map (getitem x) (piece_indices 0 cuts)) = inr ps /\ Forall wf ps /\
             concat_any (Some DTime) (map PAnn ps) = CAnn x /\
             concat_any (Some DTime) (map forget ps) = CPlain (shape x) (dat x).
Proof. exact concat_any_restores. Qed.
Print Assumptions C11_concat_any_restores.
Theorem C11_concat_any_rejects : forall ps r,
  Forall (fun p => match p with PAnn x => wf x | PPlain _ _ => True end) ps ->
  concat_any (Some DTime) ps = CAnn r ->
  exists base rest, ps = map PAnn (base :: rest) /\ consistent base rest /\
    s0 r = s0 base /\ fsn r = fsn base /\ fsd r = fsd base /\ chan r = chan base /\ meta r = meta base.
Proof. exact concat_any_rejects. Qed.
Print Assumptions C11_concat_any_rejects.

(* indexing and elementwise operations commute: (f x)[i1][i2].. = f (x[i1][i2]..) - data, shape, s0, rate, labels,
   metadata, scalar results and every raised error alike - for EVERY f on chains of per-axis index expressions
   (no hypothesis on x), and for every f with f 0 = 0 on EVERY index expression of the language *)
Theorem C11_getitems_map : forall f rep ixs x, f 0 = 0 \/ regular_chain rep x ixs = true ->
  getitems rep (map_data f x) ixs = map_res f (getitems rep x ixs).
Proof. exact getitems_map. Qed.
Print Assumptions C11_getitems_map.
Theorem C11_op_getitem_commute : forall f x ix k per, denotes (ndim x) ix k per ->
  getitem (map_data f x) ix = map_res f (getitem x ix).
Proof. exact op_getitem_commute. Qed.
Print Assumptions C11_op_getitem_commute.
Theorem C11_op_getitems_commute_any : forall rep o x ixs, zero_preserving o = true ->
  getitems rep (map_data (uop_fun o) x) ixs = map_res (uop_fun o) (getitems rep x ixs).
Proof. exact op_getitems_commute_any. Qed.
Print Assumptions C11_op_getitems_commute_any.
Theorem C11_op_preserves_annotation : forall rep o x ixs r, regular_chain rep x ixs = true ->
  getitems rep (map_data (uop_fun o) x) ixs = RArr r ->
  exists r0, getitems rep x ixs = RArr r0 /\ shape r = shape r0 /\ s0 r = s0 r0 /\ fsn r = fsn r0 /\ fsd r = fsd r0 /\
             chan r = chan r0 /\ meta r = meta r0 /\ dat r = map_nest (uop_fun o) (dat r0).
Proof. exact op_preserves_annotation. Qed.
Print Assumptions C11_op_preserves_annotation.
(* without either hypothesis the commutation fails on an ILL-FORMED record (a model artefact, not psiaudio behaviour);
   for well-formed arrays, paired indices and f 0 <> 0 it is tested but not proved *)
Theorem C11_op_getitems_illformed_refuted :
  exists x ix, regular_its (ndim x) (items ix) = false /\ ~ wf x /\
    getitem (map_data (uop_fun (UAdd 5)) x) ix <> map_res (uop_fun (UAdd 5)) (getitem x ix).
Proof. exact op_getitems_illformed_refuted. Qed.
Print Assumptions C11_op_getitems_illformed_refuted.

Example C11_ext_ex :
  nd_array [2; 3] (N2 [[0; 1; 2]; [3; 4; 5]]) /\
  new_accepts [2; 3] (Some (LMany [70; 71])) None = true /\ new_unchecked_ok [2; 3] (Some (LMany [70; 71])) None = true /\
  (let x := mk [2; 3; 4] (-3) 1000 1 (LMany [70; 71; 72]) (LMany [90; 91]) in
   let ixs := [tuple [IMask [true; false] true; ISlice (Some 1) None None; ISlice (Some (-9)) None (Some 2)];
               tuple [IInt 0; IEllipsis; ISlice (Some 1) None None]] in
   wf x /\ regular_chain true x ixs = true).
Proof.
  destruct new_ex as (H1 & H2 & H3 & _). destruct op_getitems_ex as (H4 & H5 & _).
  split; [exact H1|]. split; [exact H2|]. split; [exact H3|]. split; [exact H4|exact H5].
Qed.

(* ================================================================== second extension: the repair "integer index arrays and lists
   are not mistaken for all-True masks" (psiaudio fix-C11idx).  Proofs in PData/ProofsX2.v.  [getitem_int_array rep x zs]
   models x[np.array(zs)] with a SOLE 1-D integer ndarray of any integer dtype (inside a tuple such an array is the
   item IList zs already); [sole_list zs] is the python list x[zs]; rep = true the repaired code, false the code before. *)
From PV Require Import PData.ProofsX2.

(* a sole integer ndarray (with or without a 0, empty or not) IS the python list: data, s0, rate, labels, metadata and
   every error, on every array and along chains - so every theorem above about list indices covers integer arrays *)
Theorem C11_int_array_is_list : forall x zs, getitem_int_array true x zs = getitem x (sole_list zs).
Proof. exact int_array_is_list. Qed.
Print Assumptions C11_int_array_is_list.
Theorem C11_int_arrays_are_lists : forall ixs x, getitems_x true x ixs = getitems true x (map as_index ixs).
Proof. exact int_arrays_are_lists. Qed.
Print Assumptions C11_int_arrays_are_lists.
(* C11_getitem_regular for integer arrays *)
Theorem C11_int_array_regular : forall x zs k per,
  wf x -> denotes (ndim x) (sole_list zs) k per -> valid_on (shape x) per ->
  exists d0 d', np_regular (dat x) per = Some d0 /\ wrap_new k d0 = Some d' /\
                getitem_int_array true x zs = RArr (spec_result x k per d').
Proof. exact int_array_regular. Qed.
Print Assumptions C11_int_array_regular.
(* spelled out: on the first axis of a 2-D / 3-D array the array selects the channel labels / metadata entries like the
   list (order and repetitions of zs), the time base is untouched and the counts equal the axis lengths *)
Theorem C11_int_array_selects : forall x zs,
  wf x -> 2 <= ndim x -> forallb (idx_ok (hd 0 (shape x))) zs = true ->
  exists r, getitem_int_array true x zs = RArr r /\ wf r /\
    s0 r = s0 x /\ fsn r = fsn x /\ fsd r = fsd x /\ n_time r = n_time x /\ hd 0 (shape r) = zlen zs /\
    (ndim x = 2 -> chan r = sel_lab (IList zs) (chan x) /\ meta r = meta x) /\
    (ndim x = 3 -> meta r = sel_lab (IList zs) (meta x) /\ chan r = chan x).
Proof. exact int_array_selects. Qed.
Print Assumptions C11_int_array_selects.
(* before the repair: x3[np.array([1, 2])] on 3 epochs: 2 epochs, all 3 metadata entries *)
Theorem C11_index_array_unrepaired_refuted :
  exists x zs r, wf x /\ forallb (idx_ok (hd 0 (shape x))) zs = true /\
    getitem_int_array false x zs = RArr r /\ hd 0 (shape r) = 2 /\ meta r = meta x /\ meta x = LMany [90; 91; 92] /\ ~ wf r /\
    exists r', getitem_int_array true x zs = RArr r' /\ meta r' = LMany [91; 92] /\ wf r'.
Proof. exact index_array_unrepaired_refuted. Qed.
Print Assumptions C11_index_array_unrepaired_refuted.

(* a list on the time axis is accepted by the fix-up iff it is an all-True mask (a list of ints only when empty), and
   then s0 and the rate are unchanged (that the mask has the length of the axis is NumPy's check: np_getitem) *)
Theorem C11_fix_time_list : forall x,
  (forall zs r, fix_time true x (NListZ zs) = inr r <-> zs = [] /\ r = (s0 x, fsd x)) /\
  (forall bs r, fix_time true x (NListB bs) = inr r <-> all_true bs = true /\ r = (s0 x, fsd x)) /\
  (forall zs, zs <> [] -> fix_time true x (NListZ zs) = inl EValue) /\
  (forall bs, all_true bs = false -> fix_time true x (NListB bs) = inl EValue).
Proof. exact fix_time_list. Qed.
Print Assumptions C11_fix_time_list.
(* for every index expression of the language and every array *)
Theorem C11_time_list_mask_only : forall x ix s es cs t r,
  normalize_index true ix (ndim x) = inr s -> split3 s = Some (es, cs, t) -> nlist t = true ->
  getitem x ix = RArr r ->
  mask_only t /\ s0 r = s0 x /\ fsn r = fsn x /\ fsd r = fsd x.
Proof. exact time_list_mask_only. Qed.
Print Assumptions C11_time_list_mask_only.
(* before the repair: x1[[1, 2, 3]] picks samples 1, 2, 3 and keeps s0 *)
Theorem C11_time_list_unrepaired_refuted :
  exists x zs r, wf x /\ getitem_unrepaired x (sole_list zs) = RArr r /\ s0 r = s0 x /\
    flat (dat r) = [1; 2; 3] /\ taxis r <> map (fun i => s0 x + i) zs /\
    getitem x (sole_list zs) = RErr EValue.
Proof. exact time_list_unrepaired_refuted. Qed.
Print Assumptions C11_time_list_unrepaired_refuted.
Example C11_time_list_ex :
  let x := mk [2; 3] 5 1000 1 (LMany [70; 71]) (LOne 90) in
  let ix := tuple [full; IMask [true; true; true] false] in
  wf x /\ normalize_index true ix (ndim x) = inr [nfull; NListB [true; true; true]] /\
  getitem x ix = RArr x /\ getitem x (tuple [full; IList [1; 2]]) = RErr EValue /\
  getitem_int_array true x [1; 1] = mkv [2; 3] [3; 4; 5; 3; 4; 5] 5 1000 1 (LMany [71; 71]) (LOne 90).
Proof. exact time_list_ex. Qed.

(* ================================================================== translator tie: the index bookkeeping regenerated from the source.
   coq/gen/PDataGen.v (gen_normalize_index, gen_getitem) is rewritten from psiaudio/pipeline.py on every run by
   translate/pypdata2coq.py, statement by statement, over the Python value universe [pyval] and the primitives of
   PData/TieLib.v; NumPy's own indexing of the data stays the modelled primitive np_getitem.  Proofs in PData/ProofsTie.v.
   Vocabulary: [idx_val v] v is an index value (int, np.integer, slice, list of ints / bools, 1-D integer / boolean ndarray,
   Ellipsis, None, or a tuple of them); [abs_x v] how the model reads it (index expression or sole integer array);
   [emb_index ix] an index expression of the model written as a value; [lift_norm] / [lift_res] the model's result in the
   generated functions' result type (GOk / GRaise; never GStuck = outside the translated fragment);
   [gen_getitems] a chain x[v1][v2].. of generated __getitem__ calls. *)
From PV Require Import PData.TieLib gen.PDataGen PData.ProofsTie.

(* normalize_index as the source has it = the model, for EVERY index value and every ndim *)
Theorem C11_source_normalize_index : forall v nd, idx_val v = true ->
  gen_normalize_index v nd = lift_norm (normalize_x (abs_x v) nd).
Proof. exact gen_normalize_index_tie. Qed.
Print Assumptions C11_source_normalize_index.
Theorem C11_source_normalize_index_model : forall ix nd,
  gen_normalize_index (emb_index ix) nd = lift_norm (normalize_index true ix nd).
Proof. exact gen_normalize_index_model. Qed.
Print Assumptions C11_source_normalize_index_model.
(* the hypothesis is needed: a tuple nested in a tuple is refused by the code, its reading by the model is arbitrary *)
Theorem C11_source_normalize_index_refuted :
  exists v nd, idx_val v = false /\ gen_normalize_index v nd <> lift_norm (normalize_x (abs_x v) nd).
Proof. exact gen_normalize_index_tie_refuted. Qed.
Print Assumptions C11_source_normalize_index_refuted.

(* __getitem__ as the source has it (index normalisation, the s0 / fs arithmetic of the time slice, the selection of
   channel labels and metadata entries, every raise) = the model, on every array and every index value *)
Theorem C11_source_getitem : forall x v, idx_val v = true ->
  gen_getitem x v = lift_res (getitem_x true x (abs_x v)).
Proof. exact gen_getitem_full. Qed.
Print Assumptions C11_source_getitem.
(* ... in the model's own grammar, one expression and chains of expressions *)
Theorem C11_source_getitem_model : forall x ix, gen_getitem x (emb_index ix) = lift_res (getitem x ix).
Proof. exact gen_getitem_full_model. Qed.
Print Assumptions C11_source_getitem_model.
Theorem C11_source_getitems_model : forall ixs x,
  gen_getitems x (map emb_index ixs) = lift_res (getitems true x ixs).
Proof. exact gen_getitems_model. Qed.
Print Assumptions C11_source_getitems_model.
(* ... hence the generated function never leaves the translated fragment (GStuck) on an index value *)
Theorem C11_source_getitem_not_stuck : forall x v, idx_val v = true -> gen_getitem x v <> GStuck.
Proof. exact gen_getitem_not_stuck. Qed.
Print Assumptions C11_source_getitem_not_stuck.
(* every annotated array the model returns is what the source returns (no hypothesis on NumPy's result) *)
Theorem C11_source_getitem_returns : forall x v r, idx_val v = true ->
  getitem_x true x (abs_x v) = RArr r -> gen_getitem x v = GOk (OArr r).
Proof. exact gen_getitem_returns. Qed.
Print Assumptions C11_source_getitem_returns.

(* the C11 theorems over the definitions regenerated from the source *)
Theorem C11_source_getitem_regular : forall x ix k per,
  wf x -> denotes (ndim x) ix k per -> valid_on (shape x) per ->
  exists d0 d', np_regular (dat x) per = Some d0 /\ wrap_new k d0 = Some d' /\
                gen_getitem x (emb_index ix) = GOk (OArr (spec_result x k per d')).
Proof. exact source_getitem_regular. Qed.
Print Assumptions C11_source_getitem_regular.
Theorem C11_source_time_axis_commutes : forall x ix k per r a b c,
  wf x -> denotes (ndim x) ix k per -> valid_on (shape x) per -> time_item per = ISlice a b c ->
  step_of c = 1 -> gen_getitem x (emb_index ix) = GOk (OArr r) ->
  fsn r = fsn x /\ fsd r = fsd x /\ taxis r = py_slice a b (taxis x) /\
  Forall (fun row' => exists row, In row (rows (dat x)) /\ row' = py_slice a b row) (rows (dat r)).
Proof. exact source_time_axis_commutes. Qed.
Print Assumptions C11_source_time_axis_commutes.
Theorem C11_source_stride_rate : forall x ix k per r a b c,
  wf x -> denotes (ndim x) ix k per -> valid_on (shape x) per -> time_item per = ISlice a b c ->
  gen_getitem x (emb_index ix) = GOk (OArr r) ->
  1 <= step_of c /\ fsn r = fsn x /\ fsd r = fsd x * step_of c /\
  n_time r = py_slice_len (n_time x) a b (step_of c) /\
  Forall (fun row' => exists row, In row (rows (dat x)) /\ row' = py_slice_step a b (step_of c) row) (rows (dat r)).
Proof. exact source_stride_rate. Qed.
Print Assumptions C11_source_stride_rate.
Theorem C11_source_labels_metadata_follow : forall x ix k per r,
  wf x -> denotes (ndim x) ix k per -> valid_on (shape x) per ->
  epoch_without_channel (ndim x) k per = false ->
  gen_getitem x (emb_index ix) = GOk (OArr r) ->
  chan r = spec_chan k per (chan x) /\ meta r = spec_meta k per (meta x) /\
  forall md ch row', has_row r md ch row' ->
    exists row, has_row x md ch row /\ row' = sel_t (time_item per) row.
Proof. exact source_labels_metadata_follow. Qed.
Print Assumptions C11_source_labels_metadata_follow.
Theorem C11_source_counts : forall x ix k per r,
  wf x -> denotes (ndim x) ix k per -> valid_on (shape x) per ->
  epoch_without_channel (ndim x) k per = false ->
  gen_getitem x (emb_index ix) = GOk (OArr r) -> wf r.
Proof. exact source_counts. Qed.
Print Assumptions C11_source_counts.

(* the hypotheses are satisfiable: x[np.newaxis, ..., -20:] on a 1-D array of 10 samples starting at sample 5 *)
Example C11_source_ex :
  let x := mk [10] 5 1000 1 (LOne 70) (LOne 90) in
  let v := PTuple [PNone; PEllipsis; PSlice (Some (-20)) None None] in
  idx_val v = true /\ np_plain (np_getitem (shape x) (dat x) (abs_items v)) (abs_items v) = true /\
  res_of (gen_getitem x v) = Some (mkv [1; 10] [0; 1; 2; 3; 4; 5; 6; 7; 8; 9] 5 1000 1 (LMany [70]) (LOne 90)).
Proof. exact source_ex. Qed.

(* ================================================================== translator tie, part 2: pipeline.ensure_dim and pipeline.concat on
   annotated pieces, regenerated from the source (gen_ensure_dim, gen_concat in coq/gen/PDataGen.v; vocabulary PData/TieLibConcat.v;
   proofs PData/ProofsTieConcat.v).  [pyaxis] the axis argument ('time' / 'channel' / 'epoch', an int, anything else), [dim_of] the
   dimension it names (pinned text of dim_axis), [lift_c] / [lift_arrs] the model's result in the generated functions' result type,
   [first_le3 ps] the first piece has at most 3 dimensions. *)
From PV Require Import PData.TieLibConcat PData.ProofsTieConcat.

Theorem C11_source_ensure_dim : forall ps dm, gen_ensure_dim ps dm = lift_arrs (ensure_dim ps dm).
Proof. exact gen_ensure_dim_tie. Qed.
Print Assumptions C11_source_ensure_dim.
(* concat as the source has it - the ndim / rate / contiguity / channel / metadata tests with their errors, the merged labels,
   the annotations of the result - = the model, for every list of annotated pieces and every axis value *)
Theorem C11_source_concat : forall ps ax, (dim_of ax = Some DEpoch -> first_le3 ps) ->
  gen_concat ps ax = lift_c (concat_any (dim_of ax) (map PAnn ps)).
Proof. exact gen_concat_tie. Qed.
Print Assumptions C11_source_concat.
Theorem C11_source_concat_time_channel : forall ps ax, dim_of ax <> Some DEpoch ->
  gen_concat ps ax = lift_c (concat_any (dim_of ax) (map PAnn ps)).
Proof. exact gen_concat_tie_time_chan. Qed.
Print Assumptions C11_source_concat_time_channel.
Theorem C11_source_concat_wf : forall ps ax, Forall wf ps ->
  gen_concat ps ax = lift_c (concat_any (dim_of ax) (map PAnn ps)).
Proof. exact gen_concat_tie_wf. Qed.
Print Assumptions C11_source_concat_wf.
Theorem C11_source_concat_refuses : forall ps ax,
  (dim_of ax = None -> gen_concat ps ax = GRaise EValue) /\ (ps = [] -> gen_concat ps ax = GRaise EValue).
Proof. exact gen_concat_refuses. Qed.
Print Assumptions C11_source_concat_refuses.
(* C11_concat_restores / C11_concat_rejects over the generated __getitem__ and concat *)
Theorem C11_source_concat_restores : forall x cuts ax,
  wf x -> cuts <> [] -> cuts_ok 0 cuts (n_time x) -> dim_of ax = Some DTime ->
  exists ps, map (fun ix => gen_getitem x (emb_index ix)) (piece_indices 0 cuts) = map (fun p => GOk (OArr p)) ps /\
             Forall wf ps /\ gen_concat ps ax = GOk (OArr x).
Proof. exact source_concat_restores. Qed.
Print Assumptions C11_source_concat_restores.
Theorem C11_source_concat_rejects : forall ps r ax,
  dim_of ax = Some DTime -> Forall wf ps -> gen_concat ps ax = GOk (OArr r) ->
  exists base rest, ps = base :: rest /\ consistent base rest /\
    s0 r = s0 base /\ fsn r = fsn base /\ fsd r = fsd base /\ chan r = chan base /\ meta r = meta base.
Proof. exact source_concat_rejects. Qed.
Print Assumptions C11_source_concat_rejects.
Theorem C11_source_concat_inconsistent : forall ps ax base rest,
  dim_of ax = Some DTime -> Forall wf ps -> ps = base :: rest -> ~ consistent base rest ->
  exists e, gen_concat ps ax = GRaise e.
Proof. exact source_concat_inconsistent. Qed.
Print Assumptions C11_source_concat_inconsistent.
Example C11_source_concat_ex :
  let x := mk [2; 5] (-3) 1000 1 (LMany [70; 71]) (LOne 90) in
  wf x /\ cuts_ok 0 [2; 2; 5] (n_time x) /\ dim_of (AxInt (-1)) = Some DTime /\ dim_of (AxName DTime) = Some DTime /\
  (exists p q, gen_getitem x (emb_index (time_piece 0 2)) = GOk (OArr p) /\
               gen_getitem x (emb_index (time_piece 3 5)) = GOk (OArr q) /\
               gen_concat [p; q] (AxInt (-1)) = GRaise EValue) /\
  first_le3 [x] /\ gen_concat [x; x] (AxName DEpoch) = lift_c (concat_any (Some DEpoch) (map PAnn [x; x])).
Proof. exact source_concat_ex. Qed.
