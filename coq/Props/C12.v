(* C12 - Streaming pipeline stages are chunk-invariant and keep a contiguous time base.
   Property theorems only; every proof is `exact <lemma of Stages/Proofs*.v>`.

   Reading guide (definitions in Stages/Model.v and Stages/Spec.v):
     mkstream h s ds          the chunks ds of the stream `concat ds`, sent one after the other; h = plain ndarray or
                              PipelineData annotations (fs divisor, channel labels, metadata), first sample number s
     run step init chunks     everything the coroutine passes to its target while it receives the chunks (None = raises)
     emits_values r want      r did not raise and the concatenation of all emitted data is `want`
     emits_contiguous r h s   r did not raise, every emitted block carries annotations h, the first starts at s, each
                              next one starts where the previous ended; hence the concat model joins them into one block
   Every theorem is for EVERY stream, EVERY chunking ds into non-empty chunks (any number, any sizes, also smaller than
   q / the block size), plain and annotated headers h, 1-D and 2-D; sample values are an abstract type, the filter
   recurrence [filt], the RMS [agg], the difference [sub], the threshold [thr]/[ge] are abstract functions. *)
From PV Require Import Stages.Model Stages.Spec Stages.ProofsC Stages.ProofsD Stages.ProofsE Stages.ProofsE2.

(* ---------------- blocked: consecutive blocks of exactly bs samples ---------------- *)
Theorem C12_blocked_values : forall (A : Type) bs h s (ds : list (list A)), 1 <= bs -> nonempty_chunks ds ->
  exists st outs, run (blocked_step bs) blocked_init (mkstream h s ds) = Some (st, outs) /\
    concat (map dat outs) = take_mult bs (concat ds) /\ Forall (fun o => zlen (dat o) = bs) outs.
Proof. exact @blocked_values. Qed.
Print Assumptions C12_blocked_values.
Theorem C12_blocked_contiguous : forall (A : Type) bs h s (ds : list (list A)), 1 <= bs -> nonempty_chunks ds ->
  emits_contiguous (run (blocked_step bs) blocked_init (mkstream h s ds)) h s.
Proof. exact @blocked_contiguous. Qed.
Print Assumptions C12_blocked_contiguous.

(* ---------------- discard: the stream minus its first d samples ---------------- *)
Theorem C12_discard_values : forall (A : Type) d h s (ds : list (list A)), 0 <= d -> nonempty_chunks ds ->
  emits_values (run discard_step d (mkstream h s ds)) (discarded d (concat ds)).
Proof. exact @discard_values. Qed.
Print Assumptions C12_discard_values.
Theorem C12_discard_contiguous : forall (A : Type) d h s (ds : list (list A)), 0 <= d -> nonempty_chunks ds ->
  emits_contiguous (run discard_step d (mkstream h s ds)) h (s + d).
Proof. exact @discard_contiguous. Qed.
Print Assumptions C12_discard_contiguous.

(* ---------------- downsample: every q-th sample; output rate fs / q ---------------- *)
Theorem C12_downsample_values : forall (A : Type) q h s (ds : list (list A)), 1 <= q -> nonempty_chunks ds ->
  emits_values (run (downsample_step true q) ds_init (mkstream h s ds)) (downsampled q (concat ds)).
Proof. exact @downsample_values. Qed.
Print Assumptions C12_downsample_values.
Theorem C12_downsample_contiguous : forall (A : Type) q h s (ds : list (list A)), 1 <= q -> nonempty_chunks ds ->
  emits_contiguous (run (downsample_step true q) ds_init (mkstream h s ds)) (h_scale q h) (h_s0 h s).
Proof. exact @downsample_contiguous. Qed.
Print Assumptions C12_downsample_contiguous.
(* what `downsampled` is: floor(N/q) samples, the k-th one is sample k*q of the stream *)
Theorem C12_downsampled_is_every_qth : forall (A : Type) q (xs : list A), 1 <= q ->
  zlen (downsampled q xs) = zlen xs / q /\
  forall k, 0 <= k < zlen xs / q -> nth_error (downsampled q xs) (Z.to_nat k) = nth_error xs (Z.to_nat (k * q)).
Proof. exact @downsampled_nth. Qed.
Print Assumptions C12_downsampled_is_every_qth.

(* ---------------- decimate: filter the WHOLE signal from state zf0, then every q-th sample ---------------- *)
Theorem C12_decimate_values : forall (A F : Type) (filt : F -> A -> F * A) zf0 q h s (ds : list (list A)),
  1 <= q -> nonempty_chunks ds ->
  emits_values (run (decimate_step true filt zf0 q) None (mkstream h s ds)) (decimated filt zf0 q (concat ds)).
Proof. exact @decimate_values. Qed.
Print Assumptions C12_decimate_values.
Theorem C12_decimate_contiguous : forall (A F : Type) (filt : F -> A -> F * A) zf0 q h s (ds : list (list A)),
  1 <= q -> nonempty_chunks ds ->
  emits_contiguous (run (decimate_step true filt zf0 q) None (mkstream h s ds)) (h_scale q h) (h_s0 h s).
Proof. exact @decimate_contiguous. Qed.
Print Assumptions C12_decimate_contiguous.

(* ---------------- rms: one value per complete block of n samples; output rate fs / n ---------------- *)
Theorem C12_rms_values : forall (A O : Type) (agg : list A -> O) n h s (ds : list (list A)),
  1 <= n -> nonempty_chunks ds ->
  emits_values (run (rms_step true agg n) rms_init (mkstream h s ds)) (rms_blocks agg n (concat ds)).
Proof. exact @rms_values. Qed.
Print Assumptions C12_rms_values.
Theorem C12_rms_contiguous : forall (A O : Type) (agg : list A -> O) n h s (ds : list (list A)),
  1 <= n -> (n | s) -> nonempty_chunks ds ->
  emits_contiguous (run (rms_step true agg n) rms_init (mkstream h s ds)) (h_scale n h) (s / n).
Proof. exact @rms_contiguous. Qed.
Print Assumptions C12_rms_contiguous.

(* ---------------- derivative (annotated input): first difference against the previous sample ---------------- *)
Theorem C12_derivative_values : forall (A : Type) (sub : A -> A -> A) init h s (ds : list (list A)),
  h_an h <> None -> nonempty_chunks ds ->
  emits_values (run (derivative_step sub init) None (mkstream h s ds)) (derived sub init (concat ds)).
Proof. exact @derivative_values. Qed.
Print Assumptions C12_derivative_values.
Theorem C12_derivative_contiguous : forall (A : Type) (sub : A -> A -> A) init h s (ds : list (list A)),
  h_an h <> None -> nonempty_chunks ds ->
  emits_contiguous (run (derivative_step sub init) None (mkstream h s ds)) h s.
Proof. exact @derivative_contiguous. Qed.
Print Assumptions C12_derivative_contiguous.

(* ---------------- iirfilter: the one-shot filter started from finit(first sample) ---------------- *)
Theorem C12_iirfilter_values : forall (A F : Type) (filt : F -> A -> F * A) finit h s (ds : list (list A)),
  nonempty_chunks ds ->
  emits_values (run (iir_step true filt finit) None (mkstream h s ds)) (iir_filtered filt finit (concat ds)).
Proof. exact @iir_values. Qed.
Print Assumptions C12_iirfilter_values.
Theorem C12_iirfilter_contiguous : forall (A F : Type) (filt : F -> A -> F * A) finit h s (ds : list (list A)),
  nonempty_chunks ds ->
  emits_contiguous (run (iir_step true filt finit) None (mkstream h s ds)) h s.
Proof. exact @iir_contiguous. Qed.
Print Assumptions C12_iirfilter_contiguous.

(* ---------------- transform with an elementwise function g ---------------- *)
Theorem C12_transform_values : forall (A O : Type) (g : A -> O) h s (ds : list (list A)), nonempty_chunks ds ->
  emits_values (run (map_step g) tt (mkstream h s ds)) (map g (concat ds)).
Proof. exact @map_values. Qed.
Print Assumptions C12_transform_values.
Theorem C12_transform_contiguous : forall (A O : Type) (g : A -> O) h s (ds : list (list A)), nonempty_chunks ds ->
  emits_contiguous (run (map_step g) tt (mkstream h s ds)) h s.
Proof. exact @map_contiguous. Qed.
Print Assumptions C12_transform_contiguous.

(* ---------------- mc_reference: a sample is the column of all channels, g the product with the matrix ---------------- *)
Theorem C12_mc_reference_values : forall (Col : Type) (g : Col -> Col) h s (ds : list (list Col)), nonempty_chunks ds ->
  emits_values (run (map_step g) tt (mkstream h s ds)) (map g (concat ds)).
Proof. exact (fun Col => @map_values Col Col). Qed.
Print Assumptions C12_mc_reference_values.
Theorem C12_mc_reference_contiguous : forall (Col : Type) (g : Col -> Col) h s (ds : list (list Col)), nonempty_chunks ds ->
  emits_contiguous (run (map_step g) tt (mkstream h s ds)) h s.
Proof. exact (fun Col => @map_contiguous Col Col). Qed.
Print Assumptions C12_mc_reference_contiguous.

(* ---------------- auto_th: nothing until Bn samples arrived, then every sample compared with the threshold
   computed from the stream's first Bn samples ---------------- *)
Theorem C12_auto_th_values : forall (A T O : Type) (thr : list A -> T) (ge : T -> A -> O) Bn h s (ds : list (list A)),
  0 <= Bn -> nonempty_chunks ds ->
  emits_values (run (autoth_step thr ge Bn) (AthAcc None) (mkstream h s ds)) (thresholded thr ge Bn (concat ds)).
Proof. exact @autoth_values. Qed.
Print Assumptions C12_auto_th_values.
Theorem C12_auto_th_contiguous : forall (A T O : Type) (thr : list A -> T) (ge : T -> A -> O) Bn h s (ds : list (list A)),
  0 <= Bn -> nonempty_chunks ds ->
  emits_contiguous (run (autoth_step thr ge Bn) (AthAcc None) (mkstream h s ds)) h s.
Proof. exact @autoth_contiguous. Qed.
Print Assumptions C12_auto_th_contiguous.

(* ---------------- event_rate: event counts of the sliding windows of the whole span ---------------- *)
Theorem C12_event_rate_values : forall bsz stp lo (cs : list events),
  0 <= bsz -> 1 <= stp -> cs <> [] -> ev_stream lo cs ->
  exists st outs, run (er_step true bsz stp) None cs = Some (st, outs) /\
    concat (map r_counts outs) = event_rates bsz stp (ev_all cs) lo (ev_end lo cs).
Proof. exact event_rate_values. Qed.
Print Assumptions C12_event_rate_values.
Theorem C12_event_rate_contiguous : forall bsz stp lo (cs : list events),
  0 <= bsz -> 1 <= stp -> cs <> [] -> ev_stream lo cs ->
  exists st outs, run (er_step true bsz stp) None cs = Some (st, outs) /\ r_contiguous (2 * lo + bsz) stp outs.
Proof. exact event_rate_contiguous. Qed.
Print Assumptions C12_event_rate_contiguous.

(* ---------------- the two filter stages on chunkings that CONTAIN zero-length chunks (no hypothesis on ds):
   the stages skip an empty chunk (iirfilter also waits for the first non-empty one before scaling its state);
   iir_step_e / decimate_step_e are those stages, equal to iir_step / decimate_step on non-empty chunks ---------------- *)
Theorem C12_iirfilter_values_any : forall (A F : Type) (filt : F -> A -> F * A) finit h s (ds : list (list A)),
  emits_values (run (iir_step_e true filt finit) None (mkstream h s ds)) (iir_filtered filt finit (concat ds)).
Proof. exact @iir_values_any. Qed.
Print Assumptions C12_iirfilter_values_any.
Theorem C12_iirfilter_contiguous_any : forall (A F : Type) (filt : F -> A -> F * A) finit h s (ds : list (list A)),
  emits_contiguous (run (iir_step_e true filt finit) None (mkstream h s ds)) h s.
Proof. exact @iir_contiguous_any. Qed.
Print Assumptions C12_iirfilter_contiguous_any.
Theorem C12_decimate_values_any : forall (A F : Type) (filt : F -> A -> F * A) zf0 q, 1 <= q -> forall h s (ds : list (list A)),
  emits_values (run (decimate_step_e true filt zf0 q) None (mkstream h s ds)) (decimated filt zf0 q (concat ds)).
Proof. exact @decimate_values_any. Qed.
Print Assumptions C12_decimate_values_any.
Theorem C12_decimate_contiguous_any : forall (A F : Type) (filt : F -> A -> F * A) zf0 q, 1 <= q -> forall h s (ds : list (list A)),
  emits_contiguous (run (decimate_step_e true filt zf0 q) None (mkstream h s ds)) (h_scale q h) (h_s0 h s).
Proof. exact @decimate_contiguous_any. Qed.
Print Assumptions C12_decimate_contiguous_any.

(* ---------------- every stage on EVERY chunking, zero-length chunks included (no hypothesis on the chunk lengths;
   event_rate: Events chunks may span zero samples).  Same step functions as above: the code treats an empty chunk like
   any other one (it may emit an empty block: discard, derivative, transform, auto_th, 2-D downsample). ---------------- *)
Theorem C12_blocked_values_any : forall (A : Type) bs h s (ds : list (list A)), 1 <= bs ->
  exists st outs, run (blocked_step bs) blocked_init (mkstream h s ds) = Some (st, outs) /\
    concat (map dat outs) = take_mult bs (concat ds) /\ Forall (fun o => zlen (dat o) = bs) outs.
Proof. exact @blocked_values_any. Qed.
Print Assumptions C12_blocked_values_any.
Theorem C12_blocked_contiguous_any : forall (A : Type) bs h s (ds : list (list A)), 1 <= bs ->
  emits_contiguous (run (blocked_step bs) blocked_init (mkstream h s ds)) h s.
Proof. exact @blocked_contiguous_any. Qed.
Print Assumptions C12_blocked_contiguous_any.
Theorem C12_discard_values_any : forall (A : Type) d h s (ds : list (list A)), 0 <= d ->
  emits_values (run discard_step d (mkstream h s ds)) (discarded d (concat ds)).
Proof. exact @discard_values_any. Qed.
Print Assumptions C12_discard_values_any.
Theorem C12_discard_contiguous_any : forall (A : Type) d h s (ds : list (list A)), 0 <= d ->
  emits_contiguous (run discard_step d (mkstream h s ds)) h (s + d).
Proof. exact @discard_contiguous_any. Qed.
Print Assumptions C12_discard_contiguous_any.
Theorem C12_downsample_values_any : forall (A : Type) q h s (ds : list (list A)), 1 <= q ->
  emits_values (run (downsample_step true q) ds_init (mkstream h s ds)) (downsampled q (concat ds)).
Proof. exact @downsample_values_any. Qed.
Print Assumptions C12_downsample_values_any.
Theorem C12_downsample_contiguous_any : forall (A : Type) q h s (ds : list (list A)), 1 <= q ->
  emits_contiguous (run (downsample_step true q) ds_init (mkstream h s ds)) (h_scale q h) (h_s0 h s).
Proof. exact @downsample_contiguous_any. Qed.
Print Assumptions C12_downsample_contiguous_any.
Theorem C12_rms_values_any : forall (A O : Type) (agg : list A -> O) n h s (ds : list (list A)), 1 <= n ->
  emits_values (run (rms_step true agg n) rms_init (mkstream h s ds)) (rms_blocks agg n (concat ds)).
Proof. exact @rms_values_any. Qed.
Print Assumptions C12_rms_values_any.
Theorem C12_rms_contiguous_any : forall (A O : Type) (agg : list A -> O) n h s (ds : list (list A)), 1 <= n -> (n | s) ->
  emits_contiguous (run (rms_step true agg n) rms_init (mkstream h s ds)) (h_scale n h) (s / n).
Proof. exact @rms_contiguous_any. Qed.
Print Assumptions C12_rms_contiguous_any.
Theorem C12_derivative_values_any : forall (A : Type) (sub : A -> A -> A) init h s (ds : list (list A)), h_an h <> None ->
  emits_values (run (derivative_step sub init) None (mkstream h s ds)) (derived sub init (concat ds)).
Proof. exact @derivative_values_any. Qed.
Print Assumptions C12_derivative_values_any.
Theorem C12_derivative_contiguous_any : forall (A : Type) (sub : A -> A -> A) init h s (ds : list (list A)), h_an h <> None ->
  emits_contiguous (run (derivative_step sub init) None (mkstream h s ds)) h s.
Proof. exact @derivative_contiguous_any. Qed.
Print Assumptions C12_derivative_contiguous_any.
Theorem C12_transform_values_any : forall (A O : Type) (g : A -> O) h s (ds : list (list A)),
  emits_values (run (map_step g) tt (mkstream h s ds)) (map g (concat ds)).
Proof. exact @map_values_any. Qed.
Print Assumptions C12_transform_values_any.
Theorem C12_transform_contiguous_any : forall (A O : Type) (g : A -> O) h s (ds : list (list A)),
  emits_contiguous (run (map_step g) tt (mkstream h s ds)) h s.
Proof. exact @map_contiguous_any. Qed.
Print Assumptions C12_transform_contiguous_any.
Theorem C12_mc_reference_values_any : forall (Col : Type) (g : Col -> Col) h s (ds : list (list Col)),
  emits_values (run (map_step g) tt (mkstream h s ds)) (map g (concat ds)).
Proof. exact (fun Col => @map_values_any Col Col). Qed.
Print Assumptions C12_mc_reference_values_any.
Theorem C12_mc_reference_contiguous_any : forall (Col : Type) (g : Col -> Col) h s (ds : list (list Col)),
  emits_contiguous (run (map_step g) tt (mkstream h s ds)) h s.
Proof. exact (fun Col => @map_contiguous_any Col Col). Qed.
Print Assumptions C12_mc_reference_contiguous_any.
Theorem C12_auto_th_values_any : forall (A T O : Type) (thr : list A -> T) (ge : T -> A -> O) Bn h s (ds : list (list A)), 0 <= Bn ->
  emits_values (run (autoth_step thr ge Bn) (AthAcc None) (mkstream h s ds)) (thresholded thr ge Bn (concat ds)).
Proof. exact @autoth_values_any. Qed.
Print Assumptions C12_auto_th_values_any.
Theorem C12_auto_th_contiguous_any : forall (A T O : Type) (thr : list A -> T) (ge : T -> A -> O) Bn h s (ds : list (list A)), 0 <= Bn ->
  emits_contiguous (run (autoth_step thr ge Bn) (AthAcc None) (mkstream h s ds)) h s.
Proof. exact @autoth_contiguous_any. Qed.
Print Assumptions C12_auto_th_contiguous_any.
Theorem C12_event_rate_values_any : forall bsz stp lo (cs : list events),
  0 <= bsz -> 1 <= stp -> cs <> [] -> ev_stream_any lo cs ->
  exists st outs, run (er_step true bsz stp) None cs = Some (st, outs) /\
    concat (map r_counts outs) = event_rates bsz stp (ev_all cs) lo (ev_end lo cs).
Proof. exact event_rate_values_any. Qed.
Print Assumptions C12_event_rate_values_any.
Theorem C12_event_rate_contiguous_any : forall bsz stp lo (cs : list events),
  0 <= bsz -> 1 <= stp -> cs <> [] -> ev_stream_any lo cs ->
  exists st outs, run (er_step true bsz stp) None cs = Some (st, outs) /\ r_contiguous (2 * lo + bsz) stp outs.
Proof. exact event_rate_contiguous_any. Qed.
Print Assumptions C12_event_rate_contiguous_any.
Example C12_ex_empty_chunks :
  outs_of (run (blocked_step 2) blocked_init (mkstream (Hdr false (Some (1, None, 7))) (-3) [[]; [0]; []; []; [1; 2]; []]))
  = Some [Blk [0; 1] false (Some (An (-3) 1 None 7))] /\
  ev_stream_any 0 [Ev [] 0 0; Ev [1; 3] 0 5; Ev [] 5 5; Ev [6] 5 9].
Proof. split; [vm_compute; reflexivity|]. cbn. repeat split; try lia; repeat constructor; lia. Qed.

(* ---------------- what contiguity buys (concat model of pipeline.concat) ---------------- *)
Theorem C12_contiguous_concat : forall (A : Type) h s (outs : list (blk A)), contiguous h s outs -> outs <> [] ->
  concat_list outs = Some (mk h s (concat (map dat outs))).
Proof. exact @contiguous_concat_all. Qed.
Print Assumptions C12_contiguous_concat.

(* ---------------- the code before the fix-C12 commits violated the property ---------------- *)
(* downsample kept the input-rate s0: consecutive annotated outputs do not concatenate *)
Theorem C12_downsample_unrepaired_refuted : exists (q : Z) (h : hdr) (s0 : Z) (ds : list (list Z)),
  1 <= q /\ nonempty_chunks ds /\
  exists st outs, run (downsample_step false q) ds_init (mkstream h s0 ds) = Some (st, outs) /\
                  outs <> [] /\ concat_list outs = None.
Proof. exact downsample_unrepaired_refuted. Qed.
Print Assumptions C12_downsample_unrepaired_refuted.
(* decimate filtered the held-back remainder twice: chunked output <> filter-then-pick (filter y[n] = x[n] + 2 y[n-1] mod 1009) *)
Theorem C12_decimate_unrepaired_refuted : exists (q : Z) (h : hdr) (s0 : Z) (ds : list (list Z)),
  1 <= q /\ nonempty_chunks ds /\
  exists st outs, run (decimate_step false cfilt 0 q) None (mkstream h s0 ds) = Some (st, outs) /\
                  concat (map dat outs) <> decimated cfilt 0 q (concat ds).
Proof. exact decimate_unrepaired_refuted. Qed.
Print Assumptions C12_decimate_unrepaired_refuted.
(* iirfilter dropped channel labels and metadata *)
Theorem C12_iirfilter_unrepaired_refuted : exists (h : hdr) (s0 : Z) (ds : list (list Z)),
  nonempty_chunks ds /\
  exists st outs, run (iir_step false cfilt (fun x => x)) None (mkstream h s0 ds) = Some (st, outs) /\
                  ~ contiguous h s0 outs.
Proof. exact iir_unrepaired_refuted. Qed.
Print Assumptions C12_iirfilter_unrepaired_refuted.
(* rms on 1-D annotated input labelled its output with one channel per block *)
Theorem C12_rms_unrepaired_refuted : exists (n : Z) (h : hdr) (s0 : Z) (ds : list (list Z)),
  1 <= n /\ nonempty_chunks ds /\
  exists st outs, run (rms_step false (sagg n) n) rms_init (mkstream h s0 ds) = Some (st, outs) /\
                  outs <> [] /\ concat_list outs = None.
Proof. exact rms_unrepaired_refuted. Qed.
Print Assumptions C12_rms_unrepaired_refuted.
(* event_rate processed the first chunk only when a second one arrived *)
Theorem C12_event_rate_unrepaired_refuted : exists (bsz stp : Z) (cs1 cs2 : list events),
  ev_stream 0 cs1 /\ ev_stream 0 cs2 /\ ev_all cs1 = ev_all cs2 /\ ev_end 0 cs1 = ev_end 0 cs2 /\
  exists st1 o1 st2 o2,
    run (er_step false bsz stp) None cs1 = Some (st1, o1) /\
    run (er_step false bsz stp) None cs2 = Some (st2, o2) /\
    concat (map r_counts o1) <> concat (map r_counts o2).
Proof. exact event_rate_unrepaired_refuted. Qed.
Print Assumptions C12_event_rate_unrepaired_refuted.

(* ---------------- non-vacuity: hypotheses are satisfiable, and what the runs look like ---------------- *)
Example C12_ex_chunks : nonempty_chunks [[0; 1; 2]; [3]; [4; 5; 6; 7; 8; 9]].
Proof. repeat constructor; discriminate. Qed.
(* 2-channel annotated stream (labels 1,2; metadata 7) starting at sample 60, chunks of 3, 1 and 6 samples *)
Example C12_ex_downsample :
  outs_of (run (downsample_step true 4) ds_init (mkstream (Hdr true (Some (1, Some [1; 2], 7))) 60 [[0; 1; 2]; [3]; [4; 5; 6; 7; 8; 9]]))
  = Some [Blk [] true (Some (An 60 4 (Some [1; 2]) 7)); Blk [0] true (Some (An 60 4 (Some [1; 2]) 7));
          Blk [4] true (Some (An 61 4 (Some [1; 2]) 7))].
Proof. vm_compute. reflexivity. Qed.
Example C12_ex_decimate :
  outs_of (run (decimate_step true cfilt 0 3) None (mkstream (Hdr false None) 0 [[1; 2]; [3; 4; 5]; [6; 7]]))
  = Some [Blk [1] false None; Blk [26] false None] /\
  decimated cfilt 0 3 [1; 2; 3; 4; 5; 6; 7] = [1; 26].
Proof. vm_compute. split; reflexivity. Qed.
Example C12_ex_rms : (3 | 180) /\
  outs_of (run (rms_step true (sagg 3) 3) rms_init (mkstream (Hdr false (Some (1, None, 7))) 180 (cut [2; 5; 1] 0)))
  = Some [Blk [0; 1] false (Some (An 60 3 None 7))].
Proof. split; [exists 60; reflexivity|vm_compute; reflexivity]. Qed.
Example C12_ex_derivative : h_an (Hdr false (Some (1, None, 7))) <> None.
Proof. discriminate. Qed.
Example C12_ex_event_rate : ev_stream 0 [Ev [1; 3] 0 5; Ev [6] 5 9] /\
  outs_of (run (er_step true 3 2) None [Ev [1; 3] 0 5; Ev [6] 5 9]) = Some [Rb [1] 3 2; Rb [1; 1] 5 2] /\
  event_rates 3 2 [1; 3; 6] 0 9 = [1; 1; 1].
Proof. split; [cbn; repeat split; try lia; repeat constructor; lia|]. vm_compute. split; reflexivity. Qed.

(* ================================================================== extension: event_rate with a fractional block_step
   (coverage audit: check_event_rate_counts runs the model on positions, spans and block_size multiplied by den, with
   block_step = stp / den).  Proofs in Stages/ProofsX.v.  Chunk invariance of the counts for ANY integers 0 <= bsz,
   1 <= stp is C12_event_rate_values_any above; what is added: the model is invariant under a change of the unit of
   position, the specification [event_rates] in closed form (window k = [lo + k*stp, lo + k*stp + bsz)), and the two
   combined for the scaled run.  [scale_ev den c] = chunk c with every position multiplied by den; [counts_of r] =
   the counts per emitted block; [n_windows] = number of windows ending before the end of the stream;
   [count_frac den bsz stp lo ev k] = number of events x with den*lo + k*stp <= den*x < den*lo + k*stp + den*bsz. *)
From PV Require Import Stages.ProofsX.

Theorem C12_event_rate_scaling : forall rep den bsz stp (cs : list events), 1 <= den -> 0 <= bsz -> 1 <= stp ->
  counts_of (run (er_step rep (den * bsz) (den * stp)) None (map (scale_ev den) cs)) =
  counts_of (run (er_step rep bsz stp) None cs).
Proof. exact event_rate_scaling. Qed.
Print Assumptions C12_event_rate_scaling.
Theorem C12_event_rates_closed_form : forall bsz stp ev lo hi, 0 <= bsz -> 1 <= stp ->
  event_rates bsz stp ev lo hi =
  zrange (fun k => count_in ev (lo + k * stp) (lo + k * stp + bsz)) 0 (n_windows bsz stp lo hi).
Proof. exact event_rates_closed_form. Qed.
Print Assumptions C12_event_rates_closed_form.
Theorem C12_event_rate_fractional : forall den bsz stp lo (cs : list events),
  1 <= den -> 0 <= bsz -> 1 <= stp -> cs <> [] -> ev_stream_any lo cs ->
  exists st outs, run (er_step true (den * bsz) stp) None (map (scale_ev den) cs) = Some (st, outs) /\
    concat (map r_counts outs) =
    zrange (count_frac den bsz stp lo (ev_all cs)) 0 (n_windows (den * bsz) stp (den * lo) (den * ev_end lo cs)).
Proof. exact event_rate_fractional. Qed.
Print Assumptions C12_event_rate_fractional.
Theorem C12_event_rate_fractional_chunk_invariant : forall den bsz stp lo (cs1 cs2 : list events),
  1 <= den -> 0 <= bsz -> 1 <= stp -> cs1 <> [] -> cs2 <> [] -> ev_stream_any lo cs1 -> ev_stream_any lo cs2 ->
  ev_all cs1 = ev_all cs2 -> ev_end lo cs1 = ev_end lo cs2 ->
  exists st1 o1 st2 o2,
    run (er_step true (den * bsz) stp) None (map (scale_ev den) cs1) = Some (st1, o1) /\
    run (er_step true (den * bsz) stp) None (map (scale_ev den) cs2) = Some (st2, o2) /\
    concat (map r_counts o1) = concat (map r_counts o2).
Proof. exact event_rate_fractional_chunk_invariant. Qed.
Print Assumptions C12_event_rate_fractional_chunk_invariant.
Example C12_ex_event_rate_fractional :
  let cs := [Ev [1; 3] 0 5; Ev [6] 5 9; Ev [] 9 9; Ev [9; 10; 15] 9 17; Ev [18] 17 19] in
  ev_stream_any 0 cs /\
  counts_of (run (er_step true (2 * 3) 3) None (map (scale_ev 2) cs)) = Some [[1; 1]; [1; 1]; [1; 2; 2; 0; 0; 1]; [1]] /\
  zrange (count_frac 2 3 3 0 (ev_all cs)) 0 (n_windows (2 * 3) 3 (2 * 0) (2 * ev_end 0 cs)) = [1; 1; 1; 1; 1; 2; 2; 0; 0; 1; 1] /\
  counts_of (run (er_step true (2 * 3) (2 * 2)) None (map (scale_ev 2) cs)) = counts_of (run (er_step true 3 2) None cs).
Proof. exact event_rate_fractional_ex. Qed.

(* ================================================================== extension: event_rate behind pipeline.edges
   pipeline.edges emits one Events block per chunk whose events may lie AT OR AFTER the block's end (a rising edge is
   reported when it is confirmed, min_samples late; a falling edge immediately) but never before its start: a CAUSAL
   stream ([causal] in Stages/Spec.v).  The in-span streams of the theorems above are the special case
   C12_ev_stream_any_causal.  The repaired event_rate (fix-C12-er: the left-over is trimmed on the left only) counts
   every event of every causal stream in the windows of the whole stream, for every chunking and every assignment of
   the events to blocks; the code before that repair ([er_step_unrepaired]) lost events reported ahead of the span. *)
From Coq Require Import Permutation.
From PV Require Import Stages.ProofsER.

Theorem C12_ev_stream_any_causal : forall cs lo, ev_stream_any lo cs -> causal lo cs.
Proof. exact ev_stream_any_causal. Qed.
Print Assumptions C12_ev_stream_any_causal.
Theorem C12_event_rate_causal : forall bsz stp lo (cs : list events),
  0 <= bsz -> 1 <= stp -> cs <> [] -> causal lo cs ->
  exists st outs, run (er_step true bsz stp) None cs = Some (st, outs) /\
    concat (map r_counts outs) =
      zrange (fun k => count_in (ev_all cs) (lo + k * stp) (lo + k * stp + bsz)) 0 (n_windows bsz stp lo (ev_end lo cs)) /\
    r_contiguous (2 * lo + bsz) stp outs.
Proof. exact event_rate_causal. Qed.
Print Assumptions C12_event_rate_causal.
Theorem C12_event_rate_causal_spec : forall bsz stp lo (cs : list events),
  0 <= bsz -> 1 <= stp -> cs <> [] -> causal lo cs ->
  exists st outs, run (er_step true bsz stp) None cs = Some (st, outs) /\
    concat (map r_counts outs) = event_rates bsz stp (ev_all cs) lo (ev_end lo cs) /\
    r_contiguous (2 * lo + bsz) stp outs.
Proof. exact event_rate_causal_spec. Qed.
Print Assumptions C12_event_rate_causal_spec.
Theorem C12_event_rate_causal_chunk_invariant : forall bsz stp lo (cs1 cs2 : list events),
  0 <= bsz -> 1 <= stp -> cs1 <> [] -> cs2 <> [] -> causal lo cs1 -> causal lo cs2 ->
  Permutation (ev_all cs1) (ev_all cs2) -> ev_end lo cs1 = ev_end lo cs2 ->
  exists st1 o1 st2 o2,
    run (er_step true bsz stp) None cs1 = Some (st1, o1) /\
    run (er_step true bsz stp) None cs2 = Some (st2, o2) /\
    concat (map r_counts o1) = concat (map r_counts o2).
Proof. exact event_rate_causal_chunk_invariant. Qed.
Print Assumptions C12_event_rate_causal_chunk_invariant.
(* the Events blocks edges(3, .., initial_state=0, detect='rising') emits for ([0]*5+[1]*5)*6 cut into 8, 10, 42 samples
   (the edges at 5 and 15 are reported with sample == end of their block) and in one chunk; block_size = block_step = 10 *)
Example C12_ex_event_rate_causal :
  causal (-3) er_ahead_chunked /\ causal (-3) er_ahead_whole /\ ~ ev_stream_any (-3) er_ahead_chunked /\
  Permutation (ev_all er_ahead_chunked) (ev_all er_ahead_whole) /\
  ev_end (-3) er_ahead_chunked = ev_end (-3) er_ahead_whole /\
  counts_of (run (er_step true 10 10) None er_ahead_chunked) = Some [[1]; [1; 1; 1; 1]] /\
  counts_of (run (er_step true 10 10) None er_ahead_whole) = Some [[1; 1; 1; 1; 1]] /\
  zrange (fun k => count_in (ev_all er_ahead_whole) (-3 + k * 10) (-3 + k * 10 + 10)) 0
         (n_windows 10 10 (-3) (ev_end (-3) er_ahead_whole)) = [1; 1; 1; 1; 1].
Proof. exact event_rate_causal_ex. Qed.
(* the code before the repair: the same event multiset on the same timeline, two chunkings, different counts *)
Theorem C12_event_rate_causal_unrepaired_refuted : exists (bsz stp lo : Z) (cs1 cs2 : list events),
  0 <= bsz /\ 1 <= stp /\ cs1 <> [] /\ cs2 <> [] /\ causal lo cs1 /\ causal lo cs2 /\
  Permutation (ev_all cs1) (ev_all cs2) /\ ev_end lo cs1 = ev_end lo cs2 /\
  exists st1 o1 st2 o2,
    run (er_step_unrepaired true bsz stp) None cs1 = Some (st1, o1) /\
    run (er_step_unrepaired true bsz stp) None cs2 = Some (st2, o2) /\
    concat (map r_counts o1) = [1; 0; 1; 1; 1] /\ concat (map r_counts o2) = [1; 1; 1; 1; 1].
Proof. exact event_rate_causal_unrepaired_refuted. Qed.
Print Assumptions C12_event_rate_causal_unrepaired_refuted.
(* nothing changed for streams whose chunks hold only events inside their spans: there the code before the repair
   ([er_step_unrepaired], with either value of the older first-chunk flag) and the repaired code run identically *)
Theorem C12_event_rate_unrepaired_in_span : forall rep bsz stp lo (cs : list events), 0 <= stp -> ev_stream_any lo cs ->
  run (er_step_unrepaired rep bsz stp) None cs = run (er_step rep bsz stp) None cs.
Proof. exact event_rate_unrepaired_in_span_stream. Qed.
Print Assumptions C12_event_rate_unrepaired_in_span.

(* ================================================================== extension: rms for EVERY first sample index
   C12_rms_contiguous(_any) take n | s (the output s0 = s / n is then an integer).  [rms_step_x] keeps the s0 of an
   emitted block in INPUT samples (n times the s0 of the code: s / n for the first block, then plus the number of
   windows emitted so far - the repaired code, fix-C12-rms, adds these counts instead of dividing again), so no
   divisibility is needed: for every s, every n >= 1 and every chunking the blocks are contiguous ([contiguous_x]: each
   starts n * (number of values) input samples after the previous one) and hold the per-block aggregates. *)
From PV Require Import Stages.ProofsRmsX.
Theorem C12_rms_x_values_any : forall (A O : Type) (agg : list A -> O) n h s (ds : list (list A)), 1 <= n ->
  emits_values (run (rms_step_x true agg n) rms_init (mkstream h s ds)) (rms_blocks agg n (concat ds)).
Proof. exact @rms_x_values_any. Qed.
Print Assumptions C12_rms_x_values_any.
Theorem C12_rms_x_contiguous_any : forall (A O : Type) (agg : list A -> O) n h s (ds : list (list A)), 1 <= n ->
  exists st outs, run (rms_step_x true agg n) rms_init (mkstream h s ds) = Some (st, outs) /\
                  contiguous_x n (h_scale n h) s outs.
Proof. exact @rms_x_contiguous_any. Qed.
Print Assumptions C12_rms_x_contiguous_any.
Example C12_ex_rms_x :
  let h := Hdr false (Some (1, None, 7)) in
  option_map (fun r => map (fun b => (dat b, an b)) (snd r))
             (run (rms_step_x true (sagg 6) 6) rms_init (inputs h 5 [6; 6; 7])) =
  Some [([0], Some (An 5 6 None 7)); ([1], Some (An 11 6 None 7)); ([2], Some (An 17 6 None 7))].
Proof. exact rms_x_ex. Qed.

(* ==================== TRANSLATOR TIE (added): the step functions REGENERATED FROM THE SOURCE ====================
   gen/StagesStepGen.v is rewritten on every run by translate/pycoro2coq.py from the current psiaudio/pipeline.py: one
   pass of each coroutine from `(yield)` to `(yield)`, statement by statement (<stage>_gen_init = the locals set up before
   `while True:`, <stage>_gen_step = the loop body, the chunk received in place of `(yield)`, target calls collected).
   C12_source_<stage>_step: the generated step EQUALS the step function of Stages/Model.v that the theorems above are
   about - for every state and every chunk (no invariant needed; `lift rep` only renames the state: the tuple of the
   coroutine's locals <-> the record of the model).  downsample / decimate compute `.. % q`, which raises for q = 0 in the
   source (py_mod) and not in the model: hypothesis q <> 0, needed (C12_source_*_step_refuted).
   C12_source_<stage>_values_any / _contiguous_any: the theorems above restated over runs of the GENERATED functions. *)
From PV Require Import gen.StagesStepGen Stages.ProofsTie.

Theorem C12_source_discard_step : forall (A : Type) (discard_samples to_discard : Z) (chunk : blk A),
  discard_gen_step discard_samples to_discard chunk = discard_step to_discard chunk.
Proof. exact @discard_tie. Qed.
Print Assumptions C12_source_discard_step.
Theorem C12_source_blocked_step : forall (A : Type) (block_size : Z) (s : blocked_st A) (chunk : blk A),
  blocked_gen_step block_size (b_data s, b_n s) chunk
  = lift (fun s' => (b_data s', b_n s')) (blocked_step block_size s chunk).
Proof. exact @blocked_tie. Qed.
Print Assumptions C12_source_blocked_step.
Theorem C12_source_downsample_step : forall (A : Type) (q : Z) (s : ds_st A) (chunk : blk A), q <> 0 ->
  downsample_gen_step q (ds_rem s, ds_s0 s) chunk
  = lift (fun s' => (ds_rem s', ds_s0 s')) (downsample_step true q s chunk).
Proof. exact @downsample_tie. Qed.
Print Assumptions C12_source_downsample_step.
Theorem C12_source_downsample_step_refuted : exists (s : ds_st Z) (chunk : blk Z),
  downsample_gen_step 0 (ds_rem s, ds_s0 s) chunk
  <> lift (fun s' => (ds_rem s', ds_s0 s')) (downsample_step true 0 s chunk).
Proof. exact downsample_tie_refuted. Qed.
Print Assumptions C12_source_downsample_step_refuted.
Theorem C12_source_derivative_step : forall (A : Type) (sub : A -> A -> A) (init : A) (s : option (blk A)) (chunk : blk A),
  derivative_gen_step sub init s chunk = derivative_step sub init s chunk.
Proof. exact @derivative_tie. Qed.
Print Assumptions C12_source_derivative_step.
Theorem C12_source_decimate_step : forall (F A : Type) (filt : F -> A -> F * A) (zf0 : F) (q : Z)
    (s : option (dec_st F A)) (chunk : blk A), q <> 0 ->
  decimate_gen_step filt zf0 q (option_map (fun st => (d_s0 st, d_zf st, d_rem st)) s) chunk
  = lift (option_map (fun st => (d_s0 st, d_zf st, d_rem st))) (decimate_step_e true filt zf0 q s chunk).
Proof. exact @decimate_tie. Qed.
Print Assumptions C12_source_decimate_step.
Theorem C12_source_decimate_step_refuted : exists (s : option (dec_st Z Z)) (chunk : blk Z),
  decimate_gen_step cfilt 0 0 (option_map (fun st => (d_s0 st, d_zf st, d_rem st)) s) chunk
  <> lift (option_map (fun st => (d_s0 st, d_zf st, d_rem st))) (decimate_step_e true cfilt 0 0 s chunk).
Proof. exact decimate_tie_refuted. Qed.
Print Assumptions C12_source_decimate_step_refuted.
Example C12_source_ex_q : (3 : Z) <> 0. Proof. exact downsample_tie_ex. Qed.

(* ---- the C12 theorems over the generated functions (every chunking, zero-length chunks included) ---- *)
Theorem C12_source_discard_values_any : forall (A : Type) d h s (ds : list (list A)), 0 <= d ->
  emits_values (run (discard_gen_step d) (@discard_gen_init A d) (mkstream h s ds)) (discarded d (concat ds)).
Proof. exact @source_discard_values_any. Qed.
Print Assumptions C12_source_discard_values_any.
Theorem C12_source_discard_contiguous_any : forall (A : Type) d h s (ds : list (list A)), 0 <= d ->
  emits_contiguous (run (discard_gen_step d) (@discard_gen_init A d) (mkstream h s ds)) h (s + d).
Proof. exact @source_discard_contiguous_any. Qed.
Print Assumptions C12_source_discard_contiguous_any.
Theorem C12_source_blocked_values_any : forall (A : Type) bs h s (ds : list (list A)), 1 <= bs ->
  exists st outs, run (blocked_gen_step bs) (blocked_gen_init bs) (mkstream h s ds) = Some (st, outs) /\
    concat (map dat outs) = take_mult bs (concat ds) /\ Forall (fun o => zlen (dat o) = bs) outs.
Proof. exact @source_blocked_values_any. Qed.
Print Assumptions C12_source_blocked_values_any.
Theorem C12_source_blocked_contiguous_any : forall (A : Type) bs h s (ds : list (list A)), 1 <= bs ->
  emits_contiguous (run (blocked_gen_step bs) (blocked_gen_init bs) (mkstream h s ds)) h s.
Proof. exact @source_blocked_contiguous_any. Qed.
Print Assumptions C12_source_blocked_contiguous_any.
Theorem C12_source_downsample_values_any : forall (A : Type) q h s (ds : list (list A)), 1 <= q ->
  emits_values (run (downsample_gen_step q) (downsample_gen_init q) (mkstream h s ds)) (downsampled q (concat ds)).
Proof. exact @source_downsample_values_any. Qed.
Print Assumptions C12_source_downsample_values_any.
Theorem C12_source_downsample_contiguous_any : forall (A : Type) q h s (ds : list (list A)), 1 <= q ->
  emits_contiguous (run (downsample_gen_step q) (downsample_gen_init q) (mkstream h s ds)) (h_scale q h) (h_s0 h s).
Proof. exact @source_downsample_contiguous_any. Qed.
Print Assumptions C12_source_downsample_contiguous_any.
Theorem C12_source_derivative_values_any : forall (A : Type) (sub : A -> A -> A) init h s (ds : list (list A)), h_an h <> None ->
  emits_values (run (derivative_gen_step sub init) None (mkstream h s ds)) (derived sub init (concat ds)).
Proof. exact @source_derivative_values_any. Qed.
Print Assumptions C12_source_derivative_values_any.
Theorem C12_source_derivative_contiguous_any : forall (A : Type) (sub : A -> A -> A) init h s (ds : list (list A)), h_an h <> None ->
  emits_contiguous (run (derivative_gen_step sub init) None (mkstream h s ds)) h s.
Proof. exact @source_derivative_contiguous_any. Qed.
Print Assumptions C12_source_derivative_contiguous_any.
Theorem C12_source_decimate_values_any : forall (A F : Type) (filt : F -> A -> F * A) zf0 q h s (ds : list (list A)), 1 <= q ->
  emits_values (run (decimate_gen_step filt zf0 q) None (mkstream h s ds)) (decimated filt zf0 q (concat ds)).
Proof. exact @source_decimate_values_any. Qed.
Print Assumptions C12_source_decimate_values_any.
Theorem C12_source_decimate_contiguous_any : forall (A F : Type) (filt : F -> A -> F * A) zf0 q h s (ds : list (list A)), 1 <= q ->
  emits_contiguous (run (decimate_gen_step filt zf0 q) None (mkstream h s ds)) (h_scale q h) (h_s0 h s).
Proof. exact @source_decimate_contiguous_any. Qed.
Print Assumptions C12_source_decimate_contiguous_any.
(* chunk invariance stated directly over the generated functions: two chunkings of one stream emit the same samples *)
Theorem C12_source_downsample_chunk_invariant : forall (A : Type) q h s (ds1 ds2 : list (list A)), 1 <= q ->
  concat ds1 = concat ds2 ->
  exists st1 o1 st2 o2,
    run (downsample_gen_step q) (downsample_gen_init q) (mkstream h s ds1) = Some (st1, o1) /\
    run (downsample_gen_step q) (downsample_gen_init q) (mkstream h s ds2) = Some (st2, o2) /\
    concat (map dat o1) = concat (map dat o2).
Proof. exact @source_chunk_invariant_downsample. Qed.
Print Assumptions C12_source_downsample_chunk_invariant.
Example C12_source_ex :
  outs_of (run (downsample_gen_step 2) (downsample_gen_init 2)
               (mkstream (Hdr false (Some (1, None, 7))) 10 [[0; 1; 2]; []; [3]; [4; 5; 6]]))
  = Some [Blk [0] false (Some (An 10 2 None 7)); Blk [2] false (Some (An 11 2 None 7)); Blk [4] false (Some (An 12 2 None 7))].
Proof. exact source_ex. Qed.

(* ==================== TRANSLATOR TIE, second batch (added): rms, event_rate, transform, mc_reference, iirfilter ====================
   Same construction as above.  rms: the source keeps a counter out_s0 the model does not have (the model recomputes the s0
   of every emitted block from the samples it holds); the tie is a SIMULATION (sim_res) under the explicit state relation
   rms_rel: equal held chunks and sample count, and the counter, once set, equals s0div of the s0 of the first held
   block.  The relation holds initially (rms_rel_init), is kept by every step, is satisfiable on a non-initial state
   (C12_source_ex_rms_rel) and is needed (C12_source_rms_step_refuted).  The float arithmetic on s0 (s0 / n, out_s0 +
   n_blocks) is read exactly, once as (s / n, +) - the model's rms_step, exact when n divides the first s0 - and once
   with s0 kept in input samples, (s, + n * k) - the model's rms_step_x, for every first s0. *)
Theorem C12_source_rms_step : forall (A O : Type) (agg : list A -> O) n g m (chunk : blk A), 1 <= n ->
  rms_rel (fun s => s / n) g m ->
  sim_res (rms_rel (fun s => s / n)) (rms_gen_step agg (fun s => s / n) Z.add n g chunk) (rms_step true agg n m chunk).
Proof. exact @rms_tie_div. Qed.
Print Assumptions C12_source_rms_step.
Theorem C12_source_rms_x_step : forall (A O : Type) (agg : list A -> O) n g m (chunk : blk A), 1 <= n ->
  rms_rel (fun s => s) g m ->
  sim_res (rms_rel (fun s => s)) (rms_gen_step agg (fun s => s) (fun t k => t + n * k) n g chunk)
          (rms_step_x true agg n m chunk).
Proof. exact @rms_tie_x. Qed.
Print Assumptions C12_source_rms_x_step.
Theorem C12_source_rms_step_refuted : exists (g : option (list (blk Z) * Z * option Z)) (m : rms_st Z) (chunk : blk Z),
  (match g with Some (d, s, _) => m = RmsSt d s | None => False end) /\
  ~ sim_res (rms_rel (fun s => s / 2)) (rms_gen_step (sagg 2) (fun s => s / 2) Z.add 2 g chunk) (rms_step true (sagg 2) 2 m chunk).
Proof. exact rms_tie_refuted. Qed.
Print Assumptions C12_source_rms_step_refuted.
Example C12_source_ex_rms_rel : rms_rel (fun s => s / 2) (Some ([Blk [0] false (Some (An 10 1 None 7))], 1, Some 5))
                                        (RmsSt [Blk [0] false (Some (An 10 1 None 7))] 1).
Proof. exact rms_rel_ex. Qed.
Theorem C12_source_rms_values_any : forall (A O : Type) (agg : list A -> O) n h s (ds : list (list A)), 1 <= n ->
  emits_values (run (rms_gen_step agg (fun s0 => s0 / n) Z.add n) None (mkstream h s ds)) (rms_blocks agg n (concat ds)).
Proof. exact @source_rms_values_any. Qed.
Print Assumptions C12_source_rms_values_any.
Theorem C12_source_rms_contiguous_any : forall (A O : Type) (agg : list A -> O) n h s (ds : list (list A)), 1 <= n -> (n | s) ->
  emits_contiguous (run (rms_gen_step agg (fun s0 => s0 / n) Z.add n) None (mkstream h s ds)) (h_scale n h) (s / n).
Proof. exact @source_rms_contiguous_any. Qed.
Print Assumptions C12_source_rms_contiguous_any.
Theorem C12_source_rms_x_values_any : forall (A O : Type) (agg : list A -> O) n h s (ds : list (list A)), 1 <= n ->
  emits_values (run (rms_gen_step agg (fun s0 => s0) (fun t k => t + n * k) n) None (mkstream h s ds))
               (rms_blocks agg n (concat ds)).
Proof. exact @source_rms_x_values_any. Qed.
Print Assumptions C12_source_rms_x_values_any.
Theorem C12_source_rms_x_contiguous_any : forall (A O : Type) (agg : list A -> O) n h s (ds : list (list A)), 1 <= n ->
  exists st outs, run (rms_gen_step agg (fun s0 => s0) (fun t k => t + n * k) n) None (mkstream h s ds) = Some (st, outs) /\
                  contiguous_x n (h_scale n h) s outs.
Proof. exact @source_rms_x_contiguous_any. Qed.
Print Assumptions C12_source_rms_x_contiguous_any.

(* event_rate: generated step = the repaired er_step (left-over trimmed on the left only), every state, every Events chunk *)
Theorem C12_source_event_rate_step : forall bsz stp (s : option er_st) (chunk : events),
  event_rate_gen_step bsz stp (option_map (fun st => (er_ev st, er_s0x2 st)) s) chunk
  = lift (option_map (fun st => (er_ev st, er_s0x2 st))) (er_step true bsz stp s chunk).
Proof. exact event_rate_tie. Qed.
Print Assumptions C12_source_event_rate_step.
Theorem C12_source_event_rate_causal_spec : forall bsz stp lo (cs : list events),
  0 <= bsz -> 1 <= stp -> cs <> [] -> causal lo cs ->
  exists st outs, run (event_rate_gen_step bsz stp) None cs = Some (st, outs) /\
    concat (map r_counts outs) = event_rates bsz stp (ev_all cs) lo (ev_end lo cs) /\
    r_contiguous (2 * lo + bsz) stp outs.
Proof. exact source_event_rate_causal_spec. Qed.
Print Assumptions C12_source_event_rate_causal_spec.
Theorem C12_source_event_rate_causal_chunk_invariant : forall bsz stp lo (cs1 cs2 : list events),
  0 <= bsz -> 1 <= stp -> cs1 <> [] -> cs2 <> [] -> causal lo cs1 -> causal lo cs2 ->
  Permutation (ev_all cs1) (ev_all cs2) -> ev_end lo cs1 = ev_end lo cs2 ->
  exists st1 o1 st2 o2,
    run (event_rate_gen_step bsz stp) None cs1 = Some (st1, o1) /\
    run (event_rate_gen_step bsz stp) None cs2 = Some (st2, o2) /\
    concat (map r_counts o1) = concat (map r_counts o2).
Proof. exact source_event_rate_causal_chunk_invariant. Qed.
Print Assumptions C12_source_event_rate_causal_chunk_invariant.
Theorem C12_source_event_rate_values_any : forall bsz stp lo (cs : list events),
  0 <= bsz -> 1 <= stp -> cs <> [] -> ev_stream_any lo cs ->
  exists st outs, run (event_rate_gen_step bsz stp) None cs = Some (st, outs) /\
    concat (map r_counts outs) = event_rates bsz stp (ev_all cs) lo (ev_end lo cs).
Proof. exact source_event_rate_values_any. Qed.
Print Assumptions C12_source_event_rate_values_any.
Theorem C12_source_event_rate_contiguous_any : forall bsz stp lo (cs : list events),
  0 <= bsz -> 1 <= stp -> cs <> [] -> ev_stream_any lo cs ->
  exists st outs, run (event_rate_gen_step bsz stp) None cs = Some (st, outs) /\ r_contiguous (2 * lo + bsz) stp outs.
Proof. exact source_event_rate_contiguous_any. Qed.
Print Assumptions C12_source_event_rate_contiguous_any.

(* transform, mc_reference, iirfilter: generated step = model step, every state, every chunk *)
Theorem C12_source_transform_step : forall (A O : Type) (g : A -> O) (s : unit) (chunk : blk A),
  transform_gen_step g s chunk = map_step g s chunk.
Proof. exact @transform_tie. Qed.
Print Assumptions C12_source_transform_step.
Theorem C12_source_mc_reference_step : forall (Col : Type) (g : Col -> Col) (s : unit) (chunk : blk Col),
  mc_reference_gen_step g s chunk = map_step g s chunk.
Proof. exact (fun Col => @mc_reference_tie Col Col). Qed.
Print Assumptions C12_source_mc_reference_step.
Theorem C12_source_iirfilter_step : forall (F A : Type) (filt : F -> A -> F * A) (finit : A -> F) (s : option F) (chunk : blk A),
  iirfilter_gen_step filt finit s chunk = iir_step_e true filt finit s chunk.
Proof. exact @iirfilter_tie. Qed.
Print Assumptions C12_source_iirfilter_step.
Theorem C12_source_transform_values_any : forall (A O : Type) (g : A -> O) h s (ds : list (list A)),
  emits_values (run (transform_gen_step g) (transform_gen_init g) (mkstream h s ds)) (map g (concat ds)).
Proof. exact @source_transform_values_any. Qed.
Print Assumptions C12_source_transform_values_any.
Theorem C12_source_transform_contiguous_any : forall (A O : Type) (g : A -> O) h s (ds : list (list A)),
  emits_contiguous (run (transform_gen_step g) (transform_gen_init g) (mkstream h s ds)) h s.
Proof. exact @source_transform_contiguous_any. Qed.
Print Assumptions C12_source_transform_contiguous_any.
Theorem C12_source_mc_reference_values_any : forall (Col : Type) (g : Col -> Col) h s (ds : list (list Col)),
  emits_values (run (mc_reference_gen_step g) (mc_reference_gen_init g) (mkstream h s ds)) (map g (concat ds)).
Proof. exact (fun Col => @source_mc_reference_values_any Col Col). Qed.
Print Assumptions C12_source_mc_reference_values_any.
Theorem C12_source_mc_reference_contiguous_any : forall (Col : Type) (g : Col -> Col) h s (ds : list (list Col)),
  emits_contiguous (run (mc_reference_gen_step g) (mc_reference_gen_init g) (mkstream h s ds)) h s.
Proof. exact (fun Col => @source_mc_reference_contiguous_any Col Col). Qed.
Print Assumptions C12_source_mc_reference_contiguous_any.
Theorem C12_source_iirfilter_values_any : forall (A F : Type) (filt : F -> A -> F * A) finit h s (ds : list (list A)),
  emits_values (run (iirfilter_gen_step filt finit) None (mkstream h s ds)) (iir_filtered filt finit (concat ds)).
Proof. exact (fun A F => @source_iirfilter_values_any F A). Qed.
Print Assumptions C12_source_iirfilter_values_any.
Theorem C12_source_iirfilter_contiguous_any : forall (A F : Type) (filt : F -> A -> F * A) finit h s (ds : list (list A)),
  emits_contiguous (run (iirfilter_gen_step filt finit) None (mkstream h s ds)) h s.
Proof. exact (fun A F => @source_iirfilter_contiguous_any F A). Qed.
Print Assumptions C12_source_iirfilter_contiguous_any.

(* ==================== TRANSLATOR TIE, third batch (added): auto_th ====================
   The coroutine spools the baseline before its main loop; the generated step has three phases over the state
   option (blk A) + T: inl None (nothing received), inl (Some data) (spooling), inr th (threshold fixed) - the model's
   AthAcc None / AthAcc (Some data) / AthRun th.  Generated step = autoth_step, every state, every chunk. *)
Theorem C12_source_auto_th_step : forall (A T O : Type) (thr : list A -> T) (ge : T -> A -> O) Bn (s : ath_st A T) (chunk : blk A),
  auto_th_gen_step thr ge Bn (match s with AthAcc d => inl d | AthRun th => inr th end) chunk
  = lift (fun s' => match s' with AthAcc d => inl d | AthRun th => inr th end) (autoth_step thr ge Bn s chunk).
Proof. exact @auto_th_tie. Qed.
Print Assumptions C12_source_auto_th_step.
Theorem C12_source_auto_th_values_any : forall (A T O : Type) (thr : list A -> T) (ge : T -> A -> O) Bn h s (ds : list (list A)),
  0 <= Bn ->
  emits_values (run (auto_th_gen_step thr ge Bn) (inl None) (mkstream h s ds)) (thresholded thr ge Bn (concat ds)).
Proof. exact @source_auto_th_values_any. Qed.
Print Assumptions C12_source_auto_th_values_any.
Theorem C12_source_auto_th_contiguous_any : forall (A T O : Type) (thr : list A -> T) (ge : T -> A -> O) Bn h s (ds : list (list A)),
  0 <= Bn ->
  emits_contiguous (run (auto_th_gen_step thr ge Bn) (inl None) (mkstream h s ds)) h s.
Proof. exact @source_auto_th_contiguous_any. Qed.
Print Assumptions C12_source_auto_th_contiguous_any.
