(* placeholder while the model is validated *)
From PV Require Import Stages.Model.
