From PV Require Import Queue.Model.
Theorem placeholder : True. Proof. exact I. Qed.
Print Assumptions placeholder.
