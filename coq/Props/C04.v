(* C04 - Pause/resume conserves trials and reports every cancellation exactly once.
   Property theorems only; every proof is `exact <lemma of Queue/ProofsC04.v>`. *)
From PV Require Import Queue.Model Queue.Spec Queue.ProofsC04.

(* What one pause(t) does in any state a history can reach, for t not after the clock: exactly the logged
   (= live) trials ending after t are notified as removed, newest first, each once; they leave the log; each
   gives one trial back to its stimulus; nothing is pending afterwards and the clock is t.
   (The state is quantified over reachable states because the trials clause needs every log key to be an index
   of the data; for an arbitrary qstate record it fails: Queue/ProofsC04.v, pause_exact_unconstrained_refuted.
   The hypothesis-free variants are pause_exact_general / pause_exact_valid there.) *)
Theorem C04_pause_exact : forall p es ch pm ops q ev0 t q' ev err,
  wf_queue p es = true -> wf_hist all_rep (qinit p es ch pm) ops = true ->
  run_hist all_rep (qinit p es ch pm) ops = Some (q, ev0) ->
  0 <= t <= q_samples q -> pause all_rep q (Some t) = (q', ev, err) ->
  err = false /\
  ev = map (fun i => ERemoved (i_key i) (i_t0 i)) (filter (fun i => ends_after i t) (rev (q_generated q))) /\
  q_generated q' = filter (fun i => negb (ends_after i t)) (q_generated q) /\
  q_samples q' = t /\ q_paused q' = true /\ q_source q' = None /\ q_delay q' = 0 /\
  (forall k, trials_of (q_data q') k =
             trials_of (q_data q) k +
             countZ k (map i_key (filter i_dec (filter (fun i => ends_after i t) (q_generated q))))).
Proof. exact pause_exact. Qed.
Print Assumptions C04_pause_exact.

(* Over EVERY finite history of requests, pauses (t not after the clock) and resumes: the log holds exactly the
   non-cancelled trials -- per (stimulus, start) the number of live entries is #added - #removed (so nothing is
   removed that is not live, and nothing twice) -- and every stimulus satisfies
   remaining trials + non-cancelled presentations = requested. *)
Theorem C04_conservation : forall p es ch pm ops q ev,
  wf_queue p es = true -> wf_hist all_rep (qinit p es ch pm) ops = true ->
  run_hist all_rep (qinit p es ch pm) ops = Some (q, ev) ->
  (forall k t0, zlen (filter (eqb_pairZ (k, t0)) (live_of q)) =
                zlen (filter (eqb_pairZ (k, t0)) (added_of ev)) - zlen (filter (eqb_pairZ (k, t0)) (removed_of ev))) /\
  (forall k e, znth es k = Some e -> trials_of (q_data q) k + net_presented k ev = e_requested e).
Proof. exact conservation. Qed.
Print Assumptions C04_conservation.

(* When the queue finally reports empty, none lost, none duplicated: exactly the requested number of
   non-cancelled presentations (at least that many for the keep-completed policies). *)
Theorem C04_at_empty : forall p es ch pm ops q ev,
  wf_queue p es = true -> wf_hist all_rep (qinit p es ch pm) ops = true ->
  run_hist all_rep (qinit p es ch pm) ops = Some (q, ev) -> q_empty q = true ->
  forall k e, znth es k = Some e ->
    if exact_policy p then net_presented k ev = e_requested e else e_requested e <= net_presented k ev.
Proof. exact at_empty. Qed.
Print Assumptions C04_at_empty.

(* while paused: zeros, no trial starts *)
Theorem C04_paused_silent : forall q n, q_paused q = true -> 0 <= n ->
  exists q', pop_buffer all_rep q n = Some (q', repeat OZero (Z.to_nat n), []) /\
             q_generated q' = q_generated q /\ q_data q' = q_data q /\ q_paused q' = true.
Proof. exact paused_silent. Qed.
Print Assumptions C04_paused_silent.

(* after pause(t); resume(t2) the first new trial starts exactly at t2 *)
Theorem C04_resume_start : forall q t t2 q1 ev1 n q3 out ev,
  0 <= t <= q_samples q -> 0 <= t2 -> 0 <= n ->
  pause all_rep q (Some t) = (q1, ev1, false) ->
  pop_buffer all_rep (resume q1 (Some t2)) n = Some (q3, out, ev) ->
  match added_of ev with (_, t0) :: _ => t0 = t2 | [] => True end.
Proof. exact resume_start. Qed.
Print Assumptions C04_resume_start.

(* a pause time later than the queue clock is rejected (ValueError) *)
Theorem C04_future_pause_rejected : forall q t q' ev err,
  q_samples q < t -> pause all_rep q (Some t) = (q', ev, err) -> err = true.
Proof. exact future_pause_rejected. Qed.
Print Assumptions C04_future_pause_rejected.

(* the code before the repairs recorded in known_findings.txt lost or duplicated trials *)
Theorem C04_unrepaired_refuted : exists p es ops q ev k e,
  wf_queue p es = true /\ wf_hist no_rep (qinit p es [] []) ops = true /\
  run_hist no_rep (qinit p es [] []) ops = Some (q, ev) /\ q_empty q = true /\ exact_policy p = true /\
  znth es k = Some e /\ net_presented k ev <> e_requested e.
Proof. exact unrepaired_refuted. Qed.
Print Assumptions C04_unrepaired_refuted.

Example C04_ex :
  let es := [mk_entry 2 3 KArray [2] true; mk_entry 1 2 KGen [1] true] in
  let ops := [Pop 7; Pause (Some 4); Pop 3; Resume (Some 6); Pop 9; Pause (Some 8); Resume (Some 8); Pop 60] in
  wf_queue PFifo es = true /\ wf_hist all_rep (qinit PFifo es [] []) ops = true /\
  conservation_test PFifo es [] [] ops = true.
Proof. vm_compute. repeat split; reflexivity. Qed.

From PV Require Import Queue.SpecX Queue.ProofsXC04 Queue.ProofsXClosest.

(* ======================================================================================
   The ADDITIONS of the coverage audit (Queue/Model.v: xop, pop_buffer(n, decrement=False), rejected pauses
   that do NOT end the history, mk_entry_dur, closest_key).  Vocabulary: Queue/SpecX.v.
   all_rep includes the repair r_pause_atomic: pause(t) checks t against the clock before it cancels anything.
   wf_queue_x only asks 1 <= trials = requested of every stimulus: waveform length, DECLARED duration
   (any value, also different from the length), kind and delays (scalar or finite list) are arbitrary.
   A tagged event is (notification, 'decrement' field of its info dict).
   ====================================================================================== *)

(* Over EVERY finite xop history - requests with or without decrement, pauses at ANY time (a pause after the
   clock is rejected with ValueError but the history goes on), resumes,
   closest-key queries: per (stimulus, start) the live log entries are #added - #removed; for every stimulus
   remaining trials + net presentations of the DECREMENTING trials = requested; the non-decrementing
   presentations neither take nor give back a trial: their net notifications are exactly the non-decrementing
   entries still in the log (never negative), and they do not enter the balance of the trial counter. *)
Theorem C04_conservation_x : forall p es ch pm ops q tev,
  wf_queue_x es = true ->
  run_hist_x all_rep (qinit p es ch pm) ops = Some (q, tev) ->
  (forall k t0, zlen (filter (eqb_pairZ (k, t0)) (live_of q)) =
                zlen (filter (eqb_pairZ (k, t0)) (added_of (all_events tev)))
                - zlen (filter (eqb_pairZ (k, t0)) (removed_of (all_events tev)))) /\
  (forall k e, znth es k = Some e ->
               trials_of (q_data q) k + net_presented k (dec_events tev) = e_requested e) /\
  (forall k, net_presented k (dec_events tev) = countZ k (live_dec q)) /\
  (forall k, net_presented k (nd_events tev) = countZ k (live_nd q) /\ 0 <= net_presented k (nd_events tev)).
Proof. exact conservation_x. Qed.
Print Assumptions C04_conservation_x.

(* ... and when such a history ends with the queue reporting empty: exactly the requested number of
   non-cancelled DECREMENTING presentations (at least that many for the keep-completed policies). No side
   condition on the decrement=False requests is needed. *)
Theorem C04_at_empty_x : forall p es ch pm ops q tev,
  wf_queue_x es = true ->
  run_hist_x all_rep (qinit p es ch pm) ops = Some (q, tev) -> q_empty q = true ->
  forall k e, znth es k = Some e ->
    if exact_policy p then net_presented k (dec_events tev) = e_requested e
    else e_requested e <= net_presented k (dec_events tev).
Proof. exact at_empty_x. Qed.
Print Assumptions C04_at_empty_x.

(* A REJECTED pause (t after the clock) in ANY state: ValueError, no notification, the queue exactly as it was
   (not paused, source and pending delay kept, nothing cancelled, log and counters untouched). *)
Theorem C04_rejected_pause_atomic : forall q t q' ev err,
  q_samples q < t -> pause all_rep q (Some t) = (q', ev, err) -> q' = q /\ ev = [] /\ err = true.
Proof. exact rejected_pause_atomic. Qed.
Print Assumptions C04_rejected_pause_atomic.

(* ... so a history continues as if the rejected call had not been made: removing every rejected pause of an
   xop history (drop_rejected judges each pause against the running state) changes neither the final state
   nor the event stream, and what is left contains no rejected pause. *)
Theorem C04_rejected_pause_is_skip : forall ops q,
  run_hist_x all_rep q (drop_rejected all_rep q ops) = run_hist_x all_rep q ops /\
  rejected_pauses all_rep q (drop_rejected all_rep q ops) = 0.
Proof. exact drop_rejected_same. Qed.
Print Assumptions C04_rejected_pause_is_skip.

(* C04_pause_exact carried over to the xop-reachable states: log entries with decrement=False are announced
   but give nothing back, and `ends_after` is judged on the DECLARED duration. *)
Theorem C04_pause_exact_x : forall p es ch pm ops q tev0 t q' ev err,
  wf_queue_x es = true ->
  run_hist_x all_rep (qinit p es ch pm) ops = Some (q, tev0) ->
  t <= q_samples q -> pause all_rep q (Some t) = (q', ev, err) ->
  err = false /\
  ev = map (fun i => ERemoved (i_key i) (i_t0 i)) (filter (fun i => ends_after i t) (rev (q_generated q))) /\
  q_generated q' = filter (fun i => negb (ends_after i t)) (q_generated q) /\
  q_samples q' = t /\ q_paused q' = true /\ q_source q' = None /\ q_delay q' = 0 /\
  (forall k, trials_of (q_data q') k =
             trials_of (q_data q) k +
             countZ k (map i_key (filter i_dec (filter (fun i => ends_after i t) (q_generated q))))).
Proof. exact pause_exact_x. Qed.
Print Assumptions C04_pause_exact_x.

(* Before the repair r_pause_atomic (rep_nonatomic = every other repair in force) a rejected pause did NOT
   leave the queue as it was, nor did it cleanly cancel the trial in progress: with the clock at 2 inside a
   trial ending at 5, pause(7) raised, announced nothing and restored nothing, yet dropped the rest of the
   waveform and left the queue paused.  (Its exact effect then: rejected_pause_effect_unrepaired in
   Queue/ProofsXC04.v.) *)
Theorem C04_rejected_pause_unrepaired_refuted : exists p es ops q tev t q' ev err k pos len,
  wf_queue p es = true /\ wf_queue_x es = true /\
  run_hist_x rep_nonatomic (qinit p es [] []) ops = Some (q, tev) /\
  q_samples q < t /\ pause rep_nonatomic q (Some t) = (q', ev, err) /\ err = true /\
  q_source q = Some (k, pos, len) /\ pos < len /\
  ev = [] /\ q_generated q' = q_generated q /\ q_data q' = q_data q /\
  q_source q' = None /\ q_paused q' = true /\ q' <> q.
Proof. exact rejected_pause_unrepaired_refuted. Qed.
Print Assumptions C04_rejected_pause_unrepaired_refuted.

(* C04_resume_start for requests with or without decrement: after an accepted pause(t) and resume(t2) the
   first new trial starts exactly at t2.  (After a REJECTED pause this is no longer claimed: the queue is
   untouched, so a trial or delay in progress simply continues after the resume.) *)
Theorem C04_resume_start_x : forall q t t2 q1 ev1 err n dec q3 out ev,
  t <= q_samples q ->
  pause all_rep q (Some t) = (q1, ev1, err) ->
  pop_x all_rep (resume q1 (Some t2)) n dec = Some (q3, out, ev) ->
  match added_of ev with (_, t0) :: _ => t0 = t2 | [] => True end.
Proof. exact resume_start_x. Qed.
Print Assumptions C04_resume_start_x.

(* get_closest_key(t) in ANY state: None (-1) iff no logged trial has t0 <= t, otherwise the key of the LAST
   log entry with t0 <= t *)
Theorem C04_closest_key_spec : forall q t,
  (closest_key q t = -1 /\ forall i, In i (q_generated q) -> t < i_t0 i) \/
  (exists l1 i l2, q_generated q = l1 ++ i :: l2 /\ i_t0 i <= t /\ (forall j, In j l2 -> t < i_t0 j) /\
                   closest_key q t = i_key i).
Proof. exact closest_key_spec. Qed.
Print Assumptions C04_closest_key_spec.

(* Along every xop history in which time only moves forward (each resume(t2) has t2 not before the clock;
   pauses - accepted or rejected - anywhere) and declared durations are not negative, the log is sorted by
   start time and nothing in it starts after the clock ... *)
Theorem C04_log_sorted : forall p es ch pm ops q tev,
  dur_nonneg es = true ->
  fwd_hist_x all_rep (qinit p es ch pm) ops = true ->
  run_hist_x all_rep (qinit p es ch pm) ops = Some (q, tev) ->
  sorted_t0 (q_generated q) = true /\ (forall i, In i (q_generated q) -> i_t0 i <= q_samples q).
Proof. exact log_sorted. Qed.
Print Assumptions C04_log_sorted.

(* ... so there get_closest_key(t) is the key (a valid stimulus index) of the non-cancelled trial with the
   LATEST start <= t. *)
Theorem C04_closest_key_latest : forall p es ch pm ops q tev t,
  wf_queue_x es = true -> dur_nonneg es = true ->
  fwd_hist_x all_rep (qinit p es ch pm) ops = true ->
  run_hist_x all_rep (qinit p es ch pm) ops = Some (q, tev) ->
  (closest_key q t = -1 /\ forall i, In i (q_generated q) -> t < i_t0 i) \/
  (exists i, In i (q_generated q) /\ closest_key q t = i_key i /\ 0 <= i_key i < zlen es /\ i_t0 i <= t /\
             forall j, In j (q_generated q) -> i_t0 j <= t -> i_t0 j <= i_t0 i).
Proof. exact closest_key_latest. Qed.
Print Assumptions C04_closest_key_latest.

(* without the forward condition it fails: after resume(t2) with t2 before the clock the log is out of order
   and the newest entry with t0 <= t is not the latest start *)
Theorem C04_log_sorted_backward_resume_refuted : exists p es ops q tev t i j,
  wf_queue p es = true /\ wf_hist_x ops = true /\
  run_hist_x all_rep (qinit p es [] []) ops = Some (q, tev) /\
  fwd_hist_x all_rep (qinit p es [] []) ops = false /\
  sorted_t0 (q_generated q) = false /\
  In i (q_generated q) /\ In j (q_generated q) /\ closest_key q t = i_key i /\
  i_t0 j <= t /\ i_t0 i < i_t0 j /\ i_key i <> i_key j.
Proof. exact log_sorted_backward_resume_refuted. Qed.
Print Assumptions C04_log_sorted_backward_resume_refuted.

Example C04_x_ex :
  let es := [mk_entry_dur 2 3 KArray [2] true 5; mk_entry_dur 2 4 KGen [1; 0; 3; 1] false 1] in
  let ops := [XPop 4 false; XPause (Some 20); XResume None; XPop 5 true; XClosest 3; XPause (Some 30);
              XPause (Some 2); XResume (Some 9); XPop 40 true; XPop 40 true] in
  let q0 := qinit PFifo es [] [] in
  wf_queue_x es = true /\ wf_queue PFifo es = false /\ dur_nonneg es = true /\ wf_hist_x ops = true /\
  fwd_hist_x all_rep q0 ops = true /\ rejected_pauses all_rep q0 ops = 2 /\
  conservation_x_test PFifo es [] [] ops = true /\
  match run_hist_x all_rep q0 ops with Some (q, tev) => q_empty q && negb (zlen (nd_events tev) =? 0) | None => false end = true.
Proof. vm_compute. repeat split; reflexivity. Qed.

From PV Require Import Queue.TieLib Queue.TieLibC04 gen.QueueStepGen Queue.ProofsTie Queue.ProofsTieC04.

(* ======================================================================================
   TRANSLATOR TIE (see the same section of Props/C02.v).  gen/QueueStepGen.v is regenerated from psiaudio/queue.py on
   every run; it now also holds the pause / resume path - _ends_after, rewind_samples, cancel, requeue (base class and
   the interleaved override, dispatched as the class hierarchy of the source says), pause, resume - statement by
   statement, times read as sample numbers.  `mk q ev` is the queue object: the model's state and the notifications
   delivered so far; g_hist runs a history with the GENERATED pop_buffer / pause / resume (None = an exception escaped).
   Proofs: coq/Queue/ProofsTieC04.v.
   ====================================================================================== *)

(* pause(t) of the source is the model's pause with every repair on: same state, the removed notifications appended,
   or ValueError with the object untouched - in every state whose logged keys have their stimulus dicts *)
Theorem C04_source_pause : forall q ev t, log_keys_ok q ->
  g_pause (mk q ev) t =
  let '(q', evs, err) := pause all_rep q t in
  if err then GRaise EValueError (mk q ev) else GOk (mk q' (ev ++ evs)) tt.
Proof. exact tie_pause. Qed.
Print Assumptions C04_source_pause.

(* that hypothesis is needed (source: KeyError half-way through; model: nobody gets the trial back) *)
Theorem C04_source_pause_refuted : exists q s q' evs, ~ log_keys_ok q /\
  g_pause (mk q []) (Some 0) = GRaise EKeyError s /\ pause all_rep q (Some 0) = (q', evs, false).
Proof. exact tie_pause_refuted. Qed.
Print Assumptions C04_source_pause_refuted.

(* resume(t), in ANY state *)
Theorem C04_source_resume : forall q ev t, g_resume (mk q ev) t = GOk (mk (resume q t) ev) tt.
Proof. exact tie_resume. Qed.
Print Assumptions C04_source_resume.

(* a history run with the generated methods is the model's history *)
Theorem C04_source_history_is_model_history : forall p es ch pm ops self,
  wf_queue p es = true -> oracle_ok p pm ->
  g_hist (mk (qinit p es ch pm) []) ops = Some self ->
  run_hist all_rep (qinit p es ch pm) ops = Some (o_q self, o_ev self).
Proof. exact source_hist_is_model_hist. Qed.
Print Assumptions C04_source_history_is_model_history.

(* C04_conservation over generated histories *)
Theorem C04_source_conservation : forall p es ch pm ops self,
  wf_queue p es = true -> oracle_ok p pm -> wf_hist all_rep (qinit p es ch pm) ops = true ->
  g_hist (mk (qinit p es ch pm) []) ops = Some self ->
  (forall k t0, zlen (filter (eqb_pairZ (k, t0)) (live_of (o_q self))) =
                zlen (filter (eqb_pairZ (k, t0)) (added_of (o_ev self)))
                - zlen (filter (eqb_pairZ (k, t0)) (removed_of (o_ev self)))) /\
  (forall k e, znth es k = Some e -> trials_of (q_data (o_q self)) k + net_presented k (o_ev self) = e_requested e).
Proof. exact source_conservation. Qed.
Print Assumptions C04_source_conservation.

(* C04_at_empty over generated histories *)
Theorem C04_source_at_empty : forall p es ch pm ops self,
  wf_queue p es = true -> oracle_ok p pm -> wf_hist all_rep (qinit p es ch pm) ops = true ->
  g_hist (mk (qinit p es ch pm) []) ops = Some self -> q_empty (o_q self) = true ->
  forall k e, znth es k = Some e ->
    if exact_policy p then net_presented k (o_ev self) = e_requested e else e_requested e <= net_presented k (o_ev self).
Proof. exact source_at_empty. Qed.
Print Assumptions C04_source_at_empty.

(* C04_pause_exact: the generated pause(t) after a generated history *)
Theorem C04_source_pause_exact : forall p es ch pm ops self t,
  wf_queue p es = true -> oracle_ok p pm -> wf_hist all_rep (qinit p es ch pm) ops = true ->
  g_hist (mk (qinit p es ch pm) []) ops = Some self -> 0 <= t <= q_samples (o_q self) ->
  exists self', g_pause self (Some t) = GOk self' tt /\
    o_ev self' = o_ev self ++ map (fun i => ERemoved (i_key i) (i_t0 i))
                                  (filter (fun i => ends_after i t) (rev (q_generated (o_q self)))) /\
    q_generated (o_q self') = filter (fun i => negb (ends_after i t)) (q_generated (o_q self)) /\
    q_samples (o_q self') = t /\ q_paused (o_q self') = true /\ q_source (o_q self') = None /\ q_delay (o_q self') = 0 /\
    (forall k, trials_of (q_data (o_q self')) k =
               trials_of (q_data (o_q self)) k +
               countZ k (map i_key (filter i_dec (filter (fun i => ends_after i t) (q_generated (o_q self)))))).
Proof. exact source_pause_exact. Qed.
Print Assumptions C04_source_pause_exact.

(* C04_future_pause_rejected: ValueError and the object untouched, in ANY state *)
Theorem C04_source_future_pause_rejected : forall self t,
  q_samples (o_q self) < t -> g_pause self (Some t) = GRaise EValueError self.
Proof. exact source_future_pause_rejected. Qed.
Print Assumptions C04_source_future_pause_rejected.

Example C04_source_ex :
  let es := [mk_entry 2 3 KArray [2] true; mk_entry 1 2 KGen [1] true] in
  let ops := [Pop 7; Pause (Some 4); Pop 3; Resume (Some 6); Pop 9; Pause (Some 8); Resume (Some 8); Pop 60] in
  wf_queue PFifo es = true /\ oracle_ok PFifo [] /\ wf_hist all_rep (qinit PFifo es [] []) ops = true /\
  match g_hist (mk (qinit PFifo es [] []) []) ops with
  | Some self => q_empty (o_q self) && (net_presented 0 (o_ev self) =? 2) && (net_presented 1 (o_ev self) =? 1)
  | None => false
  end = true.
Proof. exact source_c04_ex. Qed.
