(* C04 - Pause/resume conserves trials and reports every cancellation exactly once.
   Property theorems only; every proof is `exact <lemma of Queue/ProofsC04.v>`. *)
From PV Require Import Queue.Model Queue.Spec Queue.ProofsC04.

(* What one pause(t) does in any state a history can reach, for t not after the clock: exactly the logged
   (= live) trials ending after t are notified as removed, newest first, each once; they leave the log; each
   gives one trial back to its stimulus; nothing is pending afterwards and the clock is t.
   (The state is quantified over reachable states because the trials clause needs every log key to be an index
   of the data; for an arbitrary qstate record it fails: Queue/ProofsC04.v, pause_exact_unconstrained_refuted.
   The hypothesis-free variants are pause_exact_general / pause_exact_valid there.) *)
Theorem C04_pause_exact : forall p es ch pm ops q ev0 t q' ev err,
  wf_queue p es = true -> wf_hist all_rep (qinit p es ch pm) ops = true ->
  run_hist all_rep (qinit p es ch pm) ops = Some (q, ev0) ->
  0 <= t <= q_samples q -> pause all_rep q (Some t) = (q', ev, err) ->
  err = false /\
  ev = map (fun i => ERemoved (i_key i) (i_t0 i)) (filter (fun i => ends_after i t) (rev (q_generated q))) /\
  q_generated q' = filter (fun i => negb (ends_after i t)) (q_generated q) /\
  q_samples q' = t /\ q_paused q' = true /\ q_source q' = None /\ q_delay q' = 0 /\
  (forall k, trials_of (q_data q') k =
             trials_of (q_data q) k +
             countZ k (map i_key (filter i_dec (filter (fun i => ends_after i t) (q_generated q))))).
Proof. exact pause_exact. Qed.
Print Assumptions C04_pause_exact.

(* Over EVERY finite history of requests, pauses (t not after the clock) and resumes: the log holds exactly the
   non-cancelled trials -- per (stimulus, start) the number of live entries is #added - #removed (so nothing is
   removed that is not live, and nothing twice) -- and every stimulus satisfies
   remaining trials + non-cancelled presentations = requested. *)
Theorem C04_conservation : forall p es ch pm ops q ev,
  wf_queue p es = true -> wf_hist all_rep (qinit p es ch pm) ops = true ->
  run_hist all_rep (qinit p es ch pm) ops = Some (q, ev) ->
  (forall k t0, zlen (filter (eqb_pairZ (k, t0)) (live_of q)) =
                zlen (filter (eqb_pairZ (k, t0)) (added_of ev)) - zlen (filter (eqb_pairZ (k, t0)) (removed_of ev))) /\
  (forall k e, znth es k = Some e -> trials_of (q_data q) k + net_presented k ev = e_requested e).
Proof. exact conservation. Qed.
Print Assumptions C04_conservation.

(* When the queue finally reports empty, none lost, none duplicated: exactly the requested number of
   non-cancelled presentations (at least that many for the keep-completed policies). *)
Theorem C04_at_empty : forall p es ch pm ops q ev,
  wf_queue p es = true -> wf_hist all_rep (qinit p es ch pm) ops = true ->
  run_hist all_rep (qinit p es ch pm) ops = Some (q, ev) -> q_empty q = true ->
  forall k e, znth es k = Some e ->
    if exact_policy p then net_presented k ev = e_requested e else e_requested e <= net_presented k ev.
Proof. exact at_empty. Qed.
Print Assumptions C04_at_empty.

(* while paused: zeros, no trial starts *)
Theorem C04_paused_silent : forall q n, q_paused q = true -> 0 <= n ->
  exists q', pop_buffer all_rep q n = Some (q', repeat OZero (Z.to_nat n), []) /\
             q_generated q' = q_generated q /\ q_data q' = q_data q /\ q_paused q' = true.
Proof. exact paused_silent. Qed.
Print Assumptions C04_paused_silent.

(* after pause(t); resume(t2) the first new trial starts exactly at t2 *)
Theorem C04_resume_start : forall q t t2 q1 ev1 n q3 out ev,
  0 <= t <= q_samples q -> 0 <= t2 -> 0 <= n ->
  pause all_rep q (Some t) = (q1, ev1, false) ->
  pop_buffer all_rep (resume q1 (Some t2)) n = Some (q3, out, ev) ->
  match added_of ev with (_, t0) :: _ => t0 = t2 | [] => True end.
Proof. exact resume_start. Qed.
Print Assumptions C04_resume_start.

(* a pause time later than the queue clock is rejected (ValueError) *)
Theorem C04_future_pause_rejected : forall q t q' ev err,
  q_samples q < t -> pause all_rep q (Some t) = (q', ev, err) -> err = true.
Proof. exact future_pause_rejected. Qed.
Print Assumptions C04_future_pause_rejected.

(* the code before the repairs recorded in known_findings.txt lost or duplicated trials *)
Theorem C04_unrepaired_refuted : exists p es ops q ev k e,
  wf_queue p es = true /\ wf_hist no_rep (qinit p es [] []) ops = true /\
  run_hist no_rep (qinit p es [] []) ops = Some (q, ev) /\ q_empty q = true /\ exact_policy p = true /\
  znth es k = Some e /\ net_presented k ev <> e_requested e.
Proof. exact unrepaired_refuted. Qed.
Print Assumptions C04_unrepaired_refuted.

Example C04_ex :
  let es := [mk_entry 2 3 KArray [2] true; mk_entry 1 2 KGen [1] true] in
  let ops := [Pop 7; Pause (Some 4); Pop 3; Resume (Some 6); Pop 9; Pause (Some 8); Resume (Some 8); Pop 60] in
  wf_queue PFifo es = true /\ wf_hist all_rep (qinit PFifo es [] []) ops = true /\
  conservation_test PFifo es [] [] ops = true.
Proof. vm_compute. repeat split; reflexivity. Qed.
