(* C14 - Signal buffer returns exactly the retained window of the logical stream.
   Property theorems only; every proof is `exact <lemma of Buffer/Proofs.v>`. *)
From PV Require Import Buffer.Model Buffer.Spec Buffer.Proofs.
From PV Require FloatGrid.Statements.

(* Refinement: for EVERY finite history of appends (any size >= 1, incl. larger than the capacity),
   invalidations (any sample >= 0), resizes (>= 1 sample) and reads (lower <= upper), started from
   an empty buffer of any capacity >= 1, every observable output of the ring-buffer code equals the
   output of the abstract specification (logical stream + oldest retained index). *)
Theorem C14_refines_spec : forall c fill ops, 1 <= c -> wf_hist (sinit c fill) ops = true ->
  snd (run (binit c fill) ops) = snd (spec_run (sinit c fill) ops).
Proof. exact refines_spec. Qed.
Print Assumptions C14_refines_spec.

(* The abstract state always satisfies 0 <= lower <= upper = length of the logical stream and
   retains min(capacity, what was available) samples ... *)
Theorem C14_spec_bounds : forall c fill ops s, 1 <= c -> wf_hist (sinit c fill) ops = true ->
  fst (spec_run (sinit c fill) ops) = s ->
  0 <= lo s <= slen s /\ slen s - lo s <= scap s /\ 1 <= scap s.
Proof. exact spec_bounds. Qed.
Print Assumptions C14_spec_bounds.

(* ... hence so do the bounds the code reports after any history. *)
Theorem C14_bounds : forall c fill ops b, 1 <= c -> wf_hist (sinit c fill) ops = true ->
  fst (run (binit c fill) ops) = b ->
  0 <= samples_lb b <= samples_ub b /\ samples_ub b - samples_lb b <= cap b /\
  samples_ub b = slen (fst (spec_run (sinit c fill) ops)) /\
  samples_lb b = lo (fst (spec_run (sinit c fill) ops)).
Proof. exact bounds_after_history. Qed.
Print Assumptions C14_bounds.

(* An append retains the most recent min(capacity, previously retained + appended) samples. *)
Theorem C14_append_window : forall s d, d <> [] -> 0 <= lo s <= slen s -> 1 <= scap s ->
  let s' := spec_step s (Append d) in
  slen s' - lo s' = Z.min (scap s) (slen s - lo s + zlen d) /\ slen s' = slen s + zlen d.
Proof. exact append_window. Qed.
Print Assumptions C14_append_window.

(* The code before the two repairs recorded in known_findings.txt did not refine the spec. *)
Theorem C14_unrepaired_refuted : exists c fill ops, 1 <= c /\ wf_hist (sinit c fill) ops = true /\
  snd (run_unrepaired (binit c fill) ops) <> snd (spec_run (sinit c fill) ops).
Proof. exact unrepaired_refuted. Qed.
Print Assumptions C14_unrepaired_refuted.

(* The model works in samples; the code converts times with round(t*fs).  For a time k/fs that
   conversion returns k at every real rate in [1, 2^40] (binary64, Flocq):
   time_to_samples_on_grid := forall k fs, 0 < k < 2^50 -> 1 <= fs <= 2^40 -> round(RN(RN(k/fs)*fs)) = k *)
Theorem C14_time_to_samples_on_grid : FloatGrid.Statements.time_to_samples_on_grid.
Proof. exact FloatGrid.Statements.time_to_samples_on_grid_holds. Qed.
Print Assumptions C14_time_to_samples_on_grid.

Example C14_ex : wf_hist (sinit 3 (-1)) [Append [1;2]; Append [3;4;5;6]; Invalidate 5; Resize 5; Append [7];
                                       ReadS None None; ReadFilled 0 8 9; Bounds] = true /\
  snd (run (binit 3 (-1)) [Append [1;2]; Append [3;4;5;6]; Invalidate 5; Resize 5; Append [7];
                           ReadS None None; ReadFilled 0 8 9; Bounds])
  = [ONone; ONone; ONone; ONone; ONone; OData [4;5;7]; OData [9;9;9;4;5;7;9;9]; OBounds 3 6].
Proof. vm_compute. split; reflexivity. Qed.

(* ====================================================================================
   Extension: the public index translation, reads stated against the history alone, crossed
   plain reads.  Proofs in Buffer/ProofsX.v, specifications in Buffer/SpecX.v. *)
From PV Require Import Buffer.SpecX Buffer.ProofsX.

(* samples_to_index / time_to_index after EVERY well-formed history is the translation the abstract
   view prescribes (newest sample at the right end of a store of `scap` slots), for every sample number *)
Theorem C14_index_refines : forall c fill ops, 1 <= c -> wf_hist (sinit c fill) ops = true ->
  forall i, samples_to_index (fst (run (binit c fill) ops)) i
            = spec_index (fst (spec_run (sinit c fill) ops)) i.
Proof. exact index_refines. Qed.
Print Assumptions C14_index_refines.

(* ... the reported bounds translate to the valid-start index and to the capacity, every sample inside
   the window translates to an index ilb <= k < capacity, and the CONCRETE storage slot at that index holds
   exactly that sample of the logical stream (`logical ops`: a function of the history alone) *)
Theorem C14_index_in_window : forall c fill ops b, 1 <= c -> wf_hist (sinit c fill) ops = true ->
  fst (run (binit c fill) ops) = b ->
  zlen (buf b) = cap b /\
  samples_to_index b (samples_lb b) = ilb b /\
  samples_to_index b (samples_ub b) = cap b /\
  forall i, samples_lb b <= i < samples_ub b ->
    0 <= ilb b <= samples_to_index b i /\ samples_to_index b i < cap b /\
    nth (Z.to_nat (samples_to_index b i)) (buf b) 0 = nth (Z.to_nat i) (logical ops) 0.
Proof. exact index_in_window. Qed.
Print Assumptions C14_index_in_window.

(* the abstract stream is a function of the history alone (appends concatenated, an invalidation cuts it
   back); without invalidations it is the concatenation of everything appended *)
Theorem C14_stream_is_history : forall c fill ops,
  stream (fst (spec_run (sinit c fill) ops)) = logical ops /\
  (no_invalidate ops = true -> logical ops = appended ops).
Proof. exact stream_is_history. Qed.
Print Assumptions C14_stream_is_history.

(* Reads after EVERY well-formed history, in terms of the history and the reported bounds only: the upper
   bound is the length of the logical stream; a range read returns exactly samples [a, e) of the logical
   stream when the range lies inside the reported bounds and raises IndexError otherwise; a filled read
   returns, position by position, the stream sample inside the bounds and the fill value outside *)
Theorem C14_read_is_stream_slice : forall c fill ops b, 1 <= c -> wf_hist (sinit c fill) ops = true ->
  fst (run (binit c fill) ops) = b ->
  samples_ub b = zlen (logical ops) /\
  (forall a e, a <= e ->
     get_range_samples b (Some a) (Some e) =
     if (samples_lb b <=? a) && (e <=? samples_ub b) then OData (slice (logical ops) a e)
     else OIndexError) /\
  (forall a e f, a <= e ->
     get_range_filled b a e f =
     OData (zrange (sample_or (logical ops) (samples_lb b) (samples_ub b) f) a (e - a))).
Proof. exact read_is_stream_slice. Qed.
Print Assumptions C14_read_is_stream_slice.

(* ... and without invalidations every in-window read is a slice of the concatenation of everything appended *)
Theorem C14_read_is_appended_slice : forall c fill ops b, 1 <= c -> wf_hist (sinit c fill) ops = true ->
  no_invalidate ops = true -> fst (run (binit c fill) ops) = b ->
  samples_ub b = zlen (appended ops) /\
  forall a e, samples_lb b <= a -> a <= e -> e <= samples_ub b ->
    get_range_samples b (Some a) (Some e) = OData (slice (appended ops) a e).
Proof. exact read_is_appended_slice. Qed.
Print Assumptions C14_read_is_appended_slice.

(* Every op constructor and read variant of the model (ReadS with either bound omitted, ReadFilled, Latest
   with and without fill, Bounds, Resize) is already quantified over by C14_refines_spec; what it leaves out
   are reads with crossed bounds.  For the plain reads the refinement extends to those whose upper bound is
   at most one capacity behind the newest sample (wf_hist_x; every wf_hist history is a wf_hist_x history:
   ProofsX.wf_hist_wf_hist_x) ... *)
Theorem C14_refines_spec_x : forall c fill ops, 1 <= c -> wf_hist_x (sinit c fill) ops = true ->
  snd (run (binit c fill) ops) = snd (spec_run (sinit c fill) ops).
Proof. exact refines_spec_x. Qed.
Print Assumptions C14_refines_spec_x.

(* ... and not further: a crossed read whose upper bound lies more than a capacity back wraps around as a
   negative slice bound and returns samples for an empty request
   (code: SignalBuffer(1, 3); append 1..5; get_range_samples(2, 1) -> [3, 4]) *)
Theorem C14_crossed_read_refuted : exists c fill ops, 1 <= c /\
  wf_hist (sinit c fill) (removelast ops) = true /\
  (exists a e, last ops Bounds = ReadS (Some a) (Some e) /\ e < a) /\
  snd (run (binit c fill) ops) <> snd (spec_run (sinit c fill) ops).
Proof. exact crossed_read_refuted. Qed.
Print Assumptions C14_crossed_read_refuted.

Example C14_ex_x : wf_hist (sinit 3 0) [Append [1;2]; Invalidate 1; Append [3;4;5]] = true /\
  logical [Append [1;2]; Invalidate 1; Append [3;4;5]] = [1;3;4;5] /\
  (let b := fst (run (binit 3 0) [Append [1;2]; Invalidate 1; Append [3;4;5]]) in
   samples_lb b = 1 /\ samples_ub b = 4 /\ samples_to_index b 2 = 1 /\ nth 1 (buf b) 0 = 4) /\
  wf_hist_x (sinit 3 0) [Append [1;2;3;4;5]; ReadS (Some 4) (Some 2)] = true.
Proof. vm_compute. repeat split; reflexivity. Qed.

(* ====================================================================================
   Extension: zero-length appends (psiaudio 0eafd08: append_data returns at once on an empty chunk).
   Definitions and proofs in Buffer/ProofsXE.v. *)
From PV Require Import Buffer.ProofsXE.

(* the refinement for histories that, besides everything C14_refines_spec_x covers, contain `Append []` anywhere
   (wf_hist_e; every wf_hist_x history is one: ProofsXE.wf_hist_x_wf_hist_e) *)
Theorem C14_refines_spec_e : forall c fill ops, 1 <= c -> wf_hist_e (sinit c fill) ops = true ->
  snd (run (binit c fill) ops) = snd (spec_run (sinit c fill) ops).
Proof. exact refines_spec_e_out. Qed.
Print Assumptions C14_refines_spec_e.

(* an empty append is a no-op: on every state with a non-negative capacity and valid-start index (a record
   with a negative one is changed: ProofsXE.append_empty_unconstrained_refuted), on every abstract state
   that retains at most its capacity, and hence in every state a wf_hist_e history reaches *)
Theorem C14_empty_append_noop :
  (forall b, 0 <= cap b -> 0 <= ilb b -> append b [] = b) /\
  (forall s, slen s - lo s <= scap s -> spec_step s (Append []) = s) /\
  (forall c fill ops, 1 <= c -> wf_hist_e (sinit c fill) ops = true ->
     step (fst (run (binit c fill) ops)) (Append []) = (fst (run (binit c fill) ops), ONone) /\
     spec_step (fst (spec_run (sinit c fill) ops)) (Append []) = fst (spec_run (sinit c fill) ops)).
Proof. exact empty_append_noop. Qed.
Print Assumptions C14_empty_append_noop.

(* ... so deleting the empty appends from ANY history (no well-formedness needed) changes neither the final
   state nor any output (drop_outs removes the None results of the deleted calls), and what is left has none *)
Theorem C14_empty_append_is_skip : forall c fill ops, 1 <= c ->
  fst (run (binit c fill) (drop_empty ops)) = fst (run (binit c fill) ops) /\
  snd (run (binit c fill) (drop_empty ops)) = drop_outs ops (snd (run (binit c fill) ops)) /\
  forallb (fun o => negb (is_empty_append o)) (drop_empty ops) = true.
Proof. exact drop_empty_skip. Qed.
Print Assumptions C14_empty_append_is_skip.

Example C14_ex_e : 1 <= 3 /\
  wf_hist_e (sinit 3 0) [Append []; Append [1;2;3;4]; Invalidate 3; Append []; ReadS None None] = true /\
  snd (run (binit 3 0) [Append []; Append [1;2;3;4]; Invalidate 3; Append []; ReadS None None])
    = [ONone; ONone; ONone; ONone; OData [2; 3]].
Proof. vm_compute. repeat split; reflexivity || congruence. Qed.

(* ====================================================================================
   Translator tie: the theorems above are about the hand-written model of Buffer/Model.v.  gen/BufferStepGen.v holds one
   definition `g_<method>` per method of SignalBuffer, REGENERATED from psiaudio/buffer.py on every run
   (translate/pybuffer2coq.py, hook harness/C14.py translate(); statement by statement, exceptions as values `Raise` /
   `MRaise`, NumPy slice assignment / np.full / np.pad as in Buffer/TieLib.v).  Buffer/ProofsTie.v proves that these
   definitions equal the model, so that what is proved of the model is proved of what the source says now. *)
From PV Require Import Buffer.TieLib gen.BufferStepGen Buffer.ProofsTie.

(* bounds, index translations and all reads of the source are the model's - in EVERY state (no invariant needed) *)
Theorem C14_source_reads : forall b : bstate,
  (forall i, g_samples_to_index b i = samples_to_index b i) /\
  (forall t, g_time_to_index b t = samples_to_index b t) /\
  g_get_samples_lb b = samples_lb b /\ g_get_samples_ub b = samples_ub b /\
  (forall lb ub, out_of_res (g_get_range_samples b lb ub) = get_range_samples b lb ub) /\
  (forall a e f, out_of_res (g_get_range_filled b a e f) = get_range_filled b a e f) /\
  (forall a e f, out_of_res (g_get_latest b a e f) = get_latest b a e f).
Proof. exact source_reads. Qed.
Print Assumptions C14_source_reads.

(* constructor and mutators of the source are the model's in every state with
   binv b := len(_buffer) = _buffer_samples /\ 0 <= _ilb <= _buffer_samples /\ 1 <= _buffer_samples.
   Invalidation: the source fills the freed slots with the buffer's fill value, the model with NaN (`nanv`); the results
   agree on all bookkeeping fields and on every slot from _ilb on (bsim), and are equal when the fill value is NaN *)
Theorem C14_source_mutators :
  (forall c fill, 0 <= c -> g_init c fill = MOk (binit c fill)) /\
  (forall b, binv b ->
     (forall d, g_append_data b d = MOk (append b d)) /\
     (forall m, 0 <= m -> g_resize b m = MOk (resize b m)) /\
     (forall i, exists b', g_invalidate_samples b i = MOk b' /\ g_invalidate b i = MOk b' /\
                           bsim b' (invalidate_samples b i) /\
                           (fillv b = nanv -> b' = invalidate_samples b i))).
Proof. exact source_mutators. Qed.
Print Assumptions C14_source_mutators.

(* ... and not without those hypotheses: a negative number of slots, a buffer of zero slots, a negative resize, and
   the freed slots of an invalidation with a fill value other than NaN *)
Theorem C14_source_mutators_need_invariant :
  (exists c fill, g_init c fill <> MOk (binit c fill)) /\
  (exists b d, g_append_data b d <> MOk (append b d)) /\
  (exists b m, binv b /\ g_resize b m <> MOk (resize b m)) /\
  (exists b i, binv b /\ g__invalidate b i <> MOk (invalidate_idx true b i)).
Proof. exact source_mutators_need_invariant. Qed.
Print Assumptions C14_source_mutators_need_invariant.

(* one operation of a history, dispatched to the generated methods (g_step), against the model's `step` *)
Theorem C14_source_step : forall b o, binv b -> resize_ok o ->
  snd (g_step b o) = snd (step b o) /\ bsim (fst (g_step b o)) (fst (step b o)) /\
  (is_invalidate o = false \/ fillv b = nanv -> g_step b o = step b o).
Proof. exact source_step. Qed.
Print Assumptions C14_source_step.

Theorem C14_source_step_exact_refuted :
  exists b o, binv b /\ resize_ok o /\ wf_op o = true /\ g_step b o <> step b o.
Proof. exact tie_step_exact_refuted. Qed.
Print Assumptions C14_source_step_exact_refuted.

(* C14_refines_spec restated over the run built from the GENERATED step: the constructor of the source succeeds, and
   every observable output of every well-formed history is the abstract specification's *)
Theorem C14_source_refines_spec : forall c fill ops, 1 <= c -> wf_hist (sinit c fill) ops = true ->
  exists b0, g_init c fill = MOk b0 /\ snd (g_run b0 ops) = snd (spec_run (sinit c fill) ops).
Proof. exact source_refines_spec. Qed.
Print Assumptions C14_source_refines_spec.

(* ... for the widest class of histories (crossed plain reads, zero-length appends), with the simulation relation *)
Theorem C14_source_refines_spec_e : forall c fill ops, 1 <= c -> wf_hist_e (sinit c fill) ops = true ->
  exists b0, g_init c fill = MOk b0 /\
    snd (g_run b0 ops) = snd (spec_run (sinit c fill) ops) /\
    Rel (fst (g_run b0 ops)) (fst (spec_run (sinit c fill) ops)).
Proof. exact source_refines_spec_e. Qed.
Print Assumptions C14_source_refines_spec_e.

(* ... hence the generated run and the model's run agree on every output of every such history, on all bookkeeping
   fields and on every slot a read can reach *)
Theorem C14_source_matches_model : forall c fill ops, 1 <= c -> wf_hist_e (sinit c fill) ops = true ->
  exists b0, g_init c fill = MOk b0 /\
    snd (g_run b0 ops) = snd (run (binit c fill) ops) /\
    (let g := fst (g_run b0 ops) in let m := fst (run (binit c fill) ops) in
     cap g = cap m /\ S g = S m /\ ilb g = ilb m /\ fillv g = fillv m /\ zlen (buf g) = zlen (buf m) /\
     skipn (Z.to_nat (ilb m)) (buf g) = skipn (Z.to_nat (ilb m)) (buf m)).
Proof. exact source_matches_model. Qed.
Print Assumptions C14_source_matches_model.

(* C14_bounds over the generated getters, plus the invariant in every state the generated run reaches *)
Theorem C14_source_bounds : forall c fill ops b0 b, 1 <= c -> wf_hist_e (sinit c fill) ops = true ->
  g_init c fill = MOk b0 -> fst (g_run b0 ops) = b ->
  0 <= g_get_samples_lb b <= g_get_samples_ub b /\ g_get_samples_ub b - g_get_samples_lb b <= cap b /\
  g_get_samples_ub b = slen (fst (spec_run (sinit c fill) ops)) /\
  g_get_samples_lb b = lo (fst (spec_run (sinit c fill) ops)) /\
  zlen (buf b) = cap b /\ 0 <= ilb b <= cap b /\ 1 <= cap b.
Proof. exact source_bounds. Qed.
Print Assumptions C14_source_bounds.

(* C14_read_is_stream_slice over the generated reads *)
Theorem C14_source_read_is_stream_slice : forall c fill ops b0 b, 1 <= c -> wf_hist_e (sinit c fill) ops = true ->
  g_init c fill = MOk b0 -> fst (g_run b0 ops) = b ->
  g_get_samples_ub b = zlen (logical ops) /\
  (forall a e, a <= e ->
     g_get_range_samples b (Some a) (Some e) =
     if (g_get_samples_lb b <=? a) && (e <=? g_get_samples_ub b) then Ret (slice (logical ops) a e)
     else Raise EIndexError) /\
  (forall a e f, a <= e ->
     g_get_range_filled b a e f =
     Ret (zrange (sample_or (logical ops) (g_get_samples_lb b) (g_get_samples_ub b) f) a (e - a))).
Proof. exact source_read_is_stream_slice. Qed.
Print Assumptions C14_source_read_is_stream_slice.

Example C14_source_ex : 1 <= 3 /\ binv (binit 3 (-1)) /\ resize_ok (Resize 5) /\
  wf_hist (sinit 3 (-1)) [Append [1;2]; Append [3;4;5;6]; Invalidate 5; Resize 5; Append [7];
                          ReadS None None; ReadFilled 0 8 9; Bounds] = true /\
  g_init 3 (-1) = MOk (binit 3 (-1)) /\
  snd (g_run (binit 3 (-1)) [Append [1;2]; Append [3;4;5;6]; Invalidate 5; Resize 5; Append [7];
                             ReadS None None; ReadFilled 0 8 9; Bounds])
  = [ONone; ONone; ONone; ONone; ONone; OData [4;5;7]; OData [9;9;9;4;5;7;9;9]; OBounds 3 6].
Proof.
  split; [lia|]. split; [apply binv_ex|]. split; [cbn; lia|]. vm_compute. repeat split; reflexivity.
Qed.
