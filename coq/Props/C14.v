(* C14 - Signal buffer returns exactly the retained window of the logical stream.
   Property theorems only; every proof is `exact <lemma of Buffer/Proofs.v>`. *)
From PV Require Import Buffer.Model Buffer.Spec Buffer.Proofs.
From PV Require FloatGrid.Statements.

(* Refinement: for EVERY finite history of appends (any size >= 1, incl. larger than the capacity),
   invalidations (any sample >= 0), resizes (>= 1 sample) and reads (lower <= upper), started from
   an empty buffer of any capacity >= 1, every observable output of the ring-buffer code equals the
   output of the abstract specification (logical stream + oldest retained index). *)
Theorem C14_refines_spec : forall c fill ops, 1 <= c -> wf_hist (sinit c fill) ops = true ->
  snd (run (binit c fill) ops) = snd (spec_run (sinit c fill) ops).
Proof. exact refines_spec. Qed.
Print Assumptions C14_refines_spec.

(* The abstract state always satisfies 0 <= lower <= upper = length of the logical stream and
   retains min(capacity, what was available) samples ... *)
Theorem C14_spec_bounds : forall c fill ops s, 1 <= c -> wf_hist (sinit c fill) ops = true ->
  fst (spec_run (sinit c fill) ops) = s ->
  0 <= lo s <= slen s /\ slen s - lo s <= scap s /\ 1 <= scap s.
Proof. exact spec_bounds. Qed.
Print Assumptions C14_spec_bounds.

(* ... hence so do the bounds the code reports after any history. *)
Theorem C14_bounds : forall c fill ops b, 1 <= c -> wf_hist (sinit c fill) ops = true ->
  fst (run (binit c fill) ops) = b ->
  0 <= samples_lb b <= samples_ub b /\ samples_ub b - samples_lb b <= cap b /\
  samples_ub b = slen (fst (spec_run (sinit c fill) ops)) /\
  samples_lb b = lo (fst (spec_run (sinit c fill) ops)).
Proof. exact bounds_after_history. Qed.
Print Assumptions C14_bounds.

(* An append retains the most recent min(capacity, previously retained + appended) samples. *)
Theorem C14_append_window : forall s d, d <> [] -> 0 <= lo s <= slen s -> 1 <= scap s ->
  let s' := spec_step s (Append d) in
  slen s' - lo s' = Z.min (scap s) (slen s - lo s + zlen d) /\ slen s' = slen s + zlen d.
Proof. exact append_window. Qed.
Print Assumptions C14_append_window.

(* The code before the two repairs recorded in known_findings.txt did not refine the spec. *)
Theorem C14_unrepaired_refuted : exists c fill ops, 1 <= c /\ wf_hist (sinit c fill) ops = true /\
  snd (run_unrepaired (binit c fill) ops) <> snd (spec_run (sinit c fill) ops).
Proof. exact unrepaired_refuted. Qed.
Print Assumptions C14_unrepaired_refuted.

(* The model works in samples; the code converts times with round(t*fs).  For a time k/fs that
   conversion returns k at every real rate in [1, 2^40] (binary64, Flocq):
   time_to_samples_on_grid := forall k fs, 0 < k < 2^50 -> 1 <= fs <= 2^40 -> round(RN(RN(k/fs)*fs)) = k *)
Theorem C14_time_to_samples_on_grid : FloatGrid.Statements.time_to_samples_on_grid.
Proof. exact FloatGrid.Statements.time_to_samples_on_grid_holds. Qed.
Print Assumptions C14_time_to_samples_on_grid.

Example C14_ex : wf_hist (sinit 3 (-1)) [Append [1;2]; Append [3;4;5;6]; Invalidate 5; Resize 5; Append [7];
                                       ReadS None None; ReadFilled 0 8 9; Bounds] = true /\
  snd (run (binit 3 (-1)) [Append [1;2]; Append [3;4;5;6]; Invalidate 5; Resize 5; Append [7];
                           ReadS None None; ReadFilled 0 8 9; Bounds])
  = [ONone; ONone; ONone; ONone; ONone; OData [4;5;7]; OData [9;9;9;4;5;7;9;9]; OBounds 3 6].
Proof. vm_compute. split; reflexivity. Qed.
