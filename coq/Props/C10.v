(* C10 - Generation is deterministic and isolated from other objects and global state.
   Property theorems only; every proof is `exact <lemma of Determ/Proofs.v>`. *)
From PV Require Import Determ.Model Determ.Spec Determ.Proofs.

(* Refinement: in EVERY program (any interleaving of construction, next, reset, deepcopy, caller writes into
   arrays it was handed, memoised calls, global-random use), what each next() returns under the aliasing
   semantics is what the heap-free reference semantics returns: a function of the generator's own
   parameters and of the calls made on it. *)
Theorem C10_refines_pure : forall p, forallb wf_op p = true ->
  next_obs p (run all_repaired w0 p) = prun [] p.
Proof. exact refines_pure. Qed.
Print Assumptions C10_refines_pure.

(* Noninterference on the heap semantics itself: inserting caller writes, reads, memoised calls,
   global-random use, or next()/reset() of OTHER generators anywhere in a program does not change the
   stream of generator oid. *)
Theorem C10_noninterference : forall oid p q, forallb wf_op p = true -> inserted oid p q ->
  stream_of all_repaired oid q = stream_of all_repaired oid p.
Proof. exact noninterference. Qed.
Print Assumptions C10_noninterference.

(* reset replays the stream from the start, whatever was drawn before *)
Theorem C10_reset_replays : forall o n m,
  0 <= n -> 0 <= m -> snd (pnext (preset (fst (pnext o n))) m) = snd (pnext (preset o) m).
Proof. exact reset_replays. Qed.
Print Assumptions C10_reset_replays.

(* a deep copy continues exactly as the original would have, and using the copy does not disturb the
   original (with C10_refines_pure this transfers to the aliasing semantics) *)
Theorem C10_deepcopy_replays : forall objs oid o n, pget objs oid = Some o -> 0 <= n ->
  prun objs [DeepCopy oid; Next (zlen objs) n; Next oid n] =
  [Some (snd (pnext o n)); Some (snd (pnext o n))].
Proof. exact deepcopy_replays. Qed.
Print Assumptions C10_deepcopy_replays.

(* memoised functions: every call returns the pure value for its key, whatever the caller did with earlier
   results; a write into a cached result is rejected *)
Theorem C10_cached_pure : forall p k o, forallb wf_op p = true ->
  In (k, o) (cached_obs p (run all_repaired w0 p)) ->
  exists n, first_n k p = Some n /\ o = OVals (zrange (memo_code k) 0 n).
Proof. exact cached_pure. Qed.
Print Assumptions C10_cached_pure.

(* before the two repairs recorded in known_findings.txt neither held *)
Theorem C10_fixed_view_unrepaired_refuted : exists p, forallb wf_op p = true /\
  next_obs p (run {| r_fixed_copy := false; r_cache_ro := true |} w0 p) <> prun [] p.
Proof. exact fixed_view_unrepaired_refuted. Qed.
Print Assumptions C10_fixed_view_unrepaired_refuted.

Theorem C10_cache_unrepaired_refuted : exists p k o, forallb wf_op p = true /\
  In (k, o) (cached_obs p (run {| r_fixed_copy := true; r_cache_ro := false |} w0 p)) /\
  forall n, o <> OVals (zrange (memo_code k) 0 n).
Proof. exact cache_unrepaired_refuted. Qed.
Print Assumptions C10_cache_unrepaired_refuted.

Example C10_ex : isolation_test [MkFixed 0 6; MkGate 1 3 0; Next 1 4; Write 0 2 900000001; Reset 1; Next 1 4;
                                 DeepCopy 1; Next 2 3; Next 1 5; CachedCall 7 3; Write 4 0 900000002; CachedCall 7 3;
                                 GlobalRandom; MkCar 2; Next 3 2] = true.
Proof. vm_compute. reflexivity. Qed.
