(* C10 - Generation is deterministic and isolated from other objects and global state.
   Property theorems only; every proof is `exact <lemma of Determ/Proofs.v>`. *)
From PV Require Import Determ.Model Determ.Spec Determ.Proofs.

(* Refinement: in EVERY program (any interleaving of construction, next, reset, deepcopy, caller writes into
   arrays it was handed, memoised calls, global-random use), what each next() returns under the aliasing
   semantics is what the heap-free reference semantics returns: a function of the generator's own
   parameters and of the calls made on it. *)
Theorem C10_refines_pure : forall p, forallb wf_op p = true ->
  next_obs p (run all_repaired w0 p) = prun [] p.
Proof. exact refines_pure. Qed.
Print Assumptions C10_refines_pure.

(* Noninterference on the heap semantics itself: inserting caller writes, reads, memoised calls,
   global-random use, or next()/reset() of OTHER generators anywhere in a program does not change the
   stream of generator oid. *)
Theorem C10_noninterference : forall oid p q, forallb wf_op p = true -> inserted oid p q ->
  stream_of all_repaired oid q = stream_of all_repaired oid p.
Proof. exact noninterference. Qed.
Print Assumptions C10_noninterference.

(* reset replays the stream from the start, whatever was drawn before *)
Theorem C10_reset_replays : forall o n m,
  0 <= n -> 0 <= m -> snd (pnext (preset (fst (pnext o n))) m) = snd (pnext (preset o) m).
Proof. exact reset_replays. Qed.
Print Assumptions C10_reset_replays.

(* a deep copy continues exactly as the original would have, and using the copy does not disturb the
   original (with C10_refines_pure this transfers to the aliasing semantics) *)
Theorem C10_deepcopy_replays : forall objs oid o n, pget objs oid = Some o -> 0 <= n ->
  prun objs [DeepCopy oid; Next (zlen objs) n; Next oid n] =
  [Some (snd (pnext o n)); Some (snd (pnext o n))].
Proof. exact deepcopy_replays. Qed.
Print Assumptions C10_deepcopy_replays.

(* memoised functions: every call returns the pure value for its key, whatever the caller did with earlier
   results; a write into a cached result is rejected *)
Theorem C10_cached_pure : forall p k o, forallb wf_op p = true ->
  In (k, o) (cached_obs p (run all_repaired w0 p)) ->
  exists n, first_n k p = Some n /\ o = OVals (zrange (memo_code k) 0 n).
Proof. exact cached_pure. Qed.
Print Assumptions C10_cached_pure.

(* before the two repairs recorded in known_findings.txt neither held *)
Theorem C10_fixed_view_unrepaired_refuted : exists p, forallb wf_op p = true /\
  next_obs p (run {| r_fixed_copy := false; r_cache_ro := true |} w0 p) <> prun [] p.
Proof. exact fixed_view_unrepaired_refuted. Qed.
Print Assumptions C10_fixed_view_unrepaired_refuted.

Theorem C10_cache_unrepaired_refuted : exists p k o, forallb wf_op p = true /\
  In (k, o) (cached_obs p (run {| r_fixed_copy := true; r_cache_ro := false |} w0 p)) /\
  forall n, o <> OVals (zrange (memo_code k) 0 n).
Proof. exact cache_unrepaired_refuted. Qed.
Print Assumptions C10_cache_unrepaired_refuted.

Example C10_ex : isolation_test [MkFixed 0 6; MkGate 1 3 0; Next 1 4; Write 0 2 900000001; Reset 1; Next 1 4;
                                 DeepCopy 1; Next 2 3; Next 1 5; CachedCall 7 3; Write 4 0 900000002; CachedCall 7 3;
                                 GlobalRandom; MkCar 2; Next 3 2] = true.
Proof. vm_compute. reflexivity. Qed.

(* ---------- memoisation over MUTABLE argument objects (Determ/ModelMemo.v, Determ/ProofsMemo.v) ----------
   "Results of the stimulus functions depend only on their arguments": when an argument is a mutable object (a
   calibration, whose gain can be set after it was used), "arguments" means their CURRENT VALUES.  digest / body are
   arbitrary: digest = what is computed from the argument values before the memoised call (load_wav: the scaling
   factor), body = the memoised function proper (_load_wav). *)
From PV Require Import Determ.ModelMemo Determ.ProofsMemo.

(* the repaired discipline (memo key = digest of the current argument values): in EVERY program - any interleaving
   of object creation, mutation and calls - every call returns what the un-memoised function returns, i.e. the
   function of the argument values at the time of the call (C10_no_memo_explicit) *)
Theorem C10_memo_by_value_pure : forall digest body p,
  map mobs_val (mrun digest body key_by_value p) = map mobs_val (mrun digest body no_memo p).
Proof. exact memo_by_value_pure. Qed.
Print Assumptions C10_memo_by_value_pure.

Theorem C10_no_memo_explicit : forall digest body w f args,
  snd (mstep digest body no_memo w (Call f args)) =
  match arg_vals (m_objs w) args with
  | Some vals => MRes (true_result digest body f vals) (m_next w)
  | None => MRaised
  end.
Proof. exact no_memo_explicit. Qed.
Print Assumptions C10_no_memo_explicit.

(* ... and memoisation still pays: after any prefix p1, a call and any p2 in between, a call whose argument values
   have the same digest (same or different objects, mutated or not) is a hit: it returns the very same stored entry
   (same storage id) and changes nothing *)
Theorem C10_memo_by_value_hit : forall digest body p1 f a1 p2 a2 v1 v2,
  let w1 := mexec digest body key_by_value mw0 p1 in
  let s1 := mstep digest body key_by_value w1 (Call f a1) in
  let w2 := mexec digest body key_by_value (fst s1) p2 in
  let s2 := mstep digest body key_by_value w2 (Call f a2) in
  arg_vals (m_objs w1) a1 = Some v1 -> arg_vals (m_objs w2) a2 = Some v2 ->
  digest f v1 = digest f v2 ->
  exists r sid, snd s1 = MRes r sid /\ snd s2 = MRes r sid /\ fst s2 = w2.
Proof. exact memo_by_value_hit. Qed.
Print Assumptions C10_memo_by_value_hit.

(* the code before 2334879 (memo key = the argument list, objects compared by identity): NewObj 0; load_wav(level 5,
   cal); cal.set_fixed_gain(1); load_wav(level 5, cal) returns the waveform for the old gain *)
Theorem C10_memo_by_identity_refuted :
  let p := [NewObj 0; Call 0 [AVal 1; AVal 1; AVal 5; ARef 0]; SetState 0 1; Call 0 [AVal 1; AVal 1; AVal 5; ARef 0]] in
  map mobs_val (wav_run key_by_identity p) <> map mobs_val (wav_run no_memo p) /\
  wav_run key_by_identity p = [MNothing; MRes 1015005 0; MNothing; MRes 1015005 0] /\
  wav_run key_by_value p = [MNothing; MRes 1015005 0; MNothing; MRes 1015006 1].
Proof. exact memo_by_identity_refuted. Qed.
Print Assumptions C10_memo_by_identity_refuted.

(* the same for ANY function that depends on the object's state at all *)
Theorem C10_memo_by_identity_stale : forall digest body f v0 v1,
  true_result digest body f [v0] <> true_result digest body f [v1] ->
  let p := [NewObj v0; Call f [ARef 0]; SetState 0 v1; Call f [ARef 0]] in
  mrun digest body key_by_identity p =
    [MNothing; MRes (true_result digest body f [v0]) 0; MNothing; MRes (true_result digest body f [v0]) 0] /\
  mrun digest body key_by_value p =
    [MNothing; MRes (true_result digest body f [v0]) 0; MNothing; MRes (true_result digest body f [v1]) 1] /\
  mrun digest body no_memo p =
    [MNothing; MRes (true_result digest body f [v0]) 0; MNothing; MRes (true_result digest body f [v1]) 1].
Proof. exact memo_by_identity_stale. Qed.
Print Assumptions C10_memo_by_identity_stale.

(* comparing by identity is right exactly as long as no object is mutated after it was used as an argument of a
   memoised call (set_before_use: every SetState o _ comes before the first Call that mentions o) *)
Theorem C10_memo_by_identity_partial : forall digest body p, set_before_use [] p = true ->
  map mobs_val (mrun digest body key_by_identity p) = map mobs_val (mrun digest body no_memo p).
Proof. exact memo_by_identity_partial. Qed.
Print Assumptions C10_memo_by_identity_partial.

Example C10_memo_ex_hit :
  wav_run key_by_value [NewObj 3; NewObj 2; Call 0 [AVal 1; AVal 1; AVal 5; ARef 0]; SetState 1 3;
                        Call 0 [AVal 1; AVal 1; AVal 5; ARef 1]; Call 0 [AVal 1; AVal 1; AVal 4; ARef 1]]
  = [MNothing; MNothing; MRes 1015008 0; MNothing; MRes 1015008 0; MRes 1015007 1].
Proof. exact memo_hit_ex. Qed.

Example C10_memo_ex_set_before_use :
  set_before_use [] [NewObj 0; SetState 0 4; Call 0 [AVal 1; AVal 1; AVal 5; ARef 0]; NewObj 1; SetState 1 2;
                     Call 0 [AVal 1; AVal 1; AVal 5; ARef 1]; Call 0 [AVal 1; AVal 1; AVal 5; ARef 0]] = true.
Proof. exact set_before_use_ex. Qed.

(* ---------- translator tie of the array handling (Determ/ProofsTie.v) ----------
   coq/gen/DetermGen.v is regenerated from psiaudio/stim.py on every run by translate/pydeterm2coq.py (an aliasing translator:
   which array a statement hands on is a VIEW of an existing storage, a FRESH array, or an in-place write; vocabulary in
   Determ/TieLib.v).  The theorems below say that the regenerated definitions ARE the model the theorems above are about. *)
From PV Require Import Determ.TieLib gen.DetermGen Determ.ProofsTie.

(* FixedWaveform.next = the model's (repaired) step: a copy / a zero-padded concatenation, never a view of the stored
   waveform.  Invariant: position and request are not negative. *)
Theorem C10_source_fixed_next : forall h w arr off n, 0 <= off -> 0 <= n ->
  lift_fixed w (gen_fixed_next h (fixed_of arr off) n) = onext all_repaired h (OFixed w arr off) n.
Proof. exact fixed_next_tie. Qed.
Print Assumptions C10_source_fixed_next.

(* ... which fails without it: a negative position is a bound counted from the end in the code, clipped in the model *)
Theorem C10_source_fixed_next_refuted : exists h w arr off n, 0 <= n /\
  lift_fixed w (gen_fixed_next h (fixed_of arr off) n) <> onext all_repaired h (OFixed w arr off) n.
Proof. exact fixed_next_tie_refuted. Qed.
Print Assumptions C10_source_fixed_next_refuted.

(* ToneFactory.next: a fresh writable array with the next stream positions *)
Theorem C10_source_tone_next : forall h c off n,
  lift_car c (gen_tone_next c h {| car_offset := off |} n) = onext all_repaired h (OCar c off) n.
Proof. exact tone_next_tie. Qed.
Print Assumptions C10_source_tone_next.

(* SilenceFactory.next: like the model's carrier, a fresh writable storage of the same length behind the same view *)
Theorem C10_source_silence_next : forall h st n c off, exists d d',
  gen_silence_next h st n = Some (st, h ++ [mks d false], mkv (zlen h) 0 (zlen d)) /\
  onext all_repaired h (OCar c off) n = Some (OCar c (off + n), h ++ [mks d' false], mkv (zlen h) 0 (zlen d')) /\
  zlen d = zlen d' /\ d = repeat (silence_fill_value st) (Z.to_nat n).
Proof. exact silence_next_tie. Qed.
Print Assumptions C10_source_silence_next.

(* GateFactory.next, for EVERY wrapped generator: the array it receives is zeroed in place outside the gate and handed on *)
Theorem C10_source_gate_next : forall (inner_next : heap -> Z -> option (obj * heap * view)) h s d off n,
  lift_gate (gen_gate_next inner_next h (gate_of s d off) n) =
  match inner_next h n with
  | None => None
  | Some (inner', h1, v) =>
    let lb := s - off in
    let ub := lb + d in
    let h2 := if lb >=? 0 then zero_range h1 v 0 (Z.to_nat (np_clip lb 0 (v_len v))) else Some h1 in
    match h2 with
    | None => None
    | Some h2 =>
      let a := np_clip (Z.max ub 0) 0 (v_len v) in
      match zero_range h2 v a (Z.to_nat (v_len v - a)) with
      | None => None
      | Some h3 => Some (OGate s d (off + n) inner', h3, v)
      end
    end
  end.
Proof. exact gate_next_tie. Qed.
Print Assumptions C10_source_gate_next.

(* next() / reset() of every object of the model, dispatched to the generated methods = onext / oreset *)
Theorem C10_source_onext : forall o h n, idx_ok o -> 0 <= n -> gen_onext o h n = onext all_repaired h o n.
Proof. exact gen_onext_tie. Qed.
Print Assumptions C10_source_onext.

Theorem C10_source_oreset : forall o, gen_oreset o = oreset o.
Proof. exact gen_oreset_tie. Qed.
Print Assumptions C10_source_oreset.

(* fast_cache: the wrapper regenerated from the source = look the key (positional arguments, marker, sorted keyword items)
   up; hit: the stored object itself; miss: store the result, make every ndarray of it read-only *)
Theorem C10_source_wrapper : forall h cache args kw fres,
  gen_fast_cache_wrapper h cache args kw fres = ref_wrapper h cache args kw fres.
Proof. exact wrapper_tie. Qed.
Print Assumptions C10_source_wrapper.

Theorem C10_source_key_inj : forall a1 k1 a2 k2, ref_key a1 k1 = ref_key a2 k2 ->
  a1 = a2 /\ py_sorted (kw_items k1) = py_sorted (kw_items k2).
Proof. exact ref_key_inj. Qed.
Print Assumptions C10_source_key_inj.

Theorem C10_source_miss_array : forall h cache args kw d, cache_get (ref_key args kw) cache = None ->
  gen_fast_cache_wrapper h cache args kw (ROne (EArr d)) =
  (let '(h', v) := alloc h d true in Some (h', (ref_key args kw, OArr v) :: cache, OArr v)).
Proof. exact miss_array. Qed.
Print Assumptions C10_source_miss_array.

Theorem C10_source_miss_tuple : forall h cache args kw l, cache_get (ref_key args kw) cache = None ->
  gen_fast_cache_wrapper h cache args kw (RTuple l) =
  Some (h ++ map (fun d => mks d true) (arrs l), (ref_key args kw, OTuple (objs_at (zlen h) l)) :: cache,
        OTuple (objs_at (zlen h) l)).
Proof. exact miss_tuple. Qed.
Print Assumptions C10_source_miss_tuple.

Theorem C10_source_hit : forall h cache args kw fres o, cache_get (ref_key args kw) cache = Some o ->
  gen_fast_cache_wrapper h cache args kw fres = Some (h, cache, o).
Proof. exact hit_same_object. Qed.
Print Assumptions C10_source_hit.

(* the wrapper on the model's memoised call = the CachedCall step with the cache repair on *)
Theorem C10_source_cachedcall : forall argsof kwof h memo k n, calls_distinct argsof kwof ->
  gen_fast_cache_wrapper h (enc_cache argsof kwof memo) (argsof k) (kwof k) (ROne (EArr (zrange (memo_code k) 0 n))) =
  match assoc k memo with
  | Some v => Some (h, enc_cache argsof kwof memo, OArr v)
  | None => let '(h', v) := alloc h (zrange (memo_code k) 0 n) (r_cache_ro all_repaired) in
            Some (h', enc_cache argsof kwof ((k, v) :: memo), OArr v)
  end.
Proof. exact wrapper_cachedcall_tie. Qed.
Print Assumptions C10_source_cachedcall.

(* every program run with the GENERATED next / reset / memo functions behaves as the model says ... *)
Theorem C10_source_run : forall argsof kwof, calls_distinct argsof kwof -> forall p, forallb wf_op p = true ->
  gen_run argsof kwof (w0, []) p = run all_repaired w0 p.
Proof. exact gen_run_w0. Qed.
Print Assumptions C10_source_run.

(* ... hence C10_refines_pure and C10_cached_pure hold of the definitions regenerated from the source *)
Theorem C10_source_refines_pure : forall argsof kwof, calls_distinct argsof kwof -> forall p, forallb wf_op p = true ->
  next_obs p (gen_run argsof kwof (w0, []) p) = prun [] p.
Proof. exact source_refines_pure. Qed.
Print Assumptions C10_source_refines_pure.

Theorem C10_source_cached_pure : forall argsof kwof, calls_distinct argsof kwof -> forall p k o, forallb wf_op p = true ->
  In (k, o) (cached_obs p (gen_run argsof kwof (w0, []) p)) ->
  exists n, first_n k p = Some n /\ o = OVals (zrange (memo_code k) 0 n).
Proof. exact source_cached_pure. Qed.
Print Assumptions C10_source_cached_pure.

(* calls_distinct (different model keys are different calls) is needed and satisfiable *)
Theorem C10_source_cached_pure_refuted : exists p k o, forallb wf_op p = true /\
  In (k, o) (cached_obs p (gen_run (fun _ => []) (fun _ => []) (w0, []) p)) /\
  forall n, o <> OVals (zrange (memo_code k) 0 n).
Proof. exact source_cached_pure_refuted. Qed.
Print Assumptions C10_source_cached_pure_refuted.

Example C10_source_calls_distinct_ex : calls_distinct (fun k => [PInt k]) (fun _ => []).
Proof. exact calls_distinct_ex. Qed.

Example C10_source_idx_ok_ex : idx_ok (OGate 1 3 0 (OFixed 0 (mkv 0 0 6) 0)).
Proof. exact idx_ok_ex. Qed.

(* the wrapper against the memo table over mutable argument objects (Determ/ModelMemo.v: one table per function, arguments as
   passed, objects by identity): a hit hands out the stored array of the entry the model finds (same allocation number), a
   miss allocates storage number `next` read-only and records it *)
Theorem C10_source_mstep : forall h f k (m : list ModelMemo.mentry) next r, zlen h = next ->
  gen_fast_cache_wrapper h (enc_mcache f m) (map enc_arg k) [] (ROne (EArr [r])) =
  match mlookup f k m with
  | Some e => Some (h, enc_mcache f m, OArr (mkv (e_sid e) 0 1))
  | None => Some (h ++ [mks [r] true],
                  enc_mcache f ({| e_fun := f; e_key := k; e_res := r; e_sid := next |} :: m),
                  OArr (mkv next 0 1))
  end.
Proof. exact wrapper_mstep_tie. Qed.
Print Assumptions C10_source_mstep.
