(* C08 - Stimuli have the requested calibrated level; level and polarity scale exactly.
   Property theorems only; every proof is `exact <lemma of Level/Proofs.v>`.
   The stimulus expressions are the definitions of gen/StimExprGen.v, which translate/pyexpr2coq_ext.py regenerates from
   psiaudio/stim.py on every run (per-sample value of tone and of the three sam_tone components, ClickFactory's waveform
   value, the bounds low/high/scale of the noise factories and their polarity factor); get_sf / get_db / get_mean_sf are
   those of gen/CalibGen.v (property C07).  sens = calibration.get_sens(frequency) is abstract: the theorems hold for
   flat, interpolated and point calibrations alike.  gain d = 10^(d/20).
   NOT covered here (numeric oracle in harness/C08.py only): the level of the noise factories (output distribution of
   MT19937 and the IIR / FIR designs), chirps, band-limited clicks, wav playback.
   Print Assumptions lists the axioms of Coq's classical real numbers only. *)
From Coq Require Import Reals Lra Lia ZArith List.
From PV Require Import Calib.RBase gen.CalibGen Calib.Laws gen.StimExprGen Spectrum.TrigSum Level.Spec Level.Proofs Level.Filter.
Open Scope R_scope.

(* ---------------------------------------------------------------- level + d dB multiplies every sample by 10^(d/20) *)
Theorem C08_level_linear_tone : forall s L d pol i off fs f ph,
  tone_sample s (L + d) pol i off fs f ph = gain d * tone_sample s L pol i off fs f ph.
Proof. exact level_linear_tone. Qed.
Print Assumptions C08_level_linear_tone.

(* without a calibration the level is the RMS amplitude itself: homogeneous *)
Theorem C08_level_linear_tone_nocal : forall c L pol i off fs f ph,
  tone_sample_nocal (c * L) pol i off fs f ph = c * tone_sample_nocal L pol i off fs f ph.
Proof. exact level_linear_tone_nocal. Qed.
Print Assumptions C08_level_linear_tone_nocal.

Theorem C08_level_linear_sam : forall sl sc su L d pol i off fs fc fm depth pl pc pu,
  sam_lb_sample sl (L + d) pol i off fs fc fm depth pl = gain d * sam_lb_sample sl L pol i off fs fc fm depth pl /\
  sam_c_sample sc (L + d) pol i off fs fc fm depth pc = gain d * sam_c_sample sc L pol i off fs fc fm depth pc /\
  sam_ub_sample su (L + d) pol i off fs fc fm depth pu = gain d * sam_ub_sample su L pol i off fs fc fm depth pu /\
  sam_sample sl sc su (L + d) pol i off fs fc fm depth pl pc pu
    = gain d * sam_sample sl sc su L pol i off fs fc fm depth pl pc pu /\
  sam_sample_noeq sl sc su (L + d) pol i off fs fc fm depth pl pc pu
    = gain d * sam_sample_noeq sl sc su L pol i off fs fc fm depth pl pc pu.
Proof. exact level_linear_sam. Qed.
Print Assumptions C08_level_linear_sam.

Theorem C08_level_linear_click : forall s L d pol, click_sample s (L + d) pol = gain d * click_sample s L pol.
Proof. exact level_linear_click. Qed.
Print Assumptions C08_level_linear_click.

(* noise factories: the sample drawn with the same generator deviate r scales with the level, for table calibrations
   (get_mean_sf = mean of get_sf over the band, Calib/Laws.mean_sf) and flat ones (flat_get_mean_sf) *)
Theorem C08_level_linear_noise : forall ss s L d pol r fs fl fh fsf,
  bb_noise (mean_sf ss (L + d) 0) pol r = gain d * bb_noise (mean_sf ss L 0) pol r /\
  bb_noise (flat_get_mean_sf s (L + d) 0) pol r = gain d * bb_noise (flat_get_mean_sf s L 0) pol r /\
  bl_noise_input (mean_sf ss (L + d) 0) fs fl fh r = gain d * bl_noise_input (mean_sf ss L 0) fs fl fh r /\
  bl_noise_input (flat_get_mean_sf s (L + d) 0) fs fl fh r = gain d * bl_noise_input (flat_get_mean_sf s L 0) fs fl fh r /\
  shaped_noise_input fsf (mean_sf ss (L + d) 0) r = gain d * shaped_noise_input fsf (mean_sf ss L 0) r /\
  shaped_noise_input fsf (flat_get_mean_sf s (L + d) 0) r = gain d * shaped_noise_input fsf (flat_get_mean_sf s L 0) r.
Proof. exact level_linear_noise. Qed.
Print Assumptions C08_level_linear_noise.

(* both bounds of the generator scale with the scale factor, and they are symmetric about 0 *)
Theorem C08_noise_bounds : forall c msf pol r fs fl fh fsf,
  (bb_low (c * msf) = c * bb_low msf /\ bb_high (c * msf) = c * bb_high msf /\
   bb_noise (c * msf) pol r = c * bb_noise msf pol r /\
   bl_low (c * msf) fs fl fh = c * bl_low msf fs fl fh /\ bl_high (c * msf) fs fl fh = c * bl_high msf fs fl fh /\
   bl_noise_input (c * msf) fs fl fh r = c * bl_noise_input msf fs fl fh r /\
   shaped_scale fsf (c * msf) = c * shaped_scale fsf msf /\
   shaped_noise_input fsf (c * msf) r = c * shaped_noise_input fsf msf r) /\
  (bb_low msf = - bb_high msf /\ bl_low msf fs fl fh = - bl_high msf fs fl fh).
Proof. exact noise_bounds. Qed.
Print Assumptions C08_noise_bounds.

Theorem C08_gain : gain 0 = 1 /\ gain 20 = 10 /\ forall d, 0 < gain d.
Proof. exact gain_facts. Qed.
Print Assumptions C08_gain.

(* filtered noises (scipy lfilter = the transposed-direct-form-II recurrence of Level/Filter.v, any order): the output is
   jointly homogeneous in input and initial state, hence scales with the level / flips with the polarity from rest; with
   taps and state that both scale (FIR noise) likewise; the (repaired) notch filter factory starts at rest *)
Theorem C08_filtered_linear : forall c b a x z n,
  lfilter b a (scale c x) (scale c z) = (scale c (fst (lfilter b a x z)), scale c (snd (lfilter b a x z))) /\
  fst (lfilter b a (scale c x) (rest n)) = scale c (fst (lfilter b a x (rest n))) /\
  lfilter (scale c b) a x (scale c z) = (scale c (fst (lfilter b a x z)), scale c (snd (lfilter b a x z))) /\
  notch_output b a (scale c x) = scale c (notch_output b a x).
Proof. exact filtered_linear. Qed.
Print Assumptions C08_filtered_linear.

(* the code before the repair of branch fix-C16C08 started the notch filter from lfilter_zi(b, a), a state that does not
   depend on the carrier: its output did not scale with the level (nor flip with the polarity) *)
Theorem C08_notch_unrepaired_refuted :
  exists b a zi carrier c,
    notch_output_unrepaired b a zi (scale c carrier) <> scale c (notch_output_unrepaired b a zi carrier).
Proof. exact notch_unrepaired_refuted. Qed.
Print Assumptions C08_notch_unrepaired_refuted.

(* ---------------------------------------------------------------- polarity negates every sample *)
Theorem C08_polarity : forall s sl sc su L pol i off fs f ph fc fm depth pl pc pu msf r w,
  tone_sample s L (- pol) i off fs f ph = - tone_sample s L pol i off fs f ph /\
  tone_sample_nocal L (- pol) i off fs f ph = - tone_sample_nocal L pol i off fs f ph /\
  sam_sample sl sc su L (- pol) i off fs fc fm depth pl pc pu = - sam_sample sl sc su L pol i off fs fc fm depth pl pc pu /\
  sam_sample_noeq sl sc su L (- pol) i off fs fc fm depth pl pc pu
    = - sam_sample_noeq sl sc su L pol i off fs fc fm depth pl pc pu /\
  click_sample s L (- pol) = - click_sample s L pol /\
  bb_noise msf (- pol) r = - bb_noise msf pol r /\
  bl_sample (- pol) w = - bl_sample pol w /\
  shaped_sample (- pol) w = - shaped_sample pol w /\
  fir_sample (- pol) w = - fir_sample pol w.
Proof. exact polarity_all. Qed.
Print Assumptions C08_polarity.

(* ... and polarity +1 is the prototype itself *)
Theorem C08_polarity_one : forall s L i off fs f ph msf r w,
  tone_sample s L 1 i off fs f ph = cal_get_sf s L 0 * sqrt 2 * cos (2 * PI * ((i + off) / fs) * f + ph) /\
  click_sample s L 1 = cal_get_sf s L 0 /\
  bb_noise msf 1 r = uniform (bb_low msf) (bb_high msf) r /\
  bl_sample 1 w = w /\ shaped_sample 1 w = w /\ fir_sample 1 w = w.
Proof. exact polarity_one. Qed.
Print Assumptions C08_polarity_one.

(* ---------------------------------------------------------------- the level itself *)
(* TONE: over a whole number k of cycles (0 < 2k < N, f = k fs / N), any offset, phase, polarity, calibration:
   RMS = get_sf(f, L), and measured back through the same calibration it reads L *)
Theorem C08_tone_rms : forall s L pol off fs N k ph, is_polarity pol -> fs <> 0 -> (0 < 2 * k < N)%nat ->
  wrms (fun n => tone_sample s L pol (INR n) off fs (INR k * fs / INR N) ph) N = cal_get_sf s L 0 /\
  cal_get_db s (wrms (fun n => tone_sample s L pol (INR n) off fs (INR k * fs / INR N) ph) N) = L.
Proof. exact tone_rms. Qed.
Print Assumptions C08_tone_rms.

Theorem C08_tone_nocal_rms : forall L pol off fs N k ph, is_polarity pol -> fs <> 0 -> (0 < 2 * k < N)%nat -> 0 <= L ->
  wrms (fun n => tone_sample_nocal L pol (INR n) off fs (INR k * fs / INR N) ph) N = L.
Proof. exact tone_nocal_rms. Qed.
Print Assumptions C08_tone_nocal_rms.

(* SAM tone (depth 1, equal-power): component RMS = get_sf(f_j, L) * (1/4, 1/2, 1/4) / sam_eq_power(1); powers add *)
Theorem C08_sam_components : forall sl sc su L pol off fs pl pc pu N kc km,
  is_polarity pol -> fs <> 0 -> (0 < km < kc)%nat -> (2 * (kc + km) < N)%nat ->
  let fc := INR kc * fs / INR N in let fm := INR km * fs / INR N in
  (wrms (fun n => sam_lb_sample sl L pol (INR n) off fs fc fm 1 pl) N = cal_get_sf sl L 0 * (1 / 4) / sam_eq_power 1 /\
   wrms (fun n => sam_c_sample sc L pol (INR n) off fs fc fm 1 pc) N = cal_get_sf sc L 0 * (1 / 2) / sam_eq_power 1 /\
   wrms (fun n => sam_ub_sample su L pol (INR n) off fs fc fm 1 pu) N = cal_get_sf su L 0 * (1 / 4) / sam_eq_power 1) /\
  msq (fun n => sam_sample sl sc su L pol (INR n) off fs fc fm 1 pl pc pu) N
    = (cal_get_sf sl L 0 * cal_get_sf sl L 0 / 16 + cal_get_sf sc L 0 * cal_get_sf sc L 0 / 4
       + cal_get_sf su L 0 * cal_get_sf su L 0 / 16) / (3 / 8).
Proof. exact sam_components. Qed.
Print Assumptions C08_sam_components.

(* ... so that with one sensitivity at the three frequencies the SAM tone has the RMS of the unmodulated tone and reads L *)
Theorem C08_sam_rms : forall s L pol off fs pl pc pu N kc km,
  is_polarity pol -> fs <> 0 -> (0 < km < kc)%nat -> (2 * (kc + km) < N)%nat ->
  wrms (fun n => sam_sample s s s L pol (INR n) off fs (INR kc * fs / INR N) (INR km * fs / INR N) 1 pl pc pu) N
    = cal_get_sf s L 0 /\
  cal_get_db s (wrms (fun n => sam_sample s s s L pol (INR n) off fs (INR kc * fs / INR N) (INR km * fs / INR N) 1 pl pc pu) N) = L.
Proof. exact sam_rms. Qed.
Print Assumptions C08_sam_rms.

(* CLICK: every sample has magnitude get_sf(0 Hz, L); so has the RMS over its duration; it reads back L *)
Theorem C08_click_level : forall s L pol, is_polarity pol ->
  Rabs (click_sample s L pol) = cal_get_sf s L 0 /\ cal_get_db s (Rabs (click_sample s L pol)) = L /\
  forall N, (0 < N)%nat -> wrms (fun _ => click_sample s L pol) N = cal_get_sf s L 0.
Proof. exact click_level. Qed.
Print Assumptions C08_click_level.

(* hypotheses are satisfiable *)
Example C08_ex : is_polarity 1 /\ is_polarity (-1) /\ 100000 <> 0 /\ (0 < 2 * 5 < 64)%nat /\ (0 < 2 < 10)%nat /\ (2 * (10 + 2) < 64)%nat.
Proof. unfold is_polarity. repeat split; try lia; try lra; auto. Qed.
