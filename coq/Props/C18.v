(* C18 - Boolean-epoch utilities compute the exact run structure of a signal.
   Property theorems only; every proof is `exact <lemma of Runs/Proofs.v>`. *)
From PV Require Import Runs.Model Runs.Spec Runs.Proofs.

(* run detection, as the code computes it, returns the left-to-right scan of maximal runs:
   for EVERY boolean list, of any length, never raising *)
Theorem C18_epochs_are_runs : forall x, epochs_model x = Some (runs x).
Proof. exact epochs_are_runs. Qed.
Print Assumptions C18_epochs_are_runs.

(* ... and that scan is exactly the set of maximal runs (ends of the array included) *)
Theorem C18_runs_are_maximal : forall x s e, In (s, e) (runs x) <-> is_max_run x s e.
Proof. exact runs_are_maximal. Qed.
Print Assumptions C18_runs_are_maximal.

(* ... sorted, disjoint, non-empty, not touching *)
Theorem C18_runs_separated : forall x, separated 0 (runs x).
Proof. exact runs_separated. Qed.
Print Assumptions C18_runs_separated.

(* interval merging: same union ... *)
Theorem C18_smooth_cover : forall l, nonempty_ivs l ->
  forall t, covered (smooth_model l) t <-> covered l t.
Proof. exact smooth_cover. Qed.
Print Assumptions C18_smooth_cover.

(* ... as a sorted list of disjoint intervals that do not even touch (so overlapping and
   touching inputs were joined) *)
Theorem C18_smooth_separated : forall l, nonempty_ivs l -> separated 0 (smooth_model l).
Proof. exact smooth_separated. Qed.
Print Assumptions C18_smooth_separated.

(* debouncing = drop the runs shorter than d, then join survivors whose gap is <= d *)
Theorem C18_debounce_spec : forall d l, 0 <= d -> separated 0 l ->
  debounce_model d l = debounce_spec d l.
Proof. exact debounce_is_spec. Qed.
Print Assumptions C18_debounce_spec.

(* ... whose result has only runs >= d, separated by gaps > d, and covers every surviving run *)
Theorem C18_debounce_result : forall d l, 0 <= d -> separated 0 l ->
  separated d (debounce_spec d l) /\
  (forall s e, In (s, e) (debounce_spec d l) -> e - s >= d) /\
  (forall s e t, In (s, e) l -> e - s >= d -> s <= t < e -> covered (debounce_spec d l) t).
Proof. exact debounce_result. Qed.
Print Assumptions C18_debounce_result.

(* the code before the repair recorded in known_findings.txt violated the first theorem *)
Theorem C18_epochs_unrepaired_refuted : exists x, epochs_model_unrepaired x <> Some (runs x).
Proof. exact epochs_unrepaired_refuted. Qed.
Print Assumptions C18_epochs_unrepaired_refuted.

(* non-vacuity: concrete inputs meeting the hypotheses *)
Example C18_ex1 : epochs_model [true; true; false; true] = Some [(0, 2); (3, 4)].
Proof. vm_compute. reflexivity. Qed.
Example C18_ex2 : nonempty_ivs [(4, 6); (0, 2); (1, 5)] /\ smooth_model [(4, 6); (0, 2); (1, 5)] = [(0, 6)].
Proof. split; [ intros s e [H|[H|[H|[]]]]; inversion H; lia | vm_compute; reflexivity ]. Qed.
Example C18_ex3 : separated 0 [(0, 1); (3, 8); (10, 14)] /\ debounce_model 2 [(0, 1); (3, 8); (10, 14)] = [(3, 14)].
Proof. split; [ simpl; lia | vm_compute; reflexivity ]. Qed.

(* ====================================================================================
   Extension: edge_rising / edge_falling, epochs with pad, the read-only variant, algebraic laws.
   Proofs in Runs/ProofsX.v, specifications in Runs/SpecX.v. *)
From PV Require Import Runs.SpecX Runs.ProofsX.

(* edge_rising(x) is exactly the list of starts of the maximal runs that do not start at 0, and
   edge_falling(x) exactly the list of run ends below len(x), both in order *)
Theorem C18_edges_are_run_boundaries : forall x,
  rising x = filter (fun s => negb (s =? 0)) (map fst (runs x)) /\
  falling x = filter (fun e => e <? zlen x) (map snd (runs x)).
Proof. exact edges_are_run_boundaries. Qed.
Print Assumptions C18_edges_are_run_boundaries.

(* ... the two columns of the run list are: [0 if x starts True] ++ rising, falling ++ [len if x ends True] *)
Theorem C18_runs_columns : forall x,
  map fst (runs x) = (if hd false x then [0] else []) ++ rising x /\
  map snd (runs x) = falling x ++ (if last x false then [zlen x] else []).
Proof. exact runs_columns. Qed.
Print Assumptions C18_runs_columns.

(* ... so an index is a rising (falling) edge iff it is the start <> 0 (end <> len) of a maximal run *)
Theorem C18_edges_in_runs : forall x,
  (forall s, In s (rising x) <-> (s <> 0 /\ exists e, is_max_run x s e)) /\
  (forall e, In e (falling x) <-> (e <> zlen x /\ exists s, is_max_run x s e)).
Proof. exact edges_in_runs. Qed.
Print Assumptions C18_edges_in_runs.

(* epochs(x, pad): the result is the run list of the padded array (the caller's array after the call) *)
Theorem C18_epochs_pad : forall pad x, epochs_pad_model pad x = Some (runs (pad_apply pad x)).
Proof. exact epochs_pad. Qed.
Print Assumptions C18_epochs_pad.

Theorem C18_pad_apply_0 : forall x, pad_apply 0 x = x.
Proof. exact pad_apply_0. Qed.
Print Assumptions C18_pad_apply_0.

(* the padded array, for EVERY integer pad and position: same length, and a position is True iff it was True
   or is selected by a Python slice [s-pad : s] (s a rising edge of the original x) or [e : e+pad] (e a falling
   edge), negative bounds wrapping as CPython adjusts them *)
Theorem C18_pad_apply_slices : forall pad x,
  zlen (pad_apply pad x) = zlen x /\
  forall i, bit (pad_apply pad x) i =
    bit x i || existsb (fun s => in_slice (zlen x) (s - pad) s i) (rising x)
            || existsb (fun e => in_slice (zlen x) e (e + pad) i) (falling x).
Proof. exact pad_apply_bit. Qed.
Print Assumptions C18_pad_apply_slices.

(* written out for 0 <= pad: True before, or from a falling edge e up to e+pad (exclusive), or within
   `before_edge` of a rising edge s: the pad samples before s when pad <= s, and otherwise - the lower bound
   s - pad being negative - only the positions s-pad+len .. s-1 (none unless pad > len) *)
Theorem C18_pad_apply_char : forall pad x i, 0 <= pad -> 0 <= i < zlen x ->
  (bit (pad_apply pad x) i = true <->
   bit x i = true \/
   (exists s, In s (rising x) /\ before_edge (zlen x) pad s i) \/
   (exists e, In e (falling x) /\ e <= i < e + pad)).
Proof. exact pad_apply_char. Qed.
Print Assumptions C18_pad_apply_char.

(* The expected reading "the pad samples before s, clipped at 0" is FALSE of the code when a rising edge is
   closer than pad to the start: x = [0,0,1], pad = 3 writes nothing (x[-1:2] is empty).
   Code: util.epochs([0,0,1,1,0,0,0], 3) -> [[2, 7]], while pad = 2 gives [[0, 6]]. *)
Theorem C18_pad_clipped_refuted : exists pad x s i, 0 <= pad /\ 0 <= i < zlen x /\
  In s (rising x) /\ before_edge_clipped pad s i /\ bit (pad_apply pad x) i = false.
Proof. exact pad_clipped_refuted. Qed.
Print Assumptions C18_pad_clipped_refuted.

(* it holds exactly under the hypothesis that excludes those inputs *)
Theorem C18_pad_clipped_partial : forall pad x i, 0 <= pad -> 0 <= i < zlen x ->
  (forall s, In s (rising x) -> pad <= s) ->
  (bit (pad_apply pad x) i = true <->
   bit x i = true \/
   (exists s, In s (rising x) /\ before_edge_clipped pad s i) \/
   (exists e, In e (falling x) /\ e <= i < e + pad)).
Proof. exact pad_apply_char_partial. Qed.
Print Assumptions C18_pad_clipped_partial.

(* a read-only array with pad <> 0: whenever the call returns, it returns the runs of x *)
Theorem C18_epochs_ro_runs : forall x r, epochs_ro_model x = Some r -> r = runs x.
Proof. exact epochs_ro_runs. Qed.
Print Assumptions C18_epochs_ro_runs.

(* interval merging is idempotent on every list of intervals s <= e (empty ones included), and leaves
   sorted non-touching lists - in particular the output of run detection - alone *)
Theorem C18_smooth_idempotent : forall l, weak_ivs l -> smooth_model (smooth_model l) = smooth_model l.
Proof. exact smooth_idempotent. Qed.
Print Assumptions C18_smooth_idempotent.

Theorem C18_smooth_fix : forall l, separated 0 l -> smooth_model l = l.
Proof. exact smooth_fix. Qed.
Print Assumptions C18_smooth_fix.

(* debouncing with limit d leaves alone every list of runs >= d with gaps > d, hence is idempotent *)
Theorem C18_debounce_fix : forall d l, 0 <= d -> separated d l ->
  (forall s e, In (s, e) l -> e - s >= d) -> debounce_model d l = l.
Proof. exact debounce_fix. Qed.
Print Assumptions C18_debounce_fix.

Theorem C18_debounce_idempotent : forall d l, 0 <= d -> separated 0 l ->
  debounce_model d (debounce_model d l) = debounce_model d l.
Proof. exact debounce_idempotent. Qed.
Print Assumptions C18_debounce_idempotent.

(* limit 0 on the output of run detection is the identity; limit 1 is NOT (it joins runs separated by a
   single False sample: [1,0,1] -> [(0,3)]) unless all gaps are longer than one sample *)
Theorem C18_debounce_0_runs : forall x, debounce_model 0 (runs x) = runs x.
Proof. exact debounce_0_runs. Qed.
Print Assumptions C18_debounce_0_runs.

Theorem C18_debounce_1_runs_refuted : exists x, debounce_model 1 (runs x) <> runs x.
Proof. exact debounce_1_runs_refuted. Qed.
Print Assumptions C18_debounce_1_runs_refuted.

Theorem C18_debounce_1_runs_partial : forall x, separated 1 (runs x) -> debounce_model 1 (runs x) = runs x.
Proof. exact debounce_1_runs_partial. Qed.
Print Assumptions C18_debounce_1_runs_partial.

(* non-vacuity of the new hypotheses *)
Example C18_ex4 : pad_apply 2 [false; false; true; true; false; false; false] = [true; true; true; true; true; true; false] /\
  (forall s, In s (rising [false; false; true; true; false; false; false]) -> 2 <= s) /\
  epochs_pad_model 2 [false; false; true; true; false; false; false] = Some [(0, 6)].
Proof. split; [reflexivity|]. split; [intros s [H|[]]; lia|reflexivity]. Qed.
Example C18_ex5 : weak_ivs [(4, 6); (2, 2); (0, 2)] /\ separated 1 (runs [true; false; false; true]) /\
  separated 2 [(0, 2); (5, 8)] /\ (forall s e, In (s, e) [(0, 2); (5, 8)] -> e - s >= 2) /\
  epochs_ro_model [true; true] = Some [(0, 2)].
Proof.
  split; [intros s e [H|[H|[H|[]]]]; inversion H; lia|]. split; [cbn; lia|]. split; [cbn; lia|].
  split; [intros s e [H|[H|[]]]; inversion H; lia|reflexivity].
Qed.

(* ====================================================================================
   TRANSLATOR TIE.  coq/gen/RunsGen.v is regenerated on every run from the CURRENT source of util.ts, edge_rising,
   edge_falling, epochs (pad == 0 path), smooth_epochs, debounce_epochs by translate/pyruns2coq.py (fail closed,
   statement by statement, in the NumPy vocabulary of Runs/NumpyPrims.v).  The generated definitions EQUAL the model
   the theorems above are about, for all inputs; so those theorems hold of what the source says now.
   Proofs in Runs/ProofsTie.v.  `option`: None = the code raises (or, for the loops, runs out of fuel). *)
From PV Require Import Runs.NumpyPrims gen.RunsGen Runs.ProofsTie.

(* ts(edge_rising(x)) / ts(edge_falling(x)) as the source computes them are the model's edge lists *)
Theorem C18_source_edge_rising_tie : forall x, gen_ts (gen_edge_rising x) = rising x.
Proof. exact gen_edge_rising_tie. Qed.
Print Assumptions C18_source_edge_rising_tie.

Theorem C18_source_edge_falling_tie : forall x, gen_ts (gen_edge_falling x) = falling x.
Proof. exact gen_edge_falling_tie. Qed.
Print Assumptions C18_source_edge_falling_tie.

(* the masks have NumPy's length max(len x, 1) (np.r_[0, diff] of an empty array has one element) *)
Theorem C18_source_edge_mask_length : forall x,
  zlen (gen_edge_rising x) = Z.max (zlen x) 1 /\ zlen (gen_edge_falling x) = Z.max (zlen x) 1.
Proof. exact gen_edge_mask_length. Qed.
Print Assumptions C18_source_edge_mask_length.

(* epochs(x) (pad = 0): for EVERY boolean list, including where it raises *)
Theorem C18_source_epochs_tie : forall x, gen_epochs x = epochs_model x.
Proof. exact gen_epochs_tie. Qed.
Print Assumptions C18_source_epochs_tie.

(* smooth_epochs: the sort and the two nested while loops, for every list of integer pairs (no hypothesis on the
   intervals) and every fuel above the number of intervals: the loops terminate within it and nothing raises *)
Theorem C18_source_smooth_tie : forall fuel l, (length l < fuel)%nat ->
  gen_smooth_epochs fuel l = Some (smooth_model l).
Proof. exact gen_smooth_epochs_tie. Qed.
Print Assumptions C18_source_smooth_tie.

(* ... the fuel hypothesis is needed: fuel = number of intervals is not enough *)
Theorem C18_source_smooth_fuel_refuted : exists fuel l,
  (length l <= fuel)%nat /\ gen_smooth_epochs fuel l <> Some (smooth_model l).
Proof. exact gen_smooth_epochs_fuel_refuted. Qed.
Print Assumptions C18_source_smooth_fuel_refuted.

(* debounce_epochs: every list of integer pairs, every (also negative) limit *)
Theorem C18_source_debounce_tie : forall fuel d l, (length l < fuel)%nat ->
  gen_debounce_epochs fuel l d = Some (debounce_model d l).
Proof. exact gen_debounce_epochs_tie. Qed.
Print Assumptions C18_source_debounce_tie.

Theorem C18_source_debounce_fuel_refuted : exists fuel d l,
  (length l <= fuel)%nat /\ gen_debounce_epochs fuel l d <> Some (debounce_model d l).
Proof. exact gen_debounce_epochs_fuel_refuted. Qed.
Print Assumptions C18_source_debounce_fuel_refuted.

(* the property theorems restated over the GENERATED definitions *)
Theorem C18_source_epochs_are_runs : forall x, gen_epochs x = Some (runs x).
Proof. exact source_epochs_are_runs. Qed.
Print Assumptions C18_source_epochs_are_runs.

Theorem C18_source_epochs_maximal : forall x, exists r, gen_epochs x = Some r /\
  (forall s e, In (s, e) r <-> is_max_run x s e) /\ separated 0 r.
Proof. exact source_epochs_maximal. Qed.
Print Assumptions C18_source_epochs_maximal.

Theorem C18_source_smooth_cover : forall fuel l, (length l < fuel)%nat -> nonempty_ivs l ->
  exists r, gen_smooth_epochs fuel l = Some r /\ (forall t, covered r t <-> covered l t) /\ separated 0 r.
Proof. exact source_smooth_cover. Qed.
Print Assumptions C18_source_smooth_cover.

Theorem C18_source_debounce_spec : forall fuel d l, (length l < fuel)%nat -> 0 <= d -> separated 0 l ->
  gen_debounce_epochs fuel l d = Some (debounce_spec d l).
Proof. exact source_debounce_spec. Qed.
Print Assumptions C18_source_debounce_spec.

(* the composition the package uses: debounce_epochs(epochs(x), d) *)
Theorem C18_source_pipeline : forall fuel d x, (length x < fuel)%nat -> 0 <= d ->
  bind (gen_epochs x) (fun r => gen_debounce_epochs fuel r d) = Some (debounce_spec d (runs x)).
Proof. exact source_pipeline. Qed.
Print Assumptions C18_source_pipeline.

(* non-vacuity of the tie hypotheses *)
Example C18_ex6 : (length [(4, 6); (0, 2); (1, 5)] < 4)%nat /\ nonempty_ivs [(4, 6); (0, 2); (1, 5)] /\
  gen_smooth_epochs 4 [(4, 6); (0, 2); (1, 5)] = Some [(0, 6)].
Proof. exact tie_ex_smooth. Qed.
Example C18_ex7 : (length [(0, 1); (3, 8); (10, 14)] < 4)%nat /\ separated 0 [(0, 1); (3, 8); (10, 14)] /\
  gen_debounce_epochs 4 [(0, 1); (3, 8); (10, 14)] 2 = Some [(3, 14)].
Proof. exact tie_ex_debounce. Qed.
Example C18_ex8 : gen_epochs [true; true; false; true] = Some [(0, 2); (3, 4)].
Proof. exact tie_ex_epochs. Qed.
