(* C18 - Boolean-epoch utilities compute the exact run structure of a signal.
   Property theorems only; every proof is `exact <lemma of Runs/Proofs.v>`. *)
From PV Require Import Runs.Model Runs.Spec Runs.Proofs.

(* run detection, as the code computes it, returns the left-to-right scan of maximal runs:
   for EVERY boolean list, of any length, never raising *)
Theorem C18_epochs_are_runs : forall x, epochs_model x = Some (runs x).
Proof. exact epochs_are_runs. Qed.
Print Assumptions C18_epochs_are_runs.

(* ... and that scan is exactly the set of maximal runs (ends of the array included) *)
Theorem C18_runs_are_maximal : forall x s e, In (s, e) (runs x) <-> is_max_run x s e.
Proof. exact runs_are_maximal. Qed.
Print Assumptions C18_runs_are_maximal.

(* ... sorted, disjoint, non-empty, not touching *)
Theorem C18_runs_separated : forall x, separated 0 (runs x).
Proof. exact runs_separated. Qed.
Print Assumptions C18_runs_separated.

(* interval merging: same union ... *)
Theorem C18_smooth_cover : forall l, nonempty_ivs l ->
  forall t, covered (smooth_model l) t <-> covered l t.
Proof. exact smooth_cover. Qed.
Print Assumptions C18_smooth_cover.

(* ... as a sorted list of disjoint intervals that do not even touch (so overlapping and
   touching inputs were joined) *)
Theorem C18_smooth_separated : forall l, nonempty_ivs l -> separated 0 (smooth_model l).
Proof. exact smooth_separated. Qed.
Print Assumptions C18_smooth_separated.

(* debouncing = drop the runs shorter than d, then join survivors whose gap is <= d *)
Theorem C18_debounce_spec : forall d l, 0 <= d -> separated 0 l ->
  debounce_model d l = debounce_spec d l.
Proof. exact debounce_is_spec. Qed.
Print Assumptions C18_debounce_spec.

(* ... whose result has only runs >= d, separated by gaps > d, and covers every surviving run *)
Theorem C18_debounce_result : forall d l, 0 <= d -> separated 0 l ->
  separated d (debounce_spec d l) /\
  (forall s e, In (s, e) (debounce_spec d l) -> e - s >= d) /\
  (forall s e t, In (s, e) l -> e - s >= d -> s <= t < e -> covered (debounce_spec d l) t).
Proof. exact debounce_result. Qed.
Print Assumptions C18_debounce_result.

(* the code before the repair recorded in known_findings.txt violated the first theorem *)
Theorem C18_epochs_unrepaired_refuted : exists x, epochs_model_unrepaired x <> Some (runs x).
Proof. exact epochs_unrepaired_refuted. Qed.
Print Assumptions C18_epochs_unrepaired_refuted.

(* non-vacuity: concrete inputs meeting the hypotheses *)
Example C18_ex1 : epochs_model [true; true; false; true] = Some [(0, 2); (3, 4)].
Proof. vm_compute. reflexivity. Qed.
Example C18_ex2 : nonempty_ivs [(4, 6); (0, 2); (1, 5)] /\ smooth_model [(4, 6); (0, 2); (1, 5)] = [(0, 6)].
Proof. split; [ intros s e [H|[H|[H|[]]]]; inversion H; lia | vm_compute; reflexivity ]. Qed.
Example C18_ex3 : separated 0 [(0, 1); (3, 8); (10, 14)] /\ debounce_model 2 [(0, 1); (3, 8); (10, 14)] = [(3, 14)].
Proof. split; [ simpl; lia | vm_compute; reflexivity ]. Qed.
