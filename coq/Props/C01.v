(* C01 - Stimulus generators are chunk-invariant.
   Property theorems only; every proof is `exact <lemma of Stim/Proofs*.v>`. *)
From PV Require Import Stim.Model Stim.Spec Stim.Proofs.

(* The fragment-capable envelope functions return exactly the [offset, offset+samples) slice of the
   whole envelope, for EVERY offset and length (incl. fragments beginning or ending past the end). *)
Theorem C01_envelope_fragment : forall nid elb dur rise o n,
  0 <= elb -> 0 <= rise -> 2 * rise <= dur -> 0 <= o -> 0 <= n ->
  envelope_frag nid elb dur rise o n = Some (zrange (env_at nid elb dur rise) o n).
Proof. exact envelope_fragment. Qed.
Print Assumptions C01_envelope_fragment.

Theorem C01_sam_fragment : forall nid D o n, 0 <= D -> 0 <= o -> 0 <= n ->
  sam_frag true nid D o n = zrange (sam_at nid D) o n.
Proof. exact sam_fragment. Qed.
Print Assumptions C01_sam_fragment.

Theorem C01_square_fragment : forall nid cycle on o n,
  0 < cycle -> 0 <= on <= cycle -> 0 <= o -> 0 <= n ->
  square_frag true nid cycle on o n = zrange (square_at nid cycle on) o n.
Proof. exact square_fragment. Qed.
Print Assumptions C01_square_fragment.

(* Chunk invariance of every generator expression (closed under composition): drawing any list of
   chunk sizes from a freshly reset generator never raises and yields exactly the whole-stream
   denotation on [0, sum cs). *)
Theorem C01_chunk_invariant : forall g cs, wf g = true -> nonneg cs = true ->
  exists s0 s1, greset all_repaired g = Some s0 /\
    run_chunks all_repaired g s0 cs = Some (s1, zrange (den g) 0 (sumZ cs)).
Proof. exact chunk_invariant. Qed.
Print Assumptions C01_chunk_invariant.

(* hence any two ordered partitions of the same N give the same stream, and N samples in one request too *)
Theorem C01_partition_independent : forall g cs1 cs2 s0,
  wf g = true -> nonneg cs1 = true -> nonneg cs2 = true -> sumZ cs1 = sumZ cs2 ->
  greset all_repaired g = Some s0 ->
  exists s1 s2 out, run_chunks all_repaired g s0 cs1 = Some (s1, out) /\
                    run_chunks all_repaired g s0 cs2 = Some (s2, out).
Proof. exact partition_independent. Qed.
Print Assumptions C01_partition_independent.

(* a stateful filter whose state is carried across calls computes the same as one pass over the
   concatenated input, for ANY step function (what NotchFilter / the noise factories rely on) *)
Theorem C01_filter_state_carry : forall (St A B : Type) (f : St -> A -> St * B) (z : St) (chunks : list (list A)),
  snd (mapaccum_chunks f z chunks) = snd (mapaccum f z (concat chunks)).
Proof. exact filter_state_carry. Qed.
Print Assumptions C01_filter_state_carry.

(* The code before the four repairs recorded in known_findings.txt was not chunk-invariant. *)
Theorem C01_unrepaired_refuted : exists g cs1 cs2 s0 o1 o2,
  wf g = true /\ nonneg cs1 = true /\ nonneg cs2 = true /\ sumZ cs1 = sumZ cs2 /\
  greset none_repaired g = Some s0 /\
  run_chunks none_repaired g s0 cs1 = Some o1 /\ run_chunks none_repaired g s0 cs2 = Some o2 /\
  snd o1 <> snd o2.
Proof. exact unrepaired_refuted. Qed.
Print Assumptions C01_unrepaired_refuted.

Example C01_ex : wf (GEnv 3 2 20 3 (GSam 2 5 (GCar 1))) = true /\
  spec_ok (GEnv 3 2 20 3 (GSam 2 5 (GCar 1))) [4; 0; 14; 9] = true.
Proof. vm_compute. split; reflexivity. Qed.

(* ==================================================================================================================
   TRANSLATOR TIE (source -> Coq).  gen/StimIdxGen.v is REGENERATED on every run from the current psiaudio/stim.py by
   translate/pystim2coq.py (hook in harness/C01.py); the theorems below say that the regenerated definitions ARE the model
   definitions the theorems above are about, and restate the main theorems over the regenerated definitions. *)
From PV Require Import Stim.SpecTie Stim.ProofsTie.

(* envelope(): the regenerated index arithmetic is the model's envelope_frag, for ALL integer inputs *)
Theorem C01_source_envelope_tie : forall nid elb dur rise o n,
  gen_envelope nid elb dur rise o (Some n) = envelope_frag nid elb dur rise o n.
Proof. exact envelope_tie. Qed.
Print Assumptions C01_source_envelope_tie.

Theorem C01_source_envelope_fragment : forall nid elb dur rise o n,
  0 <= elb -> 0 <= rise -> 2 * rise <= dur -> 0 <= o -> 0 <= n ->
  gen_envelope nid elb dur rise o (Some n) = Some (zrange (env_at nid elb dur rise) o n).
Proof. exact source_envelope_fragment. Qed.
Print Assumptions C01_source_envelope_fragment.

(* _sam_envelope *)
Theorem C01_source_sam_tie : forall nid D o n, gen_sam_envelope nid D o n = sam_frag true nid D o n.
Proof. exact sam_tie. Qed.
Print Assumptions C01_source_sam_tie.

Theorem C01_source_sam_fragment : forall nid D o n, 0 <= D -> 0 <= o -> 0 <= n ->
  gen_sam_envelope nid D o n = zrange (sam_at nid D) o n.
Proof. exact source_sam_fragment. Qed.
Print Assumptions C01_source_sam_fragment.

(* GateFactory.next: for EVERY record of the object's integer fields, the model's gate step is the regenerated step
   applied to the token of the input generator (next does not read total_samples: no invariant needed) *)
Theorem C01_source_gate_next_tie : forall st g' i n,
  gnext all_repaired (GGate (gate_start_samples st) (gate_duration_samples st) g') (SNode (gate_offset st) i) n =
  match gnext all_repaired g' i n with
  | None => None
  | Some (i', tok) => let '(st', out) := gen_gate_next st n tok in Some (SNode (gate_offset st') i', out)
  end.
Proof. exact gate_next_tie. Qed.
Print Assumptions C01_source_gate_next_tie.

(* EnvelopeFactory.next: the regenerated method (which calls the regenerated envelope and multiplies with the token) *)
Theorem C01_source_env_next_tie : forall R nid rise st g' i n,
  gnext R (GEnv nid (gate_start_samples st) (gate_duration_samples st) rise g') (SNode (gate_offset st) i) n =
  match gnext R g' i n with
  | None => None
  | Some (i', tok) =>
    match gen_env_next nid rise st n tok with
    | None => None
    | Some (st', out) => Some (SNode (gate_offset st') i', out)
    end
  end.
Proof. exact env_next_tie. Qed.
Print Assumptions C01_source_env_next_tie.

(* FixedWaveform.next (slice, zero padding, offset update); RepeatFactory inherits it *)
Theorem C01_source_fixed_next_tie : forall R wid len o n,
  gnext R (GFixed wid len) (SLeaf o) n =
  let '(st', out) := gen_fixed_next (fixed_of wid len o) n in Some (SLeaf (fixed_offset st'), out).
Proof. exact fixed_gnext_tie. Qed.
Print Assumptions C01_source_fixed_next_tie.

Theorem C01_source_repeat_next_tie : forall R a b c d g' o w i n,
  gnext R (GRepeat a b c d g') (SRep o w i) n =
  let '(st', out) := gen_fixed_next (fixed_arr w o) n in Some (SRep (fixed_offset st') w i, out).
Proof. exact repeat_gnext_tie. Qed.
Print Assumptions C01_source_repeat_next_tie.

(* SquareWaveFactory.next: the `while o < samples` loop on the model's fuel *)
Theorem C01_source_square_next_tie : forall nid cycle on o n,
  gnext all_repaired (GSquare nid cycle on) (SLeaf o) n =
  let '(st', out) := gen_square_next (square_of nid cycle on o) n in Some (SLeaf (square_offset st'), out).
Proof. exact square_gnext_tie. Qed.
Print Assumptions C01_source_square_next_tie.

Theorem C01_source_square_fragment : forall nid cycle on o n,
  0 < cycle -> 0 <= on <= cycle -> 0 <= o -> 0 <= n ->
  gen_square_next (square_of nid cycle on o) n = (square_of nid cycle on (o + n), zrange (square_at nid cycle on) o n).
Proof. exact source_square_fragment. Qed.
Print Assumptions C01_source_square_fragment.

(* chunk invariance over the REGENERATED step functions: any draw history (src_*_run folds the regenerated next over the
   chunk sizes, the gate being fed the tokens of its input generator) yields the whole-stream denotation *)
Theorem C01_source_gate_chunk_invariant : forall start dur g' cs, wf (GGate start dur g') = true -> nonneg cs = true ->
  exists i0 st1 i1, greset all_repaired g' = Some i0 /\
    src_gate_run g' (gen_gate_init start dur) i0 cs = Some (st1, i1, zrange (den (GGate start dur g')) 0 (sumZ cs)).
Proof. exact source_gate_chunk_invariant. Qed.
Print Assumptions C01_source_gate_chunk_invariant.

Theorem C01_source_env_chunk_invariant : forall nid start dur rise g' cs,
  wf (GEnv nid start dur rise g') = true -> nonneg cs = true ->
  exists i0 st1 i1, greset all_repaired g' = Some i0 /\
    src_env_run nid rise g' (gen_gate_init start dur) i0 cs =
    Some (st1, i1, zrange (den (GEnv nid start dur rise g')) 0 (sumZ cs)).
Proof. exact source_env_chunk_invariant. Qed.
Print Assumptions C01_source_env_chunk_invariant.

Theorem C01_source_fixed_chunk_invariant : forall wid len cs, 0 <= len -> nonneg cs = true ->
  snd (src_fixed_run (fixed_of wid len 0) cs) = zrange (den (GFixed wid len)) 0 (sumZ cs).
Proof. exact source_fixed_chunk_invariant. Qed.
Print Assumptions C01_source_fixed_chunk_invariant.

Theorem C01_source_square_chunk_invariant : forall nid cycle on cs,
  0 < cycle -> 0 <= on <= cycle -> nonneg cs = true ->
  snd (src_square_run (square_of nid cycle on 0) cs) = zrange (square_at nid cycle on) 0 (sumZ cs).
Proof. exact source_square_chunk_invariant. Qed.
Print Assumptions C01_source_square_chunk_invariant.

Example C01_source_ex : wf (GGate 2 5 (GSquare 1 4 2)) = true /\ nonneg [3; 0; 6] = true /\
  (exists st i, src_gate_run (GSquare 1 4 2) (gen_gate_init 2 5) (SLeaf 0) [3; 0; 6] =
                Some (st, i, zrange (den (GGate 2 5 (GSquare 1 4 2))) 0 9)).
Proof. exact source_ex. Qed.
