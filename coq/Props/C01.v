(* C01 - Stimulus generators are chunk-invariant.
   Property theorems only; every proof is `exact <lemma of Stim/Proofs*.v>`. *)
From PV Require Import Stim.Model Stim.Spec Stim.Proofs.

(* The fragment-capable envelope functions return exactly the [offset, offset+samples) slice of the
   whole envelope, for EVERY offset and length (incl. fragments beginning or ending past the end). *)
Theorem C01_envelope_fragment : forall nid elb dur rise o n,
  0 <= elb -> 0 <= rise -> 2 * rise <= dur -> 0 <= o -> 0 <= n ->
  envelope_frag nid elb dur rise o n = Some (zrange (env_at nid elb dur rise) o n).
Proof. exact envelope_fragment. Qed.
Print Assumptions C01_envelope_fragment.

Theorem C01_sam_fragment : forall nid D o n, 0 <= D -> 0 <= o -> 0 <= n ->
  sam_frag true nid D o n = zrange (sam_at nid D) o n.
Proof. exact sam_fragment. Qed.
Print Assumptions C01_sam_fragment.

Theorem C01_square_fragment : forall nid cycle on o n,
  0 < cycle -> 0 <= on <= cycle -> 0 <= o -> 0 <= n ->
  square_frag true nid cycle on o n = zrange (square_at nid cycle on) o n.
Proof. exact square_fragment. Qed.
Print Assumptions C01_square_fragment.

(* Chunk invariance of every generator expression (closed under composition): drawing any list of
   chunk sizes from a freshly reset generator never raises and yields exactly the whole-stream
   denotation on [0, sum cs). *)
Theorem C01_chunk_invariant : forall g cs, wf g = true -> nonneg cs = true ->
  exists s0 s1, greset all_repaired g = Some s0 /\
    run_chunks all_repaired g s0 cs = Some (s1, zrange (den g) 0 (sumZ cs)).
Proof. exact chunk_invariant. Qed.
Print Assumptions C01_chunk_invariant.

(* hence any two ordered partitions of the same N give the same stream, and N samples in one request too *)
Theorem C01_partition_independent : forall g cs1 cs2 s0,
  wf g = true -> nonneg cs1 = true -> nonneg cs2 = true -> sumZ cs1 = sumZ cs2 ->
  greset all_repaired g = Some s0 ->
  exists s1 s2 out, run_chunks all_repaired g s0 cs1 = Some (s1, out) /\
                    run_chunks all_repaired g s0 cs2 = Some (s2, out).
Proof. exact partition_independent. Qed.
Print Assumptions C01_partition_independent.

(* a stateful filter whose state is carried across calls computes the same as one pass over the
   concatenated input, for ANY step function (what NotchFilter / the noise factories rely on) *)
Theorem C01_filter_state_carry : forall (St A B : Type) (f : St -> A -> St * B) (z : St) (chunks : list (list A)),
  snd (mapaccum_chunks f z chunks) = snd (mapaccum f z (concat chunks)).
Proof. exact filter_state_carry. Qed.
Print Assumptions C01_filter_state_carry.

(* The code before the four repairs recorded in known_findings.txt was not chunk-invariant. *)
Theorem C01_unrepaired_refuted : exists g cs1 cs2 s0 o1 o2,
  wf g = true /\ nonneg cs1 = true /\ nonneg cs2 = true /\ sumZ cs1 = sumZ cs2 /\
  greset none_repaired g = Some s0 /\
  run_chunks none_repaired g s0 cs1 = Some o1 /\ run_chunks none_repaired g s0 cs2 = Some o2 /\
  snd o1 <> snd o2.
Proof. exact unrepaired_refuted. Qed.
Print Assumptions C01_unrepaired_refuted.

Example C01_ex : wf (GEnv 3 2 20 3 (GSam 2 5 (GCar 1))) = true /\
  spec_ok (GEnv 3 2 20 3 (GSam 2 5 (GCar 1))) [4; 0; 14; 9] = true.
Proof. vm_compute. split; reflexivity. Qed.
