(* C01 - Stimulus generators are chunk-invariant.
   Property theorems only; every proof is `exact <lemma of Stim/Proofs*.v>`. *)
From PV Require Import Stim.Model Stim.Spec Stim.Proofs.

(* The fragment-capable envelope functions return exactly the [offset, offset+samples) slice of the
   whole envelope, for EVERY offset and length (incl. fragments beginning or ending past the end). *)
Theorem C01_envelope_fragment : forall nid elb dur rise o n,
  0 <= elb -> 0 <= rise -> 2 * rise <= dur -> 0 <= o -> 0 <= n ->
  envelope_frag nid elb dur rise o n = Some (zrange (env_at nid elb dur rise) o n).
Proof. exact envelope_fragment. Qed.
Print Assumptions C01_envelope_fragment.

Theorem C01_sam_fragment : forall nid D o n, 0 <= D -> 0 <= o -> 0 <= n ->
  sam_frag true nid D o n = zrange (sam_at nid D) o n.
Proof. exact sam_fragment. Qed.
Print Assumptions C01_sam_fragment.

Theorem C01_square_fragment : forall nid cycle on o n,
  0 < cycle -> 0 <= on <= cycle -> 0 <= o -> 0 <= n ->
  square_frag true nid cycle on o n = zrange (square_at nid cycle on) o n.
Proof. exact square_fragment. Qed.
Print Assumptions C01_square_fragment.

(* Chunk invariance of every generator expression (closed under composition): drawing any list of
   chunk sizes from a freshly reset generator never raises and yields exactly the whole-stream
   denotation on [0, sum cs). *)
Theorem C01_chunk_invariant : forall g cs, wf g = true -> nonneg cs = true ->
  exists s0 s1, greset all_repaired g = Some s0 /\
    run_chunks all_repaired g s0 cs = Some (s1, zrange (den g) 0 (sumZ cs)).
Proof. exact chunk_invariant. Qed.
Print Assumptions C01_chunk_invariant.

(* hence any two ordered partitions of the same N give the same stream, and N samples in one request too *)
Theorem C01_partition_independent : forall g cs1 cs2 s0,
  wf g = true -> nonneg cs1 = true -> nonneg cs2 = true -> sumZ cs1 = sumZ cs2 ->
  greset all_repaired g = Some s0 ->
  exists s1 s2 out, run_chunks all_repaired g s0 cs1 = Some (s1, out) /\
                    run_chunks all_repaired g s0 cs2 = Some (s2, out).
Proof. exact partition_independent. Qed.
Print Assumptions C01_partition_independent.

(* a stateful filter whose state is carried across calls computes the same as one pass over the
   concatenated input, for ANY step function (what NotchFilter / the noise factories rely on) *)
Theorem C01_filter_state_carry : forall (St A B : Type) (f : St -> A -> St * B) (z : St) (chunks : list (list A)),
  snd (mapaccum_chunks f z chunks) = snd (mapaccum f z (concat chunks)).
Proof. exact filter_state_carry. Qed.
Print Assumptions C01_filter_state_carry.

(* The code before the four repairs recorded in known_findings.txt was not chunk-invariant. *)
Theorem C01_unrepaired_refuted : exists g cs1 cs2 s0 o1 o2,
  wf g = true /\ nonneg cs1 = true /\ nonneg cs2 = true /\ sumZ cs1 = sumZ cs2 /\
  greset none_repaired g = Some s0 /\
  run_chunks none_repaired g s0 cs1 = Some o1 /\ run_chunks none_repaired g s0 cs2 = Some o2 /\
  snd o1 <> snd o2.
Proof. exact unrepaired_refuted. Qed.
Print Assumptions C01_unrepaired_refuted.

Example C01_ex : wf (GEnv 3 2 20 3 (GSam 2 5 (GCar 1))) = true /\
  spec_ok (GEnv 3 2 20 3 (GSam 2 5 (GCar 1))) [4; 0; 14; 9] = true.
Proof. vm_compute. split; reflexivity. Qed.

(* ==================================================================================================================
   TRANSLATOR TIE (source -> Coq).  gen/StimIdxGen.v is REGENERATED on every run from the current psiaudio/stim.py by
   translate/pystim2coq.py (hook in harness/C01.py); the theorems below say that the regenerated definitions ARE the model
   definitions the theorems above are about, and restate the main theorems over the regenerated definitions. *)
From PV Require Import Stim.SpecTie Stim.ProofsTie.

(* envelope(): the regenerated index arithmetic is the model's envelope_frag, for ALL integer inputs *)
Theorem C01_source_envelope_tie : forall nid elb dur rise o n,
  gen_envelope nid elb dur rise o (Some n) = envelope_frag nid elb dur rise o n.
Proof. exact envelope_tie. Qed.
Print Assumptions C01_source_envelope_tie.

Theorem C01_source_envelope_fragment : forall nid elb dur rise o n,
  0 <= elb -> 0 <= rise -> 2 * rise <= dur -> 0 <= o -> 0 <= n ->
  gen_envelope nid elb dur rise o (Some n) = Some (zrange (env_at nid elb dur rise) o n).
Proof. exact source_envelope_fragment. Qed.
Print Assumptions C01_source_envelope_fragment.

(* _sam_envelope *)
Theorem C01_source_sam_tie : forall nid D o n, gen_sam_envelope nid D o n = sam_frag true nid D o n.
Proof. exact sam_tie. Qed.
Print Assumptions C01_source_sam_tie.

Theorem C01_source_sam_fragment : forall nid D o n, 0 <= D -> 0 <= o -> 0 <= n ->
  gen_sam_envelope nid D o n = zrange (sam_at nid D) o n.
Proof. exact source_sam_fragment. Qed.
Print Assumptions C01_source_sam_fragment.

(* GateFactory.next: for EVERY record of the object's integer fields, the model's gate step is the regenerated step
   applied to the token of the input generator (next does not read total_samples: no invariant needed) *)
Theorem C01_source_gate_next_tie : forall st g' i n,
  gnext all_repaired (GGate (gate_start_samples st) (gate_duration_samples st) g') (SNode (gate_offset st) i) n =
  match gnext all_repaired g' i n with
  | None => None
  | Some (i', tok) => let '(st', out) := gen_gate_next st n tok in Some (SNode (gate_offset st') i', out)
  end.
Proof. exact gate_next_tie. Qed.
Print Assumptions C01_source_gate_next_tie.

(* EnvelopeFactory.next: the regenerated method (which calls the regenerated envelope and multiplies with the token) *)
Theorem C01_source_env_next_tie : forall R nid rise st g' i n,
  gnext R (GEnv nid (gate_start_samples st) (gate_duration_samples st) rise g') (SNode (gate_offset st) i) n =
  match gnext R g' i n with
  | None => None
  | Some (i', tok) =>
    match gen_env_next nid rise st n tok with
    | None => None
    | Some (st', out) => Some (SNode (gate_offset st') i', out)
    end
  end.
Proof. exact env_next_tie. Qed.
Print Assumptions C01_source_env_next_tie.

(* FixedWaveform.next (slice, zero padding, offset update); RepeatFactory inherits it *)
Theorem C01_source_fixed_next_tie : forall R wid len o n,
  gnext R (GFixed wid len) (SLeaf o) n =
  let '(st', out) := gen_fixed_next (fixed_of wid len o) n in Some (SLeaf (fixed_offset st'), out).
Proof. exact fixed_gnext_tie. Qed.
Print Assumptions C01_source_fixed_next_tie.

Theorem C01_source_repeat_next_tie : forall R a b c d g' o w i n,
  gnext R (GRepeat a b c d g') (SRep o w i) n =
  let '(st', out) := gen_fixed_next (fixed_arr w o) n in Some (SRep (fixed_offset st') w i, out).
Proof. exact repeat_gnext_tie. Qed.
Print Assumptions C01_source_repeat_next_tie.

(* SquareWaveFactory.next: the `while o < samples` loop on the model's fuel *)
Theorem C01_source_square_next_tie : forall nid cycle on o n,
  gnext all_repaired (GSquare nid cycle on) (SLeaf o) n =
  let '(st', out) := gen_square_next (square_of nid cycle on o) n in Some (SLeaf (square_offset st'), out).
Proof. exact square_gnext_tie. Qed.
Print Assumptions C01_source_square_next_tie.

Theorem C01_source_square_fragment : forall nid cycle on o n,
  0 < cycle -> 0 <= on <= cycle -> 0 <= o -> 0 <= n ->
  gen_square_next (square_of nid cycle on o) n = (square_of nid cycle on (o + n), zrange (square_at nid cycle on) o n).
Proof. exact source_square_fragment. Qed.
Print Assumptions C01_source_square_fragment.

(* chunk invariance over the REGENERATED step functions: any draw history (src_*_run folds the regenerated next over the
   chunk sizes, the gate being fed the tokens of its input generator) yields the whole-stream denotation *)
Theorem C01_source_gate_chunk_invariant : forall start dur g' cs, wf (GGate start dur g') = true -> nonneg cs = true ->
  exists i0 st1 i1, greset all_repaired g' = Some i0 /\
    src_gate_run g' (gen_gate_init start dur) i0 cs = Some (st1, i1, zrange (den (GGate start dur g')) 0 (sumZ cs)).
Proof. exact source_gate_chunk_invariant. Qed.
Print Assumptions C01_source_gate_chunk_invariant.

Theorem C01_source_env_chunk_invariant : forall nid start dur rise g' cs,
  wf (GEnv nid start dur rise g') = true -> nonneg cs = true ->
  exists i0 st1 i1, greset all_repaired g' = Some i0 /\
    src_env_run nid rise g' (gen_gate_init start dur) i0 cs =
    Some (st1, i1, zrange (den (GEnv nid start dur rise g')) 0 (sumZ cs)).
Proof. exact source_env_chunk_invariant. Qed.
Print Assumptions C01_source_env_chunk_invariant.

Theorem C01_source_fixed_chunk_invariant : forall wid len cs, 0 <= len -> nonneg cs = true ->
  snd (src_fixed_run (fixed_of wid len 0) cs) = zrange (den (GFixed wid len)) 0 (sumZ cs).
Proof. exact source_fixed_chunk_invariant. Qed.
Print Assumptions C01_source_fixed_chunk_invariant.

Theorem C01_source_square_chunk_invariant : forall nid cycle on cs,
  0 < cycle -> 0 <= on <= cycle -> nonneg cs = true ->
  snd (src_square_run (square_of nid cycle on 0) cs) = zrange (square_at nid cycle on) 0 (sumZ cs).
Proof. exact source_square_chunk_invariant. Qed.
Print Assumptions C01_source_square_chunk_invariant.

Example C01_source_ex : wf (GGate 2 5 (GSquare 1 4 2)) = true /\ nonneg [3; 0; 6] = true /\
  (exists st i, src_gate_run (GSquare 1 4 2) (gen_gate_init 2 5) (SLeaf 0) [3; 0; 6] =
                Some (st, i, zrange (den (GGate 2 5 (GSquare 1 4 2))) 0 9)).
Proof. exact source_ex. Qed.

(* ------------------------------------------------------------------ *)
(* HISTORIES of operations on one generator object - next(n) | reset() | queries | get_samples_remaining() in any
   order (run_ops / run_gen, what the correspondence harness drives).  Vocabulary: Stim/SpecX.v, proofs: Stim/ProofsX*.v *)
From PV Require Import Stim.SpecX Stim.ProofsX Stim.ProofsXRep.

(* the integers run_ops prints are exactly the events of the structured run, and run_state is the state it continues
   from: every repair set, generator, state and history (these tie run_evs / run_state to the harness-driven run_ops) *)
Theorem C01_run_ops_flatten : forall R g ops s, run_ops R g s ops = flatten_evs (run_evs R g s ops).
Proof. exact run_ops_flatten. Qed.
Print Assumptions C01_run_ops_flatten.

Theorem C01_run_ops_app : forall R g a b s s1, run_state R g s a = Some s1 ->
  run_ops R g s (a ++ b) = run_ops R g s a ++ run_ops R g (Some s1) b.
Proof. exact run_ops_app. Qed.
Print Assumptions C01_run_ops_app.

(* REFINEMENT: for every well-formed generator and EVERY history with non-negative counts, everything observable on
   the object equals the reference run that keeps no object state, only pos = samples drawn since the last reset:
   next(n) returns the whole-stream denotation on [pos, pos+n) and never raises, reset() sets pos 0, the queries are
   functions of pos, get_samples_remaining() draws max(total - pos, 0) samples (raises for an infinite generator) *)
Theorem C01_history_refines_position : forall g ops, wf g = true -> ops_nonneg ops = true ->
  run_ops all_repaired g (greset all_repaired g) ops = flatten_evs (ref_run g 0 ops).
Proof. exact history_refines_position. Qed.
Print Assumptions C01_history_refines_position.

Theorem C01_history_refines_position_evs : forall g ops, wf g = true -> ops_nonneg ops = true ->
  run_evs all_repaired g (greset all_repaired g) ops = ref_run g 0 ops.
Proof. exact history_refines_position_evs. Qed.
Print Assumptions C01_history_refines_position_evs.

(* after ANY history, reset() makes the object indistinguishable from a freshly built one *)
Theorem C01_reset_replays : forall g h ops, wf g = true -> ops_nonneg h = true -> ops_nonneg ops = true ->
  run_gen g (h ++ Reset :: ops) = run_gen g h ++ 3 :: run_gen g ops.
Proof. exact reset_replays. Qed.
Print Assumptions C01_reset_replays.

(* per segment (the draws between two consecutive resets) the concatenated stream is the one-shot stream of the
   segment's total, so two histories with the same per-segment totals give the same streams *)
Theorem C01_history_streams : forall g h, wf g = true -> ops_nonneg h = true ->
  seg_streams [] (run_evs all_repaired g (greset all_repaired g) h) = map (zrange (den g) 0) (seg_draws g 0 h).
Proof. exact history_streams. Qed.
Print Assumptions C01_history_streams.

Theorem C01_history_chunk_invariant : forall g h1 h2, wf g = true -> ops_nonneg h1 = true -> ops_nonneg h2 = true ->
  seg_draws g 0 h1 = seg_draws g 0 h2 ->
  seg_streams [] (run_evs all_repaired g (greset all_repaired g) h1) =
  seg_streams [] (run_evs all_repaired g (greset all_repaired g) h2).
Proof. exact history_chunk_invariant. Qed.
Print Assumptions C01_history_chunk_invariant.

(* ... for histories of next / reset / queries the hypothesis is plain arithmetic on the requested counts *)
Theorem C01_history_chunk_invariant_next : forall g h1 h2, wf g = true ->
  ops_nonneg h1 = true -> ops_nonneg h2 = true -> no_rest h1 = true -> no_rest h2 = true ->
  seg_sums 0 h1 = seg_sums 0 h2 ->
  seg_streams [] (run_evs all_repaired g (greset all_repaired g) h1) =
  seg_streams [] (run_evs all_repaired g (greset all_repaired g) h2) /\
  seg_streams [] (run_evs all_repaired g (greset all_repaired g) h1) = map (zrange (den g) 0) (seg_sums 0 h1).
Proof. exact history_chunk_invariant_next. Qed.
Print Assumptions C01_history_chunk_invariant_next.

(* RepeatFactory on what its input RETURNED: reset draws all lw samples of the input once (array w), stores rows
   skip..skip+n-1 of length period carrying w at column sdelay (zero elsewhere), and every chunking then yields that
   row stream, zero past the end; no draw changes the stored array or touches the input again *)
Theorem C01_repeat_rows : forall n skip period sdelay g cs,
  wf (GRepeat n skip period sdelay g) = true -> nonneg cs = true ->
  exists i0 lw i1 w s1,
    greset all_repaired g = Some i0 /\ remaining g i0 = Some lw /\
    gnext all_repaired g i0 lw = Some (i1, w) /\ zlen w = lw /\
    greset all_repaired (GRepeat n skip period sdelay g)
      = Some (SRep 0 (zrange (repeat_row_stream n skip period sdelay w) 0 ((n + skip) * period)) i1) /\
    run_chunks all_repaired (GRepeat n skip period sdelay g)
      (SRep 0 (zrange (repeat_row_stream n skip period sdelay w) 0 ((n + skip) * period)) i1) cs
      = Some (s1, zrange (repeat_row_stream n skip period sdelay w) 0 (sumZ cs)).
Proof. exact repeat_rows. Qed.
Print Assumptions C01_repeat_rows.

Theorem C01_repeat_wave_fixed : forall R n skip period sdelay g o w i k,
  gnext R (GRepeat n skip period sdelay g) (SRep o w i) k = Some (SRep (o + k) w i, fixed_next w o k).
Proof. exact repeat_wave_fixed. Qed.
Print Assumptions C01_repeat_wave_fixed.

(* the fragment functions in the encoding the harness evaluates (run_envelope / run_sam / run_sqenv): exactly the
   [offset, offset+samples) slice of the whole envelope; a rise longer than half the duration raises *)
Theorem C01_fragment_runs :
  (forall elb dur rise o n, 0 <= elb -> 0 <= rise -> 2 * rise <= dur -> 0 <= o -> 0 <= n ->
     run_envelope elb dur rise o n = 1 :: enc_factors (zrange (env_at 0 elb dur rise) o n)) /\
  (forall elb dur rise o n, dur < 2 * rise -> run_envelope elb dur rise o n = [2]) /\
  (forall D o n, 0 <= D -> 0 <= o -> 0 <= n -> run_sam D o n = enc_factors (zrange (sam_at 0 D) o n)) /\
  (forall P duty o n, Qle_bool 1 P = true -> 1 <= duty -> duty <= Qfloor P -> 0 <= o -> 0 <= n ->
     run_sqenv P duty o n = enc_factors (zrange (sqenv_at 0 P duty) o n)).
Proof. exact fragment_runs. Qed.
Print Assumptions C01_fragment_runs.

Example C01_history_ex : wf (GRepeat 2 1 12 2 (GSqEnv 4 (7 # 2) 2 (GEnv 2 0 8 2 (GCar 1)))) = true /\
  ops_nonneg [Next 5; Query; Rest; Next 3; Reset; Next 0; Query; Next 40; Rest] = true /\
  run_gen (GRepeat 2 1 12 2 (GSqEnv 4 (7 # 2) 2 (GEnv 2 0 8 2 (GCar 1))))
          [Next 5; Query; Rest; Next 3; Reset; Next 0; Query; Next 40; Rest]
  = flatten_evs (ref_run (GRepeat 2 1 12 2 (GSqEnv 4 (7 # 2) 2 (GEnv 2 0 8 2 (GCar 1)))) 0
          [Next 5; Query; Rest; Next 3; Reset; Next 0; Query; Next 40; Rest]).
Proof. vm_compute. repeat split; reflexivity. Qed.

(* ==================================================================================================================
   TRANSLATOR TIE, second part (Stim/ProofsTieRep.v): repeat(), RepeatFactory.reset, Transform.next / reset as regenerated
   from the current psiaudio/stim.py in gen/StimIdxGen.v. *)
From PV Require Import Stim.ProofsTieRep.

(* repeat(): length test, ValueError and row layout (zeros((n + skip_n, s_period)), rows skip_n.. carrying the waveform at
   column s_delay, ravel) equal the model's repeat_wave on the model's domain (counts and delay not negative) *)
Theorem C01_source_repeat_tie : forall n skip period sdelay w, 0 <= n -> 0 <= skip -> 0 <= sdelay ->
  gen_repeat period sdelay w n skip = repeat_wave n skip period sdelay w.
Proof. exact repeat_tie. Qed.
Print Assumptions C01_source_repeat_tie.

Example C01_source_repeat_tie_ex : gen_repeat 5 1 [[fone]; [fone]] 2 1 = repeat_wave 2 1 5 1 [[fone]; [fone]] /\
  repeat_wave 2 1 5 1 [[fone]; [fone]] <> None.
Proof. exact repeat_tie_ex. Qed.

Theorem C01_source_repeat_tie_refuted : exists n skip period sdelay w, sdelay < 0 /\
  gen_repeat period sdelay w n skip <> repeat_wave n skip period sdelay w.
Proof. exact repeat_tie_refuted. Qed.
Print Assumptions C01_source_repeat_tie_refuted.

(* the GRepeat case of greset: reset + get_samples_remaining of the input, then the regenerated RepeatFactory.reset
   (from ANY previous record of the object) on what the input handed out *)
Theorem C01_source_repeat_greset_tie : forall R n skip period sdelay g st, 0 <= n -> 0 <= skip -> 0 <= sdelay ->
  greset R (GRepeat n skip period sdelay g) =
  match greset R g with
  | None => None
  | Some i =>
    match remaining g i with
    | None => None
    | Some r =>
      match gnext R g i r with
      | None => None
      | Some (i', w) =>
        match gen_repeat_reset period sdelay n skip st w with
        | None => None
        | Some st' => Some (SRep (fixed_offset st') (fixed_waveform st') i')
        end
      end
    end
  end.
Proof. exact repeat_greset_tie. Qed.
Print Assumptions C01_source_repeat_greset_tie.

(* Transform.next (offset += len(output)) in the GFilt and GSam cases of gnext; Transform.reset in greset *)
Theorem C01_source_filt_next_tie : forall R fid g' o i n,
  gnext R (GFilt fid g') (SNode o i) n =
  match gnext R g' i n with
  | None => None
  | Some (i', tok) =>
    let '(st', out) := gen_transform_next {| xform_offset := o |} n tok (zrange (fun p => [(8, fid, p)]) o (zlen tok)) in
    Some (SNode (xform_offset st') i', out)
  end.
Proof. exact filt_next_tie. Qed.
Print Assumptions C01_source_filt_next_tie.

Theorem C01_source_sam_next_tie : forall nid D g' o i n,
  gnext all_repaired (GSam nid D g') (SNode o i) n =
  match gnext all_repaired g' i n with
  | None => None
  | Some (i', tok) =>
    match map2_mul (gen_sam_envelope nid D o (zlen tok)) tok with
    | None => None
    | Some w => let '(st', out) := gen_transform_next {| xform_offset := o |} n tok w in
                Some (SNode (xform_offset st') i', out)
    end
  end.
Proof. exact sam_next_tie. Qed.
Print Assumptions C01_source_sam_next_tie.

Theorem C01_source_transform_greset_tie : forall R fid g' st,
  greset R (GFilt fid g') =
  match greset R g' with Some i => Some (SNode (xform_offset (gen_transform_reset st)) i) | None => None end.
Proof. exact transform_greset_tie. Qed.
Print Assumptions C01_source_transform_greset_tie.

(* C01_repeat_rows over the regenerated definitions *)
Theorem C01_source_repeat_rows : forall n skip period sdelay g cs st0,
  wf (GRepeat n skip period sdelay g) = true -> nonneg cs = true ->
  exists i0 lw i1 w,
    greset all_repaired g = Some i0 /\ remaining g i0 = Some lw /\
    gnext all_repaired g i0 lw = Some (i1, w) /\ zlen w = lw /\
    let W := zrange (repeat_row_stream n skip period sdelay w) 0 ((n + skip) * period) in
    gen_repeat_reset period sdelay n skip st0 w = Some (fixed_arr W 0) /\
    snd (src_fixed_run (fixed_arr W 0) cs) = zrange (repeat_row_stream n skip period sdelay w) 0 (sumZ cs).
Proof. exact source_repeat_rows. Qed.
Print Assumptions C01_source_repeat_rows.
