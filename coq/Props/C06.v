(* C06 - End to end, every presented trial is recovered sample-exactly from the stream.
   Property theorems only; every proof is `exact <lemma>` of coq/EndToEnd/Proofs*.v or coq/FloatGrid/Grid.v.

   The loop of tests/test_queue.py: a signal queue (coq/Queue/Model.v, any of the queue classes) generates the
   output and notifies `added` / `removed`; a playback device holds what has been generated, truncated at each
   pause time (EndToEnd/Model.v: the played stream P); extract_epochs (coq/Extract/Model.v) receives P in
   arbitrary chunks together with the notifications that are waiting in the two deques at each send.
   Everything below is in samples; the seconds <-> samples conversions of the two sides are the subject of
   C06_conversions_agree (real-number theorems about IEEE binary64, for every rate in [1, 2^40]).

   Histories (wf_hist, Queue/Spec.v): any sequence of Pop n (n >= 0) / Pause t (t <= clock) / Resume t.
   timed_hist (EndToEnd/Model.v): every interruption of a waveform is a TIMED pause - no silence is generated
     into a waveform in progress after an un-timed pause(), and resume(t) is neither under a waveform in
     progress nor before the end of a kept trial.  Without it the statement is false: C06_untimed_pause_refuted.
   Schedules (wf_steps): queue operations interleaved with acquisitions `SA m` in ANY way, such that a chunk is
     acquired only after it was generated, and pause / resume times are not before what was already acquired
     (a playback device cannot take back samples it has played).  Generation and acquisition chunkings are
     independent and arbitrary; the notifications wait in the deques until the next send, whatever happened
     in between (including cancellation and re-presentation of a trial with the same (key, t0)).           *)
From PV Require Import EndToEnd.Model EndToEnd.Spec EndToEnd.ProofsStream EndToEnd.ProofsLive EndToEnd.ProofsCompose.
From PV Require Import FloatGrid.Grid.
From Coq Require Import Reals.
From Flocq Require Import Core.
Open Scope Z_scope.

(* After every well-formed timed history, for every queue class: each kept (logged, non-cancelled) trial has its
   waveform in the played stream at its notified start, sample for sample, as far as it has been generated;
   kept trials are ordered and disjoint; each was notified, starts at a sample >= 0 and - except a trial still in
   progress - is complete; and every position of the stream holds silence or the sample of some notified trial
   at its own offset (so what follows a kept trial is silence up to the next notified start). *)
Theorem C06_trials_in_stream : forall p es ch pm ops q ev P,
  wf_queue p es = true -> wf_hist all_rep (qinit p es ch pm) ops = true ->
  timed_hist all_rep (qinit p es ch pm) ops = true ->
  play_hist all_rep (qinit p es ch pm) [] ops = Some (q, ev, P) ->
  (forall k t0 j, In (k, t0) (live_of q) -> 0 <= j < len_of es k -> t0 + j < q_samples q ->
                  znth P (t0 + j) = Some (OWave k j)) /\
  disjoint_live es (live_of q) /\
  (forall k t0, In (k, t0) (live_of q) -> In (k, t0) (added_of ev) /\ 0 <= t0 /\
                (t0 + len_of es k <= q_samples q \/ in_progress q = true)) /\
  (forall s x, znth P s = Some x ->
               x = OZero \/ exists k t0, In (k, t0) (added_of ev) /\ x = OWave k (s - t0) /\
                                          t0 <= s < t0 + len_of es k).
Proof. exact trials_in_stream. Qed.
Print Assumptions C06_trials_in_stream.

(* Positions covered by no notified trial are silent. *)
Theorem C06_silence_elsewhere : forall p es ch pm ops q ev P,
  wf_queue p es = true -> wf_hist all_rep (qinit p es ch pm) ops = true ->
  timed_hist all_rep (qinit p es ch pm) ops = true ->
  play_hist all_rep (qinit p es ch pm) [] ops = Some (q, ev, P) ->
  forall s, 0 <= s < zlen P ->
    (forall k t0, In (k, t0) (added_of ev) -> ~ (t0 <= s < t0 + len_of es k)) ->
    znth P s = Some OZero.
Proof. exact silence_elsewhere. Qed.
Print Assumptions C06_silence_elsewhere.

(* The notifications, replayed in the order they were issued (a request per `added`, a cancellation per `removed`),
   leave exactly the queue's kept trials outstanding; every notification is valid when issued (never two
   outstanding requests with the same (key, t0), only outstanding requests are cancelled) - so a cancelled trial
   that is presented again with the same key at the same start is a new request, not a duplicate; kept trials
   are pairwise distinct, also as extract_epochs' dictionary keys. *)
Theorem C06_requests_are_live : forall p es ch pm ops q ev P,
  wf_queue p es = true -> minlen es = true -> wf_hist all_rep (qinit p es ch pm) ops = true ->
  timed_hist all_rep (qinit p es ch pm) ops = true ->
  play_hist all_rep (qinit p es ch pm) [] ops = Some (q, ev, P) ->
  valid_notes [] ev /\ net_live [] ev = live_of q /\ NoDup (live_of q) /\
  NoDup (map (fun kt => pkey (zlen es) (fst kt) (snd kt)) (live_of q)).
Proof. exact requests_are_live. Qed.
Print Assumptions C06_requests_are_live.

(* END TO END.  For every queue class, stimulus set (each waveform non-empty and not longer than the epoch), every
   combined schedule (any generation chunking, any acquisition chunking, any number of timed pauses / resumes
   anywhere, any look-back B, any input kind), once the notifications have been handed over: no send raises, and
   what extract_epochs has delivered is exactly one epoch per kept trial whose window [t0, t0+n) has been acquired,
   in presentation order, each equal to the trial's waveform followed by silence; nothing else is delivered -
   no cancelled trial yields an epoch.  poststim_fits: no other notified trial lies inside a kept trial's window. *)
Theorem C06_end_to_end : forall p es ch pm B k X steps st fs,
  wf_queue p es = true -> minlen es = true -> forallb (fun e => e_len e <=? x_n X) es = true ->
  x_K X = zlen es -> x_pre X = 0 ->
  wf_steps all_rep (cinit (qinit p es ch pm)) steps = true ->
  run_steps all_rep X (cinit (qinit p es ch pm)) steps = Some (st, fs) ->
  s_notes st = [] ->
  poststim_fits es (x_n X) (s_added st) (live_of (s_q st)) = true ->
  Forall (fun o => is_err o = false) (run B k fs) /\
  delivered (run B k fs) = map (epoch_item X es) (filter (complete (x_n X) (s_acq st)) (live_of (s_q st))).
Proof. exact end_to_end. Qed.
Print Assumptions C06_end_to_end.

(* Without poststim_fits and at any moment (notifications may still be waiting): the epochs delivered are exactly
   the slices [t0, t0+n) of the played stream for the trials that were outstanding at the last send and whose
   window has been acquired - the two sides never disagree about WHERE a trial is. *)
Theorem C06_end_to_end_slices : forall p es ch pm B k X steps st fs,
  wf_queue p es = true -> minlen es = true -> forallb (fun e => e_len e <=? x_n X) es = true ->
  x_K X = zlen es -> x_pre X = 0 ->
  wf_steps all_rep (cinit (qinit p es ch pm)) steps = true ->
  run_steps all_rep X (cinit (qinit p es ch pm)) steps = Some (st, fs) ->
  Forall (fun o => is_err o = false) (run B k fs) /\
  delivered (run B k fs) =
    map (s_item (map (x_val X) (firstn (Z.to_nat (s_acq st)) (s_P st))))
        (map (req_of (x_K X) (x_n X) (x_pre X)) (filter (complete (x_n X) (s_acq st)) (s_live st))) /\
  net_live (s_live st) (s_notes st) = live_of (s_q st).
Proof. exact end_to_end_slices. Qed.
Print Assumptions C06_end_to_end_slices.

(* The queue side of a schedule is the history of its queue operations (so C06_trials_in_stream speaks about the
   same stream s_P and the same notifications s_added), and a well-formed schedule is a well-formed timed history. *)
Theorem C06_schedule_is_history : forall R X steps st st' fs,
  run_steps R X st steps = Some (st', fs) ->
  exists ev, play_hist R (s_q st) (s_P st) (ops_of steps) = Some (s_q st', ev, s_P st') /\
             s_added st' = s_added st ++ added_of ev.
Proof. exact run_steps_play. Qed.
Print Assumptions C06_schedule_is_history.

Theorem C06_schedule_wf : forall R steps st, wf_steps R st steps = true ->
  wf_hist R (s_q st) (ops_of steps) = true /\ timed_hist R (s_q st) (ops_of steps) = true.
Proof. exact wf_steps_hist. Qed.
Print Assumptions C06_schedule_wf.

(* Outside timed_hist the statement is false of the faithful model (and of the code): an un-timed pause() while a
   waveform is in progress, followed by paused generation, leaves a kept trial - never notified as removed - whose
   samples are NOT contiguous in the stream (silence at its third position). *)
Theorem C06_untimed_pause_refuted : exists p es ops q ev P k t0 j,
  wf_queue p es = true /\ minlen es = true /\ wf_hist all_rep (qinit p es [] []) ops = true /\
  play_hist all_rep (qinit p es [] []) [] ops = Some (q, ev, P) /\
  In (k, t0) (live_of q) /\ removed_of ev = [] /\ 0 <= j < len_of es k /\ t0 + j < q_samples q /\
  znth P (t0 + j) = Some OZero.
Proof. exact untimed_pause_refuted. Qed.
Print Assumptions C06_untimed_pause_refuted.

(* The seconds <-> samples conversions on the two sides never disagree by a sample: for every rate fs in [1, 2^40]
   (every real, hence every binary64 rate, non-integer ones included), RN = round-to-nearest-even binary64,
   ZnearestE = Python's round():
   (1) round(fl(fl(k/fs)*fs)) = k;  (2) off-tie rounding is stable under perturbation;
   (3) queue start offset T0 = fl(j/fs), clock s: the published t0 = fl(T0 + fl(s/fs)) is read back by the extractor,
       with a pre-stimulus time fl(m/fs) on the grid, as round(fl(fl(t0 - pre)*fs)) = j + s - m;  (4) the case pre = 0;
   (5) for ANY pre-stimulus time pre >= 0 (off the grid): the result is the nearest integer of the exact value
       j + s - pre*fs whenever that value is farther than (j + s + pre*fs + 1) * 2^-50 from a half-integer (the property
       excludes half-sample ties);
   (6) a pause time t = fl(T0 + fl(s/fs)) is read by the queue as round(fl(fl(t - T0)*fs)) = s;
   (7) the end of a trial fl(fl(t0 + fl(len/fs)) - T0) is read as s + len. *)
Theorem C06_conversions_agree :
  (forall (k : Z) (fs : R), (0 < k < 2^50)%Z -> (1 <= fs)%R -> (fs <= bpow radix2 40)%R ->
     ZnearestE (RN (RN (IZR k / fs) * fs)) = k) /\
  (forall x x' d : R, (Rabs (x' - x) <= d)%R -> (forall z : Z, (Rabs (x - (IZR z + /2)) > d)%R) -> ZnearestE x' = ZnearestE x) /\
  (forall (j s m : Z) (fs : R),
     (0 <= j)%Z -> (0 <= s)%Z -> (0 <= m)%Z -> (j + s + m < 2^45)%Z -> (1 <= fs)%R -> (fs <= bpow radix2 40)%R ->
     let T0 := RN (IZR j / fs) in
     let t0 := RN (T0 + RN (IZR s / fs)) in
     let pre := RN (IZR m / fs) in
     ZnearestE (RN (RN (t0 - pre) * fs)) = (j + s - m)%Z) /\
  (forall (j s : Z) (fs : R), (0 <= j)%Z -> (0 <= s)%Z -> (j + s < 2^45)%Z -> (1 <= fs)%R -> (fs <= bpow radix2 40)%R ->
     ZnearestE (RN (RN (RN (RN (IZR j / fs) + RN (IZR s / fs)) - 0) * fs)) = (j + s)%Z) /\
  (forall (j s : Z) (fs pre : R),
     (0 <= j)%Z -> (0 <= s)%Z -> (j + s < 2^45)%Z -> (1 <= fs)%R -> (fs <= bpow radix2 40)%R -> (0 <= pre)%R ->
     (pre * fs <= IZR (2^45))%R ->
     let T0 := RN (IZR j / fs) in
     let t0 := RN (T0 + RN (IZR s / fs)) in
     let X := (IZR (j + s) - pre * fs)%R in
     let d := ((IZR (j + s) + pre * fs + 1) * bpow radix2 (-50))%R in
     (forall z : Z, (Rabs (X - (IZR z + /2)) > d)%R) ->
     ZnearestE (RN (RN (t0 - pre) * fs)) = ZnearestE X) /\
  (forall (j s : Z) (fs : R), (0 <= j)%Z -> (0 <= s)%Z -> (j + s < 2^45)%Z -> (1 <= fs)%R -> (fs <= bpow radix2 40)%R ->
     let T0 := RN (IZR j / fs) in
     let t := RN (T0 + RN (IZR s / fs)) in
     ZnearestE (RN (RN (t - T0) * fs)) = s) /\
  (forall (j s len : Z) (fs : R),
     (0 <= j)%Z -> (0 <= s)%Z -> (0 <= len)%Z -> (j + s + len < 2^45)%Z -> (1 <= fs)%R -> (fs <= bpow radix2 40)%R ->
     let T0 := RN (IZR j / fs) in
     let t0 := RN (T0 + RN (IZR s / fs)) in
     let dur := RN (IZR len / fs) in
     ZnearestE (RN (RN (RN (t0 + dur) - T0) * fs)) = (s + len)%Z).
Proof. exact conversions_agree. Qed.
Print Assumptions C06_conversions_agree.

(* ------------------------------------------------------------------------------------------------ *)
(* The hypotheses are satisfiable.  Two stimuli (3 and 2 samples, delays 2 and 1), epochs of 5 samples, queue start
   offset 2 (the history begins with Resume (Some 2)); 7 samples generated, 4 acquired, pause at 6 (cancels the
   trial that started at 7... i.e. the second presentation), paused generation, resume at 9, rest generated and
   acquired in one chunk. *)
Definition ex_es : list entry := [mk_entry 2 3 KArray [2] true; mk_entry 1 2 KGen [1] true].
Definition ex_X : ecfg := {| x_val := val64; x_K := 2; x_n := 5; x_pre := 0 |}.
Definition ex_steps : list step :=
  [SQ (Resume (Some 2)); SQ (Pop 7); SA 4; SQ (Pause (Some 6)); SQ (Pop 3); SQ (Resume (Some 9)); SQ (Pop 20); SA 25].

Example C06_ex_wf :
  wf_queue PFifo ex_es = true /\ minlen ex_es = true /\ forallb (fun e => e_len e <=? x_n ex_X) ex_es = true /\
  wf_steps all_rep (cinit (qinit PFifo ex_es [] [])) ex_steps = true /\
  match run_steps all_rep ex_X (cinit (qinit PFifo ex_es [] [])) ex_steps with
  | Some (st, fs) =>
    s_notes st = [] /\ poststim_fits ex_es 5 (s_added st) (live_of (s_q st)) = true /\
    live_of (s_q st) = [(0, 2); (0, 9); (1, 14)] /\ s_added st = [(0, 2); (0, 7); (0, 9); (1, 14)] /\
    map i_data (delivered (run 0 (mkkind false false) fs)) = [[1; 65; 129; 0; 0]; [1; 65; 129; 0; 0]; [2; 66; 0; 0; 0]]
  | None => False
  end.
Proof. vm_compute. repeat split; reflexivity. Qed.

(* a pause exactly at the start of a trial, resumed at the same time: the trial is cancelled and presented again
   with the same (key, t0); removal and both requests reach the extractor in one send *)
Definition ex_steps2 : list step :=
  [SQ (Pop 7); SA 3; SQ (Pause (Some 5)); SQ (Resume (Some 5)); SQ (Pop 20); SA 22].
Example C06_ex_readd :
  wf_steps all_rep (cinit (qinit PFifo ex_es [] [])) ex_steps2 = true /\
  match run_steps all_rep ex_X (cinit (qinit PFifo ex_es [] [])) ex_steps2 with
  | Some (st, fs) =>
    s_added st = [(0, 0); (0, 5); (0, 5); (1, 10)] /\ live_of (s_q st) = [(0, 0); (0, 5); (1, 10)] /\
    poststim_fits ex_es 5 (s_added st) (live_of (s_q st)) = true /\
    map i_data (delivered (run 0 (mkkind false false) fs)) = [[1; 65; 129; 0; 0]; [1; 65; 129; 0; 0]; [2; 66; 0; 0; 0]]
  | None => False
  end.
Proof. vm_compute. repeat split; reflexivity. Qed.

(* the timed_hist condition is what fails for the refuting history *)
Example C06_ex_untimed :
  timed_hist all_rep (qinit PFifo [mk_entry 1 4 KArray [0] true] [] [])
             [Pop 2; Pause None; Pop 2; Resume None; Pop 10] = false.
Proof. vm_compute. reflexivity. Qed.

(* ================================================================================================ *)
(* The coverage-audit addition of EndToEnd/Spec.v: c06_runk annot multi, the harness encoding of the loop for any
   kind of acquisition chunk (annot: PipelineData, multi: two channels); c06_run = c06_runk false false.  The
   theorems above are stated for `run B k fs` with k universally quantified; these tie them to the encoding. *)
From PV Require Import EndToEnd.ProofsXKind.

Theorem C06_runk_plain : forall p es ch pm B n pre steps,
  c06_runk false false p es ch pm B n pre steps = c06_run p es ch pm B n pre steps.
Proof. exact c06_runk_plain. Qed.
Print Assumptions C06_runk_plain.

(* END TO END for every kind, in the terms of the encoding: on the schedules the property quantifies over, c06_runk a m
   is [1; wf = 1; fits = 1; the played stream; the kept trials; the sends], where no send raises, every send is
   answered, the delivered epochs are exactly one per kept trial whose window was acquired, in presentation order,
   each the waveform followed by silence, and the sends are those of the plain 1-D run. *)
Theorem C06_end_to_end_k : forall a m p es ch pm B n pre steps st fs,
  let X := {| x_val := val64; x_K := zlen es; x_n := n; x_pre := pre |} in
  let outs := run B (mkkind a m) fs in
  let live := live_of (s_q st) in
  wf_queue p es = true -> minlen es = true -> forallb (fun e => e_len e <=? n) es = true -> pre = 0 ->
  wf_steps all_rep (cinit (qinit p es ch pm)) steps = true ->
  run_steps all_rep X (cinit (qinit p es ch pm)) steps = Some (st, fs) ->
  s_notes st = [] ->
  poststim_fits es n (s_added st) live = true ->
  c06_runk a m p es ch pm B n pre steps =
    [1; 1; 1; zlen (s_P st)] ++ map val64 (s_P st) ++ [zlen live] ++ flat_map (fun kt => [fst kt; snd kt]) live
    ++ [zlen outs] ++ flat_map enc_fout outs /\
  length outs = length fs /\
  Forall (fun o => is_err o = false) outs /\
  delivered outs = map (epoch_item X es) (filter (complete n (s_acq st)) live) /\
  outs = run B (mkkind false false) fs.
Proof. exact end_to_end_k. Qed.
Print Assumptions C06_end_to_end_k.

(* At ANY moment of a well-formed schedule (notifications may still wait, poststim_fits not assumed), for every kind:
   the whole encoded outcome equals that of the plain 1-D run, no send raises, every send is answered, and the
   delivered epochs are the slices [t0, t0+n) of the played stream. *)
Theorem C06_end_to_end_slices_k : forall a m p es ch pm B n pre steps st fs,
  let X := {| x_val := val64; x_K := zlen es; x_n := n; x_pre := pre |} in
  let outs := run B (mkkind a m) fs in
  wf_queue p es = true -> minlen es = true -> forallb (fun e => e_len e <=? n) es = true -> pre = 0 ->
  wf_steps all_rep (cinit (qinit p es ch pm)) steps = true ->
  run_steps all_rep X (cinit (qinit p es ch pm)) steps = Some (st, fs) ->
  c06_runk a m p es ch pm B n pre steps = c06_run p es ch pm B n pre steps /\
  length outs = length fs /\
  Forall (fun o => is_err o = false) outs /\
  delivered outs =
    map (s_item (map val64 (firstn (Z.to_nat (s_acq st)) (s_P st))))
        (map (req_of (zlen es) n pre) (filter (complete n (s_acq st)) (s_live st))).
Proof. exact end_to_end_slices_k. Qed.
Print Assumptions C06_end_to_end_slices_k.

(* On EVERY schedule (well-formed or not, any pre-stimulus time, the queue may raise): the two flags do not change the
   encoded outcome as soon as the epoch has at least one sample. *)
Theorem C06_kind_irrelevant_k : forall a m p es ch pm B n pre steps, 1 <= n ->
  c06_runk a m p es ch pm B n pre steps = c06_run p es ch pm B n pre steps.
Proof. exact runk_kind_irrelevant. Qed.
Print Assumptions C06_kind_irrelevant_k.

(* 1 <= n is the exact side condition: with n = 0 (outside the property: stimuli are non-empty and not longer than
   the epoch) and a pre-stimulus time, a zero-length epoch and a "missed" stub reach the target in one send;
   PipelineData chunks stack them, plain arrays raise. *)
Theorem C06_kind_irrelevant_k_refuted : exists a m p es ch pm B n pre steps,
  n = 0 /\ c06_runk a m p es ch pm B n pre steps <> c06_run p es ch pm B n pre steps.
Proof. exact runk_kind_irrelevant_refuted. Qed.
Print Assumptions C06_kind_irrelevant_k_refuted.

(* The hypotheses are satisfiable: the schedule ex_steps above with two-channel PipelineData chunks. *)
Example C06_ex_k :
  firstn 3 (c06_runk true true PFifo ex_es [] [] 0 5 0 ex_steps) = [1; 1; 1] /\
  c06_runk true true PFifo ex_es [] [] 0 5 0 ex_steps = c06_run PFifo ex_es [] [] 0 5 0 ex_steps.
Proof. exact end_to_end_k_ex. Qed.

From PV Require Import gen.CaptureGen Extract.ProofsTieSend.
From PV Require Import Queue.TieLib Queue.TieLibC04 gen.QueueStepGen Queue.ProofsTie Queue.ProofsTieC04 EndToEnd.ProofsTie.

(* ======================================================================================
   COMPOSITION OVER THE GENERATED DEFINITIONS (coq/EndToEnd/ProofsTie.v).  Both components are regenerated from the
   source on every run: the queue operations (gen/QueueStepGen.v from psiaudio/queue.py: g_pop_buffer / g_pause /
   g_resume, Props/C02.v and C04.v, theorems C0x_source_..) and one whole send of extract_epochs (gen/CaptureGen.v from
   psiaudio/pipeline.py: extract_epochs_send, Props/C05.v, C05_source_send).  source_run_steps executes a combined schedule
   with THESE: a queue step calls the generated method on the queue object (what it notifies goes to the deques), an
   acquisition step hands the generated send the chunk of the device buffer and the waiting notifications; after a
   send has raised, the generator is dead.  oracle_ok: shuffled blocks of a blocked-random queue hold indices >= 0.
   ====================================================================================== *)

(* for EVERY schedule from the initial states of the theorems above: the generated composition is the hand-written
   composition followed by the model extractor's run (sout_of: a model output as an output of the generated send) *)
Theorem C06_source_run_steps_is_model : forall p es ch pm B k X steps,
  wf_queue p es = true -> oracle_ok p pm -> 0 <= B ->
  source_run_steps B k X (cinit (qinit p es ch pm)) (Some (extract_epochs_init true)) steps =
  match run_steps all_rep X (cinit (qinit p es ch pm)) steps with
  | None => None
  | Some (st, fs) => Some (st, map sout_of (run B k fs))
  end.
Proof. exact source_run_steps_is_model. Qed.
Print Assumptions C06_source_run_steps_is_model.

(* one queue step: the generated operation is the model's wherever the queue invariants hold, and keeps them *)
Theorem C06_source_qstep : forall p es st o, qinv p es (s_q st) ->
  source_qstep st o = qstep all_rep st o /\
  (forall st1, qstep all_rep st o = Some st1 -> qinv p es (s_q st1)).
Proof. exact source_qstep_is_qstep. Qed.
Print Assumptions C06_source_qstep.

(* C06_end_to_end over the generated composition: no generated send raises, and the generated sends have delivered
   exactly one epoch per kept trial whose window has been acquired, each the trial's waveform followed by silence *)
Theorem C06_source_end_to_end : forall p es ch pm B k X steps st outs,
  wf_queue p es = true -> oracle_ok p pm -> 0 <= B ->
  minlen es = true -> forallb (fun e => e_len e <=? x_n X) es = true ->
  x_K X = zlen es -> x_pre X = 0 ->
  wf_steps all_rep (cinit (qinit p es ch pm)) steps = true ->
  source_run_steps B k X (cinit (qinit p es ch pm)) (Some (extract_epochs_init true)) steps = Some (st, outs) ->
  s_notes st = [] ->
  poststim_fits es (x_n X) (s_added st) (live_of (s_q st)) = true ->
  Forall (fun o => s_raised o = false) outs /\
  s_delivered outs = map (epoch_item X es) (filter (complete (x_n X) (s_acq st)) (live_of (s_q st))).
Proof. exact source_end_to_end. Qed.
Print Assumptions C06_source_end_to_end.

(* C06_trials_in_stream over the stream the generated queue operations have played *)
Theorem C06_source_trials_in_stream : forall p es ch pm B k X steps st outs,
  wf_queue p es = true -> oracle_ok p pm -> 0 <= B ->
  wf_steps all_rep (cinit (qinit p es ch pm)) steps = true ->
  source_run_steps B k X (cinit (qinit p es ch pm)) (Some (extract_epochs_init true)) steps = Some (st, outs) ->
  let q := s_q st in let P := s_P st in
  (forall k t0 j, In (k, t0) (live_of q) -> 0 <= j < len_of es k -> t0 + j < q_samples q ->
                  znth P (t0 + j) = Some (OWave k j)) /\
  disjoint_live es (live_of q) /\
  (forall k t0, In (k, t0) (live_of q) -> In (k, t0) (s_added st) /\ 0 <= t0 /\
                (t0 + len_of es k <= q_samples q \/ in_progress q = true)) /\
  (forall s x, znth P s = Some x ->
               x = OZero \/ exists k t0, In (k, t0) (s_added st) /\ x = OWave k (s - t0) /\
                                          t0 <= s < t0 + len_of es k).
Proof. exact source_trials_in_stream. Qed.
Print Assumptions C06_source_trials_in_stream.

(* The hypotheses are satisfiable: the schedule ex_steps above, run with the generated queue operations and the
   generated send. *)
Example C06_source_ex :
  oracle_ok PFifo [] /\
  match source_run_steps 0 (mkkind false false) ex_X (cinit (qinit PFifo ex_es [] [])) (Some (extract_epochs_init true)) ex_steps with
  | Some (st, outs) =>
    s_notes st = [] /\ poststim_fits ex_es 5 (s_added st) (live_of (s_q st)) = true /\
    live_of (s_q st) = [(0, 2); (0, 9); (1, 14)] /\ forallb (fun o => negb (s_raised o)) outs = true /\
    map i_data (s_delivered outs) = [[1; 65; 129; 0; 0]; [1; 65; 129; 0; 0]; [2; 66; 0; 0; 0]]
  | None => False
  end.
Proof. split; [intros H; discriminate|]. vm_compute. repeat split; reflexivity. Qed.
