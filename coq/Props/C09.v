(* C09 - Finite stimuli honour their duration contract and envelope shape.
   Property theorems only; every proof is `exact <lemma of Stim/Proofs*.v>`. *)
From PV Require Import Stim.Model Stim.Spec Stim.Proofs Stim.ProofsC09 Stim.Cos2R.
From PV Require FloatGrid.Statements.

(* the sample count reported is start + duration (array length for fixed / repeated waveforms) *)
Theorem C09_totals : forall g,
  match g with
  | GGate start dur g' => wf g = true -> finite_total g = Some (start + dur)
  | GEnv _ start dur _ g' => wf g = true -> finite_total g = Some (start + dur)
  | GFixed _ len => wf g = true -> finite_total g = Some len
  | GRepeat n skip period _ _ => wf g = true -> finite_total g = Some ((n + skip) * period)
  | _ => True
  end.
Proof. exact totals. Qed.
Print Assumptions C09_totals.

(* after ANY draw history (draws past the end included) the bookkeeping is exact:
   n_samples is constant, remaining = max(total - drawn, 0), complete iff drawn >= total *)
Theorem C09_bookkeeping : forall g cs total s0 s1 out,
  wf g = true -> nonneg cs = true -> finite_total g = Some total ->
  greset all_repaired g = Some s0 -> run_chunks all_repaired g s0 cs = Some (s1, out) ->
  remaining g s1 = Some (Z.max (total - sumZ cs) 0) /\
  complete g s1 = (total <=? sumZ cs) /\
  (forall n, n_samples g s0 = Some n -> n_samples g s1 = Some n /\ n = total).
Proof. exact bookkeeping. Qed.
Print Assumptions C09_bookkeeping.

(* every sample outside [start, start+duration) -- before the start and any amount past the end --
   is exactly zero, for the plain gate as well as for envelopes, fixed and repeated waveforms *)
Theorem C09_zero_outside : forall g p, wf g = true -> 0 <= p ->
  match g with
  | GGate start dur _ | GEnv _ start dur _ _ => (p < start \/ start + dur <= p) -> is_zero (den g p) = true
  | GFixed _ len => len <= p -> is_zero (den g p) = true
  | GRepeat n skip period _ _ => (n + skip) * period <= p -> is_zero (den g p) = true
  | _ => True
  end.
Proof. exact zero_outside. Qed.
Print Assumptions C09_zero_outside.

(* envelope shape: the complete envelope is start zeros, the first half of the window over exactly
   `rise` samples, ones on the plateau, the second half of the same window *)
Theorem C09_envelope_shape : forall nid elb dur rise, 0 <= elb -> 0 <= rise -> 2 * rise <= dur ->
  envelope_frag nid elb dur rise 0 (elb + dur) =
  Some (zrepeat fzero elb ++ zrange (fun j => (2, nid, j)) 0 rise ++ zrepeat fone (dur - 2 * rise)
        ++ zrange (fun j => (2, nid, j)) rise rise).
Proof. exact envelope_shape. Qed.
Print Assumptions C09_envelope_shape.

(* a rise time longer than half the duration is rejected (by the envelope function and by the factory) *)
Theorem C09_rise_rejected : forall nid elb dur rise o n g s, dur < 2 * rise ->
  envelope_frag nid elb dur rise o n = None /\
  (forall R i, s = SNode o i -> gnext R (GEnv nid elb dur rise g) s n = None).
Proof. exact rise_rejected. Qed.
Print Assumptions C09_rise_rejected.

(* the cosine-squared window stays within [0, 1] (over the reals; the scipy windows are checked numerically) *)
(* cos2ramp_within_unit_interval := forall m j : R, 0 <= (sin (PI * j / m))^2 <= 1   (Stim/Cos2R.v) *)
Theorem C09_cos2_unit_interval : cos2ramp_within_unit_interval.
Proof. exact cos2ramp_unit_interval. Qed.
Print Assumptions C09_cos2_unit_interval.

(* start_samples / duration_samples / i_rise_time are int(round(t*fs)): for a time given as k/fs this is k
   at every real rate in [1, 2^40] (binary64, Flocq; statement in FloatGrid/Statements.v) *)
Theorem C09_sample_counts_on_grid : FloatGrid.Statements.time_to_samples_on_grid.
Proof. exact FloatGrid.Statements.time_to_samples_on_grid_holds. Qed.
Print Assumptions C09_sample_counts_on_grid.

Example C09_ex : wf (GRepeat 3 1 12 2 (GEnv 2 0 8 2 (GCar 1))) = true /\
  finite_total (GRepeat 3 1 12 2 (GEnv 2 0 8 2 (GCar 1))) = Some 48.
Proof. vm_compute. split; reflexivity. Qed.
