(* C09 - Finite stimuli honour their duration contract and envelope shape.
   Property theorems only; every proof is `exact <lemma of Stim/Proofs*.v>`. *)
From PV Require Import Stim.Model Stim.Spec Stim.Proofs Stim.ProofsC09 Stim.Cos2R.
From PV Require FloatGrid.Statements.

(* the sample count reported is start + duration (array length for fixed / repeated waveforms) *)
Theorem C09_totals : forall g,
  match g with
  | GGate start dur g' => wf g = true -> finite_total g = Some (start + dur)
  | GEnv _ start dur _ g' => wf g = true -> finite_total g = Some (start + dur)
  | GFixed _ len => wf g = true -> finite_total g = Some len
  | GRepeat n skip period _ _ => wf g = true -> finite_total g = Some ((n + skip) * period)
  | _ => True
  end.
Proof. exact totals. Qed.
Print Assumptions C09_totals.

(* after ANY draw history (draws past the end included) the bookkeeping is exact:
   n_samples is constant, remaining = max(total - drawn, 0), complete iff drawn >= total *)
Theorem C09_bookkeeping : forall g cs total s0 s1 out,
  wf g = true -> nonneg cs = true -> finite_total g = Some total ->
  greset all_repaired g = Some s0 -> run_chunks all_repaired g s0 cs = Some (s1, out) ->
  remaining g s1 = Some (Z.max (total - sumZ cs) 0) /\
  complete g s1 = (total <=? sumZ cs) /\
  (forall n, n_samples g s0 = Some n -> n_samples g s1 = Some n /\ n = total).
Proof. exact bookkeeping. Qed.
Print Assumptions C09_bookkeeping.

(* every sample outside [start, start+duration) -- before the start and any amount past the end --
   is exactly zero, for the plain gate as well as for envelopes, fixed and repeated waveforms *)
Theorem C09_zero_outside : forall g p, wf g = true -> 0 <= p ->
  match g with
  | GGate start dur _ | GEnv _ start dur _ _ => (p < start \/ start + dur <= p) -> is_zero (den g p) = true
  | GFixed _ len => len <= p -> is_zero (den g p) = true
  | GRepeat n skip period _ _ => (n + skip) * period <= p -> is_zero (den g p) = true
  | _ => True
  end.
Proof. exact zero_outside. Qed.
Print Assumptions C09_zero_outside.

(* envelope shape: the complete envelope is start zeros, the first half of the window over exactly
   `rise` samples, ones on the plateau, the second half of the same window *)
Theorem C09_envelope_shape : forall nid elb dur rise, 0 <= elb -> 0 <= rise -> 2 * rise <= dur ->
  envelope_frag nid elb dur rise 0 (elb + dur) =
  Some (zrepeat fzero elb ++ zrange (fun j => (2, nid, j)) 0 rise ++ zrepeat fone (dur - 2 * rise)
        ++ zrange (fun j => (2, nid, j)) rise rise).
Proof. exact envelope_shape. Qed.
Print Assumptions C09_envelope_shape.

(* a rise time longer than half the duration is rejected (by the envelope function and by the factory) *)
Theorem C09_rise_rejected : forall nid elb dur rise o n g s, dur < 2 * rise ->
  envelope_frag nid elb dur rise o n = None /\
  (forall R i, s = SNode o i -> gnext R (GEnv nid elb dur rise g) s n = None).
Proof. exact rise_rejected. Qed.
Print Assumptions C09_rise_rejected.

(* the cosine-squared window stays within [0, 1] (over the reals; the scipy windows are checked numerically) *)
(* cos2ramp_within_unit_interval := forall m j : R, 0 <= (sin (PI * j / m))^2 <= 1   (Stim/Cos2R.v) *)
Theorem C09_cos2_unit_interval : cos2ramp_within_unit_interval.
Proof. exact cos2ramp_unit_interval. Qed.
Print Assumptions C09_cos2_unit_interval.

(* start_samples / duration_samples / i_rise_time are int(round(t*fs)): for a time given as k/fs this is k
   at every real rate in [1, 2^40] (binary64, Flocq; statement in FloatGrid/Statements.v) *)
Theorem C09_sample_counts_on_grid : FloatGrid.Statements.time_to_samples_on_grid.
Proof. exact FloatGrid.Statements.time_to_samples_on_grid_holds. Qed.
Print Assumptions C09_sample_counts_on_grid.

Example C09_ex : wf (GRepeat 3 1 12 2 (GEnv 2 0 8 2 (GCar 1))) = true /\
  finite_total (GRepeat 3 1 12 2 (GEnv 2 0 8 2 (GCar 1))) = Some 48.
Proof. vm_compute. split; reflexivity. Qed.

(* ==================================================================================================================
   TRANSLATOR TIE (source -> Coq).  gen/StimIdxGen.v is REGENERATED on every run from the current psiaudio/stim.py by
   translate/pystim2coq.py (hook in harness/C09.py); the regenerated constructor / queries / envelope ARE the model's. *)
From PV Require Import Stim.SpecTie Stim.ProofsTie.

(* GateFactory.__init__: total_samples = start_samples + duration_samples, offset = 0 *)
Theorem C09_source_gate_init_tie : forall start dur, gen_gate_init start dur = gate_of start dur 0.
Proof. exact gate_init_tie. Qed.
Print Assumptions C09_source_gate_init_tie.

(* n_samples_remaining / n_samples / is_complete of a gate equal the model's for every record satisfying
   gate_inv (total_samples = start_samples + duration_samples), which __init__ establishes and next keeps *)
Theorem C09_source_gate_queries_tie : forall st g' i, gate_inv st ->
  let g := GGate (gate_start_samples st) (gate_duration_samples st) g' in
  let s := SNode (gate_offset st) i in
  remaining g s = Some (gen_gate_n_samples_remaining st) /\
  n_samples g s = Some (gen_gate_n_samples st) /\
  complete g s = gen_gate_is_complete st.
Proof. exact gate_queries_tie. Qed.
Print Assumptions C09_source_gate_queries_tie.

Theorem C09_source_gate_inv_kept : forall start dur st n tok,
  gate_inv (gen_gate_init start dur) /\ (gate_inv st -> gate_inv (fst (gen_gate_next st n tok))).
Proof. exact gate_inv_kept. Qed.
Print Assumptions C09_source_gate_inv_kept.

(* EnvelopeFactory is a GateFactory: the same record and the same (inherited) queries *)
Theorem C09_source_env_queries_tie : forall nid rise st g' i, gate_inv st ->
  let g := GEnv nid (gate_start_samples st) (gate_duration_samples st) rise g' in
  let s := SNode (gate_offset st) i in
  remaining g s = Some (gen_gate_n_samples_remaining st) /\
  n_samples g s = Some (gen_gate_n_samples st) /\
  complete g s = gen_gate_is_complete st.
Proof. exact env_queries_tie. Qed.
Print Assumptions C09_source_env_queries_tie.

Example C09_source_gate_inv_ex : gate_inv (fst (gen_gate_next (gen_gate_init 3 5) 4 [szero; szero; szero; szero])).
Proof. exact gate_inv_ex. Qed.

(* without the invariant the equality fails (a record with a stale total_samples) *)
Theorem C09_source_gate_queries_tie_refuted : exists st g' i, ~ gate_inv st /\
  remaining (GGate (gate_start_samples st) (gate_duration_samples st) g') (SNode (gate_offset st) i)
  <> Some (gen_gate_n_samples_remaining st).
Proof. exact gate_queries_tie_refuted. Qed.
Print Assumptions C09_source_gate_queries_tie_refuted.

(* FixedWaveform queries: the model speaks of `len`, the code of len(self.waveform); equal on the model's domain 0 <= len *)
Theorem C09_source_fixed_queries_tie : forall wid len o, 0 <= len ->
  let g := GFixed wid len in
  let s := SLeaf o in
  remaining g s = Some (gen_fixed_n_samples_remaining (fixed_of wid len o)) /\
  n_samples g s = Some (gen_fixed_n_samples (fixed_of wid len o)) /\
  complete g s = gen_fixed_is_complete (fixed_of wid len o).
Proof. exact fixed_queries_tie. Qed.
Print Assumptions C09_source_fixed_queries_tie.

Theorem C09_source_fixed_queries_tie_refuted : exists wid len o, len < 0 /\
  n_samples (GFixed wid len) (SLeaf o) <> Some (gen_fixed_n_samples (fixed_of wid len o)).
Proof. exact fixed_queries_tie_refuted. Qed.
Print Assumptions C09_source_fixed_queries_tie_refuted.

(* RepeatFactory (inherits the queries of FixedWaveform; its state carries the array): unconditional *)
Theorem C09_source_repeat_queries_tie : forall a b c d g' o w i,
  let g := GRepeat a b c d g' in
  let s := SRep o w i in
  remaining g s = Some (gen_fixed_n_samples_remaining (fixed_arr w o)) /\
  n_samples g s = Some (gen_fixed_n_samples (fixed_arr w o)) /\
  complete g s = gen_fixed_is_complete (fixed_arr w o).
Proof. exact repeat_queries_tie. Qed.
Print Assumptions C09_source_repeat_queries_tie.

(* C09_bookkeeping over the regenerated code: after ANY draw history over the regenerated next, the regenerated queries
   report max(total - drawn, 0), drawn >= total, total *)
Theorem C09_source_bookkeeping_gate : forall start dur g' cs i0 st1 i1 out,
  src_gate_run g' (gen_gate_init start dur) i0 cs = Some (st1, i1, out) ->
  gen_gate_n_samples_remaining st1 = Z.max (start + dur - sumZ cs) 0 /\
  gen_gate_is_complete st1 = (start + dur <=? sumZ cs) /\
  gen_gate_n_samples st1 = start + dur.
Proof. exact source_bookkeeping_gate. Qed.
Print Assumptions C09_source_bookkeeping_gate.

Theorem C09_source_bookkeeping_env : forall nid rise start dur g' cs i0 st1 i1 out,
  src_env_run nid rise g' (gen_gate_init start dur) i0 cs = Some (st1, i1, out) ->
  gen_gate_n_samples_remaining st1 = Z.max (start + dur - sumZ cs) 0 /\
  gen_gate_is_complete st1 = (start + dur <=? sumZ cs) /\
  gen_gate_n_samples st1 = start + dur.
Proof. exact source_bookkeeping_env. Qed.
Print Assumptions C09_source_bookkeeping_env.

Theorem C09_source_bookkeeping_fixed : forall w cs,
  let st := fst (src_fixed_run (fixed_arr w 0) cs) in
  gen_fixed_n_samples_remaining st = Z.max (zlen w - sumZ cs) 0 /\
  gen_fixed_is_complete st = (zlen w <=? sumZ cs) /\
  gen_fixed_n_samples st = zlen w.
Proof. exact source_bookkeeping_fixed. Qed.
Print Assumptions C09_source_bookkeeping_fixed.

(* envelope(): samples='auto' is the whole stimulus; its shape; a too long rise is rejected *)
Theorem C09_source_envelope_auto_tie : forall nid elb dur rise o,
  gen_envelope nid elb dur rise o None = envelope_frag nid elb dur rise o (elb + dur).
Proof. exact envelope_auto_tie. Qed.
Print Assumptions C09_source_envelope_auto_tie.

Theorem C09_source_envelope_shape : forall nid elb dur rise, 0 <= elb -> 0 <= rise -> 2 * rise <= dur ->
  gen_envelope nid elb dur rise 0 None =
  Some (zrepeat fzero elb ++ zrange (fun j => (2, nid, j)) 0 rise ++ zrepeat fone (dur - 2 * rise)
        ++ zrange (fun j => (2, nid, j)) rise rise).
Proof. exact source_envelope_shape. Qed.
Print Assumptions C09_source_envelope_shape.

Theorem C09_source_rise_rejected : forall nid elb dur rise o n, dur < 2 * rise -> gen_envelope nid elb dur rise o n = None.
Proof. exact source_rise_rejected. Qed.
Print Assumptions C09_source_rise_rejected.

(* ------------------------------------------------------------------ *)
(* bookkeeping after ANY history of next(n) | reset() | queries | get_samples_remaining() on one object
   (run_state = the state the harness-driven run_ops ends in, see C01_run_ops_app; pos_after = samples drawn since
   the last reset).  Vocabulary: Stim/SpecX.v, proofs: Stim/ProofsX.v *)
From PV Require Import Stim.SpecX Stim.ProofsX.

Theorem C09_bookkeeping_history : forall g h, wf g = true -> ops_nonneg h = true ->
  exists s1, run_state all_repaired g (greset all_repaired g) h = Some s1 /\
    (forall ops, run_gen g (h ++ ops) = run_gen g h ++ run_ops all_repaired g (Some s1) ops) /\
    let drawn := pos_after g 0 h in
    0 <= drawn /\
    (forall total, finite_total g = Some total ->
       remaining g s1 = Some (Z.max (total - drawn) 0) /\
       complete g s1 = (total <=? drawn) /\
       (has_n_samples g = true -> n_samples g s1 = Some total)) /\
    (finite_total g = None -> remaining g s1 = None /\ complete g s1 = false /\ n_samples g s1 = None).
Proof. exact bookkeeping_history. Qed.
Print Assumptions C09_bookkeeping_history.

(* after get_samples_remaining() - wherever the generator was before - a finite generator is complete, nothing
   remains, and exactly max(drawn, total) samples have been drawn since the last reset *)
Theorem C09_rest_completes : forall g h total, wf g = true -> ops_nonneg h = true -> finite_total g = Some total ->
  exists s1, run_state all_repaired g (greset all_repaired g) (h ++ [Rest]) = Some s1 /\
    complete g s1 = true /\ remaining g s1 = Some 0 /\
    pos_after g 0 (h ++ [Rest]) = Z.max (pos_after g 0 h) total.
Proof. exact rest_completes. Qed.
Print Assumptions C09_rest_completes.

(* any draw from a complete gated / enveloped / fixed / repeated stimulus (multiplicative wrappers included), after ANY
   history: it does not raise, has the requested length, is all zero, and the generator stays complete with 0 remaining *)
Theorem C09_draw_past_end_zero_partial : forall g h n, wf g = true -> zero_tail g = true ->
  ops_nonneg h = true -> 0 <= n ->
  exists s1, run_state all_repaired g (greset all_repaired g) h = Some s1 /\
    (complete g s1 = true ->
     exists s2 out, gnext all_repaired g s1 n = Some (s2, out) /\
       zlen out = n /\ all_zero out = true /\ complete g s2 = true /\ remaining g s2 = Some 0).
Proof. exact draw_past_end_zero_partial. Qed.
Print Assumptions C09_draw_past_end_zero_partial.

(* for EVERY finite generator the statement is false: a stateful filter (NotchFilterFactory) over a gated input reports
   its input's sample count and completion, but keeps returning its own (ringing) output after that *)
Theorem C09_draw_past_end_zero_refuted : exists g h n s1 s2 out total,
  wf g = true /\ ops_nonneg h = true /\ 0 <= n /\ finite_total g = Some total /\
  run_state all_repaired g (greset all_repaired g) h = Some s1 /\ complete g s1 = true /\
  gnext all_repaired g s1 n = Some (s2, out) /\ all_zero out = false.
Proof. exact draw_past_end_zero_refuted. Qed.
Print Assumptions C09_draw_past_end_zero_refuted.

Example C09_history_ex : wf (GSam 4 3 (GGate 1 6 (GCar 1))) = true /\
  ops_nonneg [Next 3; Rest; Reset; Next 2; Query] = true /\
  finite_total (GSam 4 3 (GGate 1 6 (GCar 1))) = Some 7 /\ zero_tail (GSam 4 3 (GGate 1 6 (GCar 1))) = true /\
  pos_after (GSam 4 3 (GGate 1 6 (GCar 1))) 0 [Next 3; Rest; Reset; Next 2; Query] = 2.
Proof. vm_compute. repeat split; reflexivity. Qed.

(* ==================================================================================================================
   TRANSLATOR TIE, second part (Stim/ProofsTieRep.v): repeat() / RepeatFactory.reset as regenerated from the source. *)
From PV Require Import Stim.ProofsTieRep.

(* the ValueError of repeat(): exactly when the waveform does not fit between the delay and the end of the period,
   in the regenerated function and in the model alike (no hypothesis) *)
Theorem C09_source_repeat_raises_tie : forall n skip period sdelay w,
  (gen_repeat period sdelay w n skip = None <-> zlen w > period - sdelay) /\
  (repeat_wave n skip period sdelay w = None <-> zlen w > period - sdelay).
Proof. exact repeat_raises_tie. Qed.
Print Assumptions C09_source_repeat_raises_tie.

(* C09_bookkeeping for RepeatFactory over the regenerated reset / next / queries: the count is (n + skip) * period *)
Theorem C09_source_bookkeeping_repeat : forall n skip period sdelay g cs st0 i0 lw i1 w st,
  wf (GRepeat n skip period sdelay g) = true ->
  greset all_repaired g = Some i0 -> remaining g i0 = Some lw -> gnext all_repaired g i0 lw = Some (i1, w) ->
  gen_repeat_reset period sdelay n skip st0 w = Some st ->
  let st1 := fst (src_fixed_run st cs) in
  gen_fixed_n_samples_remaining st1 = Z.max ((n + skip) * period - sumZ cs) 0 /\
  gen_fixed_is_complete st1 = ((n + skip) * period <=? sumZ cs) /\
  gen_fixed_n_samples st1 = (n + skip) * period.
Proof. exact source_bookkeeping_repeat. Qed.
Print Assumptions C09_source_bookkeeping_repeat.
