(* C03 - Each stimulus gets its requested trials in the policy order, then silence.
   Property theorems only; every proof is `exact <lemma of Queue/ProofsC03.v>`. *)
From PV Require Import Queue.Model Queue.Spec Queue.ProofsC03.

(* When a queue (any class, any number of stimuli, any trial counts >= 1, any group size >= 1, any
   request chunking) has reported empty, the sequence of presented stimuli is the policy's order and
   the counts are exact / at-least-and-stop-at-the-first-moment; nothing remains, requested totals unchanged. *)
Theorem C03_policy_order : forall p es ch pm ns q out ev,
  wf_queue p es = true -> forallb progress_entry es = true -> forallb (fun n => 0 <=? n) ns = true ->
  pops all_rep (qinit p es ch pm) ns = Some (q, out, ev) -> q_empty q = true ->
  let keys := keys_of ev in
  let req := requested_of es in
  count_trials q = 0 /\ count_requested q = sumZ req /\
  match p with
  | PFifo => keys = fifo_order es
  | PInter keep => keys = inter_order keep es /\
                   (if keep then stops_at_first_moment req keys = true else counts_of (zlen es) keys = req)
  | PRandom => counts_of (zlen es) keys = req
  | PBlockedRandom => stops_at_first_moment req keys = true /\ is_prefix keys (blocks_order pm) = true
  | PGrouped gs => stops_at_first_moment req keys = true /\ groups_in_order gs keys = true
  end.
Proof. exact policy_order. Qed.
Print Assumptions C03_policy_order.

(* the reference orders are what they should be: FIFO exhausts stimuli in insertion order with exact
   counts; the round robin visits stimuli cyclically *)
Theorem C03_fifo_order_counts : forall es, forallb wf_entry es = true ->
  counts_of (zlen es) (fifo_order es) = requested_of es /\ nondecreasing (fifo_order es) = true.
Proof. exact fifo_order_counts. Qed.
Print Assumptions C03_fifo_order_counts.

(* the queue does reach empty: there is a total after which every request sequence has set the flag *)
Theorem C03_reaches_empty : forall p es ch pm,
  wf_queue p es = true -> forallb progress_entry es = true ->
  match p with PRandom | PBlockedRandom => True | _ =>
    exists N, forall ns q out ev, forallb (fun n => 0 <=? n) ns = true -> N <= sumZ ns ->
      pops all_rep (qinit p es ch pm) ns = Some (q, out, ev) -> q_empty q = true
  end.
Proof. exact reaches_empty. Qed.
Print Assumptions C03_reaches_empty.

(* afterwards: only zeros, one empty notification per request, still empty, nothing remaining, totals unchanged *)
Theorem C03_after_empty : forall p es ch pm ns q out ev n,
  wf_queue p es = true -> forallb (fun n => 0 <=? n) ns = true -> 1 <= n ->
  pops all_rep (qinit p es ch pm) ns = Some (q, out, ev) -> q_empty q = true ->
  exists q', pop_buffer all_rep q n = Some (q', repeat OZero (Z.to_nat n), [EEmpty]) /\
    q_empty q' = true /\ count_trials q' = 0 /\ count_requested q' = count_requested q.
Proof. exact after_empty. Qed.
Print Assumptions C03_after_empty.

(* each block of the blocked-random order is a permutation whenever the oracle's shuffles are *)
Theorem C03_blocks_are_permutations : forall n pm,
  forallb (is_perm_block n) pm = true ->
  forall k, 0 <= k < n -> countZ k (blocks_order pm) = zlen pm.
Proof. exact blocks_are_permutations. Qed.
Print Assumptions C03_blocks_are_permutations.

(* the grouped queue before the repair recorded in known_findings.txt raised on a short last group *)
Theorem C03_grouped_unrepaired_refuted : exists es gs n,
  wf_queue (PGrouped gs) es = true /\ forallb progress_entry es = true /\ 0 <= n /\
  pop_buffer no_rep (qinit (PGrouped gs) es [] []) n = None.
Proof. exact grouped_unrepaired_refuted. Qed.
Print Assumptions C03_grouped_unrepaired_refuted.

Example C03_ex :
  let es := [mk_entry 2 1 KArray [1] true; mk_entry 1 2 KGen [0] true; mk_entry 3 1 KArray [0] true] in
  wf_queue (PGrouped 2) es = true /\ order_test (PGrouped 2) es [] [] [3; 40] = true /\
  order_test (PInter true) es [] [] [50] = true.
Proof. vm_compute. repeat split; reflexivity. Qed.

From PV Require Import Queue.ProofsXEmpty.

(* ---- a queue to which NOTHING has been appended (repair r_empty_guard, part of all_rep) ----
   For EVERY policy, every oracle (choices / permutations) and every sequence of non-negative requests the run
   succeeds; the output is all zeros, of total length sum ns; the notifications are exactly one 'empty' per
   request of at least one sample, so no trial is ever added; a ZERO-sample request returns nothing, notifies
   nothing and leaves the state - the empty flag included - as it was; the clock is sum ns; the queue reports
   empty exactly when some request of at least one sample has been made; nothing is logged, nothing remains. *)
Theorem C03_no_stimuli : forall p ch pm ns, forallb (fun n => 0 <=? n) ns = true ->
  exists q, pops all_rep (qinit p [] ch pm) ns =
            Some (q, repeat OZero (Z.to_nat (sumZ ns)), map (fun _ => EEmpty) (filter (fun n => 0 <? n) ns)) /\
            added_of (map (fun _ : Z => EEmpty) (filter (fun n => 0 <? n) ns)) = [] /\
            q_samples q = sumZ ns /\ q_empty q = existsb (fun n => 0 <? n) ns /\
            q_generated q = [] /\ count_trials q = 0 /\ count_requested q = 0.
Proof. exact no_stimuli. Qed.
Print Assumptions C03_no_stimuli.

(* before that repair (rep_noguard = every other repair in force) the interleaved (both variants) and the
   blocked-random queue RAISED on any request of at least one sample, whatever the oracle *)
Theorem C03_no_stimuli_unrepaired_refuted : forall ch pm n, 0 < n ->
  pops rep_noguard (qinit (PInter true) [] ch pm) [n] = None /\
  pops rep_noguard (qinit (PInter false) [] ch pm) [n] = None /\
  pops rep_noguard (qinit PBlockedRandom [] ch pm) [n] = None.
Proof. exact no_stimuli_unrepaired_refuted. Qed.
Print Assumptions C03_no_stimuli_unrepaired_refuted.

Example C03_no_stimuli_ex :
  forallb (fun p =>
    match pops all_rep (qinit p [] [1; 0] [[0]; []]) [0; 5; 0; 3] with
    | Some (q, out, ev) => (zlen out =? 8) && (zlen ev =? 2) && q_empty q && (q_samples q =? 8)
    | None => false end)
    [PFifo; PInter true; PInter false; PRandom; PBlockedRandom; PGrouped 1; PGrouped 2] = true.
Proof. vm_compute. reflexivity. Qed.

From PV Require Import Queue.TieLib gen.QueueStepGen Queue.ProofsTie Queue.ProofsTieC03.

(* ======================================================================================
   TRANSLATOR TIE (see the same section of Props/C02.v).  gen/QueueStepGen.v is regenerated from psiaudio/queue.py on
   every run; g_pops is a run of the GENERATED pop_buffer on the object `mk q ev` (model state + notifications so far).
   A successful generated run is the model's run, so the C03 theorems hold of what the source says now.
   oracle_ok: the shuffled blocks handed to a blocked-random queue hold indices >= 0.
   ====================================================================================== *)
Theorem C03_source_run_is_model_run : forall p es ch pm ns self out,
  wf_policy p (zlen es) = true -> oracle_ok p pm ->
  g_pops (mk (qinit p es ch pm) []) ns = GOk self out ->
  pops all_rep (qinit p es ch pm) ns = Some (o_q self, out, o_ev self).
Proof. exact source_run_is_model_run. Qed.
Print Assumptions C03_source_run_is_model_run.

(* C03_policy_order over the generated run *)
Theorem C03_source_policy_order : forall p es ch pm ns self out,
  wf_queue p es = true -> forallb progress_entry es = true -> oracle_ok p pm ->
  forallb (fun n => 0 <=? n) ns = true ->
  g_pops (mk (qinit p es ch pm) []) ns = GOk self out -> q_empty (o_q self) = true ->
  let keys := keys_of (o_ev self) in
  let req := requested_of es in
  count_trials (o_q self) = 0 /\ count_requested (o_q self) = sumZ req /\
  match p with
  | PFifo => keys = fifo_order es
  | PInter keep => keys = inter_order keep es /\
                   (if keep then stops_at_first_moment req keys = true else counts_of (zlen es) keys = req)
  | PRandom => counts_of (zlen es) keys = req
  | PBlockedRandom => stops_at_first_moment req keys = true /\ is_prefix keys (blocks_order pm) = true
  | PGrouped gs => stops_at_first_moment req keys = true /\ groups_in_order gs keys = true
  end.
Proof. exact source_policy_order. Qed.
Print Assumptions C03_source_policy_order.

(* C03_after_empty over the generated pop_buffer *)
Theorem C03_source_after_empty : forall p es ch pm ns self out n,
  wf_queue p es = true -> oracle_ok p pm -> forallb (fun n => 0 <=? n) ns = true -> 1 <= n ->
  g_pops (mk (qinit p es ch pm) []) ns = GOk self out -> q_empty (o_q self) = true ->
  exists self', g_pop_buffer (pop_fuel (o_q self) n) self n true = GOk self' (repeat OZero (Z.to_nat n)) /\
    o_ev self' = o_ev self ++ [EEmpty] /\
    q_empty (o_q self') = true /\ count_trials (o_q self') = 0 /\ count_requested (o_q self') = count_requested (o_q self).
Proof. exact source_after_empty. Qed.
Print Assumptions C03_source_after_empty.

Example C03_source_ex :
  let es := [mk_entry 2 1 KArray [0] true; mk_entry 1 2 KGen [1] true] in
  wf_queue (PInter true) es = true /\ forallb progress_entry es = true /\ oracle_ok (PInter true) [] /\
  match g_pops (mk (qinit (PInter true) es [] []) []) [3; 20] with
  | GOk self out => q_empty (o_q self) && eqb_listZ (keys_of (o_ev self)) [0; 1; 0]
  | GRaise _ _ => false
  end = true.
Proof. exact source_c03_ex. Qed.
