(* C07 - Calibration conversions are mutually inverse, additive in dB, and fail loudly.
   Property theorems only; every proof is `exact <lemma of Calib/Laws.v or Calib/Interp.v>`.
   The real-valued laws are about the definitions of gen/CalibGen.v, which translate/pyexpr2coq.py regenerates from
   psiaudio/calibration.py and psiaudio/util.py on every run: sens = get_sens(frequency) is abstract (any class),
   cal_get_db = _get_db, cal_get_sf = get_sf, ... (see the comments in the generated file).
   Print Assumptions of the real-valued theorems lists the axioms of Coq's classical real numbers only. *)
From Coq Require Import Reals QArith Lra.
From PV Require Import Calib.RBase gen.CalibGen Calib.Laws Calib.Interp.

(* ---------------------------------------------------------------- level <-> volts (all classes: sens is arbitrary) *)
Open Scope R_scope.

(* level -> scale factor -> level *)
Theorem C07_roundtrip : forall s L, cal_get_db s (cal_get_sf s L 0) = L.
Proof. exact roundtrip. Qed.
Print Assumptions C07_roundtrip.

(* volts -> level -> volts *)
Theorem C07_inverse : forall s v, 0 < v -> cal_get_sf s (cal_get_db s v) 0 = v.
Proof. exact inverse. Qed.
Print Assumptions C07_inverse.

(* attenuation is a pure dB offset: +20 dB <=> x10 volts, and in general +d dB <=> x dbi(d) *)
Theorem C07_attenuation_offset : forall s L a d,
  cal_get_sf s L (a + 20) = 10 * cal_get_sf s L a /\ cal_get_sf s L (a + d) = util_dbi d 1 * cal_get_sf s L a.
Proof. exact attenuation_offset_both. Qed.
Print Assumptions C07_attenuation_offset.

(* so is the level itself, and x10 volts reads as +20 dB *)
Theorem C07_level_offset : forall s L a v, 0 < v ->
  cal_get_sf s (L + 20) a = 10 * cal_get_sf s L a /\ cal_get_db s (10 * v) = cal_get_db s v + 20.
Proof. exact level_offset_both. Qed.
Print Assumptions C07_level_offset.

(* get_gain is the scale factor in dB *)
Theorem C07_gain_is_db : forall s L a, cal_get_gain s L a = L - s + a.
Proof. exact gain_is_db. Qed.
Print Assumptions C07_gain_is_db.

(* get_attenuation(voltage, level) is the attenuation with which get_sf(level) gives that voltage *)
Theorem C07_attenuation_inverse : forall s v L, 0 < v -> cal_get_sf s L (cal_get_attenuation s v L) = v.
Proof. exact attenuation_inverse. Qed.
Print Assumptions C07_attenuation_inverse.

(* fixed gain (FlatCalibration.get_sens and InterpCalibration.get_sens): +20 dB <=> x10 volts; -g dB on the level read *)
Theorem C07_fixed_gain_offset : forall S g L a v,
  cal_get_sf (flat_get_sens S (g + 20)) L a = 10 * cal_get_sf (flat_get_sens S g) L a /\
  cal_get_sf (interp_get_sens S (g + 20)) L a = 10 * cal_get_sf (interp_get_sens S g) L a /\
  cal_get_db (flat_get_sens S g) v = cal_get_db (flat_get_sens S 0) v - g /\
  cal_get_db (interp_get_sens S g) v = cal_get_db (interp_get_sens S 0) v - g.
Proof. exact fixed_gain_offset. Qed.
Print Assumptions C07_fixed_gain_offset.

(* get_mean_sf (mean of get_sf over the sensitivities of the range; FlatCalibration overrides it by one get_sf):
   attenuation is an offset, and the override is the mean over any non-empty range of equal sensitivities *)
Theorem C07_mean_sf_attenuation_offset : forall ss s L a,
  mean_sf ss L (a + 20) = 10 * mean_sf ss L a /\ flat_get_mean_sf s L (a + 20) = 10 * flat_get_mean_sf s L a /\
  (ss <> nil -> (forall x, In x ss -> x = s) -> mean_sf ss L a = flat_get_mean_sf s L a).
Proof. exact mean_sf_laws. Qed.
Print Assumptions C07_mean_sf_attenuation_offset.

(* ---------------------------------------------------------------- constructors describe the same device *)
(* "v volts were measured as `level` dB (SPL)": v reads back as that level and get_sf(level) asks for v *)
Theorem C07_from_spl_from_db_consistent : forall level v, 0 < v ->
  (cal_get_db (flat_from_spl level v) v = level /\ cal_get_sf (flat_from_spl level v) level 0 = v /\
   cal_get_db (freq_from_spl level v) v = level /\ cal_get_sf (freq_from_spl level v) level 0 = v) /\
  (cal_get_db (flat_from_db level v) v = level /\ cal_get_sf (flat_from_db level v) level 0 = v /\
   cal_get_db (freq_from_db level v) v = level /\ cal_get_sf (freq_from_db level v) level 0 = v).
Proof. exact from_spl_from_db_consistent. Qed.
Print Assumptions C07_from_spl_from_db_consistent.

(* m Pascals measured for v volts: v volts read as the SPL of m Pascals (util.patodb); all constructors agree *)
Theorem C07_from_pascals_consistent : forall m spl v, 0 < m -> 0 < v ->
  (cal_get_db (flat_from_pascals m v) v = util_patodb m /\ cal_get_db (freq_from_pascals m v) v = util_patodb m) /\
  (flat_from_pascals m v = flat_from_spl (util_patodb m) v /\
   freq_from_pascals m v = freq_from_spl (util_patodb m) v /\
   flat_from_spl spl v = flat_from_db spl v /\ freq_from_spl spl v = freq_from_db spl v /\
   flat_from_db spl v = freq_from_db spl v).
Proof. exact from_pascals_consistent_agree. Qed.
Print Assumptions C07_from_pascals_consistent.

(* mV/Pa round trips both ways; a microphone of m mV/Pa turns p Pascals into m * 1e-3 * p volts, read back as the SPL of p *)
Theorem C07_mv_pa_roundtrip : forall m p s, 0 < m -> 0 < p ->
  flat_to_mv_pa (flat_from_mv_pa m) = m /\ flat_from_mv_pa (flat_to_mv_pa s) = s /\
  cal_get_db (flat_from_mv_pa m) (m * (1 / 1000) * p) = util_patodb p.
Proof. exact mv_pa_laws. Qed.
Print Assumptions C07_mv_pa_roundtrip.

Theorem C07_unity_and_attenuation : forall v L, 0 < v ->
  (cal_get_sf flat_unity L 0 = util_dbi L 1 /\ cal_get_db flat_unity v = util_db v 1) /\
  (cal_get_db (flat_as_attenuation v) v = 0 /\ cal_get_sf (flat_as_attenuation v) L 0 = util_dbi L 1 * v).
Proof. exact unity_and_attenuation. Qed.
Print Assumptions C07_unity_and_attenuation.

(* util.db / util.dbi / patodb / dbtopa are mutually inverse; +20 dB <=> x10 *)
Theorem C07_db_dbi_inverse : forall x r, 0 < r ->
  util_db (util_dbi x r) r = x /\ (0 < x -> util_dbi (util_db x r) r = x) /\
  util_dbi (x + 20) r = 10 * util_dbi x r /\ util_patodb (util_dbtopa x) = x.
Proof. exact db_dbi_inverse. Qed.
Print Assumptions C07_db_dbi_inverse.

(* the code before the two repairs of branch fix-C07 (formulas copied from the unrepaired source) broke the property:
   from_pascals did not read v volts as m Pascals, FlatCalibration.get_mean_sf ignored its attenuation *)
Theorem C07_unrepaired_refuted :
  (exists m v, 0 < m /\ 0 < v /\ cal_get_db (flat_from_pascals_unrepaired m v) v <> util_patodb m) /\
  (exists s L a, flat_get_mean_sf_unrepaired s L (a + 20) <> 10 * flat_get_mean_sf_unrepaired s L a).
Proof. exact unrepaired_refuted. Qed.
Print Assumptions C07_unrepaired_refuted.

Example C07_ex_positive : 0 < 1 / 1000 /\ 0 < 2. Proof. split; lra. Qed.

(* ---------------------------------------------------------------- interpolated and point calibrations (Q model) *)
Close Scope R_scope.
Open Scope Q_scope.

(* the table is reproduced at its points ... *)
Theorem C07_interp_at_points : forall t x y, sorted t -> In (x, y) t -> exists v, interp t x = Some v /\ v == y.
Proof. exact interp_at_points. Qed.
Print Assumptions C07_interp_at_points.

(* ... between two neighbouring points the sensitivity (dB) is the straight line through them ... *)
Theorem C07_interp_linear_between : forall t pre x0 y0 x1 y1 post q,
  t = pre ++ (x0, y0) :: (x1, y1) :: post -> sorted t -> x0 <= q <= x1 ->
  exists v, interp t q = Some v /\ v == seg x0 y0 x1 y1 q.
Proof. exact interp_linear_between. Qed.
Print Assumptions C07_interp_linear_between.

Theorem C07_seg_is_affine : forall x0 y0 x1 y1 q, x0 < x1 ->
  seg x0 y0 x1 y1 q == (1 - (q - x0) / (x1 - x0)) * y0 + (q - x0) / (x1 - x0) * y1.
Proof. exact seg_affine. Qed.
Print Assumptions C07_seg_is_affine.

(* ... and outside the calibrated range there is no answer (NaN) *)
Theorem C07_interp_outside_none : forall t x0 y0 rest q, t = (x0, y0) :: rest -> sorted t ->
  q < x0 \/ last_x x0 rest < q -> interp t q = None.
Proof. exact interp_outside_none. Qed.
Print Assumptions C07_interp_outside_none.

Theorem C07_interp_inside_some : forall x0 y0 rest q, sorted ((x0, y0) :: rest) -> x0 <= q <= last_x x0 rest ->
  exists v, interp ((x0, y0) :: rest) q = Some v.
Proof. exact interp_inside_some. Qed.
Print Assumptions C07_interp_inside_some.

(* point calibrations answer exactly at calibrated frequencies *)
Theorem C07_point_only_calibrated : forall t q,
  (forall y, point t q = Some y -> exists x, In (x, y) t /\ x == q) /\
  ((forall x y, In (x, y) t -> ~ x == q) -> point t q = None) /\
  (point t q = None -> forall x y, In (x, y) t -> ~ x == q).
Proof. exact point_only_calibrated. Qed.
Print Assumptions C07_point_only_calibrated.

Theorem C07_point_at_calibrated : forall pre x y post,
  (forall x' y', In (x', y') pre -> ~ x' == x) -> point (pre ++ (x, y) :: post) x = Some y.
Proof. exact point_at_calibrated. Qed.
Print Assumptions C07_point_at_calibrated.

(* get_mean_sf raises as soon as one frequency of the requested range has no sensitivity (NaN / uncalibrated),
   and for an empty range *)
Theorem C07_mean_sf_nan_raises : forall lookup flb fub f,
  In f (arange flb fub) -> lookup f = None -> mean_sens lookup flb fub = None.
Proof. exact mean_sens_none. Qed.
Print Assumptions C07_mean_sf_nan_raises.

Theorem C07_mean_sf_outside_raises : forall x0 y0 rest flb fub k, sorted ((x0, y0) :: rest) -> (flb <= k < fub)%Z ->
  inject_Z k < x0 \/ last_x x0 rest < inject_Z k -> mean_sens (interp ((x0, y0) :: rest)) flb fub = None.
Proof. exact mean_sf_outside_raises. Qed.
Print Assumptions C07_mean_sf_outside_raises.

Theorem C07_mean_sf_uncalibrated_raises : forall t flb fub k, (flb <= k < fub)%Z ->
  (forall x y, In (x, y) t -> ~ x == inject_Z k) -> mean_sens (point t) flb fub = None.
Proof. exact mean_sf_uncalibrated_raises. Qed.
Print Assumptions C07_mean_sf_uncalibrated_raises.

Theorem C07_mean_sf_empty_raises : forall lookup flb fub, (fub <= flb)%Z -> mean_sens lookup flb fub = None.
Proof. exact mean_sens_empty. Qed.
Print Assumptions C07_mean_sf_empty_raises.

(* hypotheses are satisfiable: a sorted three-point table, a query between two neighbours, one outside *)
Example C07_ex_table :
  let t := [(500 # 1, 80 # 1); (1000 # 1, 90 # 1); (2000 # 1, 100 # 1)] in
  sorted t /\ interp t (750 # 1) = Some (42500 # 500) /\ interp t (2001 # 1) = None /\ point t (750 # 1) = None /\
  point t (1000 # 1) = Some (90 # 1) /\ mean_sens (interp t) 499 502 = None /\
  is_none (mean_sens (interp t) 500 503) = false.
Proof. vm_compute. repeat split; reflexivity. Qed.
