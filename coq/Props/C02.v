(* C02 - Queue output is a faithful, chunk-invariant timeline of the notified trials.
   Property theorems only; every proof is `exact <lemma of Queue/ProofsC02.v>`. *)
From PV Require Import Queue.Model Queue.Spec Queue.ProofsC02.
From PV Require Import Queue.SpecLists Queue.ProofsC02Lists.

(* For every queue class, every stimulus set and EVERY sequence of buffer requests (no pause):
   the concatenated output is the rendering of the "added" notifications (each stimulus from its
   notified start for its full length, zero everywhere else), the clock equals the samples emitted,
   and consecutive trials are separated by exactly the delay of the earlier one. *)
Theorem C02_timeline : forall p es ch pm ns q out ev,
  wf_queue p es = true -> forallb (fun n => 0 <=? n) ns = true ->
  pops all_rep (qinit p es ch pm) ns = Some (q, out, ev) ->
  out = render es (added_of ev) (sumZ ns) /\ q_samples q = sumZ ns /\ spacing_ok es (added_of ev) = true.
Proof. exact timeline. Qed.
Print Assumptions C02_timeline.

(* Chunk invariance: from any state reached by requests, one request for a+b samples gives the same
   output, the same added notifications, the same clock, flags and remaining trials as a then b. *)
Theorem C02_chunk_invariant : forall p es ch pm pre a b q o0 e0 q1 o1 e1,
  wf_queue p es = true -> forallb progress_entry es = true ->
  forallb (fun n => 0 <=? n) (a :: b :: pre) = true ->
  pops all_rep (qinit p es ch pm) pre = Some (q, o0, e0) ->
  pop_buffer all_rep q (a + b) = Some (q1, o1, e1) ->
  exists q2 o2 e2, pops all_rep q [a; b] = Some (q2, o2, e2) /\
    o1 = o2 /\ added_of e1 = added_of e2 /\ q_samples q1 = q_samples q2 /\ q_empty q1 = q_empty q2 /\
    map e_trials (q_data q1) = map e_trials (q_data q2).
Proof. exact chunk_invariant. Qed.
Print Assumptions C02_chunk_invariant.

(* The request loop terminates and never raises for the deterministic policies (the `while samples > 0`
   loop may take zero-length steps; fuel exhaustion is the model's non-termination value). *)
Theorem C02_never_stuck : forall p es ch pm ns,
  wf_queue p es = true -> forallb progress_entry es = true -> forallb (fun n => 0 <=? n) ns = true ->
  match p with PRandom | PBlockedRandom => True | _ => pops all_rep (qinit p es ch pm) ns <> None end.
Proof. exact never_stuck. Qed.
Print Assumptions C02_never_stuck.

Example C02_ex :
  let es := [mk_entry 2 3 KArray [1] true; mk_entry 1 2 KGen [0] true] in
  wf_queue PFifo es = true /\ forallb progress_entry es = true /\
  timeline_test PFifo es [] [] [2; 5; 0; 9] = true /\ split_test PFifo es [] [] [2] 3 4 = true.
Proof. vm_compute. repeat split; reflexivity. Qed.

(* ---- per-trial delay LISTS (finite iterators, e_cyclic = false; Queue/SpecLists.v) ----
   The same timeline and chunk invariance for stimuli whose delays are a list consumed one element per
   presentation: spacing_ok_l reads the k-th delay of the list for the k-th presentation (and the cycled
   scalar otherwise).  A run that exhausts a list is None in the model (StopIteration), so the theorems
   are conditional on the run returning Some, like the ones above.  wf_queue implies wf_queue_l
   (ProofsC02Lists.wf_queue_l_of_wf), so these subsume the scalar case. *)
Theorem C02_timeline_lists : forall p es ch pm ns q out ev,
  wf_queue_l p es = true -> forallb (fun n => 0 <=? n) ns = true ->
  pops all_rep (qinit p es ch pm) ns = Some (q, out, ev) ->
  out = render es (added_of ev) (sumZ ns) /\ q_samples q = sumZ ns /\ spacing_ok_l es (added_of ev) = true.
Proof. exact timeline_l. Qed.
Print Assumptions C02_timeline_lists.

Theorem C02_chunk_invariant_lists : forall p es ch pm pre a b q o0 e0 q1 o1 e1,
  wf_queue_l p es = true -> forallb progress_entry es = true ->
  forallb (fun n => 0 <=? n) (a :: b :: pre) = true ->
  pops all_rep (qinit p es ch pm) pre = Some (q, o0, e0) ->
  pop_buffer all_rep q (a + b) = Some (q1, o1, e1) ->
  exists q2 o2 e2, pops all_rep q [a; b] = Some (q2, o2, e2) /\
    o1 = o2 /\ added_of e1 = added_of e2 /\ q_samples q1 = q_samples q2 /\ q_empty q1 = q_empty q2 /\
    map e_trials (q_data q1) = map e_trials (q_data q2).
Proof. exact chunk_invariant_l. Qed.
Print Assumptions C02_chunk_invariant_lists.

(* a genuine list (not cyclic): well-formed for the list theorems only, the run succeeds and notifies
   three trials spaced by 1 then 4 then 2; a list shorter than the trials makes the run None *)
Example C02_lists_ex :
  let es := [mk_entry 2 3 KArray [1; 4] false; mk_entry 1 0 KGen [2] false] in
  wf_queue_l PFifo es = true /\ wf_queue PFifo es = false /\ forallb progress_entry es = true /\
  match pops all_rep (qinit PFifo es [] []) [2; 0; 9; 4] with
  | Some (_, _, ev) => eqb_list eqb_pairZ (added_of ev) [(0, 0); (0, 4); (1, 11)]
  | None => false
  end = true /\
  timeline_l_test PFifo es [] [] [2; 0; 9; 4] = true /\
  pops all_rep (qinit PFifo [mk_entry 3 1 KArray [1; 1] false] [] []) [20] = None.
Proof. vm_compute. repeat split; reflexivity. Qed.

From PV Require Import Queue.SpecXDur Queue.ProofsXDur.

(* ======================================================================================
   DECLARED DURATIONS (append(..., duration=d); Model.mk_entry_dur, e_dur <> e_len; Queue/SpecXDur.v).
   wf_queue / wf_queue_l above require e_dur = e_len.  wf_queue_d / wf_queue_ld are the same conditions
   WITHOUT that clause: the declared duration is arbitrary (longer or shorter than the waveform, zero,
   negative).  erase_dur replaces every declared duration - in the data and in the log of generated
   trials - by the waveform length.
   ====================================================================================== *)

(* pop_buffer commutes with duration erasure, in ANY state and for ANY repair setting ... *)
Theorem C02_pop_buffer_duration_erasure : forall R q n,
  pop_buffer R (erase_dur q) n =
  match pop_buffer R q n with Some (q', out, ev) => Some (erase_dur q', out, ev) | None => None end.
Proof. exact pop_buffer_erase. Qed.
Print Assumptions C02_pop_buffer_duration_erasure.

(* ... so a no-pause run from stimuli with arbitrary declared durations and the run from the same stimuli
   with e_dur := e_len succeed together, with the same output and the same notifications, and end in states
   that differ in the declared durations only (erase_observables in Queue/ProofsXDur.v: clock, flags, source,
   pending delay, ordering, trial counters and the (t0, key, decrement) of every log entry are equal) *)
Theorem C02_pops_duration_erasure : forall R p es ch pm ns,
  pops R (qinit p (map norm_dur es) ch pm) ns =
  match pops R (qinit p es ch pm) ns with Some (q, out, ev) => Some (erase_dur q, out, ev) | None => None end.
Proof. exact pops_duration_erasure. Qed.
Print Assumptions C02_pops_duration_erasure.

(* What the declared duration DOES influence in a request (any state, any repair setting): nothing but the
   duration recorded with each trial set up.  The erased state answers with the same output and notifications
   and ends in the erased final state; the log grows by exactly one entry per 'added' notification (same key
   and start, decrement = true) whose i_dur is the declared duration of its stimulus - the duration field of
   the notification's info dict (dur_of, as enc_event_x encodes it); the declared durations never change. *)
Theorem C02_duration_only_in_log : forall R q n q' out ev,
  pop_buffer R q n = Some (q', out, ev) ->
  pop_buffer R (erase_dur q) n = Some (erase_dur q', out, ev) /\
  (exists new, q_generated q' = q_generated q ++ new /\
               map (fun i => (i_key i, i_t0 i)) new = added_of ev /\
               Forall (fun i => i_dur i = dur_of q (i_key i) /\ i_dec i = true /\
                                enc_event_x q' (EAdded (i_key i) (i_t0 i)) = [1; i_key i; i_t0 i; i_dur i]) new) /\
  (forall k, dur_of q' k = dur_of q k).
Proof. exact duration_only_in_log. Qed.
Print Assumptions C02_duration_only_in_log.

(* C02_timeline, C02_chunk_invariant, C02_never_stuck and the _lists variants, statements otherwise
   identical, for stimuli with ARBITRARY declared durations *)
Theorem C02_timeline_any_duration : forall p es ch pm ns q out ev,
  wf_queue_d p es = true -> forallb (fun n => 0 <=? n) ns = true ->
  pops all_rep (qinit p es ch pm) ns = Some (q, out, ev) ->
  out = render es (added_of ev) (sumZ ns) /\ q_samples q = sumZ ns /\ spacing_ok es (added_of ev) = true.
Proof. exact timeline_any_duration. Qed.
Print Assumptions C02_timeline_any_duration.

Theorem C02_chunk_invariant_any_duration : forall p es ch pm pre a b q o0 e0 q1 o1 e1,
  wf_queue_d p es = true -> forallb progress_entry es = true ->
  forallb (fun n => 0 <=? n) (a :: b :: pre) = true ->
  pops all_rep (qinit p es ch pm) pre = Some (q, o0, e0) ->
  pop_buffer all_rep q (a + b) = Some (q1, o1, e1) ->
  exists q2 o2 e2, pops all_rep q [a; b] = Some (q2, o2, e2) /\
    o1 = o2 /\ added_of e1 = added_of e2 /\ q_samples q1 = q_samples q2 /\ q_empty q1 = q_empty q2 /\
    map e_trials (q_data q1) = map e_trials (q_data q2).
Proof. exact chunk_invariant_any_duration. Qed.
Print Assumptions C02_chunk_invariant_any_duration.

Theorem C02_never_stuck_any_duration : forall p es ch pm ns,
  wf_queue_d p es = true -> forallb progress_entry es = true -> forallb (fun n => 0 <=? n) ns = true ->
  match p with PRandom | PBlockedRandom => True | _ => pops all_rep (qinit p es ch pm) ns <> None end.
Proof. exact never_stuck_any_duration. Qed.
Print Assumptions C02_never_stuck_any_duration.

Theorem C02_timeline_lists_any_duration : forall p es ch pm ns q out ev,
  wf_queue_ld p es = true -> forallb (fun n => 0 <=? n) ns = true ->
  pops all_rep (qinit p es ch pm) ns = Some (q, out, ev) ->
  out = render es (added_of ev) (sumZ ns) /\ q_samples q = sumZ ns /\ spacing_ok_l es (added_of ev) = true.
Proof. exact timeline_l_any_duration. Qed.
Print Assumptions C02_timeline_lists_any_duration.

Theorem C02_chunk_invariant_lists_any_duration : forall p es ch pm pre a b q o0 e0 q1 o1 e1,
  wf_queue_ld p es = true -> forallb progress_entry es = true ->
  forallb (fun n => 0 <=? n) (a :: b :: pre) = true ->
  pops all_rep (qinit p es ch pm) pre = Some (q, o0, e0) ->
  pop_buffer all_rep q (a + b) = Some (q1, o1, e1) ->
  exists q2 o2 e2, pops all_rep q [a; b] = Some (q2, o2, e2) /\
    o1 = o2 /\ added_of e1 = added_of e2 /\ q_samples q1 = q_samples q2 /\ q_empty q1 = q_empty q2 /\
    map e_trials (q_data q1) = map e_trials (q_data q2).
Proof. exact chunk_invariant_l_any_duration. Qed.
Print Assumptions C02_chunk_invariant_lists_any_duration.

(* declared durations 7 (> length 3), -4, 0: not well-formed for the theorems above the line, well-formed
   here; the run notifies four trials and logs exactly the declared durations *)
Example C02_any_duration_ex :
  let es := [mk_entry_dur 2 3 KArray [1] true 7; mk_entry_dur 1 2 KGen [0] true (-4); mk_entry_dur 1 1 KArray [2] true 0] in
  wf_queue_d PFifo es = true /\ wf_queue PFifo es = false /\ forallb progress_entry es = true /\
  match pops all_rep (qinit PFifo es [] []) [2; 5; 0; 9] with
  | Some (q, _, ev) => eqb_list eqb_pairZ (added_of ev) [(0, 0); (0, 4); (1, 8); (2, 10)]
                       && eqb_listZ (map i_dur (q_generated q)) [7; 7; -4; 0]
  | None => false end = true.
Proof. vm_compute. repeat split; reflexivity. Qed.

From PV Require Import Queue.TieLib gen.QueueStepGen Queue.ProofsTie.

(* ======================================================================================
   TRANSLATOR TIE.  gen/QueueStepGen.v is regenerated from psiaudio/queue.py on every run by translate/pyqueue2coq.py:
   one Gallina definition g_<method> per method of the generation path, statement by statement (coq/Queue/TieLib.v
   says what the source constructs are mapped to).  The theorems below (proofs: coq/Queue/ProofsTie.v) say that these
   definitions are the hand-written model, so that what is proved of the model above is proved of what the source
   says now.  `mk q ev` is the queue object: the model's state q and the notifications delivered so far.
   Invariant `tie_wf` (per policy; `True` for FIFO, random and interleaved queues that keep completed stimuli):
   queued keys have their stimulus dict, group size >= 0, shuffled blocks hold indices >= 0.
   ====================================================================================== *)

(* the two readers of the current source, in ANY state with a source: array slicing (for non-negative requests) and
   drawing from a factory *)
Theorem C02_source_get_samples : forall q ev n k a b, q_source q = Some (k, a, b) ->
    (0 <= n ->
     g__get_samples_waveform (mk q ev) n =
     GOk (mk (set_src q (if n >? b - a then None else Some (k, a + n, b)) (q_delay q)) ev)
         (zrange (fun i => OWave k i) a (if n >? b - a then b - a else n))) /\
    g__get_samples_generator (mk q ev) n =
    GOk (mk (set_src q (if a + Z.min (b - a) n >=? b then None else Some (k, a + Z.min (b - a) n, b)) (q_delay q)) ev)
        (zrange (fun i => OWave k i) a (Z.min (b - a) n)).
Proof. exact source_get_samples. Qed.
Print Assumptions C02_source_get_samples.

(* next_key of every queue class (dispatched as the class hierarchy of the source says) is the model's next_key:
   same key and state, QueueEmptyError with the object untouched, or an error on both sides *)
Theorem C02_source_next_key : forall q ev0, tie_wf q -> nk_spec q ev0 (g_next_key (mk q ev0)) (next_key all_rep q).
Proof. exact source_next_key. Qed.
Print Assumptions C02_source_next_key.

Theorem C02_source_decrement_key : forall q ev0 key e, dk_wf q -> znth (q_data q) key = Some e ->
  dk_spec q ev0 (g_decrement_key (mk q ev0) key 1) (decrement_key q key).
Proof. exact source_decrement_key. Qed.
Print Assumptions C02_source_decrement_key.

(* next_trial with and without the automatic decrement *)
Theorem C02_source_next_trial : forall q ev0, tie_wf q ->
  nt_spec q ev0 (g_next_trial (mk q ev0) true) (next_trial all_rep q) /\
  nt_spec q ev0 (g_next_trial (mk q ev0) false) (next_trial_nd all_rep q).
Proof. exact source_next_trial. Qed.
Print Assumptions C02_source_next_trial.

(* _pop_buffer: the four-way decision *)
Theorem C02_source_pop_step : forall q ev0 n, tie_wf q -> 0 <= n ->
  step_spec q ev0 (g__pop_buffer (mk q ev0) n true) (pop_step all_rep q n).
Proof. exact source_pop_step. Qed.
Print Assumptions C02_source_pop_step.

(* pop_buffer: the `while samples > 0` loop, for every amount of fuel (out of fuel on one side = on the other) *)
Theorem C02_source_pop_buffer : forall fuel q n, tie_wf q ->
  obs_pop (g_pop_buffer fuel (mk q []) n true) = pop_loop fuel all_rep q n.
Proof. exact source_pop_buffer. Qed.
Print Assumptions C02_source_pop_buffer.

Theorem C02_source_pop_buffer_nodecrement : forall fuel q n, tie_wf q ->
  obs_pop (g_pop_buffer fuel (mk q []) n false) = pop_loop_nd fuel all_rep q n.
Proof. exact source_pop_buffer_nd. Qed.
Print Assumptions C02_source_pop_buffer_nodecrement.

(* the invariant is kept by every request, and holds of every freshly built queue the C02 theorems speak of *)
Theorem C02_source_invariant_kept : forall q n q' out ev,
  tie_wf q -> pop_buffer all_rep q n = Some (q', out, ev) -> tie_wf q'.
Proof. exact source_wf_kept. Qed.
Print Assumptions C02_source_invariant_kept.

Theorem C02_source_invariant_init : forall p es ch pm,
  wf_policy p (zlen es) = true -> oracle_ok p pm -> tie_wf (qinit p es ch pm).
Proof. exact tie_wf_init. Qed.
Print Assumptions C02_source_invariant_init.

(* runs of the generated pop_buffer are the model's runs *)
Theorem C02_source_runs : forall ns q, tie_wf q -> obs_pop (g_pops (mk q []) ns) = pops all_rep q ns.
Proof. exact source_pops. Qed.
Print Assumptions C02_source_runs.

(* C02_timeline, C02_chunk_invariant and C02_never_stuck restated over runs of the GENERATED pop_buffer *)
Theorem C02_source_timeline : forall p es ch pm ns self out,
  wf_queue p es = true -> oracle_ok p pm -> forallb (fun n => 0 <=? n) ns = true ->
  g_pops (mk (qinit p es ch pm) []) ns = GOk self out ->
  out = render es (added_of (o_ev self)) (sumZ ns) /\ q_samples (o_q self) = sumZ ns /\
  spacing_ok es (added_of (o_ev self)) = true.
Proof. exact source_timeline. Qed.
Print Assumptions C02_source_timeline.

Theorem C02_source_chunk_invariant : forall p es ch pm pre a b s0 o0 s1 o1,
  wf_queue p es = true -> forallb progress_entry es = true -> oracle_ok p pm ->
  forallb (fun n => 0 <=? n) (a :: b :: pre) = true ->
  g_pops (mk (qinit p es ch pm) []) pre = GOk s0 o0 ->
  g_pop_buffer (pop_fuel (o_q s0) (a + b)) s0 (a + b) true = GOk s1 o1 ->
  exists s2 o2, g_pops s0 [a; b] = GOk s2 o2 /\
    o1 = o2 /\ added_of (o_ev s1) = added_of (o_ev s2) /\ q_samples (o_q s1) = q_samples (o_q s2) /\
    q_empty (o_q s1) = q_empty (o_q s2) /\ map e_trials (q_data (o_q s1)) = map e_trials (q_data (o_q s2)).
Proof. exact source_chunk_invariant. Qed.
Print Assumptions C02_source_chunk_invariant.

Theorem C02_source_never_stuck : forall p es ch pm ns,
  wf_queue p es = true -> forallb progress_entry es = true -> forallb (fun n => 0 <=? n) ns = true ->
  match p with
  | PRandom | PBlockedRandom => True
  | _ => exists self out, g_pops (mk (qinit p es ch pm) []) ns = GOk self out
  end.
Proof. exact source_never_stuck. Qed.
Print Assumptions C02_source_never_stuck.

(* every hypothesis is needed: a negative request (source: slice from the end; model: nothing) ... *)
Theorem C02_source_pop_step_refuted : exists q out, tie_wf q /\
  g__pop_buffer (mk q []) (-1) true = GOk (mk (set_src q (Some (0, 2, 3)) 0) []) out /\ out = [OWave 0 0; OWave 0 1] /\
  pop_step all_rep q (-1) = PBok (set_src q (Some (0, -1, 3)) 0) [] [].
Proof. exact tie_pop_step_refuted. Qed.
Print Assumptions C02_source_pop_step_refuted.

(* ... a queued key without a stimulus dict (source: KeyError; model: 0 trials left, next key) ... *)
Theorem C02_source_next_key_refuted_keys : exists q k q1 s, q_pol q = PInter false /\ ~ keys_ok q /\
  next_key all_rep q = NKey k q1 /\ g_next_key (mk q []) = GRaise EKeyError s.
Proof. exact tie_next_key_refuted_keys. Qed.
Print Assumptions C02_source_next_key_refuted_keys.

(* ... a negative group size (source: indexes from the end; model: error) ... *)
Theorem C02_source_next_key_refuted_group : exists q k s, q_pol q = PGrouped (-2) /\
  next_key all_rep q = NError /\ g_next_key (mk q []) = GOk s k.
Proof. exact tie_next_key_refuted_group. Qed.
Print Assumptions C02_source_next_key_refuted_group.

(* ... a negative index in a shuffled block (same) ... *)
Theorem C02_source_next_key_refuted_perm : exists q k s, q_pol q = PBlockedRandom /\
  next_key all_rep q = NError /\ g_next_key (mk q []) = GOk s k.
Proof. exact tie_next_key_refuted_perm. Qed.
Print Assumptions C02_source_next_key_refuted_perm.

(* ... a key of the group without a stimulus dict (source: KeyError; model: counted as done) *)
Theorem C02_source_decrement_key_refuted : exists q q2 s, q_pol q = PGrouped 2 /\ ~ keys_ok q /\
  decrement_key q 0 = Some q2 /\ g_decrement_key (mk q []) 0 1 = GRaise EKeyError s.
Proof. exact tie_decrement_key_refuted. Qed.
Print Assumptions C02_source_decrement_key_refuted.

(* the hypotheses are satisfiable, and a generated run notifies what the model's does *)
Example C02_source_ex :
  let es := [mk_entry 2 3 KArray [1] true; mk_entry 1 2 KGen [0] true] in
  wf_queue (PGrouped 2) es = true /\ forallb progress_entry es = true /\ oracle_ok (PGrouped 2) [] /\
  tie_wf (qinit (PGrouped 2) es [] []) /\
  match g_pops (mk (qinit (PGrouped 2) es [] []) []) [2; 5; 0; 9] with
  | GOk self out => eqb_list eqb_pairZ (added_of (o_ev self)) [(0, 0); (1, 4); (0, 6)] && (zlen out =? 16)
  | GRaise _ _ => false
  end = true.
Proof. exact source_ex. Qed.

(* an ndarray source is represented by a view (key, start, stop) of the queued waveform (Queue/TieLib.v); slicing the view
   is Python slicing of its samples (Common/PySlice), for all bounds present or omitted, whenever start <= stop - which
   holds of every source the model reaches (pos <= len) *)
Theorem C02_source_view_is_slice : forall lo hi k a b, a <= b ->
  view_samples (view_slice lo hi (k, a, b)) = py_slice lo hi (view_samples (k, a, b)).
Proof. exact view_slice_is_py_slice. Qed.
Print Assumptions C02_source_view_is_slice.

Theorem C02_source_view_is_slice_refuted : exists lo hi k a b, b < a /\
  view_samples (view_slice lo hi (k, a, b)) <> py_slice lo hi (view_samples (k, a, b)).
Proof. exact view_slice_refuted. Qed.
Print Assumptions C02_source_view_is_slice_refuted.
