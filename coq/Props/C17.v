(* C17 - Artifact rejection forwards exactly the epochs under threshold, metadata aligned.
   Property theorems only; every proof is `exact <lemma of Reject/Proofs.v>`. *)
From PV Require Import PData.Model PData.Spec Reject.Model Reject.Spec Reject.Proofs.

(* One batch: for EVERY batch of single-channel epochs (any number of epochs incl. none, any length >= 1, any sample
   values), plain or annotated, both criteria, any threshold: the stage outputs exactly the specification
   [spec_out]: the (metadata, epoch) pairs whose criterion is strictly below the threshold, in their original order,
   each epoch still paired with its own metadata entry (annotated batches are masked through the C11
   PipelineData.__getitem__ model), nothing at all when no pair is left, and the accept mask to the status callback. *)
Theorem C17_forwards_exactly : forall m th b, good b -> step1 m th b = spec_out m th b.
Proof. exact step1_good. Qed.
Print Assumptions C17_forwards_exactly.

(* Histories: for EVERY sequence of good batches and a constant or per-batch changing threshold, batch k is judged
   with the k-th threshold value and the coroutine never stops. *)
Theorem C17_sequences : forall m bs t, Forall good bs -> run m t true bs = spec_run m t bs.
Proof. exact run_good. Qed.
Print Assumptions C17_sequences.

(* forwarded <-> a pair of the batch with criterion STRICTLY below the threshold *)
Theorem C17_forwarded_iff : forall m th (ms : list Z) (d : list (list (list Z))) p,
  In p (filter (fun p => accepts m th (snd p)) (combine ms d)) <->
  In p (combine ms d) /\ crit m (hd [] (snd p)) < th.
Proof. exact forwarded_iff. Qed.
Print Assumptions C17_forwarded_iff.

(* a criterion value equal to the threshold is rejected *)
Theorem C17_equal_rejected : forall m th blk, crit m (hd [] blk) = th -> accepts m th blk = false.
Proof. exact equal_rejected. Qed.
Print Assumptions C17_equal_rejected.

(* an all-rejected batch forwards nothing; the status callback still gets the (all-False) mask *)
Theorem C17_all_rejected_nothing : forall m th b, good b ->
  (forall blk, In blk (blocks b) -> th <= crit m (hd [] blk)) ->
  step1 m th b = OOut None (map (fun _ => false) (blocks b)).
Proof. exact all_rejected_nothing. Qed.
Print Assumptions C17_all_rejected_nothing.

(* the status callback receives the accept mask of the batch *)
Theorem C17_status_is_mask : forall m th b, good b ->
  exists f s, spec_out m th b = OOut f s /\ s = map (accepts m th) (blocks b).
Proof. exact spec_out_good. Qed.
Print Assumptions C17_status_is_mask.

(* the criteria: peak absolute value / peak-to-peak amplitude, strictly *)
Theorem C17_abs_criterion : forall ep th, ep <> [] ->
  (crit MAbs ep < th <-> forall v, In v ep -> Z.abs v < th).
Proof. exact crit_abs_spec. Qed.
Print Assumptions C17_abs_criterion.
Theorem C17_ptp_criterion : forall ep th, ep <> [] ->
  (crit MPtp ep < th <-> forall u v, In u ep -> In v ep -> u - v < th).
Proof. exact crit_ptp_spec. Qed.
Print Assumptions C17_ptp_criterion.

(* input that is not (epochs x 1 channel x samples) is refused with ValueError ... *)
Theorem C17_valid_shape : forall b, valid b = true <-> exists e t, shape_of b = [e; 1; t].
Proof. exact valid_shape. Qed.
Print Assumptions C17_valid_shape.
Theorem C17_invalid_refused : forall m th b, valid b = false -> step1 m th b = OErr EValue.
Proof. exact invalid_refused. Qed.
Print Assumptions C17_invalid_refused.
(* ... which ends the coroutine *)
Theorem C17_refusal_ends_stage : forall m t b rest, valid b = false ->
  run m t true (b :: rest) = OErr EValue :: map (fun _ => OStop) rest.
Proof. exact run_refused. Qed.
Print Assumptions C17_refusal_ends_stage.

(* the hypotheses are satisfiable: an annotated batch of three epochs at th-1, th, th+1 (th = 10) *)
Example C17_ex :
  let b := mk_ann [3; 1; 2] [9; -3; 10; 0; -11; 2] 5 1000 1 (LMany [70]) (LMany [100; 101; 102]) in
  good b /\
  step1 MAbs 10 b = OOut (Some (fwd_ann [1; 1; 2] [9; -3] 5 1000 1 (LMany [70]) (LMany [100]))) [true; false; false].
Proof.
  cbn zeta. split; [|vm_compute; reflexivity].
  cbn [good mk_ann renest]. split.
  - unfold wf. cbn. repeat split; try lia; repeat constructor.
  - exists 3, 2. split; [reflexivity | lia].
Qed.

(* ================================================================== extension: status_cb = None (coverage audit: out_fwd).
   Proofs and the explicit callback flag in Reject/ProofsX.v: [run_cb cb] is the stage with (cb = true) or without
   (cb = false) a status callback; [run_fwd] = [run_cb false] is the forward-only semantics. *)
From PV Require Import Reject.ProofsX.

(* the status callback is an observer only: what is forwarded (arrays with their metadata), what is refused and when
   the coroutine ends is the same with and without a callback, for ALL sequences of batches (valid or not,
   well-formed or not), thresholds and modes; the model of Reject/Model.v is the stage with a callback, and its
   projection [out_fwd] is the forward-only run *)
Theorem C17_status_is_observation_only : forall m t alive bs,
  (forall cb1 cb2, map out_fwd (run_cb cb1 m t alive bs) = map out_fwd (run_cb cb2 m t alive bs)) /\
  run_cb true m t alive bs = run m t alive bs /\
  map out_fwd (run m t alive bs) = run_fwd m t alive bs.
Proof. exact status_is_observation_only. Qed.
Print Assumptions C17_status_is_observation_only.
(* without a callback no mask is handed out *)
Theorem C17_no_callback_no_status : forall m bs t alive f s, In (OOut f s) (run_fwd m t alive bs) -> s = [].
Proof. exact run_fwd_status_empty. Qed.
Print Assumptions C17_no_callback_no_status.
(* forward-only runs of good batches forward exactly the accepted (metadata, epoch) pairs, batch k judged with the
   k-th threshold *)
Theorem C17_forward_only_sequences : forall m bs t, Forall good bs -> run_fwd m t true bs = map out_fwd (spec_run m t bs).
Proof. exact run_fwd_good. Qed.
Print Assumptions C17_forward_only_sequences.

(* ================================================================== translator tie: the SOURCE of reject_epochs.
   coq/gen/RejectGen.v is regenerated from psiaudio/pipeline.py on every run by translate/pyreject2coq.py (hook
   `translate` of harness/C17.py): the coroutine as [reject_epochs_init] (the statements before `while True:`: mode
   dispatch, threshold callback) and [reject_epochs_step] (one `data = (yield)` iteration: the refusals, the accept mask,
   data[mask], status_cb, valid_target), [reject_epochs_run] (the started generator driven by send()), and the
   PipelineData properties n_channels / n_epochs - statement by statement in the vocabulary of Reject/NumpyPrims.v.
   Reject/ProofsTie.v proves them equal to the model above on the model's domain [dom] (a good batch, or a refused batch
   with the 1..3 dimensions an annotated array of PData/Model.v can have), so the theorems above are theorems about
   what the source says now. *)
From PV Require Import Reject.NumpyPrims gen.RejectGen Reject.ProofsTie.

(* the set-up: for the two mode strings and every threshold (a number or a callable) it leaves the criterion of the
   mode and the threshold callback in the state *)
Theorem C17_source_init_tie : forall cb m t, reject_epochs_init t (Some m) cb = ret (st_of cb m t).
Proof. exact init_tie. Qed.
Print Assumptions C17_source_init_tie.

(* the criterion lambdas of the source (np.max(np.abs(s), axis=-1) < th, np.ptp(s, axis=-1) < th, then [:, 0]) compute
   the model's accept mask on blocks of one channel *)
Theorem C17_source_criterion_tie : forall m th blks, Forall (fun blk : list (list Z) => zlen blk = 1) blks ->
  np_col0 (acc_of m blks th) = ret (accept_mask m th (N3 blks)).
Proof. exact accept_tie. Qed.
Print Assumptions C17_source_criterion_tie.

(* ONE SEND: generated step = model step, for every batch of the domain, mode, threshold source, with / without callback *)
Theorem C17_source_step_tie : forall cb m t b, dom b -> reject_epochs_step (st_of cb m t) b = model_step cb m t b.
Proof. exact step_tie. Qed.
Print Assumptions C17_source_step_tie.

(* EVERY SEQUENCE OF SENDS: the generated coroutine is the model's run (cb = true: [run]; cb = false: [run_fwd]) *)
Theorem C17_source_run_tie : forall cb m t bs, Forall dom bs ->
  reject_epochs_run t (Some m) cb bs = ret (run_cb cb m t true bs).
Proof. exact run_tie. Qed.
Print Assumptions C17_source_run_tie.

(* C17_forwards_exactly, about the generated definitions alone *)
Theorem C17_source_forwards_exactly : forall m t b, good b ->
  bind (reject_epochs_init t (Some m) true) (fun st => reject_epochs_step st b) =
  bind (reject_epochs_init (thr_next t) (Some m) true) (fun st' => ret (st', spec_out m (thr_now t) b)).
Proof. exact source_forwards_exactly. Qed.
Print Assumptions C17_source_forwards_exactly.

(* C17_sequences / C17_forward_only_sequences, about the generated coroutine *)
Theorem C17_source_sequences : forall m bs t, Forall good bs -> reject_epochs_run t (Some m) true bs = ret (spec_run m t bs).
Proof. exact source_sequences. Qed.
Print Assumptions C17_source_sequences.
Theorem C17_source_forward_only_sequences : forall m bs t, Forall good bs ->
  reject_epochs_run t (Some m) false bs = ret (map out_fwd (spec_run m t bs)).
Proof. exact source_forward_only_sequences. Qed.
Print Assumptions C17_source_forward_only_sequences.

(* C17_refusal_ends_stage, about the generated coroutine *)
Theorem C17_source_refusal_ends_stage : forall cb m t b rest, valid b = false -> dims13 b -> Forall dom rest ->
  reject_epochs_run t (Some m) cb (b :: rest) = ret (OErr EValue :: map (fun _ => OStop) rest).
Proof. exact source_refusal_ends_stage. Qed.
Print Assumptions C17_source_refusal_ends_stage.

(* about the source only (the model has two modes): any other mode string leaves the criterion unbound, and the first
   batch that passes the shape checks raises UnboundLocalError *)
Theorem C17_source_unknown_mode : forall cb t b, valid b = true ->
  bind (reject_epochs_init t None cb) (fun st => reject_epochs_step st b) = inl EUnbound.
Proof. exact source_unknown_mode. Qed.
Print Assumptions C17_source_unknown_mode.

(* both halves of [dom] are needed *)
Theorem C17_source_good_needed_refuted : exists cb m t b,
  valid b = true /\ reject_epochs_step (st_of cb m t) b <> model_step cb m t b.
Proof. exact step_tie_good_needed_refuted. Qed.
Print Assumptions C17_source_good_needed_refuted.
Theorem C17_source_dims_needed_refuted : exists cb m t b,
  valid b = false /\ reject_epochs_step (st_of cb m t) b <> model_step cb m t b.
Proof. exact step_tie_dims_needed_refuted. Qed.
Print Assumptions C17_source_dims_needed_refuted.

(* the domain is inhabited (a good annotated batch, a refused 2-channel batch) and the generated coroutine runs: a
   callable threshold 10, 3; an annotated and a plain batch, a refused batch, a batch sent to the dead coroutine *)
Example C17_source_ex :
  dom (mk_ann [3; 1; 2] [9; -3; 10; 0; -11; 2] 5 1000 1 (LMany [70]) (LMany [100; 101; 102])) /\
  dom (mk_plain [2; 2; 1] [1; 2; 3; 4]) /\
  reject_epochs_run (TCall [10; 3]) (Some MAbs) true
    [mk_ann [3; 1; 2] [9; -3; 10; 0; -11; 2] 5 1000 1 (LMany [70]) (LMany [100; 101; 102]);
     mk_plain [2; 1; 2] [1; 2; 3; 4]; mk_plain [2; 2; 1] [1; 2; 3; 4]; mk_plain [1; 1; 1] [0]] =
  ret [OOut (Some (fwd_ann [1; 1; 2] [9; -3] 5 1000 1 (LMany [70]) (LMany [100]))) [true; false; false];
       OOut (Some (fwd_plain [1; 1; 2] [1; 2])) [true; false]; OErr EValue; OStop].
Proof. exact dom_ex. Qed.
