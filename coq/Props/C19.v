(* C19 - No code path can fail on an unresolved name.
   The scope trees gen_<module> and the environment gen_env are REGENERATED from the source under test and the
   installed libraries on every run (translate/pynames2coq.py); `known m` is the list of reads recorded in
   /verif/known_findings.txt for module m (empty when none).  Specification: Names/Scope.v. *)
From PV Require Import Names.Scope Names.Checker Names.Sound Names.Env Names.Unrepaired.

(* the boolean checker decides the relational specification of Python name resolution, for EVERY scope tree
   and environment: if it answers true, every read in every scope of the module resolves (and every attribute
   chain read off an imported module exists) ... *)
Theorem C19_checker_sound : forall e m, check_module e m = true -> module_ok e m.
Proof. exact checker_sound. Qed.
Print Assumptions C19_checker_sound.

(* ... and if it answers false some read really does not resolve (no false alarms of the checker) *)
Theorem C19_checker_complete : forall e m, module_ok e m -> check_module e m = true.
Proof. exact checker_complete. Qed.
Print Assumptions C19_checker_complete.

(* the same with recorded reads (unit, name) excluded *)
Theorem C19_checker_except_sound : forall allow e m,
  check_module_except allow e m = true -> module_ok_except allow e m.
Proof. exact checker_except_sound. Qed.
Print Assumptions C19_checker_except_sound.

Theorem C19_checker_except_complete : forall allow e m,
  module_ok_except allow e m -> check_module_except allow e m = true.
Proof. exact checker_except_complete. Qed.
Print Assumptions C19_checker_except_complete.

(* the report used to name failing reads lists exactly the reads that are not ok *)
Theorem C19_report_exact : forall allow e m u t l,
  In (u, t, l) (unresolved_except allow e m) <->
  exists st it, occurs m st it /\ ~ excepted allow st it /\ ~ item_ok e m st it /\
                u = unit_of st /\ t = item_text it /\ l = item_line it.
Proof. exact unresolved_spec. Qed.
Print Assumptions C19_report_exact.

(* Python classifies a name in a scope in exactly one way *)
Theorem C19_classification_unique : forall st x r1 r2, classify st x r1 -> classify st x r2 -> r1 = r2.
Proof. exact classify_deterministic. Qed.
Print Assumptions C19_classification_unique.

(* every read that is looked up in globals/builtins at run time is in the per-unit list that the harness
   compares with the bytecode of the real code object *)
Theorem C19_bytecode_tie_covers_reads : forall m st x l,
  occurs m st (Use x l) -> classify st x RGlobal -> In (x, [], l) (unit_loads m (unit_of st)).
Proof. exact unit_loads_cover_use. Qed.
Print Assumptions C19_bytecode_tie_covers_reads.

Theorem C19_bytecode_tie_covers_chains : forall m st x attrs l,
  occurs m st (AttrUse x attrs l) -> classify st x RGlobal -> In (x, attrs, l) (unit_loads m (unit_of st)).
Proof. exact unit_loads_cover_attr. Qed.
Print Assumptions C19_bytecode_tie_covers_chains.

(* ---- the ten regenerated modules ---------------------------------------------------------------------- *)
Theorem C19_stim : check_module_except (known gen_stim) gen_env gen_stim = true.
Proof. vm_compute. reflexivity. Qed.
Print Assumptions C19_stim.

Theorem C19_pipeline : check_module_except (known gen_pipeline) gen_env gen_pipeline = true.
Proof. vm_compute. reflexivity. Qed.
Print Assumptions C19_pipeline.

Theorem C19_util : check_module_except (known gen_util) gen_env gen_util = true.
Proof. vm_compute. reflexivity. Qed.
Print Assumptions C19_util.

Theorem C19_queue : check_module_except (known gen_queue) gen_env gen_queue = true.
Proof. vm_compute. reflexivity. Qed.
Print Assumptions C19_queue.

Theorem C19_calibration : check_module_except (known gen_calibration) gen_env gen_calibration = true.
Proof. vm_compute. reflexivity. Qed.
Print Assumptions C19_calibration.

Theorem C19_buffer : check_module_except (known gen_buffer) gen_env gen_buffer = true.
Proof. vm_compute. reflexivity. Qed.
Print Assumptions C19_buffer.

Theorem C19_efr : check_module_except (known gen_efr) gen_env gen_efr = true.
Proof. vm_compute. reflexivity. Qed.
Print Assumptions C19_efr.

Theorem C19_stats : check_module_except (known gen_stats) gen_env gen_stats = true.
Proof. vm_compute. reflexivity. Qed.
Print Assumptions C19_stats.

Theorem C19_weighting : check_module_except (known gen_weighting) gen_env gen_weighting = true.
Proof. vm_compute. reflexivity. Qed.
Print Assumptions C19_weighting.

Theorem C19_plot : check_module_except (known gen_plot) gen_env gen_plot = true.
Proof. vm_compute. reflexivity. Qed.
Print Assumptions C19_plot.

(* hence: in every module of the package, every read outside the recorded ones resolves *)
Theorem C19_package : forall m, In m gen_pkg -> module_ok_except (known m) gen_env m.
Proof.
  exact (all_modules_ok gen_env gen_pkg known
           (conj C19_stim (conj C19_pipeline (conj C19_util (conj C19_queue (conj C19_calibration
           (conj C19_buffer (conj C19_efr (conj C19_stats (conj C19_weighting (conj C19_plot I))))))))))).
Qed.
Print Assumptions C19_package.

(* the recorded defect of util.iir, on a frozen copy of the function's shape as found: `fs` does not resolve,
   with ANY module attribute facts and with the builtins of the installed interpreter *)
Theorem C19_iir_unrepaired_refuted : forall ext,
  ~ module_ok {| e_builtins := gen_builtins; e_mods := ext |} iir_unrepaired.
Proof. exact iir_unrepaired_refuted. Qed.
Print Assumptions C19_iir_unrepaired_refuted.

(* ---- STRICT reading (coverage audit; specification at the end of Names/Scope.v): a global only counts when a
   binding of it can take effect on import in the installed environment (imports of modules that are not
   installed, `from m import n` of a missing n, bindings under `if __name__ == '__main__':`, module-level
   `except ... as e` names and deleted names do not count) ------------------------------------------------ *)
Theorem C19_checker_strict_sound : forall allow e m,
  check_module_strict allow e m = true -> module_ok_strict allow e m.
Proof. exact checker_strict_sound. Qed.
Print Assumptions C19_checker_strict_sound.

Theorem C19_checker_strict_complete : forall allow e m,
  module_ok_strict allow e m -> check_module_strict allow e m = true.
Proof. exact checker_strict_complete. Qed.
Print Assumptions C19_checker_strict_complete.

Theorem C19_strict_report_exact : forall allow e m u t l,
  In (u, t, l) (unresolved_strict allow e m) <->
  exists st it, occurs m st it /\ ~ excepted allow st it /\ ~ item_ok_strict e m st it /\
                u = unit_of st /\ t = item_text it /\ l = item_line it.
Proof. exact unresolved_strict_spec. Qed.
Print Assumptions C19_strict_report_exact.

(* the ten regenerated modules under the strict reading *)
Theorem C19_package_strict_checked : all_checked_strict gen_env_strict known gen_pkg = true.
Proof. vm_compute. reflexivity. Qed.
Print Assumptions C19_package_strict_checked.

Theorem C19_package_strict : forall m, In m gen_pkg -> module_ok_strict (known m) gen_env_strict m.
Proof. exact (all_modules_ok_strict gen_env_strict gen_pkg known C19_package_strict_checked). Qed.
Print Assumptions C19_package_strict.

(* the hypotheses are satisfiable: a two-scope module that is ok, and the checker says so *)
Example C19_example_ok :
  module_ok {| e_builtins := ["len"]; e_mods := [("numpy", [("fft", Some "numpy.fft")]); ("numpy.fft", [("rfft", None)])] |}
            {| m_name := "ex"; m_items := [Bind "np" (BImport "numpy") 1; Bind "f" BPlain 2;
                                           Sub KFunction "f" [Bind "x" BPlain 2; Use "len" 3; Use "x" 3;
                                                              AttrUse "np" ["fft"; "rfft"; "real"] 3]] |}.
Proof. apply checker_sound. vm_compute. reflexivity. Qed.
