(* C13 - Edge detection reports every clean transition once, at its exact sample.
   Property theorems only; every proof is `exact <lemma of Edges/Proofs*.v>`.
   Model: Edges/Model.v (pipeline.edges, Events, combine_events) on top of Runs/Model.v (C18). *)
From PV Require Import Runs.Model Runs.Spec Edges.Model Edges.Spec Edges.ProofsBasic Edges.ProofsMain.

(* One block per chunk; block k spans [first - m + n_1 + .. + n_(k-1), .. + n_k): the blocks tile the
   timeline from first - m on, without gap or overlap.  Holds for every input (also when the run stops
   on an error: the blocks emitted so far are a prefix of the tiling). *)
Theorem C13_blocks_tile : forall d m init fs cs bs s, run_edges d m init fs cs = (bs, s) ->
  map span bs = firstn (length bs) (spans (first_index cs - m) (map clen cs)) /\
  (length bs <= length cs)%nat /\ (s = Ok -> length bs = length cs).
Proof. exact blocks_tile. Qed.
Print Assumptions C13_blocks_tile.

(* the same as a chain: start_0 = first - m, start_k <= end_k = start_(k+1) *)
Theorem C13_blocks_chain : forall d m init fs cs bs s, run_edges d m init fs cs = (bs, s) ->
  chain (first_index cs - m) bs.
Proof. exact blocks_chain. Qed.
Print Assumptions C13_blocks_chain.

(* A range query is refused exactly when it leaves the block's span; otherwise it returns, in order and
   with multiplicity, exactly the block's events whose sample lies in [a, b), as a block spanning [a, b). *)
Theorem C13_range_query : forall E a b,
  match get_range_samples E a b with
  | Some R => e_start E <= a /\ b <= e_end E /\
              e_start R = a /\ e_end R = b /\ e_fs R = e_fs E /\
              evs R = filter (in_range a b) (evs E) /\
              (forall e, In e (evs R) <-> In e (evs E) /\ a <= snd e < b) /\
              (forall e, count_occ ev_dec (evs R) e =
                         if in_range a b e then count_occ ev_dec (evs E) e else 0%nat)
  | None => a < e_start E \/ e_end E < b
  end.
Proof. exact range_query. Qed.
Print Assumptions C13_range_query.

Theorem C13_latest_is_range : forall E lb ub,
  get_latest_samples E lb ub = get_range_samples E (e_end E + lb) (e_end E + ub).
Proof. exact latest_is_range. Qed.
Print Assumptions C13_latest_is_range.

(* Merging succeeds exactly on a non-empty list of adjacent blocks with one rate ... *)
Theorem C13_combine : forall l,
  (l <> [] /\ adjacent l /\ same_fs l) <-> exists E, combine_events l = COk E.
Proof. exact combine_ok. Qed.
Print Assumptions C13_combine.

(* ... and is list append: every event occurs in the result as often as in all blocks together
   (nothing lost, nothing duplicated), in block order, over the span first start .. last end *)
Theorem C13_combine_result : forall l E, combine_events l = COk E ->
  evs E = concat (map evs l) /\
  (forall e, count_occ ev_dec (evs E) e = sum_counts e l) /\
  (forall e, In e (evs E) <-> exists B, In B l /\ In e (evs B)) /\
  e_start E = e_start (hd E l) /\ e_end E = e_end (last l E) /\ e_fs E = e_fs (hd E l).
Proof. exact combine_result. Qed.
Print Assumptions C13_combine_result.

(* the blocks edges emits can always be merged *)
Theorem C13_edges_blocks_combine : forall d m init fs cs bs s, run_edges d m init fs cs = (bs, s) ->
  bs <> [] -> exists E, combine_events bs = COk E /\ evs E = concat (map evs bs).
Proof. exact edges_blocks_combine. Qed.
Print Assumptions C13_edges_blocks_combine.

(* One step, for ANY state with m carried samples whose joined array w = prior ++ chunk meets the
   run-length precondition: it reports, in order, exactly the rising edges of w at positions 1 .. n
   (absolute s0 < r <= s0 + n) and the falling edges at positions m .. m + n - 1
   (absolute s0 + m <= f < s0 + m + n), n = chunk length, filtered by `detect`. *)
Theorem C13_step_characterisation : forall d m st c, 1 <= m -> zlen (st_prior st) = m ->
  joinable st c = true -> wclean m (st_prior st ++ c_data c) ->
  exists E st', step d m st c = Some (E, st') /\
    e_start E = st_s0 st /\ e_end E = st_s0 st + zlen (c_data c) /\ st_s0 st' = e_end E /\
    zlen (st_prior st') = m /\ inc (evs E) /\
    forall k a, In (k, a) (evs E) <->
      wanted d (k, a) = true /\
      exists p, a = p + st_s0 st /\ edge_at (st_prior st ++ c_data c) p k /\
                (k = Rising -> p <= zlen (c_data c)) /\ (k = Falling -> m <= p).
Proof. exact step_characterisation. Qed.
Print Assumptions C13_step_characterisation.

(* THE MAIN THEOREM.  For every debounce length m >= 1, initial state, detect mode, first index, and EVERY
   chunking cs (chunks of any length, empty ones included, plain or annotated) of a stream in which every
   run that has ended is longer than m (`clean`; the initial state counts as a settled run):
   the coroutine never raises, and after ANY number kk of chunks the events reported so far are - as a
   list: once each, in order, with their absolute sample numbers - exactly the transitions of the whole
   stream that are due when the input has reached T = first + (samples in the first kk chunks):
   every falling edge at a sample < T, every rising edge at r with r + m <= T.
   So a transition at t is reported by the chunk that supplies sample t + m - 1 at the latest,
   i.e. no later than m - 1 (< debounce) samples of further input after it occurred. *)
Theorem C13_all_chunkings : forall d m init fs_arg cs first,
  1 <= m -> input_ok first cs -> clean m init (stream cs) = true ->
  exists bs, run_edges d m init fs_arg cs = (bs, Ok) /\
    forall kk : nat,
      concat (map evs (firstn kk bs)) =
      filter (wanted d)
        (filter (due_by m (first + zlen (stream (firstn kk cs)))) (transitions init first (stream cs))).
Proof. exact all_chunkings. Qed.
Print Assumptions C13_all_chunkings.

(* the whole run at once; and every event of a block lies after the block's start and less than m
   samples after its end *)
Theorem C13_all_chunkings_whole : forall d m init fs_arg cs first,
  1 <= m -> input_ok first cs -> clean m init (stream cs) = true ->
  exists bs, run_edges d m init fs_arg cs = (bs, Ok) /\
    concat (map evs bs) =
    filter (wanted d) (filter (due_by m (first + zlen (stream cs))) (transitions init first (stream cs))) /\
    (forall E e, In E bs -> In e (evs E) -> e_start E < snd e < e_end E + m).
Proof. exact all_chunkings_whole. Qed.
Print Assumptions C13_all_chunkings_whole.

(* when the stream has been steady for its last m samples nothing is pending: the events are exactly
   the transitions of the stream *)
Theorem C13_all_transitions_when_settled : forall d m init fs_arg cs first,
  1 <= m -> input_ok first cs -> clean m init (stream cs) = true -> settled m init (stream cs) = true ->
  exists bs, run_edges d m init fs_arg cs = (bs, Ok) /\
    concat (map evs bs) = filter (wanted d) (transitions init first (stream cs)).
Proof. exact all_transitions_when_settled. Qed.
Print Assumptions C13_all_transitions_when_settled.

(* the precondition is needed: on a stream with a 1-sample glitch the events depend on the chunking *)
Theorem C13_unclean_chunking_dependent :
  exists m init x c1 c2,
    clean m init x = false /\ stream c1 = x /\ stream c2 = x /\ input_ok 0 c1 /\ input_ok 0 c2 /\
    concat (map evs (fst (run_edges DBoth m init 1000 c1))) <>
    concat (map evs (fst (run_edges DBoth m init 1000 c2))).
Proof. exact unclean_chunking_dependent. Qed.
Print Assumptions C13_unclean_chunking_dependent.

(* observation (not claimed by the property): a block may hold an event outside its own span *)
Theorem C13_event_outside_block :
  exists m init cs bs E,
    clean m init (stream cs) = true /\ input_ok 0 cs /\
    run_edges DBoth m init 1000 cs = (bs, Ok) /\ In E bs /\ ~ contained E.
Proof. exact event_outside_block. Qed.
Print Assumptions C13_event_outside_block.

(* a block whose events lie inside its span is returned whole by the query over its span
   (range queries themselves always answer with such a block) *)
Theorem C13_range_whole : forall E, contained E -> get_range_samples E (e_start E) (e_end E) = Some E.
Proof. exact range_whole. Qed.
Print Assumptions C13_range_whole.

(* non-vacuity: a chunked stream meeting all hypotheses of C13_all_chunkings *)
Example C13_ex :
  let cs := [plain [false; true]; plain [true; true; false]; plain []; plain [false; false; true; true]] in
  1 <= 2 /\ input_ok 0 cs /\ clean 2 false (stream cs) = true /\
  concat (map evs (fst (run_edges DBoth 2 false 1000 cs))) = [(Rising, 1); (Falling, 4); (Rising, 7)].
Proof. exact all_chunkings_ex. Qed.
Example C13_ex_annotated :
  let cs := [{| c_ann := Some (7, 1000); c_data := [true; true; true] |};
             {| c_ann := Some (10, 1000); c_data := [false; false; false] |}] in
  input_ok 7 cs /\ clean 2 false (stream cs) = true /\ settled 2 false (stream cs) = true /\
  run_edges DBoth 2 false 0 cs =
  ([{| evs := [(Rising, 7)]; e_start := 5; e_end := 8; e_fs := 1000 |};
    {| evs := [(Falling, 10)]; e_start := 8; e_end := 11; e_fs := 1000 |}], Ok).
Proof.
  cbn zeta. split; [right; exists 1000; cbn; repeat split|]. repeat split; vm_compute; reflexivity.
Qed.
Example C13_ex_step : wclean 2 ([false; false] ++ [true; true; true]) /\
  joinable {| st_prior := [false; false]; st_s0 := -2; st_fs := 1000; st_ann := false |} (plain [true; true; true]) = true.
Proof.
  split; [|reflexivity]. exact (clean_wclean 2 false [true; true; true] ltac:(discriminate) eq_refl).
Qed.
