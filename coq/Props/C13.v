(* C13 - Edge detection reports every clean transition once, at its exact sample.
   Property theorems only; every proof is `exact <lemma of Edges/Proofs*.v>`.
   Model: Edges/Model.v (pipeline.edges, Events, combine_events) on top of Runs/Model.v (C18). *)
From PV Require Import Runs.Model Runs.Spec Edges.Model Edges.Spec Edges.ProofsBasic Edges.ProofsMain.

(* One block per chunk; block k spans [first - m + n_1 + .. + n_(k-1), .. + n_k): the blocks tile the
   timeline from first - m on, without gap or overlap.  Holds for every input (also when the run stops
   on an error: the blocks emitted so far are a prefix of the tiling). *)
Theorem C13_blocks_tile : forall d m init fs cs bs s, run_edges d m init fs cs = (bs, s) ->
  map span bs = firstn (length bs) (spans (first_index cs - m) (map clen cs)) /\
  (length bs <= length cs)%nat /\ (s = Ok -> length bs = length cs).
Proof. exact blocks_tile. Qed.
Print Assumptions C13_blocks_tile.

(* the same as a chain: start_0 = first - m, start_k <= end_k = start_(k+1) *)
Theorem C13_blocks_chain : forall d m init fs cs bs s, run_edges d m init fs cs = (bs, s) ->
  chain (first_index cs - m) bs.
Proof. exact blocks_chain. Qed.
Print Assumptions C13_blocks_chain.

(* A range query is refused exactly when it leaves the block's span; otherwise it returns, in order and
   with multiplicity, exactly the block's events whose sample lies in [a, b), as a block spanning [a, b). *)
Theorem C13_range_query : forall E a b,
  match get_range_samples E a b with
  | Some R => e_start E <= a /\ b <= e_end E /\
              e_start R = a /\ e_end R = b /\ e_fs R = e_fs E /\
              evs R = filter (in_range a b) (evs E) /\
              (forall e, In e (evs R) <-> In e (evs E) /\ a <= snd e < b) /\
              (forall e, count_occ ev_dec (evs R) e =
                         if in_range a b e then count_occ ev_dec (evs E) e else 0%nat)
  | None => a < e_start E \/ e_end E < b
  end.
Proof. exact range_query. Qed.
Print Assumptions C13_range_query.

Theorem C13_latest_is_range : forall E lb ub,
  get_latest_samples E lb ub = get_range_samples E (e_end E + lb) (e_end E + ub).
Proof. exact latest_is_range. Qed.
Print Assumptions C13_latest_is_range.

(* Merging succeeds exactly on a non-empty list of adjacent blocks with one rate ... *)
Theorem C13_combine : forall l,
  (l <> [] /\ adjacent l /\ same_fs l) <-> exists E, combine_events l = COk E.
Proof. exact combine_ok. Qed.
Print Assumptions C13_combine.

(* ... and is list append: every event occurs in the result as often as in all blocks together
   (nothing lost, nothing duplicated), in block order, over the span first start .. last end *)
Theorem C13_combine_result : forall l E, combine_events l = COk E ->
  evs E = concat (map evs l) /\
  (forall e, count_occ ev_dec (evs E) e = sum_counts e l) /\
  (forall e, In e (evs E) <-> exists B, In B l /\ In e (evs B)) /\
  e_start E = e_start (hd E l) /\ e_end E = e_end (last l E) /\ e_fs E = e_fs (hd E l).
Proof. exact combine_result. Qed.
Print Assumptions C13_combine_result.

(* the blocks edges emits can always be merged *)
Theorem C13_edges_blocks_combine : forall d m init fs cs bs s, run_edges d m init fs cs = (bs, s) ->
  bs <> [] -> exists E, combine_events bs = COk E /\ evs E = concat (map evs bs).
Proof. exact edges_blocks_combine. Qed.
Print Assumptions C13_edges_blocks_combine.

(* One step, for ANY state with m carried samples whose joined array w = prior ++ chunk meets the
   run-length precondition: it reports, in order, exactly the rising edges of w at positions 1 .. n
   (absolute s0 < r <= s0 + n) and the falling edges at positions m .. m + n - 1
   (absolute s0 + m <= f < s0 + m + n), n = chunk length, filtered by `detect`. *)
Theorem C13_step_characterisation : forall d m st c, 1 <= m -> zlen (st_prior st) = m ->
  joinable st c = true -> wclean m (st_prior st ++ c_data c) ->
  exists E st', step d m st c = Some (E, st') /\
    e_start E = st_s0 st /\ e_end E = st_s0 st + zlen (c_data c) /\ st_s0 st' = e_end E /\
    zlen (st_prior st') = m /\ inc (evs E) /\
    forall k a, In (k, a) (evs E) <->
      wanted d (k, a) = true /\
      exists p, a = p + st_s0 st /\ edge_at (st_prior st ++ c_data c) p k /\
                (k = Rising -> p <= zlen (c_data c)) /\ (k = Falling -> m <= p).
Proof. exact step_characterisation. Qed.
Print Assumptions C13_step_characterisation.

(* THE MAIN THEOREM.  For every debounce length m >= 1, initial state, detect mode, first index, and EVERY
   chunking cs (chunks of any length, empty ones included, plain or annotated) of a stream in which every
   run that has ended is longer than m (`clean`; the initial state counts as a settled run):
   the coroutine never raises, and after ANY number kk of chunks the events reported so far are - as a
   list: once each, in order, with their absolute sample numbers - exactly the transitions of the whole
   stream that are due when the input has reached T = first + (samples in the first kk chunks):
   every falling edge at a sample < T, every rising edge at r with r + m <= T.
   So a transition at t is reported by the chunk that supplies sample t + m - 1 at the latest,
   i.e. no later than m - 1 (< debounce) samples of further input after it occurred. *)
Theorem C13_all_chunkings : forall d m init fs_arg cs first,
  1 <= m -> input_ok first cs -> clean m init (stream cs) = true ->
  exists bs, run_edges d m init fs_arg cs = (bs, Ok) /\
    forall kk : nat,
      concat (map evs (firstn kk bs)) =
      filter (wanted d)
        (filter (due_by m (first + zlen (stream (firstn kk cs)))) (transitions init first (stream cs))).
Proof. exact all_chunkings. Qed.
Print Assumptions C13_all_chunkings.

(* the whole run at once; and every event of a block lies after the block's start and less than m
   samples after its end *)
Theorem C13_all_chunkings_whole : forall d m init fs_arg cs first,
  1 <= m -> input_ok first cs -> clean m init (stream cs) = true ->
  exists bs, run_edges d m init fs_arg cs = (bs, Ok) /\
    concat (map evs bs) =
    filter (wanted d) (filter (due_by m (first + zlen (stream cs))) (transitions init first (stream cs))) /\
    (forall E e, In E bs -> In e (evs E) -> e_start E < snd e < e_end E + m).
Proof. exact all_chunkings_whole. Qed.
Print Assumptions C13_all_chunkings_whole.

(* when the stream has been steady for its last m samples nothing is pending: the events are exactly
   the transitions of the stream *)
Theorem C13_all_transitions_when_settled : forall d m init fs_arg cs first,
  1 <= m -> input_ok first cs -> clean m init (stream cs) = true -> settled m init (stream cs) = true ->
  exists bs, run_edges d m init fs_arg cs = (bs, Ok) /\
    concat (map evs bs) = filter (wanted d) (transitions init first (stream cs)).
Proof. exact all_transitions_when_settled. Qed.
Print Assumptions C13_all_transitions_when_settled.

(* the precondition is needed: on a stream with a 1-sample glitch the events depend on the chunking *)
Theorem C13_unclean_chunking_dependent :
  exists m init x c1 c2,
    clean m init x = false /\ stream c1 = x /\ stream c2 = x /\ input_ok 0 c1 /\ input_ok 0 c2 /\
    concat (map evs (fst (run_edges DBoth m init 1000 c1))) <>
    concat (map evs (fst (run_edges DBoth m init 1000 c2))).
Proof. exact unclean_chunking_dependent. Qed.
Print Assumptions C13_unclean_chunking_dependent.

(* observation (not claimed by the property): a block may hold an event outside its own span *)
Theorem C13_event_outside_block :
  exists m init cs bs E,
    clean m init (stream cs) = true /\ input_ok 0 cs /\
    run_edges DBoth m init 1000 cs = (bs, Ok) /\ In E bs /\ ~ contained E.
Proof. exact event_outside_block. Qed.
Print Assumptions C13_event_outside_block.

(* a block whose events lie inside its span is returned whole by the query over its span
   (range queries themselves always answer with such a block) *)
Theorem C13_range_whole : forall E, contained E -> get_range_samples E (e_start E) (e_end E) = Some E.
Proof. exact range_whole. Qed.
Print Assumptions C13_range_whole.

(* non-vacuity: a chunked stream meeting all hypotheses of C13_all_chunkings *)
Example C13_ex :
  let cs := [plain [false; true]; plain [true; true; false]; plain []; plain [false; false; true; true]] in
  1 <= 2 /\ input_ok 0 cs /\ clean 2 false (stream cs) = true /\
  concat (map evs (fst (run_edges DBoth 2 false 1000 cs))) = [(Rising, 1); (Falling, 4); (Rising, 7)].
Proof. exact all_chunkings_ex. Qed.
Example C13_ex_annotated :
  let cs := [{| c_ann := Some (7, 1000); c_data := [true; true; true] |};
             {| c_ann := Some (10, 1000); c_data := [false; false; false] |}] in
  input_ok 7 cs /\ clean 2 false (stream cs) = true /\ settled 2 false (stream cs) = true /\
  run_edges DBoth 2 false 0 cs =
  ([{| evs := [(Rising, 7)]; e_start := 5; e_end := 8; e_fs := 1000 |};
    {| evs := [(Falling, 10)]; e_start := 8; e_end := 11; e_fs := 1000 |}], Ok).
Proof.
  cbn zeta. split; [right; exists 1000; cbn; repeat split|]. repeat split; vm_compute; reflexivity.
Qed.
Example C13_ex_step : wclean 2 ([false; false] ++ [true; true; true]) /\
  joinable {| st_prior := [false; false]; st_s0 := -2; st_fs := 1000; st_ann := false |} (plain [true; true; true]) = true.
Proof.
  split; [|reflexivity]. exact (clean_wclean 2 false [true; true; true] ltac:(discriminate) eq_refl).
Qed.

From PV Require Import Edges.SpecX Edges.ProofsX.

(* ==================================================================================================
   Extension: WHERE the events of an emitted block lie (Edges/SpecX.v, Edges/ProofsX.v).
   The span of a block is delayed by m against the input, while a falling edge is reported as soon as its
   sample arrives and a rising edge once m high samples have arrived; so a block can hold events AT OR
   AFTER its own end (observed on the real code), never at or before its start. *)

(* For EVERY input - no run-length precondition, any chunk list (plain / annotated, empty chunks, also a run
   that stops on an error), every initial state, detect mode and first index - and every emitted block:
   a rising event lies in (start, end], a falling event in [start + m, end + m).  In particular no event
   lies at or before its block's start and none m or more samples past its end.  (Blocks are only
   emitted for m >= 1.)  All four bounds are attained: C13_event_window_sharp. *)
Theorem C13_events_not_before_block : forall d m init fs cs bs s, run_edges d m init fs cs = (bs, s) ->
  forall E e, In E bs -> In e (evs E) ->
    1 <= m /\
    match fst e with
    | Rising => e_start E < snd e <= e_end E
    | Falling => e_start E + m <= snd e < e_end E + m
    end /\
    e_start E < snd e < e_end E + m.
Proof. exact events_not_before_block. Qed.
Print Assumptions C13_events_not_before_block.

Theorem C13_event_window_sharp :
  exists m init cs bs,
    clean m init (stream cs) = true /\ input_ok 0 cs /\ run_edges DBoth m init 1000 cs = (bs, Ok) /\
    (exists E, In E bs /\ In (Rising, e_start E + 1) (evs E)) /\
    (exists E, In E bs /\ In (Rising, e_end E) (evs E)) /\
    (exists E, In E bs /\ In (Falling, e_start E + m) (evs E)) /\
    (exists E, In E bs /\ In (Falling, e_end E + m - 1) (evs E)).
Proof. exact event_window_sharp. Qed.
Print Assumptions C13_event_window_sharp.

(* The natural claim "every event lies inside its block's [start, end)" is false, for a rising and for a
   falling event, on a stream meeting the run-length precondition (x = 0^5 1^4 0^4 1^5 0^6, m = 3, initial
   state low; replayed on the real code): chunk sizes (8, 16): block [-3, 5) holds (rising, 5) = its end;
   chunk sizes (10, 14): block [-3, 7) holds (falling, 9) = its end + m - 1. *)
Theorem C13_events_in_span_refuted :
  exists m init x cs1 cs2 bs1 bs2 E1 E2,
    clean m init x = true /\ stream cs1 = x /\ stream cs2 = x /\ input_ok 0 cs1 /\ input_ok 0 cs2 /\
    run_edges DBoth m init 1000 cs1 = (bs1, Ok) /\ In E1 bs1 /\ In (Rising, e_end E1) (evs E1) /\
    run_edges DBoth m init 1000 cs2 = (bs2, Ok) /\ In E2 bs2 /\ In (Falling, e_end E2 + m - 1) (evs E2) /\
    ~ contained E1 /\ ~ contained E2.
Proof. exact events_in_span_refuted. Qed.
Print Assumptions C13_events_in_span_refuted.

(* An event of block E that is not below E's end (`ahead`) is less than m samples past it - a rising one
   exactly AT the end - and therefore lies inside the span of one of the blocks emitted AFTER E as soon as
   these reach past it, at the latest once they cover m more samples.  Every input. *)
Theorem C13_ahead_events_are_next_block : forall d m init fs cs pre E post s k a,
  run_edges d m init fs cs = (pre ++ E :: post, s) -> In (k, a) (evs E) -> ahead E (k, a) ->
  a < e_end E + m /\ (k = Rising -> a = e_end E) /\
  (a < e_end (last post E) -> exists E', In E' post /\ e_start E' <= a < e_end E') /\
  (e_end E + m <= e_end (last post E) -> exists E', In E' post /\ e_start E' <= a < e_end E').
Proof. exact ahead_events_next_block. Qed.
Print Assumptions C13_ahead_events_are_next_block.

(* In the merge (combine_events) of ANY run of consecutive emitted blocks the events obey the window of the
   merged block ... *)
Theorem C13_merged_segment_in_span : forall d m init fs cs pre seg post s M,
  run_edges d m init fs cs = (pre ++ seg ++ post, s) -> combine_events seg = COk M ->
  first_index cs - m <= e_start M /\
  forall e, In e (evs M) ->
    match fst e with
    | Rising => e_start M < snd e <= e_end M
    | Falling => e_start M + m <= snd e < e_end M + m
    end /\ e_start M < snd e < e_end M + m.
Proof. exact merged_segment_in_span. Qed.
Print Assumptions C13_merged_segment_in_span.

(* ... in particular in the merge of the first kk blocks, which spans [first - m, end of block kk):
   every event lies after the first start and less than m samples past the last end *)
Theorem C13_merged_prefix_in_span : forall d m init fs cs bs s kk M,
  run_edges d m init fs cs = (bs, s) -> combine_events (firstn kk bs) = COk M ->
  e_start M = first_index cs - m /\ e_end M = e_end (last (firstn kk bs) M) /\
  forall e, In e (evs M) ->
    match fst e with
    | Rising => e_start M < snd e <= e_end M
    | Falling => e_start M + m <= snd e < e_end M + m
    end /\ e_start M < snd e < e_end M + m.
Proof. exact merged_prefix_in_span. Qed.
Print Assumptions C13_merged_prefix_in_span.

(* "The query over a block's span returns the block" (C13_range_whole needs `contained`) is FALSE for
   emitted blocks: here the block holds one event and the query over its span returns none ... *)
Theorem C13_range_query_whole_span_refuted :
  exists m init cs bs E R,
    clean m init (stream cs) = true /\ input_ok 0 cs /\ run_edges DBoth m init 1000 cs = (bs, Ok) /\
    In E bs /\ get_range_samples E (e_start E) (e_end E) = Some R /\ R <> E /\
    evs E = [(Rising, 5)] /\ evs R = [].
Proof. exact range_whole_span_refuted. Qed.
Print Assumptions C13_range_query_whole_span_refuted.

(* ... what holds, for every input: the query over the span of an emitted block is accepted and answers
   with exactly the block's events below its end, in order; the events at or after the end are omitted;
   the block comes back whole exactly when it has none of those *)
Theorem C13_range_query_whole_span_partial : forall d m init fs cs bs s E,
  run_edges d m init fs cs = (bs, s) -> In E bs ->
  exists R, get_range_samples E (e_start E) (e_end E) = Some R /\
    e_start R = e_start E /\ e_end R = e_end E /\ e_fs R = e_fs E /\
    evs R = filter (below_end E) (evs E) /\
    (forall e, In e (evs R) <-> In e (evs E) /\ snd e < e_end E) /\
    (forall e, In e (evs E) -> ahead E e -> ~ In e (evs R)) /\
    (R = E <-> forall e, In e (evs E) -> snd e < e_end E).
Proof. exact range_whole_span_partial. Qed.
Print Assumptions C13_range_query_whole_span_partial.

(* The merge of ALL blocks: when every transition of the stream is followed by MORE than m samples of
   input (`confirmed`: m + 1 counting the edge sample), the merged block spans
   [first - m, first - m + length), holds exactly the wanted transitions, all inside its span, and the
   whole-span query returns it unchanged (corollary of C13_all_transitions_when_settled) ... *)
Theorem C13_merged_all_whole_span : forall d m init fs_arg cs first,
  1 <= m -> cs <> [] -> input_ok first cs ->
  clean m init (stream cs) = true -> confirmed m init (stream cs) = true ->
  exists bs M, run_edges d m init fs_arg cs = (bs, Ok) /\ combine_events bs = COk M /\
    evs M = filter (wanted d) (transitions init first (stream cs)) /\
    e_start M = first - m /\ e_end M = first - m + zlen (stream cs) /\
    contained M /\ get_range_samples M (e_start M) (e_end M) = Some M.
Proof. exact merged_all_whole_span. Qed.
Print Assumptions C13_merged_all_whole_span.

(* ... while `settled` (at least m samples from every edge on: everything has been reported) is not enough:
   0 0 1 1 1 with m = 3 is reported completely, but the event (rising, 2) sits exactly at the end of the
   merged span [-3, 2) and the whole-span query on the merge of all blocks omits it (replayed on the real
   code, also for a falling edge) *)
Theorem C13_merged_all_settled_refuted :
  exists m init cs bs M R,
    1 <= m /\ input_ok 0 cs /\ clean m init (stream cs) = true /\ settled m init (stream cs) = true /\
    run_edges DBoth m init 1000 cs = (bs, Ok) /\ combine_events bs = COk M /\
    evs M = transitions init 0 (stream cs) /\
    get_range_samples M (e_start M) (e_end M) = Some R /\ R <> M /\
    evs M = [(Rising, e_end M)] /\ evs R = [].
Proof. exact merged_all_settled_refuted. Qed.
Print Assumptions C13_merged_all_settled_refuted.

(* non-vacuity of the hypotheses of the implications above *)
Example C13_ex_ahead :
  let E := {| evs := [(Rising, 5)]; e_start := -3; e_end := 5; e_fs := 1000 |} in
  let E2 := {| evs := [(Falling, 9); (Rising, 13); (Falling, 18)]; e_start := 5; e_end := 21; e_fs := 1000 |} in
  run_edges DBoth 3 false 1000 [plain (firstn 8 x_wit); plain (skipn 8 x_wit)] = ([] ++ E :: [E2], Ok) /\
  In (Rising, 5) (evs E) /\ ahead E (Rising, 5) /\ e_end E + 3 <= e_end (last [E2] E).
Proof. exact ahead_ex. Qed.
Example C13_ex_merged_prefix :
  let cs := [plain (firstn 10 x_wit); plain (skipn 10 x_wit)] in
  exists M, combine_events (firstn 1 (fst (run_edges DBoth 3 false 1000 cs))) = COk M /\
            e_end M = 7 /\ In (Falling, 9) (evs M).
Proof. exact merged_prefix_ex. Qed.
Example C13_ex_merged_all :
  let cs := [plain [false; true]; plain [true; true; false]; plain []; plain [false; false]] in
  1 <= 2 /\ cs <> [] /\ input_ok 0 cs /\ clean 2 false (stream cs) = true /\
  confirmed 2 false (stream cs) = true.
Proof. exact merged_all_ex. Qed.

(* ==================================================================================================
   Extension 2: the sampling rate is an opaque label (Edges/ProofsX2.v).  The model only compares rates for
   equality, so the label the harness uses for "no rate" (plain input with fs='auto' / None: Events.fs None)
   is as good as any number. *)
From PV Require Import Edges.ProofsX2.

(* renaming all rates (fs argument and chunk annotations) by an injective map renames the fs field of the
   emitted blocks and changes nothing else - events, spans, number of blocks, error status *)
Theorem C13_rate_relabel : forall g, injective g -> forall d m init fs cs,
  run_edges d m init (g fs) (map (relabel g) cs) =
  (map (set_fs g) (fst (run_edges d m init fs cs)), snd (run_edges d m init fs cs)).
Proof. exact rate_relabel. Qed.
Print Assumptions C13_rate_relabel.

(* events / spans (`shape` = a block without its rate) and the status do not depend on the rates at all:
   any injective renaming of the annotations and ANY two fs arguments give the same blocks up to the fs field *)
Theorem C13_rate_irrelevant : forall g, injective g -> forall d m init fs1 fs2 cs,
  map shape (fst (run_edges d m init fs2 (map (relabel g) cs))) = map shape (fst (run_edges d m init fs1 cs)) /\
  snd (run_edges d m init fs2 (map (relabel g) cs)) = snd (run_edges d m init fs1 cs).
Proof. exact rate_irrelevant. Qed.
Print Assumptions C13_rate_irrelevant.

(* injectivity is needed (for the status only): identifying two different rates makes a mixed-rate input acceptable *)
Theorem C13_rate_relabel_noninjective_refuted :
  exists g cs, ~ injective g /\
    snd (run_edges DBoth 1 false 0 (map (relabel g) cs)) <> snd (run_edges DBoth 1 false 0 cs).
Proof. exact rate_relabel_noninjective_refuted. Qed.
Print Assumptions C13_rate_relabel_noninjective_refuted.

Example C13_ex_injective : forall f1 f2, injective (fun x => x + (f2 - f1)) /\ (fun x => x + (f2 - f1)) f1 = f2.
Proof. exact injective_ex. Qed.

(* ==================================================================================================
   Extension 3: TRANSLATOR TIE (Edges/TiePrims.v, gen/EdgesGen.v, Edges/ProofsTie.v).
   gen/EdgesGen.v is regenerated from psiaudio/pipeline.py on every run by translate/pyedges2coq.py: the coroutine
   `edges` as gen_edges_setup (before the first receive) / gen_edges_start (first chunk) / gen_edges_step (one send),
   and Events.get_range_samples / get_latest_samples; util.epochs / util.debounce_epochs inside the step are the
   generated definitions of gen/RunsGen.v (C18).  The generated definitions EQUAL the model the theorems above are about. *)
From PV Require Import Edges.TiePrims gen.EdgesGen Edges.ProofsTie.

(* edges(min_samples, ..) raises exactly for min_samples < 1; the first chunk sets the state up as the model's `start`
   (`rep`: a model state read as the locals prior_samples, s0, fs of the suspended coroutine) *)
Theorem C13_source_start : forall m init fs c,
  gen_edges_setup m = (if m <? 1 then None else Some tt) /\ gen_edges_start m init fs c = rep (start m init fs c).
Proof. exact (fun m init fs c => conj (setup_tie m) (start_tie m init fs c)). Qed.
Print Assumptions C13_source_start.

(* generated step = model step: every chunk, every state in which annotated carried samples are exactly m >= 1 long
   (wf_tie), every fuel above the length of the joined array (fuel: the while loops of util.smooth_epochs) *)
Theorem C13_source_step : forall fuel d m st c, wf_tie m st -> (length (st_prior st ++ c_data c) < fuel)%nat ->
  gen_edges_step fuel m d (rep st) c = option_map (fun r => (fst r, rep (snd r))) (step d m st c).
Proof. exact step_tie. Qed.
Print Assumptions C13_source_step.

(* every reachable state satisfies the invariant: the first chunk establishes it (m >= 1), a step keeps it *)
Theorem C13_source_invariant : forall d m init fs c st c' E st',
  (1 <= m -> wf_full m (start m init fs c)) /\
  (wf_full m st -> step d m st c' = Some (E, st') -> wf_full m st') /\
  (wf_full m st -> wf_tie m st).
Proof.
  exact (fun d m init fs c st c' E st' =>
           conj (wf_start m init fs c) (conj (wf_step d m st c' E st') (wf_full_tie m st))).
Qed.
Print Assumptions C13_source_invariant.

(* both hypotheses are needed: an annotated state carrying fewer than m samples (the s0 PipelineData.__getitem__ gives
   samples[..., -m:] is then not s0 + n); fuel not above the number of runs *)
Theorem C13_source_step_refuted : exists fuel d m st c,
  (length (st_prior st ++ c_data c) < fuel)%nat /\ ~ wf_tie m st /\
  gen_edges_step fuel m d (rep st) c <> option_map (fun r => (fst r, rep (snd r))) (step d m st c).
Proof. exact step_tie_refuted. Qed.
Print Assumptions C13_source_step_refuted.

Theorem C13_source_step_fuel_refuted : exists fuel d m st c,
  wf_full m st /\ (length (st_prior st ++ c_data c) <= fuel + 1)%nat /\
  gen_edges_step fuel m d (rep st) c <> option_map (fun r => (fst r, rep (snd r))) (step d m st c).
Proof. exact step_tie_fuel_refuted. Qed.
Print Assumptions C13_source_step_fuel_refuted.

(* the whole coroutine - created, then sent any chunks whatsoever (source_run_edges: set-up, first chunk, one generated
   step per send, an exception ends it) - hands its target exactly what the model says, errors included *)
Theorem C13_source_run : forall fuel d m init fs_arg cs, (Z.to_nat m + length (stream cs) < fuel)%nat ->
  source_run_edges fuel d m init fs_arg cs = run_edges d m init fs_arg cs.
Proof. exact run_edges_tie. Qed.
Print Assumptions C13_source_run.

(* C13_blocks_tile, C13_all_chunkings, C13_step_characterisation over the GENERATED coroutine *)
Theorem C13_source_blocks_tile : forall fuel d m init fs cs bs s, enough fuel m cs ->
  source_run_edges fuel d m init fs cs = (bs, s) ->
  map span bs = firstn (length bs) (spans (first_index cs - m) (map clen cs)) /\
  (length bs <= length cs)%nat /\ (s = Ok -> length bs = length cs).
Proof. exact source_blocks_tile. Qed.
Print Assumptions C13_source_blocks_tile.

Theorem C13_source_all_chunkings : forall fuel d m init fs_arg cs first, enough fuel m cs ->
  1 <= m -> input_ok first cs -> clean m init (stream cs) = true ->
  exists bs, source_run_edges fuel d m init fs_arg cs = (bs, Ok) /\
    forall kk : nat,
      concat (map evs (firstn kk bs)) =
      filter (wanted d)
        (filter (due_by m (first + zlen (stream (firstn kk cs)))) (transitions init first (stream cs))).
Proof. exact source_all_chunkings. Qed.
Print Assumptions C13_source_all_chunkings.

(* chunk-invariance stated directly: two chunkings of one clean stream end with the same events *)
Theorem C13_source_chunking_independent : forall fuel d m init fs_arg cs1 cs2 first,
  enough fuel m cs1 -> enough fuel m cs2 -> 1 <= m -> input_ok first cs1 -> input_ok first cs2 ->
  stream cs1 = stream cs2 -> clean m init (stream cs1) = true ->
  exists bs1 bs2, source_run_edges fuel d m init fs_arg cs1 = (bs1, Ok) /\
                  source_run_edges fuel d m init fs_arg cs2 = (bs2, Ok) /\
                  concat (map evs bs1) = concat (map evs bs2).
Proof. exact source_chunking_independent. Qed.
Print Assumptions C13_source_chunking_independent.

Theorem C13_source_step_characterisation : forall fuel d m st c, 1 <= m -> zlen (st_prior st) = m ->
  (length (st_prior st ++ c_data c) < fuel)%nat ->
  joinable st c = true -> wclean m (st_prior st ++ c_data c) ->
  exists E st', gen_edges_step fuel m d (rep st) c = Some (E, rep st') /\
    e_start E = st_s0 st /\ e_end E = st_s0 st + zlen (c_data c) /\ st_s0 st' = e_end E /\
    zlen (st_prior st') = m /\ inc (evs E) /\
    forall k a, In (k, a) (evs E) <->
      wanted d (k, a) = true /\
      exists p, a = p + st_s0 st /\ edge_at (st_prior st ++ c_data c) p k /\
                (k = Rising -> p <= zlen (c_data c)) /\ (k = Falling -> m <= p).
Proof. exact source_step_characterisation. Qed.
Print Assumptions C13_source_step_characterisation.

(* Events.get_range_samples / get_latest_samples as regenerated = the model, for every block and all bounds;
   C13_range_query over the generated definition *)
Theorem C13_source_range : forall E a b lb ub,
  gen_get_range_samples E a b = get_range_samples E a b /\
  gen_get_latest_samples E lb ub = get_latest_samples E lb ub /\ gen_get_latest_samples_default_ub = 0.
Proof. exact (fun E a b lb ub => conj (range_tie E a b) (conj (latest_tie E lb ub) eq_refl)). Qed.
Print Assumptions C13_source_range.

Theorem C13_source_range_query : forall E a b,
  match gen_get_range_samples E a b with
  | Some R => e_start E <= a /\ b <= e_end E /\ e_start R = a /\ e_end R = b /\ e_fs R = e_fs E /\
              evs R = filter (in_range a b) (evs E)
  | None => a < e_start E \/ e_end E < b
  end.
Proof. exact source_range_query. Qed.
Print Assumptions C13_source_range_query.

(* non-vacuity: states satisfying the invariants; a run of the generated coroutine meeting all hypotheses *)
Example C13_ex_source_wf :
  wf_full 2 (start 2 false 1000 {| c_ann := Some (7, 1000); c_data := [true; true; true] |}) /\
  wf_tie 2 (start 2 false 1000 {| c_ann := Some (7, 1000); c_data := [true; true; true] |}).
Proof. exact tie_ex_wf. Qed.
Example C13_ex_source_run :
  let cs := [plain [false; true]; plain [true; true; false]; plain []; plain [false; false; true; true]] in
  enough 12 2 cs /\ input_ok 0 cs /\ clean 2 false (stream cs) = true /\
  concat (map evs (fst (source_run_edges 12 DBoth 2 false 1000 cs))) = [(Rising, 1); (Falling, 4); (Rising, 7)].
Proof. exact tie_ex_run. Qed.

(* ==================================================================================================
   Extension 4: TRANSLATOR TIE for combine_events (Edges/TiePrimsCombine.v, gen/EdgesCombineGen.v,
   Edges/ProofsTieCombine.v).  gen/EdgesCombineGen.v is regenerated from psiaudio/pipeline.py on every run by
   translate/pycombine2coq.py; a function raising different exceptions has type `events + exn` (inl = returns). *)
From PV Require Import Edges.TiePrimsCombine gen.EdgesCombineGen Edges.ProofsTieCombine.

(* generated combine_events = model combine_events, for EVERY list of blocks: the merged block (start of the first
   block, end of the last, rate of the first, the event tables joined in order) or the same exception (IndexError on the
   empty list; "not aligned" / "different sampling rates", whichever the checking loop meets first) *)
Theorem C13_source_combine_tie : forall l, to_combined (gen_combine_events l) = combine_events l.
Proof. exact combine_tie. Qed.
Print Assumptions C13_source_combine_tie.

(* C13_combine over the generated definition; the empty list is exactly the IndexError case *)
Theorem C13_source_combine : forall l,
  ((l <> [] /\ adjacent l /\ same_fs l) <-> exists E, gen_combine_events l = inl E) /\
  (l = [] <-> gen_combine_events l = inr EIndex).
Proof. exact source_combine. Qed.
Print Assumptions C13_source_combine.

(* C13_combine_result over the generated definition *)
Theorem C13_source_combine_result : forall l E, gen_combine_events l = inl E ->
  evs E = concat (map evs l) /\
  (forall e, count_occ ev_dec (evs E) e = sum_counts e l) /\
  (forall e, In e (evs E) <-> exists B, In B l /\ In e (evs B)) /\
  e_start E = e_start (hd E l) /\ e_end E = e_end (last l E) /\ e_fs E = e_fs (hd E l).
Proof. exact source_combine_result. Qed.
Print Assumptions C13_source_combine_result.

(* C13_edges_blocks_combine with BOTH sides regenerated: the blocks the generated coroutine emits are merged by the
   generated combine_events *)
Theorem C13_source_edges_blocks_combine : forall fuel d m init fs cs bs s, enough fuel m cs ->
  source_run_edges fuel d m init fs cs = (bs, s) -> bs <> [] ->
  exists E, gen_combine_events bs = inl E /\ evs E = concat (map evs bs).
Proof. exact source_edges_blocks_combine. Qed.
Print Assumptions C13_source_edges_blocks_combine.

Example C13_ex_source_combine :
  let B1 := {| evs := [(Rising, 3)]; e_start := 0; e_end := 5; e_fs := 1000 |} in
  let B2 := {| evs := [(Falling, 6)]; e_start := 5; e_end := 9; e_fs := 1000 |} in
  ([B1; B2] <> [] /\ adjacent [B1; B2] /\ same_fs [B1; B2]) /\
  gen_combine_events [B1; B2] = inl {| evs := [(Rising, 3); (Falling, 6)]; e_start := 0; e_end := 9; e_fs := 1000 |} /\
  gen_combine_events [] = inr EIndex /\
  gen_combine_events [B2; B1] = inr EAlign /\
  gen_combine_events [B1; {| evs := []; e_start := 5; e_end := 9; e_fs := 25 |}] = inr EFs.
Proof. exact tie_ex_combine. Qed.
