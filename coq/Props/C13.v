(* C13 - provisional (main theorem to be added) *)
From PV Require Import Runs.Model Runs.Spec Edges.Model Edges.Spec Edges.ProofsBasic.

Theorem C13_blocks_tile : forall d m init fs cs bs s, run_edges d m init fs cs = (bs, s) ->
  map span bs = firstn (length bs) (spans (first_index cs - m) (map clen cs)) /\
  (length bs <= length cs)%nat /\ (s = Ok -> length bs = length cs).
Proof. exact blocks_tile. Qed.
Print Assumptions C13_blocks_tile.
