(* C15 - Signal buffer operations are atomic under concurrent use.
   Property theorems only; proofs are `exact <lemma of Conc/*.v>`.

   Model: coq/Conc/Sched.v (interleaving semantics: any number of threads, each a list of operations made
   of atomic statement parts, one re-entrant lock, scheduler picks ANY enabled thread at every step),
   coq/Conc/Lang.v (meaning of the lock-structure table; [well_locked]), and the table itself,
   coq/gen/BufferLockGen.v, REGENERATED from psiaudio/buffer.py by translate/pylocks2coq.py on every run. *)
From Coq Require Import String List.
From PV Require Import Conc.Sched Conc.Serial Conc.Lang Conc.Tie Conc.Current Conc.Refute gen.BufferLockGen.
Import ListNotations.

(* For EVERY lock-structure table that passes [well_locked] (every statement part touching a mutable shared
   field - computed as: any self._x assigned outside __init__ - lies, on every path through every call from an
   operation of the set, inside a `with self._lock` region, and each operation has a single outermost region
   containing all its shared accesses), for EVERY semantics of the statement parts that respects the declared
   field sets, for EVERY number of threads each running ANY list of operations of the set, and for EVERY complete
   schedule (all interleavings at statement-part granularity, any number of pre-emptions):
   the final store and every thread's local state (arguments, temporaries, results returned by each read) are
   those of the SERIAL execution of whole operations in the order [ls] of their outermost lock acquisitions
   (an operation that never takes the lock is placed at its completion). *)
Theorem C15_serializable :
  forall (tbl : list method) (Local Store : Type)
         (sem : action -> Local -> Store -> Local * Store) (branch : action -> Local -> choice),
    well_locked tbl = true ->
    footprint_ok tbl Local Store sem ->
    forall c0 ls c,
      ops_init tbl Local Store c0 ->
      steps action Local Store sem branch c0 ls c ->
      final action Local Store c ->
      exists thS,
        ssteps action Local Store sem branch (serial_of action Local Store c0) ls (store c, thS)
        /\ (forall i, thS i = (loc (thr c i), [])) /\ lock c = None.
Proof. exact serializable_table. Qed.
Print Assumptions C15_serializable.

(* The same for abstract program trees (not tied to a table): discipline => serializable. *)
Theorem C15_serializable_programs :
  forall (Act Local Store : Type) (touches : Act -> bool)
         (sem : Act -> Local -> Store -> Local * Store) (branch : Act -> Local -> choice),
    (forall a, touches a = false -> forall l s, snd (sem a l s) = s) ->
    (forall a, touches a = false -> forall l s s', fst (sem a l s) = fst (sem a l s')) ->
    forall c0 ls c,
      init_ok Act Local Store touches c0 ->
      steps Act Local Store sem branch c0 ls c ->
      final Act Local Store c ->
      exists thS,
        ssteps Act Local Store sem branch (serial_of Act Local Store c0) ls (store c, thS)
        /\ (forall i, thS i = (loc (thr c i), [])) /\ lock c = None.
Proof. exact serializable. Qed.
Print Assumptions C15_serializable_programs.

(* Whenever the lock is free, the shared store is the result of whole operations only (no torn state is
   ever visible to a reader that takes the lock). *)
Theorem C15_store_serial_when_unlocked :
  forall (Act Local Store : Type) (touches : Act -> bool)
         (sem : Act -> Local -> Store -> Local * Store) (branch : Act -> Local -> choice),
    (forall a, touches a = false -> forall l s, snd (sem a l s) = s) ->
    (forall a, touches a = false -> forall l s s', fst (sem a l s) = fst (sem a l s')) ->
    forall c0 ls c,
      init_ok Act Local Store touches c0 ->
      steps Act Local Store sem branch c0 ls c ->
      lock c = None ->
      exists thS, ssteps Act Local Store sem branch (serial_of Act Local Store c0) ls (store c, thS).
Proof. exact quiescent_store_serial. Qed.
Print Assumptions C15_store_serial_when_unlocked.

(* The table regenerated from the source under test passes. *)
Theorem C15_current_source : well_locked generated_methods = true.
Proof. exact current_source_well_locked. Qed.
Print Assumptions C15_current_source.

(* The discipline is needed, and the semantics does exhibit torn reads: a writer that updates the store twice
   under no lock ([disc] = false) and a correctly locked reader have a complete schedule whose outcome NO serial
   execution (in any order) produces. *)
Theorem C15_discipline_needed :
  disc Torn.Act Torn.touches MB Torn.W = false /\ disc Torn.Act Torn.touches MB Torn.R = true /\
  exists ls c,
    steps Torn.Act Torn.Local Torn.Store Torn.sem Torn.branch Torn.c0 ls c /\
    final Torn.Act Torn.Local Torn.Store c /\
    ~ exists ls' thS,
        ssteps Torn.Act Torn.Local Torn.Store Torn.sem Torn.branch
               (serial_of Torn.Act Torn.Local Torn.Store Torn.c0) ls' (store c, thS)
        /\ forall i, thS i = (loc (thr c i), []).
Proof. exact discipline_needed. Qed.
Print Assumptions C15_discipline_needed.

(* The hypotheses are satisfiable: a concrete semantics respecting the footprints, and a writer and a reader
   thread of the current source as initial configuration. *)
Example C15_hyps_satisfiable :
  footprint_ok generated_methods Instance.Local Instance.Store (Instance.sem (mutable_fields generated_methods)) /\
  ops_init generated_methods Instance.Local Instance.Store
           (Instance.two_threads generated_methods "append_data" "get_range_filled").
Proof.
  split; [apply Instance.footprint|].
  apply Instance.two_threads_init; vm_compute; tauto.
Qed.
