(* C12, extension: event_rate behind a stage that reports events AHEAD of the span of the block carrying them
   (pipeline.edges: a rising edge is reported when it is confirmed, min_samples late, a falling edge immediately, so
   the Events block of a chunk may hold events at or after its own `end`; never before its `start`).

   The repaired event_rate (fix-C12-er) trims its left-over on the left only ([trim_left] in Stages/Model.v).  For
   every CAUSAL stream ([causal] in Stages/Spec.v: spans tile, every event at or after the start of its chunk) and
   every way of cutting it into chunks:
   * [event_rate_causal]                  the run does not raise, the concatenated counts are the counts of ALL events
                                          of the stream in the windows [lo + k*stp, lo + k*stp + bsz), k below the number
                                          of windows ending before the end of the stream, and the emitted blocks are
                                          contiguous;
   * [event_rate_causal_chunk_invariant]  two causal streams over the same timeline with the same multiset of events
                                          (however the events are assigned to chunks, however the timeline is cut) emit
                                          the same counts;
   * [event_rate_causal_unrepaired_refuted] the code before the repair (left-over cut by get_range_samples, which also
                                          drops what lies at or after `end`) loses an event: the witness is the stream
                                          edges(3, .., detect='rising') emits for ([0]*5+[1]*5)*6 in one chunk of 60 and
                                          in chunks of 8, 10, 42 samples.
   * [event_rate_unrepaired_in_span]      on streams whose chunks hold only events inside their spans the code before the
                                          repair and the repaired code do the same, chunk by chunk.
   The existing in-span theorems are the special case [ev_stream_any_causal].  Stdlib only, no axioms. *)
From Coq Require Import ZArith List Bool Lia ZifyBool Permutation.
From PV Require Import Stages.Model Stages.Spec Stages.Lemmas Stages.ProofsA Stages.ProofsB Stages.ProofsC
  Stages.ProofsD Stages.ProofsE Stages.ProofsE2 Stages.ProofsX.
Import ListNotations.
Open Scope Z_scope.

(* ------------------------------------------------------------------ causal streams *)
Lemma ev_stream_any_causal : forall cs lo, ev_stream_any lo cs -> causal lo cs.
Proof.
  induction cs as [|c cs IH]; intros lo H; [exact I|].
  cbn [ev_stream_any causal] in *. destruct H as (H1 & H2 & H3 & H4).
  split; [exact H1|]. split; [exact H2|]. split; [|apply IH; exact H4].
  eapply Forall_impl; [|exact H3]. cbn beta. intros; lia.
Qed.

Lemma count_in_perm (a b : list Z) (x y : Z) : Permutation a b -> count_in a x y = count_in b x y.
Proof.
  unfold count_in. intros P. induction P as [|v l l' P IH|u v l|l l' l'' P1 IH1 P2 IH2].
  - reflexivity.
  - cbn [filter]. destruct ((x <=? v) && (v <? y)); [rewrite !zlen_cons|]; now rewrite IH.
  - cbn [filter]. destruct ((x <=? v) && (v <? y)), ((x <=? u) && (u <? y)); rewrite ?zlen_cons; reflexivity.
  - now rewrite IH1.
Qed.

Lemma zr_ext_count (f g : Z -> Z) : (forall k, f k = g k) -> forall n lo, zr f lo n = zr g lo n.
Proof. intros H. induction n as [|n IH]; intros lo; [reflexivity|]. cbn [zr]. now rewrite H, IH. Qed.

(* ------------------------------------------------------------------ the repaired loop without an upper bound *)
Section EventRateCausal.
Variables (bsz stp : Z).
Hypothesis Hb : 0 <= bsz.
Hypothesis Hs : 1 <= stp.
Variable lo0 : Z.

(* what the state's Events object knows: above its start it counts like all the events received so far
   (some of them may lie at or beyond its end) *)
Definition ev_inv_c (e : events) (sofar : list Z) : Prop :=
  forall x y, e_lo e <= x -> count_in (evs e) x y = count_in sofar x y.

Lemma er_loop_spec_c sofar : forall (fuel : nat) (e : events), ev_inv_c e sofar ->
  e_hi e - e_lo e <= Z.of_nat fuel ->
  exists e', er_loop fuel bsz stp e = Some (windows fuel sofar bsz stp (e_lo e) (e_hi e), e') /\
             ev_inv_c e' sofar /\ e_hi e' = e_hi e /\ e_lo e' = final_lo bsz stp fuel (e_lo e) (e_hi e).
Proof.
  induction fuel as [|fuel IH]; intros e Hcnt Hf.
  - exists e. cbn [er_loop windows final_lo]. destruct (e_hi e - e_lo e >? bsz) eqn:E; [lia|].
    split; [reflexivity|]. split; [exact Hcnt|split; reflexivity].
  - cbn [er_loop windows final_lo]. destruct (e_hi e - e_lo e >? bsz) eqn:E.
    + unfold get_range.
      destruct ((e_lo e <? e_lo e) || (e_lo e + bsz >? e_hi e)) eqn:G1; [lia|].
      set (e1 := trim_left e (e_lo e + stp)).
      destruct (IH e1) as (e' & E1 & Hinv' & Hhi & Hlo).
      * intros x y Hx. cbn [e1 trim_left evs e_lo] in *. rewrite count_in_filter.
        -- apply Hcnt. lia.
        -- intros v Hv Hxy. lia.
      * cbn [e1 trim_left e_lo e_hi]. lia.
      * rewrite E1. exists e'. cbn [e1 trim_left e_lo e_hi evs] in *.
        split; [|split; [exact Hinv'|split; [exact Hhi|exact Hlo]]].
        do 2 f_equal. f_equal. fold (count_in (evs e) (e_lo e) (e_lo e + bsz)). apply Hcnt. lia.
    + exists e. split; [reflexivity|]. split; [exact Hcnt|split; reflexivity].
Qed.

(* invariant between chunks: e = state's events, s2 = state's doubled s0, sofar = all events received,
   cnts = all counts emitted *)
Definition er_inv_c (e : events) (s2 : Z) (sofar cnts : list Z) : Prop :=
  ev_inv_c e sofar /\ lo0 <= e_lo e /\ e_hi e - e_lo e <= bsz /\
  s2 = 2 * lo0 + bsz + 2 * zlen cnts /\
  (forall new hi' (f : nat), e_hi e <= hi' -> Forall (fun v => e_hi e <= v) new ->
     hi' - lo0 <= Z.of_nat f ->
     windows f (sofar ++ new) bsz stp lo0 hi' = cnts ++ windows f (sofar ++ new) bsz stp (e_lo e) hi').

Lemma er_step_ok_c e s2 sofar cnts (c : events) :
  er_inv_c e s2 sofar cnts ->
  e_lo c = e_hi e -> e_hi e <= e_hi c -> Forall (fun v => e_hi e <= v) (evs c) ->
  exists e' s2' o, er_step true bsz stp (Some (ErSt e s2)) c = Some (Some (ErSt e' s2'), o) /\
    er_inv_c e' s2' (sofar ++ evs c) (cnts ++ concat (map r_counts o)) /\
    r_contiguous s2 stp o /\ e_hi e' = e_hi c.
Proof.
  intros (Hcnt & Hlo & Hfin & Hs2 & Hwin) Hc1 Hc2 Hc3.
  unfold er_step, combine_events. cbn [er_ev er_s0x2]. rewrite Hc1, Z.eqb_refl.
  set (e2 := Ev (evs e ++ evs c) (e_lo e) (e_hi c)).
  assert (Hinv2 : ev_inv_c e2 (sofar ++ evs c)).
  { intros x y Hx. cbn [e2 evs e_lo e_hi] in *. rewrite !count_in_app. now rewrite Hcnt. }
  destruct (er_loop_spec_c (sofar ++ evs c) (Z.to_nat (e_hi e2 - e_lo e2)) e2 Hinv2)
    as (e' & E1 & Hinv' & Hhi & Hlo'); [cbn [e2 e_lo e_hi]; lia|].
  rewrite E1. cbn [e2 e_lo e_hi] in *.
  set (fuel := Z.to_nat (e_hi c - e_lo e)) in *.
  set (cs := windows fuel (sofar ++ evs c) bsz stp (e_lo e) (e_hi c)) in *.
  destruct ((final_lo_spec bsz stp Hb Hs) (e_hi c) fuel (e_lo e)) as [Hf1 Hf2]; [unfold fuel; lia|].
  assert (Hnew : er_inv_c e' (s2 + 2 * zlen cs) (sofar ++ evs c) (cnts ++ cs)).
  { split; [exact Hinv'|]. split; [lia|]. split; [lia|]. split; [rewrite zlen_app; lia|].
    intros new hi' f Hh Hn Hf. rewrite Hhi in *. rewrite <- (app_assoc sofar).
    rewrite (Hwin (evs c ++ new) hi' f); [|lia| |exact Hf].
    - rewrite <- (app_assoc cnts). f_equal. rewrite (app_assoc sofar).
      rewrite ((windows_continue bsz stp Hb Hs) (sofar ++ evs c) new (e_hi c) hi' Hh Hn f (e_lo e)) by lia.
      destruct ((windows_fuel bsz stp Hb Hs) (sofar ++ evs c) (e_hi c) f fuel (e_lo e)) as [W1 W2];
        [lia|unfold fuel; lia|].
      rewrite W1, W2, Hlo'. reflexivity.
    - apply Forall_app. split; [exact Hc3|].
      eapply Forall_impl; [|exact Hn]. cbn beta. intros; lia. }
  destruct cs as [|c0 cs'] eqn:Ecs.
  - exists e', s2, []. split; [reflexivity|]. cbn [map concat r_contiguous].
    change (zlen (@nil Z)) with 0 in Hnew. rewrite Z.mul_0_r, Z.add_0_r in Hnew. rewrite app_nil_r in *. auto.
  - exists e', (s2 + 2 * zlen (c0 :: cs')), [Rb (c0 :: cs') s2 stp]. split; [reflexivity|].
    cbn [map concat r_counts r_contiguous r_s0x2 r_fsd]. rewrite app_nil_r. auto.
Qed.

Lemma er_run_ok_c : forall (cs : list events) e s2 sofar cnts,
  er_inv_c e s2 sofar cnts -> causal (e_hi e) cs ->
  exists e' s2' o, run (er_step true bsz stp) (Some (ErSt e s2)) cs = Some (Some (ErSt e' s2'), o) /\
    er_inv_c e' s2' (sofar ++ ev_all cs) (cnts ++ concat (map r_counts o)) /\
    r_contiguous s2 stp o /\ e_hi e' = ev_end (e_hi e) cs.
Proof.
  induction cs as [|c cs IH]; intros e s2 sofar cnts Hinv Hst.
  - exists e, s2, []. cbn [run ev_all map concat r_contiguous ev_end]. rewrite !app_nil_r. auto.
  - cbn [causal] in Hst. destruct Hst as (H1 & H2 & H3 & H4).
    destruct (er_step_ok_c e s2 sofar cnts c Hinv H1 H2 H3) as (e1 & s21 & o1 & E1 & Hinv1 & Hc1 & Hh1).
    rewrite <- Hh1 in H4.
    destruct (IH e1 s21 _ _ Hinv1 H4) as (e2 & s22 & o2 & E2 & Hinv2 & Hc2 & Hh2).
    exists e2, s22, (o1 ++ o2). cbn [run]. rewrite E1, E2.
    split; [reflexivity|]. unfold ev_all in *. cbn [map concat ev_end].
    rewrite map_app, concat_app, !app_assoc. split; [rewrite <- !app_assoc in *; exact Hinv2|].
    split; [|now rewrite Hh2, Hh1].
    apply (r_contiguous_app stp); [exact Hc1|].
    destruct Hinv1 as (_ & _ & _ & Hs21 & _). destruct Hinv as (_ & _ & _ & Hs2 & _).
    rewrite zlen_app in Hs21. replace (s2 + 2 * zlen (concat (map r_counts o1))) with s21 by lia.
    exact Hc2.
Qed.

Lemma er_ok_c : forall cs : list events, cs <> [] -> causal lo0 cs ->
  exists st outs, run (er_step true bsz stp) None cs = Some (st, outs) /\
    concat (map r_counts outs) = event_rates bsz stp (ev_all cs) lo0 (ev_end lo0 cs) /\
    r_contiguous (2 * lo0 + bsz) stp outs.
Proof.
  intros cs Hne Hst. destruct cs as [|c cs]; [congruence|].
  (* the first chunk behaves like any other one after an empty span *)
  assert (Hfirst : er_step true bsz stp None c =
                   er_step true bsz stp (Some (ErSt (Ev [] lo0 lo0) (2 * lo0 + bsz))) c).
  { cbn [causal] in Hst. destruct Hst as (H1 & _). destruct c as [ev l hi]. cbn [e_lo] in H1. subst l.
    unfold er_step, combine_events. cbn [er_ev er_s0x2 e_lo e_hi evs app]. now rewrite Z.eqb_refl. }
  assert (Hinv0 : er_inv_c (Ev [] lo0 lo0) (2 * lo0 + bsz) [] []).
  { split; [intros x y _; reflexivity|]. cbn [e_lo e_hi]. split; [lia|]. split; [lia|].
    split; [change (zlen (@nil Z)) with 0; lia|]. intros; reflexivity. }
  destruct (er_run_ok_c (c :: cs) (Ev [] lo0 lo0) (2 * lo0 + bsz) [] [] Hinv0 Hst)
    as (e' & s2' & o & E & Hinv & Hc & Hh).
  exists (Some (ErSt e' s2')), o. split; [|split; [|exact Hc]].
  - cbn [run] in *. rewrite Hfirst. exact E.
  - destruct Hinv as (_ & Hlo & Hfin & _ & Hwin). cbn [app e_hi] in *.
    unfold event_rates. rewrite <- Hh.
    specialize (Hwin [] (e_hi e') (Z.to_nat (e_hi e' - lo0)) (Z.le_refl _) (Forall_nil _)).
    rewrite app_nil_r in Hwin. rewrite Hwin by lia.
    rewrite ((windows_done bsz stp) _ (e_lo e') (e_hi e')) by lia. now rewrite app_nil_r.
Qed.
End EventRateCausal.

(* ------------------------------------------------------------------ the statements of Props/C12.v *)
(* every causal stream, every chunking: the whole-stream specification (all events of the stream are counted, also
   those that were delivered ahead of the span of their chunk) *)
Lemma event_rate_causal_spec bsz stp lo (cs : list events) : 0 <= bsz -> 1 <= stp -> cs <> [] -> causal lo cs ->
  exists st outs, run (er_step true bsz stp) None cs = Some (st, outs) /\
    concat (map r_counts outs) = event_rates bsz stp (ev_all cs) lo (ev_end lo cs) /\
    r_contiguous (2 * lo + bsz) stp outs.
Proof. intros Hb Hs Hne Hst. exact (er_ok_c bsz stp Hb Hs lo cs Hne Hst). Qed.

(* .. in closed form: window k = [lo + k*stp, lo + k*stp + bsz), for the k with lo + k*stp + bsz < end of the stream *)
Theorem event_rate_causal bsz stp lo (cs : list events) : 0 <= bsz -> 1 <= stp -> cs <> [] -> causal lo cs ->
  exists st outs, run (er_step true bsz stp) None cs = Some (st, outs) /\
    concat (map r_counts outs) =
      zrange (fun k => count_in (ev_all cs) (lo + k * stp) (lo + k * stp + bsz)) 0 (n_windows bsz stp lo (ev_end lo cs)) /\
    r_contiguous (2 * lo + bsz) stp outs.
Proof.
  intros Hb Hs Hne Hst. destruct (event_rate_causal_spec bsz stp lo cs Hb Hs Hne Hst) as (st & outs & E & V & C).
  exists st, outs. split; [exact E|]. split; [|exact C]. rewrite V. now apply event_rates_closed_form.
Qed.

(* two causal streams over the same timeline [lo, end) holding the same multiset of events - the events may be
   assigned to different chunks (in their span or ahead of it) and the timeline may be cut differently - emit the
   same counts *)
Theorem event_rate_causal_chunk_invariant bsz stp lo (cs1 cs2 : list events) :
  0 <= bsz -> 1 <= stp -> cs1 <> [] -> cs2 <> [] -> causal lo cs1 -> causal lo cs2 ->
  Permutation (ev_all cs1) (ev_all cs2) -> ev_end lo cs1 = ev_end lo cs2 ->
  exists st1 o1 st2 o2,
    run (er_step true bsz stp) None cs1 = Some (st1, o1) /\
    run (er_step true bsz stp) None cs2 = Some (st2, o2) /\
    concat (map r_counts o1) = concat (map r_counts o2).
Proof.
  intros Hb Hs N1 N2 S1 S2 P Ee.
  destruct (event_rate_causal bsz stp lo cs1 Hb Hs N1 S1) as (st1 & o1 & R1 & V1 & _).
  destruct (event_rate_causal bsz stp lo cs2 Hb Hs N2 S2) as (st2 & o2 & R2 & V2 & _).
  exists st1, o1, st2, o2. split; [exact R1|]. split; [exact R2|]. rewrite V1, V2, Ee.
  unfold zrange. apply zr_ext_count. intros k. now apply count_in_perm.
Qed.

(* the hypotheses are satisfiable, with events ahead of the span of their chunk: the Events blocks that
   edges(3, .., initial_state=0, detect='rising') emits for ([0]*5+[1]*5)*6 (rising edges at 5, 15, .., 55; the spans
   lag the samples by min_samples = 3), sent in chunks of 8, 10, 42 samples - the edges at 5 and at 15 are reported
   with sample == end of their block - and in one chunk of 60; block_size = block_step = 10 *)
Definition er_ahead_chunked : list events := [Ev [5] (-3) 5; Ev [15] 5 15; Ev [25; 35; 45; 55] 15 57].
Definition er_ahead_whole : list events := [Ev [5; 15; 25; 35; 45; 55] (-3) 57].

Example event_rate_causal_ex :
  causal (-3) er_ahead_chunked /\ causal (-3) er_ahead_whole /\ ~ ev_stream_any (-3) er_ahead_chunked /\
  Permutation (ev_all er_ahead_chunked) (ev_all er_ahead_whole) /\
  ev_end (-3) er_ahead_chunked = ev_end (-3) er_ahead_whole /\
  counts_of (run (er_step true 10 10) None er_ahead_chunked) = Some [[1]; [1; 1; 1; 1]] /\
  counts_of (run (er_step true 10 10) None er_ahead_whole) = Some [[1; 1; 1; 1; 1]] /\
  zrange (fun k => count_in (ev_all er_ahead_whole) (-3 + k * 10) (-3 + k * 10 + 10)) 0
         (n_windows 10 10 (-3) (ev_end (-3) er_ahead_whole)) = [1; 1; 1; 1; 1].
Proof.
  split; [|split; [|split; [|split; [|split; [|split; [|split]]]]]]; try (vm_compute; reflexivity).
  - cbn [causal er_ahead_chunked e_lo e_hi evs]. repeat split; try lia; repeat constructor; lia.
  - cbn [causal er_ahead_whole e_lo e_hi evs]. repeat split; try lia; repeat constructor; lia.
  - cbn [ev_stream_any er_ahead_chunked e_lo e_hi evs]. intros (_ & _ & H & _). inversion H; subst. lia.
Qed.

(* the code before the repair loses the edge at 15: it is delivered with the block [5, 15), the merged left-over
   [-3, 15) is cut to [7, 15) by get_range_samples and the event at 15 == end is dropped *)
Theorem event_rate_causal_unrepaired_refuted : exists (bsz stp lo : Z) (cs1 cs2 : list events),
  0 <= bsz /\ 1 <= stp /\ cs1 <> [] /\ cs2 <> [] /\ causal lo cs1 /\ causal lo cs2 /\
  Permutation (ev_all cs1) (ev_all cs2) /\ ev_end lo cs1 = ev_end lo cs2 /\
  exists st1 o1 st2 o2,
    run (er_step_unrepaired true bsz stp) None cs1 = Some (st1, o1) /\
    run (er_step_unrepaired true bsz stp) None cs2 = Some (st2, o2) /\
    concat (map r_counts o1) = [1; 0; 1; 1; 1] /\ concat (map r_counts o2) = [1; 1; 1; 1; 1].
Proof.
  exists 10, 10, (-3), er_ahead_chunked, er_ahead_whole.
  destruct event_rate_causal_ex as (C1 & C2 & _ & P & Ee & _).
  split; [lia|]. split; [lia|]. split; [discriminate|]. split; [discriminate|].
  split; [exact C1|]. split; [exact C2|]. split; [exact P|]. split; [exact Ee|].
  eexists _, _, _, _. split; [vm_compute; reflexivity|]. split; [vm_compute; reflexivity|].
  split; vm_compute; reflexivity.
Qed.

(* while every event of the state lies before its end, one pass of the window loop is the same before and after the
   repair (which is why the in-span statements held for the code before the repair, too) *)
Lemma er_loop_unrepaired_in_span bsz stp : 0 <= stp -> forall (fuel : nat) (e : events),
  Forall (fun v => v < e_hi e) (evs e) -> er_loop_unrepaired fuel bsz stp e = er_loop fuel bsz stp e.
Proof.
  intros Hs. induction fuel as [|fuel IH]; intros e Hbd; [reflexivity|].
  cbn [er_loop er_loop_unrepaired]. destruct (e_hi e - e_lo e >? bsz) eqn:E; [|reflexivity].
  destruct (get_range e (e_lo e) (e_lo e + bsz)) as [b|]; [|reflexivity].
  unfold get_range. destruct ((e_lo e + stp <? e_lo e) || (e_hi e >? e_hi e)) eqn:G; [lia|].
  assert (Ef : filter (fun x => (e_lo e + stp <=? x) && (x <? e_hi e)) (evs e) =
               filter (fun x => e_lo e + stp <=? x) (evs e)).
  { apply filter_ext_in. intros v Hv. rewrite Forall_forall in Hbd. specialize (Hbd v Hv).
    destruct (e_lo e + stp <=? v); [|reflexivity]. cbn [andb]. lia. }
  rewrite Ef. fold (trim_left e (e_lo e + stp)). rewrite IH; [reflexivity|].
  cbn [trim_left evs e_hi]. apply Forall_forall. intros v Hv. apply filter_In in Hv. destruct Hv as [Hv _].
  rewrite Forall_forall in Hbd. exact (Hbd v Hv).
Qed.

(* ------------------------------------------------------------------ in-span streams: nothing changed *)
(* every chunk spans >= 0 samples and holds only events before its end *)
Definition in_span (c : events) : Prop := e_lo c <= e_hi c /\ Forall (fun v => v < e_hi c) (evs c).
Definition st_bounded (s : option er_st) : Prop :=
  match s with None => True | Some st => Forall (fun v => v < e_hi (er_ev st)) (evs (er_ev st)) end.

Lemma trim_left_bound e s : Forall (fun v => v < e_hi e) (evs e) ->
  Forall (fun v => v < e_hi (trim_left e s)) (evs (trim_left e s)).
Proof.
  intros Hbd. cbn [trim_left evs e_hi]. apply Forall_forall. intros v Hv. apply filter_In in Hv.
  destruct Hv as [Hv _]. rewrite Forall_forall in Hbd. exact (Hbd v Hv).
Qed.

Lemma er_loop_bound bsz stp : forall (fuel : nat) (e : events) cs e',
  Forall (fun v => v < e_hi e) (evs e) -> er_loop fuel bsz stp e = Some (cs, e') ->
  Forall (fun v => v < e_hi e') (evs e').
Proof.
  induction fuel as [|fuel IH]; intros e cs e' Hbd H.
  - cbn [er_loop] in H. destruct (e_hi e - e_lo e >? bsz); [discriminate|]. injection H as _ <-. exact Hbd.
  - cbn [er_loop] in H. destruct (e_hi e - e_lo e >? bsz); [|injection H as _ <-; exact Hbd].
    destruct (get_range e (e_lo e) (e_lo e + bsz)) as [b|]; [|discriminate].
    destruct (er_loop fuel bsz stp (trim_left e (e_lo e + stp))) as [[cs1 e1]|] eqn:E1; [|discriminate].
    injection H as _ <-. exact (IH _ _ _ (trim_left_bound e _ Hbd) E1).
Qed.

Lemma er_step_unrepaired_in_span rep bsz stp s c : 0 <= stp -> st_bounded s -> in_span c ->
  er_step_unrepaired rep bsz stp s c = er_step rep bsz stp s c /\
  (forall s' o, er_step rep bsz stp s c = Some (s', o) -> st_bounded s').
Proof.
  intros Hs Hst [Hc1 Hc2]. unfold er_step_unrepaired, er_step.
  set (pre := match s with
              | None => Some (c, 2 * e_lo c + bsz, rep)
              | Some st => match combine_events (er_ev st) c with
                           | Some e => Some (e, er_s0x2 st, true)
                           | None => None
                           end
              end).
  assert (Hpre : match pre with Some (e, _, _) => Forall (fun v => v < e_hi e) (evs e) | None => True end).
  { unfold pre. destruct s as [st|]; [|exact Hc2]. unfold combine_events.
    destruct (e_lo c =? e_hi (er_ev st)) eqn:E; [|exact I]. cbn [evs e_hi].
    apply Forall_app. split; [|exact Hc2]. cbn [st_bounded] in Hst.
    eapply Forall_impl; [|exact Hst]. cbn beta. intros; lia. }
  destruct pre as [[[e s0] process]|]; [|split; [reflexivity|discriminate]].
  destruct process.
  - rewrite (er_loop_unrepaired_in_span bsz stp Hs _ e Hpre). split; [reflexivity|].
    intros s' o H. destruct (er_loop (Z.to_nat (e_hi e - e_lo e)) bsz stp e) as [[cs e']|] eqn:E1; [|discriminate].
    assert (Hb' := er_loop_bound bsz stp _ e cs e' Hpre E1).
    destruct cs; injection H as <- _; exact Hb'.
  - split; [reflexivity|]. intros s' o H. injection H as <- _. exact Hpre.
Qed.

(* on a stream whose chunks hold only events inside their spans, the code before the repair fix-C12-er and the
   repaired code do exactly the same, chunk by chunk (in particular the in-span theorems above held before it) *)
Theorem event_rate_unrepaired_in_span rep bsz stp : 0 <= stp -> forall (cs : list events) s,
  st_bounded s -> Forall in_span cs ->
  run (er_step_unrepaired rep bsz stp) s cs = run (er_step rep bsz stp) s cs.
Proof.
  intros Hs. induction cs as [|c cs IH]; intros s Hst Hcs; [reflexivity|].
  inversion Hcs as [|c' cs' Hc Hcs']; subst. cbn [run].
  destruct (er_step_unrepaired_in_span rep bsz stp s c Hs Hst Hc) as [E Hnext]. rewrite E.
  destruct (er_step rep bsz stp s c) as [[s1 o1]|]; [|reflexivity].
  rewrite (IH s1 (Hnext s1 o1 eq_refl) Hcs'). reflexivity.
Qed.

Lemma ev_stream_any_in_span : forall cs lo, ev_stream_any lo cs -> Forall in_span cs.
Proof.
  induction cs as [|c cs IH]; intros lo H; [constructor|]. cbn [ev_stream_any] in H.
  destruct H as (H1 & H2 & H3 & H4). constructor; [|exact (IH _ H4)]. split; [lia|].
  eapply Forall_impl; [|exact H3]. cbn beta. intros; lia.
Qed.

Corollary event_rate_unrepaired_in_span_stream rep bsz stp lo (cs : list events) : 0 <= stp -> ev_stream_any lo cs ->
  run (er_step_unrepaired rep bsz stp) None cs = run (er_step rep bsz stp) None cs.
Proof.
  intros Hs H. exact (event_rate_unrepaired_in_span rep bsz stp Hs cs None I (ev_stream_any_in_span cs lo H)).
Qed.
