(* C12: the statements of Props/C12.v, assembled from the per-stage lemmas.  No axioms. *)
From Coq Require Import ZArith List Bool Lia ZifyBool.
From PV Require Import Stages.Model Stages.Spec Stages.Lemmas Stages.ProofsA Stages.ProofsB Stages.ProofsC.
Import ListNotations.
Open Scope Z_scope.

Lemma ok_values {S O} (r : option (S * list (blk O))) want h s : stage_ok r want h s -> emits_values r want.
Proof. intros (st & outs & E & Hv & _). exists st, outs. auto. Qed.
Lemma ok_contiguous {S O} (r : option (S * list (blk O))) want h s :
  stage_ok r want h s -> emits_contiguous r h s.
Proof.
  intros (st & outs & E & _ & Hc). exists st, outs. split; [exact E|]. split; [exact Hc|].
  now apply contiguous_concat.
Qed.

Section Statements.
Context {A : Type}.

Lemma blocked_values bs h s (ds : list (list A)) : 1 <= bs -> nonempty_chunks ds ->
  exists st outs, run (blocked_step bs) blocked_init (mkstream h s ds) = Some (st, outs) /\
    concat (map dat outs) = take_mult bs (concat ds) /\ Forall (fun o => zlen (dat o) = bs) outs.
Proof.
  intros Hb Hne. destruct (blocked_ok bs h Hb s ds Hne) as (st & outs & E & Hv & Hall & _).
  exists st, outs. auto.
Qed.
Lemma blocked_contiguous bs h s (ds : list (list A)) : 1 <= bs -> nonempty_chunks ds ->
  emits_contiguous (run (blocked_step bs) blocked_init (mkstream h s ds)) h s.
Proof.
  intros Hb Hne. destruct (blocked_ok bs h Hb s ds Hne) as (st & outs & E & _ & _ & Hc).
  exists st, outs. split; [exact E|]. split; [exact Hc|]. now apply contiguous_concat.
Qed.

Lemma discard_values d h s (ds : list (list A)) : 0 <= d -> nonempty_chunks ds ->
  emits_values (run discard_step d (mkstream h s ds)) (discarded d (concat ds)).
Proof. intros Hd Hne. eapply ok_values. now apply discard_ok. Qed.
Lemma discard_contiguous d h s (ds : list (list A)) : 0 <= d -> nonempty_chunks ds ->
  emits_contiguous (run discard_step d (mkstream h s ds)) h (s + d).
Proof. intros Hd Hne. eapply ok_contiguous. now apply discard_ok. Qed.

Lemma downsample_values q h s (ds : list (list A)) : 1 <= q -> nonempty_chunks ds ->
  emits_values (run (downsample_step true q) ds_init (mkstream h s ds)) (downsampled q (concat ds)).
Proof. intros Hq Hne. eapply ok_values. now apply downsample_ok. Qed.
Lemma downsample_contiguous q h s (ds : list (list A)) : 1 <= q -> nonempty_chunks ds ->
  emits_contiguous (run (downsample_step true q) ds_init (mkstream h s ds)) (h_scale q h) (h_s0 h s).
Proof. intros Hq Hne. eapply ok_contiguous. now apply downsample_ok. Qed.

Lemma decimate_values {F} (filt : F -> A -> F * A) zf0 q h s (ds : list (list A)) :
  1 <= q -> nonempty_chunks ds ->
  emits_values (run (decimate_step true filt zf0 q) None (mkstream h s ds))
               (decimated filt zf0 q (concat ds)).
Proof. intros Hq Hne. eapply ok_values. now apply decimate_ok. Qed.
Lemma decimate_contiguous {F} (filt : F -> A -> F * A) zf0 q h s (ds : list (list A)) :
  1 <= q -> nonempty_chunks ds ->
  emits_contiguous (run (decimate_step true filt zf0 q) None (mkstream h s ds)) (h_scale q h) (h_s0 h s).
Proof. intros Hq Hne. eapply ok_contiguous. now apply decimate_ok. Qed.

Lemma rms_values {O} (agg : list A -> O) n h s (ds : list (list A)) : 1 <= n -> nonempty_chunks ds ->
  emits_values (run (rms_step true agg n) rms_init (mkstream h s ds)) (rms_blocks agg n (concat ds)).
Proof. intros Hn Hne. eapply ok_values. now apply rms_ok. Qed.
Lemma rms_contiguous {O} (agg : list A -> O) n h s (ds : list (list A)) :
  1 <= n -> (n | s) -> nonempty_chunks ds ->
  emits_contiguous (run (rms_step true agg n) rms_init (mkstream h s ds)) (h_scale n h) (s / n).
Proof. intros Hn _ Hne. eapply ok_contiguous. now apply rms_ok. Qed.

Lemma derivative_values (sub : A -> A -> A) init h s (ds : list (list A)) :
  h_an h <> None -> nonempty_chunks ds ->
  emits_values (run (derivative_step sub init) None (mkstream h s ds)) (derived sub init (concat ds)).
Proof. intros Ha Hne. eapply ok_values. now apply deriv_ok. Qed.
Lemma derivative_contiguous (sub : A -> A -> A) init h s (ds : list (list A)) :
  h_an h <> None -> nonempty_chunks ds ->
  emits_contiguous (run (derivative_step sub init) None (mkstream h s ds)) h s.
Proof. intros Ha Hne. eapply ok_contiguous. now apply deriv_ok. Qed.

Lemma iir_values {F} (filt : F -> A -> F * A) finit h s (ds : list (list A)) : nonempty_chunks ds ->
  emits_values (run (iir_step true filt finit) None (mkstream h s ds)) (iir_filtered filt finit (concat ds)).
Proof. intros Hne. eapply ok_values. now apply iir_ok. Qed.
Lemma iir_contiguous {F} (filt : F -> A -> F * A) finit h s (ds : list (list A)) : nonempty_chunks ds ->
  emits_contiguous (run (iir_step true filt finit) None (mkstream h s ds)) h s.
Proof. intros Hne. eapply ok_contiguous. now apply iir_ok. Qed.

Lemma map_values {O} (g : A -> O) h s (ds : list (list A)) : nonempty_chunks ds ->
  emits_values (run (map_step g) tt (mkstream h s ds)) (map g (concat ds)).
Proof. intros Hne. eapply ok_values. now apply map_ok. Qed.
Lemma map_contiguous {O} (g : A -> O) h s (ds : list (list A)) : nonempty_chunks ds ->
  emits_contiguous (run (map_step g) tt (mkstream h s ds)) h s.
Proof. intros Hne. eapply ok_contiguous. now apply map_ok. Qed.

Lemma autoth_values {T O} (thr : list A -> T) (ge : T -> A -> O) Bn h s (ds : list (list A)) :
  0 <= Bn -> nonempty_chunks ds ->
  emits_values (run (autoth_step thr ge Bn) (AthAcc None) (mkstream h s ds))
               (thresholded thr ge Bn (concat ds)).
Proof. intros HB Hne. eapply ok_values. now apply ath_ok. Qed.
Lemma autoth_contiguous {T O} (thr : list A -> T) (ge : T -> A -> O) Bn h s (ds : list (list A)) :
  0 <= Bn -> nonempty_chunks ds ->
  emits_contiguous (run (autoth_step thr ge Bn) (AthAcc None) (mkstream h s ds)) h s.
Proof. intros HB Hne. eapply ok_contiguous. now apply ath_ok. Qed.
End Statements.

Lemma event_rate_values bsz stp lo (cs : list events) : 0 <= bsz -> 1 <= stp -> cs <> [] -> ev_stream lo cs ->
  exists st outs, run (er_step true bsz stp) None cs = Some (st, outs) /\
    concat (map r_counts outs) = event_rates bsz stp (ev_all cs) lo (ev_end lo cs).
Proof.
  intros Hb Hs Hne Hst. destruct (er_ok bsz stp Hb Hs lo cs Hne Hst) as (st & outs & E & Hv & _).
  exists st, outs. auto.
Qed.
Lemma event_rate_contiguous bsz stp lo (cs : list events) : 0 <= bsz -> 1 <= stp -> cs <> [] -> ev_stream lo cs ->
  exists st outs, run (er_step true bsz stp) None cs = Some (st, outs) /\
    r_contiguous (2 * lo + bsz) stp outs.
Proof.
  intros Hb Hs Hne Hst. destruct (er_ok bsz stp Hb Hs lo cs Hne Hst) as (st & outs & E & _ & Hc).
  exists st, outs. auto.
Qed.

Lemma contiguous_concat_all {A} h s (outs : list (blk A)) : contiguous h s outs -> outs <> [] ->
  concat_list outs = Some (mk h s (concat (map dat outs))).
Proof. apply contiguous_concat. Qed.
