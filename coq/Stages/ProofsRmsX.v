(* C12, extension: rms on an annotated stream whose first sample index is ANY integer (not only a multiple of the block
   length n).  [rms_step_x] (Stages/Model.v) is the rms step with the s0 of an emitted block kept in INPUT samples, i.e.
   n times the s0 the code attaches (s0_in / n for the first block, then + the number of windows emitted so far: the
   repaired code, fix-C12-rms, adds exactly these counts instead of dividing again).  For every first index s, every
   n >= 1 and every chunking (zero-length chunks included):
   * [rms_x_values_any]      nothing raises and the concatenated values are the per-block aggregates of the whole stream;
   * [rms_x_contiguous_any]  the emitted blocks carry the rate fs / n, the labels and metadata of the input, the first
                             starts at input sample s and each next one n * (number of values) later ([contiguous_x]):
                             in output samples, at s / n and then exactly where the previous block ended.
   Stdlib only, no axioms. *)
From Coq Require Import ZArith List Bool Lia ZifyBool.
From PV Require Import Stages.Model Stages.Spec Stages.Lemmas Stages.ProofsA Stages.ProofsB Stages.ProofsE2.
Import ListNotations.
Open Scope Z_scope.

Lemma mkstream_x_app {A} n h : forall (a b : list (list A)) s,
  mkstream_x n h s (a ++ b) = mkstream_x n h s a ++ mkstream_x n h (s + n * zlen (concat a)) b.
Proof.
  induction a as [|d a IH]; intros b s.
  - cbn [app mkstream_x concat]. rewrite zlen_nil, Z.mul_0_r, Z.add_0_r. reflexivity.
  - cbn [app mkstream_x concat]. rewrite IH. rewrite zlen_app.
    replace (s + n * zlen d + n * zlen (concat a)) with (s + n * (zlen d + zlen (concat a))) by lia. reflexivity.
Qed.
Lemma contiguous_x_app {A} n h s (outs o : list (blk A)) :
  contiguous_x n h s outs -> contiguous_x n h (s + n * zlen (concat (map dat outs))) o -> contiguous_x n h s (outs ++ o).
Proof. unfold contiguous_x. intros H1 H2. rewrite map_app, mkstream_x_app. now rewrite <- H1, <- H2. Qed.

Section RmsX.
Context {A O : Type}.
Variables (agg : list A -> O) (n : Z) (h : hdr) (s0 : Z).
Hypothesis Hn : 1 <= n.

Definition rms_inv_x (st : rms_st A) (pre : list A) (outs : list (blk O)) : Prop :=
  exists rs done E,
    0 <= E /\ E = zlen (concat (map dat outs)) /\
    r_data st = mkstream h (s0 + n * E) rs /\
    r_n st = zlen (concat rs) /\ r_n st < n /\
    pre = done ++ concat rs /\ zlen done = n * E /\
    concat (map dat outs) = map agg (chop (Z.to_nat E) (Z.to_nat n) done) /\
    contiguous_x n (h_scale n h) s0 outs.

Lemma rms_step_ok_x : forall st pre outs c, rms_inv_x st pre outs ->
  exists st' o, rms_step_x true agg n st (mk h (s0 + zlen pre) c) = Some (st', o) /\
                rms_inv_x st' (pre ++ c) (outs ++ o).
Proof.
  intros st pre outs c (rs & done & E & HE & HEo & Hdata & Hrn & Hlt & Hpre & Hd & Hv & Hc).
  assert (HN : zlen pre = n * E + zlen (concat rs)) by (rewrite Hpre, zlen_app; lia).
  assert (Hdata' : r_data st ++ [mk h (s0 + zlen pre) c] = mkstream h (s0 + n * E) (rs ++ [c])).
  { rewrite mkstream_app, Hdata. cbn [mkstream]. do 2 f_equal. apply mk_eq; [lia|reflexivity]. }
  unfold rms_step_x. rewrite dat_mk, Hdata'.
  destruct (r_n st + zlen c >=? n) eqn:Ege.
  - rewrite concat_list_mkstream by (destruct rs; discriminate).
    set (l := concat (rs ++ [c])). rewrite dat_mk.
    assert (Hl : zlen l = r_n st + zlen c) by (unfold l; rewrite concat_snoc, zlen_app; lia).
    set (nb := zlen l / n). set (ns := nb * n).
    assert (Hnb : 1 <= nb) by (unfold nb; apply Z.div_le_lower_bound; lia).
    assert (Hns : 0 <= ns <= zlen l).
    { unfold ns, nb. pose proof (Z.mul_div_le (zlen l) n ltac:(lia)). nia. }
    assert (Hmod : zlen l - ns < n).
    { unfold ns, nb. pose proof (Z.div_mod (zlen l) n ltac:(lia)).
      pose proof (Z.mod_pos_bound (zlen l) n ltac:(lia)). lia. }
    rewrite getitem_head by lia. rewrite getitem_tail by lia. rewrite dat_mk, two_mk.
    change (dat (mk h (s0 + n * E) (firstn (Z.to_nat ns) l))) with (firstn (Z.to_nat ns) l).
    set (vals := map agg (chop (Z.to_nat nb) (Z.to_nat n) (firstn (Z.to_nat ns) l))).
    assert (Hres : Blk vals (h_two h)
               (option_map (fun a => An (a_s0 a) (a_fsd a * n)
                                        (if h_two h then a_ch a else if true then a_ch a
                                         else Some (repeat 0 (Z.to_nat nb))) (a_md a))
                           (an (mk h (s0 + n * E) (firstn (Z.to_nat ns) l))))
             = mk (h_scale n h) (s0 + n * E) vals).
    { unfold mk, h_scale. cbn [an h_two h_an dat two].
      destruct (h_an h) as [[[f ch] md]|]; [|reflexivity].
      cbn [option_map a_s0 a_fsd a_ch a_md]. f_equal. f_equal. f_equal.
      destruct (h_two h); reflexivity. }
    rewrite Hres. eexists _, _. split; [reflexivity|].
    assert (Hvl : zlen vals = nb).
    { unfold vals. rewrite zlen_map. unfold zlen. rewrite chop_length. lia. }
    exists [skipn (Z.to_nat ns) l], (done ++ firstn (Z.to_nat ns) l), (E + nb).
    cbn [r_data r_n dat mk map concat]. rewrite !app_nil_r.
    rewrite map_app, concat_app. cbn [map concat]. rewrite dat_mk, app_nil_r.
    split; [lia|]. split; [rewrite zlen_app, <- HEo, Hvl; reflexivity|].
    split; [cbn [mkstream]; f_equal; apply mk_eq; [unfold ns; lia|reflexivity]|].
    split; [reflexivity|]. split; [rewrite zlen_skipn by lia; lia|].
    split; [rewrite <- app_assoc, firstn_skipn; unfold l; rewrite concat_snoc, app_assoc, <- Hpre; reflexivity|].
    split; [rewrite zlen_app, Hd, zlen_firstn by lia; unfold ns; lia|].
    split.
    + rewrite Hv. unfold vals.
      replace (Z.to_nat (E + nb)) with (Z.to_nat E + Z.to_nat nb)%nat by lia.
      rewrite chop_app; [now rewrite map_app|]. unfold zlen in Hd. nia.
    + apply contiguous_x_app; [exact Hc|]. rewrite <- HEo. reflexivity.
  - eexists _, []. split; [reflexivity|]. rewrite app_nil_r.
    exists (rs ++ [c]), done, E. cbn [r_data r_n]. rewrite concat_snoc, zlen_app.
    split; [lia|]. split; [exact HEo|]. split; [reflexivity|].
    split; [lia|]. split; [lia|]. split; [now rewrite app_assoc, <- Hpre|]. auto.
Qed.

Lemma rms_ok_x : forall ds : list (list A),
  exists st outs, run (rms_step_x true agg n) rms_init (mkstream h s0 ds) = Some (st, outs) /\
    concat (map dat outs) = rms_blocks agg n (concat ds) /\ contiguous_x n (h_scale n h) s0 outs.
Proof.
  intros ds.
  destruct (run_stream_any0 (rms_step_x true agg n) h s0 rms_inv_x rms_init rms_step_ok_x) with (ds := ds)
    as (st & o & E & (rs & done & E' & HE & HEo & _ & Hrn & Hlt & Hpre & Hd & Hv & Hc)).
  - exists [], [], 0. cbn [rms_init r_data r_n map concat mkstream app chop Z.to_nat].
    repeat split; try reflexivity; unfold zlen; cbn [length]; lia.
  - exists st, o. split; [exact E|]. split; [|exact Hc].
    rewrite Hrn in Hlt.
    destruct (split_unique n E' (concat ds) done (concat rs) Hn Hpre Hd Hlt) as [HE' _].
    rewrite Hv. unfold rms_blocks. rewrite <- HE'. rewrite Hpre. f_equal.
    symmetry. apply chop_prefix. unfold zlen in Hd. nia.
Qed.
End RmsX.

Lemma rms_x_values_any {A O} (agg : list A -> O) n h s (ds : list (list A)) : 1 <= n ->
  emits_values (run (rms_step_x true agg n) rms_init (mkstream h s ds)) (rms_blocks agg n (concat ds)).
Proof. intros Hn. destruct (rms_ok_x agg n h s Hn ds) as (st & outs & E & V & _). exists st, outs. auto. Qed.
Lemma rms_x_contiguous_any {A O} (agg : list A -> O) n h s (ds : list (list A)) : 1 <= n ->
  exists st outs, run (rms_step_x true agg n) rms_init (mkstream h s ds) = Some (st, outs) /\
                  contiguous_x n (h_scale n h) s outs.
Proof. intros Hn. destruct (rms_ok_x agg n h s Hn ds) as (st & outs & E & _ & C). exists st, outs. auto. Qed.

(* the hypotheses are satisfiable off the grid: n = 6, first sample 5 (the witness of the defect repaired by
   fix-C12-rms), chunks of 6, 6, 7 samples: blocks at input samples 5, 11, 17 = output samples 5/6, 5/6 + 1, 5/6 + 2 *)
Example rms_x_ex :
  let h := Hdr false (Some (1, None, 7)) in
  option_map (fun r => map (fun b => (dat b, an b)) (snd r))
             (run (rms_step_x true (sagg 6) 6) rms_init (inputs h 5 [6; 6; 7])) =
  Some [([0], Some (An 5 6 None 7)); ([1], Some (An 11 6 None 7)); ([2], Some (An 17 6 None 7))].
Proof. vm_compute. reflexivity. Qed.
