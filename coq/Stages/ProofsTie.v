(* Translator tie for the coroutine stages of psiaudio/pipeline.py (property C12).
   gen/StagesStepGen.v is regenerated from the CURRENT source by translate/pycoro2coq.py on every run; this file proves
   that each generated step function equals the hand-written step function of Stages/Model.v (the one every C12 theorem
   is about) for ALL states and ALL chunks, and transports the C12 theorems to runs of the generated functions.  *)
From Coq Require Import ZArith List Bool Lia ZifyBool.
From PV Require Import Stages.Model Stages.Spec Stages.Lemmas Stages.ProofsE Stages.ProofsE2.
From PV Require Import gen.StagesStepGen.
Import ListNotations.
Open Scope Z_scope.

(* a step result seen through a change of state representation *)
Definition lift {S T O} (f : S -> T) (r : option (S * list O)) : option (T * list O) :=
  match r with Some (s, o) => Some (f s, o) | None => None end.

Lemma run_lift {S T I O} (f : S -> T) (g : T -> I -> option (T * list O)) (m : S -> I -> option (S * list O)) :
  (forall s c, g (f s) c = lift f (m s c)) -> forall cs s, run g (f s) cs = lift f (run m s cs).
Proof.
  intros H cs. induction cs as [|c t IH]; intro s; cbn [run lift]; [reflexivity|].
  rewrite H. destruct (m s c) as [[s1 o1]|]; cbn [lift]; [|reflexivity].
  rewrite IH. destruct (run m s1 t) as [[s2 o2]|]; reflexivity.
Qed.

Lemma run_ext {S I O} (g m : S -> I -> option (S * list O)) :
  (forall s c, g s c = m s c) -> forall cs s, run g s cs = run m s cs.
Proof.
  intros H cs. induction cs as [|c t IH]; intro s; cbn [run]; [reflexivity|].
  rewrite H. destruct (m s c) as [[s1 o1]|]; [|reflexivity]. rewrite IH. reflexivity.
Qed.

Lemma emits_values_lift {S T O} (f : S -> T) (r : option (S * list (blk O))) want :
  emits_values r want -> emits_values (lift f r) want.
Proof. intros (st & outs & -> & H). exists (f st), outs. split; [reflexivity|exact H]. Qed.
Lemma emits_contiguous_lift {S T O} (f : S -> T) (r : option (S * list (blk O))) h s :
  emits_contiguous r h s -> emits_contiguous (lift f r) h s.
Proof. intros (st & outs & -> & H). exists (f st), outs. split; [reflexivity|exact H]. Qed.

Lemma set_s0_plain {A} s (b : blk A) : an b = None -> set_s0 s b = b.
Proof. destruct b as [d t a]; cbn. intros ->. reflexivity. Qed.

(* ================= discard ================= *)
Section Discard.
Context {A : Type}.

Lemma discard_tie_init d : @discard_gen_init A d = d.
Proof. reflexivity. Qed.

(* the generated step IS the model step: every counter value, every chunk (the model step does not mention the
   constructor argument discard_samples, which the loop body never reads) *)
Theorem discard_tie d0 (td : Z) (c : blk A) : discard_gen_step d0 td c = discard_step td c.
Proof.
  unfold discard_gen_step, discard_step.
  destruct (td =? 0) eqn:E; [apply Z.eqb_eq in E; subst td; reflexivity|].
  destruct (zlen (dat c) <=? td); [reflexivity|].
  destruct (zlen (dat c) >? td); reflexivity.
Qed.

Lemma discard_tie_run d0 cs td : run (@discard_gen_step A d0) td cs = run discard_step td cs.
Proof. apply run_ext. apply discard_tie. Qed.
End Discard.

(* ================= blocked ================= *)
Section Blocked.
Context {A : Type}.
Definition blocked_rep (s : blocked_st A) : list (blk A) * Z := (b_data s, b_n s).

Lemma blocked_tie_init bs : @blocked_gen_init A bs = blocked_rep blocked_init.
Proof. reflexivity. Qed.

(* the inner `while`: same fuel, outputs accumulated in front *)
Lemma blocked_tie_loop bs : forall (fuel : nat) (m : blk A) (acc : list (blk A)),
  blocked_gen_loop1 fuel bs m acc =
  match split_blocks fuel bs m with Some (o, r) => Some (r, acc ++ o) | None => None end.
Proof.
  induction fuel as [|f IH]; intros m acc; cbn [blocked_gen_loop1 split_blocks].
  - destruct (zlen (dat m) >=? bs); [reflexivity|]. rewrite app_nil_r. reflexivity.
  - destruct (zlen (dat m) >=? bs); [|rewrite app_nil_r; reflexivity].
    rewrite IH. destruct (split_blocks f bs (getitem (Some bs) None None m)) as [[o r]|]; [|reflexivity].
    rewrite <- app_assoc. reflexivity.
Qed.

Theorem blocked_tie bs (s : blocked_st A) (c : blk A) :
  blocked_gen_step bs (blocked_rep s) c = lift blocked_rep (blocked_step bs s c).
Proof.
  unfold blocked_gen_step, blocked_step, blocked_rep. cbn [b_data b_n].
  destruct (b_n s + zlen (dat c) >=? bs); [|reflexivity].
  destruct (concat_list (b_data s ++ [c])) as [merged|]; [|reflexivity].
  rewrite blocked_tie_loop.
  destruct (split_blocks (length (dat merged)) bs merged) as [[o r]|]; reflexivity.
Qed.

Lemma blocked_tie_run bs cs s :
  run (blocked_gen_step bs) (blocked_rep s) cs = lift blocked_rep (run (blocked_step bs) s cs).
Proof. apply run_lift. apply blocked_tie. Qed.
End Blocked.

(* ================= downsample ================= *)
Section Downsample.
Context {A : Type}.
Definition ds_rep (s : ds_st A) : option (blk A) * option Z := (ds_rem s, ds_s0 s).

Lemma downsample_tie_init q : @downsample_gen_init A q = ds_rep ds_init.
Proof. reflexivity. Qed.

(* q <> 0: the source computes `y.shape[-1] % q`, which raises ZeroDivisionError for q = 0; the model has no such case *)
Theorem downsample_tie q (s : ds_st A) (c : blk A) : q <> 0 ->
  downsample_gen_step q (ds_rep s) c = lift ds_rep (downsample_step true q s c).
Proof.
  intro Hq. unfold downsample_gen_step, downsample_step, ds_rep, split_rem, py_mod, py_len_true.
  cbn [ds_rem ds_s0].
  replace (q =? 0) with false by lia.
  destruct (ds_rem s) as [r|].
  - destruct (concat2 r c) as [y|]; [|reflexivity].
    destruct (negb (zlen (dat y) mod q =? 0));
      destruct (ds_s0 s) as [z|]; cbn [lift];
      match goal with |- context [an (getitem None None (Some q) ?b)] =>
        destruct (an (getitem None None (Some q) b)) eqn:E; [|rewrite (set_s0_plain _ _ E)] end;
      match goal with |- context [if two ?b then _ else _] => destruct (if two b then true else _) end; reflexivity.
  - destruct (negb (zlen (dat c) mod q =? 0));
      destruct (ds_s0 s) as [z|]; cbn [lift];
      match goal with |- context [an (getitem None None (Some q) ?b)] =>
        destruct (an (getitem None None (Some q) b)) eqn:E; [|rewrite (set_s0_plain _ _ E)] end;
      match goal with |- context [if two ?b then _ else _] => destruct (if two b then true else _) end; reflexivity.
Qed.

Lemma downsample_tie_run q cs s : q <> 0 ->
  run (downsample_gen_step q) (ds_rep s) cs = lift ds_rep (run (downsample_step true q) s cs).
Proof. intro Hq. apply run_lift. intros; apply downsample_tie; exact Hq. Qed.
End Downsample.

(* the hypothesis is needed: with q = 0 the source raises on the first chunk, the model does not *)
Theorem downsample_tie_refuted : exists (s : ds_st Z) (c : blk Z),
  downsample_gen_step 0 (ds_rep s) c <> lift ds_rep (downsample_step true 0 s c).
Proof. exists ds_init, (Blk [5] false None). vm_compute. discriminate. Qed.
Example downsample_tie_ex : (3 : Z) <> 0. Proof. lia. Qed.

(* ================= derivative ================= *)
Section Derivative.
Context {A : Type}.

Theorem derivative_tie (sub : A -> A -> A) init (s : option (blk A)) (c : blk A) :
  derivative_gen_step sub init s c = derivative_step sub init s c.
Proof.
  unfold derivative_gen_step, derivative_step, derivative_gen_body, np_full1, new_pd, np_diff_fs.
  destruct s as [b|].
  - destruct (an c) as [a|] eqn:Ec.
    + destruct (concat2 b c) as [samples|] eqn:E; [|reflexivity].
      assert (Hs : an samples <> None).
      { unfold concat2 in E. rewrite Ec in E. destruct (an b) as [ab|]; [|discriminate].
        destruct (_ && _) in E; [|discriminate]. injection E as <-. cbn. discriminate. }
      destruct (an samples); [reflexivity|congruence].
    + destruct (concat2 b c) as [samples|] eqn:E; [|reflexivity].
      assert (Hs : an samples = None).
      { unfold concat2 in E. rewrite Ec in E. destruct (an b) as [ab|]; [discriminate|].
        destruct (eqb _ _) in E; [|discriminate]. injection E as <-. reflexivity. }
      rewrite Hs. reflexivity.
  - destruct (an c) as [a|] eqn:Ec.
    + cbn [dat two an].
      match goal with |- match concat2 ?x c with _ => _ end = _ => destruct (concat2 x c) as [samples|] eqn:E end;
        [|reflexivity].
      assert (Hs : an samples <> None).
      { unfold concat2 in E. cbn [an] in E. rewrite Ec in E.
        destruct (_ && _) in E; [|discriminate]. injection E as <-. cbn. discriminate. }
      destruct (an samples); [reflexivity|congruence].
    + match goal with |- match concat2 ?x c with _ => _ end = _ => destruct (concat2 x c) as [samples|] eqn:E end;
        [|reflexivity].
      assert (Hs : an samples = None).
      { unfold concat2 in E. cbn [an] in E. rewrite Ec in E.
        destruct (eqb _ _) in E; [|discriminate]. injection E as <-. reflexivity. }
      rewrite Hs. reflexivity.
Qed.

Lemma derivative_tie_run (sub : A -> A -> A) init cs s :
  run (derivative_gen_step sub init) s cs = run (derivative_step sub init) s cs.
Proof. apply run_ext. apply derivative_tie. Qed.
End Derivative.

(* ================= decimate ================= *)
Section Decimate.
Context {F A : Type}.
Definition dec_rep (st : dec_st F A) : Z * F * option (blk A) := (d_s0 st, d_zf st, d_rem st).

Lemma zlen_zero_nil {X} (l : list X) : (zlen l =? 0) = match l with [] => true | _ => false end.
Proof. destruct l; [reflexivity|]. unfold zlen. cbn [length]. lia. Qed.

Lemma reannotate (d : list A) t (o : option ann) :
  match o with
  | Some a => new_pd (Blk d t None) (a_fsd a) (a_s0 a) (a_ch a) (a_md a)
  | None => Blk d t None
  end = Blk d t o.
Proof. destruct o as [[s f c m]|]; reflexivity. Qed.

Theorem decimate_tie (filt : F -> A -> F * A) zf0 q (s : option (dec_st F A)) (c : blk A) : q <> 0 ->
  decimate_gen_step filt zf0 q (option_map dec_rep s) c
  = lift (option_map dec_rep) (decimate_step_e true filt zf0 q s c).
Proof.
  intro Hq.
  assert (Body : forall st : dec_st F A,
    decimate_gen_body filt zf0 q (d_s0 st) (d_zf st) (d_rem st) c
    = lift (option_map dec_rep)
        (match dat c with [] => Some (Some st, []) | _ => decimate_step true filt zf0 q (Some st) c end)).
  { intro st. unfold decimate_gen_body. rewrite zlen_zero_nil.
    destruct (dat c) as [|x t] eqn:Ed; [reflexivity|].
    unfold decimate_step, lfilter, split_rem, py_mod. rewrite Ed.
    replace (q =? 0) with false by lia.
    destruct (mapAccum filt (d_zf st) (x :: t)) as [z yf].
    cbn [dat two an]. rewrite reannotate.
    destruct (d_rem st) as [r|].
    - destruct (concat2 r (Blk yf (two c) (an c))) as [yfilt|]; [|reflexivity].
      destruct (negb (zlen (dat yfilt) mod q =? 0));
        match goal with |- context [an (getitem None None (Some q) ?b)] =>
          destruct (an (getitem None None (Some q) b)) eqn:E; [|rewrite (set_s0_plain _ _ E)] end;
        match goal with |- context [if ?b >? 0 then _ else _] => destruct (b >? 0) end; reflexivity.
    - destruct (negb (zlen (dat (Blk yf (two c) (an c))) mod q =? 0));
        match goal with |- context [an (getitem None None (Some q) ?b)] =>
          destruct (an (getitem None None (Some q) b)) eqn:E; [|rewrite (set_s0_plain _ _ E)] end;
        match goal with |- context [if ?b >? 0 then _ else _] => destruct (b >? 0) end; reflexivity. }
  unfold decimate_gen_step, decimate_step_e.
  destruct s as [st|]; cbn [option_map dec_rep].
  - rewrite Body. destruct (dat c); reflexivity.
  - pose (st0 := @DecSt F A zf0 (s0_of c) None).
    change (decimate_gen_body filt zf0 q (s0_of c) zf0 None c)
      with (decimate_gen_body filt zf0 q (d_s0 st0) (d_zf st0) (d_rem st0) c).
    rewrite Body. destruct (dat c); reflexivity.
Qed.
End Decimate.

Theorem decimate_tie_refuted : exists (s : option (dec_st Z Z)) (c : blk Z),
  decimate_gen_step cfilt 0 0 (option_map dec_rep s) c
  <> lift (option_map dec_rep) (decimate_step_e true cfilt 0 0 s c).
Proof. exists None, (Blk [5] false None). vm_compute. discriminate. Qed.

Lemma decimate_tie_run {F A} (filt : F -> A -> F * A) zf0 q cs (s : option (dec_st F A)) : q <> 0 ->
  run (decimate_gen_step filt zf0 q) (option_map dec_rep s) cs
  = lift (option_map dec_rep) (run (decimate_step_e true filt zf0 q) s cs).
Proof. intro Hq. apply run_lift. intros; apply decimate_tie; exact Hq. Qed.

(* ================= the C12 theorems, restated over runs of the GENERATED step functions =================
   (every chunking, zero-length chunks included; the generated initial state is the one the source sets up
   before its `while True:`) *)
Section Source.
Context {A : Type}.

Theorem source_discard_values_any d h s (ds : list (list A)) : 0 <= d ->
  emits_values (run (discard_gen_step d) (@discard_gen_init A d) (mkstream h s ds)) (discarded d (concat ds)).
Proof. intro Hd. rewrite discard_tie_init, discard_tie_run. now apply discard_values_any. Qed.
Theorem source_discard_contiguous_any d h s (ds : list (list A)) : 0 <= d ->
  emits_contiguous (run (discard_gen_step d) (@discard_gen_init A d) (mkstream h s ds)) h (s + d).
Proof. intro Hd. rewrite discard_tie_init, discard_tie_run. now apply discard_contiguous_any. Qed.

Theorem source_blocked_values_any bs h s (ds : list (list A)) : 1 <= bs ->
  exists st outs, run (blocked_gen_step bs) (blocked_gen_init bs) (mkstream h s ds) = Some (st, outs) /\
    concat (map dat outs) = take_mult bs (concat ds) /\ Forall (fun o => zlen (dat o) = bs) outs.
Proof.
  intro Hb. destruct (blocked_values_any bs h s ds Hb) as (st & outs & E & H).
  exists (blocked_rep st), outs. split; [|exact H].
  rewrite blocked_tie_init, blocked_tie_run, E. reflexivity.
Qed.
Theorem source_blocked_contiguous_any bs h s (ds : list (list A)) : 1 <= bs ->
  emits_contiguous (run (blocked_gen_step bs) (blocked_gen_init bs) (mkstream h s ds)) h s.
Proof.
  intro Hb. rewrite blocked_tie_init, blocked_tie_run. apply emits_contiguous_lift. now apply blocked_contiguous_any.
Qed.

Theorem source_downsample_values_any q h s (ds : list (list A)) : 1 <= q ->
  emits_values (run (downsample_gen_step q) (downsample_gen_init q) (mkstream h s ds)) (downsampled q (concat ds)).
Proof.
  intro Hq. rewrite downsample_tie_init, downsample_tie_run by lia. apply emits_values_lift.
  now apply downsample_values_any.
Qed.
Theorem source_downsample_contiguous_any q h s (ds : list (list A)) : 1 <= q ->
  emits_contiguous (run (downsample_gen_step q) (downsample_gen_init q) (mkstream h s ds)) (h_scale q h) (h_s0 h s).
Proof.
  intro Hq. rewrite downsample_tie_init, downsample_tie_run by lia. apply emits_contiguous_lift.
  now apply downsample_contiguous_any.
Qed.

Theorem source_derivative_values_any (sub : A -> A -> A) init h s (ds : list (list A)) : h_an h <> None ->
  emits_values (run (derivative_gen_step sub init) None (mkstream h s ds)) (derived sub init (concat ds)).
Proof. intro Ha. rewrite derivative_tie_run. now apply derivative_values_any. Qed.
Theorem source_derivative_contiguous_any (sub : A -> A -> A) init h s (ds : list (list A)) : h_an h <> None ->
  emits_contiguous (run (derivative_gen_step sub init) None (mkstream h s ds)) h s.
Proof. intro Ha. rewrite derivative_tie_run. now apply derivative_contiguous_any. Qed.

Theorem source_decimate_values_any {F} (filt : F -> A -> F * A) zf0 q h s (ds : list (list A)) : 1 <= q ->
  emits_values (run (decimate_gen_step filt zf0 q) None (mkstream h s ds)) (decimated filt zf0 q (concat ds)).
Proof.
  intro Hq. change (@None (Z * F * option (blk A))) with (option_map (@dec_rep F A) None).
  rewrite decimate_tie_run by lia. apply emits_values_lift. now apply decimate_values_any.
Qed.
Theorem source_decimate_contiguous_any {F} (filt : F -> A -> F * A) zf0 q h s (ds : list (list A)) : 1 <= q ->
  emits_contiguous (run (decimate_gen_step filt zf0 q) None (mkstream h s ds)) (h_scale q h) (h_s0 h s).
Proof.
  intro Hq. change (@None (Z * F * option (blk A))) with (option_map (@dec_rep F A) None).
  rewrite decimate_tie_run by lia. apply emits_contiguous_lift. now apply decimate_contiguous_any.
Qed.
End Source.

(* chunk-invariance over the generated functions, stated directly: two chunkings of one stream emit the same samples *)
Theorem source_chunk_invariant_downsample {A} q h s (ds1 ds2 : list (list A)) : 1 <= q -> concat ds1 = concat ds2 ->
  exists st1 o1 st2 o2,
    run (downsample_gen_step q) (downsample_gen_init q) (mkstream h s ds1) = Some (st1, o1) /\
    run (downsample_gen_step q) (downsample_gen_init q) (mkstream h s ds2) = Some (st2, o2) /\
    concat (map dat o1) = concat (map dat o2).
Proof.
  intros Hq E.
  destruct (source_downsample_values_any q h s ds1 Hq) as (st1 & o1 & E1 & H1).
  destruct (source_downsample_values_any q h s ds2 Hq) as (st2 & o2 & E2 & H2).
  exists st1, o1, st2, o2. repeat split; [exact E1|exact E2|]. rewrite H1, H2, E. reflexivity.
Qed.

Example source_ex :
  outs_of (run (downsample_gen_step 2) (downsample_gen_init 2)
               (mkstream (Hdr false (Some (1, None, 7))) 10 [[0; 1; 2]; []; [3]; [4; 5; 6]]))
  = Some [Blk [0] false (Some (An 10 2 None 7)); Blk [2] false (Some (An 11 2 None 7)); Blk [4] false (Some (An 12 2 None 7))].
Proof. vm_compute. reflexivity. Qed.
