(* Translator tie for the coroutine stages of psiaudio/pipeline.py (property C12).
   gen/StagesStepGen.v is regenerated from the CURRENT source by translate/pycoro2coq.py on every run; this file proves
   that each generated step function equals the hand-written step function of Stages/Model.v (the one every C12 theorem
   is about) for ALL states and ALL chunks, and transports the C12 theorems to runs of the generated functions.  *)
From Coq Require Import ZArith List Bool Lia ZifyBool.
From PV Require Import Stages.Model Stages.Spec Stages.Lemmas Stages.ProofsE Stages.ProofsE2.
From PV Require Import gen.StagesStepGen.
Import ListNotations.
Open Scope Z_scope.

(* a step result seen through a change of state representation *)
Definition lift {S T O} (f : S -> T) (r : option (S * list O)) : option (T * list O) :=
  match r with Some (s, o) => Some (f s, o) | None => None end.

Lemma run_lift {S T I O} (f : S -> T) (g : T -> I -> option (T * list O)) (m : S -> I -> option (S * list O)) :
  (forall s c, g (f s) c = lift f (m s c)) -> forall cs s, run g (f s) cs = lift f (run m s cs).
Proof.
  intros H cs. induction cs as [|c t IH]; intro s; cbn [run lift]; [reflexivity|].
  rewrite H. destruct (m s c) as [[s1 o1]|]; cbn [lift]; [|reflexivity].
  rewrite IH. destruct (run m s1 t) as [[s2 o2]|]; reflexivity.
Qed.

Lemma run_ext {S I O} (g m : S -> I -> option (S * list O)) :
  (forall s c, g s c = m s c) -> forall cs s, run g s cs = run m s cs.
Proof.
  intros H cs. induction cs as [|c t IH]; intro s; cbn [run]; [reflexivity|].
  rewrite H. destruct (m s c) as [[s1 o1]|]; [|reflexivity]. rewrite IH. reflexivity.
Qed.

Lemma emits_values_lift {S T O} (f : S -> T) (r : option (S * list (blk O))) want :
  emits_values r want -> emits_values (lift f r) want.
Proof. intros (st & outs & -> & H). exists (f st), outs. split; [reflexivity|exact H]. Qed.
Lemma emits_contiguous_lift {S T O} (f : S -> T) (r : option (S * list (blk O))) h s :
  emits_contiguous r h s -> emits_contiguous (lift f r) h s.
Proof. intros (st & outs & -> & H). exists (f st), outs. split; [reflexivity|exact H]. Qed.

Lemma set_s0_plain {A} s (b : blk A) : an b = None -> set_s0 s b = b.
Proof. destruct b as [d t a]; cbn. intros ->. reflexivity. Qed.

(* ================= discard ================= *)
Section Discard.
Context {A : Type}.

Lemma discard_tie_init d : @discard_gen_init A d = d.
Proof. reflexivity. Qed.

(* the generated step IS the model step: every counter value, every chunk (the model step does not mention the
   constructor argument discard_samples, which the loop body never reads) *)
Theorem discard_tie d0 (td : Z) (c : blk A) : discard_gen_step d0 td c = discard_step td c.
Proof.
  unfold discard_gen_step, discard_step.
  destruct (td =? 0) eqn:E; [apply Z.eqb_eq in E; subst td; reflexivity|].
  destruct (zlen (dat c) <=? td); [reflexivity|].
  destruct (zlen (dat c) >? td); reflexivity.
Qed.

Lemma discard_tie_run d0 cs td : run (@discard_gen_step A d0) td cs = run discard_step td cs.
Proof. apply run_ext. apply discard_tie. Qed.
End Discard.

(* ================= blocked ================= *)
Section Blocked.
Context {A : Type}.
Definition blocked_rep (s : blocked_st A) : list (blk A) * Z := (b_data s, b_n s).

Lemma blocked_tie_init bs : @blocked_gen_init A bs = blocked_rep blocked_init.
Proof. reflexivity. Qed.

(* the inner `while`: same fuel, outputs accumulated in front *)
Lemma blocked_tie_loop bs : forall (fuel : nat) (m : blk A) (acc : list (blk A)),
  blocked_gen_loop1 fuel bs m acc =
  match split_blocks fuel bs m with Some (o, r) => Some (r, acc ++ o) | None => None end.
Proof.
  induction fuel as [|f IH]; intros m acc; cbn [blocked_gen_loop1 split_blocks].
  - destruct (zlen (dat m) >=? bs); [reflexivity|]. rewrite app_nil_r. reflexivity.
  - destruct (zlen (dat m) >=? bs); [|rewrite app_nil_r; reflexivity].
    rewrite IH. destruct (split_blocks f bs (getitem (Some bs) None None m)) as [[o r]|]; [|reflexivity].
    rewrite <- app_assoc. reflexivity.
Qed.

Theorem blocked_tie bs (s : blocked_st A) (c : blk A) :
  blocked_gen_step bs (blocked_rep s) c = lift blocked_rep (blocked_step bs s c).
Proof.
  unfold blocked_gen_step, blocked_step, blocked_rep. cbn [b_data b_n].
  destruct (b_n s + zlen (dat c) >=? bs); [|reflexivity].
  destruct (concat_list (b_data s ++ [c])) as [merged|]; [|reflexivity].
  rewrite blocked_tie_loop.
  destruct (split_blocks (length (dat merged)) bs merged) as [[o r]|]; reflexivity.
Qed.

Lemma blocked_tie_run bs cs s :
  run (blocked_gen_step bs) (blocked_rep s) cs = lift blocked_rep (run (blocked_step bs) s cs).
Proof. apply run_lift. apply blocked_tie. Qed.
End Blocked.

(* ================= downsample ================= *)
Section Downsample.
Context {A : Type}.
Definition ds_rep (s : ds_st A) : option (blk A) * option Z := (ds_rem s, ds_s0 s).

Lemma downsample_tie_init q : @downsample_gen_init A q = ds_rep ds_init.
Proof. reflexivity. Qed.

(* q <> 0: the source computes `y.shape[-1] % q`, which raises ZeroDivisionError for q = 0; the model has no such case *)
Theorem downsample_tie q (s : ds_st A) (c : blk A) : q <> 0 ->
  downsample_gen_step q (ds_rep s) c = lift ds_rep (downsample_step true q s c).
Proof.
  intro Hq. unfold downsample_gen_step, downsample_step, ds_rep, split_rem, py_mod, py_len_true.
  cbn [ds_rem ds_s0].
  replace (q =? 0) with false by lia.
  destruct (ds_rem s) as [r|].
  - destruct (concat2 r c) as [y|]; [|reflexivity].
    destruct (negb (zlen (dat y) mod q =? 0));
      destruct (ds_s0 s) as [z|]; cbn [lift];
      match goal with |- context [an (getitem None None (Some q) ?b)] =>
        destruct (an (getitem None None (Some q) b)) eqn:E; [|rewrite (set_s0_plain _ _ E)] end;
      match goal with |- context [if two ?b then _ else _] => destruct (if two b then true else _) end; reflexivity.
  - destruct (negb (zlen (dat c) mod q =? 0));
      destruct (ds_s0 s) as [z|]; cbn [lift];
      match goal with |- context [an (getitem None None (Some q) ?b)] =>
        destruct (an (getitem None None (Some q) b)) eqn:E; [|rewrite (set_s0_plain _ _ E)] end;
      match goal with |- context [if two ?b then _ else _] => destruct (if two b then true else _) end; reflexivity.
Qed.

Lemma downsample_tie_run q cs s : q <> 0 ->
  run (downsample_gen_step q) (ds_rep s) cs = lift ds_rep (run (downsample_step true q) s cs).
Proof. intro Hq. apply run_lift. intros; apply downsample_tie; exact Hq. Qed.
End Downsample.

(* the hypothesis is needed: with q = 0 the source raises on the first chunk, the model does not *)
Theorem downsample_tie_refuted : exists (s : ds_st Z) (c : blk Z),
  downsample_gen_step 0 (ds_rep s) c <> lift ds_rep (downsample_step true 0 s c).
Proof. exists ds_init, (Blk [5] false None). vm_compute. discriminate. Qed.
Example downsample_tie_ex : (3 : Z) <> 0. Proof. lia. Qed.

(* ================= derivative ================= *)
Section Derivative.
Context {A : Type}.

Theorem derivative_tie (sub : A -> A -> A) init (s : option (blk A)) (c : blk A) :
  derivative_gen_step sub init s c = derivative_step sub init s c.
Proof.
  unfold derivative_gen_step, derivative_step, derivative_gen_body, np_full1, new_pd, np_diff_fs.
  destruct s as [b|].
  - destruct (an c) as [a|] eqn:Ec.
    + destruct (concat2 b c) as [samples|] eqn:E; [|reflexivity].
      assert (Hs : an samples <> None).
      { unfold concat2 in E. rewrite Ec in E. destruct (an b) as [ab|]; [|discriminate].
        destruct (_ && _) in E; [|discriminate]. injection E as <-. cbn. discriminate. }
      destruct (an samples); [reflexivity|congruence].
    + destruct (concat2 b c) as [samples|] eqn:E; [|reflexivity].
      assert (Hs : an samples = None).
      { unfold concat2 in E. rewrite Ec in E. destruct (an b) as [ab|]; [discriminate|].
        destruct (eqb _ _) in E; [|discriminate]. injection E as <-. reflexivity. }
      rewrite Hs. reflexivity.
  - destruct (an c) as [a|] eqn:Ec.
    + cbn [dat two an].
      match goal with |- match concat2 ?x c with _ => _ end = _ => destruct (concat2 x c) as [samples|] eqn:E end;
        [|reflexivity].
      assert (Hs : an samples <> None).
      { unfold concat2 in E. cbn [an] in E. rewrite Ec in E.
        destruct (_ && _) in E; [|discriminate]. injection E as <-. cbn. discriminate. }
      destruct (an samples); [reflexivity|congruence].
    + match goal with |- match concat2 ?x c with _ => _ end = _ => destruct (concat2 x c) as [samples|] eqn:E end;
        [|reflexivity].
      assert (Hs : an samples = None).
      { unfold concat2 in E. cbn [an] in E. rewrite Ec in E.
        destruct (eqb _ _) in E; [|discriminate]. injection E as <-. reflexivity. }
      rewrite Hs. reflexivity.
Qed.

Lemma derivative_tie_run (sub : A -> A -> A) init cs s :
  run (derivative_gen_step sub init) s cs = run (derivative_step sub init) s cs.
Proof. apply run_ext. apply derivative_tie. Qed.
End Derivative.

(* ================= decimate ================= *)
Section Decimate.
Context {F A : Type}.
Definition dec_rep (st : dec_st F A) : Z * F * option (blk A) := (d_s0 st, d_zf st, d_rem st).

Lemma zlen_zero_nil {X} (l : list X) : (zlen l =? 0) = match l with [] => true | _ => false end.
Proof. destruct l; [reflexivity|]. unfold zlen. cbn [length]. lia. Qed.

Lemma reannotate (d : list A) t (o : option ann) :
  match o with
  | Some a => new_pd (Blk d t None) (a_fsd a) (a_s0 a) (a_ch a) (a_md a)
  | None => Blk d t None
  end = Blk d t o.
Proof. destruct o as [[s f c m]|]; reflexivity. Qed.

Theorem decimate_tie (filt : F -> A -> F * A) zf0 q (s : option (dec_st F A)) (c : blk A) : q <> 0 ->
  decimate_gen_step filt zf0 q (option_map dec_rep s) c
  = lift (option_map dec_rep) (decimate_step_e true filt zf0 q s c).
Proof.
  intro Hq.
  assert (Body : forall st : dec_st F A,
    decimate_gen_body filt zf0 q (d_s0 st) (d_zf st) (d_rem st) c
    = lift (option_map dec_rep)
        (match dat c with [] => Some (Some st, []) | _ => decimate_step true filt zf0 q (Some st) c end)).
  { intro st. unfold decimate_gen_body. rewrite zlen_zero_nil.
    destruct (dat c) as [|x t] eqn:Ed; [reflexivity|].
    unfold decimate_step, lfilter, split_rem, py_mod. rewrite Ed.
    replace (q =? 0) with false by lia.
    destruct (mapAccum filt (d_zf st) (x :: t)) as [z yf].
    cbn [dat two an]. rewrite reannotate.
    destruct (d_rem st) as [r|].
    - destruct (concat2 r (Blk yf (two c) (an c))) as [yfilt|]; [|reflexivity].
      destruct (negb (zlen (dat yfilt) mod q =? 0));
        match goal with |- context [an (getitem None None (Some q) ?b)] =>
          destruct (an (getitem None None (Some q) b)) eqn:E; [|rewrite (set_s0_plain _ _ E)] end;
        match goal with |- context [if ?b >? 0 then _ else _] => destruct (b >? 0) end; reflexivity.
    - destruct (negb (zlen (dat (Blk yf (two c) (an c))) mod q =? 0));
        match goal with |- context [an (getitem None None (Some q) ?b)] =>
          destruct (an (getitem None None (Some q) b)) eqn:E; [|rewrite (set_s0_plain _ _ E)] end;
        match goal with |- context [if ?b >? 0 then _ else _] => destruct (b >? 0) end; reflexivity. }
  unfold decimate_gen_step, decimate_step_e.
  destruct s as [st|]; cbn [option_map dec_rep].
  - rewrite Body. destruct (dat c); reflexivity.
  - pose (st0 := @DecSt F A zf0 (s0_of c) None).
    change (decimate_gen_body filt zf0 q (s0_of c) zf0 None c)
      with (decimate_gen_body filt zf0 q (d_s0 st0) (d_zf st0) (d_rem st0) c).
    rewrite Body. destruct (dat c); reflexivity.
Qed.
End Decimate.

Theorem decimate_tie_refuted : exists (s : option (dec_st Z Z)) (c : blk Z),
  decimate_gen_step cfilt 0 0 (option_map dec_rep s) c
  <> lift (option_map dec_rep) (decimate_step_e true cfilt 0 0 s c).
Proof. exists None, (Blk [5] false None). vm_compute. discriminate. Qed.

Lemma decimate_tie_run {F A} (filt : F -> A -> F * A) zf0 q cs (s : option (dec_st F A)) : q <> 0 ->
  run (decimate_gen_step filt zf0 q) (option_map dec_rep s) cs
  = lift (option_map dec_rep) (run (decimate_step_e true filt zf0 q) s cs).
Proof. intro Hq. apply run_lift. intros; apply decimate_tie; exact Hq. Qed.

(* ================= the C12 theorems, restated over runs of the GENERATED step functions =================
   (every chunking, zero-length chunks included; the generated initial state is the one the source sets up
   before its `while True:`) *)
Section Source.
Context {A : Type}.

Theorem source_discard_values_any d h s (ds : list (list A)) : 0 <= d ->
  emits_values (run (discard_gen_step d) (@discard_gen_init A d) (mkstream h s ds)) (discarded d (concat ds)).
Proof. intro Hd. rewrite discard_tie_init, discard_tie_run. now apply discard_values_any. Qed.
Theorem source_discard_contiguous_any d h s (ds : list (list A)) : 0 <= d ->
  emits_contiguous (run (discard_gen_step d) (@discard_gen_init A d) (mkstream h s ds)) h (s + d).
Proof. intro Hd. rewrite discard_tie_init, discard_tie_run. now apply discard_contiguous_any. Qed.

Theorem source_blocked_values_any bs h s (ds : list (list A)) : 1 <= bs ->
  exists st outs, run (blocked_gen_step bs) (blocked_gen_init bs) (mkstream h s ds) = Some (st, outs) /\
    concat (map dat outs) = take_mult bs (concat ds) /\ Forall (fun o => zlen (dat o) = bs) outs.
Proof.
  intro Hb. destruct (blocked_values_any bs h s ds Hb) as (st & outs & E & H).
  exists (blocked_rep st), outs. split; [|exact H].
  rewrite blocked_tie_init, blocked_tie_run, E. reflexivity.
Qed.
Theorem source_blocked_contiguous_any bs h s (ds : list (list A)) : 1 <= bs ->
  emits_contiguous (run (blocked_gen_step bs) (blocked_gen_init bs) (mkstream h s ds)) h s.
Proof.
  intro Hb. rewrite blocked_tie_init, blocked_tie_run. apply emits_contiguous_lift. now apply blocked_contiguous_any.
Qed.

Theorem source_downsample_values_any q h s (ds : list (list A)) : 1 <= q ->
  emits_values (run (downsample_gen_step q) (downsample_gen_init q) (mkstream h s ds)) (downsampled q (concat ds)).
Proof.
  intro Hq. rewrite downsample_tie_init, downsample_tie_run by lia. apply emits_values_lift.
  now apply downsample_values_any.
Qed.
Theorem source_downsample_contiguous_any q h s (ds : list (list A)) : 1 <= q ->
  emits_contiguous (run (downsample_gen_step q) (downsample_gen_init q) (mkstream h s ds)) (h_scale q h) (h_s0 h s).
Proof.
  intro Hq. rewrite downsample_tie_init, downsample_tie_run by lia. apply emits_contiguous_lift.
  now apply downsample_contiguous_any.
Qed.

Theorem source_derivative_values_any (sub : A -> A -> A) init h s (ds : list (list A)) : h_an h <> None ->
  emits_values (run (derivative_gen_step sub init) None (mkstream h s ds)) (derived sub init (concat ds)).
Proof. intro Ha. rewrite derivative_tie_run. now apply derivative_values_any. Qed.
Theorem source_derivative_contiguous_any (sub : A -> A -> A) init h s (ds : list (list A)) : h_an h <> None ->
  emits_contiguous (run (derivative_gen_step sub init) None (mkstream h s ds)) h s.
Proof. intro Ha. rewrite derivative_tie_run. now apply derivative_contiguous_any. Qed.

Theorem source_decimate_values_any {F} (filt : F -> A -> F * A) zf0 q h s (ds : list (list A)) : 1 <= q ->
  emits_values (run (decimate_gen_step filt zf0 q) None (mkstream h s ds)) (decimated filt zf0 q (concat ds)).
Proof.
  intro Hq. change (@None (Z * F * option (blk A))) with (option_map (@dec_rep F A) None).
  rewrite decimate_tie_run by lia. apply emits_values_lift. now apply decimate_values_any.
Qed.
Theorem source_decimate_contiguous_any {F} (filt : F -> A -> F * A) zf0 q h s (ds : list (list A)) : 1 <= q ->
  emits_contiguous (run (decimate_gen_step filt zf0 q) None (mkstream h s ds)) (h_scale q h) (h_s0 h s).
Proof.
  intro Hq. change (@None (Z * F * option (blk A))) with (option_map (@dec_rep F A) None).
  rewrite decimate_tie_run by lia. apply emits_contiguous_lift. now apply decimate_contiguous_any.
Qed.
End Source.

(* chunk-invariance over the generated functions, stated directly: two chunkings of one stream emit the same samples *)
Theorem source_chunk_invariant_downsample {A} q h s (ds1 ds2 : list (list A)) : 1 <= q -> concat ds1 = concat ds2 ->
  exists st1 o1 st2 o2,
    run (downsample_gen_step q) (downsample_gen_init q) (mkstream h s ds1) = Some (st1, o1) /\
    run (downsample_gen_step q) (downsample_gen_init q) (mkstream h s ds2) = Some (st2, o2) /\
    concat (map dat o1) = concat (map dat o2).
Proof.
  intros Hq E.
  destruct (source_downsample_values_any q h s ds1 Hq) as (st1 & o1 & E1 & H1).
  destruct (source_downsample_values_any q h s ds2 Hq) as (st2 & o2 & E2 & H2).
  exists st1, o1, st2, o2. repeat split; [exact E1|exact E2|]. rewrite H1, H2, E. reflexivity.
Qed.

Example source_ex :
  outs_of (run (downsample_gen_step 2) (downsample_gen_init 2)
               (mkstream (Hdr false (Some (1, None, 7))) 10 [[0; 1; 2]; []; [3]; [4; 5; 6]]))
  = Some [Blk [0] false (Some (An 10 2 None 7)); Blk [2] false (Some (An 11 2 None 7)); Blk [4] false (Some (An 12 2 None 7))].
Proof. vm_compute. reflexivity. Qed.
(* ================= simulation of runs through a state relation ================= *)
From PV Require Import Stages.ProofsRmsX.
Definition sim_res {S T O} (R : T -> S -> Prop) (g : option (T * list O)) (m : option (S * list O)) : Prop :=
  match g, m with
  | Some (t, o), Some (s, o') => o = o' /\ R t s
  | None, None => True
  | _, _ => False
  end.

Lemma run_sim {S T Ch O} (R : T -> S -> Prop) (g : T -> Ch -> option (T * list O)) (m : S -> Ch -> option (S * list O)) :
  (forall t s c, R t s -> sim_res R (g t c) (m s c)) ->
  forall cs t s, R t s -> sim_res R (run g t cs) (run m s cs).
Proof.
  intros H cs. induction cs as [|c cs IH]; intros t s HR; cbn [run]; [split; [reflexivity|exact HR]|].
  specialize (H t s c HR). unfold sim_res in H.
  destruct (g t c) as [[t1 o1]|], (m s c) as [[s1 o1']|]; try contradiction; [|exact I].
  destruct H as [-> HR1]. specialize (IH t1 s1 HR1). unfold sim_res in IH |- *.
  destruct (run g t1 cs) as [[t2 o2]|], (run m s1 cs) as [[s2 o2']|]; try contradiction; [|exact I].
  destruct IH as [-> HR2]. split; [reflexivity|exact HR2].
Qed.

Lemma sim_values {S T O} (R : T -> S -> Prop) (g : option (T * list (blk O))) m want :
  sim_res R g m -> emits_values m want -> emits_values g want.
Proof.
  intros H (st & outs & -> & Hv). unfold sim_res in H. destruct g as [[t o]|]; [|contradiction].
  destruct H as [-> _]. exists t, outs. split; [reflexivity|exact Hv].
Qed.
Lemma sim_contiguous {S T O} (R : T -> S -> Prop) (g : option (T * list (blk O))) m h s :
  sim_res R g m -> emits_contiguous m h s -> emits_contiguous g h s.
Proof.
  intros H (st & outs & -> & Hv). unfold sim_res in H. destruct g as [[t o]|]; [|contradiction].
  destruct H as [-> _]. exists t, outs. split; [reflexivity|exact Hv].
Qed.

(* ================= rms ================= *)
Section Rms.
Context {A O : Type}.

(* rms_step and rms_step_x of Stages/Model.v differ in the s0 of the emitted block only: s0 / n resp. s0 (input samples) *)
Definition rms_step_g (agg : list A -> O) (s0div : Z -> Z) (n : Z) (s : rms_st A) (c : blk A)
  : option (rms_st A * list (blk O)) :=
  let data := r_data s ++ [c] in
  let samples := r_n s + zlen (dat c) in
  if samples >=? n then
    match concat_list data with
    | None => None
    | Some m =>
      let nb := zlen (dat m) / n in
      let ns := nb * n in
      let d := getitem None (Some ns) None m in
      let vals := map agg (chop (Z.to_nat nb) (Z.to_nat n) (dat d)) in
      let result :=
        Blk vals (two m)
            (option_map (fun a => An (s0div (a_s0 a)) (a_fsd a * n) (if two m then a_ch a else a_ch a) (a_md a)) (an d)) in
      let r := getitem (Some ns) None None m in
      Some (RmsSt [r] (zlen (dat r)), [result])
    end
  else Some (RmsSt data samples, []).

Lemma rms_step_is_g agg n s c : rms_step true agg n s c = rms_step_g agg (fun s0 => s0 / n) n s c.
Proof. reflexivity. Qed.
Lemma rms_step_x_is_g agg n s c : rms_step_x true agg n s c = rms_step_g agg (fun s0 => s0) n s c.
Proof. reflexivity. Qed.

(* the state relation.  The source keeps a counter out_s0 (None until the first annotated block is emitted) that the model
   does not have: the model recomputes the s0 of every emitted block from the s0 of the samples it holds.  They agree
   as long as the counter equals s0div of the s0 of the first held block - the invariant, kept by every step. *)
Definition rms_inv (s0div : Z -> Z) (data : list (blk A)) (o : option Z) : Prop :=
  match o with
  | None => True
  | Some k => match data with
              | b0 :: _ => forall a, an b0 = Some a -> s0div (a_s0 a) = k
              | [] => False
              end
  end.
Definition rms_rel (s0div : Z -> Z) (g : option (list (blk A) * Z * option Z)) (m : rms_st A) : Prop :=
  match g with
  | None => m = rms_init
  | Some (data, samples, o) => m = RmsSt data samples /\ rms_inv s0div data o
  end.

Lemma concat2_an (x y z : blk A) : concat2 x y = Some z -> an z = an x.
Proof.
  unfold concat2. destruct (an x) as [a|], (an y) as [b|]; try discriminate.
  - destruct (_ && _); [|discriminate]. intros [= <-]. reflexivity.
  - destruct (eqb _ _); [|discriminate]. intros [= <-]. reflexivity.
Qed.
Lemma concat_from_an : forall (l : list (blk A)) (acc m : blk A), concat_from acc l = Some m -> an m = an acc.
Proof.
  induction l as [|y t IH]; intros acc m; cbn [concat_from]; [intros [= <-]; reflexivity|].
  destruct (concat2 acc y) as [z|] eqn:E; [|discriminate]. intro H. rewrite (IH _ _ H). eapply concat2_an; eauto.
Qed.

Lemma py_last_snoc {X} (l : list X) (x : X) : py_last (l ++ [x]) = Some x.
Proof. unfold py_last. rewrite rev_app_distr. reflexivity. Qed.

Lemma slice_s0_nonneg len ns s : 0 <= ns -> slice_s0 len (Some ns) s = s + ns.
Proof. intro H. unfold slice_s0. destruct (ns >? 0) eqn:E1; [reflexivity|]. destruct (ns <? 0) eqn:E2; lia. Qed.

Variable agg : list A -> O.
Variables (s0div : Z -> Z) (s0add : Z -> Z -> Z) (n : Z).
Hypothesis Hn : 1 <= n.
(* the float counter advances like the s0 of the held samples: out_s0 + n_blocks = s0div (s0 + n_blocks * n) *)
Hypothesis Hlaw : forall s k, 0 <= k -> s0div (s + k * n) = s0add (s0div s) k.

Lemma rms_body_tie (data : list (blk A)) (c : blk A) (samples : Z) (o : option Z) :
  rms_inv s0div (data ++ [c]) o ->
  sim_res (rms_rel s0div)
          (rms_gen_body agg s0div s0add n (data ++ [c]) (samples + zlen (dat c)) o)
          (rms_step_g agg s0div n (RmsSt data samples) c).
Proof.
  intro Hinv. unfold rms_gen_body, rms_step_g, sim_res. cbn [r_data r_n].
  destruct (samples + zlen (dat c) >=? n); [|split; [reflexivity|split; [reflexivity|exact Hinv]]].
  destruct (concat_list (data ++ [c])) as [m|] eqn:Ec; [|exact I].
  unfold py_floordiv. replace (n =? 0) with false by lia.
  assert (Hnb : 0 <= zlen (dat m) / n) by (apply Z.div_pos; [unfold zlen|]; lia).
  set (nb := zlen (dat m) / n) in *.
  assert (Hhead : forall b0 rest, data ++ [c] = b0 :: rest -> an m = an b0).
  { intros b0 rest E. rewrite E in Ec. cbn [concat_list] in Ec. eapply concat_from_an; eauto. }
  unfold rms_value, set_ch, set_s0, getitem. cbn [dat two an].
  destruct (an m) as [a|] eqn:Ea; cbn [option_map an dat two a_s0 a_fsd a_ch a_md].
  - (* annotated *)
    assert (Hk : match o with Some k => s0div (a_s0 a) = k | None => True end).
    { destruct o as [k|]; [|exact I]. unfold rms_inv in Hinv.
      destruct (data ++ [c]) as [|b0 rest] eqn:E; [contradiction|].
      apply Hinv. symmetry. exact (Hhead b0 rest eq_refl). }
    destruct o as [k|]; cbn [a_s0].
    + subst k. split.
      * destruct (two m); reflexivity.
      * split; [reflexivity|]. unfold rms_inv. intros a' [= <-]. cbn [a_s0].
        match goal with |- s0div ?e = _ => replace e with (a_s0 a + nb * n) end; [apply Hlaw; exact Hnb|].
        destruct (nb * n >? 0) eqn:E1; [reflexivity|]. destruct (nb * n <? 0) eqn:E2; lia.
    + split.
      * destruct (two m); reflexivity.
      * split; [reflexivity|]. unfold rms_inv. intros a' [= <-]. cbn [a_s0].
        match goal with |- s0div ?e = _ => replace e with (a_s0 a + nb * n) end; [apply Hlaw; exact Hnb|].
        destruct (nb * n >? 0) eqn:E1; [reflexivity|]. destruct (nb * n <? 0) eqn:E2; lia.
  - (* plain *)
    split; [reflexivity|]. split; [reflexivity|]. unfold rms_inv. destruct o as [k|]; [|exact I]. intros a' [=].
Qed.

Theorem rms_tie g m (c : blk A) : rms_rel s0div g m ->
  sim_res (rms_rel s0div) (rms_gen_step agg s0div s0add n g c) (rms_step_g agg s0div n m c).
Proof.
  intro HR. unfold rms_gen_step. destruct g as [[[data samples] o]|]; cbn [rms_rel] in HR.
  - destruct HR as [-> Hinv]. rewrite py_last_snoc. apply rms_body_tie.
    unfold rms_inv in *. destruct o as [k|]; [|exact I]. destruct data as [|b0 rest]; [contradiction|exact Hinv].
  - subst m. unfold sum_len. cbn [fold_right].
    replace (zlen (dat c) + 0) with (0 + zlen (dat c)) by lia.
    apply (rms_body_tie [] c 0 None). exact I.
Qed.

Lemma rms_tie_run cs : sim_res (rms_rel s0div) (run (rms_gen_step agg s0div s0add n) None cs)
                                               (run (rms_step_g agg s0div n) rms_init cs).
Proof. apply run_sim; [intros; now apply rms_tie|reflexivity]. Qed.
End Rms.

(* the two readings of the float s0 arithmetic of the source *)
Lemma rms_law_div n : 1 <= n -> forall s k, 0 <= k -> (s + k * n) / n = s / n + k.
Proof. intros Hn s k _. apply Z.div_add. lia. Qed.
Lemma rms_law_x n : forall s k : Z, 0 <= k -> s + k * n = s + n * k.
Proof. intros. lia. Qed.
(* the invariant is needed: a counter that disagrees with the held samples shows up in the next emitted s0 *)
Theorem rms_tie_refuted : exists (g : option (list (blk Z) * Z * option Z)) (m : rms_st Z) (c : blk Z),
  (match g with Some (d, s, _) => m = RmsSt d s | None => False end) /\
  ~ sim_res (rms_rel (fun s => s / 2)) (rms_gen_step (sagg 2) (fun s => s / 2) Z.add 2 g c) (rms_step true (sagg 2) 2 m c).
Proof.
  exists (Some ([Blk [0] false (Some (An 0 1 None 7))], 1, Some 5)), (RmsSt [Blk [0] false (Some (An 0 1 None 7))] 1),
         (Blk [1] false (Some (An 1 1 None 7))).
  split; [reflexivity|]. vm_compute. intros [H _]. discriminate H.
Qed.
Example rms_rel_ex : rms_rel (fun s => s / 2) (Some ([Blk [0] false (Some (An 10 1 None 7))], 1, Some 5))
                             (RmsSt [Blk [0] false (Some (An 10 1 None 7))] 1).
Proof. split; [reflexivity|]. intros a [= <-]. reflexivity. Qed.

Section RmsSource.
Context {A O : Type}.
Theorem source_rms_values_any (agg : list A -> O) n h s (ds : list (list A)) : 1 <= n ->
  emits_values (run (rms_gen_step agg (fun s0 => s0 / n) Z.add n) None (mkstream h s ds)) (rms_blocks agg n (concat ds)).
Proof.
  intro Hn. eapply sim_values; [apply (rms_tie_run agg _ Z.add n Hn (rms_law_div n Hn))|].
  rewrite (run_ext _ (rms_step true agg n)) by (intros; symmetry; apply rms_step_is_g). now apply rms_values_any.
Qed.
Theorem source_rms_contiguous_any (agg : list A -> O) n h s (ds : list (list A)) : 1 <= n -> (n | s) ->
  emits_contiguous (run (rms_gen_step agg (fun s0 => s0 / n) Z.add n) None (mkstream h s ds)) (h_scale n h) (s / n).
Proof.
  intros Hn Hd. eapply sim_contiguous; [apply (rms_tie_run agg _ Z.add n Hn (rms_law_div n Hn))|].
  rewrite (run_ext _ (rms_step true agg n)) by (intros; symmetry; apply rms_step_is_g). now apply rms_contiguous_any.
Qed.
(* every first s0 (also off the block grid): s0 kept in input samples, i.e. n times the exact value of the float s0 *)
Theorem source_rms_x_values_any (agg : list A -> O) n h s (ds : list (list A)) : 1 <= n ->
  emits_values (run (rms_gen_step agg (fun s0 => s0) (fun t k => t + n * k) n) None (mkstream h s ds))
               (rms_blocks agg n (concat ds)).
Proof.
  intro Hn. eapply sim_values; [apply (rms_tie_run agg _ (fun t k => t + n * k) n Hn (rms_law_x n))|].
  rewrite (run_ext _ (rms_step_x true agg n)) by (intros; symmetry; apply rms_step_x_is_g). now apply rms_x_values_any.
Qed.
Theorem source_rms_x_contiguous_any (agg : list A -> O) n h s (ds : list (list A)) : 1 <= n ->
  exists st outs, run (rms_gen_step agg (fun s0 => s0) (fun t k => t + n * k) n) None (mkstream h s ds) = Some (st, outs) /\
                  contiguous_x n (h_scale n h) s outs.
Proof.
  intro Hn. destruct (rms_x_contiguous_any agg n h s ds Hn) as (st & outs & E & C).
  pose proof (rms_tie_run agg _ (fun t k => t + n * k) n Hn (rms_law_x n) (mkstream h s ds)) as H.
  rewrite (run_ext _ (rms_step_x true agg n)) in H by (intros; symmetry; apply rms_step_x_is_g).
  rewrite E in H. unfold sim_res in H.
  destruct (run _ None (mkstream h s ds)) as [[t o]|]; [|contradiction]. destruct H as [-> _].
  exists t, outs. split; [reflexivity|exact C].
Qed.
End RmsSource.

(* ================= event_rate ================= *)
Section EventRate.
Definition er_rep (st : er_st) : events * Z := (er_ev st, er_s0x2 st).
Definition ev_count (b : events) : Z := zlen (evs b).

(* the window loop: the source collects the windows (Events blocks), the model their event counts *)
Lemma event_rate_tie_loop bsz stp : forall (fuel : nat) (e : events) (bl : list events),
  match event_rate_gen_loop1 fuel bsz stp bl e, er_loop fuel bsz stp e with
  | Some (bl', e'), Some (cs, e'') => map ev_count bl' = map ev_count bl ++ cs /\ e' = e''
  | None, None => True
  | _, _ => False
  end.
Proof.
  induction fuel as [|f IH]; intros e bl; cbn [event_rate_gen_loop1 er_loop].
  - destruct (e_hi e - e_lo e >? bsz); [exact I|]. rewrite app_nil_r. split; reflexivity.
  - destruct (e_hi e - e_lo e >? bsz); [|rewrite app_nil_r; split; reflexivity].
    destruct (get_range e (e_lo e) (e_lo e + bsz)) as [b|]; [|exact I].
    specialize (IH (trim_left e (e_lo e + stp)) (bl ++ [b])).
    destruct (event_rate_gen_loop1 f bsz stp (bl ++ [b]) (trim_left e (e_lo e + stp))) as [[bl' e']|],
             (er_loop f bsz stp (trim_left e (e_lo e + stp))) as [[cs e'']|]; try contradiction; [|exact I].
    destruct IH as [H1 H2]. split; [|exact H2].
    rewrite H1, map_app, <- app_assoc. reflexivity.
Qed.

Lemma event_rate_tie_body bsz stp (e : events) (s0 : Z) :
  event_rate_gen_body bsz stp e s0 =
  match er_loop (Z.to_nat (e_hi e - e_lo e)) bsz stp e with
  | None => None
  | Some (cs, e') =>
    match cs with
    | [] => Some (Some (e', s0), [])
    | _ => Some (Some (e', s0 + 2 * zlen cs), [Rb cs s0 stp])
    end
  end.
Proof.
  unfold event_rate_gen_body.
  pose proof (event_rate_tie_loop bsz stp (Z.to_nat (e_hi e - e_lo e)) e []) as H.
  destruct (event_rate_gen_loop1 _ bsz stp [] e) as [[bl' e']|], (er_loop _ bsz stp e) as [[cs e'']|];
    try contradiction; [|reflexivity].
  destruct H as [H1 ->]. cbn [map app] in H1. subst cs.
  destruct bl' as [|b t]; reflexivity.
Qed.

Theorem event_rate_tie bsz stp (s : option er_st) (c : events) :
  event_rate_gen_step bsz stp (option_map er_rep s) c = lift (option_map er_rep) (er_step true bsz stp s c).
Proof.
  unfold event_rate_gen_step, er_step. destruct s as [st|]; cbn [option_map er_rep].
  - destruct (combine_events (er_ev st) c) as [e|]; [|reflexivity].
    rewrite event_rate_tie_body.
    destruct (er_loop _ bsz stp e) as [[cs e']|]; [|reflexivity]. destruct cs; reflexivity.
  - rewrite event_rate_tie_body.
    destruct (er_loop _ bsz stp c) as [[cs e']|]; [|reflexivity]. destruct cs; reflexivity.
Qed.

Lemma event_rate_tie_run bsz stp cs (s : option er_st) :
  run (event_rate_gen_step bsz stp) (option_map er_rep s) cs = lift (option_map er_rep) (run (er_step true bsz stp) s cs).
Proof. apply run_lift. apply event_rate_tie. Qed.
End EventRate.

From Coq Require Import Permutation.
From PV Require Import Stages.ProofsER.
Lemma lift_some {S T O} (f : S -> T) (r : option (S * list O)) st outs :
  r = Some (st, outs) -> lift f r = Some (f st, outs).
Proof. intros ->. reflexivity. Qed.

(* the causal theorems (events at or after the START of the block that carries them) over the generated step *)
Theorem source_event_rate_causal_spec bsz stp lo (cs : list events) :
  0 <= bsz -> 1 <= stp -> cs <> [] -> causal lo cs ->
  exists st outs, run (event_rate_gen_step bsz stp) None cs = Some (st, outs) /\
    concat (map r_counts outs) = event_rates bsz stp (ev_all cs) lo (ev_end lo cs) /\
    r_contiguous (2 * lo + bsz) stp outs.
Proof.
  intros Hb Hs Hne Hc. destruct (event_rate_causal_spec bsz stp lo cs Hb Hs Hne Hc) as (st & outs & E & H).
  exists (option_map er_rep st), outs. split; [|exact H].
  change (@None (events * Z)) with (option_map er_rep None). rewrite event_rate_tie_run. now apply lift_some.
Qed.
Theorem source_event_rate_causal_chunk_invariant bsz stp lo (cs1 cs2 : list events) :
  0 <= bsz -> 1 <= stp -> cs1 <> [] -> cs2 <> [] -> causal lo cs1 -> causal lo cs2 ->
  Permutation (ev_all cs1) (ev_all cs2) -> ev_end lo cs1 = ev_end lo cs2 ->
  exists st1 o1 st2 o2,
    run (event_rate_gen_step bsz stp) None cs1 = Some (st1, o1) /\
    run (event_rate_gen_step bsz stp) None cs2 = Some (st2, o2) /\
    concat (map r_counts o1) = concat (map r_counts o2).
Proof.
  intros Hb Hs H1 H2 C1 C2 P E.
  destruct (event_rate_causal_chunk_invariant bsz stp lo cs1 cs2 Hb Hs H1 H2 C1 C2 P E) as (st1 & o1 & st2 & o2 & E1 & E2 & H).
  exists (option_map er_rep st1), o1, (option_map er_rep st2), o2.
  change (@None (events * Z)) with (option_map er_rep None). rewrite !event_rate_tie_run.
  split; [now apply lift_some|]. split; [now apply lift_some|exact H].
Qed.
Theorem source_event_rate_values_any bsz stp lo (cs : list events) :
  0 <= bsz -> 1 <= stp -> cs <> [] -> ev_stream_any lo cs ->
  exists st outs, run (event_rate_gen_step bsz stp) None cs = Some (st, outs) /\
    concat (map r_counts outs) = event_rates bsz stp (ev_all cs) lo (ev_end lo cs).
Proof.
  intros Hb Hs Hne Hc. destruct (event_rate_values_any bsz stp lo cs Hb Hs Hne Hc) as (st & outs & E & H).
  exists (option_map er_rep st), outs. split; [|exact H].
  change (@None (events * Z)) with (option_map er_rep None). rewrite event_rate_tie_run. now apply lift_some.
Qed.
Theorem source_event_rate_contiguous_any bsz stp lo (cs : list events) :
  0 <= bsz -> 1 <= stp -> cs <> [] -> ev_stream_any lo cs ->
  exists st outs, run (event_rate_gen_step bsz stp) None cs = Some (st, outs) /\ r_contiguous (2 * lo + bsz) stp outs.
Proof.
  intros Hb Hs Hne Hc. destruct (event_rate_contiguous_any bsz stp lo cs Hb Hs Hne Hc) as (st & outs & E & H).
  exists (option_map er_rep st), outs. split; [|exact H].
  change (@None (events * Z)) with (option_map er_rep None). rewrite event_rate_tie_run. now apply lift_some.
Qed.

(* ================= transform, mc_reference ================= *)
Section MapStages.
Context {A O : Type}.
Theorem transform_tie (g : A -> O) (s : unit) (c : blk A) : transform_gen_step g s c = map_step g s c.
Proof. reflexivity. Qed.
Theorem mc_reference_tie (g : A -> O) (s : unit) (c : blk A) : mc_reference_gen_step g s c = map_step g s c.
Proof. reflexivity. Qed.

Theorem source_transform_values_any (g : A -> O) h s (ds : list (list A)) :
  emits_values (run (transform_gen_step g) (transform_gen_init g) (mkstream h s ds)) (map g (concat ds)).
Proof. rewrite (run_ext _ (map_step g)) by apply transform_tie. apply map_values_any. Qed.
Theorem source_transform_contiguous_any (g : A -> O) h s (ds : list (list A)) :
  emits_contiguous (run (transform_gen_step g) (transform_gen_init g) (mkstream h s ds)) h s.
Proof. rewrite (run_ext _ (map_step g)) by apply transform_tie. apply map_contiguous_any. Qed.
Theorem source_mc_reference_values_any (g : A -> O) h s (ds : list (list A)) :
  emits_values (run (mc_reference_gen_step g) (mc_reference_gen_init g) (mkstream h s ds)) (map g (concat ds)).
Proof. rewrite (run_ext _ (map_step g)) by apply mc_reference_tie. apply map_values_any. Qed.
Theorem source_mc_reference_contiguous_any (g : A -> O) h s (ds : list (list A)) :
  emits_contiguous (run (mc_reference_gen_step g) (mc_reference_gen_init g) (mkstream h s ds)) h s.
Proof. rewrite (run_ext _ (map_step g)) by apply mc_reference_tie. apply map_contiguous_any. Qed.
End MapStages.

(* ================= iirfilter ================= *)
Section IIR.
Context {F A : Type}.
Theorem iirfilter_tie (filt : F -> A -> F * A) (finit : A -> F) (s : option F) (c : blk A) :
  iirfilter_gen_step filt finit s c = iir_step_e true filt finit s c.
Proof.
  unfold iirfilter_gen_step, iir_step_e, skip_empty, iirfilter_gen_body, iir_step, lfilter.
  destruct s as [z|].
  - rewrite zlen_zero_nil. destruct (dat c) as [|x t] eqn:Ed; [reflexivity|].
    destruct (mapAccum filt z (x :: t)) as [z1 yf]. rewrite reannotate. reflexivity.
  - rewrite zlen_zero_nil. destruct (dat c) as [|x t] eqn:Ed; [reflexivity|].
    destruct (mapAccum filt (finit x) (x :: t)) as [z1 yf]. rewrite reannotate. reflexivity.
Qed.

Theorem source_iirfilter_values_any (filt : F -> A -> F * A) finit h s (ds : list (list A)) :
  emits_values (run (iirfilter_gen_step filt finit) None (mkstream h s ds)) (iir_filtered filt finit (concat ds)).
Proof. rewrite (run_ext _ (iir_step_e true filt finit)) by apply iirfilter_tie. apply iir_values_any. Qed.
Theorem source_iirfilter_contiguous_any (filt : F -> A -> F * A) finit h s (ds : list (list A)) :
  emits_contiguous (run (iirfilter_gen_step filt finit) None (mkstream h s ds)) h s.
Proof. rewrite (run_ext _ (iir_step_e true filt finit)) by apply iirfilter_tie. apply iir_contiguous_any. Qed.
End IIR.

(* the rms tie against the two model functions of Stages/Model.v *)
Theorem rms_tie_div {A O} (agg : list A -> O) n g m (c : blk A) : 1 <= n -> rms_rel (fun s => s / n) g m ->
  sim_res (rms_rel (fun s => s / n)) (rms_gen_step agg (fun s => s / n) Z.add n g c) (rms_step true agg n m c).
Proof. intros Hn HR. rewrite rms_step_is_g. apply rms_tie; [exact Hn|apply rms_law_div; exact Hn|exact HR]. Qed.
Theorem rms_tie_x {A O} (agg : list A -> O) n g m (c : blk A) : 1 <= n -> rms_rel (fun s => s) g m ->
  sim_res (rms_rel (fun s => s)) (rms_gen_step agg (fun s => s) (fun t k => t + n * k) n g c) (rms_step_x true agg n m c).
Proof. intros Hn HR. rewrite rms_step_x_is_g. apply rms_tie; [exact Hn|apply rms_law_x|exact HR]. Qed.
Lemma rms_rel_init {A} (s0div : Z -> Z) : @rms_rel A s0div None rms_init.
Proof. reflexivity. Qed.

(* ================= auto_th ================= *)
Section AutoTh.
Context {A T O : Type}.
(* the three phases of the coroutine: nothing received yet / spooling the baseline / threshold fixed *)
Definition ath_rep (s : ath_st A T) : option (blk A) + T :=
  match s with AthAcc d => inl d | AthRun th => inr th end.

Theorem auto_th_tie (thr : list A -> T) (ge : T -> A -> O) Bn (s : ath_st A T) (c : blk A) :
  auto_th_gen_step thr ge Bn (ath_rep s) c = lift ath_rep (autoth_step thr ge Bn s c).
Proof.
  unfold auto_th_gen_step, autoth_step, auto_th_gen_spool, auto_th_gen_body, map_blk.
  destruct s as [[d0|]|th]; cbn [ath_rep].
  - destruct (concat2 d0 c) as [data|]; [|reflexivity].
    destruct (zlen (dat data) <? Bn); reflexivity.
  - destruct (zlen (dat c) <? Bn); reflexivity.
  - reflexivity.
Qed.

Lemma auto_th_tie_run thr (ge : T -> A -> O) Bn cs (s : ath_st A T) :
  run (auto_th_gen_step thr ge Bn) (ath_rep s) cs = lift ath_rep (run (autoth_step thr ge Bn) s cs).
Proof. apply run_lift. apply auto_th_tie. Qed.

Theorem source_auto_th_values_any (thr : list A -> T) (ge : T -> A -> O) Bn h s (ds : list (list A)) : 0 <= Bn ->
  emits_values (run (auto_th_gen_step thr ge Bn) (inl None) (mkstream h s ds)) (thresholded thr ge Bn (concat ds)).
Proof.
  intro HB. change (@inl (option (blk A)) T None) with (ath_rep (AthAcc None)).
  rewrite auto_th_tie_run. apply emits_values_lift. now apply autoth_values_any.
Qed.
Theorem source_auto_th_contiguous_any (thr : list A -> T) (ge : T -> A -> O) Bn h s (ds : list (list A)) : 0 <= Bn ->
  emits_contiguous (run (auto_th_gen_step thr ge Bn) (inl None) (mkstream h s ds)) h s.
Proof.
  intro HB. change (@inl (option (blk A)) T None) with (ath_rep (AthAcc None)).
  rewrite auto_th_tie_run. apply emits_contiguous_lift. now apply autoth_contiguous_any.
Qed.
End AutoTh.
