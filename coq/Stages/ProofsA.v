(* C12 proofs, part A: discard, transform / mc_reference, iirfilter, derivative, auto_th.
   Stdlib only, no axioms. *)
From Coq Require Import ZArith List Bool Lia ZifyBool.
From PV Require Import Stages.Model Stages.Spec Stages.Lemmas.
Import ListNotations.
Open Scope Z_scope.

(* the shape every stage theorem has: the run does not raise, the concatenated values are [want],
   and the outputs are contiguous with annotations h' from s' on *)
Definition stage_ok {S O} (r : option (S * list (blk O))) (want : list O) (h' : hdr) (s' : Z) : Prop :=
  exists st outs, r = Some (st, outs) /\ concat (map dat outs) = want /\ contiguous h' s' outs.

(* ------------------------------------------------------------------ *)
(* discard                                                             *)
(* ------------------------------------------------------------------ *)
Section Discard.
Context {A : Type}.
Variables (d : Z) (h : hdr) (s0 : Z).
Hypothesis Hd : 0 <= d.

Definition discard_inv (td : Z) (pre : list A) (outs : list (blk A)) : Prop :=
  td = Z.max 0 (d - zlen pre) /\
  concat (map dat outs) = skipn (Z.to_nat d) pre /\
  contiguous h (s0 + d) outs.

Lemma discard_step_ok : forall td pre outs c, discard_inv td pre outs -> c <> [] ->
  exists td' o, discard_step td (mk h (s0 + zlen pre) c) = Some (td', o) /\
                discard_inv td' (pre ++ c) (outs ++ o).
Proof.
  intros td pre outs c (Htd & Hv & Hc) Hne.
  pose proof (zlen_nonneg pre) as Hp. pose proof (zlen_nonempty c Hne) as Hn.
  unfold discard_step. rewrite dat_mk.
  destruct (td =? 0) eqn:E0.
  - (* everything is forwarded *)
    exists 0, [mk h (s0 + zlen pre) c]. split; [reflexivity|].
    assert (Hle : d <= zlen pre) by lia.
    split; [rewrite zlen_app; lia|]. split.
    + rewrite map_app, concat_app. cbn [map concat]. rewrite dat_mk, app_nil_r, Hv.
      now rewrite zskipn_app_le by lia.
    + apply contiguous_app; [exact Hc|]. rewrite Hv, zlen_skipn by lia.
      replace (s0 + d + (zlen pre - d)) with (s0 + zlen pre) by lia. apply contiguous_one.
  - destruct (zlen c <=? td) eqn:E1.
    + (* the whole chunk is discarded *)
      exists (td - zlen c), []. split; [reflexivity|]. rewrite app_nil_r.
      split; [rewrite zlen_app; lia|]. split; [|exact Hc].
      rewrite Hv. rewrite !zskipn_all; [reflexivity| rewrite zlen_app; lia | lia].
    + destruct (zlen c >? td) eqn:E2; [|lia].
      (* the chunk is cut *)
      exists 0, [getitem (Some td) None None (mk h (s0 + zlen pre) c)]. split; [reflexivity|].
      rewrite getitem_tail by lia.
      assert (Hlt : zlen pre < d) by lia.
      assert (Hnil : concat (map dat outs) = []) by (rewrite Hv; apply zskipn_all; lia).
      split; [rewrite zlen_app; lia|]. split.
      * rewrite map_app, concat_app. cbn [map concat]. rewrite dat_mk, app_nil_r, Hnil. cbn [app].
        rewrite zskipn_app_ge by lia. f_equal. f_equal. lia.
      * apply contiguous_app; [exact Hc|]. rewrite Hnil, zlen_nil.
        replace (s0 + d + 0) with (s0 + zlen pre + td) by lia. apply contiguous_one.
Qed.

Lemma discard_ok : forall ds : list (list A), nonempty_chunks ds ->
  stage_ok (run discard_step d (mkstream h s0 ds)) (discarded d (concat ds)) h (s0 + d).
Proof.
  intros ds Hne.
  destruct (run_stream0 discard_step h s0 discard_inv d discard_step_ok) with (ds := ds)
    as (st & o & E & (_ & Hv & Hc)); [|exact Hne|].
  - split; [unfold zlen; cbn [length]; lia|]. split; [now rewrite skipn_nil|apply contiguous_nil].
  - exists st, o. auto.
Qed.
End Discard.

(* ------------------------------------------------------------------ *)
(* transform with an elementwise function / mc_reference                *)
(* ------------------------------------------------------------------ *)
Section MapStage.
Context {A O : Type}.
Variables (g : A -> O) (h : hdr) (s0 : Z).

Definition map_inv (st : unit) (pre : list A) (outs : list (blk O)) : Prop :=
  concat (map dat outs) = map g pre /\ contiguous h s0 outs.

Lemma map_step_ok : forall st pre outs c, map_inv st pre outs -> c <> [] ->
  exists st' o, map_step g st (mk h (s0 + zlen pre) c) = Some (st', o) /\ map_inv st' (pre ++ c) (outs ++ o).
Proof.
  intros st pre outs c (Hv & Hc) _. exists tt, [mk h (s0 + zlen pre) (map g c)].
  split; [reflexivity|]. split.
  - rewrite map_app, concat_app. cbn [map concat]. rewrite dat_mk, app_nil_r, Hv. now rewrite map_app.
  - apply contiguous_app; [exact Hc|]. rewrite Hv, zlen_map. apply contiguous_one.
Qed.

Lemma map_ok : forall ds : list (list A), nonempty_chunks ds ->
  stage_ok (run (map_step g) tt (mkstream h s0 ds)) (map g (concat ds)) h s0.
Proof.
  intros ds Hne.
  destruct (run_stream0 (map_step g) h s0 map_inv tt map_step_ok) with (ds := ds)
    as (st & o & E & (Hv & Hc)); [|exact Hne|].
  - split; [reflexivity|apply contiguous_nil].
  - exists st, o. auto.
Qed.
End MapStage.

(* ------------------------------------------------------------------ *)
(* iirfilter (repaired: annotations of the input are kept)             *)
(* ------------------------------------------------------------------ *)
Section Iir.
Context {F A : Type}.
Variables (filt : F -> A -> F * A) (finit : A -> F) (h : hdr) (s0 : Z).

Definition iir_inv (s : option F) (pre : list A) (outs : list (blk A)) : Prop :=
  match pre with
  | [] => s = None
  | x :: _ => s = Some (fst (mapAccum filt (finit x) pre))
  end /\
  concat (map dat outs) = iir_filtered filt finit pre /\ contiguous h s0 outs.

Lemma iir_step_ok : forall s pre outs c, iir_inv s pre outs -> c <> [] ->
  exists s' o, iir_step true filt finit s (mk h (s0 + zlen pre) c) = Some (s', o) /\
               iir_inv s' (pre ++ c) (outs ++ o).
Proof.
  intros s pre outs c (Hs & Hv & Hc) Hne.
  unfold iir_step. rewrite dat_mk.
  destruct pre as [|x pre].
  - (* first chunk *)
    subst s. destruct c as [|y c]; [congruence|].
    destruct (mapAccum filt (finit y) (y :: c)) as [z1 yf] eqn:E.
    exists (Some z1), [mk h (s0 + zlen (@nil A)) yf]. split; [reflexivity|].
    cbn [app]. split; [now rewrite E|]. split.
    + rewrite map_app, concat_app. cbn [map concat]. rewrite dat_mk, app_nil_r, Hv.
      unfold iir_filtered, filtered. now rewrite E.
    + apply contiguous_app; [exact Hc|]. rewrite Hv. apply contiguous_one.
  - subst s.
    destruct (mapAccum filt (fst (mapAccum filt (finit x) (x :: pre))) c) as [z1 yf] eqn:E.
    exists (Some z1), [mk h (s0 + zlen (x :: pre)) yf]. split; [reflexivity|].
    rewrite <- app_comm_cons. split; [|split].
    + rewrite app_comm_cons, mapAccum_app, E. reflexivity.
    + rewrite map_app, concat_app. cbn [map concat]. rewrite dat_mk, app_nil_r, Hv.
      unfold iir_filtered, filtered. rewrite (app_comm_cons pre c x), mapAccum_app, E. reflexivity.
    + apply contiguous_app; [exact Hc|]. rewrite Hv. unfold iir_filtered, filtered.
      rewrite mapAccum_length. apply contiguous_one.
Qed.

Lemma iir_ok : forall ds : list (list A), nonempty_chunks ds ->
  stage_ok (run (iir_step true filt finit) None (mkstream h s0 ds))
           (iir_filtered filt finit (concat ds)) h s0.
Proof.
  intros ds Hne.
  destruct (run_stream0 (iir_step true filt finit) h s0 iir_inv None iir_step_ok) with (ds := ds)
    as (st & o & E & (_ & Hv & Hc)); [|exact Hne|].
  - split; [reflexivity|]. split; [reflexivity|apply contiguous_nil].
  - exists st, o. auto.
Qed.
End Iir.

(* ------------------------------------------------------------------ *)
(* derivative (annotated input)                                        *)
(* ------------------------------------------------------------------ *)
Section Derivative.
Context {A : Type}.
Variables (sub : A -> A -> A) (init : A) (h : hdr) (s0 : Z).
Hypothesis Hann : h_an h <> None.

Definition deriv_inv (s : option (blk A)) (pre : list A) (outs : list (blk A)) : Prop :=
  (s = Some (mk h (s0 + zlen pre - 1) [last pre init]) \/ (s = None /\ pre = [])) /\
  concat (map dat outs) = derived sub init pre /\ contiguous h s0 outs.

Lemma deriv_step_ok : forall s pre outs c, deriv_inv s pre outs -> c <> [] ->
  exists s' o, derivative_step sub init s (mk h (s0 + zlen pre) c) = Some (s', o) /\
               deriv_inv s' (pre ++ c) (outs ++ o).
Proof.
  intros s pre outs c (Hs & Hv & Hc) Hne.
  destruct (h_an h) as [[[f ch] md]|] eqn:Eh; [|congruence].
  assert (Hist : match s with
                 | Some b => b
                 | None => Blk [init] (two (mk h (s0 + zlen pre) c))
                               (Some (An (s0 + zlen pre - 1) f ch md))
                 end = mk h (s0 + zlen pre - 1) [last pre init]).
  { destruct Hs as [-> | [-> ->]]; [reflexivity|]. unfold mk. rewrite Eh. reflexivity. }
  unfold derivative_step.
  assert (Ean : an (mk h (s0 + zlen pre) c) = Some (An (s0 + zlen pre) f ch md))
    by (unfold mk; rewrite Eh; reflexivity).
  rewrite Ean. cbn [a_s0 a_fsd a_ch a_md]. rewrite Hist.
  rewrite concat2_mk by (unfold zlen; cbn [length]; lia).
  cbn [app]. rewrite dat_mk.
  rewrite (getitem_tail h _ _ 1) by lia.
  rewrite (getitem_neg_tail h _ _ 1) by (rewrite zlen_cons; pose proof (zlen_nonneg c); lia).
  eexists _, _. split; [reflexivity|].
  split; [left|split].
  - rewrite zlen_cons. replace (1 + zlen c - 1) with (zlen c) by lia.
    rewrite zlen_to_nat, skipn_last, last_app2.
    f_equal. apply mk_eq; [rewrite zlen_app; lia|reflexivity].
  - rewrite map_app, concat_app. cbn [map concat dat]. rewrite app_nil_r, Hv.
    unfold derived. now rewrite diff_from_app.
  - apply contiguous_app; [exact Hc|]. rewrite Hv. unfold derived. rewrite diff_from_length.
    unfold contiguous. cbn [map mkstream dat two an mk]. unfold mk. rewrite Eh.
    cbn [option_map dat two an a_s0 a_fsd a_ch a_md slice_s0].
    replace (s0 + zlen pre - 1 + 1) with (s0 + zlen pre) by lia. reflexivity.
Qed.

Lemma deriv_ok : forall ds : list (list A), nonempty_chunks ds ->
  stage_ok (run (derivative_step sub init) None (mkstream h s0 ds)) (derived sub init (concat ds)) h s0.
Proof.
  intros ds Hne.
  destruct (run_stream0 (derivative_step sub init) h s0 deriv_inv None deriv_step_ok) with (ds := ds)
    as (st & o & E & (_ & Hv & Hc)); [|exact Hne|].
  - split; [right; auto|]. split; [reflexivity|apply contiguous_nil].
  - exists st, o. auto.
Qed.
End Derivative.

(* ------------------------------------------------------------------ *)
(* auto_th                                                             *)
(* ------------------------------------------------------------------ *)
Section AutoTh.
Context {A T O : Type}.
Variables (thr : list A -> T) (ge : T -> A -> O) (Bn : Z) (h : hdr) (s0 : Z).
Hypothesis HB : 0 <= Bn.

Definition ath_inv (s : ath_st A T) (pre : list A) (outs : list (blk O)) : Prop :=
  match s with
  | AthAcc None => pre = [] /\ outs = []
  | AthAcc (Some d) => d = mk h s0 pre /\ zlen pre < Bn /\ outs = []
  | AthRun th => Bn <= zlen pre /\ th = thr (firstn (Z.to_nat Bn) pre) /\
                 concat (map dat outs) = map (ge th) pre /\ contiguous h s0 outs
  end.

Lemma ath_step_ok : forall s pre outs c, ath_inv s pre outs -> c <> [] ->
  exists s' o, autoth_step thr ge Bn s (mk h (s0 + zlen pre) c) = Some (s', o) /\
               ath_inv s' (pre ++ c) (outs ++ o).
Proof.
  intros s pre outs c Hinv Hne. pose proof (zlen_nonneg pre) as Hp. pose proof (zlen_nonneg c) as Hcn.
  unfold autoth_step. destruct s as [[d|]|th].
  - (* spooling, something already stored *)
    destruct Hinv as (-> & Hlt & ->).
    rewrite concat2_mk by lia. rewrite dat_mk.
    destruct (zlen (pre ++ c) <? Bn) eqn:E.
    + eexists _, []. split; [reflexivity|]. cbn [app]. repeat split; lia.
    + eexists _, _. split; [reflexivity|]. rewrite py_slice_head by lia. cbn [app].
      split; [lia|]. split; [reflexivity|]. split.
      * cbn [map concat]. now rewrite app_nil_r.
      * apply contiguous_one.
  - (* first chunk *)
    destruct Hinv as (-> & ->). rewrite dat_mk. cbn [app]. rewrite zlen_nil, Z.add_0_r.
    destruct (zlen c <? Bn) eqn:E.
    + eexists _, []. split; [reflexivity|]. cbn [app]. repeat split; lia.
    + eexists _, _. split; [reflexivity|]. rewrite py_slice_head by lia. cbn [app].
      split; [lia|]. split; [reflexivity|]. split.
      * cbn [map concat]. now rewrite app_nil_r.
      * apply contiguous_one.
  - (* running *)
    destruct Hinv as (Hge & -> & Hv & Hc). rewrite dat_mk.
    eexists _, _. split; [reflexivity|].
    split; [rewrite zlen_app; lia|]. split; [now rewrite zfirstn_app_le by lia|]. split.
    + rewrite map_app, concat_app. cbn [map concat dat]. rewrite app_nil_r, Hv. now rewrite map_app.
    + apply contiguous_app; [exact Hc|]. rewrite Hv, zlen_map. apply contiguous_one.
Qed.

Lemma ath_ok : forall ds : list (list A), nonempty_chunks ds ->
  stage_ok (run (autoth_step thr ge Bn) (AthAcc None) (mkstream h s0 ds))
           (thresholded thr ge Bn (concat ds)) h s0.
Proof.
  intros ds Hne.
  destruct (run_stream0 (autoth_step thr ge Bn) h s0 ath_inv (AthAcc None) ath_step_ok) with (ds := ds)
    as (st & o & E & Hinv); [|exact Hne|].
  - split; reflexivity.
  - exists st, o. split; [exact E|]. unfold thresholded.
    destruct st as [[d|]|th].
    + destruct Hinv as (_ & Hlt & ->). destruct (zlen (concat ds) <? Bn) eqn:E1; [|lia].
      split; [reflexivity|apply contiguous_nil].
    + destruct Hinv as (Hnil & ->). rewrite Hnil. rewrite zlen_nil.
      destruct (0 <? Bn) eqn:E1; (split; [reflexivity|apply contiguous_nil]).
    + destruct Hinv as (Hge & -> & Hv & Hc). destruct (zlen (concat ds) <? Bn) eqn:E1; [lia|]. auto.
Qed.
End AutoTh.
