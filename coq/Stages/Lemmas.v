(* List, slice and block lemmas shared by the C12 proofs.  Stdlib only, no axioms. *)
From Coq Require Import ZArith List Bool Lia ZifyBool.
From PV Require Import Stages.Model Stages.Spec.
Import ListNotations.
Open Scope Z_scope.

(* ------------------------------------------------------------------ *)
(* 1. zlen, firstn, skipn                                              *)
(* ------------------------------------------------------------------ *)
Lemma zlen_nonneg {A} (l : list A) : 0 <= zlen l.
Proof. unfold zlen. lia. Qed.
Lemma zlen_nil {A} : zlen (@nil A) = 0.
Proof. reflexivity. Qed.
Lemma zlen_cons {A} (x : A) l : zlen (x :: l) = 1 + zlen l.
Proof. unfold zlen. cbn [length]. lia. Qed.
Lemma zlen_app {A} (l1 l2 : list A) : zlen (l1 ++ l2) = zlen l1 + zlen l2.
Proof. unfold zlen. rewrite app_length. lia. Qed.
Lemma zlen_map {A B} (f : A -> B) l : zlen (map f l) = zlen l.
Proof. unfold zlen. now rewrite map_length. Qed.
Lemma zlen_zero_nil {A} (l : list A) : zlen l = 0 -> l = [].
Proof. destruct l; [reflexivity|]. rewrite zlen_cons. pose proof (zlen_nonneg l). lia. Qed.
Lemma zlen_nonempty {A} (l : list A) : l <> [] -> 1 <= zlen l.
Proof. destruct l; [congruence|]. rewrite zlen_cons. pose proof (zlen_nonneg l). lia. Qed.
Lemma zlen_firstn {A} (k : Z) (l : list A) : 0 <= k <= zlen l -> zlen (firstn (Z.to_nat k) l) = k.
Proof. unfold zlen. intros H. rewrite firstn_length. lia. Qed.
Lemma zlen_skipn {A} (k : Z) (l : list A) : 0 <= k <= zlen l -> zlen (skipn (Z.to_nat k) l) = zlen l - k.
Proof. unfold zlen. intros H. rewrite skipn_length. lia. Qed.
Lemma zlen_to_nat {A} (l : list A) : Z.to_nat (zlen l) = length l.
Proof. unfold zlen. lia. Qed.

Lemma zfirstn_app_le {A} (k : Z) (l1 l2 : list A) : 0 <= k <= zlen l1 ->
  firstn (Z.to_nat k) (l1 ++ l2) = firstn (Z.to_nat k) l1.
Proof.
  unfold zlen. intros H. rewrite firstn_app.
  replace (Z.to_nat k - length l1)%nat with 0%nat by lia. cbn [firstn]. apply app_nil_r.
Qed.
Lemma zskipn_app_le {A} (k : Z) (l1 l2 : list A) : 0 <= k <= zlen l1 ->
  skipn (Z.to_nat k) (l1 ++ l2) = skipn (Z.to_nat k) l1 ++ l2.
Proof.
  unfold zlen. intros H. rewrite skipn_app.
  replace (Z.to_nat k - length l1)%nat with 0%nat by lia. reflexivity.
Qed.
Lemma zskipn_app_ge {A} (k : Z) (l1 l2 : list A) : zlen l1 <= k ->
  skipn (Z.to_nat k) (l1 ++ l2) = skipn (Z.to_nat (k - zlen l1)) l2.
Proof.
  unfold zlen. intros H. rewrite skipn_app. rewrite skipn_all2 by lia. cbn [app].
  f_equal. lia.
Qed.
Lemma zfirstn_app_ge {A} (k : Z) (l1 l2 : list A) : zlen l1 <= k ->
  firstn (Z.to_nat k) (l1 ++ l2) = l1 ++ firstn (Z.to_nat (k - zlen l1)) l2.
Proof.
  unfold zlen. intros H. rewrite firstn_app. rewrite firstn_all2 by lia. f_equal. f_equal. lia.
Qed.
Lemma zskipn_all {A} (k : Z) (l : list A) : zlen l <= k -> skipn (Z.to_nat k) l = [].
Proof. unfold zlen. intros H. apply skipn_all2. lia. Qed.
Lemma zfirstn_all {A} (k : Z) (l : list A) : zlen l <= k -> firstn (Z.to_nat k) l = l.
Proof. unfold zlen. intros H. apply firstn_all2. lia. Qed.

Lemma concat_snoc {A} (ls : list (list A)) (l : list A) : concat (ls ++ [l]) = concat ls ++ l.
Proof. rewrite concat_app. cbn [concat]. now rewrite app_nil_r. Qed.

(* a decomposition xs = done ++ r with |done| = q*E and |r| < q is the division of |xs| by q *)
Lemma split_unique {A} (q E : Z) (xs done r : list A) :
  1 <= q -> xs = done ++ r -> zlen done = q * E -> zlen r < q ->
  E = zlen xs / q /\ done = firstn (Z.to_nat (q * (zlen xs / q))) xs.
Proof.
  intros Hq -> Hd Hr. pose proof (zlen_nonneg r) as Hr0. pose proof (zlen_nonneg done) as Hd0.
  rewrite zlen_app.
  assert (HE : E = (zlen done + zlen r) / q).
  { rewrite Hd. apply Z.div_unique with (r := zlen r); lia. }
  split; [exact HE|].
  rewrite <- HE, <- Hd. rewrite zfirstn_app_le by lia. now rewrite zfirstn_all by lia.
Qed.

(* ------------------------------------------------------------------ *)
(* 2. Python slices on lists                                           *)
(* ------------------------------------------------------------------ *)
Lemma py_slice_all {A} (l : list A) : py_slice None None l = l.
Proof.
  unfold py_slice, py_lo, py_hi. rewrite Z.sub_0_r, zlen_to_nat. cbn [Z.to_nat skipn].
  apply firstn_all.
Qed.
Lemma py_slice_head {A} (k : Z) (l : list A) : 0 <= k ->
  py_slice None (Some k) l = firstn (Z.to_nat k) l.
Proof.
  intros Hk. unfold py_slice, py_lo, py_hi, adj_bound. cbn [Z.to_nat skipn].
  destruct (k <? 0) eqn:E; [lia|]. rewrite Z.sub_0_r.
  destruct (Z.le_gt_cases k (zlen l)) as [H|H].
  - now rewrite Z.min_l by lia.
  - rewrite Z.min_r by lia. rewrite !zfirstn_all by lia. reflexivity.
Qed.
Lemma py_slice_tail {A} (k : Z) (l : list A) : 0 <= k ->
  py_slice (Some k) None l = skipn (Z.to_nat k) l.
Proof.
  intros Hk. unfold py_slice, py_lo, py_hi, adj_bound.
  destruct (k <? 0) eqn:E; [lia|].
  pose proof (zlen_nonneg l) as Hn.
  destruct (Z.le_gt_cases k (zlen l)) as [H|H].
  - rewrite Z.min_l by lia. apply zfirstn_all. rewrite zlen_skipn by lia. lia.
  - rewrite Z.min_r by lia. rewrite !zskipn_all by lia. now rewrite firstn_nil.
Qed.
Lemma py_slice_neg_tail {A} (r : Z) (l : list A) : 0 < r <= zlen l ->
  py_slice (Some (- r)) None l = skipn (Z.to_nat (zlen l - r)) l.
Proof.
  intros Hr. unfold py_slice, py_lo, py_hi, adj_bound.
  destruct (- r <? 0) eqn:E; [|lia].
  rewrite Z.max_r by lia. replace (- r + zlen l) with (zlen l - r) by lia.
  apply zfirstn_all. rewrite zlen_skipn by lia. lia.
Qed.
Lemma py_slice_neg_head {A} (r : Z) (l : list A) : 0 < r <= zlen l ->
  py_slice None (Some (- r)) l = firstn (Z.to_nat (zlen l - r)) l.
Proof.
  intros Hr. unfold py_slice, py_lo, py_hi, adj_bound. cbn [Z.to_nat skipn].
  destruct (- r <? 0) eqn:E; [|lia].
  rewrite Z.max_r by lia. rewrite Z.sub_0_r. f_equal. f_equal. lia.
Qed.

(* ------------------------------------------------------------------ *)
(* 3. every q-th sample                                                *)
(* ------------------------------------------------------------------ *)
Lemma every_skip {A} (q : nat) (a b : list A) :
  every_nth_aux (length a) q (a ++ b) = every_nth_aux 0 q b.
Proof. induction a as [|x a IH]; [reflexivity|]. cbn [length app every_nth_aux]. exact IH. Qed.

Lemma every_aux_skipn {A} (q : nat) : forall (k : nat) (l : list A),
  every_nth_aux k q l = every_nth_aux 0 q (skipn k l).
Proof.
  induction k as [|k IH]; intros l; [reflexivity|].
  destruct l as [|x l]; [reflexivity|]. cbn [every_nth_aux skipn]. apply IH.
Qed.

(* one period: the first sample is kept, the next q-1 are skipped *)
Lemma every_block {A} (q : nat) (x : A) (a b : list A) : (1 <= q)%nat -> length a = (q - 1)%nat ->
  every_nth_aux 0 q (x :: a ++ b) = x :: every_nth_aux 0 q b.
Proof. intros Hq Ha. cbn [every_nth_aux]. f_equal. rewrite <- Ha. apply every_skip. Qed.

Lemma every_app_nat {A} (q : nat) : (1 <= q)%nat -> forall (m : nat) (a b : list A),
  length a = (q * m)%nat ->
  every_nth_aux 0 q (a ++ b) = every_nth_aux 0 q a ++ every_nth_aux 0 q b /\
  length (every_nth_aux 0 q a) = m.
Proof.
  intros Hq. induction m as [|m IH]; intros a b Ha.
  - assert (a = []) by (destruct a; [reflexivity|cbn [length] in Ha; lia]). subst a. split; reflexivity.
  - destruct a as [|x a]; [cbn [length] in Ha; lia|].
    cbn [length] in Ha.
    pose (a1 := firstn (q - 1) a). pose (a2 := skipn (q - 1) a).
    assert (Ha12 : a = a1 ++ a2) by (symmetry; apply firstn_skipn).
    assert (Hl1 : length a1 = (q - 1)%nat) by (unfold a1; rewrite firstn_length; lia).
    assert (Hl2 : length a2 = (q * m)%nat) by (unfold a2; rewrite skipn_length; lia).
    destruct (IH a2 b Hl2) as [IH1 IH2].
    rewrite Ha12. split.
    + rewrite <- app_comm_cons. rewrite <- app_assoc.
      rewrite (every_block q x a1 (a2 ++ b) Hq Hl1).
      rewrite (every_block q x a1 a2 Hq Hl1). rewrite IH1. reflexivity.
    + rewrite (every_block q x a1 a2 Hq Hl1). cbn [length]. now rewrite IH2.
Qed.

Lemma every_app {A} (q m : Z) (a b : list A) : 1 <= q -> 0 <= m -> zlen a = q * m ->
  every q (a ++ b) = every q a ++ every q b /\ zlen (every q a) = m.
Proof.
  intros Hq Hm Ha. unfold every.
  destruct (every_app_nat (Z.to_nat q) ltac:(lia) (Z.to_nat m) a b) as [H1 H2].
  - unfold zlen in Ha. nia.
  - split; [exact H1|]. unfold zlen. rewrite H2. lia.
Qed.

Lemma nth_error_skipn {A} : forall (a b : nat) (l : list A),
  nth_error (skipn a l) b = nth_error l (a + b).
Proof.
  induction a as [|a IH]; intros b l; [reflexivity|].
  destruct l as [|x l]; [now destruct b|]. cbn [skipn Nat.add nth_error]. apply IH.
Qed.

(* the characterisation: the k-th kept sample is sample number k*q *)
Lemma every_nth_error {A} (q : nat) : (1 <= q)%nat -> forall (k : nat) (l : list A),
  nth_error (every_nth_aux 0 q l) k = nth_error l (k * q).
Proof.
  intros Hq. induction k as [|k IH]; intros l.
  - destruct l; reflexivity.
  - destruct l as [|x l]; [cbn [every_nth_aux nth_error]; now destruct (Datatypes.S k * q)%nat|].
    cbn [every_nth_aux nth_error]. rewrite every_aux_skipn, IH, nth_error_skipn.
    replace (Datatypes.S k * q)%nat with (Datatypes.S (q - 1 + k * q))%nat by lia. reflexivity.
Qed.

Lemma py_slice_step_all {A} (q : Z) (l : list A) : py_slice_step None None q l = every q l.
Proof. unfold py_slice_step, every. now rewrite py_slice_all. Qed.

(* ------------------------------------------------------------------ *)
(* 4. chop, mapAccum, diff_from, last                                  *)
(* ------------------------------------------------------------------ *)
Lemma chop_length {A} (n : nat) : forall (k : nat) (l : list A), length (chop k n l) = k.
Proof. induction k as [|k IH]; intros l; [reflexivity|]. cbn [chop length]. now rewrite IH. Qed.

Lemma chop_app {A} (n : nat) : forall (k1 k2 : nat) (a b : list A), length a = (k1 * n)%nat ->
  chop (k1 + k2) n (a ++ b) = chop k1 n a ++ chop k2 n b.
Proof.
  induction k1 as [|k1 IH]; intros k2 a b Ha.
  - assert (a = []) by (destruct a; [reflexivity|cbn [length] in Ha; lia]). subst a. reflexivity.
  - cbn [Nat.add chop app].
    assert (Hn : (n <= length a)%nat) by lia.
    rewrite firstn_app. replace (n - length a)%nat with 0%nat by lia. cbn [firstn]. rewrite app_nil_r.
    rewrite skipn_app. replace (n - length a)%nat with 0%nat by lia. cbn [skipn].
    rewrite IH; [reflexivity|]. rewrite skipn_length. lia.
Qed.

Lemma chop_prefix {A} (n k : nat) (a b : list A) : length a = (k * n)%nat ->
  chop k n (a ++ b) = chop k n a.
Proof.
  intros Ha. pose proof (chop_app n k 0 a b Ha) as H. rewrite Nat.add_0_r in H.
  rewrite H. cbn [chop]. apply app_nil_r.
Qed.

Lemma mapAccum_app {F X Y} (f : F -> X -> F * Y) : forall (a b : list X) (z : F),
  mapAccum f z (a ++ b) =
  (fst (mapAccum f (fst (mapAccum f z a)) b),
   snd (mapAccum f z a) ++ snd (mapAccum f (fst (mapAccum f z a)) b)).
Proof.
  induction a as [|x a IH]; intros b z.
  - cbn [app mapAccum fst snd]. now destruct (mapAccum f z b).
  - cbn [app mapAccum]. destruct (f z x) as [z1 y]. rewrite IH.
    destruct (mapAccum f z1 a) as [z2 ys]. cbn [fst snd].
    destruct (mapAccum f z2 b) as [z3 ys']. reflexivity.
Qed.

Lemma mapAccum_length {F X Y} (f : F -> X -> F * Y) : forall (l : list X) (z : F),
  zlen (snd (mapAccum f z l)) = zlen l.
Proof.
  induction l as [|x l IH]; intros z; [reflexivity|].
  cbn [mapAccum]. destruct (f z x) as [z1 y]. specialize (IH z1).
  destruct (mapAccum f z1 l) as [z2 ys]. cbn [snd] in *. rewrite !zlen_cons. lia.
Qed.

Lemma last_cons {A} : forall (a : list A) (x p : A), last (x :: a) p = last a x.
Proof.
  induction a as [|y a IH]; intros x p; [reflexivity|].
  change (last (x :: y :: a) p) with (last (y :: a) p). rewrite (IH y p), (IH y x). reflexivity.
Qed.

Lemma diff_from_app {A O} (sub : A -> A -> O) : forall (a b : list A) (p : A),
  diff_from sub p (a ++ b) = diff_from sub p a ++ diff_from sub (last a p) b.
Proof.
  induction a as [|x a IH]; intros b p; [reflexivity|].
  cbn [app diff_from]. rewrite IH. f_equal. f_equal. f_equal.
  symmetry. apply last_cons.
Qed.
Lemma diff_from_length {A O} (sub : A -> A -> O) : forall (l : list A) (p : A),
  zlen (diff_from sub p l) = zlen l.
Proof. induction l as [|x l IH]; intros p; [reflexivity|]. cbn [diff_from]. rewrite !zlen_cons, IH. lia. Qed.

Lemma last_app2 {A} : forall (a b : list A) (d : A), last (a ++ b) d = last b (last a d).
Proof.
  induction a as [|x a IH]; intros b d; [reflexivity|].
  rewrite <- app_comm_cons. rewrite last_cons, IH, (last_cons a x d). reflexivity.
Qed.

Lemma skipn_last {A} : forall (l : list A) (p : A), skipn (length l) (p :: l) = [last l p].
Proof.
  induction l as [|x l IH]; intros p; [reflexivity|].
  cbn [length]. rewrite skipn_cons. rewrite IH. f_equal. symmetry. apply last_cons.
Qed.

(* ------------------------------------------------------------------ *)
(* 5. blocks with the annotations of a stream                          *)
(* ------------------------------------------------------------------ *)
Lemma dat_mk {A} h s (d : list A) : dat (mk h s d) = d.
Proof. reflexivity. Qed.
Lemma two_mk {A} h s (d : list A) : two (mk h s d) = h_two h.
Proof. reflexivity. Qed.

Lemma mk_eq {A} h s s' (d d' : list A) : s = s' -> d = d' -> mk h s d = mk h s' d'.
Proof. now intros -> ->. Qed.

Lemma eqb_listZ_refl (l : list Z) : eqb_listZ l l = true.
Proof. induction l as [|x l IH]; [reflexivity|]. cbn [eqb_listZ]. rewrite Z.eqb_refl. exact IH. Qed.
Lemma eqb_ch_refl c : eqb_ch c c = true.
Proof. destruct c; [apply eqb_listZ_refl|reflexivity]. Qed.

Lemma getitem_head {A} h s (d : list A) (k : Z) : 0 <= k ->
  getitem None (Some k) None (mk h s d) = mk h s (firstn (Z.to_nat k) d).
Proof.
  intros Hk. unfold getitem, mk. cbn [dat two an]. rewrite py_slice_head by lia.
  destruct (h_an h) as [[[f c] m]|]; reflexivity.
Qed.
Lemma getitem_tail {A} h s (d : list A) (k : Z) : 0 <= k ->
  getitem (Some k) None None (mk h s d) = mk h (s + k) (skipn (Z.to_nat k) d).
Proof.
  intros Hk. unfold getitem, mk. cbn [dat two an]. rewrite py_slice_tail by lia.
  destruct (h_an h) as [[[f c] m]|]; cbn [option_map a_s0 a_fsd a_ch a_md slice_s0]; [|reflexivity].
  destruct (k >? 0) eqn:E1; [reflexivity|]. destruct (k <? 0) eqn:E2; [lia|].
  replace (s + k) with s by lia. reflexivity.
Qed.
Lemma getitem_neg_tail {A} h s (d : list A) (r : Z) : 0 < r <= zlen d ->
  getitem (Some (- r)) None None (mk h s d) = mk h (s + zlen d - r) (skipn (Z.to_nat (zlen d - r)) d).
Proof.
  intros Hr. unfold getitem, mk. cbn [dat two an]. rewrite py_slice_neg_tail by lia.
  destruct (h_an h) as [[[f c] m]|]; cbn [option_map a_s0 a_fsd a_ch a_md slice_s0]; [|reflexivity].
  destruct (- r >? 0) eqn:E1; [lia|]. destruct (- r <? 0) eqn:E2; [|lia].
  replace (s + zlen d + - r) with (s + zlen d - r) by lia. reflexivity.
Qed.
Lemma getitem_neg_head {A} h s (d : list A) (r : Z) : 0 < r <= zlen d ->
  getitem None (Some (- r)) None (mk h s d) = mk h s (firstn (Z.to_nat (zlen d - r)) d).
Proof.
  intros Hr. unfold getitem, mk. cbn [dat two an]. rewrite py_slice_neg_head by lia.
  destruct (h_an h) as [[[f c] m]|]; reflexivity.
Qed.
Lemma getitem_step {A} h s (d : list A) (q : Z) :
  getitem None None (Some q) (mk h s d) = mk (h_scale q h) s (every q d).
Proof.
  unfold getitem, mk, h_scale. cbn [dat two an h_two h_an]. rewrite py_slice_step_all.
  destruct (h_an h) as [[[f c] m]|]; reflexivity.
Qed.
Lemma set_s0_mk {A} h s s' (d : list A) : set_s0 s' (mk h s d) = mk h s' d.
Proof. unfold set_s0, mk. cbn [dat two an]. destruct (h_an h) as [[[f c] m]|]; reflexivity. Qed.
Lemma s0_of_mk {A} h s (d : list A) : s0_of (mk h s d) = h_s0 h s.
Proof. unfold s0_of, mk, h_s0. cbn [an]. destruct (h_an h) as [[[f c] m]|]; reflexivity. Qed.

Lemma concat2_mk {A} h s s' (d1 d2 : list A) : s' = s + zlen d1 ->
  concat2 (mk h s d1) (mk h s' d2) = Some (mk h s (d1 ++ d2)).
Proof.
  intros ->. unfold concat2, mk. cbn [dat two an].
  destruct (h_an h) as [[[f c] m]|]; cbn [a_s0 a_fsd a_ch a_md].
  - rewrite eqb_reflx, !Z.eqb_refl, eqb_ch_refl. reflexivity.
  - rewrite eqb_reflx. reflexivity.
Qed.

Lemma mkstream_app {A} h : forall (a b : list (list A)) s,
  mkstream h s (a ++ b) = mkstream h s a ++ mkstream h (s + zlen (concat a)) b.
Proof.
  induction a as [|d a IH]; intros b s.
  - cbn [app mkstream concat]. rewrite zlen_nil, Z.add_0_r. reflexivity.
  - cbn [app mkstream concat]. rewrite IH. rewrite zlen_app. rewrite Z.add_assoc. reflexivity.
Qed.
Lemma map_dat_mkstream {A} h : forall (ds : list (list A)) s, map dat (mkstream h s ds) = ds.
Proof. induction ds as [|d ds IH]; intros s; [reflexivity|]. cbn [mkstream map]. now rewrite IH. Qed.

Lemma concat_from_mkstream {A} h : forall (ds : list (list A)) s (d : list A),
  concat_from (mk h s d) (mkstream h (s + zlen d) ds) = Some (mk h s (d ++ concat ds)).
Proof.
  induction ds as [|e ds IH]; intros s d.
  - cbn [mkstream concat_from concat]. now rewrite app_nil_r.
  - cbn [mkstream concat_from concat]. rewrite concat2_mk by reflexivity.
    replace (s + zlen d + zlen e) with (s + zlen (d ++ e)) by (rewrite zlen_app; lia).
    rewrite IH. now rewrite app_assoc.
Qed.
Lemma concat_list_mkstream {A} h s (ds : list (list A)) : ds <> [] ->
  concat_list (mkstream h s ds) = Some (mk h s (concat ds)).
Proof.
  destruct ds as [|d ds]; [congruence|]. intros _. cbn [mkstream concat_list concat].
  apply concat_from_mkstream.
Qed.

(* appending contiguous outputs *)
Lemma contiguous_app {A} h s (outs o : list (blk A)) :
  contiguous h s outs -> contiguous h (s + zlen (concat (map dat outs))) o -> contiguous h s (outs ++ o).
Proof.
  unfold contiguous. intros H1 H2. rewrite map_app, mkstream_app. now rewrite <- H1, <- H2.
Qed.
Lemma contiguous_nil {A} h s : contiguous h s (@nil (blk A)).
Proof. reflexivity. Qed.
Lemma contiguous_one {A} h s (d : list A) : contiguous h s [mk h s d].
Proof. reflexivity. Qed.
Lemma contiguous_mkstream {A} h s (ds : list (list A)) : contiguous h s (mkstream h s ds).
Proof. unfold contiguous. now rewrite map_dat_mkstream. Qed.

(* contiguous outputs can always be concatenated (with the concat model), giving one block
   that starts at s, carries h, and holds all the samples *)
Lemma contiguous_concat {A} h s (outs : list (blk A)) : contiguous h s outs -> outs <> [] ->
  concat_list outs = Some (mk h s (concat (map dat outs))).
Proof.
  unfold contiguous. intros H Hne. rewrite H at 1. apply concat_list_mkstream.
  destruct outs; [congruence|discriminate].
Qed.

(* ------------------------------------------------------------------ *)
(* 6. running a stage over a chunked stream                             *)
(* ------------------------------------------------------------------ *)
Lemma run_stream {S A O} (step : S -> blk A -> option (S * list O)) (h : hdr) (s0 : Z)
  (P : S -> list A -> list O -> Prop) :
  (forall st pre outs d, P st pre outs -> d <> [] ->
     exists st' o, step st (mk h (s0 + zlen pre) d) = Some (st', o) /\ P st' (pre ++ d) (outs ++ o)) ->
  forall ds st pre outs, nonempty_chunks ds -> P st pre outs ->
  exists st' o, run step st (mkstream h (s0 + zlen pre) ds) = Some (st', o) /\
                P st' (pre ++ concat ds) (outs ++ o).
Proof.
  intros Hstep. induction ds as [|d ds IH]; intros st pre outs Hne HP.
  - exists st, []. cbn [mkstream run concat]. rewrite !app_nil_r. auto.
  - inversion Hne as [|? ? Hd Hds]; subst.
    destruct (Hstep st pre outs d HP Hd) as (st1 & o1 & E1 & HP1).
    destruct (IH st1 (pre ++ d) (outs ++ o1) Hds HP1) as (st2 & o2 & E2 & HP2).
    exists st2, (o1 ++ o2). cbn [mkstream run concat]. rewrite E1.
    rewrite zlen_app, Z.add_assoc in E2. rewrite E2.
    rewrite <- !app_assoc in HP2. auto.
Qed.

Lemma run_stream0 {S A O} (step : S -> blk A -> option (S * list O)) (h : hdr) (s0 : Z)
  (P : S -> list A -> list O -> Prop) (init : S) :
  (forall st pre outs d, P st pre outs -> d <> [] ->
     exists st' o, step st (mk h (s0 + zlen pre) d) = Some (st', o) /\ P st' (pre ++ d) (outs ++ o)) ->
  P init [] [] ->
  forall ds, nonempty_chunks ds ->
  exists st' o, run step init (mkstream h s0 ds) = Some (st', o) /\ P st' (concat ds) o.
Proof.
  intros Hstep H0 ds Hne.
  destruct (run_stream step h s0 P Hstep ds init [] [] Hne H0) as (st' & o & E & HP).
  rewrite zlen_nil, Z.add_0_r in E. exists st', o. auto.
Qed.
