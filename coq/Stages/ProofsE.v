(* C12: iirfilter and decimate on chunkings that contain zero-length chunks (the stages skip them).
   Stdlib only, no axioms. *)
From Coq Require Import ZArith List Bool Lia ZifyBool.
From PV Require Import Stages.Model Stages.Spec Stages.Lemmas Stages.ProofsA Stages.ProofsB Stages.ProofsD.
Import ListNotations.
Open Scope Z_scope.

Lemma drop_empty_nonempty {A} (ds : list (list A)) : nonempty_chunks (drop_empty ds).
Proof.
  unfold nonempty_chunks, drop_empty. apply Forall_forall. intros d Hd. apply filter_In in Hd.
  destruct Hd as [_ Hd]. destruct d; [discriminate|discriminate].
Qed.
Lemma concat_drop_empty {A} (ds : list (list A)) : concat (drop_empty ds) = concat ds.
Proof.
  induction ds as [|d ds IH]; [reflexivity|]. unfold drop_empty in *. cbn [filter concat].
  destruct d; cbn [is_empty negb app concat]; [exact IH|now rewrite IH].
Qed.

(* a wrapper that skips empty chunks runs like the wrapped stage on the chunking without them *)
Lemma run_skip_empty {S A O} (step : S -> blk A -> option (S * list O)) h : forall (ds : list (list A)) s st,
  run (skip_empty step) st (mkstream h s ds) = run (skip_empty step) st (mkstream h s (drop_empty ds)).
Proof.
  induction ds as [|d ds IH]; intros s st; [reflexivity|].
  unfold drop_empty in *. cbn [filter mkstream]. destruct d as [|x d]; cbn [is_empty negb].
  - cbn [run]. unfold skip_empty at 1. cbn [dat mk]. rewrite zlen_nil, Z.add_0_r. rewrite IH.
    destruct (run (skip_empty step) st _) as [[s2 o2]|]; reflexivity.
  - cbn [mkstream run]. destruct (skip_empty step st (mk h s (x :: d))) as [[s1 o1]|]; [|reflexivity].
    now rewrite IH.
Qed.
Lemma run_skip_nonempty {S A O} (step : S -> blk A -> option (S * list O)) h : forall (ds : list (list A)) s st,
  nonempty_chunks ds -> run (skip_empty step) st (mkstream h s ds) = run step st (mkstream h s ds).
Proof.
  induction ds as [|d ds IH]; intros s st Hne; [reflexivity|]. inversion Hne; subst.
  cbn [mkstream run]. unfold skip_empty at 1. cbn [dat mk]. destruct d; [congruence|].
  destruct (step st _) as [[s1 o1]|]; [|reflexivity]. now rewrite IH.
Qed.

Section AnyChunks.
Context {A F : Type}.
Variables (filt : F -> A -> F * A).

(* ---------------- iirfilter ---------------- *)
Lemma iir_run_any finit h s (ds : list (list A)) :
  run (iir_step_e true filt finit) None (mkstream h s ds)
  = run (iir_step true filt finit) None (mkstream h s (drop_empty ds)).
Proof.
  unfold iir_step_e. rewrite run_skip_empty. apply run_skip_nonempty. apply drop_empty_nonempty.
Qed.
Lemma iir_values_any finit h s (ds : list (list A)) :
  emits_values (run (iir_step_e true filt finit) None (mkstream h s ds)) (iir_filtered filt finit (concat ds)).
Proof.
  rewrite iir_run_any, <- concat_drop_empty. apply iir_values. apply drop_empty_nonempty.
Qed.
Lemma iir_contiguous_any finit h s (ds : list (list A)) :
  emits_contiguous (run (iir_step_e true filt finit) None (mkstream h s ds)) h s.
Proof. rewrite iir_run_any. apply iir_contiguous. apply drop_empty_nonempty. Qed.

(* ---------------- decimate ---------------- *)
Variables (zf0 : F) (q : Z).
Hypothesis Hq : 1 <= q.

Lemma run_stream_any {S O} (step : S -> blk A -> option (S * list O)) (h : hdr) (s0 : Z)
  (P : S -> list A -> list O -> Prop) :
  (forall st pre outs d, P st pre outs ->
     exists st' o, step st (mk h (s0 + zlen pre) d) = Some (st', o) /\ P st' (pre ++ d) (outs ++ o)) ->
  forall ds st pre outs, P st pre outs ->
  exists st' o, run step st (mkstream h (s0 + zlen pre) ds) = Some (st', o) /\
                P st' (pre ++ concat ds) (outs ++ o).
Proof.
  intros Hstep. induction ds as [|d ds IH]; intros st pre outs HP.
  - exists st, []. cbn [mkstream run concat]. rewrite !app_nil_r. auto.
  - destruct (Hstep st pre outs d HP) as (st1 & o1 & E1 & HP1).
    destruct (IH st1 (pre ++ d) (outs ++ o1) HP1) as (st2 & o2 & E2 & HP2).
    exists st2, (o1 ++ o2). cbn [mkstream run concat]. rewrite E1.
    rewrite zlen_app, Z.add_assoc in E2. rewrite E2.
    rewrite <- !app_assoc in HP2. auto.
Qed.

Lemma dec_e_step_ok h s0 : forall s pre outs c, dec_inv filt zf0 q h s0 s pre outs ->
  exists s' o, decimate_step_e true filt zf0 q s (mk h (s0 + zlen pre) c) = Some (s', o) /\
               dec_inv filt zf0 q h s0 s' (pre ++ c) (outs ++ o).
Proof.
  intros s pre outs c Hinv. destruct c as [|x c].
  - (* zero-length chunk: nothing emitted, nothing changed *)
    unfold decimate_step_e. cbn [dat mk]. eexists _, []. split; [reflexivity|]. rewrite !app_nil_r.
    destruct Hinv as (done & r & E & HE & HEo & Hfx & Hd & Hr & Hv & Hst & Hc).
    exists done, r, E. repeat (split; [assumption|]). split; [|exact Hc].
    destruct s as [st|]; [exact Hst|]. subst pre. cbn [d_zf d_s0 d_rem mapAccum fst].
    unfold filtered in Hfx. cbn [mapAccum snd] in Hfx.
    assert (r = []) by (destruct done; destruct r; try discriminate; reflexivity). subst r.
    assert (done = []) by (destruct done; try discriminate; reflexivity). subst done.
    change (zlen (@nil A)) with 0 in *. assert (E = 0) by nia. subst E.
    split; [reflexivity|]. split; [|reflexivity].
    rewrite s0_of_mk. unfold h_s0. destruct (h_an h); lia.
  - unfold decimate_step_e. cbn [dat mk].
    apply (decimate_step_ok filt zf0 q h s0 Hq s pre outs (x :: c) Hinv). discriminate.
Qed.

Lemma dec_e_ok h s0 (ds : list (list A)) :
  stage_ok (run (decimate_step_e true filt zf0 q) None (mkstream h s0 ds))
           (decimated filt zf0 q (concat ds)) (h_scale q h) (h_s0 h s0).
Proof.
  destruct (run_stream_any (decimate_step_e true filt zf0 q) h s0 (dec_inv filt zf0 q h s0)
              (dec_e_step_ok h s0) ds None [] [])
    as (st & o & E & (done & r & E' & HE & HEo & Hfx & Hd & Hr & Hv & _ & Hc)).
  - exists [], [], 0. cbn [map concat app].
    repeat split; try reflexivity; try apply contiguous_nil; unfold zlen; cbn [length]; lia.
  - change (zlen (@nil A)) with 0 in E. rewrite Z.add_0_r in E. cbn [app] in *.
    exists st, o. split; [exact E|]. split; [|exact Hc].
    destruct (split_unique q E' (filtered filt zf0 (concat ds)) done r Hq Hfx Hd Hr) as [_ Hdone].
    rewrite Hv. unfold decimated, downsampled, take_mult. now rewrite <- Hdone.
Qed.

Lemma decimate_values_any h s (ds : list (list A)) :
  emits_values (run (decimate_step_e true filt zf0 q) None (mkstream h s ds)) (decimated filt zf0 q (concat ds)).
Proof. eapply ok_values. apply dec_e_ok. Qed.
Lemma decimate_contiguous_any h s (ds : list (list A)) :
  emits_contiguous (run (decimate_step_e true filt zf0 q) None (mkstream h s ds)) (h_scale q h) (h_s0 h s).
Proof. eapply ok_contiguous. apply dec_e_ok. Qed.
End AnyChunks.
