(* Model of the continuous-data coroutine stages of psiaudio/pipeline.py (property C12):
   blocked, discard, downsample, decimate, rms, derivative, iirfilter, transform / mc_reference,
   auto_th, event_rate.  Definitions only; proofs are in Stages/Proofs*.v.

   A stage is   step : st -> chunk -> option (st * list block)      (None = the code raises)
   and a whole run is the fold [run] of that step over the chunks sent to the coroutine.

   Python                                   model
   ---------------------------------------  -------------------------------------------------------
   ndarray / PipelineData                   blk: one row of samples [dat] (every row of a 2-D array
                                            goes through the same index arithmetic), [two] = ndim is 2,
                                            [an] = None for a plain ndarray, else the annotations
   .s0 .fs .channel .metadata               a_s0; a_fsd (fs = stream rate / a_fsd); a_ch (None or a list
                                            of label ids); a_md (an id for the metadata dict)
   PipelineData.__getitem__[..., a:b:c]     getitem  (slice through Common/PySlice, s0 / fs updated as written)
   pipeline.concat(.., axis=-1)             concat2 / concat_list (None = ValueError)
   signal.lfilter(b, a, y, zi=z)            mapAccum filt z y      (filt abstract: one sample of the recurrence)
   np.mean(d ** 2, axis=-1) ** 0.5          map agg (chop ..)      (agg abstract)
   np.diff(samples) * samples.fs            diff_from sub          (sub abstract)
   sample values                            abstract type; executable instance: stream positions 0,1,2,..
                                            (`s*` functions at the end: recipes "i-th value of the one-shot
                                            computation", evaluated by the harness with the same primitive)
   Defects repaired by the fix-C12 commits are selected by the flag [rep] (true = repaired code); the later
   repair of event_rate's left-over (fix-C12-er) has its own variant [er_loop_unrepaired] / [er_step_unrepaired]. *)
From PV Require Export Common.PySlice.

Record ann := An { a_s0 : Z; a_fsd : Z; a_ch : option (list Z); a_md : Z }.
Record blk (A : Type) := Blk { dat : list A; two : bool; an : option ann }.
Arguments Blk {A} _ _ _.
Arguments dat {A} _.
Arguments two {A} _.
Arguments an {A} _.

(* ---------------- generic run of a coroutine ---------------- *)
Fixpoint run {S I O} (step : S -> I -> option (S * list O)) (s : S) (cs : list I)
  : option (S * list O) :=
  match cs with
  | [] => Some (s, [])
  | c :: t =>
    match step s c with
    | None => None
    | Some (s1, o1) =>
      match run step s1 t with
      | None => None
      | Some (s2, o2) => Some (s2, o1 ++ o2)
      end
    end
  end.

(* ---------------- PipelineData.__getitem__ on the time axis ---------------- *)
(*  if start > 0: s0 += start ; elif start < 0: s0 = s0 + n_time + start ; if step is not None: fs /= step *)
Definition slice_s0 (n : Z) (start : option Z) (s0 : Z) : Z :=
  match start with
  | Some s => if s >? 0 then s0 + s else if s <? 0 then s0 + n + s else s0
  | None => s0
  end.

Definition getitem {A} (start stop step : option Z) (b : blk A) : blk A :=
  Blk (match step with
       | None => py_slice start stop (dat b)
       | Some q => py_slice_step start stop q (dat b)
       end)
      (two b)
      (option_map (fun a => An (slice_s0 (zlen (dat b)) start (a_s0 a))
                               (match step with None => a_fsd a | Some q => a_fsd a * q end)
                               (a_ch a) (a_md a)) (an b)).

Definition set_s0 {A} (s : Z) (b : blk A) : blk A :=
  Blk (dat b) (two b) (option_map (fun a => An s (a_fsd a) (a_ch a) (a_md a)) (an b)).

(* ---------------- pipeline.concat along time ---------------- *)
Definition eqb_ch (a b : option (list Z)) : bool := eqb_option eqb_listZ a b.

(* np.concatenate for two plain arrays; for PipelineData the checks of `concat`:
   same ndim, same fs, second starts where the first ends, same channel, same metadata;
   mixing plain and annotated raises.  The result carries the annotations of the first. *)
Definition concat2 {A} (x y : blk A) : option (blk A) :=
  match an x, an y with
  | None, None => if eqb (two x) (two y) then Some (Blk (dat x ++ dat y) (two x) None) else None
  | Some a, Some b =>
    if eqb (two x) (two y) && (a_fsd a =? a_fsd b) && (a_s0 b =? a_s0 a + zlen (dat x))
       && eqb_ch (a_ch a) (a_ch b) && (a_md a =? a_md b)
    then Some (Blk (dat x ++ dat y) (two x) (Some a)) else None
  | _, _ => None
  end.

Fixpoint concat_from {A} (acc : blk A) (l : list (blk A)) : option (blk A) :=
  match l with
  | [] => Some acc
  | y :: t => match concat2 acc y with Some z => concat_from z t | None => None end
  end.
Definition concat_list {A} (l : list (blk A)) : option (blk A) :=
  match l with [] => None | x :: t => concat_from x t end.

(* ---------------- blocked(block_size, target) ---------------- *)
Record blocked_st (A : Type) := BlockedSt { b_data : list (blk A); b_n : Z }.
Arguments BlockedSt {A} _ _.
Arguments b_data {A} _.
Arguments b_n {A} _.

(* while merged.shape[-1] >= block_size: target(merged[..., :bs]); merged = merged[..., bs:]
   (fuel = number of samples; None = out of fuel, i.e. the loop would not terminate) *)
Fixpoint split_blocks {A} (fuel : nat) (bs : Z) (m : blk A) : option (list (blk A) * blk A) :=
  if zlen (dat m) >=? bs then
    match fuel with
    | O => None
    | Datatypes.S f =>
      match split_blocks f bs (getitem (Some bs) None None m) with
      | Some (outs, r) => Some (getitem None (Some bs) None m :: outs, r)
      | None => None
      end
    end
  else Some ([], m).

Definition blocked_init {A} : blocked_st A := BlockedSt [] 0.
Definition blocked_step {A} (bs : Z) (s : blocked_st A) (d : blk A)
  : option (blocked_st A * list (blk A)) :=
  let n := b_n s + zlen (dat d) in
  let data := b_data s ++ [d] in
  if n >=? bs then
    match concat_list data with
    | None => None
    | Some merged =>
      match split_blocks (length (dat merged)) bs merged with
      | None => None
      | Some (outs, r) => Some (BlockedSt [r] (zlen (dat r)), outs)
      end
    end
  else Some (BlockedSt data n, []).

(* ---------------- discard(discard_samples, cb) ---------------- *)
Definition discard_step {A} (td : Z) (c : blk A) : option (Z * list (blk A)) :=
  let n := zlen (dat c) in
  if td =? 0 then Some (0, [c])
  else if n <=? td then Some (td - n, [])
  else if n >? td then Some (0, [getitem (Some td) None None c])
  else Some (td, []).

(* ---------------- the remainder split shared by downsample and decimate ----------------
     remainder = y.shape[-1] % q
     if remainder != 0: y_remainder = y[..., -remainder:]; y = y[..., :-remainder]
     else: y_remainder = None
     result = y[..., ::q]                                                         *)
Definition split_rem {A} (q : Z) (y : blk A) : option (blk A) * blk A :=
  let r := zlen (dat y) mod q in
  let '(rem, y1) :=
    if negb (r =? 0) then (Some (getitem (Some (- r)) None None y), getitem None (Some (- r)) None y)
    else (None, y) in
  (rem, getitem None None (Some q) y1).

Definition s0_of {A} (y : blk A) : Z :=         (* getattr(y, 's0', 0) *)
  match an y with Some a => a_s0 a | None => 0 end.

(* ---------------- downsample(q, target) ---------------- *)
Record ds_st (A : Type) := DsSt { ds_rem : option (blk A); ds_s0 : option Z }.
Arguments DsSt {A} _ _.
Arguments ds_rem {A} _.
Arguments ds_s0 {A} _.
Definition ds_init {A} : ds_st A := DsSt None None.

(* rep = true : the output-sample counter s0 added by the repair (as decimate always had);
   rep = false: the result keeps the input-rate s0 left by __getitem__.
   `if len(result)`: number of samples for 1-D, number of channels (never 0) for 2-D. *)
Definition downsample_step {A} (rep : bool) (q : Z) (s : ds_st A) (ynew : blk A)
  : option (ds_st A * list (blk A)) :=
  match (match ds_rem s with None => Some ynew | Some r => concat2 r ynew end) with
  | None => None
  | Some y =>
    let s0 := match ds_s0 s with Some z => z | None => s0_of y end in
    let '(rem, result0) := split_rem q y in
    let result := if rep then set_s0 s0 result0 else result0 in
    let emit := if two result then true else negb (zlen (dat result) =? 0) in
    Some (DsSt rem (Some (s0 + zlen (dat result))), if emit then [result] else [])
  end.

(* ---------------- lfilter with carried state ---------------- *)
Fixpoint mapAccum {F X Y} (f : F -> X -> F * Y) (z : F) (l : list X) : F * list Y :=
  match l with
  | [] => (z, [])
  | x :: t => let '(z1, y) := f z x in let '(z2, ys) := mapAccum f z1 t in (z2, y :: ys)
  end.

(* ---------------- decimate(q, target) ---------------- *)
Record dec_st (F A : Type) := DecSt { d_zf : F; d_s0 : Z; d_rem : option (blk A) }.
Arguments DecSt {F A} _ _ _.
Arguments d_zf {F A} _.
Arguments d_s0 {F A} _.
Arguments d_rem {F A} _.

(* rep = true : each chunk is filtered as it arrives and the FILTERED remainder is put in front of it;
   rep = false: the filtered remainder is concatenated with the next raw chunk and filtered again.
   `PipelineData(y_filt, y.fs, y.s0, y.channel, y.metadata)`: same annotations as y. *)
Definition decimate_step {F A} (rep : bool) (filt : F -> A -> F * A) (zf0 : F) (q : Z)
  (s : option (dec_st F A)) (c : blk A) : option (option (dec_st F A) * list (blk A)) :=
  let st := match s with Some st => st | None => DecSt zf0 (s0_of c) None end in
  match (if rep then Some c else match d_rem st with None => Some c | Some r => concat2 r c end) with
  | None => None
  | Some y =>
    let '(zf1, yf) := mapAccum filt (d_zf st) (dat y) in
    let y_filt0 := Blk yf (two y) (an y) in
    match (if rep then match d_rem st with None => Some y_filt0 | Some r => concat2 r y_filt0 end
           else Some y_filt0) with
    | None => None
    | Some y_filt =>
      let '(rem, result0) := split_rem q y_filt in
      let result := set_s0 (d_s0 st) result0 in
      Some (Some (DecSt zf1 (d_s0 st + zlen (dat result)) rem),
            if zlen (dat result) >? 0 then [result] else [])
    end
  end.

(* ---------------- rms(fs, duration, target), n = int(round(fs * duration)) ---------------- *)
(* reshape [.., n_blocks, n] *)
Fixpoint chop {A} (k : nat) (n : nat) (l : list A) : list (list A) :=
  match k with O => [] | Datatypes.S k' => firstn n l :: chop k' n (skipn n l) end.

Record rms_st (A : Type) := RmsSt { r_data : list (blk A); r_n : Z }.
Arguments RmsSt {A} _ _.
Arguments r_data {A} _.
Arguments r_n {A} _.
Definition rms_init {A} : rms_st A := RmsSt [] 0.

(* result of np.mean(d ** 2, axis=-1) ** 0.5: PipelineData.mean(axis=-1) divides fs and s0 by n (true
   division: the model's Z division is exact when n divides s0).  Channel attribute of the result for
   1-D input: the reshaped 2-D view got [None]*n_blocks (rep = false); the repair restores data.channel. *)
Definition rms_step {A O} (rep : bool) (agg : list A -> O) (n : Z) (s : rms_st A) (c : blk A)
  : option (rms_st A * list (blk O)) :=
  let data := r_data s ++ [c] in
  let samples := r_n s + zlen (dat c) in
  if samples >=? n then
    match concat_list data with
    | None => None
    | Some m =>
      let nb := zlen (dat m) / n in
      let ns := nb * n in
      let d := getitem None (Some ns) None m in
      let vals := map agg (chop (Z.to_nat nb) (Z.to_nat n) (dat d)) in
      let result :=
        Blk vals (two m)
            (option_map (fun a => An (a_s0 a / n) (a_fsd a * n)
                                     (if two m then a_ch a else if rep then a_ch a
                                      else Some (repeat 0 (Z.to_nat nb)))
                                     (a_md a)) (an d)) in
      let r := getitem (Some ns) None None m in
      Some (RmsSt [r] (zlen (dat r)), [result])
    end
  else Some (RmsSt data samples, []).

(* ---------------- derivative(initial_state, target) ---------------- *)
Fixpoint diff_from {A O} (sub : A -> A -> O) (prev : A) (l : list A) : list O :=
  match l with [] => [] | x :: t => sub x prev :: diff_from sub x t end.

(* state = the `initial_state` array (None before the first chunk).  np.diff(samples) is
   samples[..., 1:] - samples[..., :-1]; `* samples.fs` is part of [sub].  A plain ndarray has no
   `.fs`: AttributeError (None). *)
Definition derivative_step {A} (sub : A -> A -> A) (init : A) (s : option (blk A)) (c : blk A)
  : option (option (blk A) * list (blk A)) :=
  match an c with
  | None => None
  | Some a =>
    let ist := match s with
               | Some b => b
               | None => Blk [init] (two c) (Some (An (a_s0 a - 1) (a_fsd a) (a_ch a) (a_md a)))
               end in
    match concat2 ist c with
    | None => None
    | Some samples =>
      let hi := getitem (Some 1) None None samples in
      let d := match dat samples with [] => [] | p :: t => diff_from sub p t end in
      Some (Some (getitem (Some (-1)) None None samples), [Blk d (two hi) (an hi)])
    end
  end.

(* ---------------- iirfilter(fs, N, Wn, rp, rs, btype, ftype, target) ---------------- *)
(* zo = zi * y[..., :1] on the first chunk ([finit] of its first sample; an empty first chunk raises).
   rep = false: PipelineData(y_filt, y.fs, y.s0): default channel ([None]*n_channels / None), metadata {} (id 0)
   rep = true : PipelineData(y_filt, y.fs, y.s0, y.channel, y.metadata) *)
Definition iir_step {F A} (rep : bool) (filt : F -> A -> F * A) (finit : A -> F)
  (s : option F) (y : blk A) : option (option F * list (blk A)) :=
  match (match s with Some z => Some z | None => match dat y with x :: _ => Some (finit x) | [] => None end end) with
  | None => None
  | Some zo =>
    let '(z1, yf) := mapAccum filt zo (dat y) in
    Some (Some z1,
          [Blk yf (two y)
               (if rep then an y
                else option_map (fun a => An (a_s0 a) (a_fsd a)
                                             (option_map (fun l => repeat 0 (length l)) (a_ch a)) 0) (an y))])
  end.

(* ---------------- transform(function, target) with an elementwise function; mc_reference(matrix, target)
   (there a "sample" is the column of all channels at one instant and g is the matrix product) ---------------- *)
Definition map_step {A O} (g : A -> O) (s : unit) (c : blk A) : option (unit * list (blk O)) :=
  Some (tt, [Blk (map g (dat c)) (two c) (an c)]).

(* ---------------- auto_th(n, baseline, target, fs, mode), B = int(np.round(baseline * fs)) ---------------- *)
Inductive ath_st (A T : Type) :=
| AthAcc (d : option (blk A))      (* still spooling the baseline *)
| AthRun (th : T).
Arguments AthAcc {A T} _.
Arguments AthRun {A T} _.

(* thr = "std of the first B samples times n", ge th = the comparison with the threshold (mode) *)
Definition autoth_step {A T O} (thr : list A -> T) (ge : T -> A -> O) (Bn : Z)
  (s : ath_st A T) (c : blk A) : option (ath_st A T * list (blk O)) :=
  match s with
  | AthRun th => Some (AthRun th, [Blk (map (ge th) (dat c)) (two c) (an c)])
  | AthAcc d =>
    match (match d with None => Some c | Some d0 => concat2 d0 c end) with
    | None => None
    | Some data =>
      if zlen (dat data) <? Bn then Some (AthAcc (Some data), [])
      else
        let th := thr (py_slice None (Some Bn) (dat data)) in
        Some (AthRun th, [Blk (map (ge th) (dat data)) (two data) (an data)])
    end
  end.

(* ---------------- event_rate(block_size, block_step, target) over Events ---------------- *)
Record events := Ev { evs : list Z; e_lo : Z; e_hi : Z }.
(* emitted PipelineData([rate], s0=s0, fs=fs): counts per window (rate = count / block_size * fs),
   twice the s0 attribute (s0 = start + block_size * 0.5 may be a half), fs divisor = block_step *)
Record rblk := Rb { r_counts : list Z; r_s0x2 : Z; r_fsd : Z }.

Definition get_range (e : events) (s t : Z) : option events :=
  if (s <? e_lo e) || (t >? e_hi e) then None
  else Some (Ev (filter (fun x => (s <=? x) && (x <? t)) (evs e)) s t).
Definition combine_events (a b : events) : option events :=
  if e_lo b =? e_hi a then Some (Ev (evs a ++ evs b) (e_lo a) (e_hi b)) else None.

(* the left-over of one pass of the window loop.
   repaired (fix-C12-er):   start = events.start + block_step
                            keep = events.events['sample'] >= start
                            events = Events(events.events[keep], start, events.end, events.fs)
   i.e. trimmed on the LEFT only: an event at or after events.end (pipeline.edges reports a confirmed rising edge up
   to min_samples late and a falling edge immediately, so a block may carry events at or after its own end) stays in
   the state until a later block completes the window it belongs to.  No range check, hence no ValueError.
   unrepaired ([er_loop_unrepaired] below): events.get_range_samples(events.start + block_step, events.end), whose
   mask start <= sample < end also drops every event at or after events.end. *)
Definition trim_left (e : events) (s : Z) : events := Ev (filter (fun x => s <=? x) (evs e)) s (e_hi e).

Fixpoint er_loop (fuel : nat) (bsz stp : Z) (e : events) : option (list Z * events) :=
  if e_hi e - e_lo e >? bsz then
    match fuel with
    | O => None
    | Datatypes.S f =>
      match get_range e (e_lo e) (e_lo e + bsz) with
      | Some b =>
        match er_loop f bsz stp (trim_left e (e_lo e + stp)) with
        | Some (cs, e'') => Some (zlen (evs b) :: cs, e'')
        | None => None
        end
      | None => None
      end
    end
  else Some ([], e).

Record er_st := ErSt { er_ev : events; er_s0x2 : Z }.
(* rep = true: the first chunk is processed when it arrives; rep = false: only stored *)
Definition er_step (rep : bool) (bsz stp : Z) (s : option er_st) (c : events)
  : option (option er_st * list rblk) :=
  match (match s with
         | None => Some (c, 2 * e_lo c + bsz, rep)
         | Some st => match combine_events (er_ev st) c with
                      | Some e => Some (e, er_s0x2 st, true)
                      | None => None
                      end
         end) with
  | None => None
  | Some (e, s0, process) =>
    if process then
      match er_loop (Z.to_nat (e_hi e - e_lo e)) bsz stp e with
      | None => None
      | Some (cs, e') =>
        match cs with
        | [] => Some (Some (ErSt e' s0), [])
        | _ => Some (Some (ErSt e' (s0 + 2 * zlen cs)), [Rb cs s0 stp])
        end
      end
    else Some (Some (ErSt e s0), [])
  end.

(* event_rate before the repair "event_rate keeps events reported ahead of their block's span" (fix-C12-er): the
   left-over is cut on both sides by get_range_samples.  [er_step_unrepaired true] is the code between the fix-C12
   commits and that repair, [er_step_unrepaired false] the original code (first chunk only stored, too). *)
Fixpoint er_loop_unrepaired (fuel : nat) (bsz stp : Z) (e : events) : option (list Z * events) :=
  if e_hi e - e_lo e >? bsz then
    match fuel with
    | O => None
    | Datatypes.S f =>
      match get_range e (e_lo e) (e_lo e + bsz), get_range e (e_lo e + stp) (e_hi e) with
      | Some b, Some e' =>
        match er_loop_unrepaired f bsz stp e' with
        | Some (cs, e'') => Some (zlen (evs b) :: cs, e'')
        | None => None
        end
      | _, _ => None
      end
    end
  else Some ([], e).

Definition er_step_unrepaired (rep : bool) (bsz stp : Z) (s : option er_st) (c : events)
  : option (option er_st * list rblk) :=
  match (match s with
         | None => Some (c, 2 * e_lo c + bsz, rep)
         | Some st => match combine_events (er_ev st) c with
                      | Some e => Some (e, er_s0x2 st, true)
                      | None => None
                      end
         end) with
  | None => None
  | Some (e, s0, process) =>
    if process then
      match er_loop_unrepaired (Z.to_nat (e_hi e - e_lo e)) bsz stp e with
      | None => None
      | Some (cs, e') =>
        match cs with
        | [] => Some (Some (ErSt e' s0), [])
        | _ => Some (Some (ErSt e' (s0 + 2 * zlen cs)), [Rb cs s0 stp])
        end
      end
    else Some (Some (ErSt e s0), [])
  end.

(* ================= executable instance used by the generated correspondence files ================= *)
(* input streams: chunk sizes -> chunks of stream positions 0,1,2,.. with the annotations of a stream *)
Record hdr := Hdr { h_two : bool; h_an : option (Z * option (list Z) * Z) }.   (* fs divisor, channel, metadata *)
Definition mk {A} (h : hdr) (s : Z) (d : list A) : blk A :=
  Blk d (h_two h) (match h_an h with Some (f, c, m) => Some (An s f c m) | None => None end).
Fixpoint mkstream {A} (h : hdr) (s : Z) (ds : list (list A)) : list (blk A) :=
  match ds with [] => [] | d :: t => mk h s d :: mkstream h (s + zlen d) t end.
Fixpoint cut (sizes : list Z) (lo : Z) : list (list Z) :=
  match sizes with [] => [] | n :: t => zrange (fun i => i) lo n :: cut t (lo + n) end.

Definition bad : Z := -7.
(* SFilt i: "i-th output of the one-shot filter": the state counts the samples consumed in order *)
Definition sfilt (st x : Z) : Z * Z := if (0 <=? st) && (x =? st) then (st + 1, st) else (-1, bad).
Definition sfinit (x : Z) : Z := if x =? 0 then 0 else -1.
(* SRms k: "RMS of the k-th block of n samples of the stream" *)
Definition sagg (n : Z) (l : list Z) : Z :=
  match l with
  | a :: _ => if (a mod n =? 0) && eqb_listZ l (zrange (fun i => i) a n) then a / n else bad
  | [] => bad
  end.
(* SDiff j: "(x[j] - x[j-1]) * fs", x[-1] = initial state (position -1) *)
Definition ssub (x p : Z) : Z := if p =? x - 1 then x else bad.
(* SThr: the threshold of the stream's first B samples; the thresholded value of position i is table[i] *)
Definition sthr (Bn : Z) (l : list Z) : Z := if eqb_listZ l (zrange (fun i => i) 0 Bn) then 1 else 0.
Definition sge (table : list Z) (th x : Z) : Z := if th =? 1 then nth (Z.to_nat x) table bad else bad.

Definition eqb_ann (a b : ann) : bool :=
  (a_s0 a =? a_s0 b) && (a_fsd a =? a_fsd b) && eqb_ch (a_ch a) (a_ch b) && (a_md a =? a_md b).
Definition eqb_blk (x y : blk Z) : bool :=
  eqb_listZ (dat x) (dat y) && eqb (two x) (two y) && eqb_option eqb_ann (an x) (an y).
Definition eqb_outs (got : option (list (blk Z))) (want : option (list (blk Z))) : bool :=
  eqb_option (eqb_list eqb_blk) got want.
Definition outs_of {S O} (r : option (S * list O)) : option (list O) :=
  match r with Some (_, o) => Some o | None => None end.

Definition inputs (h : hdr) (s0 : Z) (sizes : list Z) : list (blk Z) := mkstream h s0 (cut sizes 0).

(* each check: the model, run on the chunking [sizes] of the stream with header h starting at s0, emits
   exactly the blocks the implementation emitted ([got]; None = the implementation raised) *)
Definition check_blocked (bs : Z) h s0 sizes got : bool :=
  eqb_outs (outs_of (run (blocked_step bs) blocked_init (inputs h s0 sizes))) got.
Definition check_discard (d : Z) h s0 sizes got : bool :=
  eqb_outs (outs_of (run discard_step d (inputs h s0 sizes))) got.
Definition check_downsample (rep : bool) (q : Z) h s0 sizes got : bool :=
  eqb_outs (outs_of (run (downsample_step rep q) ds_init (inputs h s0 sizes))) got.
Definition check_decimate (rep : bool) (q : Z) h s0 sizes got : bool :=
  eqb_outs (outs_of (run (decimate_step rep sfilt 0 q) None (inputs h s0 sizes))) got.
Definition check_rms (rep : bool) (n : Z) h s0 sizes got : bool :=
  eqb_outs (outs_of (run (rms_step rep (sagg n) n) rms_init (inputs h s0 sizes))) got.
Definition check_derivative h s0 sizes got : bool :=
  eqb_outs (outs_of (run (derivative_step ssub (-1)) None (inputs h s0 sizes))) got.
Definition check_iir (rep : bool) h s0 sizes got : bool :=
  eqb_outs (outs_of (run (iir_step rep sfilt sfinit) None (inputs h s0 sizes))) got.
Definition check_map h s0 sizes got : bool :=
  eqb_outs (outs_of (run (map_step (fun x : Z => x)) tt (inputs h s0 sizes))) got.
Definition check_autoth (Bn : Z) (table : list Z) h s0 sizes got : bool :=
  eqb_outs (outs_of (run (autoth_step (sthr Bn) (sge table) Bn) (AthAcc None) (inputs h s0 sizes))) got.

Definition eqb_rblk (x y : rblk) : bool :=
  eqb_listZ (r_counts x) (r_counts y) && (r_s0x2 x =? r_s0x2 y) && (r_fsd x =? r_fsd y).
Definition check_event_rate (rep : bool) (bsz stp : Z) (cs : list events) (got : option (list rblk)) : bool :=
  eqb_option (eqb_list eqb_rblk) (outs_of (run (er_step rep bsz stp) None cs)) got.

(* a concrete sample-sequential filter for the `_refuted` witnesses: y[n] = x[n] + 2 y[n-1] (mod 1009) *)
Definition cfilt (st x : Z) : Z * Z := let y := (x + 2 * st) mod 1009 in (y, y).

(* added for the coverage audit: event_rate with a fractional block_step (= stp / den).  The harness multiplies every
   position, span and block_size by den, so the window arithmetic is again over Z; only the counts per emitted block
   are compared here (the s0 / fs attributes of those blocks are judged by the oracle). *)
Definition check_event_rate_counts (rep : bool) (bsz stp : Z) (cs : list events) (got : option (list (list Z))) : bool :=
  eqb_option (eqb_list eqb_listZ)
             (match outs_of (run (er_step rep bsz stp) None cs) with
              | Some o => Some (map r_counts o)
              | None => None
              end) got.

(* added after the repair "iirfilter and decimate ignore zero-length chunks" (scipy's lfilter returns an undefined
   final state for an empty input): a zero-length chunk emits nothing and leaves the filter state, the held-back
   remainder and the counters untouched.
   iirfilter: `while y.shape[-1] == 0: y = (yield)` before the initial state is scaled, `continue` afterwards.
   decimate : `s0 = getattr(y, 's0', 0)` is still read from the very first chunk, also when it is empty. *)
Definition skip_empty {S A O} (step : S -> blk A -> option (S * list O)) (s : S) (c : blk A)
  : option (S * list O) :=
  match dat c with [] => Some (s, []) | _ => step s c end.

Definition iir_step_e {F A} (rep : bool) (filt : F -> A -> F * A) (finit : A -> F)
  : option F -> blk A -> option (option F * list (blk A)) :=
  skip_empty (iir_step rep filt finit).

Definition decimate_step_e {F A} (rep : bool) (filt : F -> A -> F * A) (zf0 : F) (q : Z)
  (s : option (dec_st F A)) (c : blk A) : option (option (dec_st F A) * list (blk A)) :=
  match dat c with
  | [] => Some (Some (match s with Some st => st | None => DecSt zf0 (s0_of c) None end), [])
  | _ => decimate_step rep filt zf0 q s c
  end.

Definition check_iir_e (rep : bool) h s0 sizes got : bool :=
  eqb_outs (outs_of (run (iir_step_e rep sfilt sfinit) None (inputs h s0 sizes))) got.
Definition check_decimate_e (rep : bool) (q : Z) h s0 sizes got : bool :=
  eqb_outs (outs_of (run (decimate_step_e rep sfilt 0 q) None (inputs h s0 sizes))) got.

(* added with the repair "event_rate keeps events reported ahead of their block's span": the same two checks against
   the code before that repair (used by hand, C12_MODEL_ER_UNREPAIRED=1, to tie [er_step_unrepaired] to the old tree) *)
Definition check_event_rate_unrepaired (rep : bool) (bsz stp : Z) (cs : list events) (got : option (list rblk)) : bool :=
  eqb_option (eqb_list eqb_rblk) (outs_of (run (er_step_unrepaired rep bsz stp) None cs)) got.
Definition check_event_rate_counts_unrepaired (rep : bool) (bsz stp : Z) (cs : list events) (got : option (list (list Z))) : bool :=
  eqb_option (eqb_list eqb_listZ)
             (match outs_of (run (er_step_unrepaired rep bsz stp) None cs) with
              | Some o => Some (map r_counts o)
              | None => None
              end) got.

(* added (widening): rms on an annotated stream whose first sample index is NOT a multiple of the block length n.
   The code sets the s0 of an emitted block to data.s0 / n (float true division), which the Z division of [rms_step]
   only describes when n divides s0.  [rms_step_x] is the same step with the s0 of the emitted block kept in INPUT
   samples (n times the code's s0; the harness multiplies the float s0, read as an exact fraction, by n). *)
Definition rms_step_x {A O} (rep : bool) (agg : list A -> O) (n : Z) (s : rms_st A) (c : blk A)
  : option (rms_st A * list (blk O)) :=
  let data := r_data s ++ [c] in
  let samples := r_n s + zlen (dat c) in
  if samples >=? n then
    match concat_list data with
    | None => None
    | Some m =>
      let nb := zlen (dat m) / n in
      let ns := nb * n in
      let d := getitem None (Some ns) None m in
      let vals := map agg (chop (Z.to_nat nb) (Z.to_nat n) (dat d)) in
      let result :=
        Blk vals (two m)
            (option_map (fun a => An (a_s0 a) (a_fsd a * n)
                                     (if two m then a_ch a else if rep then a_ch a
                                      else Some (repeat 0 (Z.to_nat nb)))
                                     (a_md a)) (an d)) in
      let r := getitem (Some ns) None None m in
      Some (RmsSt [r] (zlen (dat r)), [result])
    end
  else Some (RmsSt data samples, []).
Definition check_rms_x (rep : bool) (n : Z) h s0 sizes got : bool :=
  eqb_outs (outs_of (run (rms_step_x rep (sagg n) n) rms_init (inputs h s0 sizes))) got.
