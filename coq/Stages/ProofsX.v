(* C12, extension: event_rate with a fractional block_step.

   The coverage audit runs event_rate with block_step = stp / den (the docstring allows a float) and ties the code to
   the model by multiplying every event position, every span bound and block_size by den, so that the window
   arithmetic is again over Z ([check_event_rate_counts]).  This file justifies that scaling:

   * [event_rate_scaling]       running the stage on positions / spans / block_size / block_step all multiplied by
                                a positive constant den gives, chunk by chunk, the same counts in the same emitted
                                blocks as the unscaled run (and fails exactly when the unscaled run fails): the model
                                does not depend on the unit in which positions are measured;
   * [event_rates_closed_form]  the whole-span specification [event_rates] of the existing theorems IS the window
                                arithmetic: window k = [lo + k*stp, lo + k*stp + bsz), for k below the number of
                                windows that end strictly before hi;
   * [event_rate_fractional]    hence for EVERY chunking (zero-length spans included) of a stream, the scaled run
                                used for block_step = stp/den emits, concatenated, the counts of the windows
                                [lo + k*stp/den, lo + k*stp/den + bsz) - written in units of 1/den sample as
                                den*lo + k*stp <= den*x < den*lo + k*stp + den*bsz.
   Chunk invariance of the counts for ANY integers 0 <= bsz, 1 <= stp is the existing theorem
   event_rate_values_any (Props/C12.v: C12_event_rate_values_any); it is instantiated here, not re-proved.
   Stdlib only, no axioms. *)
From Coq Require Import ZArith List Bool Lia ZifyBool.
From PV Require Import Stages.Model Stages.Spec Stages.Lemmas Stages.ProofsA Stages.ProofsB Stages.ProofsC
  Stages.ProofsD Stages.ProofsE Stages.ProofsE2.
Import ListNotations.
Open Scope Z_scope.

(* ------------------------------------------------------------------ definitions *)
(* an Events chunk with every position multiplied by den *)
Definition scale_ev (den : Z) (c : events) : events :=
  Ev (map (Z.mul den) (evs c)) (den * e_lo c) (den * e_hi c).

(* the counts per emitted block, None when the run raised *)
Definition counts_of (r : option (option er_st * list rblk)) : option (list (list Z)) :=
  match outs_of r with Some o => Some (map r_counts o) | None => None end.

(* number of windows [lo + k*stp, lo + k*stp + bsz) with lo + k*stp + bsz < hi *)
Definition n_windows (bsz stp lo hi : Z) : Z := Z.max 0 ((hi - lo - bsz - 1) / stp + 1).

(* the events of window k of a stream measured in samples when the step is stp/den samples, in units of 1/den sample *)
Definition count_frac (den bsz stp lo : Z) (ev : list Z) (k : Z) : Z :=
  zlen (filter (fun x => (den * lo + k * stp <=? den * x) && (den * x <? den * lo + k * stp + den * bsz)) ev).

(* ------------------------------------------------------------------ scaling the events *)
Lemma filter_scale den s t (l : list Z) : 0 < den ->
  filter (fun x => (den * s <=? x) && (x <? den * t)) (map (Z.mul den) l) =
  map (Z.mul den) (filter (fun x => (s <=? x) && (x <? t)) l).
Proof.
  intros Hd. induction l as [|x l IH]; [reflexivity|]. cbn [map filter].
  assert (E : (den * s <=? den * x) && (den * x <? den * t) = (s <=? x) && (x <? t)).
  { assert (H1 := Z.mul_le_mono_pos_l s x den Hd). assert (H2 := Z.mul_lt_mono_pos_l den x t Hd).
    destruct ((s <=? x) && (x <? t)) eqn:E0, ((den * s <=? den * x) && (den * x <? den * t)) eqn:E1; try reflexivity; lia. }
  rewrite E. destruct ((s <=? x) && (x <? t)); cbn [map]; now rewrite IH.
Qed.

Lemma get_range_scale den e s t : 0 < den ->
  get_range (scale_ev den e) (den * s) (den * t) = option_map (scale_ev den) (get_range e s t).
Proof.
  intros Hd. unfold get_range, scale_ev. cbn [e_lo e_hi evs].
  assert (E : (den * s <? den * e_lo e) || (den * t >? den * e_hi e) = (s <? e_lo e) || (t >? e_hi e)).
  { assert (H1 := Z.mul_lt_mono_pos_l den s (e_lo e) Hd). assert (H2 := Z.mul_lt_mono_pos_l den (e_hi e) t Hd).
    destruct ((s <? e_lo e) || (t >? e_hi e)) eqn:E0, ((den * s <? den * e_lo e) || (den * t >? den * e_hi e)) eqn:E1;
      try reflexivity; lia. }
  rewrite E. destruct ((s <? e_lo e) || (t >? e_hi e)); [reflexivity|].
  cbn [option_map scale_ev evs e_lo e_hi]. now rewrite filter_scale.
Qed.

Lemma combine_events_scale den a b : 0 < den ->
  combine_events (scale_ev den a) (scale_ev den b) = option_map (scale_ev den) (combine_events a b).
Proof.
  intros Hd. unfold combine_events, scale_ev. cbn [e_lo e_hi evs].
  assert (E : (den * e_lo b =? den * e_hi a) = (e_lo b =? e_hi a)).
  { destruct (e_lo b =? e_hi a) eqn:E0, (den * e_lo b =? den * e_hi a) eqn:E1; try reflexivity; nia. }
  rewrite E. destruct (e_lo b =? e_hi a); [|reflexivity]. cbn [option_map evs e_lo e_hi]. now rewrite map_app.
Qed.

(* the left-over of the repaired loop (trimmed on the left only) *)
Lemma trim_left_scale den e s : 0 < den ->
  trim_left (scale_ev den e) (den * s) = scale_ev den (trim_left e s).
Proof.
  intros Hd. unfold trim_left, scale_ev. cbn [e_lo e_hi evs]. f_equal.
  induction (evs e) as [|x l IH]; [reflexivity|]. cbn [map filter].
  assert (E : (den * s <=? den * x) = (s <=? x)).
  { destruct (s <=? x) eqn:E0, (den * s <=? den * x) eqn:E1; try reflexivity; nia. }
  rewrite E. destruct (s <=? x); cbn [map]; now rewrite IH.
Qed.

(* the loop, same fuel *)
Lemma er_loop_scale den bsz stp : 0 < den -> forall (fuel : nat) (e : events),
  er_loop fuel (den * bsz) (den * stp) (scale_ev den e) =
  option_map (fun r => (fst r, scale_ev den (snd r))) (er_loop fuel bsz stp e).
Proof.
  intros Hd. induction fuel as [|fuel IH]; intros e.
  - cbn [er_loop]. cbn [scale_ev e_lo e_hi].
    assert (E : (den * e_hi e - den * e_lo e >? den * bsz) = (e_hi e - e_lo e >? bsz)).
    { destruct (e_hi e - e_lo e >? bsz) eqn:E0, (den * e_hi e - den * e_lo e >? den * bsz) eqn:E1; try reflexivity; nia. }
    rewrite E. destruct (e_hi e - e_lo e >? bsz); reflexivity.
  - cbn [er_loop].
    assert (E : (e_hi (scale_ev den e) - e_lo (scale_ev den e) >? den * bsz) = (e_hi e - e_lo e >? bsz)).
    { cbn [scale_ev e_lo e_hi].
      destruct (e_hi e - e_lo e >? bsz) eqn:E0, (den * e_hi e - den * e_lo e >? den * bsz) eqn:E1; try reflexivity; nia. }
    rewrite E. destruct (e_hi e - e_lo e >? bsz); [|reflexivity].
    replace (e_lo (scale_ev den e)) with (den * e_lo e) by reflexivity.
    replace (e_hi (scale_ev den e)) with (den * e_hi e) by reflexivity.
    replace (den * e_lo e + den * bsz) with (den * (e_lo e + bsz)) by lia.
    replace (den * e_lo e + den * stp) with (den * (e_lo e + stp)) by lia.
    rewrite !get_range_scale, trim_left_scale by exact Hd.
    destruct (get_range e (e_lo e) (e_lo e + bsz)) as [b|]; [|reflexivity].
    set (e1 := trim_left e (e_lo e + stp)).
    cbn [option_map]. rewrite IH. destruct (er_loop fuel bsz stp e1) as [[cs e2]|]; [|reflexivity].
    cbn [option_map fst snd scale_ev evs]. unfold zlen. now rewrite map_length.
Qed.

(* the loop does not depend on its fuel once the fuel covers (span / step) iterations *)
Lemma er_loop_fuel bsz stp : 0 <= bsz -> 1 <= stp -> forall (f1 f2 : nat) (e : events),
  e_hi e - e_lo e <= stp * Z.of_nat f1 -> e_hi e - e_lo e <= stp * Z.of_nat f2 ->
  er_loop f1 bsz stp e = er_loop f2 bsz stp e.
Proof.
  intros Hb Hs. induction f1 as [|f1 IH]; intros f2 e H1 H2.
  - destruct f2 as [|f2]; [reflexivity|]. cbn [er_loop]. destruct (e_hi e - e_lo e >? bsz) eqn:E; [lia|reflexivity].
  - destruct f2 as [|f2]; cbn [er_loop].
    + destruct (e_hi e - e_lo e >? bsz) eqn:E; [lia|reflexivity].
    + destruct (e_hi e - e_lo e >? bsz) eqn:E; [|reflexivity].
      destruct (get_range e (e_lo e) (e_lo e + bsz)) as [b|]; [|reflexivity].
      set (e1 := trim_left e (e_lo e + stp)).
      assert (He1 : e_lo e1 = e_lo e + stp /\ e_hi e1 = e_hi e) by (split; reflexivity).
      rewrite (IH f2 e1) by lia. reflexivity.
Qed.

(* ------------------------------------------------------------------ one step, and the run *)
(* related states: the same stage, positions multiplied by den (the s0 bookkeeping is not compared: it is not part
   of what check_event_rate_counts looks at) *)
Definition st_rel (den : Z) (s s' : option er_st) : Prop :=
  match s, s' with
  | None, None => True
  | Some a, Some b => er_ev b = scale_ev den (er_ev a)
  | _, _ => False
  end.

Lemma er_step_scale rep den bsz stp : 1 <= den -> 0 <= bsz -> 1 <= stp -> forall s s' c,
  st_rel den s s' ->
  match er_step rep bsz stp s c, er_step rep (den * bsz) (den * stp) s' (scale_ev den c) with
  | None, None => True
  | Some (s1, o), Some (s1', o') => st_rel den s1 s1' /\ map r_counts o' = map r_counts o
  | _, _ => False
  end.
Proof.
  intros Hd Hb Hs s s' c R. assert (Hd' : 0 < den) by lia.
  (* the loop on a pair of related Events objects *)
  assert (L : forall e s0 s0',
    match (match er_loop (Z.to_nat (e_hi e - e_lo e)) bsz stp e with
           | None => None
           | Some (cs, e') => match cs with
                              | [] => Some (Some (ErSt e' s0), [])
                              | _ => Some (Some (ErSt e' (s0 + 2 * zlen cs)), [Rb cs s0 stp])
                              end
           end),
          (match er_loop (Z.to_nat (e_hi (scale_ev den e) - e_lo (scale_ev den e))) (den * bsz) (den * stp) (scale_ev den e) with
           | None => None
           | Some (cs, e') => match cs with
                              | [] => Some (Some (ErSt e' s0'), [])
                              | _ => Some (Some (ErSt e' (s0' + 2 * zlen cs)), [Rb cs s0' (den * stp)])
                              end
           end) with
    | None, None => True
    | Some (s1, o), Some (s1', o') => st_rel den s1 s1' /\ map r_counts o' = map r_counts o
    | _, _ => False
    end).
  { intros e s0 s0'.
    assert (Hb' : 0 <= den * bsz) by (apply Z.mul_nonneg_nonneg; lia).
    assert (Hs' : 1 <= den * stp) by (assert (0 < den * stp) by (apply Z.mul_pos_pos; lia); lia).
    rewrite (er_loop_fuel (den * bsz) (den * stp) Hb' Hs'
               (Z.to_nat (e_hi (scale_ev den e) - e_lo (scale_ev den e))) (Z.to_nat (e_hi e - e_lo e)) (scale_ev den e)).
    - rewrite er_loop_scale by exact Hd'.
      destruct (er_loop (Z.to_nat (e_hi e - e_lo e)) bsz stp e) as [[cs e']|]; [|exact I].
      cbn [option_map fst snd]. destruct cs; cbn [st_rel er_ev map r_counts]; split; reflexivity.
    - cbn [scale_ev e_lo e_hi]. clear - Hs'. remember (den * e_hi e - den * e_lo e) as d eqn:Ed.
      remember (den * stp) as S eqn:ES. clear Ed ES.
      destruct (Z_le_gt_dec 0 d) as [Hp|Hn].
      + rewrite Z2Nat.id by lia. nia.
      + replace (Z.to_nat d) with 0%nat by lia. lia.
    - cbn [scale_ev e_lo e_hi]. clear - Hd Hs. remember (e_hi e - e_lo e) as d eqn:Ed.
      replace (den * e_hi e - den * e_lo e) with (den * d) by lia.
      destruct (Z_le_gt_dec 0 d) as [Hp|Hn].
      + rewrite Z2Nat.id by lia. rewrite <- Z.mul_assoc. apply Z.mul_le_mono_nonneg_l; [lia|nia].
      + replace (Z.to_nat d) with 0%nat by lia. nia. }
  unfold er_step. destruct s as [a|], s' as [b|]; cbn [st_rel] in R; try contradiction.
  - rewrite R, combine_events_scale by exact Hd'.
    destruct (combine_events (er_ev a) c) as [e|]; [|exact I]. cbn [option_map]. apply L.
  - replace (e_lo (scale_ev den c)) with (den * e_lo c) by reflexivity.
    destruct rep; [apply L|]. cbn [st_rel er_ev map]. split; reflexivity.
Qed.

Lemma run_scale rep den bsz stp : 1 <= den -> 0 <= bsz -> 1 <= stp -> forall cs s s',
  st_rel den s s' ->
  match run (er_step rep bsz stp) s cs, run (er_step rep (den * bsz) (den * stp)) s' (map (scale_ev den) cs) with
  | None, None => True
  | Some (s1, o), Some (s1', o') => st_rel den s1 s1' /\ map r_counts o' = map r_counts o
  | _, _ => False
  end.
Proof.
  intros Hd Hb Hs. induction cs as [|c cs IH]; intros s s' R.
  - cbn [run map]. split; [exact R|reflexivity].
  - cbn [run map]. assert (S1 := er_step_scale rep den bsz stp Hd Hb Hs s s' c R).
    destruct (er_step rep bsz stp s c) as [[s1 o1]|], (er_step rep (den * bsz) (den * stp) s' (scale_ev den c)) as [[s1' o1']|];
      try contradiction; [|exact I].
    destruct S1 as [R1 E1]. specialize (IH s1 s1' R1).
    destruct (run (er_step rep bsz stp) s1 cs) as [[s2 o2]|],
             (run (er_step rep (den * bsz) (den * stp)) s1' (map (scale_ev den) cs)) as [[s2' o2']|]; try contradiction; [|exact I].
    destruct IH as [R2 E2]. split; [exact R2|]. now rewrite !map_app, E1, E2.
Qed.

(* THE SCALING LAW (all chunk sequences, well-formed or not; both the repaired and the unrepaired stage):
   multiplying every position, span, the block size and the block step by den >= 1 changes neither which chunks
   emit a block, nor the counts in the blocks, nor whether the run raises *)
Theorem event_rate_scaling rep den bsz stp (cs : list events) : 1 <= den -> 0 <= bsz -> 1 <= stp ->
  counts_of (run (er_step rep (den * bsz) (den * stp)) None (map (scale_ev den) cs)) =
  counts_of (run (er_step rep bsz stp) None cs).
Proof.
  intros Hd Hb Hs. assert (H := run_scale rep den bsz stp Hd Hb Hs cs None None I).
  unfold counts_of, outs_of.
  destruct (run (er_step rep bsz stp) None cs) as [[s1 o]|],
           (run (er_step rep (den * bsz) (den * stp)) None (map (scale_ev den) cs)) as [[s1' o']|]; try contradiction.
  - destruct H as [_ E]. now rewrite E.
  - reflexivity.
Qed.

(* ------------------------------------------------------------------ the window arithmetic of the specification *)
Lemma n_windows_step bsz stp lo hi : 1 <= stp -> hi - lo > bsz ->
  n_windows bsz stp lo hi = 1 + n_windows bsz stp (lo + stp) hi /\ 0 <= n_windows bsz stp (lo + stp) hi.
Proof.
  intros Hs H. unfold n_windows.
  replace (hi - (lo + stp) - bsz - 1) with ((hi - lo - bsz - 1) + (-1) * stp) by lia.
  rewrite Z.div_add by lia.
  assert (0 <= (hi - lo - bsz - 1) / stp) by (apply Z.div_pos; lia). lia.
Qed.
Lemma n_windows_done bsz stp lo hi : 1 <= stp -> hi - lo <= bsz -> n_windows bsz stp lo hi = 0.
Proof.
  intros Hs H. unfold n_windows.
  assert ((hi - lo - bsz - 1) / stp < 0) by (apply Z.div_lt_upper_bound; lia). lia.
Qed.

Lemma windows_closed bsz stp ev lo0 hi : 0 <= bsz -> 1 <= stp -> forall (f : nat) (j : Z),
  hi - (lo0 + j * stp) <= Z.of_nat f ->
  windows f ev bsz stp (lo0 + j * stp) hi =
  zr (fun k => count_in ev (lo0 + k * stp) (lo0 + k * stp + bsz)) j (Z.to_nat (n_windows bsz stp (lo0 + j * stp) hi)).
Proof.
  intros Hb Hs. induction f as [|f IH]; intros j Hf.
  - cbn [windows]. rewrite n_windows_done by lia. reflexivity.
  - cbn [windows]. destruct (hi - (lo0 + j * stp) >? bsz) eqn:E.
    + destruct (n_windows_step bsz stp (lo0 + j * stp) hi Hs ltac:(lia)) as [N1 N2].
      rewrite N1. replace (Z.to_nat (1 + n_windows bsz stp (lo0 + j * stp + stp) hi))
        with (Datatypes.S (Z.to_nat (n_windows bsz stp (lo0 + j * stp + stp) hi))) by lia.
      cbn [zr]. f_equal. replace (lo0 + j * stp + stp) with (lo0 + (j + 1) * stp) in * by lia.
      apply IH. lia.
    + rewrite n_windows_done by lia. reflexivity.
Qed.

(* the whole-span specification of the existing event_rate theorems, in closed form *)
Theorem event_rates_closed_form bsz stp ev lo hi : 0 <= bsz -> 1 <= stp ->
  event_rates bsz stp ev lo hi =
  zrange (fun k => count_in ev (lo + k * stp) (lo + k * stp + bsz)) 0 (n_windows bsz stp lo hi).
Proof.
  intros Hb Hs. unfold event_rates, zrange.
  assert (H := windows_closed bsz stp ev lo hi Hb Hs (Z.to_nat (hi - lo)) 0).
  replace (lo + 0 * stp) with lo in H by lia. apply H. lia.
Qed.

(* ------------------------------------------------------------------ fractional block_step *)
Lemma ev_stream_any_scale den : 1 <= den -> forall cs lo,
  ev_stream_any lo cs -> ev_stream_any (den * lo) (map (scale_ev den) cs).
Proof.
  intros Hd. induction cs as [|c cs IH]; intros lo H; [exact I|].
  cbn [ev_stream_any map] in *. destruct H as (H1 & H2 & H3 & H4).
  cbn [scale_ev e_lo e_hi evs]. split; [now rewrite H1|]. split; [nia|]. split.
  - apply Forall_forall. intros x Hx. apply in_map_iff in Hx. destruct Hx as (y & <- & Hy).
    rewrite Forall_forall in H3. specialize (H3 y Hy). nia.
  - apply IH. exact H4.
Qed.
Lemma ev_end_scale den : forall cs lo, ev_end (den * lo) (map (scale_ev den) cs) = den * ev_end lo cs.
Proof. induction cs as [|c cs IH]; intros lo; [reflexivity|]. cbn [ev_end map scale_ev e_hi]. apply IH. Qed.
Lemma ev_all_scale den cs : ev_all (map (scale_ev den) cs) = map (Z.mul den) (ev_all cs).
Proof.
  unfold ev_all. induction cs as [|c cs IH]; [reflexivity|]. cbn [map concat scale_ev evs]. now rewrite map_app, IH.
Qed.
Lemma count_in_map (g : Z -> Z) a b : forall ev,
  count_in (map g ev) a b = zlen (filter (fun x => (a <=? g x) && (g x <? b)) ev).
Proof.
  unfold count_in. induction ev as [|x ev IH]; [reflexivity|]. cbn [map filter].
  destruct ((a <=? g x) && (g x <? b)); [rewrite !zlen_cons|]; now rewrite IH.
Qed.
Lemma zr_ext {A} (f g : Z -> A) : (forall k, f k = g k) -> forall n lo, zr f lo n = zr g lo n.
Proof. intros H. induction n as [|n IH]; intros lo; [reflexivity|]. cbn [zr]. now rewrite H, IH. Qed.

(* block_step = stp / den samples (stp, den positive integers), block_size = bsz samples: for EVERY chunking cs of a
   stream of Events that starts at sample lo (chunks may span zero samples), the scaled run that the audit compares
   with the code does not raise, and the counts it emits, concatenated, are those of the windows
   [lo + k*stp/den, lo + k*stp/den + bsz), k = 0, 1, .. while the window ends before the end of the stream -
   a function of the whole stream only, not of the chunking *)
Theorem event_rate_fractional den bsz stp lo (cs : list events) :
  1 <= den -> 0 <= bsz -> 1 <= stp -> cs <> [] -> ev_stream_any lo cs ->
  exists st outs, run (er_step true (den * bsz) stp) None (map (scale_ev den) cs) = Some (st, outs) /\
    concat (map r_counts outs) =
    zrange (count_frac den bsz stp lo (ev_all cs)) 0 (n_windows (den * bsz) stp (den * lo) (den * ev_end lo cs)).
Proof.
  intros Hd Hb Hs Hne Hst.
  destruct (event_rate_values_any (den * bsz) stp (den * lo) (map (scale_ev den) cs)) as (st & outs & E & V).
  - nia.
  - exact Hs.
  - destruct cs; [contradiction|discriminate].
  - apply ev_stream_any_scale; assumption.
  - exists st, outs. split; [exact E|]. rewrite V, ev_end_scale, ev_all_scale, event_rates_closed_form by (try exact Hs; nia).
    unfold zrange. apply zr_ext. intros k. unfold count_frac. now rewrite count_in_map.
Qed.

(* two chunkings of the same stream emit the same counts (corollary, stated for the fractional step) *)
Corollary event_rate_fractional_chunk_invariant den bsz stp lo (cs1 cs2 : list events) :
  1 <= den -> 0 <= bsz -> 1 <= stp -> cs1 <> [] -> cs2 <> [] -> ev_stream_any lo cs1 -> ev_stream_any lo cs2 ->
  ev_all cs1 = ev_all cs2 -> ev_end lo cs1 = ev_end lo cs2 ->
  exists st1 o1 st2 o2,
    run (er_step true (den * bsz) stp) None (map (scale_ev den) cs1) = Some (st1, o1) /\
    run (er_step true (den * bsz) stp) None (map (scale_ev den) cs2) = Some (st2, o2) /\
    concat (map r_counts o1) = concat (map r_counts o2).
Proof.
  intros Hd Hb Hs N1 N2 S1 S2 Ea Ee.
  destruct (event_rate_fractional den bsz stp lo cs1 Hd Hb Hs N1 S1) as (st1 & o1 & R1 & V1).
  destruct (event_rate_fractional den bsz stp lo cs2 Hd Hb Hs N2 S2) as (st2 & o2 & R2 & V2).
  exists st1, o1, st2, o2. split; [exact R1|]. split; [exact R2|]. now rewrite V1, V2, Ea, Ee.
Qed.

(* when the step is a whole number of samples (stp = den * stp0) the fractional windows are the integer ones *)
Lemma count_frac_divisible den bsz stp0 lo ev k : 1 <= den ->
  count_frac den bsz (den * stp0) lo ev k = count_in ev (lo + k * stp0) (lo + k * stp0 + bsz).
Proof.
  intros Hd. unfold count_frac, count_in. apply f_equal. apply filter_ext. intros x.
  destruct ((lo + k * stp0 <=? x) && (x <? lo + k * stp0 + bsz)) eqn:E0,
           ((den * lo + k * (den * stp0) <=? den * x) && (den * x <? den * lo + k * (den * stp0) + den * bsz)) eqn:E1;
    try reflexivity; nia.
Qed.

(* the hypotheses are satisfiable: block_size 3, block_step 1.5 (stp = 3, den = 2) on a stream of 19 samples cut into
   five chunks, one of them spanning no sample *)
Example event_rate_fractional_ex :
  let cs := [Ev [1; 3] 0 5; Ev [6] 5 9; Ev [] 9 9; Ev [9; 10; 15] 9 17; Ev [18] 17 19] in
  ev_stream_any 0 cs /\
  counts_of (run (er_step true (2 * 3) 3) None (map (scale_ev 2) cs)) = Some [[1; 1]; [1; 1]; [1; 2; 2; 0; 0; 1]; [1]] /\
  zrange (count_frac 2 3 3 0 (ev_all cs)) 0 (n_windows (2 * 3) 3 (2 * 0) (2 * ev_end 0 cs)) = [1; 1; 1; 1; 1; 2; 2; 0; 0; 1; 1] /\
  counts_of (run (er_step true (2 * 3) (2 * 2)) None (map (scale_ev 2) cs)) = counts_of (run (er_step true 3 2) None cs).
Proof.
  cbn zeta. split; [|split; [|split]]; try (vm_compute; reflexivity).
  cbn [ev_stream_any e_lo e_hi evs]. repeat split; try lia; repeat constructor; lia.
Qed.
