(* C12 proofs, part B: the stages that hold samples back: blocked, downsample, decimate, rms.
   Stdlib only, no axioms. *)
From Coq Require Import ZArith List Bool Lia ZifyBool.
From PV Require Import Stages.Model Stages.Spec Stages.Lemmas Stages.ProofsA.
Import ListNotations.
Open Scope Z_scope.

(* ------------------------------------------------------------------ *)
(* blocked                                                             *)
(* ------------------------------------------------------------------ *)
Section Blocked.
Context {A : Type}.
Variables (bs : Z) (h : hdr).
Hypothesis Hbs : 1 <= bs.

Lemma split_blocks_spec : forall (fuel : nat) (s : Z) (l : list A), (length l <= fuel)%nat ->
  exists bl r, split_blocks fuel bs (mk h s l) = Some (mkstream h s bl, mk h (s + zlen (concat bl)) r) /\
               l = concat bl ++ r /\ Forall (fun b => zlen b = bs) bl /\ zlen r < bs.
Proof.
  induction fuel as [|fuel IH]; intros s l Hl.
  - assert (l = []) by (destruct l; [reflexivity|cbn [length] in Hl; lia]). subst l.
    exists [], []. cbn [split_blocks dat mk]. rewrite zlen_nil.
    destruct (0 >=? bs) eqn:E; [lia|]. cbn [mkstream concat]. rewrite zlen_nil, Z.add_0_r.
    repeat split; [constructor|lia].
  - cbn [split_blocks]. rewrite dat_mk.
    destruct (zlen l >=? bs) eqn:E.
    + pose proof (zlen_nonneg l) as Hn.
      rewrite getitem_tail by lia. rewrite getitem_head by lia.
      destruct (IH (s + bs) (skipn (Z.to_nat bs) l)) as (bl & r & E1 & E2 & E3 & E4).
      { rewrite skipn_length. unfold zlen in E. lia. }
      rewrite E1. exists (firstn (Z.to_nat bs) l :: bl), r.
      assert (Hf : zlen (firstn (Z.to_nat bs) l) = bs) by (apply zlen_firstn; lia).
      split; [|split; [|split]].
      * cbn [mkstream concat]. rewrite Hf. rewrite zlen_app, Hf, Z.add_assoc. reflexivity.
      * cbn [concat]. rewrite <- app_assoc, <- E2. symmetry. apply firstn_skipn.
      * constructor; assumption.
      * exact E4.
    + exists [], l. cbn [mkstream concat]. rewrite zlen_nil, Z.add_0_r.
      repeat split; [constructor|lia].
Qed.

Variable s0 : Z.

Definition blocked_inv (st : blocked_st A) (pre : list A) (outs : list (blk A)) : Prop :=
  exists rs,
    b_data st = mkstream h (s0 + zlen (concat (map dat outs))) rs /\
    b_n st = zlen (concat rs) /\ b_n st < bs /\
    pre = concat (map dat outs) ++ concat rs /\
    Forall (fun o => zlen (dat o) = bs) outs /\ contiguous h s0 outs.

Lemma forall_mkstream (bl : list (list A)) s :
  Forall (fun b => zlen b = bs) bl -> Forall (fun o : blk A => zlen (dat o) = bs) (mkstream h s bl).
Proof.
  revert s. induction bl as [|b bl IH]; intros s Hf; [constructor|].
  inversion Hf; subst. cbn [mkstream]. constructor; [now rewrite dat_mk|]. apply IH. assumption.
Qed.

Lemma blocked_step_ok : forall st pre outs c, blocked_inv st pre outs -> c <> [] ->
  exists st' o, blocked_step bs st (mk h (s0 + zlen pre) c) = Some (st', o) /\
                blocked_inv st' (pre ++ c) (outs ++ o).
Proof.
  intros st pre outs c (rs & Hdata & Hn & Hlt & Hpre & Hall & Hc) Hne.
  set (E := zlen (concat (map dat outs))) in *.
  assert (HN : zlen pre = E + zlen (concat rs)) by (rewrite Hpre, zlen_app; reflexivity).
  assert (Hdata' : b_data st ++ [mk h (s0 + zlen pre) c] = mkstream h (s0 + E) (rs ++ [c])).
  { rewrite mkstream_app, Hdata. cbn [mkstream]. do 2 f_equal. apply mk_eq; [lia|reflexivity]. }
  unfold blocked_step. rewrite dat_mk, Hdata'.
  destruct (b_n st + zlen c >=? bs) eqn:Ege.
  - rewrite concat_list_mkstream by (destruct rs; discriminate).
    change (dat (mk h (s0 + E) (concat (rs ++ [c])))) with (concat (rs ++ [c])).
    destruct (split_blocks_spec (length (concat (rs ++ [c]))) (s0 + E) (concat (rs ++ [c])) (le_n _))
      as (bl & r & E1 & E2 & E3 & E4).
    rewrite E1. eexists _, _. split; [reflexivity|].
    exists [r]. cbn [b_data b_n dat mk].
    rewrite map_app, concat_app, map_dat_mkstream, zlen_app. fold E.
    split; [cbn [mkstream]; f_equal; apply mk_eq; [lia|reflexivity]|].
    cbn [concat]. rewrite app_nil_r.
    split; [reflexivity|]. split; [exact E4|]. split.
    + rewrite <- app_assoc, <- E2, concat_snoc, app_assoc, <- Hpre. reflexivity.
    + split; [apply Forall_app; split; [exact Hall|now apply forall_mkstream]|].
      apply contiguous_app; [exact Hc|]. fold E. apply contiguous_mkstream.
  - eexists _, []. split; [reflexivity|]. rewrite app_nil_r.
    exists (rs ++ [c]). cbn [b_data b_n]. fold E.
    split; [reflexivity|]. rewrite concat_snoc, zlen_app.
    split; [lia|]. split; [lia|]. split; [now rewrite app_assoc, <- Hpre|]. split; assumption.
Qed.

Lemma blocked_ok : forall ds : list (list A), nonempty_chunks ds ->
  exists st outs, run (blocked_step bs) blocked_init (mkstream h s0 ds) = Some (st, outs) /\
    concat (map dat outs) = take_mult bs (concat ds) /\
    Forall (fun o => zlen (dat o) = bs) outs /\
    contiguous h s0 outs.
Proof.
  intros ds Hne.
  destruct (run_stream0 (blocked_step bs) h s0 blocked_inv blocked_init blocked_step_ok) with (ds := ds)
    as (st & o & E & (rs & _ & Hn & Hlt & Hpre & Hall & Hc)); [|exact Hne|].
  - exists []. cbn [blocked_init b_data b_n map concat mkstream].
    repeat split; try reflexivity; try constructor; unfold zlen; cbn [length]; lia.
  - exists st, o. split; [exact E|]. split; [|split; assumption].
    assert (Hblk : exists k, zlen (concat (map dat o)) = bs * k).
    { clear - Hall. induction Hall as [|x l Hx _ IH]; [exists 0; cbn [map concat]; rewrite zlen_nil; lia|].
      destruct IH as [k Hk]. exists (k + 1). cbn [map concat]. rewrite zlen_app, Hx, Hk. lia. }
    destruct Hblk as [k Hk].
    destruct (split_unique bs k (concat ds) (concat (map dat o)) (concat rs) Hbs Hpre Hk) as [_ Hd]; [lia|].
    exact Hd.
Qed.
End Blocked.

(* ------------------------------------------------------------------ *)
(* the remainder split shared by downsample and decimate                *)
(* ------------------------------------------------------------------ *)
Section SplitRem.
Context {A : Type}.
Variables (q : Z) (h : hdr).
Hypothesis Hq : 1 <= q.

Lemma split_rem_mk (s : Z) (l : list A) :
  let rr := zlen l mod q in
  split_rem q (mk h s l) =
  (if rr =? 0 then None else Some (mk h (s + zlen l - rr) (skipn (Z.to_nat (zlen l - rr)) l)),
   mk (h_scale q h) s (every q (firstn (Z.to_nat (zlen l - rr)) l))).
Proof.
  intros rr. unfold split_rem. rewrite dat_mk. fold rr.
  pose proof (zlen_nonneg l) as Hn.
  assert (Hr : 0 <= rr < q) by (apply Z.mod_pos_bound; lia).
  assert (Hrl : rr <= zlen l) by (unfold rr; apply Z.mod_le; lia).
  destruct (rr =? 0) eqn:E; cbn [negb].
  - rewrite getitem_step. replace (zlen l - rr) with (zlen l) by lia.
    now rewrite zfirstn_all by lia.
  - rewrite getitem_neg_tail by lia. rewrite getitem_neg_head by lia. now rewrite getitem_step.
Qed.

(* the bookkeeping on plain lists: [done] (a multiple of q samples, E outputs so far) and the new
   material l = remainder ++ new samples *)
Lemma ds_core (E : Z) (done l : list A) :
  0 <= E -> zlen done = q * E ->
  let rr := zlen l mod q in
  let k := zlen l - rr in
  let o := every q (firstn (Z.to_nat k) l) in
  0 <= rr < q /\ 0 <= k <= zlen l /\
  zlen o = k / q /\ 0 <= k / q /\ q * (k / q) = k /\
  zlen (done ++ firstn (Z.to_nat k) l) = q * (E + k / q) /\
  every q (done ++ firstn (Z.to_nat k) l) = every q done ++ o /\
  zlen (skipn (Z.to_nat k) l) = rr.
Proof.
  intros HE Hd rr k o.
  pose proof (zlen_nonneg l) as Hn.
  assert (Hr : 0 <= rr < q) by (apply Z.mod_pos_bound; lia).
  assert (Hrl : rr <= zlen l) by (unfold rr; apply Z.mod_le; lia).
  assert (Hk : k = q * (zlen l / q)).
  { unfold k, rr. pose proof (Z.div_mod (zlen l) q ltac:(lia)). lia. }
  assert (Hkq : k / q = zlen l / q).
  { rewrite Hk. rewrite Z.mul_comm. apply Z.div_mul. lia. }
  assert (Hdiv : 0 <= zlen l / q) by (apply Z.div_pos; lia).
  assert (Hfl : zlen (firstn (Z.to_nat k) l) = q * (k / q)).
  { rewrite zlen_firstn by lia. rewrite Hkq. exact Hk. }
  split; [exact Hr|]. split; [lia|].
  destruct (every_app q (k / q) (firstn (Z.to_nat k) l) [] Hq ltac:(lia) Hfl) as [_ Ho].
  split; [exact Ho|]. split; [lia|]. split; [lia|].
  split; [rewrite zlen_app, Hd, Hfl; lia|].
  split; [apply (every_app q E done _ Hq HE Hd)|].
  rewrite zlen_skipn by lia. lia.
Qed.
End SplitRem.

(* ------------------------------------------------------------------ *)
(* downsample (repaired: output-sample counter)                        *)
(* ------------------------------------------------------------------ *)
Section Downsample.
Context {A : Type}.
Variables (q : Z) (h : hdr) (s0 : Z).
Hypothesis Hq : 1 <= q.

Definition ds_inv (st : ds_st A) (pre : list A) (outs : list (blk A)) : Prop :=
  exists done r E,
    0 <= E /\ E = zlen (concat (map dat outs)) /\
    pre = done ++ r /\ zlen done = q * E /\ zlen r < q /\
    concat (map dat outs) = every q done /\
    ds_rem st = (if zlen r =? 0 then None else Some (mk h (s0 + q * E) r)) /\
    match ds_s0 st with Some z => z = h_s0 h s0 + E | None => pre = [] /\ E = 0 end /\
    contiguous (h_scale q h) (h_s0 h s0) outs.

Lemma downsample_step_ok : forall st pre outs c, ds_inv st pre outs -> c <> [] ->
  exists st' o, downsample_step true q st (mk h (s0 + zlen pre) c) = Some (st', o) /\
                ds_inv st' (pre ++ c) (outs ++ o).
Proof.
  intros st pre outs c (done & r & E & HE & HEo & Hpre & Hd & Hr & Hv & Hrem & Hs0 & Hc) Hne.
  pose proof (zlen_nonneg r) as Hr0.
  assert (HN : zlen pre = q * E + zlen r) by (rewrite Hpre, zlen_app; lia).
  (* the array y the loop body works on *)
  assert (Hy : match ds_rem st with None => Some (mk h (s0 + zlen pre) c)
                                  | Some r0 => concat2 r0 (mk h (s0 + zlen pre) c) end
               = Some (mk h (s0 + q * E) (r ++ c))).
  { rewrite Hrem. destruct (zlen r =? 0) eqn:E0.
    - rewrite (zlen_zero_nil r) by lia. cbn [app]. f_equal. apply mk_eq; [lia|reflexivity].
    - apply concat2_mk. lia. }
  unfold downsample_step. rewrite Hy.
  assert (Hs : match ds_s0 st with Some z => z | None => s0_of (mk h (s0 + q * E) (r ++ c)) end
               = h_s0 h s0 + E).
  { destruct (ds_s0 st) as [z|]; [exact Hs0|]. destruct Hs0 as [_ ->].
    rewrite s0_of_mk. unfold h_s0. destruct (h_an h); lia. }
  rewrite Hs. rewrite (split_rem_mk q h Hq).
  set (l := r ++ c). set (rr := zlen l mod q). set (k := zlen l - rr).
  destruct (ds_core q Hq E done l HE Hd) as (Hrr & Hk & Ho & Hkq & Hkk & Hdl & Hev & Hsk).
  fold rr k in Hrr, Hk, Ho, Hkq, Hkk, Hdl, Hev, Hsk.
  rewrite set_s0_mk. rewrite two_mk, dat_mk. cbn [h_scale h_two].
  set (o := every q (firstn (Z.to_nat k) l)) in *.
  assert (Hfinal : forall outs', concat (map dat outs') = every q done ++ o ->
            contiguous (h_scale q h) (h_s0 h s0) outs' ->
            ds_inv (DsSt (if rr =? 0 then None else Some (mk h (s0 + q * E + zlen l - rr) (skipn (Z.to_nat k) l)))
                         (Some (h_s0 h s0 + E + zlen o))) (pre ++ c) outs').
  { intros outs' Hv' Hc'.
    exists (done ++ firstn (Z.to_nat k) l), (skipn (Z.to_nat k) l), (E + k / q).
    split; [lia|]. split; [rewrite Hv', zlen_app, <- Hv, <- HEo; lia|].
    split; [rewrite <- app_assoc, firstn_skipn, Hpre, <- app_assoc; reflexivity|].
    split; [exact Hdl|]. split; [lia|]. split; [now rewrite Hv', Hev|].
    cbn [ds_rem ds_s0]. rewrite Hsk. split; [|split; [lia|exact Hc']].
    destruct (rr =? 0); [reflexivity|]. f_equal. apply mk_eq; [unfold k in *; nia|reflexivity]. }
  assert (Hone : contiguous (h_scale q h) (h_s0 h s0) (outs ++ [mk (h_scale q h) (h_s0 h s0 + E) o])).
  { apply contiguous_app; [exact Hc|]. rewrite <- HEo. apply contiguous_one. }
  destruct (if h_two h then true else negb (zlen o =? 0)) eqn:Eemit.
  - eexists _, _. split; [reflexivity|]. apply Hfinal; [|exact Hone].
    rewrite map_app, concat_app. cbn [map concat]. rewrite dat_mk, app_nil_r, Hv. reflexivity.
  - eexists _, _. split; [reflexivity|]. rewrite app_nil_r. apply Hfinal; [|exact Hc].
    destruct (h_two h); [discriminate|].
    rewrite (zlen_zero_nil o) by lia. now rewrite app_nil_r.
Qed.

Lemma downsample_ok : forall ds : list (list A), nonempty_chunks ds ->
  stage_ok (run (downsample_step true q) ds_init (mkstream h s0 ds))
           (downsampled q (concat ds)) (h_scale q h) (h_s0 h s0).
Proof.
  intros ds Hne.
  destruct (run_stream0 (downsample_step true q) h s0 ds_inv ds_init downsample_step_ok) with (ds := ds)
    as (st & o & E & (done & r & E' & HE & HEo & Hpre & Hd & Hr & Hv & _ & _ & Hc)); [|exact Hne|].
  - exists [], [], 0. cbn [ds_init ds_rem ds_s0 map concat app].
    repeat split; try reflexivity; try apply contiguous_nil; unfold zlen; cbn [length]; lia.
  - exists st, o. split; [exact E|]. split; [|exact Hc].
    destruct (split_unique q E' (concat ds) done r Hq Hpre Hd Hr) as [_ Hdone].
    rewrite Hv. unfold downsampled, take_mult. now rewrite <- Hdone.
Qed.
End Downsample.

(* ------------------------------------------------------------------ *)
(* decimate (repaired: every sample is filtered once)                  *)
(* ------------------------------------------------------------------ *)
Section Decimate.
Context {F A : Type}.
Variables (filt : F -> A -> F * A) (zf0 : F) (q : Z) (h : hdr) (s0 : Z).
Hypothesis Hq : 1 <= q.

Definition dec_inv (s : option (dec_st F A)) (pre : list A) (outs : list (blk A)) : Prop :=
  exists done r E,
    0 <= E /\ E = zlen (concat (map dat outs)) /\
    filtered filt zf0 pre = done ++ r /\ zlen done = q * E /\ zlen r < q /\
    concat (map dat outs) = every q done /\
    match s with
    | None => pre = []
    | Some st => d_zf st = fst (mapAccum filt zf0 pre) /\ d_s0 st = h_s0 h s0 + E /\
                 d_rem st = (if zlen r =? 0 then None else Some (mk h (s0 + q * E) r))
    end /\
    contiguous (h_scale q h) (h_s0 h s0) outs.

Lemma decimate_step_ok : forall s pre outs c, dec_inv s pre outs -> c <> [] ->
  exists s' o, decimate_step true filt zf0 q s (mk h (s0 + zlen pre) c) = Some (s', o) /\
               dec_inv s' (pre ++ c) (outs ++ o).
Proof.
  intros s pre outs c (done & r & E & HE & HEo & Hfx & Hd & Hr & Hv & Hst & Hc) Hne.
  pose proof (zlen_nonneg r) as Hr0.
  assert (HN : zlen pre = q * E + zlen r).
  { rewrite <- (mapAccum_length filt pre zf0). fold (filtered filt zf0 pre). rewrite Hfx, zlen_app. lia. }
  (* the effective state *)
  set (st := match s with Some st => st | None => DecSt zf0 (s0_of (mk h (s0 + zlen pre) c)) None end).
  assert (Hst' : d_zf st = fst (mapAccum filt zf0 pre) /\ d_s0 st = h_s0 h s0 + E /\
                 d_rem st = (if zlen r =? 0 then None else Some (mk h (s0 + q * E) r))).
  { unfold st. destruct s as [st0|]; [exact Hst|]. subst pre. cbn [d_zf d_s0 d_rem mapAccum fst].
    unfold filtered in Hfx. cbn [mapAccum snd] in Hfx.
    assert (r = []) by (destruct done; destruct r; try discriminate; reflexivity). subst r.
    assert (done = []) by (destruct done; try discriminate; reflexivity). subst done.
    rewrite zlen_nil in *. rewrite s0_of_mk. split; [reflexivity|]. split; [|reflexivity].
    assert (E = 0) by nia. subst E. unfold h_s0. destruct (h_an h); lia. }
  destruct Hst' as (Hzf & Hs0 & Hrem).
  unfold decimate_step. fold st. rewrite dat_mk, Hzf.
  destruct (mapAccum filt (fst (mapAccum filt zf0 pre)) c) as [zf1 yf] eqn:Ef.
  assert (Hfx' : filtered filt zf0 (pre ++ c) = done ++ (r ++ yf)).
  { unfold filtered. rewrite mapAccum_app, Ef. cbn [snd]. fold (filtered filt zf0 pre).
    rewrite Hfx. now rewrite app_assoc. }
  assert (Hzf' : zf1 = fst (mapAccum filt zf0 (pre ++ c))) by (rewrite mapAccum_app, Ef; reflexivity).
  assert (Hyf : zlen yf = zlen c).
  { pose proof (mapAccum_length filt c (fst (mapAccum filt zf0 pre))) as HL. now rewrite Ef in HL. }
  change (Blk yf (two (mk h (s0 + zlen pre) c)) (an (mk h (s0 + zlen pre) c)))
    with (mk h (s0 + zlen pre) yf).
  assert (Hy : match d_rem st with None => Some (mk h (s0 + zlen pre) yf)
                                 | Some r0 => concat2 r0 (mk h (s0 + zlen pre) yf) end
               = Some (mk h (s0 + q * E) (r ++ yf))).
  { rewrite Hrem. destruct (zlen r =? 0) eqn:E0.
    - rewrite (zlen_zero_nil r) by lia. cbn [app]. f_equal. apply mk_eq; [lia|reflexivity].
    - apply concat2_mk. lia. }
  rewrite Hy. rewrite (split_rem_mk q h Hq).
  set (l := r ++ yf). set (rr := zlen l mod q). set (k := zlen l - rr).
  destruct (ds_core q Hq E done l HE Hd) as (Hrr & Hk & Ho & Hkq & Hkk & Hdl & Hev & Hsk).
  fold rr k in Hrr, Hk, Ho, Hkq, Hkk, Hdl, Hev, Hsk.
  rewrite set_s0_mk, dat_mk, Hs0.
  set (o := every q (firstn (Z.to_nat k) l)) in *.
  assert (Hfinal : forall outs', concat (map dat outs') = every q done ++ o ->
            contiguous (h_scale q h) (h_s0 h s0) outs' ->
            dec_inv (Some (DecSt zf1 (h_s0 h s0 + E + zlen o)
                      (if rr =? 0 then None else Some (mk h (s0 + q * E + zlen l - rr) (skipn (Z.to_nat k) l)))))
                    (pre ++ c) outs').
  { intros outs' Hv' Hc'.
    exists (done ++ firstn (Z.to_nat k) l), (skipn (Z.to_nat k) l), (E + k / q).
    split; [lia|]. split; [rewrite Hv', zlen_app, <- Hv, <- HEo; lia|].
    split; [rewrite Hfx', <- app_assoc, firstn_skipn; reflexivity|].
    split; [exact Hdl|]. split; [lia|]. split; [now rewrite Hv', Hev|].
    cbn [d_zf d_s0 d_rem]. rewrite Hsk. split; [|exact Hc'].
    split; [exact Hzf'|]. split; [lia|].
    destruct (rr =? 0); [reflexivity|]. f_equal. apply mk_eq; [unfold k in *; nia|reflexivity]. }
  destruct (zlen o >? 0) eqn:Eemit.
  - eexists _, _. split; [reflexivity|]. apply Hfinal.
    + rewrite map_app, concat_app. cbn [map concat]. rewrite dat_mk, app_nil_r, Hv. reflexivity.
    + apply contiguous_app; [exact Hc|]. rewrite <- HEo. apply contiguous_one.
  - eexists _, _. split; [reflexivity|]. rewrite app_nil_r. apply Hfinal; [|exact Hc].
    rewrite (zlen_zero_nil o) by lia. now rewrite app_nil_r.
Qed.

Lemma decimate_ok : forall ds : list (list A), nonempty_chunks ds ->
  stage_ok (run (decimate_step true filt zf0 q) None (mkstream h s0 ds))
           (decimated filt zf0 q (concat ds)) (h_scale q h) (h_s0 h s0).
Proof.
  intros ds Hne.
  destruct (run_stream0 (decimate_step true filt zf0 q) h s0 dec_inv None decimate_step_ok) with (ds := ds)
    as (st & o & E & (done & r & E' & HE & HEo & Hfx & Hd & Hr & Hv & _ & Hc)); [|exact Hne|].
  - exists [], [], 0. cbn [map concat app].
    repeat split; try reflexivity; try apply contiguous_nil; unfold zlen; cbn [length]; lia.
  - exists st, o. split; [exact E|]. split; [|exact Hc].
    destruct (split_unique q E' (filtered filt zf0 (concat ds)) done r Hq Hfx Hd Hr) as [_ Hdone].
    rewrite Hv. unfold decimated, downsampled, take_mult. now rewrite <- Hdone.
Qed.
End Decimate.

(* ------------------------------------------------------------------ *)
(* rms (repaired: channel attribute of the input kept)                 *)
(* ------------------------------------------------------------------ *)
Section Rms.
Context {A O : Type}.
Variables (agg : list A -> O) (n : Z) (h : hdr) (s0 : Z).
Hypothesis Hn : 1 <= n.

Definition rms_inv (st : rms_st A) (pre : list A) (outs : list (blk O)) : Prop :=
  exists rs done E,
    0 <= E /\ E = zlen (concat (map dat outs)) /\
    r_data st = mkstream h (s0 + n * E) rs /\
    r_n st = zlen (concat rs) /\ r_n st < n /\
    pre = done ++ concat rs /\ zlen done = n * E /\
    concat (map dat outs) = map agg (chop (Z.to_nat E) (Z.to_nat n) done) /\
    contiguous (h_scale n h) (s0 / n) outs.

Lemma rms_step_ok : forall st pre outs c, rms_inv st pre outs -> c <> [] ->
  exists st' o, rms_step true agg n st (mk h (s0 + zlen pre) c) = Some (st', o) /\
                rms_inv st' (pre ++ c) (outs ++ o).
Proof.
  intros st pre outs c (rs & done & E & HE & HEo & Hdata & Hrn & Hlt & Hpre & Hd & Hv & Hc) Hne.
  assert (HN : zlen pre = n * E + zlen (concat rs)) by (rewrite Hpre, zlen_app; lia).
  assert (Hdata' : r_data st ++ [mk h (s0 + zlen pre) c] = mkstream h (s0 + n * E) (rs ++ [c])).
  { rewrite mkstream_app, Hdata. cbn [mkstream]. do 2 f_equal. apply mk_eq; [lia|reflexivity]. }
  unfold rms_step. rewrite dat_mk, Hdata'.
  destruct (r_n st + zlen c >=? n) eqn:Ege.
  - rewrite concat_list_mkstream by (destruct rs; discriminate).
    set (l := concat (rs ++ [c])). rewrite dat_mk.
    assert (Hl : zlen l = r_n st + zlen c) by (unfold l; rewrite concat_snoc, zlen_app; lia).
    set (nb := zlen l / n). set (ns := nb * n).
    assert (Hnb : 1 <= nb) by (unfold nb; apply Z.div_le_lower_bound; lia).
    assert (Hns : 0 <= ns <= zlen l).
    { unfold ns, nb. pose proof (Z.mul_div_le (zlen l) n ltac:(lia)). nia. }
    assert (Hmod : zlen l - ns < n).
    { unfold ns, nb. pose proof (Z.div_mod (zlen l) n ltac:(lia)).
      pose proof (Z.mod_pos_bound (zlen l) n ltac:(lia)). lia. }
    rewrite getitem_head by lia. rewrite getitem_tail by lia. rewrite dat_mk, two_mk.
    change (dat (mk h (s0 + n * E) (firstn (Z.to_nat ns) l))) with (firstn (Z.to_nat ns) l).
    set (vals := map agg (chop (Z.to_nat nb) (Z.to_nat n) (firstn (Z.to_nat ns) l))).
    assert (Hres : Blk vals (h_two h)
               (option_map (fun a => An (a_s0 a / n) (a_fsd a * n)
                                        (if h_two h then a_ch a else if true then a_ch a
                                         else Some (repeat 0 (Z.to_nat nb))) (a_md a))
                           (an (mk h (s0 + n * E) (firstn (Z.to_nat ns) l))))
             = mk (h_scale n h) (s0 / n + E) vals).
    { unfold mk, h_scale. cbn [an h_two h_an dat two].
      destruct (h_an h) as [[[f ch] md]|]; [|reflexivity].
      cbn [option_map a_s0 a_fsd a_ch a_md]. f_equal. f_equal. f_equal.
      - rewrite (Z.mul_comm n E). apply Z.div_add. lia.
      - destruct (h_two h); reflexivity. }
    rewrite Hres. eexists _, _. split; [reflexivity|].
    assert (Hvl : zlen vals = nb).
    { unfold vals. rewrite zlen_map. unfold zlen. rewrite chop_length. lia. }
    exists [skipn (Z.to_nat ns) l], (done ++ firstn (Z.to_nat ns) l), (E + nb).
    cbn [r_data r_n dat mk map concat]. rewrite !app_nil_r.
    rewrite map_app, concat_app. cbn [map concat]. rewrite dat_mk, app_nil_r.
    split; [lia|]. split; [rewrite zlen_app, <- HEo, Hvl; reflexivity|].
    split; [cbn [mkstream]; f_equal; apply mk_eq; [unfold ns; lia|reflexivity]|].
    split; [reflexivity|]. split; [rewrite zlen_skipn by lia; lia|].
    split; [rewrite <- app_assoc, firstn_skipn; unfold l; rewrite concat_snoc, app_assoc, <- Hpre; reflexivity|].
    split; [rewrite zlen_app, Hd, zlen_firstn by lia; unfold ns; lia|].
    split.
    + rewrite Hv. unfold vals.
      replace (Z.to_nat (E + nb)) with (Z.to_nat E + Z.to_nat nb)%nat by lia.
      rewrite chop_app; [now rewrite map_app|]. unfold zlen in Hd. nia.
    + apply contiguous_app; [exact Hc|]. rewrite <- HEo. apply contiguous_one.
  - eexists _, []. split; [reflexivity|]. rewrite app_nil_r.
    exists (rs ++ [c]), done, E. cbn [r_data r_n]. rewrite concat_snoc, zlen_app.
    split; [lia|]. split; [exact HEo|]. split; [reflexivity|].
    split; [lia|]. split; [lia|]. split; [now rewrite app_assoc, <- Hpre|]. auto.
Qed.

Lemma rms_ok : forall ds : list (list A), nonempty_chunks ds ->
  stage_ok (run (rms_step true agg n) rms_init (mkstream h s0 ds))
           (rms_blocks agg n (concat ds)) (h_scale n h) (s0 / n).
Proof.
  intros ds Hne.
  destruct (run_stream0 (rms_step true agg n) h s0 rms_inv rms_init rms_step_ok) with (ds := ds)
    as (st & o & E & (rs & done & E' & HE & HEo & _ & Hrn & Hlt & Hpre & Hd & Hv & Hc)); [|exact Hne|].
  - exists [], [], 0. cbn [rms_init r_data r_n map concat mkstream app chop Z.to_nat].
    repeat split; try reflexivity; try apply contiguous_nil; unfold zlen; cbn [length]; lia.
  - exists st, o. split; [exact E|]. split; [|exact Hc].
    rewrite Hrn in Hlt.
    destruct (split_unique n E' (concat ds) done (concat rs) Hn Hpre Hd Hlt) as [HE' _].
    rewrite Hv. unfold rms_blocks. rewrite <- HE'. rewrite Hpre. f_equal.
    symmetry. apply chop_prefix. unfold zlen in Hd. nia.
Qed.
End Rms.
