(* C12 proofs, part C: event_rate over chunked Events; the witnesses that the code before the
   fix-C12 commits violated the property.  Stdlib only, no axioms. *)
From Coq Require Import ZArith List Bool Lia ZifyBool.
From PV Require Import Stages.Model Stages.Spec Stages.Lemmas Stages.ProofsA Stages.ProofsB.
Import ListNotations.
Open Scope Z_scope.

(* ------------------------------------------------------------------ *)
(* counting events in a window                                         *)
(* ------------------------------------------------------------------ *)
Lemma count_in_app (a b : list Z) (x y : Z) : count_in (a ++ b) x y = count_in a x y + count_in b x y.
Proof. unfold count_in. now rewrite filter_app, zlen_app. Qed.

Lemma count_in_filter (p : Z -> bool) (x y : Z) : forall l : list Z,
  (forall v, In v l -> x <= v < y -> p v = true) -> count_in (filter p l) x y = count_in l x y.
Proof.
  unfold count_in. induction l as [|v l IH]; intros H; [reflexivity|].
  cbn [filter]. assert (IH' := IH (fun w Hw => H w (or_intror Hw))).
  destruct (p v) eqn:Ep.
  - cbn [filter]. destruct ((x <=? v) && (v <? y)); [rewrite !zlen_cons|]; now rewrite IH'.
  - destruct ((x <=? v) && (v <? y)) eqn:Ew; [|exact IH'].
    rewrite (H v (or_introl eq_refl)) in Ep; [discriminate|lia].
Qed.

Lemma count_in_none (x y : Z) : forall l : list Z, Forall (fun v => y <= v) l -> count_in l x y = 0.
Proof.
  unfold count_in. induction l as [|v l IH]; intros H; [reflexivity|].
  inversion H; subst. cbn [filter]. destruct ((x <=? v) && (v <? y)) eqn:E; [lia|]. now apply IH.
Qed.

(* ------------------------------------------------------------------ *)
(* the window recursion of the specification                           *)
(* ------------------------------------------------------------------ *)
Section EventRate.
Variables (bsz stp : Z).
Hypothesis Hb : 0 <= bsz.
Hypothesis Hs : 1 <= stp.

(* position of the first window that is not complete yet *)
Fixpoint final_lo (fuel : nat) (lo hi : Z) : Z :=
  match fuel with
  | O => lo
  | Datatypes.S f => if hi - lo >? bsz then final_lo f (lo + stp) hi else lo
  end.

Lemma windows_fuel ev hi : forall (f1 f2 : nat) (lo : Z),
  hi - lo <= Z.of_nat f1 -> hi - lo <= Z.of_nat f2 ->
  windows f1 ev bsz stp lo hi = windows f2 ev bsz stp lo hi /\ final_lo f1 lo hi = final_lo f2 lo hi.
Proof.
  induction f1 as [|f1 IH]; intros f2 lo H1 H2.
  - destruct f2 as [|f2]; [split; reflexivity|]. cbn [windows final_lo].
    destruct (hi - lo >? bsz) eqn:E; [lia|split; reflexivity].
  - destruct f2 as [|f2]; cbn [windows final_lo].
    + destruct (hi - lo >? bsz) eqn:E; [lia|split; reflexivity].
    + destruct (hi - lo >? bsz) eqn:E; [|split; reflexivity].
      destruct (IH f2 (lo + stp)) as [E1 E2]; [lia|lia|]. now rewrite E1, E2.
Qed.

Lemma windows_done ev lo hi (f : nat) : hi - lo <= bsz -> windows f ev bsz stp lo hi = [].
Proof. intros H. destruct f; [reflexivity|]. cbn [windows]. destruct (hi - lo >? bsz) eqn:E; [lia|reflexivity]. Qed.

Lemma final_lo_spec hi : forall (f : nat) (lo : Z), hi - lo <= Z.of_nat f ->
  lo <= final_lo f lo hi /\ hi - final_lo f lo hi <= bsz.
Proof.
  induction f as [|f IH]; intros lo H; cbn [final_lo]; [lia|].
  destruct (hi - lo >? bsz) eqn:E; [|lia]. destruct (IH (lo + stp)); lia.
Qed.

(* more events (all at or after hi) and a later end do not change the windows already complete;
   the recursion continues from final_lo *)
Lemma windows_continue ev new hi hi' : hi <= hi' -> Forall (fun v => hi <= v) new ->
  forall (f : nat) (lo : Z), hi' - lo <= Z.of_nat f ->
  windows f (ev ++ new) bsz stp lo hi' =
  windows f ev bsz stp lo hi ++ windows f (ev ++ new) bsz stp (final_lo f lo hi) hi'.
Proof.
  intros Hh Hnew. induction f as [|f IH]; intros lo Hf; [reflexivity|].
  cbn [final_lo].
  destruct (hi - lo >? bsz) eqn:E.
  - destruct (final_lo_spec hi f (lo + stp)) as [Hfl _]; [lia|].
    destruct (windows_fuel (ev ++ new) hi' (Datatypes.S f) f (final_lo f (lo + stp) hi)) as [W _]; [lia|lia|].
    rewrite W. cbn [windows]. rewrite E.
    destruct (hi' - lo >? bsz) eqn:E'; [|lia].
    rewrite <- app_comm_cons. f_equal.
    + rewrite count_in_app. rewrite (count_in_none lo (lo + bsz) new); [lia|].
      eapply Forall_impl; [|exact Hnew]. cbn beta. intros; lia.
    + apply IH. lia.
  - rewrite (windows_done ev lo hi) by lia. reflexivity.
Qed.

(* ------------------------------------------------------------------ *)
(* the loop of the code on its filtered event list                     *)
(* ------------------------------------------------------------------ *)
(* what the state's Events object knows: above its start it counts like the events seen so far,
   and nothing lies at or beyond its end *)
Definition ev_inv (e : events) (sofar : list Z) : Prop :=
  (forall x y, e_lo e <= x -> count_in (evs e) x y = count_in sofar x y) /\
  Forall (fun v => v < e_hi e) (evs e).

Lemma er_loop_spec sofar : forall (fuel : nat) (e : events), ev_inv e sofar ->
  e_hi e - e_lo e <= Z.of_nat fuel ->
  exists e', er_loop fuel bsz stp e = Some (windows fuel sofar bsz stp (e_lo e) (e_hi e), e') /\
             ev_inv e' sofar /\ e_hi e' = e_hi e /\ e_lo e' = final_lo fuel (e_lo e) (e_hi e).
Proof.
  induction fuel as [|fuel IH]; intros e [Hcnt Hbd] Hf.
  - exists e. cbn [er_loop windows final_lo]. destruct (e_hi e - e_lo e >? bsz) eqn:E; [lia|].
    split; [reflexivity|]. split; [split; assumption|split; reflexivity].
  - cbn [er_loop windows final_lo]. destruct (e_hi e - e_lo e >? bsz) eqn:E.
    + unfold get_range.
      destruct ((e_lo e <? e_lo e) || (e_lo e + bsz >? e_hi e)) eqn:G1; [lia|].
      (* the left-over is trimmed on the left only (repair fix-C12-er) *)
      set (e1 := trim_left e (e_lo e + stp)).
      destruct (IH e1) as (e' & E1 & Hinv' & Hhi & Hlo).
      * split.
        -- intros x y Hx. cbn [e1 trim_left evs e_lo] in *. rewrite count_in_filter.
           ++ apply Hcnt. lia.
           ++ intros v Hv Hxy. lia.
        -- cbn [e1 trim_left evs e_hi]. apply Forall_forall. intros v Hv. apply filter_In in Hv.
           destruct Hv as [Hv _]. rewrite Forall_forall in Hbd. exact (Hbd v Hv).
      * cbn [e1 trim_left e_lo e_hi]. lia.
      * rewrite E1. exists e'. cbn [e1 trim_left e_lo e_hi evs] in *.
        split; [|split; [exact Hinv'|split; [exact Hhi|exact Hlo]]].
        do 2 f_equal. f_equal. fold (count_in (evs e) (e_lo e) (e_lo e + bsz)). apply Hcnt. lia.
    + exists e. split; [reflexivity|]. split; [split; assumption|split; reflexivity].
Qed.

(* ------------------------------------------------------------------ *)
(* the run over a stream of Events chunks                              *)
(* ------------------------------------------------------------------ *)
Variable lo0 : Z.

Lemma r_contiguous_app s2 : forall (a b : list rblk),
  r_contiguous s2 stp a -> r_contiguous (s2 + 2 * zlen (concat (map r_counts a))) stp b ->
  r_contiguous s2 stp (a ++ b).
Proof.
  intros a. revert s2. induction a as [|o a IH]; intros s2 b Ha Hb'.
  - cbn [map concat app] in *. change (zlen (@nil Z)) with 0 in Hb'. rewrite Z.mul_0_r, Z.add_0_r in Hb'. exact Hb'.
  - cbn [app r_contiguous map concat] in *. destruct Ha as (H1 & H2 & H3).
    repeat split; [assumption|assumption|]. apply IH; [exact H3|].
    rewrite zlen_app in Hb'. replace (s2 + 2 * zlen (r_counts o) + 2 * zlen (concat (map r_counts a)))
      with (s2 + 2 * (zlen (r_counts o) + zlen (concat (map r_counts a)))) by lia. exact Hb'.
Qed.

(* invariant between chunks: e = state's events, s2 = state's doubled s0, sofar = all events received,
   cnts = all counts emitted *)
Definition er_inv (e : events) (s2 : Z) (sofar cnts : list Z) : Prop :=
  ev_inv e sofar /\ lo0 <= e_lo e /\ e_hi e - e_lo e <= bsz /\
  s2 = 2 * lo0 + bsz + 2 * zlen cnts /\
  (forall new hi' (f : nat), e_hi e <= hi' -> Forall (fun v => e_hi e <= v) new ->
     hi' - lo0 <= Z.of_nat f ->
     windows f (sofar ++ new) bsz stp lo0 hi' = cnts ++ windows f (sofar ++ new) bsz stp (e_lo e) hi').

Lemma er_step_ok e s2 sofar cnts (c : events) :
  er_inv e s2 sofar cnts ->
  e_lo c = e_hi e -> e_hi e < e_hi c -> Forall (fun v => e_hi e <= v < e_hi c) (evs c) ->
  exists e' s2' o, er_step true bsz stp (Some (ErSt e s2)) c = Some (Some (ErSt e' s2'), o) /\
    er_inv e' s2' (sofar ++ evs c) (cnts ++ concat (map r_counts o)) /\
    r_contiguous s2 stp o /\ e_hi e' = e_hi c.
Proof.
  intros ((Hcnt & Hbd) & Hlo & Hfin & Hs2 & Hwin) Hc1 Hc2 Hc3.
  unfold er_step, combine_events. cbn [er_ev er_s0x2]. rewrite Hc1, Z.eqb_refl.
  set (e2 := Ev (evs e ++ evs c) (e_lo e) (e_hi c)).
  assert (Hinv2 : ev_inv e2 (sofar ++ evs c)).
  { split; cbn [e2 evs e_lo e_hi].
    - intros x y Hx. rewrite !count_in_app. now rewrite Hcnt.
    - apply Forall_app. split.
      + eapply Forall_impl; [|exact Hbd]. cbn beta. intros; lia.
      + eapply Forall_impl; [|exact Hc3]. cbn beta. intros; lia. }
  destruct (er_loop_spec (sofar ++ evs c) (Z.to_nat (e_hi e2 - e_lo e2)) e2 Hinv2)
    as (e' & E1 & Hinv' & Hhi & Hlo'); [cbn [e2 e_lo e_hi]; lia|].
  rewrite E1. cbn [e2 e_lo e_hi] in *.
  set (fuel := Z.to_nat (e_hi c - e_lo e)) in *.
  set (cs := windows fuel (sofar ++ evs c) bsz stp (e_lo e) (e_hi c)) in *.
  destruct (final_lo_spec (e_hi c) fuel (e_lo e)) as [Hf1 Hf2]; [unfold fuel; lia|].
  assert (Hnew : er_inv e' (s2 + 2 * zlen cs) (sofar ++ evs c) (cnts ++ cs)).
  { split; [exact Hinv'|]. split; [lia|]. split; [lia|]. split; [rewrite zlen_app; lia|].
    intros new hi' f Hh Hn Hf. rewrite Hhi in *. rewrite <- (app_assoc sofar).
    rewrite (Hwin (evs c ++ new) hi' f); [|lia| |exact Hf].
    - rewrite <- (app_assoc cnts). f_equal. rewrite (app_assoc sofar).
      rewrite (windows_continue (sofar ++ evs c) new (e_hi c) hi' Hh Hn f (e_lo e)) by lia.
      destruct (windows_fuel (sofar ++ evs c) (e_hi c) f fuel (e_lo e)) as [W1 W2];
        [lia|unfold fuel; lia|].
      rewrite W1, W2, Hlo'. reflexivity.
    - apply Forall_app. split.
      + eapply Forall_impl; [|exact Hc3]. cbn beta. intros; lia.
      + eapply Forall_impl; [|exact Hn]. cbn beta. intros; lia. }
  destruct cs as [|c0 cs'] eqn:Ecs.
  - exists e', s2, []. split; [reflexivity|]. cbn [map concat r_contiguous].
    change (zlen (@nil Z)) with 0 in Hnew. rewrite Z.mul_0_r, Z.add_0_r in Hnew. rewrite app_nil_r in *. auto.
  - exists e', (s2 + 2 * zlen (c0 :: cs')), [Rb (c0 :: cs') s2 stp]. split; [reflexivity|].
    cbn [map concat r_counts r_contiguous r_s0x2 r_fsd]. rewrite app_nil_r. auto.
Qed.

Lemma er_run_ok : forall (cs : list events) e s2 sofar cnts,
  er_inv e s2 sofar cnts -> ev_stream (e_hi e) cs ->
  exists e' s2' o, run (er_step true bsz stp) (Some (ErSt e s2)) cs = Some (Some (ErSt e' s2'), o) /\
    er_inv e' s2' (sofar ++ ev_all cs) (cnts ++ concat (map r_counts o)) /\
    r_contiguous s2 stp o /\ e_hi e' = ev_end (e_hi e) cs.
Proof.
  induction cs as [|c cs IH]; intros e s2 sofar cnts Hinv Hst.
  - exists e, s2, []. cbn [run ev_all map concat r_contiguous ev_end]. rewrite !app_nil_r. auto.
  - cbn [ev_stream] in Hst. destruct Hst as (H1 & H2 & H3 & H4).
    destruct (er_step_ok e s2 sofar cnts c Hinv H1 H2) as (e1 & s21 & o1 & E1 & Hinv1 & Hc1 & Hh1).
    { eapply Forall_impl; [|exact H3]. cbn beta. intros; lia. }
    rewrite <- Hh1 in H4.
    destruct (IH e1 s21 _ _ Hinv1 H4) as (e2 & s22 & o2 & E2 & Hinv2 & Hc2 & Hh2).
    exists e2, s22, (o1 ++ o2). cbn [run]. rewrite E1, E2.
    split; [reflexivity|]. unfold ev_all in *. cbn [map concat ev_end].
    rewrite map_app, concat_app, !app_assoc. split; [rewrite <- !app_assoc in *; exact Hinv2|].
    split; [|now rewrite Hh2, Hh1].
    apply r_contiguous_app; [exact Hc1|].
    destruct Hinv1 as (_ & _ & _ & Hs21 & _). destruct Hinv as (_ & _ & _ & Hs2 & _).
    rewrite zlen_app in Hs21. replace (s2 + 2 * zlen (concat (map r_counts o1))) with s21 by lia.
    exact Hc2.
Qed.

Lemma er_ok : forall cs : list events, cs <> [] -> ev_stream lo0 cs ->
  exists st outs, run (er_step true bsz stp) None cs = Some (st, outs) /\
    concat (map r_counts outs) = event_rates bsz stp (ev_all cs) lo0 (ev_end lo0 cs) /\
    r_contiguous (2 * lo0 + bsz) stp outs.
Proof.
  intros cs Hne Hst. destruct cs as [|c cs]; [congruence|].
  (* the first chunk behaves like any other one after an empty span *)
  assert (Hfirst : er_step true bsz stp None c =
                   er_step true bsz stp (Some (ErSt (Ev [] lo0 lo0) (2 * lo0 + bsz))) c).
  { cbn [ev_stream] in Hst. destruct Hst as (H1 & _). destruct c as [ev l hi]. cbn [e_lo] in H1. subst l.
    unfold er_step, combine_events. cbn [er_ev er_s0x2 e_lo e_hi evs app]. now rewrite Z.eqb_refl. }
  assert (Hinv0 : er_inv (Ev [] lo0 lo0) (2 * lo0 + bsz) [] []).
  { split; [split; [reflexivity|constructor]|]. cbn [e_lo e_hi]. split; [lia|]. split; [lia|].
    split; [change (zlen (@nil Z)) with 0; lia|]. intros; reflexivity. }
  destruct (er_run_ok (c :: cs) (Ev [] lo0 lo0) (2 * lo0 + bsz) [] [] Hinv0 Hst)
    as (e' & s2' & o & E & Hinv & Hc & Hh).
  exists (Some (ErSt e' s2')), o. split; [|split; [|exact Hc]].
  - cbn [run] in *. rewrite Hfirst. exact E.
  - destruct Hinv as (_ & Hlo & Hfin & _ & Hwin). cbn [app e_hi] in *.
    unfold event_rates. rewrite <- Hh.
    specialize (Hwin [] (e_hi e') (Z.to_nat (e_hi e' - lo0)) (Z.le_refl _) (Forall_nil _)).
    rewrite app_nil_r in Hwin. rewrite Hwin by lia.
    rewrite (windows_done _ (e_lo e') (e_hi e')) by lia. now rewrite app_nil_r.
Qed.
End EventRate.

(* ------------------------------------------------------------------ *)
(* every q-th sample, pointwise                                        *)
(* ------------------------------------------------------------------ *)
Lemma downsampled_nth {A} (q : Z) (xs : list A) : 1 <= q ->
  zlen (downsampled q xs) = zlen xs / q /\
  forall k, 0 <= k < zlen xs / q ->
    nth_error (downsampled q xs) (Z.to_nat k) = nth_error xs (Z.to_nat (k * q)).
Proof.
  intros Hq. unfold downsampled, take_mult.
  pose proof (zlen_nonneg xs) as Hn.
  assert (Hdiv : 0 <= zlen xs / q) by (apply Z.div_pos; lia).
  assert (Hle : q * (zlen xs / q) <= zlen xs) by (apply Z.mul_div_le; lia).
  set (m := zlen xs / q) in *.
  destruct (every_app q m (firstn (Z.to_nat (q * m)) xs) [] Hq Hdiv) as [_ Hl].
  { apply zlen_firstn. lia. }
  split; [exact Hl|]. intros k Hk. unfold every.
  rewrite every_nth_error by lia.
  replace (Z.to_nat k * Z.to_nat q)%nat with (Z.to_nat (k * q)) by lia.
  rewrite <- (firstn_skipn (Z.to_nat (q * m)) xs) at 2.
  rewrite nth_error_app1; [reflexivity|]. rewrite firstn_length. unfold zlen in *. nia.
Qed.

(* ------------------------------------------------------------------ *)
(* the code before the fix-C12 commits                                  *)
(* ------------------------------------------------------------------ *)
Definition h1d : hdr := Hdr false (Some (1, None, 7)).

(* downsample: consecutive annotated outputs cannot be concatenated (input-rate s0) *)
Lemma downsample_unrepaired_refuted : exists (q : Z) (h : hdr) (s0 : Z) (ds : list (list Z)),
  1 <= q /\ nonempty_chunks ds /\
  exists st outs, run (downsample_step false q) ds_init (mkstream h s0 ds) = Some (st, outs) /\
                  outs <> [] /\ concat_list outs = None.
Proof.
  exists 2, h1d, 0, [[0; 1; 2]; [3; 4; 5]; [6; 7; 8; 9]].
  split; [lia|]. split; [repeat constructor; discriminate|].
  eexists _, _. split; [vm_compute; reflexivity|]. split; [discriminate|]. vm_compute. reflexivity.
Qed.

(* decimate: with a genuine recursive filter the chunked output is not filter-then-pick *)
Lemma decimate_unrepaired_refuted : exists (q : Z) (h : hdr) (s0 : Z) (ds : list (list Z)),
  1 <= q /\ nonempty_chunks ds /\
  exists st outs, run (decimate_step false cfilt 0 q) None (mkstream h s0 ds) = Some (st, outs) /\
                  concat (map dat outs) <> decimated cfilt 0 q (concat ds).
Proof.
  exists 2, (Hdr false None), 0, [[1; 2; 3]; [4; 5; 6]].
  split; [lia|]. split; [repeat constructor; discriminate|].
  eexists _, _. split; [vm_compute; reflexivity|]. vm_compute. discriminate.
Qed.

(* iirfilter: labels and metadata of the input are lost *)
Lemma iir_unrepaired_refuted : exists (h : hdr) (s0 : Z) (ds : list (list Z)),
  nonempty_chunks ds /\
  exists st outs, run (iir_step false cfilt (fun x => x)) None (mkstream h s0 ds) = Some (st, outs) /\
                  ~ contiguous h s0 outs.
Proof.
  exists (Hdr true (Some (1, Some [1; 2], 7))), 0, [[1; 2]; [3]].
  split; [repeat constructor; discriminate|].
  eexists _, _. split; [vm_compute; reflexivity|]. unfold contiguous. vm_compute. discriminate.
Qed.

(* rms on 1-D annotated input: one label per block, so outputs with different block counts do not concatenate *)
Lemma rms_unrepaired_refuted : exists (n : Z) (h : hdr) (s0 : Z) (ds : list (list Z)),
  1 <= n /\ nonempty_chunks ds /\
  exists st outs, run (rms_step false (sagg n) n) rms_init (mkstream h s0 ds) = Some (st, outs) /\
                  outs <> [] /\ concat_list outs = None.
Proof.
  exists 2, h1d, 0, [[0; 1; 2; 3]; [4; 5]].
  split; [lia|]. split; [repeat constructor; discriminate|].
  eexists _, _. split; [vm_compute; reflexivity|]. split; [discriminate|]. vm_compute. reflexivity.
Qed.

(* event_rate: the same span delivered as one chunk or as two gives different output *)
Lemma event_rate_unrepaired_refuted : exists (bsz stp : Z) (cs1 cs2 : list events),
  ev_stream 0 cs1 /\ ev_stream 0 cs2 /\ ev_all cs1 = ev_all cs2 /\ ev_end 0 cs1 = ev_end 0 cs2 /\
  exists st1 o1 st2 o2,
    run (er_step false bsz stp) None cs1 = Some (st1, o1) /\
    run (er_step false bsz stp) None cs2 = Some (st2, o2) /\
    concat (map r_counts o1) <> concat (map r_counts o2).
Proof.
  exists 3, 2, [Ev [1; 3; 6] 0 9], [Ev [1; 3] 0 5; Ev [6] 5 9].
  split; [cbn; repeat split; try lia; repeat constructor; lia|].
  split; [cbn; repeat split; try lia; repeat constructor; lia|].
  split; [reflexivity|]. split; [reflexivity|].
  eexists _, _, _, _. split; [vm_compute; reflexivity|]. split; [vm_compute; reflexivity|].
  vm_compute. discriminate.
Qed.
