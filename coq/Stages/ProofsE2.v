(* C12 for EVERY chunking, zero-length chunks included: blocked, discard, downsample, rms, derivative,
   transform / mc_reference, auto_th (iirfilter and decimate: ProofsE.v; event_rate: end of this file).
   The step functions are the ones of Stages/Model.v: the code treats a zero-length chunk like any other.
   The sections below repeat the invariant proofs of ProofsA.v / ProofsB.v without the hypothesis that the
   chunk is non-empty (it was only needed by discard, for arithmetic, and by iirfilter).  No axioms. *)
From Coq Require Import ZArith List Bool Lia ZifyBool.
From PV Require Import Stages.Model Stages.Spec Stages.Lemmas Stages.ProofsA Stages.ProofsB Stages.ProofsC
  Stages.ProofsD Stages.ProofsE.
Import ListNotations.
Open Scope Z_scope.

Lemma run_stream_any0 {S A O} (step : S -> blk A -> option (S * list O)) (h : hdr) (s0 : Z)
  (P : S -> list A -> list O -> Prop) (init : S) :
  (forall st pre outs d, P st pre outs ->
     exists st' o, step st (mk h (s0 + zlen pre) d) = Some (st', o) /\ P st' (pre ++ d) (outs ++ o)) ->
  P init [] [] ->
  forall ds, exists st' o, run step init (mkstream h s0 ds) = Some (st', o) /\ P st' (concat ds) o.
Proof.
  intros Hstep H0 ds.
  destruct (run_stream_any step h s0 P Hstep ds init [] [] H0) as (st' & o & E & HP).
  change (zlen (@nil A)) with 0 in E. rewrite Z.add_0_r in E. exists st', o. auto.
Qed.

Section Discard.
Context {A : Type}.
Variables (d : Z) (h : hdr) (s0 : Z).
Hypothesis Hd : 0 <= d.

Definition discard_inv_a (td : Z) (pre : list A) (outs : list (blk A)) : Prop :=
  td = Z.max 0 (d - zlen pre) /\
  concat (map dat outs) = skipn (Z.to_nat d) pre /\
  contiguous h (s0 + d) outs.

Lemma discard_step_ok_a : forall td pre outs c, discard_inv_a td pre outs ->
  exists td' o, discard_step td (mk h (s0 + zlen pre) c) = Some (td', o) /\
                discard_inv_a td' (pre ++ c) (outs ++ o).
Proof.
  intros td pre outs c (Htd & Hv & Hc).
  pose proof (zlen_nonneg pre) as Hp. pose proof (zlen_nonneg c) as Hn.
  unfold discard_step. rewrite dat_mk.
  destruct (td =? 0) eqn:E0.
  - (* everything is forwarded *)
    exists 0, [mk h (s0 + zlen pre) c]. split; [reflexivity|].
    assert (Hle : d <= zlen pre) by lia.
    split; [rewrite zlen_app; lia|]. split.
    + rewrite map_app, concat_app. cbn [map concat]. rewrite dat_mk, app_nil_r, Hv.
      now rewrite zskipn_app_le by lia.
    + apply contiguous_app; [exact Hc|]. rewrite Hv, zlen_skipn by lia.
      replace (s0 + d + (zlen pre - d)) with (s0 + zlen pre) by lia. apply contiguous_one.
  - destruct (zlen c <=? td) eqn:E1.
    + (* the whole chunk is discarded *)
      exists (td - zlen c), []. split; [reflexivity|]. rewrite app_nil_r.
      split; [rewrite zlen_app; lia|]. split; [|exact Hc].
      rewrite Hv. rewrite !zskipn_all; [reflexivity| rewrite zlen_app; lia | lia].
    + destruct (zlen c >? td) eqn:E2; [|lia].
      (* the chunk is cut *)
      exists 0, [getitem (Some td) None None (mk h (s0 + zlen pre) c)]. split; [reflexivity|].
      rewrite getitem_tail by lia.
      assert (Hlt : zlen pre < d) by lia.
      assert (Hnil : concat (map dat outs) = []) by (rewrite Hv; apply zskipn_all; lia).
      split; [rewrite zlen_app; lia|]. split.
      * rewrite map_app, concat_app. cbn [map concat]. rewrite dat_mk, app_nil_r, Hnil. cbn [app].
        rewrite zskipn_app_ge by lia. f_equal. f_equal. lia.
      * apply contiguous_app; [exact Hc|]. rewrite Hnil, zlen_nil.
        replace (s0 + d + 0) with (s0 + zlen pre + td) by lia. apply contiguous_one.
Qed.

Lemma discard_ok_a : forall ds : list (list A),
  stage_ok (run discard_step d (mkstream h s0 ds)) (discarded d (concat ds)) h (s0 + d).
Proof.
  intros ds.
  destruct (run_stream_any0 discard_step h s0 discard_inv_a d discard_step_ok_a) with (ds := ds)
    as (st & o & E & (_ & Hv & Hc)).
  - split; [unfold zlen; cbn [length]; lia|]. split; [now rewrite skipn_nil|apply contiguous_nil].
  - exists st, o. auto.
Qed.
End Discard.

Section MapStage.
Context {A O : Type}.
Variables (g : A -> O) (h : hdr) (s0 : Z).

Definition map_inv_a (st : unit) (pre : list A) (outs : list (blk O)) : Prop :=
  concat (map dat outs) = map g pre /\ contiguous h s0 outs.

Lemma map_step_ok_a : forall st pre outs c, map_inv_a st pre outs ->
  exists st' o, map_step g st (mk h (s0 + zlen pre) c) = Some (st', o) /\ map_inv_a st' (pre ++ c) (outs ++ o).
Proof.
  intros st pre outs c (Hv & Hc). exists tt, [mk h (s0 + zlen pre) (map g c)].
  split; [reflexivity|]. split.
  - rewrite map_app, concat_app. cbn [map concat]. rewrite dat_mk, app_nil_r, Hv. now rewrite map_app.
  - apply contiguous_app; [exact Hc|]. rewrite Hv, zlen_map. apply contiguous_one.
Qed.

Lemma map_ok_a : forall ds : list (list A),
  stage_ok (run (map_step g) tt (mkstream h s0 ds)) (map g (concat ds)) h s0.
Proof.
  intros ds.
  destruct (run_stream_any0 (map_step g) h s0 map_inv_a tt map_step_ok_a) with (ds := ds)
    as (st & o & E & (Hv & Hc)).
  - split; [reflexivity|apply contiguous_nil].
  - exists st, o. auto.
Qed.
End MapStage.

Section Derivative.
Context {A : Type}.
Variables (sub : A -> A -> A) (init : A) (h : hdr) (s0 : Z).
Hypothesis Hann : h_an h <> None.

Definition deriv_inv_a (s : option (blk A)) (pre : list A) (outs : list (blk A)) : Prop :=
  (s = Some (mk h (s0 + zlen pre - 1) [last pre init]) \/ (s = None /\ pre = [])) /\
  concat (map dat outs) = derived sub init pre /\ contiguous h s0 outs.

Lemma deriv_step_ok_a : forall s pre outs c, deriv_inv_a s pre outs ->
  exists s' o, derivative_step sub init s (mk h (s0 + zlen pre) c) = Some (s', o) /\
               deriv_inv_a s' (pre ++ c) (outs ++ o).
Proof.
  intros s pre outs c (Hs & Hv & Hc).
  destruct (h_an h) as [[[f ch] md]|] eqn:Eh; [|congruence].
  assert (Hist : match s with
                 | Some b => b
                 | None => Blk [init] (two (mk h (s0 + zlen pre) c))
                               (Some (An (s0 + zlen pre - 1) f ch md))
                 end = mk h (s0 + zlen pre - 1) [last pre init]).
  { destruct Hs as [-> | [-> ->]]; [reflexivity|]. unfold mk. rewrite Eh. reflexivity. }
  unfold derivative_step.
  assert (Ean : an (mk h (s0 + zlen pre) c) = Some (An (s0 + zlen pre) f ch md))
    by (unfold mk; rewrite Eh; reflexivity).
  rewrite Ean. cbn [a_s0 a_fsd a_ch a_md]. rewrite Hist.
  rewrite concat2_mk by (unfold zlen; cbn [length]; lia).
  cbn [app]. rewrite dat_mk.
  rewrite (getitem_tail h _ _ 1) by lia.
  rewrite (getitem_neg_tail h _ _ 1) by (rewrite zlen_cons; pose proof (zlen_nonneg c); lia).
  eexists _, _. split; [reflexivity|].
  split; [left|split].
  - rewrite zlen_cons. replace (1 + zlen c - 1) with (zlen c) by lia.
    rewrite zlen_to_nat, skipn_last, last_app2.
    f_equal. apply mk_eq; [rewrite zlen_app; lia|reflexivity].
  - rewrite map_app, concat_app. cbn [map concat dat]. rewrite app_nil_r, Hv.
    unfold derived. now rewrite diff_from_app.
  - apply contiguous_app; [exact Hc|]. rewrite Hv. unfold derived. rewrite diff_from_length.
    unfold contiguous. cbn [map mkstream dat two an mk]. unfold mk. rewrite Eh.
    cbn [option_map dat two an a_s0 a_fsd a_ch a_md slice_s0].
    replace (s0 + zlen pre - 1 + 1) with (s0 + zlen pre) by lia. reflexivity.
Qed.

Lemma deriv_ok_a : forall ds : list (list A),
  stage_ok (run (derivative_step sub init) None (mkstream h s0 ds)) (derived sub init (concat ds)) h s0.
Proof.
  intros ds.
  destruct (run_stream_any0 (derivative_step sub init) h s0 deriv_inv_a None deriv_step_ok_a) with (ds := ds)
    as (st & o & E & (_ & Hv & Hc)).
  - split; [right; auto|]. split; [reflexivity|apply contiguous_nil].
  - exists st, o. auto.
Qed.
End Derivative.

Section AutoTh.
Context {A T O : Type}.
Variables (thr : list A -> T) (ge : T -> A -> O) (Bn : Z) (h : hdr) (s0 : Z).
Hypothesis HB : 0 <= Bn.

Definition ath_inv_a (s : ath_st A T) (pre : list A) (outs : list (blk O)) : Prop :=
  match s with
  | AthAcc None => pre = [] /\ outs = []
  | AthAcc (Some d) => d = mk h s0 pre /\ zlen pre < Bn /\ outs = []
  | AthRun th => Bn <= zlen pre /\ th = thr (firstn (Z.to_nat Bn) pre) /\
                 concat (map dat outs) = map (ge th) pre /\ contiguous h s0 outs
  end.

Lemma ath_step_ok_a : forall s pre outs c, ath_inv_a s pre outs ->
  exists s' o, autoth_step thr ge Bn s (mk h (s0 + zlen pre) c) = Some (s', o) /\
               ath_inv_a s' (pre ++ c) (outs ++ o).
Proof.
  intros s pre outs c Hinv. pose proof (zlen_nonneg pre) as Hp. pose proof (zlen_nonneg c) as Hcn.
  unfold autoth_step. destruct s as [[d|]|th].
  - (* spooling, something already stored *)
    destruct Hinv as (-> & Hlt & ->).
    rewrite concat2_mk by lia. rewrite dat_mk.
    destruct (zlen (pre ++ c) <? Bn) eqn:E.
    + eexists _, []. split; [reflexivity|]. cbn [app]. repeat split; lia.
    + eexists _, _. split; [reflexivity|]. rewrite py_slice_head by lia. cbn [app].
      split; [lia|]. split; [reflexivity|]. split.
      * cbn [map concat]. now rewrite app_nil_r.
      * apply contiguous_one.
  - (* first chunk *)
    destruct Hinv as (-> & ->). rewrite dat_mk. cbn [app]. rewrite zlen_nil, Z.add_0_r.
    destruct (zlen c <? Bn) eqn:E.
    + eexists _, []. split; [reflexivity|]. cbn [app]. repeat split; lia.
    + eexists _, _. split; [reflexivity|]. rewrite py_slice_head by lia. cbn [app].
      split; [lia|]. split; [reflexivity|]. split.
      * cbn [map concat]. now rewrite app_nil_r.
      * apply contiguous_one.
  - (* running *)
    destruct Hinv as (Hge & -> & Hv & Hc). rewrite dat_mk.
    eexists _, _. split; [reflexivity|].
    split; [rewrite zlen_app; lia|]. split; [now rewrite zfirstn_app_le by lia|]. split.
    + rewrite map_app, concat_app. cbn [map concat dat]. rewrite app_nil_r, Hv. now rewrite map_app.
    + apply contiguous_app; [exact Hc|]. rewrite Hv, zlen_map. apply contiguous_one.
Qed.

Lemma ath_ok_a : forall ds : list (list A),
  stage_ok (run (autoth_step thr ge Bn) (AthAcc None) (mkstream h s0 ds))
           (thresholded thr ge Bn (concat ds)) h s0.
Proof.
  intros ds.
  destruct (run_stream_any0 (autoth_step thr ge Bn) h s0 ath_inv_a (AthAcc None) ath_step_ok_a) with (ds := ds)
    as (st & o & E & Hinv).
  - split; reflexivity.
  - exists st, o. split; [exact E|]. unfold thresholded.
    destruct st as [[d|]|th].
    + destruct Hinv as (_ & Hlt & ->). destruct (zlen (concat ds) <? Bn) eqn:E1; [|lia].
      split; [reflexivity|apply contiguous_nil].
    + destruct Hinv as (Hnil & ->). rewrite Hnil. rewrite zlen_nil.
      destruct (0 <? Bn) eqn:E1; (split; [reflexivity|apply contiguous_nil]).
    + destruct Hinv as (Hge & -> & Hv & Hc). destruct (zlen (concat ds) <? Bn) eqn:E1; [lia|]. auto.
Qed.
End AutoTh.

Section Blocked.
Context {A : Type}.
Variables (bs : Z) (h : hdr).
Hypothesis Hbs : 1 <= bs.

Lemma split_blocks_spec_a : forall (fuel : nat) (s : Z) (l : list A), (length l <= fuel)%nat ->
  exists bl r, split_blocks fuel bs (mk h s l) = Some (mkstream h s bl, mk h (s + zlen (concat bl)) r) /\
               l = concat bl ++ r /\ Forall (fun b => zlen b = bs) bl /\ zlen r < bs.
Proof.
  induction fuel as [|fuel IH]; intros s l Hl.
  - assert (l = []) by (destruct l; [reflexivity|cbn [length] in Hl; lia]). subst l.
    exists [], []. cbn [split_blocks dat mk]. rewrite zlen_nil.
    destruct (0 >=? bs) eqn:E; [lia|]. cbn [mkstream concat]. rewrite zlen_nil, Z.add_0_r.
    repeat split; [constructor|lia].
  - cbn [split_blocks]. rewrite dat_mk.
    destruct (zlen l >=? bs) eqn:E.
    + pose proof (zlen_nonneg l) as Hn.
      rewrite getitem_tail by lia. rewrite getitem_head by lia.
      destruct (IH (s + bs) (skipn (Z.to_nat bs) l)) as (bl & r & E1 & E2 & E3 & E4).
      { rewrite skipn_length. unfold zlen in E. lia. }
      rewrite E1. exists (firstn (Z.to_nat bs) l :: bl), r.
      assert (Hf : zlen (firstn (Z.to_nat bs) l) = bs) by (apply zlen_firstn; lia).
      split; [|split; [|split]].
      * cbn [mkstream concat]. rewrite Hf. rewrite zlen_app, Hf, Z.add_assoc. reflexivity.
      * cbn [concat]. rewrite <- app_assoc, <- E2. symmetry. apply firstn_skipn.
      * constructor; assumption.
      * exact E4.
    + exists [], l. cbn [mkstream concat]. rewrite zlen_nil, Z.add_0_r.
      repeat split; [constructor|lia].
Qed.

Variable s0 : Z.

Definition blocked_inv_a (st : blocked_st A) (pre : list A) (outs : list (blk A)) : Prop :=
  exists rs,
    b_data st = mkstream h (s0 + zlen (concat (map dat outs))) rs /\
    b_n st = zlen (concat rs) /\ b_n st < bs /\
    pre = concat (map dat outs) ++ concat rs /\
    Forall (fun o => zlen (dat o) = bs) outs /\ contiguous h s0 outs.

Lemma forall_mkstream_a (bl : list (list A)) s :
  Forall (fun b => zlen b = bs) bl -> Forall (fun o : blk A => zlen (dat o) = bs) (mkstream h s bl).
Proof.
  revert s. induction bl as [|b bl IH]; intros s Hf; [constructor|].
  inversion Hf; subst. cbn [mkstream]. constructor; [now rewrite dat_mk|]. apply IH. assumption.
Qed.

Lemma blocked_step_ok_a : forall st pre outs c, blocked_inv_a st pre outs ->
  exists st' o, blocked_step bs st (mk h (s0 + zlen pre) c) = Some (st', o) /\
                blocked_inv_a st' (pre ++ c) (outs ++ o).
Proof.
  intros st pre outs c (rs & Hdata & Hn & Hlt & Hpre & Hall & Hc).
  set (E := zlen (concat (map dat outs))) in *.
  assert (HN : zlen pre = E + zlen (concat rs)) by (rewrite Hpre, zlen_app; reflexivity).
  assert (Hdata' : b_data st ++ [mk h (s0 + zlen pre) c] = mkstream h (s0 + E) (rs ++ [c])).
  { rewrite mkstream_app, Hdata. cbn [mkstream]. do 2 f_equal. apply mk_eq; [lia|reflexivity]. }
  unfold blocked_step. rewrite dat_mk, Hdata'.
  destruct (b_n st + zlen c >=? bs) eqn:Ege.
  - rewrite concat_list_mkstream by (destruct rs; discriminate).
    change (dat (mk h (s0 + E) (concat (rs ++ [c])))) with (concat (rs ++ [c])).
    destruct (split_blocks_spec_a (length (concat (rs ++ [c]))) (s0 + E) (concat (rs ++ [c])) (le_n _))
      as (bl & r & E1 & E2 & E3 & E4).
    rewrite E1. eexists _, _. split; [reflexivity|].
    exists [r]. cbn [b_data b_n dat mk].
    rewrite map_app, concat_app, map_dat_mkstream, zlen_app. fold E.
    split; [cbn [mkstream]; f_equal; apply mk_eq; [lia|reflexivity]|].
    cbn [concat]. rewrite app_nil_r.
    split; [reflexivity|]. split; [exact E4|]. split.
    + rewrite <- app_assoc, <- E2, concat_snoc, app_assoc, <- Hpre. reflexivity.
    + split; [apply Forall_app; split; [exact Hall|now apply forall_mkstream_a]|].
      apply contiguous_app; [exact Hc|]. fold E. apply contiguous_mkstream.
  - eexists _, []. split; [reflexivity|]. rewrite app_nil_r.
    exists (rs ++ [c]). cbn [b_data b_n]. fold E.
    split; [reflexivity|]. rewrite concat_snoc, zlen_app.
    split; [lia|]. split; [lia|]. split; [now rewrite app_assoc, <- Hpre|]. split; assumption.
Qed.

Lemma blocked_ok_a : forall ds : list (list A),
  exists st outs, run (blocked_step bs) blocked_init (mkstream h s0 ds) = Some (st, outs) /\
    concat (map dat outs) = take_mult bs (concat ds) /\
    Forall (fun o => zlen (dat o) = bs) outs /\
    contiguous h s0 outs.
Proof.
  intros ds.
  destruct (run_stream_any0 (blocked_step bs) h s0 blocked_inv_a blocked_init blocked_step_ok_a) with (ds := ds)
    as (st & o & E & (rs & _ & Hn & Hlt & Hpre & Hall & Hc)).
  - exists []. cbn [blocked_init b_data b_n map concat mkstream].
    repeat split; try reflexivity; try constructor; unfold zlen; cbn [length]; lia.
  - exists st, o. split; [exact E|]. split; [|split; assumption].
    assert (Hblk : exists k, zlen (concat (map dat o)) = bs * k).
    { clear - Hall. induction Hall as [|x l Hx _ IH]; [exists 0; cbn [map concat]; rewrite zlen_nil; lia|].
      destruct IH as [k Hk]. exists (k + 1). cbn [map concat]. rewrite zlen_app, Hx, Hk. lia. }
    destruct Hblk as [k Hk].
    destruct (split_unique bs k (concat ds) (concat (map dat o)) (concat rs) Hbs Hpre Hk) as [_ Hd]; [lia|].
    exact Hd.
Qed.
End Blocked.

Section Downsample.
Context {A : Type}.
Variables (q : Z) (h : hdr) (s0 : Z).
Hypothesis Hq : 1 <= q.

Definition ds_inv_a (st : ds_st A) (pre : list A) (outs : list (blk A)) : Prop :=
  exists done r E,
    0 <= E /\ E = zlen (concat (map dat outs)) /\
    pre = done ++ r /\ zlen done = q * E /\ zlen r < q /\
    concat (map dat outs) = every q done /\
    ds_rem st = (if zlen r =? 0 then None else Some (mk h (s0 + q * E) r)) /\
    match ds_s0 st with Some z => z = h_s0 h s0 + E | None => pre = [] /\ E = 0 end /\
    contiguous (h_scale q h) (h_s0 h s0) outs.

Lemma downsample_step_ok_a : forall st pre outs c, ds_inv_a st pre outs ->
  exists st' o, downsample_step true q st (mk h (s0 + zlen pre) c) = Some (st', o) /\
                ds_inv_a st' (pre ++ c) (outs ++ o).
Proof.
  intros st pre outs c (done & r & E & HE & HEo & Hpre & Hd & Hr & Hv & Hrem & Hs0 & Hc).
  pose proof (zlen_nonneg r) as Hr0.
  assert (HN : zlen pre = q * E + zlen r) by (rewrite Hpre, zlen_app; lia).
  (* the array y the loop body works on *)
  assert (Hy : match ds_rem st with None => Some (mk h (s0 + zlen pre) c)
                                  | Some r0 => concat2 r0 (mk h (s0 + zlen pre) c) end
               = Some (mk h (s0 + q * E) (r ++ c))).
  { rewrite Hrem. destruct (zlen r =? 0) eqn:E0.
    - rewrite (zlen_zero_nil r) by lia. cbn [app]. f_equal. apply mk_eq; [lia|reflexivity].
    - apply concat2_mk. lia. }
  unfold downsample_step. rewrite Hy.
  assert (Hs : match ds_s0 st with Some z => z | None => s0_of (mk h (s0 + q * E) (r ++ c)) end
               = h_s0 h s0 + E).
  { destruct (ds_s0 st) as [z|]; [exact Hs0|]. destruct Hs0 as [_ ->].
    rewrite s0_of_mk. unfold h_s0. destruct (h_an h); lia. }
  rewrite Hs. rewrite (split_rem_mk q h Hq).
  set (l := r ++ c). set (rr := zlen l mod q). set (k := zlen l - rr).
  destruct (ds_core q Hq E done l HE Hd) as (Hrr & Hk & Ho & Hkq & Hkk & Hdl & Hev & Hsk).
  fold rr k in Hrr, Hk, Ho, Hkq, Hkk, Hdl, Hev, Hsk.
  rewrite set_s0_mk. rewrite two_mk, dat_mk. cbn [h_scale h_two].
  set (o := every q (firstn (Z.to_nat k) l)) in *.
  assert (Hfinal : forall outs', concat (map dat outs') = every q done ++ o ->
            contiguous (h_scale q h) (h_s0 h s0) outs' ->
            ds_inv_a (DsSt (if rr =? 0 then None else Some (mk h (s0 + q * E + zlen l - rr) (skipn (Z.to_nat k) l)))
                         (Some (h_s0 h s0 + E + zlen o))) (pre ++ c) outs').
  { intros outs' Hv' Hc'.
    exists (done ++ firstn (Z.to_nat k) l), (skipn (Z.to_nat k) l), (E + k / q).
    split; [lia|]. split; [rewrite Hv', zlen_app, <- Hv, <- HEo; lia|].
    split; [rewrite <- app_assoc, firstn_skipn, Hpre, <- app_assoc; reflexivity|].
    split; [exact Hdl|]. split; [lia|]. split; [now rewrite Hv', Hev|].
    cbn [ds_rem ds_s0]. rewrite Hsk. split; [|split; [lia|exact Hc']].
    destruct (rr =? 0); [reflexivity|]. f_equal. apply mk_eq; [unfold k in *; nia|reflexivity]. }
  assert (Hone : contiguous (h_scale q h) (h_s0 h s0) (outs ++ [mk (h_scale q h) (h_s0 h s0 + E) o])).
  { apply contiguous_app; [exact Hc|]. rewrite <- HEo. apply contiguous_one. }
  destruct (if h_two h then true else negb (zlen o =? 0)) eqn:Eemit.
  - eexists _, _. split; [reflexivity|]. apply Hfinal; [|exact Hone].
    rewrite map_app, concat_app. cbn [map concat]. rewrite dat_mk, app_nil_r, Hv. reflexivity.
  - eexists _, _. split; [reflexivity|]. rewrite app_nil_r. apply Hfinal; [|exact Hc].
    destruct (h_two h); [discriminate|].
    rewrite (zlen_zero_nil o) by lia. now rewrite app_nil_r.
Qed.

Lemma downsample_ok_a : forall ds : list (list A),
  stage_ok (run (downsample_step true q) ds_init (mkstream h s0 ds))
           (downsampled q (concat ds)) (h_scale q h) (h_s0 h s0).
Proof.
  intros ds.
  destruct (run_stream_any0 (downsample_step true q) h s0 ds_inv_a ds_init downsample_step_ok_a) with (ds := ds)
    as (st & o & E & (done & r & E' & HE & HEo & Hpre & Hd & Hr & Hv & _ & _ & Hc)).
  - exists [], [], 0. cbn [ds_init ds_rem ds_s0 map concat app].
    repeat split; try reflexivity; try apply contiguous_nil; unfold zlen; cbn [length]; lia.
  - exists st, o. split; [exact E|]. split; [|exact Hc].
    destruct (split_unique q E' (concat ds) done r Hq Hpre Hd Hr) as [_ Hdone].
    rewrite Hv. unfold downsampled, take_mult. now rewrite <- Hdone.
Qed.
End Downsample.

Section Rms.
Context {A O : Type}.
Variables (agg : list A -> O) (n : Z) (h : hdr) (s0 : Z).
Hypothesis Hn : 1 <= n.

Definition rms_inv_a (st : rms_st A) (pre : list A) (outs : list (blk O)) : Prop :=
  exists rs done E,
    0 <= E /\ E = zlen (concat (map dat outs)) /\
    r_data st = mkstream h (s0 + n * E) rs /\
    r_n st = zlen (concat rs) /\ r_n st < n /\
    pre = done ++ concat rs /\ zlen done = n * E /\
    concat (map dat outs) = map agg (chop (Z.to_nat E) (Z.to_nat n) done) /\
    contiguous (h_scale n h) (s0 / n) outs.

Lemma rms_step_ok_a : forall st pre outs c, rms_inv_a st pre outs ->
  exists st' o, rms_step true agg n st (mk h (s0 + zlen pre) c) = Some (st', o) /\
                rms_inv_a st' (pre ++ c) (outs ++ o).
Proof.
  intros st pre outs c (rs & done & E & HE & HEo & Hdata & Hrn & Hlt & Hpre & Hd & Hv & Hc).
  assert (HN : zlen pre = n * E + zlen (concat rs)) by (rewrite Hpre, zlen_app; lia).
  assert (Hdata' : r_data st ++ [mk h (s0 + zlen pre) c] = mkstream h (s0 + n * E) (rs ++ [c])).
  { rewrite mkstream_app, Hdata. cbn [mkstream]. do 2 f_equal. apply mk_eq; [lia|reflexivity]. }
  unfold rms_step. rewrite dat_mk, Hdata'.
  destruct (r_n st + zlen c >=? n) eqn:Ege.
  - rewrite concat_list_mkstream by (destruct rs; discriminate).
    set (l := concat (rs ++ [c])). rewrite dat_mk.
    assert (Hl : zlen l = r_n st + zlen c) by (unfold l; rewrite concat_snoc, zlen_app; lia).
    set (nb := zlen l / n). set (ns := nb * n).
    assert (Hnb : 1 <= nb) by (unfold nb; apply Z.div_le_lower_bound; lia).
    assert (Hns : 0 <= ns <= zlen l).
    { unfold ns, nb. pose proof (Z.mul_div_le (zlen l) n ltac:(lia)). nia. }
    assert (Hmod : zlen l - ns < n).
    { unfold ns, nb. pose proof (Z.div_mod (zlen l) n ltac:(lia)).
      pose proof (Z.mod_pos_bound (zlen l) n ltac:(lia)). lia. }
    rewrite getitem_head by lia. rewrite getitem_tail by lia. rewrite dat_mk, two_mk.
    change (dat (mk h (s0 + n * E) (firstn (Z.to_nat ns) l))) with (firstn (Z.to_nat ns) l).
    set (vals := map agg (chop (Z.to_nat nb) (Z.to_nat n) (firstn (Z.to_nat ns) l))).
    assert (Hres : Blk vals (h_two h)
               (option_map (fun a => An (a_s0 a / n) (a_fsd a * n)
                                        (if h_two h then a_ch a else if true then a_ch a
                                         else Some (repeat 0 (Z.to_nat nb))) (a_md a))
                           (an (mk h (s0 + n * E) (firstn (Z.to_nat ns) l))))
             = mk (h_scale n h) (s0 / n + E) vals).
    { unfold mk, h_scale. cbn [an h_two h_an dat two].
      destruct (h_an h) as [[[f ch] md]|]; [|reflexivity].
      cbn [option_map a_s0 a_fsd a_ch a_md]. f_equal. f_equal. f_equal.
      - rewrite (Z.mul_comm n E). apply Z.div_add. lia.
      - destruct (h_two h); reflexivity. }
    rewrite Hres. eexists _, _. split; [reflexivity|].
    assert (Hvl : zlen vals = nb).
    { unfold vals. rewrite zlen_map. unfold zlen. rewrite chop_length. lia. }
    exists [skipn (Z.to_nat ns) l], (done ++ firstn (Z.to_nat ns) l), (E + nb).
    cbn [r_data r_n dat mk map concat]. rewrite !app_nil_r.
    rewrite map_app, concat_app. cbn [map concat]. rewrite dat_mk, app_nil_r.
    split; [lia|]. split; [rewrite zlen_app, <- HEo, Hvl; reflexivity|].
    split; [cbn [mkstream]; f_equal; apply mk_eq; [unfold ns; lia|reflexivity]|].
    split; [reflexivity|]. split; [rewrite zlen_skipn by lia; lia|].
    split; [rewrite <- app_assoc, firstn_skipn; unfold l; rewrite concat_snoc, app_assoc, <- Hpre; reflexivity|].
    split; [rewrite zlen_app, Hd, zlen_firstn by lia; unfold ns; lia|].
    split.
    + rewrite Hv. unfold vals.
      replace (Z.to_nat (E + nb)) with (Z.to_nat E + Z.to_nat nb)%nat by lia.
      rewrite chop_app; [now rewrite map_app|]. unfold zlen in Hd. nia.
    + apply contiguous_app; [exact Hc|]. rewrite <- HEo. apply contiguous_one.
  - eexists _, []. split; [reflexivity|]. rewrite app_nil_r.
    exists (rs ++ [c]), done, E. cbn [r_data r_n]. rewrite concat_snoc, zlen_app.
    split; [lia|]. split; [exact HEo|]. split; [reflexivity|].
    split; [lia|]. split; [lia|]. split; [now rewrite app_assoc, <- Hpre|]. auto.
Qed.

Lemma rms_ok_a : forall ds : list (list A),
  stage_ok (run (rms_step true agg n) rms_init (mkstream h s0 ds))
           (rms_blocks agg n (concat ds)) (h_scale n h) (s0 / n).
Proof.
  intros ds.
  destruct (run_stream_any0 (rms_step true agg n) h s0 rms_inv_a rms_init rms_step_ok_a) with (ds := ds)
    as (st & o & E & (rs & done & E' & HE & HEo & _ & Hrn & Hlt & Hpre & Hd & Hv & Hc)).
  - exists [], [], 0. cbn [rms_init r_data r_n map concat mkstream app chop Z.to_nat].
    repeat split; try reflexivity; try apply contiguous_nil; unfold zlen; cbn [length]; lia.
  - exists st, o. split; [exact E|]. split; [|exact Hc].
    rewrite Hrn in Hlt.
    destruct (split_unique n E' (concat ds) done (concat rs) Hn Hpre Hd Hlt) as [HE' _].
    rewrite Hv. unfold rms_blocks. rewrite <- HE'. rewrite Hpre. f_equal.
    symmetry. apply chop_prefix. unfold zlen in Hd. nia.
Qed.
End Rms.

(* ------------------------------------------------------------------ *)
(* event_rate over Events chunks that may span zero samples            *)
(* ------------------------------------------------------------------ *)
Section EventRateAny.
Variables (bsz stp : Z).
Hypothesis Hb : 0 <= bsz.
Hypothesis Hs : 1 <= stp.
Variable lo0 : Z.

Lemma er_step_ok_a e s2 sofar cnts (c : events) :
  (er_inv bsz stp lo0) e s2 sofar cnts ->
  e_lo c = e_hi e -> e_hi e <= e_hi c -> Forall (fun v => e_hi e <= v < e_hi c) (evs c) ->
  exists e' s2' o, er_step true bsz stp (Some (ErSt e s2)) c = Some (Some (ErSt e' s2'), o) /\
    (er_inv bsz stp lo0) e' s2' (sofar ++ evs c) (cnts ++ concat (map r_counts o)) /\
    r_contiguous s2 stp o /\ e_hi e' = e_hi c.
Proof.
  intros ((Hcnt & Hbd) & Hlo & Hfin & Hs2 & Hwin) Hc1 Hc2 Hc3.
  unfold er_step, combine_events. cbn [er_ev er_s0x2]. rewrite Hc1, Z.eqb_refl.
  set (e2 := Ev (evs e ++ evs c) (e_lo e) (e_hi c)).
  assert (Hinv2 : ev_inv e2 (sofar ++ evs c)).
  { split; cbn [e2 evs e_lo e_hi].
    - intros x y Hx. rewrite !count_in_app. now rewrite Hcnt.
    - apply Forall_app. split.
      + eapply Forall_impl; [|exact Hbd]. cbn beta. intros; lia.
      + eapply Forall_impl; [|exact Hc3]. cbn beta. intros; lia. }
  destruct ((er_loop_spec bsz stp Hb Hs) (sofar ++ evs c) (Z.to_nat (e_hi e2 - e_lo e2)) e2 Hinv2)
    as (e' & E1 & Hinv' & Hhi & Hlo'); [cbn [e2 e_lo e_hi]; lia|].
  rewrite E1. cbn [e2 e_lo e_hi] in *.
  set (fuel := Z.to_nat (e_hi c - e_lo e)) in *.
  set (cs := windows fuel (sofar ++ evs c) bsz stp (e_lo e) (e_hi c)) in *.
  destruct ((final_lo_spec bsz stp Hb Hs) (e_hi c) fuel (e_lo e)) as [Hf1 Hf2]; [unfold fuel; lia|].
  assert (Hnew : (er_inv bsz stp lo0) e' (s2 + 2 * zlen cs) (sofar ++ evs c) (cnts ++ cs)).
  { split; [exact Hinv'|]. split; [lia|]. split; [lia|]. split; [rewrite zlen_app; lia|].
    intros new hi' f Hh Hn Hf. rewrite Hhi in *. rewrite <- (app_assoc sofar).
    rewrite (Hwin (evs c ++ new) hi' f); [|lia| |exact Hf].
    - rewrite <- (app_assoc cnts). f_equal. rewrite (app_assoc sofar).
      rewrite ((windows_continue bsz stp Hb Hs) (sofar ++ evs c) new (e_hi c) hi' Hh Hn f (e_lo e)) by lia.
      destruct ((windows_fuel bsz stp Hb Hs) (sofar ++ evs c) (e_hi c) f fuel (e_lo e)) as [W1 W2];
        [lia|unfold fuel; lia|].
      rewrite W1, W2, Hlo'. reflexivity.
    - apply Forall_app. split.
      + eapply Forall_impl; [|exact Hc3]. cbn beta. intros; lia.
      + eapply Forall_impl; [|exact Hn]. cbn beta. intros; lia. }
  destruct cs as [|c0 cs'] eqn:Ecs.
  - exists e', s2, []. split; [reflexivity|]. cbn [map concat r_contiguous].
    change (zlen (@nil Z)) with 0 in Hnew. rewrite Z.mul_0_r, Z.add_0_r in Hnew. rewrite app_nil_r in *. auto.
  - exists e', (s2 + 2 * zlen (c0 :: cs')), [Rb (c0 :: cs') s2 stp]. split; [reflexivity|].
    cbn [map concat r_counts r_contiguous r_s0x2 r_fsd]. rewrite app_nil_r. auto.
Qed.

Lemma er_run_ok_a : forall (cs : list events) e s2 sofar cnts,
  (er_inv bsz stp lo0) e s2 sofar cnts -> ev_stream_any (e_hi e) cs ->
  exists e' s2' o, run (er_step true bsz stp) (Some (ErSt e s2)) cs = Some (Some (ErSt e' s2'), o) /\
    (er_inv bsz stp lo0) e' s2' (sofar ++ ev_all cs) (cnts ++ concat (map r_counts o)) /\
    r_contiguous s2 stp o /\ e_hi e' = ev_end (e_hi e) cs.
Proof.
  induction cs as [|c cs IH]; intros e s2 sofar cnts Hinv Hst.
  - exists e, s2, []. cbn [run ev_all map concat r_contiguous ev_end]. rewrite !app_nil_r. auto.
  - cbn [ev_stream_any] in Hst. destruct Hst as (H1 & H2 & H3 & H4).
    destruct (er_step_ok_a e s2 sofar cnts c Hinv H1 H2) as (e1 & s21 & o1 & E1 & Hinv1 & Hc1 & Hh1).
    { eapply Forall_impl; [|exact H3]. cbn beta. intros; lia. }
    rewrite <- Hh1 in H4.
    destruct (IH e1 s21 _ _ Hinv1 H4) as (e2 & s22 & o2 & E2 & Hinv2 & Hc2 & Hh2).
    exists e2, s22, (o1 ++ o2). cbn [run]. rewrite E1, E2.
    split; [reflexivity|]. unfold ev_all in *. cbn [map concat ev_end].
    rewrite map_app, concat_app, !app_assoc. split; [rewrite <- !app_assoc in *; exact Hinv2|].
    split; [|now rewrite Hh2, Hh1].
    apply (r_contiguous_app stp); [exact Hc1|].
    destruct Hinv1 as (_ & _ & _ & Hs21 & _). destruct Hinv as (_ & _ & _ & Hs2 & _).
    rewrite zlen_app in Hs21. replace (s2 + 2 * zlen (concat (map r_counts o1))) with s21 by lia.
    exact Hc2.
Qed.

Lemma er_ok_a : forall cs : list events, cs <> [] -> ev_stream_any lo0 cs ->
  exists st outs, run (er_step true bsz stp) None cs = Some (st, outs) /\
    concat (map r_counts outs) = event_rates bsz stp (ev_all cs) lo0 (ev_end lo0 cs) /\
    r_contiguous (2 * lo0 + bsz) stp outs.
Proof.
  intros cs Hne Hst. destruct cs as [|c cs]; [congruence|].
  (* the first chunk behaves like any other one after an empty span *)
  assert (Hfirst : er_step true bsz stp None c =
                   er_step true bsz stp (Some (ErSt (Ev [] lo0 lo0) (2 * lo0 + bsz))) c).
  { cbn [ev_stream_any] in Hst. destruct Hst as (H1 & _). destruct c as [ev l hi]. cbn [e_lo] in H1. subst l.
    unfold er_step, combine_events. cbn [er_ev er_s0x2 e_lo e_hi evs app]. now rewrite Z.eqb_refl. }
  assert (Hinv0 : (er_inv bsz stp lo0) (Ev [] lo0 lo0) (2 * lo0 + bsz) [] []).
  { split; [split; [reflexivity|constructor]|]. cbn [e_lo e_hi]. split; [lia|]. split; [lia|].
    split; [change (zlen (@nil Z)) with 0; lia|]. intros; reflexivity. }
  destruct (er_run_ok_a (c :: cs) (Ev [] lo0 lo0) (2 * lo0 + bsz) [] [] Hinv0 Hst)
    as (e' & s2' & o & E & Hinv & Hc & Hh).
  exists (Some (ErSt e' s2')), o. split; [|split; [|exact Hc]].
  - cbn [run] in *. rewrite Hfirst. exact E.
  - destruct Hinv as (_ & Hlo & Hfin & _ & Hwin). cbn [app e_hi] in *.
    unfold event_rates. rewrite <- Hh.
    specialize (Hwin [] (e_hi e') (Z.to_nat (e_hi e' - lo0)) (Z.le_refl _) (Forall_nil _)).
    rewrite app_nil_r in Hwin. rewrite Hwin by lia.
    rewrite ((windows_done bsz stp) _ (e_lo e') (e_hi e')) by lia. now rewrite app_nil_r.
Qed.
End EventRateAny.

(* ------------------------------------------------------------------ *)
(* the statements of Props/C12.v for every chunking                     *)
(* ------------------------------------------------------------------ *)
Section StatementsAny.
Context {A : Type}.

Lemma blocked_values_any bs h s (ds : list (list A)) : 1 <= bs ->
  exists st outs, run (blocked_step bs) blocked_init (mkstream h s ds) = Some (st, outs) /\
    concat (map dat outs) = take_mult bs (concat ds) /\ Forall (fun o => zlen (dat o) = bs) outs.
Proof.
  intros Hb. destruct (blocked_ok_a bs h Hb s ds) as (st & outs & E & Hv & Hall & _). exists st, outs. auto.
Qed.
Lemma blocked_contiguous_any bs h s (ds : list (list A)) : 1 <= bs ->
  emits_contiguous (run (blocked_step bs) blocked_init (mkstream h s ds)) h s.
Proof.
  intros Hb. destruct (blocked_ok_a bs h Hb s ds) as (st & outs & E & _ & _ & Hc).
  exists st, outs. split; [exact E|]. split; [exact Hc|]. now apply contiguous_concat.
Qed.

Lemma discard_values_any d h s (ds : list (list A)) : 0 <= d ->
  emits_values (run discard_step d (mkstream h s ds)) (discarded d (concat ds)).
Proof. intros Hd. eapply ok_values. now apply discard_ok_a. Qed.
Lemma discard_contiguous_any d h s (ds : list (list A)) : 0 <= d ->
  emits_contiguous (run discard_step d (mkstream h s ds)) h (s + d).
Proof. intros Hd. eapply ok_contiguous. now apply discard_ok_a. Qed.

Lemma downsample_values_any q h s (ds : list (list A)) : 1 <= q ->
  emits_values (run (downsample_step true q) ds_init (mkstream h s ds)) (downsampled q (concat ds)).
Proof. intros Hq. eapply ok_values. now apply downsample_ok_a. Qed.
Lemma downsample_contiguous_any q h s (ds : list (list A)) : 1 <= q ->
  emits_contiguous (run (downsample_step true q) ds_init (mkstream h s ds)) (h_scale q h) (h_s0 h s).
Proof. intros Hq. eapply ok_contiguous. now apply downsample_ok_a. Qed.

Lemma rms_values_any {O} (agg : list A -> O) n h s (ds : list (list A)) : 1 <= n ->
  emits_values (run (rms_step true agg n) rms_init (mkstream h s ds)) (rms_blocks agg n (concat ds)).
Proof. intros Hn. eapply ok_values. now apply rms_ok_a. Qed.
Lemma rms_contiguous_any {O} (agg : list A -> O) n h s (ds : list (list A)) : 1 <= n -> (n | s) ->
  emits_contiguous (run (rms_step true agg n) rms_init (mkstream h s ds)) (h_scale n h) (s / n).
Proof. intros Hn _. eapply ok_contiguous. now apply rms_ok_a. Qed.

Lemma derivative_values_any (sub : A -> A -> A) init h s (ds : list (list A)) : h_an h <> None ->
  emits_values (run (derivative_step sub init) None (mkstream h s ds)) (derived sub init (concat ds)).
Proof. intros Ha. eapply ok_values. now apply deriv_ok_a. Qed.
Lemma derivative_contiguous_any (sub : A -> A -> A) init h s (ds : list (list A)) : h_an h <> None ->
  emits_contiguous (run (derivative_step sub init) None (mkstream h s ds)) h s.
Proof. intros Ha. eapply ok_contiguous. now apply deriv_ok_a. Qed.

Lemma map_values_any {O} (g : A -> O) h s (ds : list (list A)) :
  emits_values (run (map_step g) tt (mkstream h s ds)) (map g (concat ds)).
Proof. eapply ok_values. apply map_ok_a. Qed.
Lemma map_contiguous_any {O} (g : A -> O) h s (ds : list (list A)) :
  emits_contiguous (run (map_step g) tt (mkstream h s ds)) h s.
Proof. eapply ok_contiguous. apply map_ok_a. Qed.

Lemma autoth_values_any {T O} (thr : list A -> T) (ge : T -> A -> O) Bn h s (ds : list (list A)) : 0 <= Bn ->
  emits_values (run (autoth_step thr ge Bn) (AthAcc None) (mkstream h s ds)) (thresholded thr ge Bn (concat ds)).
Proof. intros HB. eapply ok_values. now apply ath_ok_a. Qed.
Lemma autoth_contiguous_any {T O} (thr : list A -> T) (ge : T -> A -> O) Bn h s (ds : list (list A)) : 0 <= Bn ->
  emits_contiguous (run (autoth_step thr ge Bn) (AthAcc None) (mkstream h s ds)) h s.
Proof. intros HB. eapply ok_contiguous. now apply ath_ok_a. Qed.
End StatementsAny.

Lemma event_rate_values_any bsz stp lo (cs : list events) : 0 <= bsz -> 1 <= stp -> cs <> [] -> ev_stream_any lo cs ->
  exists st outs, run (er_step true bsz stp) None cs = Some (st, outs) /\
    concat (map r_counts outs) = event_rates bsz stp (ev_all cs) lo (ev_end lo cs).
Proof.
  intros Hb Hs Hne Hst. destruct (er_ok_a bsz stp Hb Hs lo cs Hne Hst) as (st & outs & E & Hv & _).
  exists st, outs. auto.
Qed.
Lemma event_rate_contiguous_any bsz stp lo (cs : list events) : 0 <= bsz -> 1 <= stp -> cs <> [] -> ev_stream_any lo cs ->
  exists st outs, run (er_step true bsz stp) None cs = Some (st, outs) /\ r_contiguous (2 * lo + bsz) stp outs.
Proof.
  intros Hb Hs Hne Hst. destruct (er_ok_a bsz stp Hb Hs lo cs Hne Hst) as (st & outs & E & _ & Hc).
  exists st, outs. auto.
Qed.
