(* Specification vocabulary for property C12: what a chunked stream is, what "contiguous output" means
   (stated with the concat model of Stages/Model.v) and the whole-signal definition of every stage. *)
From PV Require Export Stages.Model.

(* A stream with annotations h (or plain) whose first sample is number s, delivered as the chunks ds:
     mkstream h s ds          (Stages/Model.v)
   Every chunking of every stream xs is of this form with concat ds = xs. *)
Definition nonempty_chunks {A} (ds : list (list A)) : Prop := Forall (fun d => d <> []) ds.

(* Output blocks are CONTIGUOUS with annotations h from sample s on: every block carries h (rate, labels,
   metadata) and starts where the previous one ended, i.e. the list of blocks is itself a stream. *)
Definition contiguous {A} (h : hdr) (s : Z) (outs : list (blk A)) : Prop :=
  outs = mkstream h s (map dat outs).

(* annotations of the outputs of a stage that divides the rate by k *)
Definition h_scale (k : Z) (h : hdr) : hdr :=
  Hdr (h_two h) (match h_an h with Some (f, c, m) => Some (f * k, c, m) | None => None end).
(* getattr(y, 's0', 0) of the first chunk *)
Definition h_s0 (h : hdr) (s : Z) : Z := match h_an h with Some _ => s | None => 0 end.

(* ---------------- whole-signal definitions ---------------- *)
(* the longest prefix whose length is a multiple of q *)
Definition take_mult {A} (q : Z) (xs : list A) : list A := firstn (Z.to_nat (q * (zlen xs / q))) xs.
(* every q-th sample, starting with the first *)
Definition every {A} (q : Z) (xs : list A) : list A := every_nth_aux 0 (Z.to_nat q) xs.
Definition downsampled {A} (q : Z) (xs : list A) : list A := every q (take_mult q xs).
(* one-shot filter of the whole signal from state z *)
Definition filtered {F A} (filt : F -> A -> F * A) (z : F) (xs : list A) : list A := snd (mapAccum filt z xs).
Definition decimated {F A} (filt : F -> A -> F * A) (z : F) (q : Z) (xs : list A) : list A :=
  downsampled q (filtered filt z xs).
Definition discarded {A} (d : Z) (xs : list A) : list A := skipn (Z.to_nat d) xs.
Definition rms_blocks {A O} (agg : list A -> O) (n : Z) (xs : list A) : list O :=
  map agg (chop (Z.to_nat (zlen xs / n)) (Z.to_nat n) xs).
Definition derived {A} (sub : A -> A -> A) (init : A) (xs : list A) : list A := diff_from sub init xs.
Definition iir_filtered {F A} (filt : F -> A -> F * A) (finit : A -> F) (xs : list A) : list A :=
  match xs with [] => [] | x :: _ => filtered filt (finit x) xs end.
Definition thresholded {A T O} (thr : list A -> T) (ge : T -> A -> O) (Bn : Z) (xs : list A) : list O :=
  if zlen xs <? Bn then [] else map (ge (thr (firstn (Z.to_nat Bn) xs))) xs.

(* event rate: windows [lo + k*stp, lo + k*stp + bsz) for k = 0, 1, .. while the window ends before hi *)
Definition count_in (ev : list Z) (a b : Z) : Z := zlen (filter (fun x => (a <=? x) && (x <? b)) ev).
Fixpoint windows (fuel : nat) (ev : list Z) (bsz stp lo hi : Z) : list Z :=
  match fuel with
  | O => []
  | Datatypes.S f => if hi - lo >? bsz then count_in ev lo (lo + bsz) :: windows f ev bsz stp (lo + stp) hi else []
  end.
Definition event_rates (bsz stp : Z) (ev : list Z) (lo hi : Z) : list Z :=
  windows (Z.to_nat (hi - lo)) ev bsz stp lo hi.

(* a stream of Events chunks: spans are contiguous from lo, every event lies inside its chunk's span *)
Fixpoint ev_stream (lo : Z) (cs : list events) : Prop :=
  match cs with
  | [] => True
  | c :: t => e_lo c = lo /\ lo < e_hi c /\ Forall (fun x => lo <= x < e_hi c) (evs c) /\ ev_stream (e_hi c) t
  end.
Fixpoint ev_end (lo : Z) (cs : list events) : Z :=
  match cs with [] => lo | c :: t => ev_end (e_hi c) t end.
Definition ev_all (cs : list events) : list Z := concat (map evs cs).
(* the emitted rate blocks are contiguous: each starts (in output samples, doubled) where the previous ended *)
Fixpoint r_contiguous (s2 : Z) (stp : Z) (outs : list rblk) : Prop :=
  match outs with
  | [] => True
  | o :: t => r_s0x2 o = s2 /\ r_fsd o = stp /\ r_contiguous (s2 + 2 * zlen (r_counts o)) stp t
  end.

(* ---------------- the two claims made for every stage ---------------- *)
(* the run does not raise and the concatenation of everything emitted is [want] *)
Definition emits_values {S O} (r : option (S * list (blk O))) (want : list O) : Prop :=
  exists st outs, r = Some (st, outs) /\ concat (map dat outs) = want.
(* the run does not raise, the emitted blocks are contiguous with annotations h from sample s on, and
   therefore pipeline.concat (the concat model) of all of them succeeds and yields one block that starts
   at s, carries h and holds all the samples *)
Definition emits_contiguous {S O} (r : option (S * list (blk O))) (h : hdr) (s : Z) : Prop :=
  exists st outs, r = Some (st, outs) /\ contiguous h s outs /\
    (outs <> [] -> concat_list outs = Some (mk h s (concat (map dat outs)))).

(* added for the widened statements (chunkings that contain zero-length chunks) *)
Definition is_empty {A} (d : list A) : bool := match d with [] => true | _ => false end.
Definition drop_empty {A} (ds : list (list A)) : list (list A) := filter (fun d => negb (is_empty d)) ds.
(* a stream of Events chunks in which a chunk may span zero samples (lo <= e_hi instead of lo < e_hi) *)
Fixpoint ev_stream_any (lo : Z) (cs : list events) : Prop :=
  match cs with
  | [] => True
  | c :: t => e_lo c = lo /\ lo <= e_hi c /\ Forall (fun x => lo <= x < e_hi c) (evs c) /\ ev_stream_any (e_hi c) t
  end.

(* added with the repair "event_rate keeps events reported ahead of their block's span" (fix-C12-er).
   A CAUSAL stream of Events chunks, as pipeline.edges emits it: the spans tile the timeline from lo (a chunk may span
   zero samples) and every event lies at or after the START of the chunk that carries it.  It may lie at or beyond that
   chunk's end: edges reports a rising edge when it is confirmed (up to min_samples after the samples of its block)
   and a falling edge immediately. *)
Fixpoint causal (lo : Z) (cs : list events) : Prop :=
  match cs with
  | [] => True
  | c :: t => e_lo c = lo /\ lo <= e_hi c /\ Forall (fun x => lo <= x) (evs c) /\ causal (e_hi c) t
  end.

(* added with the repair "rms numbers its output blocks additively" (fix-C12-rms), for [rms_step_x]: output blocks
   whose s0 is kept in INPUT samples are contiguous when each starts n * (its number of values) after the previous
   one.  In the code's units (s0 / n, an exact rational here) that is: first block at s / n, every later block where
   the previous one ended - for EVERY first sample index s, also when n does not divide it. *)
Fixpoint mkstream_x {A} (n : Z) (h : hdr) (s : Z) (ds : list (list A)) : list (blk A) :=
  match ds with [] => [] | d :: t => mk h s d :: mkstream_x n h (s + n * zlen d) t end.
Definition contiguous_x {A} (n : Z) (h : hdr) (s : Z) (outs : list (blk A)) : Prop :=
  outs = mkstream_x n h s (map dat outs).
