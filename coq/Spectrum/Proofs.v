(* C16 - proofs.  Everything here is about the definitions of gen/UtilExprGen.v (regenerated from psiaudio/util.py
   on every run) and the DFT sums of Spectrum/DFT.v. *)
From Coq Require Import Reals Lra Lia ZArith.
From PV Require Import Calib.RBase gen.UtilExprGen Spectrum.TrigSum Spectrum.DFT.
Open Scope R_scope.

Ltac unfu := unfold u_patodb, u_dbtopa, u_spectrum_to_band_level, u_band_to_spectrum_level, u_db, u_dbi in *.

(* ---------------------------------------------------------------- dB helpers *)
Lemma db_dbi x r : 0 < r -> u_db (u_dbi x r) r = x.
Proof.
  intros Hr. unfu. replace (pow10 (x / 20) * r / r) with (pow10 (x / 20)) by (field; lra).
  rewrite log10_pow10. field.
Qed.

Lemma dbi_db x r : 0 < x -> 0 < r -> u_dbi (u_db x r) r = x.
Proof.
  intros Hx Hr. unfu. replace (20 * log10 (x / r) / 20) with (log10 (x / r)) by field.
  rewrite pow10_log10. field; lra. apply Rdiv_lt_0_compat; assumption.
Qed.

Lemma db_is_20log10 x r : u_db x r = 20 * log10 (x / r).
Proof. reflexivity. Qed.

Lemma db_inverse x y r : 0 < r ->
  u_db (u_dbi y r) r = y /\ (0 < x -> u_dbi (u_db x r) r = x) /\ u_db x r = 20 * log10 (x / r).
Proof. intros Hr. split. now apply db_dbi. split. intros Hx. now apply dbi_db. reflexivity. Qed.

Lemma spl_reference x p : 0 < p ->
  u_patodb (u_dbtopa x) = x /\ u_dbtopa (u_patodb p) = p /\
  u_patodb p = 20 * log10 (p / (20 / 1000000)) /\ u_patodb 1 = 20 * log10 (1 / (20 / 1000000)) /\
  u_dbtopa 0 = 20 / 1000000.
Proof.
  intros Hp. unfold u_patodb, u_dbtopa. split. apply db_dbi; lra. split. apply dbi_db; lra.
  replace (20 / 1000000) with (1 / 50000) by field. split. reflexivity. split. reflexivity.
  unfu. replace (0 / 20) with 0 by field. rewrite pow10_0. ring.
Qed.

Lemma band_level L n : 0 < n ->
  u_spectrum_to_band_level L n = L + 10 * log10 n /\
  u_spectrum_to_band_level (u_band_to_spectrum_level L n) n = L /\
  u_band_to_spectrum_level (u_spectrum_to_band_level L n) n = L.
Proof. intros Hn. unfu. repeat split; ring. Qed.

(* the band level of n unit-bandwidth bins at spectrum level L is the level of n times the power:
   dbi(band)^2 = n * dbi(spectrum)^2 *)
Lemma band_level_power L n : 0 < n ->
  u_dbi (u_spectrum_to_band_level L n) 1 * u_dbi (u_spectrum_to_band_level L n) 1 = n * (u_dbi L 1 * u_dbi L 1).
Proof.
  intros Hn. unfu. rewrite !Rmult_1_r. rewrite <- !pow10_plus.
  replace ((L + 10 * log10 n) / 20 + (L + 10 * log10 n) / 20) with (log10 n + (L / 20 + L / 20)) by field.
  rewrite pow10_plus, pow10_log10 by assumption. reflexivity.
Qed.

(* ---------------------------------------------------------------- the scale factors *)
Lemma sqrt2_sq : sqrt 2 * sqrt 2 = 2.
Proof. apply sqrt_sqrt. lra. Qed.

Lemma sqrt2_pos : 0 < sqrt 2.
Proof. apply sqrt_lt_R0. lra. Qed.

(* scale * (N sqrt2 / 2) = 1: a peak amplitude A sqrt 2 that the DFT reports as A sqrt2 N / 2 reads A *)
Lemma csd_scale_eq n : 0 < n -> csd_scale n = sqrt 2 / n.
Proof.
  intros Hn. unfold csd_scale. pose proof sqrt2_pos. pose proof sqrt2_sq.
  apply (Rmult_eq_reg_r (sqrt 2)); [|lra].
  replace (2 / n / sqrt 2 * sqrt 2) with (2 / n) by (field; lra).
  replace (sqrt 2 / n * sqrt 2) with (sqrt 2 * sqrt 2 / n) by (field; lra). rewrite H0. reflexivity.
Qed.

Lemma csd_to_signal_scale_eq M : (0 < M)%nat -> csd_to_signal_scale (INR (S M)) = csd_scale (INR (2 * M)).
Proof.
  intros HM. unfold csd_to_signal_scale, csd_scale. rewrite S_INR, mult_INR. simpl (INR 2).
  replace (INR M + 1 - 1) with (INR M) by ring. reflexivity.
Qed.

(* ---------------------------------------------------------------- DFT of a sinusoid at an integer frequency *)
Lemma dft_re_sinusoid A p N k m : (0 < N)%nat ->
  dft_re (sinusoid A p N k) N m =
  A * sqrt 2 * (delta N (Z.of_nat k + Z.of_nat m) + delta N (Z.of_nat k - Z.of_nat m)) * cos p / 2.
Proof.
  intros HN. unfold dft_re, sinusoid.
  rewrite (rsumN_ext _ (fun n => (A * sqrt 2) *
     (cos (INR n * ang N (Z.of_nat k) + p) * cos (INR n * ang N (Z.of_nat m) + 0)))).
  - rewrite rsumN_scal, cos_cos_sum by assumption. rewrite Rplus_0_r, Rminus_0_r. field.
  - intros n _. rewrite Rplus_0_r. ring.
Qed.

Lemma dft_im_sinusoid A p N k m : (0 < N)%nat ->
  dft_im (sinusoid A p N k) N m =
  A * sqrt 2 * (delta N (Z.of_nat k - Z.of_nat m) - delta N (Z.of_nat k + Z.of_nat m)) * sin p / 2.
Proof.
  intros HN. unfold dft_im, sinusoid.
  rewrite (rsumN_ext _ (fun n => (A * sqrt 2) *
     (cos (INR n * ang N (Z.of_nat k) + p) * sin (INR n * ang N (Z.of_nat m) + 0)))).
  - rewrite rsumN_scal, cos_sin_sum by assumption. rewrite Rplus_0_r, Rminus_0_r. field.
  - intros n _. rewrite Rplus_0_r. ring.
Qed.

(* what the scaled one-sided spectrum reads for a peak-normalised DFT value *)
Lemma scaled N c : (0 < N)%nat -> c * sqrt 2 * INR N / 2 * csd_scale (INR N) = c.
Proof.
  intros HN. pose proof (INR_pos N HN). rewrite csd_scale_eq by assumption.
  pose proof sqrt2_sq. replace (c * sqrt 2 * INR N / 2 * (sqrt 2 / INR N)) with (c * (sqrt 2 * sqrt 2) / 2) by (field; lra).
  rewrite H0. field.
Qed.

(* THE BIN LAW: a sinusoid of RMS amplitude A and phase p at bin k, 0 < 2k < N, reads A (cos p, sin p) at bin k
   and 0 at every other bin 0 <= m <= N/2 *)
Lemma bin_law A p N k m : (0 < 2 * k < N)%nat -> (2 * m <= N)%nat ->
  csd_re (sinusoid A p N k) N m = (if Nat.eq_dec m k then A * cos p else 0) /\
  csd_im (sinusoid A p N k) N m = (if Nat.eq_dec m k then A * sin p else 0).
Proof.
  intros Hk Hm. assert (HN : (0 < N)%nat) by lia.
  unfold csd_re, csd_im. rewrite dft_re_sinusoid, dft_im_sinusoid by assumption.
  rewrite (delta_small N (Z.of_nat k + Z.of_nat m)) by lia.
  destruct (Nat.eq_dec m k) as [->|Hne].
  - rewrite Z.sub_diag, delta_0. rewrite Rplus_0_l, Rminus_0_r. split.
    + rewrite <- (scaled N (A * cos p) HN). unfold Rdiv. ring.
    + rewrite <- (scaled N (A * sin p) HN). unfold Rdiv. ring.
  - rewrite (delta_range N (Z.of_nat k - Z.of_nat m)) by lia. split; unfold Rdiv; ring.
Qed.

(* at DC (k = 0) and at Nyquist (2k = N) the one-sided scaling doubles: the signal A sqrt2 cos p (-1)^n has RMS
   A sqrt2 |cos p|, and its bin reads 2 A cos p = sqrt 2 times that RMS (what the code gives) *)
Lemma dc_double A p N m : (0 < N)%nat -> (2 * m <= N)%nat ->
  csd_re (sinusoid A p N 0) N m = (if Nat.eq_dec m 0 then 2 * A * cos p else 0) /\
  csd_im (sinusoid A p N 0) N m = 0.
Proof.
  intros HN Hm. unfold csd_re, csd_im. rewrite dft_re_sinusoid, dft_im_sinusoid by assumption.
  change (Z.of_nat 0) with 0%Z. rewrite Z.add_0_l, Z.sub_0_l.
  destruct (Nat.eq_dec m 0) as [->|Hne].
  - change (Z.of_nat 0) with 0%Z. change (- 0)%Z with 0%Z. rewrite delta_0. split.
    + rewrite <- (scaled N (2 * A * cos p) HN). unfold Rdiv. ring.
    + unfold Rdiv. ring.
  - rewrite (delta_small N (Z.of_nat m)), (delta_small_neg N (- Z.of_nat m)) by lia. split; unfold Rdiv; ring.
Qed.

Lemma nyquist_double A p N k m : (0 < k)%nat -> N = (2 * k)%nat -> (2 * m <= N)%nat ->
  csd_re (sinusoid A p N k) N m = (if Nat.eq_dec m k then 2 * A * cos p else 0) /\
  csd_im (sinusoid A p N k) N m = 0.
Proof.
  intros Hk HNk Hm. assert (HN : (0 < N)%nat) by lia.
  unfold csd_re, csd_im. rewrite dft_re_sinusoid, dft_im_sinusoid by assumption.
  destruct (Nat.eq_dec m k) as [->|Hne].
  - rewrite Z.sub_diag, delta_0.
    replace (Z.of_nat k + Z.of_nat k)%Z with (Z.of_nat N) by lia. rewrite delta_N by assumption. split.
    + rewrite <- (scaled N (2 * A * cos p) HN). unfold Rdiv. ring.
    + unfold Rdiv. ring.
  - rewrite (delta_small N (Z.of_nat k + Z.of_nat m)), (delta_small N (Z.of_nat k - Z.of_nat m)) by lia.
    split; unfold Rdiv; ring.
Qed.

Lemma dc_nyquist_double A p N k m : (0 < N)%nat -> (2 * m <= N)%nat ->
  (csd_re (sinusoid A p N 0) N m = (if Nat.eq_dec m 0 then 2 * A * cos p else 0) /\
   csd_im (sinusoid A p N 0) N m = 0) /\
  ((0 < k)%nat -> N = (2 * k)%nat ->
   csd_re (sinusoid A p N k) N m = (if Nat.eq_dec m k then 2 * A * cos p else 0) /\
   csd_im (sinusoid A p N k) N m = 0).
Proof. intros HN Hm. split. now apply dc_double. intros Hk E. now apply nyquist_double. Qed.

(* RMS of the sinusoid over whole cycles is |A| (0 < 2k < N) *)
Lemma meansq_sinusoid A p N k : (0 < 2 * k < N)%nat -> meansq (sinusoid A p N k) N = A * A.
Proof.
  intros Hk. assert (HN : (0 < N)%nat) by lia. pose proof (INR_pos N HN) as HNp.
  unfold meansq, sinusoid.
  rewrite (rsumN_ext _ (fun n => (A * sqrt 2 * (A * sqrt 2)) *
      (cos (INR n * ang N (Z.of_nat k) + p) * cos (INR n * ang N (Z.of_nat k) + p)))) by (intros; ring).
  rewrite rsumN_scal, cos_cos_sum by assumption.
  rewrite Z.sub_diag, delta_0, (delta_small N (Z.of_nat k + Z.of_nat k)) by lia.
  replace (p - p) with 0 by ring. rewrite cos_0.
  replace (A * sqrt 2 * (A * sqrt 2)) with (A * A * (sqrt 2 * sqrt 2)) by ring. rewrite sqrt2_sq. field. lra.
Qed.

Lemma rms_sinusoid A p N k : 0 <= A -> (0 < 2 * k < N)%nat -> rms (sinusoid A p N k) N = A.
Proof. intros HA Hk. unfold rms, rms_of_meansq. rewrite meansq_sinusoid by assumption. now apply sqrt_square. Qed.

(* ---------------------------------------------------------------- single-frequency estimator (tone_conv) *)
(* at the analysis frequency f = k fs / N the per-sample value is 2 s exp(-i n ang k) *)
Lemma tone_conv_sample s n N k fs : fs <> 0 -> (0 < N)%nat ->
  tone_conv_re s (INR n) fs (INR k * fs / INR N) = 2 * s * cos (INR n * ang N (Z.of_nat k)) /\
  tone_conv_im s (INR n) fs (INR k * fs / INR N) = - (2 * s * sin (INR n * ang N (Z.of_nat k))).
Proof.
  intros Hfs HN. pose proof (INR_pos N HN) as HNp. unfold tone_conv_re, tone_conv_im, ang.
  rewrite <- INR_IZR_INZ.
  replace (- (1) * (2 * PI * (INR n / fs) * (INR k * fs / INR N))) with (- (INR n * (2 * PI * INR k / INR N)))
    by (field; lra).
  rewrite cos_neg, sin_neg. split; ring.
Qed.

Lemma tone_conv_is_dft x N k fs : fs <> 0 -> (0 < N)%nat ->
  tone_conv_mean_re x N fs (INR k * fs / INR N) = 2 / INR N * dft_re x N k /\
  tone_conv_mean_im x N fs (INR k * fs / INR N) = 2 / INR N * dft_im x N k.
Proof.
  intros Hfs HN. pose proof (INR_pos N HN) as HNp. unfold tone_conv_mean_re, tone_conv_mean_im, dft_re, dft_im. split.
  - rewrite (rsumN_ext _ (fun n => 2 * (x n * cos (INR n * ang N (Z.of_nat k))))).
    rewrite rsumN_scal. field. lra.
    intros n _. destruct (tone_conv_sample (x n) n N k fs Hfs HN) as [-> _]. ring.
  - rewrite (rsumN_ext _ (fun n => -2 * (x n * sin (INR n * ang N (Z.of_nat k))))).
    rewrite rsumN_scal. field. lra.
    intros n _. destruct (tone_conv_sample (x n) n N k fs Hfs HN) as [_ ->]. ring.
Qed.

(* whole-cycle tone: tone_conv returns the peak phasor A sqrt2 (cos p, sin p); tone_power_conv returns A *)
Lemma tone_conv_law A p N k fs : fs <> 0 -> (0 < 2 * k < N)%nat ->
  tone_conv_mean_re (sinusoid A p N k) N fs (INR k * fs / INR N) = A * sqrt 2 * cos p /\
  tone_conv_mean_im (sinusoid A p N k) N fs (INR k * fs / INR N) = A * sqrt 2 * sin p /\
  (0 <= A ->
   tone_power_of_abs (sqrt (tone_conv_mean_re (sinusoid A p N k) N fs (INR k * fs / INR N) *
                            tone_conv_mean_re (sinusoid A p N k) N fs (INR k * fs / INR N) +
                            tone_conv_mean_im (sinusoid A p N k) N fs (INR k * fs / INR N) *
                            tone_conv_mean_im (sinusoid A p N k) N fs (INR k * fs / INR N))) = A).
Proof.
  intros Hfs Hk. assert (HN : (0 < N)%nat) by lia. pose proof (INR_pos N HN) as HNp.
  destruct (tone_conv_is_dft (sinusoid A p N k) N k fs Hfs HN) as [-> ->].
  rewrite dft_re_sinusoid, dft_im_sinusoid by assumption.
  rewrite Z.sub_diag, delta_0, (delta_small N (Z.of_nat k + Z.of_nat k)) by lia.
  assert (E1 : 2 / INR N * (A * sqrt 2 * (0 + INR N) * cos p / 2) = A * sqrt 2 * cos p) by (field; lra).
  assert (E2 : 2 / INR N * (A * sqrt 2 * (INR N - 0) * sin p / 2) = A * sqrt 2 * sin p) by (field; lra).
  rewrite E1, E2. split. reflexivity. split. reflexivity.
  intros HA. unfold tone_power_of_abs.
  replace (A * sqrt 2 * cos p * (A * sqrt 2 * cos p) + A * sqrt 2 * sin p * (A * sqrt 2 * sin p))
    with ((A * sqrt 2) * (A * sqrt 2) * (Rsqr (sin p) + Rsqr (cos p))) by (unfold Rsqr; ring).
  rewrite sin2_cos2, Rmult_1_r. rewrite sqrt_square.
  field. pose proof sqrt2_pos; lra. apply Rmult_le_pos. assumption. pose proof sqrt2_pos; lra.
Qed.

(* ---------------------------------------------------------------- full DFT orthogonality: inversion and Parseval *)
Lemma rsumN_split f a b : rsumN f (a + b) = rsumN f a + rsumN (fun i => f (a + i)%nat) b.
Proof.
  induction b as [|b IH]. rewrite Nat.add_0_r. simpl. ring.
  rewrite Nat.add_succ_r. cbn [rsumN]. rewrite IH. ring.
Qed.

Lemma rsumN_rev f n : rsumN f n = rsumN (fun i => f (n - 1 - i)%nat) n.
Proof.
  induction n as [|n IH]. reflexivity.
  change (S n) with (1 + n)%nat at 3. rewrite (rsumN_split (fun i => f (S n - 1 - i)%nat) 1 n).
  cbn [rsumN]. rewrite IH at 1.
  replace (S n - 1 - 0)%nat with n by lia.
  rewrite (rsumN_ext (fun i => f (S n - 1 - (1 + i))%nat) (fun i => f (n - 1 - i)%nat)).
  ring. intros i Hi. f_equal. lia.
Qed.

(* a sum with a single non-zero term *)
Lemma rsumN_single (f : nat -> R) N n0 : (n0 < N)%nat -> (forall n, (n < N)%nat -> n <> n0 -> f n = 0) ->
  rsumN f N = f n0.
Proof.
  induction N as [|N IH]; intros Hn H. lia. cbn [rsumN].
  destruct (Nat.eq_dec n0 N) as [->|Hne].
  - rewrite rsumN_zero. ring. intros n Hlt. apply H; lia.
  - rewrite IH by (try lia; intros; apply H; lia). rewrite (H N) by lia. ring.
Qed.

(* 2 pi m n / N is symmetric in m and n *)
Lemma ang_sym N (m n : nat) : INR n * ang N (Z.of_nat m) = INR m * ang N (Z.of_nat n).
Proof. unfold ang. rewrite <- !INR_IZR_INZ. unfold Rdiv. ring. Qed.

(* K1: sum over ALL N bins of Re (X_m exp(+i n ang m)) is N x_n *)
Lemma full_inverse x N n : (n < N)%nat ->
  rsumN (fun m => dft_re x N m * cos (INR n * ang N (Z.of_nat m)) - dft_im x N m * sin (INR n * ang N (Z.of_nat m))) N
  = INR N * x n.
Proof.
  intros Hn. assert (HN : (0 < N)%nat) by lia. unfold dft_re, dft_im.
  rewrite (rsumN_ext _ (fun m => rsumN (fun n' => x n' * cos (INR m * ang N (Z.of_nat n' - Z.of_nat n) + 0)) N)).
  - rewrite rsumN_swap.
    rewrite (rsumN_ext _ (fun n' => x n' * (delta N (Z.of_nat n' - Z.of_nat n) * cos 0))).
    + rewrite (rsumN_single _ N n Hn).
      * rewrite Z.sub_diag, delta_0, cos_0. ring.
      * intros n' Hn' Hne. rewrite delta_range by lia. ring.
    + intros n' _. rewrite rsumN_scal, cos_sum_delta by assumption. reflexivity.
  - intros m _.
    set (C := cos (INR n * ang N (Z.of_nat m))). set (Sn := sin (INR n * ang N (Z.of_nat m))).
    transitivity (rsumN (fun n' => x n' * cos (INR n' * ang N (Z.of_nat m)) * C
                                   + x n' * sin (INR n' * ang N (Z.of_nat m)) * Sn) N).
    { rewrite rsumN_plus, !rsumN_scal_r. ring. }
    apply rsumN_ext. intros n' _. rewrite Rplus_0_r, ang_minus by assumption.
    rewrite Rmult_minus_distr_l, <- !(ang_sym N m), cos_minus. unfold C, Sn. ring.
Qed.

(* K2: Parseval over all N bins *)
Lemma full_parseval x N : (0 < N)%nat ->
  rsumN (fun m => dft_re x N m * dft_re x N m + dft_im x N m * dft_im x N m) N
  = INR N * rsumN (fun n => x n * x n) N.
Proof.
  intros HN.
  rewrite (rsumN_ext _ (fun m => rsumN (fun n => x n *
      (dft_re x N m * cos (INR n * ang N (Z.of_nat m)) - dft_im x N m * sin (INR n * ang N (Z.of_nat m)))) N)).
  - rewrite rsumN_swap. rewrite <- rsumN_scal. apply rsumN_ext. intros n Hn.
    rewrite rsumN_scal, full_inverse by assumption. ring.
  - intros m _. unfold dft_re at 2, dft_im at 2.
    rewrite <- rsumN_opp, <- !rsumN_scal, <- rsumN_plus. apply rsumN_ext. intros n _. ring.
Qed.

(* conjugate symmetry of the DFT of a real frame: X_{N-m} = conj X_m *)
Lemma ang_reflect N (n m : nat) : (0 < N)%nat -> (m <= N)%nat ->
  cos (INR n * ang N (Z.of_nat (N - m))) = cos (INR n * ang N (Z.of_nat m)) /\
  sin (INR n * ang N (Z.of_nat (N - m))) = - sin (INR n * ang N (Z.of_nat m)).
Proof.
  intros HN Hm. pose proof (INR_pos N HN) as HNp.
  rewrite Nat2Z.inj_sub, ang_minus by assumption.
  replace (INR n * (ang N (Z.of_nat N) - ang N (Z.of_nat m)))
    with (- (INR n * ang N (Z.of_nat m)) + 2 * IZR (Z.of_nat n) * PI)
    by (unfold ang; rewrite <- !INR_IZR_INZ; field; lra).
  rewrite cos_period_Z, sin_period_Z, cos_neg, sin_neg. split; reflexivity.
Qed.

Lemma dft_reflect x N m : (0 < N)%nat -> (m <= N)%nat ->
  dft_re x N (N - m) = dft_re x N m /\ dft_im x N (N - m) = - dft_im x N m.
Proof.
  intros HN Hm. unfold dft_re, dft_im. split.
  - apply rsumN_ext. intros n _. destruct (ang_reflect N n m HN Hm) as [-> _]. reflexivity.
  - rewrite Ropp_involutive, <- rsumN_opp. apply rsumN_ext. intros n _.
    destruct (ang_reflect N n m HN Hm) as [_ ->]. ring.
Qed.

(* folding a symmetric sum over N bins onto the one-sided bins 0 .. N/2 *)
Lemma fold_even f M : (0 < M)%nat -> (forall m, (0 < m < 2 * M)%nat -> f (2 * M - m)%nat = f m) ->
  rsumN f (2 * M) = f 0%nat + 2 * rsumN (fun j => f (S j)) (M - 1) + f M.
Proof.
  intros HM Hs. replace (2 * M)%nat with ((1 + (M - 1) + 1) + (M - 1))%nat at 1 by lia.
  rewrite rsumN_split, (rsumN_split _ (1 + (M - 1)) 1), (rsumN_split _ 1 (M - 1)). cbn [rsumN].
  rewrite (rsumN_rev (fun i => f (1 + (M - 1) + 1 + i)%nat)).
  rewrite (rsumN_ext (fun i => f (1 + (M - 1) + 1 + (M - 1 - 1 - i))%nat) (fun j => f (S j))).
  - replace (1 + (M - 1) + 0)%nat with M by lia. cbn [Nat.add]. ring.
  - intros i Hi. rewrite <- (Hs (S i)) by lia. f_equal. lia.
Qed.

Lemma fold_odd f M : (forall m, (0 < m < 2 * M + 1)%nat -> f (2 * M + 1 - m)%nat = f m) ->
  rsumN f (2 * M + 1) = f 0%nat + 2 * rsumN (fun j => f (S j)) M.
Proof.
  intros Hs. replace (2 * M + 1)%nat with ((1 + M) + M)%nat at 1 by lia.
  rewrite rsumN_split, (rsumN_split _ 1 M). cbn [rsumN].
  rewrite (rsumN_rev (fun i => f (1 + M + i)%nat)).
  rewrite (rsumN_ext (fun i => f (1 + M + (M - 1 - i))%nat) (fun j => f (S j))).
  - cbn [Nat.add]. ring.
  - intros i Hi. rewrite <- (Hs (S i)) by lia. f_equal. lia.
Qed.

Definition full_power x N m := dft_re x N m * dft_re x N m + dft_im x N m * dft_im x N m.

Lemma full_power_sym x N m : (0 < N)%nat -> (m <= N)%nat -> full_power x N (N - m) = full_power x N m.
Proof. intros HN Hm. unfold full_power. destruct (dft_reflect x N m HN Hm) as [-> ->]. ring. Qed.

Lemma bin_power_eq x N m : (0 < N)%nat -> bin_power x N m = 2 / (INR N * INR N) * full_power x N m.
Proof.
  intros HN. pose proof (INR_pos N HN) as HNp. unfold bin_power, csd_re, csd_im, full_power.
  rewrite csd_scale_eq by assumption. pose proof sqrt2_sq.
  replace (dft_re x N m * (sqrt 2 / INR N) * (dft_re x N m * (sqrt 2 / INR N)) +
           dft_im x N m * (sqrt 2 / INR N) * (dft_im x N m * (sqrt 2 / INR N)))
    with ((sqrt 2 * sqrt 2) / (INR N * INR N) * (dft_re x N m * dft_re x N m + dft_im x N m * dft_im x N m))
    by (field; lra).
  rewrite H. reflexivity.
Qed.

(* PARSEVAL, one-sided: the summed squared magnitudes of the spectrum equal the mean square of the frame once half
   of the DC bin and (N even) half of the Nyquist bin are taken out - the one-sided scaling counts those two twice *)
Lemma parseval_even x M : (0 < M)%nat ->
  spectrum_power x (2 * M) - bin_power x (2 * M) 0 / 2 - bin_power x (2 * M) M / 2 = meansq x (2 * M).
Proof.
  intros HM. set (N := (2 * M)%nat). assert (HN : (0 < N)%nat) by (unfold N; lia).
  pose proof (INR_pos N HN) as HNp.
  pose proof (full_parseval x N HN) as P. fold (full_power x N) in P.
  assert (F := fold_even (full_power x N) M HM). fold N in F.
  rewrite F in P by (intros m Hm; apply full_power_sym; lia).
  unfold spectrum_power, nbins. replace (N / 2)%nat with M by (unfold N; rewrite Nat.mul_comm, Nat.div_mul; lia).
  replace (S M) with (1 + (M - 1) + 1)%nat by lia.
  rewrite (rsumN_split _ (1 + (M - 1)) 1), (rsumN_split _ 1 (M - 1)). cbn [rsumN].
  replace (1 + (M - 1) + 0)%nat with M by lia. cbn [Nat.add].
  rewrite (rsumN_ext (fun i => bin_power x N (S i)) (fun i => 2 / (INR N * INR N) * full_power x N (S i)))
    by (intros; apply bin_power_eq; assumption).
  rewrite rsumN_scal, !bin_power_eq by assumption. unfold meansq.
  set (S1 := rsumN (fun j => full_power x N (S j)) (M - 1)) in *.
  set (Q := rsumN (fun n => x n * x n) N) in *.
  transitivity ((full_power x N 0 + 2 * S1 + full_power x N M) / (INR N * INR N)). field; lra.
  rewrite P. field. lra.
Qed.

Lemma parseval_odd x M :
  spectrum_power x (2 * M + 1) - bin_power x (2 * M + 1) 0 / 2 = meansq x (2 * M + 1).
Proof.
  set (N := (2 * M + 1)%nat). assert (HN : (0 < N)%nat) by (unfold N; lia).
  pose proof (INR_pos N HN) as HNp.
  pose proof (full_parseval x N HN) as P. fold (full_power x N) in P.
  assert (F := fold_odd (full_power x N) M). fold N in F.
  rewrite F in P by (intros m Hm; apply full_power_sym; lia).
  unfold spectrum_power, nbins.
  replace (N / 2)%nat with M by (unfold N; rewrite Nat.add_comm, Nat.mul_comm, Nat.div_add by lia; reflexivity).
  replace (S M) with (1 + M)%nat by lia. rewrite (rsumN_split _ 1 M). cbn [rsumN]. cbn [Nat.add].
  rewrite (rsumN_ext (fun i => bin_power x N (S i)) (fun i => 2 / (INR N * INR N) * full_power x N (S i)))
    by (intros; apply bin_power_eq; assumption).
  rewrite rsumN_scal, !bin_power_eq by assumption. unfold meansq.
  set (S1 := rsumN (fun j => full_power x N (S j)) M) in *.
  set (Q := rsumN (fun n => x n * x n) N) in *.
  transitivity ((full_power x N 0 + 2 * S1) / (INR N * INR N)). field; lra.
  rewrite P. field. lra.
Qed.

(* both parities in one statement *)
Lemma parseval x N : (0 < N)%nat ->
  spectrum_power x N - bin_power x N 0 / 2 - (if Nat.even N then bin_power x N (N / 2) / 2 else 0) = meansq x N.
Proof.
  intros HN. destruct (Nat.even N) eqn:E.
  - apply Nat.even_spec in E. destruct E as [M ->].
    replace (2 * M / 2)%nat with M by (rewrite Nat.mul_comm, Nat.div_mul; lia). apply parseval_even. lia.
  - assert (O : Nat.odd N = true) by (rewrite <- Nat.negb_even, E; reflexivity).
    apply Nat.odd_spec in O. destruct O as [M ->]. rewrite Rminus_0_r. apply parseval_odd.
Qed.

(* the DC and Nyquist bins of a real frame are real: their excess is the squared real part *)
Lemma dc_imag_zero x N : dft_im x N 0 = 0.
Proof.
  unfold dft_im. rewrite rsumN_zero. ring. intros n _. unfold ang. simpl (IZR (Z.of_nat 0)).
  replace (INR n * (2 * PI * 0 / INR N)) with 0 by (unfold Rdiv; ring). rewrite sin_0. ring.
Qed.

Lemma nyquist_angle n M : (0 < M)%nat -> INR n * ang (2 * M) (Z.of_nat M) = IZR (Z.of_nat n) * PI.
Proof.
  intros HM. unfold ang. rewrite <- !INR_IZR_INZ, mult_INR. simpl (INR 2).
  pose proof (INR_pos M HM). field. lra.
Qed.

Lemma nyquist_imag_zero x M : (0 < M)%nat -> dft_im x (2 * M) M = 0.
Proof.
  intros HM. unfold dft_im. rewrite rsumN_zero. ring. intros n _.
  rewrite nyquist_angle by assumption. rewrite (sin_eq_0_1 _ (ex_intro _ (Z.of_nat n) eq_refl)). ring.
Qed.

(* INVERSE: csd_to_signal (csd x) = x for every even frame length N = 2 M *)
Lemma inverse_even x M n : (0 < M)%nat -> (n < 2 * M)%nat ->
  csd_to_signal (csd_re x (2 * M)) (csd_im x (2 * M)) M n = x n.
Proof.
  intros HM Hn. set (N := (2 * M)%nat) in *. assert (HN : (0 < N)%nat) by (unfold N; lia).
  pose proof (INR_pos N HN) as HNp.
  unfold csd_to_signal. rewrite csd_to_signal_scale_eq by assumption. fold N.
  assert (Hsc : csd_scale (INR N) <> 0).
  { rewrite csd_scale_eq by assumption. pose proof sqrt2_pos. apply Rgt_not_eq.
    apply Rdiv_lt_0_compat; lra. }
  unfold irfft. fold N.
  set (g := fun m => dft_re x N m * cos (INR n * ang N (Z.of_nat m)) - dft_im x N m * sin (INR n * ang N (Z.of_nat m))).
  assert (G : rsumN g N = INR N * x n) by (apply full_inverse; assumption).
  assert (Gs : forall m, (0 < m < N)%nat -> g (N - m)%nat = g m).
  { intros m Hm. unfold g. destruct (dft_reflect x N m HN) as [-> ->]; [lia|].
    destruct (ang_reflect N n m HN) as [-> ->]; [lia|]. ring. }
  unfold N in G, Gs. rewrite (fold_even g M HM Gs) in G. fold N in G.
  assert (G0 : g 0%nat = csd_re x N 0 / csd_scale (INR N)).
  { unfold g, csd_re. rewrite dc_imag_zero. unfold ang. simpl (IZR (Z.of_nat 0)).
    replace (INR n * (2 * PI * 0 / INR N)) with 0 by (unfold Rdiv; ring). rewrite cos_0. field. assumption. }
  assert (GM : g M = csd_re x N M / csd_scale (INR N) * cos (INR n * ang N (Z.of_nat M))).
  { unfold g, csd_re. unfold N at 3. rewrite nyquist_imag_zero by assumption. field. assumption. }
  rewrite <- G0, <- GM.
  rewrite (rsumN_ext _ (fun j => g (S j))).
  - rewrite <- (Rmult_1_l (x n)). replace 1 with (/ INR N * INR N) by (field; lra).
    rewrite Rmult_assoc, <- G. field. lra.
  - intros j _. unfold g, csd_re, csd_im. cbv zeta. field. assumption.
Qed.

(* ---------------------------------------------------------------- averaging over blocks (psd) *)
(* a tone with a whole number of cycles per block is the same sinusoid in every block *)
Lemma sinusoid_block A p L k b n : (0 < L)%nat -> block (sinusoid A p L k) L b n = sinusoid A p L k n.
Proof.
  intros HL. pose proof (INR_pos L HL) as HLp. unfold block, sinusoid. f_equal.
  replace (INR (b * L + n) * ang L (Z.of_nat k) + p)
    with ((INR n * ang L (Z.of_nat k) + p) + 2 * IZR (Z.of_nat b * Z.of_nat k) * PI).
  apply cos_period_Z.
  rewrite plus_INR, mult_INR, mult_IZR, <- !INR_IZR_INZ. unfold ang. rewrite <- INR_IZR_INZ. field. lra.
Qed.

Lemma bin_power_ext x y N m : (forall n, (n < N)%nat -> x n = y n) -> bin_power x N m = bin_power y N m.
Proof.
  intros H. unfold bin_power, csd_re, csd_im, dft_re, dft_im.
  rewrite (rsumN_ext (fun n => x n * cos _) (fun n => y n * cos (INR n * ang N (Z.of_nat m)))) by (intros; rewrite H by assumption; reflexivity).
  rewrite (rsumN_ext (fun n => x n * sin _) (fun n => y n * sin (INR n * ang N (Z.of_nat m)))) by (intros; rewrite H by assumption; reflexivity).
  reflexivity.
Qed.

(* psd of such a tone reads A at its bin and 0 at the others, for ANY number of averages B >= 1; samples after
   the last whole block do not enter (trimming) *)
Lemma psd_law A p L k B m : 0 <= A -> (0 < 2 * k < L)%nat -> (2 * m <= L)%nat -> (0 < B)%nat ->
  psd (sinusoid A p L k) L B m = (if Nat.eq_dec m k then A else 0).
Proof.
  intros HA Hk Hm HB. assert (HL : (0 < L)%nat) by lia. pose proof (INR_pos B HB) as HBp.
  unfold psd.
  rewrite (rsumN_ext _ (fun _ => if Nat.eq_dec m k then A else 0)).
  - rewrite rsumN_const. field. lra.
  - intros b _. rewrite (bin_power_ext _ (sinusoid A p L k)) by (intros; apply sinusoid_block; assumption).
    unfold bin_power. destruct (bin_law A p L k m Hk Hm) as [-> ->].
    destruct (Nat.eq_dec m k).
    + replace (A * cos p * (A * cos p) + A * sin p * (A * sin p)) with (A * A * (Rsqr (sin p) + Rsqr (cos p)))
        by (unfold Rsqr; ring).
      rewrite sin2_cos2, Rmult_1_r. now apply sqrt_square.
    + replace (0 * 0 + 0 * 0) with 0 by ring. apply sqrt_0.
Qed.

(* ---------------------------------------------------------------- cosine-sum windows *)
(* the mean of a cosine-sum window of order J < N is its constant coefficient *)
Lemma cos_window_mean c J N : (J < N)%nat -> wmean (cos_window c J N) N = c 0%nat.
Proof.
  intros HJ. assert (HN : (0 < N)%nat) by lia. pose proof (INR_pos N HN) as HNp.
  unfold wmean, cos_window. rewrite rsumN_swap.
  rewrite (rsumN_ext _ (fun j => c j * (delta N (Z.of_nat j) * cos 0))).
  - rewrite (rsumN_single _ (S J) 0%nat) by (try lia; intros j Hj Hne; rewrite delta_small by lia; ring).
    change (Z.of_nat 0) with 0%Z. rewrite delta_0, cos_0. field. lra.
  - intros j _. rewrite rsumN_scal. f_equal. rewrite <- cos_sum_delta by assumption.
    apply rsumN_ext. intros n _. rewrite Rplus_0_r. reflexivity.
Qed.

(* sum_n cos(n a_j) cos(n a_k + p) cos(n a_m)  and  ... sin(n a_m) *)
Lemma triple_cos N j k m p : (0 < N)%nat ->
  rsumN (fun n => cos (INR n * ang N j) * cos (INR n * ang N k + p) * cos (INR n * ang N m)) N
  = (delta N (k + j + m) + delta N (k + j - m) + delta N (k - j + m) + delta N (k - j - m)) * cos p / 4.
Proof.
  intros HN.
  rewrite (rsumN_ext _ (fun n => / 2 * (cos (INR n * ang N (k + j) + p) * cos (INR n * ang N m + 0)
                                       + cos (INR n * ang N (k - j) + p) * cos (INR n * ang N m + 0)))).
  - rewrite rsumN_scal, rsumN_plus, !cos_cos_sum by assumption. rewrite Rplus_0_r, Rminus_0_r. field.
  - intros n _. rewrite Rplus_0_r, ang_plus, ang_minus by assumption.
    set (a := INR n * ang N k + p). set (b := INR n * ang N j).
    replace (INR n * (ang N k + ang N j) + p) with (a + b) by (unfold a, b; ring).
    replace (INR n * (ang N k - ang N j) + p) with (a - b) by (unfold a, b; ring).
    rewrite cos_plus, cos_minus. field.
Qed.

Lemma triple_sin N j k m p : (0 < N)%nat ->
  rsumN (fun n => cos (INR n * ang N j) * cos (INR n * ang N k + p) * sin (INR n * ang N m)) N
  = (delta N (k + j + m) - delta N (k + j - m) + delta N (k - j + m) - delta N (k - j - m)) * sin p / 4.
Proof.
  intros HN.
  rewrite (rsumN_ext _ (fun n => / 2 * (cos (INR n * ang N (k + j) + p) * sin (INR n * ang N m + 0)
                                       + cos (INR n * ang N (k - j) + p) * sin (INR n * ang N m + 0)))).
  - rewrite rsumN_scal, rsumN_plus, !cos_sin_sum by assumption. rewrite Rplus_0_r, Rminus_0_r. field.
  - intros n _. rewrite Rplus_0_r, ang_plus, ang_minus by assumption.
    set (a := INR n * ang N k + p). set (b := INR n * ang N j).
    replace (INR n * (ang N k + ang N j) + p) with (a + b) by (unfold a, b; ring).
    replace (INR n * (ang N k - ang N j) + p) with (a - b) by (unfold a, b; ring).
    rewrite cos_plus, cos_minus. field.
Qed.

(* THE WINDOWED BIN LAW: through any cosine-sum window of order J (normalised by its mean), a sinusoid of RMS amplitude A
   and phase p at bin k reads A (cos p, sin p) at its bin as soon as J < 2k and 2k + J < N, i.e. when the bin is more than
   J/2 bins away from DC and from Nyquist (well inside "farther than the main-lobe width", J + 1 bins) *)
Lemma window_law c J N k A p : c 0%nat <> 0 -> (J < 2 * k)%nat -> (2 * k + J < N)%nat ->
  csd_re (windowed (cos_window c J N) N (sinusoid A p N k)) N k = A * cos p /\
  csd_im (windowed (cos_window c J N) N (sinusoid A p N k)) N k = A * sin p.
Proof.
  intros Hc HJ HN2. assert (HN : (0 < N)%nat) by lia. pose proof (INR_pos N HN) as HNp.
  unfold csd_re, csd_im, dft_re, dft_im, windowed. rewrite cos_window_mean by lia.
  unfold cos_window, sinusoid. split.
  - rewrite (rsumN_ext _ (fun n => rsumN (fun j => (A * sqrt 2 / c 0%nat * c j) *
        (cos (INR n * ang N (Z.of_nat j)) * cos (INR n * ang N (Z.of_nat k) + p) * cos (INR n * ang N (Z.of_nat k)))) (S J))).
    + rewrite rsumN_swap.
      rewrite (rsumN_ext _ (fun j => (A * sqrt 2 / c 0%nat * c j) *
         ((delta N (Z.of_nat k + Z.of_nat j + Z.of_nat k) + delta N (Z.of_nat k + Z.of_nat j - Z.of_nat k)
           + delta N (Z.of_nat k - Z.of_nat j + Z.of_nat k) + delta N (Z.of_nat k - Z.of_nat j - Z.of_nat k)) * cos p / 4)))
        by (intros j _; rewrite rsumN_scal, triple_cos by assumption; reflexivity).
      rewrite (rsumN_single _ (S J) 0%nat).
      * change (Z.of_nat 0) with 0%Z. rewrite Z.add_0_r, Z.sub_0_r, Z.sub_diag, delta_0.
        rewrite (delta_small N (Z.of_nat k + Z.of_nat k)) by lia.
        rewrite <- (scaled N (A * cos p) HN) at 1. field. lra.
      * lia.
      * intros j Hj Hne.
        rewrite (delta_small N (Z.of_nat k + Z.of_nat j + Z.of_nat k)) by lia.
        rewrite (delta_small N (Z.of_nat k + Z.of_nat j - Z.of_nat k)) by lia.
        rewrite (delta_small N (Z.of_nat k - Z.of_nat j + Z.of_nat k)) by lia.
        rewrite (delta_small_neg N (Z.of_nat k - Z.of_nat j - Z.of_nat k)) by lia. field. assumption.
    + intros n _. unfold Rdiv. rewrite <- !rsumN_scal_r. apply rsumN_ext. intros j _. field. assumption.
  - rewrite <- rsumN_opp.
    rewrite (rsumN_ext _ (fun n => rsumN (fun j => (- (A * sqrt 2 / c 0%nat * c j)) *
        (cos (INR n * ang N (Z.of_nat j)) * cos (INR n * ang N (Z.of_nat k) + p) * sin (INR n * ang N (Z.of_nat k)))) (S J))).
    + rewrite rsumN_swap.
      rewrite (rsumN_ext _ (fun j => (- (A * sqrt 2 / c 0%nat * c j)) *
         ((delta N (Z.of_nat k + Z.of_nat j + Z.of_nat k) - delta N (Z.of_nat k + Z.of_nat j - Z.of_nat k)
           + delta N (Z.of_nat k - Z.of_nat j + Z.of_nat k) - delta N (Z.of_nat k - Z.of_nat j - Z.of_nat k)) * sin p / 4)))
        by (intros j _; rewrite rsumN_scal, triple_sin by assumption; reflexivity).
      rewrite (rsumN_single _ (S J) 0%nat).
      * change (Z.of_nat 0) with 0%Z. rewrite Z.add_0_r, Z.sub_0_r, Z.sub_diag, delta_0.
        rewrite (delta_small N (Z.of_nat k + Z.of_nat k)) by lia.
        rewrite <- (scaled N (A * sin p) HN) at 1. field. lra.
      * lia.
      * intros j Hj Hne.
        rewrite (delta_small N (Z.of_nat k + Z.of_nat j + Z.of_nat k)) by lia.
        rewrite (delta_small N (Z.of_nat k + Z.of_nat j - Z.of_nat k)) by lia.
        rewrite (delta_small N (Z.of_nat k - Z.of_nat j + Z.of_nat k)) by lia.
        rewrite (delta_small_neg N (Z.of_nat k - Z.of_nat j - Z.of_nat k)) by lia. field. assumption.
    + intros n _. unfold Rdiv. rewrite <- !rsumN_scal_r, <- rsumN_opp. apply rsumN_ext. intros j _. field. assumption.
Qed.
