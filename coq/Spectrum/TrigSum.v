(* Finite trigonometric sums over R: closed form of sum_{n<N} cos(n*theta+psi) / sin(n*theta+psi), and
   orthogonality at integer frequencies (theta = 2 pi j / N, j an integer): the sum over a full period is
   N cos psi when N divides j and 0 otherwise.  Shared by C16 (Spectrum) and C08 (Level). *)
From Coq Require Import Reals Lra Lia ZArith.
Open Scope R_scope.

(* sum_{n<N} f n *)
Fixpoint rsumN (f : nat -> R) (N : nat) : R :=
  match N with O => 0 | S k => rsumN f k + f k end.

Lemma rsumN_ext f g N : (forall n, (n < N)%nat -> f n = g n) -> rsumN f N = rsumN g N.
Proof.
  induction N as [|N IH]; intros H; cbn [rsumN]. reflexivity.
  rewrite IH, H by (intros; try apply H; lia). reflexivity.
Qed.

Lemma rsumN_plus f g N : rsumN (fun n => f n + g n) N = rsumN f N + rsumN g N.
Proof. induction N as [|N IH]; cbn [rsumN]. lra. rewrite IH. lra. Qed.

Lemma rsumN_minus f g N : rsumN (fun n => f n - g n) N = rsumN f N - rsumN g N.
Proof. induction N as [|N IH]; cbn [rsumN]. lra. rewrite IH. lra. Qed.

Lemma rsumN_scal c f N : rsumN (fun n => c * f n) N = c * rsumN f N.
Proof. induction N as [|N IH]; cbn [rsumN]. lra. rewrite IH. lra. Qed.

Lemma rsumN_scal_r c f N : rsumN (fun n => f n * c) N = rsumN f N * c.
Proof. induction N as [|N IH]; cbn [rsumN]. lra. rewrite IH. lra. Qed.

Lemma rsumN_opp f N : rsumN (fun n => - f n) N = - rsumN f N.
Proof. induction N as [|N IH]; cbn [rsumN]. lra. rewrite IH. lra. Qed.

Lemma rsumN_const c N : rsumN (fun _ => c) N = INR N * c.
Proof. induction N as [|N IH]. simpl. lra. cbn [rsumN]. rewrite IH, S_INR. lra. Qed.

Lemma rsumN_zero f N : (forall n, (n < N)%nat -> f n = 0) -> rsumN f N = 0.
Proof. intros H. rewrite (rsumN_ext f (fun _ => 0)) by assumption. rewrite rsumN_const. lra. Qed.

Lemma rsumN_nonneg f N : (forall n, (n < N)%nat -> 0 <= f n) -> 0 <= rsumN f N.
Proof.
  induction N as [|N IH]; intros H; cbn [rsumN]. lra.
  assert (0 <= rsumN f N) by (apply IH; intros; apply H; lia). assert (0 <= f N) by (apply H; lia). lra.
Qed.

(* exchange of two finite sums *)
Lemma rsumN_swap (f : nat -> nat -> R) N M :
  rsumN (fun n => rsumN (fun m => f n m) M) N = rsumN (fun m => rsumN (fun n => f n m) N) M.
Proof.
  induction N as [|N IH]; cbn [rsumN].
  - rewrite rsumN_zero; auto.
  - rewrite IH, <- rsumN_plus. reflexivity.
Qed.

(* ---------------------------------------------------------------- periodicity with integer multiples *)
Lemma sin_period_Z x (k : Z) : sin (x + 2 * IZR k * PI) = sin x.
Proof.
  destruct (Z_le_gt_dec 0 k) as [H|H].
  - rewrite <- (Z2Nat.id k H), <- INR_IZR_INZ. apply sin_period.
  - rewrite <- (sin_period (x + 2 * IZR k * PI) (Z.to_nat (- k))).
    rewrite INR_IZR_INZ, Z2Nat.id by lia. rewrite opp_IZR. f_equal. lra.
Qed.

Lemma cos_period_Z x (k : Z) : cos (x + 2 * IZR k * PI) = cos x.
Proof.
  destruct (Z_le_gt_dec 0 k) as [H|H].
  - rewrite <- (Z2Nat.id k H), <- INR_IZR_INZ. apply cos_period.
  - rewrite <- (cos_period (x + 2 * IZR k * PI) (Z.to_nat (- k))).
    rewrite INR_IZR_INZ, Z2Nat.id by lia. rewrite opp_IZR. f_equal. lra.
Qed.

(* ---------------------------------------------------------------- closed forms (telescoping) *)
Lemma cos_sum_closed (theta psi : R) (N : nat) :
  2 * sin (theta / 2) * rsumN (fun n => cos (INR n * theta + psi)) N
  = sin ((INR N - / 2) * theta + psi) - sin (psi - theta / 2).
Proof.
  induction N as [|N IH].
  - simpl. replace ((0 - / 2) * theta + psi) with (psi - theta / 2) by lra. lra.
  - cbn [rsumN]. rewrite Rmult_plus_distr_l, IH. rewrite S_INR.
    set (b := INR N * theta + psi). set (a := theta / 2).
    replace ((INR N - / 2) * theta + psi) with (b - a) by (unfold a, b; lra).
    replace ((INR N + 1 - / 2) * theta + psi) with (b + a) by (unfold a, b; lra).
    rewrite (sin_plus b a), (sin_minus b a). lra.
Qed.

Lemma sin_sum_closed (theta psi : R) (N : nat) :
  2 * sin (theta / 2) * rsumN (fun n => sin (INR n * theta + psi)) N
  = cos (psi - theta / 2) - cos ((INR N - / 2) * theta + psi).
Proof.
  induction N as [|N IH].
  - simpl. replace ((0 - / 2) * theta + psi) with (psi - theta / 2) by lra. lra.
  - cbn [rsumN]. rewrite Rmult_plus_distr_l, IH. rewrite S_INR.
    set (b := INR N * theta + psi). set (a := theta / 2).
    replace ((INR N - / 2) * theta + psi) with (b - a) by (unfold a, b; lra).
    replace ((INR N + 1 - / 2) * theta + psi) with (b + a) by (unfold a, b; lra).
    rewrite (cos_plus b a), (cos_minus b a). lra.
Qed.

(* ---------------------------------------------------------------- integer frequencies *)
(* the angle of integer frequency j on a grid of N points *)
Definition ang (N : nat) (j : Z) : R := 2 * PI * IZR j / INR N.

Lemma INR_pos N : (0 < N)%nat -> 0 < INR N.
Proof. intros H. apply lt_0_INR. exact H. Qed.

Lemma sin_half_ang_neq N j : (0 < N)%nat -> (j mod Z.of_nat N <> 0)%Z -> sin (ang N j / 2) <> 0.
Proof.
  intros HN Hj Hs. apply sin_eq_0_0 in Hs. destruct Hs as [k Hk].
  pose proof (INR_pos N HN) as HNp. pose proof PI_RGT_0 as Hpi.
  unfold ang in Hk.
  assert (E : IZR j = IZR k * INR N).
  { apply (Rmult_eq_reg_l PI); [|lra].
    replace (PI * IZR j) with (2 * PI * IZR j / INR N / 2 * INR N) by (field; lra). rewrite Hk. ring. }
  rewrite INR_IZR_INZ, <- mult_IZR in E. apply eq_IZR in E.
  apply Hj. rewrite E. apply Z_mod_mult.
Qed.

(* a whole number of cycles that is not a multiple of N sums to zero, for every starting phase *)
Lemma cos_sum_cycles N j psi : (0 < N)%nat -> (j mod Z.of_nat N <> 0)%Z ->
  rsumN (fun n => cos (INR n * ang N j + psi)) N = 0.
Proof.
  intros HN Hj. pose proof (cos_sum_closed (ang N j) psi N) as H.
  pose proof (INR_pos N HN) as HNp.
  replace ((INR N - / 2) * ang N j + psi) with ((psi - ang N j / 2) + 2 * IZR j * PI) in H
    by (unfold ang; field; lra).
  rewrite sin_period_Z in H.
  pose proof (sin_half_ang_neq N j HN Hj) as Hs.
  apply (Rmult_eq_reg_l (2 * sin (ang N j / 2))). rewrite H. ring.
  intros E. apply Hs. lra.
Qed.

Lemma sin_sum_cycles N j psi : (0 < N)%nat -> (j mod Z.of_nat N <> 0)%Z ->
  rsumN (fun n => sin (INR n * ang N j + psi)) N = 0.
Proof.
  intros HN Hj. pose proof (sin_sum_closed (ang N j) psi N) as H.
  pose proof (INR_pos N HN) as HNp.
  replace ((INR N - / 2) * ang N j + psi) with ((psi - ang N j / 2) + 2 * IZR j * PI) in H
    by (unfold ang; field; lra).
  rewrite cos_period_Z in H.
  pose proof (sin_half_ang_neq N j HN Hj) as Hs.
  apply (Rmult_eq_reg_l (2 * sin (ang N j / 2))). rewrite H. ring.
  intros E. apply Hs. lra.
Qed.

(* a multiple of N: every term is the starting phase *)
Lemma ang_multiple N j n : (0 < N)%nat -> (j mod Z.of_nat N = 0)%Z ->
  exists q : Z, INR n * ang N j = 2 * IZR q * PI.
Proof.
  intros HN Hj. pose proof (INR_pos N HN) as HNp.
  apply Z_div_exact_full_2 in Hj; [|lia].
  exists (Z.of_nat n * (j / Z.of_nat N))%Z. unfold ang. rewrite Hj at 1.
  rewrite !mult_IZR, <- !INR_IZR_INZ. field. lra.
Qed.

Lemma cos_sum_multiple N j psi : (0 < N)%nat -> (j mod Z.of_nat N = 0)%Z ->
  rsumN (fun n => cos (INR n * ang N j + psi)) N = INR N * cos psi.
Proof.
  intros HN Hj. rewrite <- rsumN_const. apply rsumN_ext. intros n _.
  destruct (ang_multiple N j n HN Hj) as [q ->]. rewrite Rplus_comm. apply cos_period_Z.
Qed.

Lemma sin_sum_multiple N j psi : (0 < N)%nat -> (j mod Z.of_nat N = 0)%Z ->
  rsumN (fun n => sin (INR n * ang N j + psi)) N = INR N * sin psi.
Proof.
  intros HN Hj. rewrite <- rsumN_const. apply rsumN_ext. intros n _.
  destruct (ang_multiple N j n HN Hj) as [q ->]. rewrite Rplus_comm. apply sin_period_Z.
Qed.

(* both cases in one function: N when N | j, else 0 *)
Definition delta (N : nat) (j : Z) : R := if Z.eq_dec (j mod Z.of_nat N) 0 then INR N else 0.

Lemma cos_sum_delta N j psi : (0 < N)%nat ->
  rsumN (fun n => cos (INR n * ang N j + psi)) N = delta N j * cos psi.
Proof.
  intros HN. unfold delta. destruct (Z.eq_dec (j mod Z.of_nat N) 0) as [E|E].
  now apply cos_sum_multiple. rewrite cos_sum_cycles by assumption. ring.
Qed.

Lemma sin_sum_delta N j psi : (0 < N)%nat ->
  rsumN (fun n => sin (INR n * ang N j + psi)) N = delta N j * sin psi.
Proof.
  intros HN. unfold delta. destruct (Z.eq_dec (j mod Z.of_nat N) 0) as [E|E].
  now apply sin_sum_multiple. rewrite sin_sum_cycles by assumption. ring.
Qed.

Lemma ang_plus N a b : (0 < N)%nat -> ang N (a + b) = ang N a + ang N b.
Proof. intros HN. pose proof (INR_pos N HN). unfold ang. rewrite plus_IZR. field. lra. Qed.

Lemma ang_minus N a b : (0 < N)%nat -> ang N (a - b) = ang N a - ang N b.
Proof. intros HN. pose proof (INR_pos N HN). unfold ang. rewrite minus_IZR. field. lra. Qed.

Lemma ang_opp N a : ang N (- a) = - ang N a.
Proof. unfold ang. rewrite opp_IZR. unfold Rdiv. ring. Qed.

(* ---------------------------------------------------------------- products (product-to-sum, then the sums above) *)
(* sum_n cos(n a_j + p) cos(n a_m + q) *)
Lemma cos_cos_sum N j m p q : (0 < N)%nat ->
  rsumN (fun n => cos (INR n * ang N j + p) * cos (INR n * ang N m + q)) N
  = (delta N (j + m) * cos (p + q) + delta N (j - m) * cos (p - q)) / 2.
Proof.
  intros HN.
  rewrite (rsumN_ext _ (fun n => / 2 * (cos (INR n * ang N (j + m) + (p + q)) + cos (INR n * ang N (j - m) + (p - q))))).
  - rewrite rsumN_scal, rsumN_plus, !cos_sum_delta by assumption. field.
  - intros n _. rewrite ang_plus, ang_minus by assumption.
    set (a := INR n * ang N j + p). set (b := INR n * ang N m + q).
    replace (INR n * (ang N j + ang N m) + (p + q)) with (a + b) by (unfold a, b; ring).
    replace (INR n * (ang N j - ang N m) + (p - q)) with (a - b) by (unfold a, b; ring).
    rewrite cos_plus, cos_minus. field.
Qed.

(* sum_n cos(n a_j + p) sin(n a_m + q) *)
Lemma cos_sin_sum N j m p q : (0 < N)%nat ->
  rsumN (fun n => cos (INR n * ang N j + p) * sin (INR n * ang N m + q)) N
  = (delta N (j + m) * sin (p + q) - delta N (j - m) * sin (p - q)) / 2.
Proof.
  intros HN.
  rewrite (rsumN_ext _ (fun n => / 2 * (sin (INR n * ang N (j + m) + (p + q)) - sin (INR n * ang N (j - m) + (p - q))))).
  - rewrite rsumN_scal, rsumN_minus, !sin_sum_delta by assumption. field.
  - intros n _. rewrite ang_plus, ang_minus by assumption.
    set (a := INR n * ang N j + p). set (b := INR n * ang N m + q).
    replace (INR n * (ang N j + ang N m) + (p + q)) with (a + b) by (unfold a, b; ring).
    replace (INR n * (ang N j - ang N m) + (p - q)) with (a - b) by (unfold a, b; ring).
    rewrite sin_plus, sin_minus. field.
Qed.

(* sum_n sin(n a_j + p) sin(n a_m + q) *)
Lemma sin_sin_sum N j m p q : (0 < N)%nat ->
  rsumN (fun n => sin (INR n * ang N j + p) * sin (INR n * ang N m + q)) N
  = (delta N (j - m) * cos (p - q) - delta N (j + m) * cos (p + q)) / 2.
Proof.
  intros HN.
  rewrite (rsumN_ext _ (fun n => / 2 * (cos (INR n * ang N (j - m) + (p - q)) - cos (INR n * ang N (j + m) + (p + q))))).
  - rewrite rsumN_scal, rsumN_minus, !cos_sum_delta by assumption. field.
  - intros n _. rewrite ang_plus, ang_minus by assumption.
    set (a := INR n * ang N j + p). set (b := INR n * ang N m + q).
    replace (INR n * (ang N j + ang N m) + (p + q)) with (a + b) by (unfold a, b; ring).
    replace (INR n * (ang N j - ang N m) + (p - q)) with (a - b) by (unfold a, b; ring).
    rewrite cos_plus, cos_minus. field.
Qed.

(* ---------------------------------------------------------------- delta at the frequencies that occur *)
Lemma delta_0 N : delta N 0 = INR N.
Proof. unfold delta. rewrite Zmod_0_l. destruct (Z.eq_dec 0 0); [reflexivity|contradiction]. Qed.

Lemma delta_small N j : (0 < j < Z.of_nat N)%Z -> delta N j = 0.
Proof.
  intros H. unfold delta. rewrite Z.mod_small by lia. destruct (Z.eq_dec j 0); [lia|reflexivity].
Qed.

Lemma delta_small_neg N j : (- Z.of_nat N < j < 0)%Z -> delta N j = 0.
Proof.
  intros H. unfold delta. destruct (Z.eq_dec (j mod Z.of_nat N) 0) as [E|E]; [|reflexivity].
  exfalso. apply Z_div_exact_full_2 in E; [|lia]. set (q := (j / Z.of_nat N)%Z) in *.
  assert (Hq : (q <= -1 \/ q >= 0)%Z) by lia. destruct Hq; nia.
Qed.

Lemma delta_N N : (0 < N)%nat -> delta N (Z.of_nat N) = INR N.
Proof. intros H. unfold delta. rewrite Z_mod_same_full. destruct (Z.eq_dec 0 0); [reflexivity|contradiction]. Qed.

Lemma delta_range N j : (- Z.of_nat N < j < Z.of_nat N)%Z -> j <> 0%Z -> delta N j = 0.
Proof. intros H Hj. destruct (Z_lt_ge_dec j 0). apply delta_small_neg; lia. apply delta_small; lia. Qed.
