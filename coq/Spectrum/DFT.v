(* C16 - definitions the spectral theorems are stated with.
   np.fft.rfft / np.fft.irfft are modelled as the DFT sums over R (real and imaginary part as finite sums); that
   numpy computes these sums is exercised numerically by harness/C16.py on every run (1e-9), not proved.
   The SCALE factors are not written here: csd_scale, csd_to_signal_scale, tone_conv_re/im, tone_power_of_abs,
   rms_of_meansq, rms_rfft_of_sumsq come from gen/UtilExprGen.v, regenerated from psiaudio/util.py on every run. *)
From Coq Require Import Reals Lra Lia ZArith.
From PV Require Import Calib.RBase gen.UtilExprGen Spectrum.TrigSum.
Open Scope R_scope.

(* np.fft.rfft(x)[m] = sum_{n<N} x_n exp(-2 pi i m n / N) *)
Definition dft_re (x : nat -> R) (N m : nat) : R := rsumN (fun n => x n * cos (INR n * ang N (Z.of_nat m))) N.
Definition dft_im (x : nat -> R) (N m : nat) : R := - rsumN (fun n => x n * sin (INR n * ang N (Z.of_nat m))) N.

(* util.csd(x, window=None, detrend=None)[m] = rfft(x)[m] * scale,  scale = csd_scale N  (generated) *)
Definition csd_re (x : nat -> R) (N m : nat) : R := dft_re x N m * csd_scale (INR N).
Definition csd_im (x : nat -> R) (N m : nat) : R := dft_im x N m * csd_scale (INR N).

(* a sinusoid of RMS amplitude A and phase p at analysis frequency (bin) k of an N-point frame *)
Definition sinusoid (A p : R) (N k : nat) (n : nat) : R := A * sqrt 2 * cos (INR n * ang N (Z.of_nat k) + p).

(* mean square of a frame, and util.rms (detrend=False) through the generated square root *)
Definition meansq (x : nat -> R) (N : nat) : R := rsumN (fun n => x n * x n) N / INR N.
Definition rms (x : nat -> R) (N : nat) : R := rms_of_meansq (meansq x N).

(* util.tone_conv(x, fs, f, window=None, detrend=None) = mean over the samples of r_n (generated per-sample value) *)
Definition tone_conv_mean_re (x : nat -> R) (N : nat) (fs f : R) : R :=
  rsumN (fun n => tone_conv_re (x n) (INR n) fs f) N / INR N.
Definition tone_conv_mean_im (x : nat -> R) (N : nat) (fs f : R) : R :=
  rsumN (fun n => tone_conv_im (x n) (INR n) fs f) N / INR N.

(* number of one-sided bins of an N-point frame: 0 .. N/2 *)
Definition nbins (N : nat) : nat := S (N / 2).

(* total power in the one-sided spectrum: sum over the bins of |csd|^2  (util.rms_rfft squared) *)
Definition bin_power (x : nat -> R) (N m : nat) : R := csd_re x N m * csd_re x N m + csd_im x N m * csd_im x N m.
Definition spectrum_power (x : nat -> R) (N : nat) : R := rsumN (bin_power x N) (nbins N).

(* np.fft.irfft(c)[n] for len(c) = M + 1, output length N = 2 M (numpy's default):
   (1/N) (Re c_0 + 2 sum_{0<m<M} (Re c_m cos(2 pi m n/N) - Im c_m sin(2 pi m n/N)) + Re c_M cos(pi n)) *)
Definition irfft (cr ci : nat -> R) (M : nat) (n : nat) : R :=
  let N := (2 * M)%nat in
  (cr 0%nat + 2 * rsumN (fun j => let m := S j in
                           cr m * cos (INR n * ang N (Z.of_nat m)) - ci m * sin (INR n * ang N (Z.of_nat m))) (M - 1)
   + cr M * cos (INR n * ang N (Z.of_nat M))) / INR N.

(* util.csd_to_signal(c) = irfft(c / scale), scale = csd_to_signal_scale (len c)  (generated) *)
Definition csd_to_signal (cr ci : nat -> R) (M : nat) (n : nat) : R :=
  irfft (fun m => cr m / csd_to_signal_scale (INR (S M))) (fun m => ci m / csd_to_signal_scale (INR (S M))) M n.

(* util.psd(x, waveform_averages=B, trim_samples=True, window=None, detrend=None)[m]: the first B*L samples
   (L = len(x) // B; the trailing len(x) mod B samples are dropped) are cut into B blocks of L samples, and the
   magnitudes |csd(block_b)[m]| are averaged over the blocks *)
Definition block (x : nat -> R) (L b : nat) (n : nat) : R := x (b * L + n)%nat.
Definition psd (x : nat -> R) (L B m : nat) : R :=
  rsumN (fun b => sqrt (bin_power (block x L b) L m)) B / INR B.

(* ---------------------------------------------------------------- windows *)
(* a cosine-sum window of order J on the periodic N-point grid (scipy.signal.get_window(name, N), fftbins=True):
   w_n = sum_{j<=J} c_j cos(2 pi j n / N);  hann (1/2, -1/2), hamming (0.54, -0.46), blackman (0.42, -1/2, 0.08),
   flattop (a0, -a1, a2, -a3, a4).  That scipy's windows are these sums is checked numerically by harness/C16.py. *)
Definition cos_window (c : nat -> R) (J N : nat) (n : nat) : R :=
  rsumN (fun j => c j * cos (INR n * ang N (Z.of_nat j))) (S J).
(* util.csd(s, window): s is multiplied by w / w.mean() before the transform *)
Definition wmean (w : nat -> R) (N : nat) : R := rsumN w N / INR N.
Definition windowed (w : nat -> R) (N : nat) (x : nat -> R) (n : nat) : R := w n / wmean w N * x n.
