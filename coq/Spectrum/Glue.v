(* C16 - executable (Z / Q) model of the index arithmetic around the transforms of psiaudio/util.py: how psd cuts a frame
   into blocks (trailing samples trimmed), how many bins a block has, the length csd_to_signal reconstructs, and what psd
   reads for a unit impulse (an exact rational once squared: (sqrt 2 / L / B)^2).  Evaluated by vm_compute in the
   generated correspondence files against what the implementation returned. *)
From Coq Require Import QArith Qabs.
From PV Require Export Common.ListX.
Open Scope Z_scope.

(* psd(s, waveform_averages=B, trim_samples=True): n = (len // B) * B samples are used, in B blocks of L = len // B *)
Definition block_len (n B : Z) : Z := n / B.
Definition used (n B : Z) : Z := (n / B) * B.
(* rfft of L samples has L // 2 + 1 bins; csd_to_signal of nb bins returns 2 (nb - 1) samples *)
Definition n_bins (L : Z) : Z := L / 2 + 1.
Definition signal_len (nb : Z) : Z := 2 * (nb - 1).

(* a binary64 value n * 2^e *)
Definition dy (n e : Z) : Q :=
  if (0 <=? e)%Z then inject_Z (n * 2 ^ e) else Qmake n (Z.to_pos (2 ^ (- e))).
(* |m - v| <= 1e-9 * |m| *)
Definition close (m v : Q) : bool := Qle_bool (Qabs (m - v) * (1000000000 # 1)) (Qabs m).

(* psd of the unit impulse at sample i: the impulse lies in one block, whose csd has magnitude sqrt 2 / L in every
   bin; the other B - 1 blocks are silent; the mean over the blocks is sqrt 2 / L / B; squared 2 / (L B)^2.
   An impulse in the trimmed tail is not seen at all. *)
Definition impulse_psd_sq (n B i : Z) : Q :=
  let L := block_len n B in
  if (i <? used n B) then Qmake 2 (Z.to_pos (L * B * (L * B))) else 0%Q.

Definition check_psd (n B i bins : Z) (got_sq : list Q) : bool :=
  (n_bins (block_len n B) =? bins) && (zlen got_sq =? bins) &&
  forallb (fun g => close (impulse_psd_sq n B i) g && (if Qeq_bool (impulse_psd_sq n B i) 0 then Qeq_bool g 0 else true)) got_sq.

(* shapes: csd of n samples has n_bins n bins, and csd_to_signal of that has signal_len (n_bins n) samples *)
Definition check_shapes (n bins back : Z) : bool := (n_bins n =? bins) && (signal_len bins =? back).

(* ---------------------------------------------------------------- util.phase: which detrend argument csd receives *)
(* csd(s, window, detrend) accepts None, 'linear', 'constant'; scipy rejects anything else with ValueError *)
Inductive detrend_arg := DNone | DLinear | DConstant | DOther (k : Z).
Definition csd_accepts (d : detrend_arg) : bool := match d with DOther _ => false | _ => true end.
(* repaired phase(s, fs, window, waveform_averages): averages the blocks itself and calls csd(s, window, detrend=None) *)
Definition phase_detrend (waveform_averages : option Z) : detrend_arg := DNone.
(* unrepaired: csd(s, window, waveform_averages) - the averaging count landed in the detrend position *)
Definition phase_detrend_unrepaired (waveform_averages : option Z) : detrend_arg :=
  match waveform_averages with None => DNone | Some k => DOther k end.
(* what the implementation did for this averaging count: answered (true) or raised ValueError (false) *)
Definition check_phase (waveform_averages : option Z) (answered : bool) : bool :=
  Bool.eqb (csd_accepts (phase_detrend waveform_averages)) answered.

Lemma phase_averages_ok wa : csd_accepts (phase_detrend wa) = true.
Proof. reflexivity. Qed.

Lemma phase_unrepaired_refuted : exists wa, csd_accepts (phase_detrend_unrepaired wa) = false.
Proof. exists (Some 2). reflexivity. Qed.

(* ---------------------------------------------------------------- facts (axiom-free) *)
Lemma trimming n B : 0 < B -> 0 <= n ->
  used n B <= n < used n B + B /\ used n B = B * block_len n B /\ (n mod B = 0 -> used n B = n).
Proof.
  intros HB Hn. unfold used, block_len. pose proof (Z.div_mod n B ltac:(lia)) as E.
  pose proof (Z.mod_pos_bound n B HB). repeat split; try lia.
Qed.

(* an even frame is recovered with its own length, an odd one loses a sample: n_bins forgets the parity *)
Lemma roundtrip_len n : 0 <= n -> signal_len (n_bins n) = (if Z.even n then n else n - 1).
Proof.
  intros Hn. unfold signal_len, n_bins. destruct (Z.even n) eqn:E.
  - apply Z.even_spec in E. destruct E as [m ->]. replace (2 * m / 2) with m. lia.
    apply Z.div_unique with (r := 0); lia.
  - assert (O : Z.odd n = true) by (rewrite <- Z.negb_even, E; reflexivity).
    apply Z.odd_spec in O. destruct O as [m ->].
    replace ((2 * m + 1) / 2) with m. lia.
    apply Z.div_unique with (r := 1); lia.
Qed.
