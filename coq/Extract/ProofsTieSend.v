(* C05, translator tie, second part: ONE WHOLE send(data) of extract_epochs as regenerated from the current source
   (coq/gen/CaptureGen.v: extract_epochs_drain / _deliver / _replay / _intake / _send, extract_epochs_init) computes
   what Model.feed_step computes - for every state in the model's domain, every feed, every look-back B >= 0 -
   and therefore runs of the generated send refine the specification (C05_source_refines_spec).

   generated                                        model
   -----------------------------------------------  ---------------------------------------------
   xe_state (tlb, epoch_coroutines : ordered dict   xstate (tlb, pending, prior, armed)
     of coroutine states, prior_samples, epochs,
     empty_queue_cb is not None)
   extract_epochs_drain   (while removed_queue)     drain fst
   extract_epochs_deliver (for .. items(): send)    send_all
   extract_epochs_replay  (for prior_sample: send)  replay
   extract_epochs_intake  (while queue)             intake
   extract_epochs_send                              feed_step
     XOk (g', target argument, callback called)       (absx g', FOut batch cb)
     XRaise RDuplicate / RStack                       (_, FErr EDuplicate / EStack)
   The model's domain (wf_xe): the keys of the dict are distinct (they are: it is a dict), every pending coroutine
   has auto_send = False, and `epochs` is empty between two sends. *)
From Coq Require Import ZArith List Bool Lia ZifyBool.
From PV Require Import Extract.Model Extract.Spec Extract.SpecX Extract.ProofsRefine Extract.ProofsXCapture
  gen.CaptureGen Extract.ProofsTie.
Import ListNotations.
Open Scope Z_scope.

(* ---------------------------------------------------------------- vocabulary *)
Definition absp (p : Z * ce_state) : Z * capture := (fst p, abs (snd p)).
Definition absx (g : xe_state) : xstate :=
  {| tlb := xe_tlb g; pending := map absp (xe_epoch_coroutines g); prior := xe_prior_samples g;
     armed := xe_empty_queue_cb g |}.
Definition wfp (p : Z * ce_state) : Prop := wf_ce (snd p).
Definition wf_pend (d : list (Z * ce_state)) : Prop := NoDup (map fst d) /\ Forall wfp d.
Definition wf_xe (g : xe_state) : Prop := wf_pend (xe_epoch_coroutines g) /\ xe_epochs g = [].

(* what the outside sees of one send of the generated function *)
Inductive sout := SOut (batch : list item) (cb : bool) | SRaise (e : xraise).
Definition sout_of (o : fout) : sout :=
  match o with
  | FOut b cb => SOut b cb
  | FErr EDuplicate => SRaise RDuplicate
  | FErr EStack => SRaise RStack
  end.
Definition batch_of_target (t : option (list item)) : list item := match t with None => [] | Some b => b end.

Definition send_fuel (g : xe_state) (f : feed) : nat :=
  S (S (length (f_rems f) + length (f_reqs f) + length (xe_prior_samples g))).
Definition source_send (B : Z) (k : kind) (g : xe_state) (f : feed) :=
  extract_epochs_send (send_fuel g f) k g B (f_chunk f) (f_rems f) (f_reqs f) (f_complete f).

(* sends until one raises: the generator is dead afterwards *)
Fixpoint source_trace (B : Z) (k : kind) (g : xe_state) (fs : list feed) : list sout :=
  match fs with
  | [] => []
  | f :: t => match source_send B k g f with
              | XOk (g', tgt, cb) => SOut (batch_of_target tgt) cb :: source_trace B k g' t
              | XRaise e => [SRaise e]
              end
  end.
Definition source_run (B : Z) (k : kind) (fs : list feed) : list sout := source_trace B k (extract_epochs_init true) fs.
Definition source_run_nocb (B : Z) (k : kind) (fs : list feed) : list sout :=
  source_trace B k (extract_epochs_init false) fs.

(* ---------------------------------------------------------------- ordered dicts *)
Lemma has_key_map k d : has_key fst k (map absp d) = has_key fst k d.
Proof. induction d as [|x t IH]; [reflexivity|]. cbn [map has_key absp fst]. now rewrite IH. Qed.

Lemma del_key_map k d : del_key fst k (map absp d) = map absp (del_key fst k d).
Proof.
  induction d as [|x t IH]; [reflexivity|]. cbn [map del_key absp fst].
  destruct (fst x =? k); [reflexivity|]. cbn [map]. now rewrite IH.
Qed.

Lemma has_key_In {A} k (d : list (Z * A)) : has_key fst k d = true <-> In k (map fst d).
Proof.
  induction d as [|x t IH]; cbn [has_key map In]; [split; [discriminate|tauto]|].
  rewrite orb_true_iff, IH. split; intros [H|H]; auto; left; lia.
Qed.

Lemma has_key_notin {A} k (d : list (Z * A)) : ~ In k (map fst d) -> has_key fst k d = false.
Proof. intros H. destruct (has_key fst k d) eqn:E; [|reflexivity]. apply has_key_In in E. contradiction. Qed.

Lemma del_key_In {A} k k' (d : list (Z * A)) : In k' (map fst (del_key fst k d)) -> In k' (map fst d).
Proof.
  induction d as [|x t IH]; cbn [del_key map In]; [tauto|].
  destruct (fst x =? k); cbn [map In]; [auto|]. intros [H|H]; auto.
Qed.

Lemma del_key_wf k d : wf_pend d -> wf_pend (del_key fst k d).
Proof.
  intros [Hn Hf]. induction d as [|x t IH]; [split; assumption|]. cbn [del_key].
  inversion Hn as [|? ? Hx Ht]; subst. inversion Hf as [|? ? Hwx Hwt]; subst.
  destruct (fst x =? k); [split; assumption|]. destruct (IH Ht Hwt) as [IH1 IH2]. split.
  - cbn [map]. constructor; [|assumption]. intros H. apply Hx. now apply del_key_In in H.
  - now constructor.
Qed.

Lemma dict_put_notin {A} k (v : A) d : has_key fst k d = false -> dict_put k v d = d ++ [(k, v)].
Proof.
  induction d as [|x t IH]; [reflexivity|]. cbn [has_key dict_put app]. intros H. apply orb_false_iff in H.
  destruct H as [H1 H2]. rewrite H1. now rewrite IH.
Qed.

Lemma dict_put_mid {A} k (v c : A) P t : ~ In k (map fst P) -> dict_put k v (P ++ (k, c) :: t) = P ++ (k, v) :: t.
Proof.
  induction P as [|x P IH]; cbn [map In app dict_put fst]; intros H.
  - now rewrite Z.eqb_refl.
  - destruct (fst x =? k) eqn:E; [exfalso; apply H; left; lia|]. now rewrite IH by tauto.
Qed.

Lemma del_key_mid {A} k (c : A) P t : ~ In k (map fst P) -> del_key fst k (P ++ (k, c) :: t) = P ++ t.
Proof.
  induction P as [|x P IH]; cbn [map In app del_key fst]; intros H.
  - now rewrite Z.eqb_refl.
  - destruct (fst x =? k) eqn:E; [exfalso; apply H; left; lia|]. now rewrite IH by tauto.
Qed.

Lemma has_key_mid {A} k (c : A) P t : has_key fst k (P ++ (k, c) :: t) = true.
Proof. apply has_key_In. rewrite map_app. apply in_or_app. right. now left. Qed.

Lemma NoDup_mid_notin (P : list (Z * ce_state)) k c t : NoDup (map fst (P ++ (k, c) :: t)) -> ~ In k (map fst P).
Proof.
  rewrite map_app. cbn [map fst]. intros H HP. apply NoDup_remove_2 in H. apply H. apply in_or_app. now left.
Qed.

Lemma NoDup_app_snoc {A} (l : list A) x : NoDup l -> ~ In x l -> NoDup (l ++ [x]).
Proof.
  intros Hn Hx. induction l as [|y t IH]; cbn [app]; [constructor; [tauto|constructor]|].
  inversion Hn as [|? ? Hy Ht]; subst. constructor.
  - intros H. apply in_app_or in H. destruct H as [H|[H|[]]]; [contradiction|]. apply Hx. now left.
  - apply IH; [assumption|]. intros H. apply Hx. now right.
Qed.

(* ---------------------------------------------------------------- (1) the removal drain *)
Lemma drain_tie : forall rems fuel (d : list (Z * ce_state)) skip nr np, (length rems < fuel)%nat ->
  exists nr' np', extract_epochs_drain fuel d rems skip nr np =
    XOk (fst (drain fst rems d skip), [], snd (drain fst rems d skip), nr', np', false).
Proof.
  induction rems as [|k t IH]; intros fuel d skip nr np Hf; (destruct fuel as [|fuel]; [cbn in Hf; lia|]).
  - exists nr, np. reflexivity.
  - cbn [extract_epochs_drain is_nil drain]. cbv zeta.
    destruct (has_key fst k d) eqn:E; cbn [negb]; apply IH; cbn in Hf; lia.
Qed.

Lemma drain_map : forall rems d skip,
  drain fst rems (map absp d) skip = (map absp (fst (drain fst rems d skip)), snd (drain fst rems d skip)).
Proof.
  induction rems as [|k t IH]; intros d skip; [reflexivity|]. cbn [drain]. rewrite has_key_map.
  destruct (has_key fst k d); [rewrite del_key_map|]; apply IH.
Qed.

Lemma drain_wf : forall rems d skip, wf_pend d -> wf_pend (fst (drain fst rems d skip)).
Proof.
  induction rems as [|k t IH]; intros d skip H; [exact H|]. cbn [drain].
  destruct (has_key fst k d); apply IH; [now apply del_key_wf|assumption].
Qed.

(* ---------------------------------------------------------------- (3a) the chunk to every pending coroutine *)
Lemma ce_item_source k st o : ce_item k st o = source_item k st o.
Proof. destruct o; reflexivity. Qed.

Lemma deliver_tie T data : forall items P E, NoDup (map fst (P ++ items)) -> Forall wfp items ->
  exists p', extract_epochs_deliver items T (P ++ items) E data =
               XOk (P ++ p', E ++ snd (send_all T data (map absp items)), false) /\
             map absp p' = fst (send_all T data (map absp items)) /\ Forall wfp p' /\
             NoDup (map fst (P ++ p')).
Proof.
  induction items as [|[k c] t IH]; intros P E Hn Hw.
  - exists []. cbn [extract_epochs_deliver map send_all fst snd]. rewrite !app_nil_r in *. repeat split; auto.
  - inversion Hw as [|? ? Hc Ht]; subst. unfold wfp in Hc. cbn [snd] in Hc.
    pose proof (NoDup_mid_notin P k c t Hn) as HkP.
    cbn [extract_epochs_deliver].
    pose proof (step_is_cap_send c T data Hc) as V. pose proof (step_wf c T data Hc) as W.
    pose proof (step_missed_stub c T data) as M.
    destruct (capture_epoch_step c T data) as [[c' o] fin]. cbn [fst snd] in W, M. cbv zeta.
    rewrite (dict_put_mid k c' c P t HkP).
    cbn [map absp fst snd send_all]. destruct (send_all T data (map absp t)) as [p2 ev2] eqn:ES.
    destruct o as [[x|s0 md]|]; destruct fin; cbn [view] in V; try discriminate; inversion V as [V1]; clear V.
    + (* finished with data *)
      rewrite has_key_mid, del_key_mid by assumption.
      assert (Hn' : NoDup (map fst (P ++ t))).
      { rewrite map_app in *. cbn [map fst] in Hn. now apply NoDup_remove_1 in Hn. }
      destruct (IH P (E ++ out_items k c (Some (OTarget x))) Hn' Ht) as (p' & E1 & E2 & E3 & E4).
      exists p'. rewrite E1. cbn [fst snd out_items].
      split; [rewrite <- app_assoc; reflexivity|]. split; [exact E2|]. split; [exact E3|exact E4].
    + (* missed *)
      destruct (M s0 md eq_refl) as (-> & -> & _).
      rewrite has_key_mid, del_key_mid by assumption.
      assert (Hn' : NoDup (map fst (P ++ t))).
      { rewrite map_app in *. cbn [map fst] in Hn. now apply NoDup_remove_1 in Hn. }
      destruct (IH P (E ++ out_items k c (Some (OMissed (c_s0 (abs c)) (c_rid (abs c))))) Hn' Ht) as (p' & E1 & E2 & E3 & E4).
      exists p'. rewrite E1. cbn [fst snd out_items].
      split; [rewrite <- app_assoc; reflexivity|]. split; [exact E2|]. split; [exact E3|exact E4].
    + (* goes on *)
      assert (Hn' : NoDup (map fst ((P ++ [(k, c')]) ++ t))).
      { rewrite <- app_assoc. cbn [app]. rewrite map_app in *. exact Hn. }
      replace (P ++ (k, c') :: t) with ((P ++ [(k, c')]) ++ t) by (now rewrite <- app_assoc).
      destruct (IH (P ++ [(k, c')]) (E ++ out_items k c None) Hn' Ht) as (p' & E1 & E2 & E3 & E4).
      exists ((k, c') :: p'). rewrite E1. cbn [out_items fst snd]. rewrite app_nil_r.
      split; [now rewrite <- app_assoc|]. split; [cbn [map absp fst snd]; now rewrite E2|].
      split; [constructor; [exact W|exact E3]|].
      rewrite <- app_assoc in E4. exact E4.
Qed.

(* ---------------------------------------------------------------- (2a) the buffered chunks into a new coroutine *)
Lemma cap_send_cont_frame c s d c' : cap_send c s d = CCont c' -> c_s0 c' = c_s0 c /\ c_rid c' = c_rid c.
Proof.
  unfold cap_send. destruct (c_cur c <? s); [discriminate|].
  destruct (c_cur c <=? s + zlen d); [|intros H; inversion H; auto].
  destruct (c_rem c - Z.min (c_rem c) (zlen d - (c_cur c - s)) =? 0); [discriminate|].
  intros H. inversion H. cbn. auto.
Qed.

Lemma replay_tie key : forall pr co E, wf_ce co ->
  match replay (abs co) pr with
  | CCont c' => exists co', extract_epochs_replay pr E key co = XOk (E, co', false) /\ abs co' = c' /\ wf_ce co'
  | CDone d => exists co', extract_epochs_replay pr E key co = XOk (E ++ [done_item key (abs co) d], co', true)
  | CMissed => exists co', extract_epochs_replay pr E key co = XOk (E ++ [missed_item key (abs co)], co', true)
  end.
Proof.
  induction pr as [|[s d] t IH]; intros co E Hc.
  - cbn [replay]. exists co. repeat split; auto.
  - cbn [replay extract_epochs_replay fst snd].
    pose proof (step_is_cap_send co s d Hc) as V. pose proof (step_wf co s d Hc) as W.
    pose proof (step_missed_stub co s d) as M.
    destruct (capture_epoch_step co s d) as [[c' o] fin]. cbn [fst snd] in W, M. cbv zeta.
    destruct o as [[x|s0 md]|]; destruct fin; cbn [view] in V; try discriminate; inversion V as [V1]; clear V.
    + exists c'. reflexivity.
    + destruct (M s0 md eq_refl) as (-> & -> & _). exists c'. reflexivity.
    + cbn [out_items]. rewrite app_nil_r. specialize (IH c' E W).
      destruct (cap_send_cont_frame (abs co) s d (abs c') (eq_sym V1)) as [F1 F2].
      destruct (replay (abs c') t) as [c2|x| ]; destruct IH as (co' & IH); exists co'.
      * exact IH.
      * rewrite IH. unfold done_item. now rewrite F1, F2.
      * rewrite IH. unfold missed_item. now rewrite F1, F2.
Qed.

(* ---------------------------------------------------------------- (2b) the request intake *)
Lemma new_capture_abs r : abs (extract_epochs_new_capture (r_lo r) (r_n r) (r_rid r)) = new_capture r /\
  wf_ce (extract_epochs_new_capture (r_lo r) (r_n r) (r_rid r)).
Proof. split; reflexivity. Qed.

Lemma intake_tie pr : forall reqs fuel d E skip nq ni, (length reqs < fuel)%nat -> wf_pend d ->
  match intake reqs pr (map absp d) skip with
  | None => extract_epochs_intake fuel d pr E reqs skip nq ni = XRaise RDuplicate
  | Some (pend', ev) => exists d' skip' nq' ni',
      extract_epochs_intake fuel d pr E reqs skip nq ni = XOk (d', E ++ ev, [], skip', nq', ni', false) /\
      map absp d' = pend' /\ wf_pend d'
  end.
Proof.
  induction reqs as [|r t IH]; intros fuel d E skip nq ni Hf Hw; (destruct fuel as [|fuel]; [cbn in Hf; lia|]).
  - cbn [intake]. exists d, skip, nq, ni. cbn [extract_epochs_intake is_nil]. rewrite app_nil_r. auto.
  - assert (Hf' : (length t < fuel)%nat) by (cbn in Hf; lia).
    cbn [intake extract_epochs_intake is_nil]. cbv zeta.
    destruct (memz (r_key r) skip) eqn:Em.
    + apply IH; assumption.
    + destruct (new_capture_abs r) as [Ea Wa]. rewrite <- Ea.
      pose proof (replay_tie (r_key r) pr (extract_epochs_new_capture (r_lo r) (r_n r) (r_rid r)) E Wa) as R.
      destruct (replay (abs (extract_epochs_new_capture (r_lo r) (r_n r) (r_rid r))) pr) as [c2|x| ].
      * destruct R as (co' & -> & Rabs & Rwf). rewrite has_key_map.
        destruct (has_key fst (r_key r) d) eqn:Eh; [reflexivity|].
        rewrite (dict_put_notin _ _ _ Eh).
        assert (Hw' : wf_pend (d ++ [(r_key r, co')])).
        { destruct Hw as [Hn Hfa]. split.
          - rewrite map_app. cbn [map fst]. apply NoDup_app_snoc; [assumption|].
            intros H. apply has_key_In in H. congruence.
          - apply Forall_app. split; [assumption|]. constructor; [exact Rwf|constructor]. }
        specialize (IH fuel (d ++ [(r_key r, co')]) E skip (nq + 1) ni Hf' Hw').
        rewrite map_app in IH. change (map absp [(r_key r, co')]) with [(r_key r, abs co')] in IH.
        rewrite Rabs in IH. exact IH.
      * destruct R as (co' & ->).
        specialize (IH fuel d (E ++ [done_item (r_key r) (abs (extract_epochs_new_capture (r_lo r) (r_n r) (r_rid r))) x])
                      skip (nq + 1) ni Hf' Hw).
        destruct (intake t pr (map absp d) skip) as [[pend' ev]|]; cbn [opt_cons]; [|exact IH].
        destruct IH as (d' & s' & a & b & IH1 & IH2). exists d', s', a, b. rewrite IH1. rewrite <- app_assoc. auto.
      * destruct R as (co' & ->).
        specialize (IH fuel d (E ++ [missed_item (r_key r) (abs (extract_epochs_new_capture (r_lo r) (r_n r) (r_rid r)))])
                      skip (nq + 1) ni Hf' Hw).
        destruct (intake t pr (map absp d) skip) as [[pend' ev]|]; cbn [opt_cons]; [|exact IH].
        destruct IH as (d' & s' & a & b & IH1 & IH2). exists d', s', a, b. rewrite IH1. rewrite <- app_assoc. auto.
Qed.

(* ---------------------------------------------------------------- one whole send *)
Lemma zlen_cons_nonzero {A} (x : A) l : (zlen (x :: l) =? 0) = false.
Proof. unfold zlen. cbn [length]. lia. Qed.

Lemma zlen_is_nil (d : list (Z * ce_state)) : (zlen d =? 0) = is_nil (map absp d).
Proof. destruct d; [reflexivity|]. now rewrite zlen_cons_nonzero. Qed.

Theorem send_tie B k g f : 0 <= B -> wf_xe g ->
  match feed_step B k (absx g) f with
  | (st', FOut b cb) => exists g' tgt, source_send B k g f = XOk (g', tgt, cb) /\ batch_of_target tgt = b /\
                                       absx g' = st' /\ wf_xe g'
  | (_, FErr EDuplicate) => source_send B k g f = XRaise RDuplicate
  | (_, FErr EStack) => source_send B k g f = XRaise RStack
  end.
Proof.
  intros HB [Hw He]. destruct g as [T d pr ep arm]. cbn [xe_epoch_coroutines xe_epochs] in Hw, He. subst ep.
  unfold source_send, send_fuel, extract_epochs_send, feed_step, absx.
  cbn [xe_tlb xe_epoch_coroutines xe_prior_samples xe_epochs xe_empty_queue_cb tlb pending prior armed]. cbv zeta.
  set (fuel := S (S (length (f_rems f) + length (f_reqs f) + length pr))).
  (* the drain *)
  destruct (drain_tie (f_rems f) fuel d [] 0 0) as (nr & np & ->); [unfold fuel; lia|].
  rewrite drain_map. pose proof (drain_wf (f_rems f) d [] Hw) as Hw1.
  destruct (drain fst (f_rems f) d []) as [d1 skip]. cbn [fst snd] in Hw1 |- *.
  (* the delivery *)
  destruct Hw1 as [Hn1 Hf1].
  destruct (deliver_tie T (f_chunk f) d1 [] [] Hn1 Hf1) as (d2 & ED & E2 & Hf2 & Hn2). cbn [app] in Hn2, ED.
  rewrite ED. clear ED.
  destruct (send_all T (f_chunk f) (map absp d1)) as [pend2 ev1]. cbn [fst snd] in E2 |- *. subst pend2.
  (* the intake *)
  pose proof (intake_tie (pr ++ [(T, f_chunk f)]) (f_reqs f) fuel d2 ev1 skip 0 0) as I.
  destruct (intake (f_reqs f) (pr ++ [(T, f_chunk f)]) (map absp d2) skip) as [[pend3 ev2]|].
  2:{ rewrite I; [reflexivity|unfold fuel; lia|split; assumption]. }
  destruct I as (d3 & skip' & nq & ni & -> & E3 & Hw3); [unfold fuel; lia|split; assumption|]. subst pend3.
  (* the pruning loop *)
  rewrite (source_prune_some (pr ++ [(T, f_chunk f)]) fuel (T + zlen (f_chunk f)) B);
    [|rewrite app_length; cbn [length]; unfold fuel; lia|now apply prune_keeps_last].
  (* the callback *)
  change (zlen (@nil request) =? 0) with true. rewrite andb_true_r. rewrite zlen_is_nil.
  assert (Fin : forall tgt : option (list item),
    (if f_complete f && is_nil (map absp d3) && arm
     then XOk ({| xe_tlb := T + zlen (f_chunk f); xe_epoch_coroutines := d3;
                  xe_prior_samples := prune B (T + zlen (f_chunk f)) (pr ++ [(T, f_chunk f)]);
                  xe_epochs := []; xe_empty_queue_cb := false |}, tgt, true)
     else XOk ({| xe_tlb := T + zlen (f_chunk f); xe_epoch_coroutines := d3;
                  xe_prior_samples := prune B (T + zlen (f_chunk f)) (pr ++ [(T, f_chunk f)]);
                  xe_epochs := []; xe_empty_queue_cb := arm |}, tgt, false)) =
    XOk ({| xe_tlb := T + zlen (f_chunk f); xe_epoch_coroutines := d3;
            xe_prior_samples := prune B (T + zlen (f_chunk f)) (pr ++ [(T, f_chunk f)]);
            xe_epochs := []; xe_empty_queue_cb := arm && negb (f_complete f && is_nil (map absp d3) && arm) |},
         tgt, f_complete f && is_nil (map absp d3) && arm)).
  { intros tgt. destruct (f_complete f && is_nil (map absp d3) && arm) eqn:Ef; [|now rewrite andb_true_r].
    now rewrite andb_false_r. }
  destruct (ev1 ++ ev2) as [|x b] eqn:Eb.
  - (* nothing to deliver *)
    change (zlen (@nil item) =? 0) with true. cbn [negb stack_ok uniform_len forallb existsb andb orb].
    rewrite Fin. eexists _, None. split; [reflexivity|]. split; [reflexivity|]. split; [reflexivity|].
    split; [exact Hw3|reflexivity].
  - rewrite zlen_cons_nonzero. cbn [negb].
    destruct (stack_ok k (x :: b)); cbn [negb]; [|reflexivity].
    rewrite Fin. eexists _, (Some (x :: b)). split; [reflexivity|]. split; [reflexivity|]. split; [reflexivity|].
    split; [exact Hw3|reflexivity].
Qed.

(* the same as an equation: what the outside sees, and the next state *)
Theorem source_send_is_feed_step B k g f : 0 <= B -> wf_xe g ->
  match source_send B k g f with
  | XOk (g', tgt, cb) => feed_step B k (absx g) f = (absx g', FOut (batch_of_target tgt) cb) /\ wf_xe g'
  | XRaise e => exists st', feed_step B k (absx g) f = (st', FErr match e with RDuplicate => EDuplicate | _ => EStack end) /\
                            (e = RDuplicate \/ e = RStack)
  end.
Proof.
  intros HB Hw. pose proof (send_tie B k g f HB Hw) as H.
  destruct (feed_step B k (absx g) f) as [st' [b cb|[|]]].
  - destruct H as (g' & tgt & -> & <- & <- & Hw'). auto.
  - rewrite H. eauto.
  - rewrite H. eauto.
Qed.

(* ---------------------------------------------------------------- runs *)
Lemma source_trace_is_trace B k : 0 <= B -> forall fs g, wf_xe g ->
  source_trace B k g fs = map sout_of (map snd (trace B k (absx g) fs)).
Proof.
  intros HB. induction fs as [|f t IH]; intros g Hw; [reflexivity|].
  cbn [source_trace trace]. pose proof (send_tie B k g f HB Hw) as H.
  destruct (feed_step B k (absx g) f) as [st' [b cb|[|]]].
  - destruct H as (g' & tgt & -> & <- & <- & Hw'). cbn [map snd sout_of]. f_equal. now apply IH.
  - now rewrite H.
  - now rewrite H.
Qed.

Lemma source_init : absx (extract_epochs_init true) = xinit /\ wf_xe (extract_epochs_init true) /\
  absx (extract_epochs_init false) = xinit_nocb /\ wf_xe (extract_epochs_init false).
Proof. repeat split; constructor. Qed.

Theorem source_run_is_run B k fs : 0 <= B -> source_run B k fs = map sout_of (run B k fs).
Proof.
  intros HB. unfold source_run, run. destruct source_init as (E & W & _).
  rewrite (source_trace_is_trace B k HB fs _ W). now rewrite E.
Qed.

Theorem source_run_nocb_is_run B k fs : 0 <= B -> source_run_nocb B k fs = map sout_of (run_nocb B k fs).
Proof.
  intros HB. unfold source_run_nocb, run_nocb. destruct source_init as (_ & _ & E & W).
  rewrite (source_trace_is_trace B k HB fs _ W). now rewrite E.
Qed.

(* the refinement theorem over runs of the GENERATED send *)
Theorem source_refines_spec B k fs : 0 <= B -> Forall (fun r => 0 <= r_n r) (all_reqs fs) ->
  source_run B k fs = map sout_of (spec_run B k fs).
Proof. intros HB Hn. rewrite source_run_is_run by assumption. now rewrite run_refines_spec. Qed.

(* ---------------------------------------------------------------- the domain is needed, and not empty *)
(* a list with a repeated key is not a dict: the generated dict operations then differ from the model's list walk *)
Theorem send_tie_refuted : exists B k g f, 0 <= B /\ xe_epochs g = [] /\ Forall wfp (xe_epoch_coroutines g) /\
  ~ NoDup (map fst (xe_epoch_coroutines g)) /\
  forall g' tgt cb, source_send B k g f = XOk (g', tgt, cb) ->
    feed_step B k (absx g) f <> (absx g', FOut (batch_of_target tgt) cb).
Proof.
  exists 0, (mkkind false false),
    {| xe_tlb := 0; xe_epoch_coroutines := [(0, capture_epoch_init 0 5 0 false); (0, capture_epoch_init 0 3 0 false)];
       xe_prior_samples := []; xe_epochs := []; xe_empty_queue_cb := false |},
    (mkfeed [7] [] [] false).
  split; [lia|]. split; [reflexivity|]. split; [repeat constructor|]. split.
  - cbn. intros H. inversion H as [|? ? Hx _]; subst. apply Hx. now left.
  - intros g' tgt cb. vm_compute. intros H. inversion H; subst. vm_compute. discriminate.
Qed.

Example wf_xe_ex : wf_xe (extract_epochs_init true) /\
  source_run 3 (mkkind true false)
    [ mkfeed [10;11;12] [] [mkreq 0 2 5 100; mkreq 3 1 5 103] false;
      mkfeed [13;14;15;16] [] [mkreq 2 6 5 102] false;
      mkfeed [17] [] [] false;
      mkfeed [18;19;20;21] [2] [mkreq 1 5 5 101] true;
      mkfeed [22;23] [3] [] true ] =
  [ SOut [] false;
    SOut [ {| i_key := 0; i_rid := 100; i_s0 := 2; i_data := [12;13;14;15;16]; i_missed := false |};
           {| i_key := 3; i_rid := 103; i_s0 := 1; i_data := [11;12;13;14;15]; i_missed := false |} ] false;
    SOut [] false;
    SOut [ {| i_key := 1; i_rid := 101; i_s0 := 5; i_data := [15;16;17;18;19]; i_missed := false |} ] true;
    SOut [] false ].
Proof. split; [exact (proj1 (proj2 source_init))|]. vm_compute. reflexivity. Qed.
