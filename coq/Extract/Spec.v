(* Abstract specification of extract_epochs: the stream received so far, the list of requests
   still waiting for samples, and the sample bounds of the chunks kept for look-back.
   No capture coroutines, no partial accumulation, no replay: an epoch is cut out of the stream
   in one piece at the send at which its last sample is available.
   Also: the predicates the theorems of Props/C05.v are stated with. *)
From PV Require Export Extract.Model.

(* stream[a : a+n]  (a, n >= 0) *)
Definition sl (l : list Z) (a n : Z) : list Z := firstn (Z.to_nat n) (skipn (Z.to_nat a) l).

Record sstate := { s_T : Z; s_stream : list Z; s_wait : list request; s_kept : list (Z * Z); s_armed : bool }.
Definition sinit : sstate := {| s_T := 0; s_stream := []; s_wait := []; s_kept := []; s_armed := true |}.

Definition s_item (S : list Z) (r : request) : item :=
  {| i_key := r_key r; i_rid := r_rid r; i_s0 := r_lo r; i_data := sl S (r_lo r) (r_n r); i_missed := false |}.
Definition m_item (r : request) : item :=
  {| i_key := r_key r; i_rid := r_rid r; i_s0 := r_lo r; i_data := []; i_missed := true |}.

(* waiting requests whose last sample has arrived are delivered, in waiting order *)
Fixpoint sready (S : list Z) (T : Z) (W : list request) : list request * list item :=
  match W with
  | [] => ([], [])
  | r :: t => let '(W', ev) := sready S T t in
              if r_lo r + r_n r <=? T then (W', s_item S r :: ev) else (r :: W', ev)
  end.

Definition sopt_cons (x : item) (o : option (list request * list item)) :=
  match o with Some (p, ev) => Some (p, x :: ev) | None => None end.

(* new requests: cancelled in this very call / start older than the look-back start P (missed) /
   already complete / waiting *)
Fixpoint sintake (S : list Z) (T P : Z) (reqs W : list request) (skip : list Z)
  : option (list request * list item) :=
  match reqs with
  | [] => Some (W, [])
  | r :: t =>
    if memz (r_key r) skip then sintake S T P t W (remove_first (r_key r) skip)
    else if r_lo r <? P then sopt_cons (m_item r) (sintake S T P t W skip)
    else if r_lo r + r_n r <=? T then sopt_cons (s_item S r) (sintake S T P t W skip)
    else if has_key r_key (r_key r) W then None
    else sintake S T P t (W ++ [r]) skip
  end.

Fixpoint sprune (B T : Z) (kept : list (Z * Z)) : list (Z * Z) :=
  match kept with
  | [] => []
  | (a, m) :: t => if a + m <? T - B then sprune B T t else kept
  end.

(* first sample still available for look-back *)
Definition lb_start (T : Z) (kept : list (Z * Z)) : Z := match kept with (a, _) :: _ => a | [] => T end.

Definition spec_feed (B : Z) (k : kind) (s : sstate) (f : feed) : sstate * fout :=
  let m := zlen (f_chunk f) in
  let kept1 := s_kept s ++ [(s_T s, m)] in
  let S1 := s_stream s ++ f_chunk f in
  let T1 := s_T s + m in
  let '(W1, skip) := drain r_key (f_rems f) (s_wait s) [] in
  let '(W2, ev1) := sready S1 T1 W1 in
  match sintake S1 T1 (lb_start (s_T s) kept1) (f_reqs f) W2 skip with
  | None => (s, FErr EDuplicate)
  | Some (W3, ev2) =>
    let batch := ev1 ++ ev2 in
    if negb (stack_ok k batch) then (s, FErr EStack)
    else
      let fire := f_complete f && is_nil W3 && s_armed s in
      ({| s_T := T1; s_stream := S1; s_wait := W3; s_kept := sprune B T1 kept1;
          s_armed := s_armed s && negb fire |}, FOut batch fire)
  end.

Fixpoint spec_trace (B : Z) (k : kind) (s : sstate) (fs : list feed) : list (sstate * fout) :=
  match fs with
  | [] => []
  | f :: t => let '(s', o) := spec_feed B k s f in
              match o with FErr _ => [(s', o)] | FOut _ _ => (s', o) :: spec_trace B k s' t end
  end.
Definition spec_run (B : Z) (k : kind) (fs : list feed) : list fout := map snd (spec_trace B k sinit fs).

(* ------------------------------------------------------------------------------------------ *)
(* Vocabulary of the property theorems *)

Definition all_reqs (fs : list feed) : list request := flat_map f_reqs fs.
Definition req_keys (fs : list feed) : list Z := map r_key (all_reqs fs).
Definition stream_of (fs : list feed) : list Z := flat_map f_chunk fs.
(* samples received before send #j *)
Definition seen (fs : list feed) (j : nat) : Z := zlen (stream_of (firstn j fs)).

Definition batch_of (o : fout) : list item := match o with FOut b _ => b | FErr _ => [] end.
Definition delivered (outs : list fout) : list item := flat_map batch_of outs.
Definition count_key (k : Z) (l : list item) : Z := zlen (filter (fun it => i_key it =? k) l).
Definition fired (o : fout) : bool := match o with FOut _ cb => cb | FErr _ => false end.
Definition fire_count (outs : list fout) : Z := zlen (filter fired outs).
Definition is_err (o : fout) : bool := match o with FErr _ => true | _ => false end.

(* request r is put on the queue before send #a; key k is put on the removed queue before send #j *)
Definition arrives (fs : list feed) (a : nat) (r : request) : Prop :=
  exists f, nth_error fs a = Some f /\ In r (f_reqs f).
Definition removed_at (fs : list feed) (j : nat) (k : Z) : Prop :=
  exists f, nth_error fs j = Some f /\ In k (f_rems f).

(* ---- preconditions, as booleans on the schedule ---- *)

(* every request's first sample is still in the chunks kept for look-back (or in the future) at the
   send at which it becomes visible.  T, kept: samples received / chunk bounds kept before fs *)
Fixpoint visible_from (B T : Z) (kept : list (Z * Z)) (fs : list feed) : bool :=
  match fs with
  | [] => true
  | f :: rest =>
    let m := zlen (f_chunk f) in
    let kept1 := kept ++ [(T, m)] in
    forallb (fun r => lb_start T kept1 <=? r_lo r) (f_reqs f) &&
    visible_from B (T + m) (sprune B (T + m) kept1) rest
  end.
Definition visible (B : Z) (fs : list feed) : bool := visible_from B 0 [] fs.

(* the user-level sufficient condition: the first sample is not older than B samples before the
   chunk that is being sent when the request becomes visible *)
Fixpoint within_lookback (B T : Z) (fs : list feed) : bool :=
  match fs with
  | [] => true
  | f :: rest => forallb (fun r => (0 <=? r_lo r) && (T - B <=? r_lo r)) (f_reqs f) &&
                 within_lookback B (T + zlen (f_chunk f)) rest
  end.

(* no removal notice is processed in an earlier send than the request it names *)
Fixpoint rems_ok (fs : list feed) : bool :=
  match fs with
  | [] => true
  | f :: rest => forallb (fun k => negb (memz k (req_keys rest))) (f_rems f) && rems_ok rest
  end.

Fixpoint nodupz (l : list Z) : bool :=
  match l with [] => true | x :: t => negb (memz x t) && nodupz t end.

(* the three tests one send applies to a request (rems = keys on the removed queue, T = samples
   received including the chunk being sent) *)
Definition notrem (rems : list Z) (r : request) : bool := negb (memz (r_key r) rems).
Definition ready (T : Z) (r : request) : bool := r_lo r + r_n r <=? T.
Definition nready (T : Z) (r : request) : bool := negb (ready T r).

(* epochs that become complete at the same send have the same length (they are stacked into one
   array).  W: requests waiting before fs, T: samples received before fs.  Computed from chunk
   lengths, request bounds and removals only. *)
Definition uniform_n (X : list request) : bool :=
  match X with [] => true | x :: t => forallb (fun y => r_n y =? r_n x) t end.
Fixpoint lengths_ok (T : Z) (W : list request) (fs : list feed) : bool :=
  match fs with
  | [] => true
  | f :: rest =>
    let T1 := T + zlen (f_chunk f) in
    let lv := filter (notrem (f_rems f)) (W ++ f_reqs f) in
    uniform_n (filter (ready T1) lv) && lengths_ok T1 (filter (nready T1) lv) rest
  end.

(* schedules the property quantifies over: look-back B >= 0, epoch lengths n >= 0, epochs completing
   at the same send equally long, distinct (t0,key), every request visible within the look-back,
   removals not ahead of their requests *)
Definition wf_sched (B : Z) (fs : list feed) : bool :=
  (0 <=? B) && forallb (fun r => 0 <=? r_n r) (all_reqs fs) && lengths_ok 0 [] fs &&
  nodupz (req_keys fs) && visible B fs && rems_ok fs.

(* ---- used by the generated correspondence files: model and spec agree on this schedule ---- *)
Definition eqb_item (a b : item) : bool :=
  (i_key a =? i_key b) && (i_rid a =? i_rid b) && (i_s0 a =? i_s0 b) && eqb_listZ (i_data a) (i_data b) &&
  Bool.eqb (i_missed a) (i_missed b).
Definition eqb_fout (a b : fout) : bool :=
  match a, b with
  | FOut b1 c1, FOut b2 c2 => eqb_list eqb_item b1 b2 && Bool.eqb c1 c2
  | FErr x, FErr y => eqb_xerr x y
  | _, _ => false
  end.
Definition check_spec (B : Z) (k : kind) (fs : list feed) : bool :=
  negb (forallb (fun r => 0 <=? r_n r) (all_reqs fs)) ||
  eqb_list eqb_fout (run B k fs) (spec_run B k fs).
