(* Model of psiaudio.pipeline.capture_epoch / extract_epochs (one channel; a multichannel
   stream applies the same index arithmetic to every row).  Everything is in SAMPLES: a request
   carries lo = round((t0 - prestim)*fs) and n = round((epoch_size + poststim + prestim)*fs) as
   integers that the harness computes with the float expression of pipeline.py 816-818; B is
   buffer_samples = round(buffer_size*fs).  Definitions only; proofs in Extract/Proofs*.v.

   Python                               model
   -----------------------------------  ------------------------------------------------------
   capture_epoch locals
     epoch_s0                           c_s0
     current_s0                         c_cur
     epoch_samples (counts down)        c_rem
     accumulated_data (list of pieces)  c_acc   (the concatenation of the pieces)
     info / md                          c_rid   (identity of the request's metadata)
   extract_epochs locals
     tlb                                tlb
     epoch_coroutines (ordered dict)    pending : list (key * capture), insertion order
     prior_samples                      prior   : list (s0 * chunk)
     buffer_samples                     B
     empty_queue_cb is not None         armed
     skip (per call)                    skip    (local to feed_step)
     epochs (per call)                  ev1 ++ ev2 (local to feed_step)
   one extractor.send(data)             feed_step, with the contents of `queue`, `removed_queue`
                                        and source_complete.is_set() at that call in the feed
   (t0, key) dictionary key             one integer per distinct (t0, key) pair (harness)      *)
From PV Require Export Common.PySlice.

Record kind := { annot : bool;     (* chunks are PipelineData (else plain ndarray) *)
                 multi : bool }.   (* chunks are 2-D (channel x time) *)

Record request := { r_key : Z; r_lo : Z; r_n : Z; r_rid : Z }.
Record capture := { c_s0 : Z; c_cur : Z; c_rem : Z; c_acc : list Z; c_rid : Z }.
(* what `epochs.append` receives: the captured array, or the empty PipelineData of the
   "missed" branch (which carries only the request's own `metadata` entry) *)
Record item := { i_key : Z; i_rid : Z; i_s0 : Z; i_data : list Z; i_missed : bool }.

Definition new_capture (r : request) : capture :=
  {| c_s0 := r_lo r; c_cur := r_lo r; c_rem := r_n r; c_acc := []; c_rid := r_rid r |}.

Inductive cres := CCont (c : capture) | CDone (d : list Z) | CMissed.

(* one `slb, data = (yield)` iteration of capture_epoch (auto_send=False) *)
Definition cap_send (c : capture) (slb : Z) (data : list Z) : cres :=
  let samples := zlen data in
  if c_cur c <? slb then CMissed                                 (* current_s0 < slb *)
  else if c_cur c <=? slb + samples then                         (* current_s0 <= slb + samples *)
    let i := c_cur c - slb in
    let d := Z.min (c_rem c) (samples - i) in
    let acc := c_acc c ++ py_slice (Some i) (Some (i + d)) data in   (* data[..., i:i+d] *)
    let rem := c_rem c - d in
    if rem =? 0 then CDone acc
    else CCont {| c_s0 := c_s0 c; c_cur := c_cur c + d; c_rem := rem; c_acc := acc; c_rid := c_rid c |}
  else CCont c.

Definition done_item (k : Z) (c : capture) (d : list Z) : item :=
  {| i_key := k; i_rid := c_rid c; i_s0 := c_s0 c; i_data := d; i_missed := false |}.
Definition missed_item (k : Z) (c : capture) : item :=
  {| i_key := k; i_rid := c_rid c; i_s0 := c_s0 c; i_data := []; i_missed := true |}.

(* ---- ordered-dict / list helpers ---- *)
Definition memz (k : Z) (l : list Z) : bool := existsb (Z.eqb k) l.
Fixpoint remove_first (k : Z) (l : list Z) : list Z :=          (* list.remove(k) *)
  match l with [] => [] | x :: t => if x =? k then t else x :: remove_first k t end.

Section Keyed.
  Context {A : Type} (key : A -> Z).
  Fixpoint has_key (k : Z) (l : list A) : bool :=
    match l with [] => false | x :: t => (key x =? k) || has_key k t end.
  Fixpoint del_key (k : Z) (l : list A) : list A :=              (* dict.pop(k) *)
    match l with [] => [] | x :: t => if key x =? k then t else x :: del_key k t end.
  (* while removed_queue: ... (lines 773-783) *)
  Fixpoint drain (rems : list Z) (l : list A) (skip : list Z) : list A * list Z :=
    match rems with
    | [] => (l, skip)
    | k :: t => if has_key k l then drain t (del_key k l) skip else drain t l (skip ++ [k])
    end.
End Keyed.

(* for key, epoch_coroutine in list(epoch_coroutines.items()): send((tlb, data)) (792-796) *)
Fixpoint send_all (slb : Z) (data : list Z) (pend : list (Z * capture)) : list (Z * capture) * list item :=
  match pend with
  | [] => ([], [])
  | (k, c) :: t =>
    let '(p', ev) := send_all slb data t in
    match cap_send c slb data with
    | CCont c' => ((k, c') :: p', ev)
    | CDone d => (p', done_item k c d :: ev)
    | CMissed => (p', missed_item k c :: ev)
    end
  end.

(* for prior_sample in prior_samples: epoch_coroutine.send(prior_sample); StopIteration ends it *)
Fixpoint replay (c : capture) (pr : list (Z * list Z)) : cres :=
  match pr with
  | [] => CCont c
  | (s, d) :: t => match cap_send c s d with CCont c' => replay c' t | r => r end
  end.

Definition opt_cons (x : item) (o : option (list (Z * capture) * list item)) :=
  match o with Some (p, ev) => Some (p, x :: ev) | None => None end.

(* while queue: ... (803-833).  None = ValueError('Duplicate epochs not supported') *)
Fixpoint intake (reqs : list request) (pr : list (Z * list Z)) (pend : list (Z * capture))
         (skip : list Z) : option (list (Z * capture) * list item) :=
  match reqs with
  | [] => Some (pend, [])
  | r :: t =>
    if memz (r_key r) skip then intake t pr pend (remove_first (r_key r) skip)
    else match replay (new_capture r) pr with
         | CMissed => opt_cons (missed_item (r_key r) (new_capture r)) (intake t pr pend skip)
         | CDone d => opt_cons (done_item (r_key r) (new_capture r) d) (intake t pr pend skip)
         | CCont c => if has_key fst (r_key r) pend then None
                      else intake t pr (pend ++ [(r_key r, c)]) skip
         end
  end.

(* merging the epochs of one call into one array (842-847): np.concatenate / concat(axis=-3)
   need equal lengths; an empty "missed" PipelineData mixes with captured arrays only in the
   1-D cases found by experiment (see harness/C05.py, `stack` cases) *)
Definition uniform_len (b : list item) : bool :=
  match b with [] => true | x :: t => forallb (fun y => zlen (i_data y) =? zlen (i_data x)) t end.
Definition stack_ok (k : kind) (b : list item) : bool :=
  uniform_len b &&
  (forallb i_missed b || negb (existsb i_missed b) ||
   (negb (multi k) && (annot k || negb (match b with x :: _ => i_missed x | [] => false end)))).

(* while True: ... if tub < (tlb - buffer_samples): prior_samples.pop(0) else break  (852-858).
   The IndexError of prior_samples[0] on an emptied list cannot occur for B >= 0
   (Proofs: prune_keeps_last), so the empty case is returned as []. *)
Fixpoint prune (B tlb : Z) (pr : list (Z * list Z)) : list (Z * list Z) :=
  match pr with
  | [] => []
  | (s, d) :: t => if s + zlen d <? tlb - B then prune B tlb t else pr
  end.

Record xstate := { tlb : Z; pending : list (Z * capture); prior : list (Z * list Z); armed : bool }.
Record feed := { f_chunk : list Z; f_rems : list Z; f_reqs : list request; f_complete : bool }.
Inductive xerr := EDuplicate | EStack.
(* what one send() does to the outside: target(batch) if batch <> [], empty_queue_cb() if cb; or raises *)
Inductive fout := FOut (batch : list item) (cb : bool) | FErr (e : xerr).

Definition xinit : xstate := {| tlb := 0; pending := []; prior := []; armed := true |}.

Definition is_nil {A} (l : list A) : bool := match l with [] => true | _ => false end.

Definition feed_step (B : Z) (k : kind) (st : xstate) (f : feed) : xstate * fout :=
  let data := f_chunk f in
  let prior1 := prior st ++ [(tlb st, data)] in                          (* 766 *)
  let '(pend1, skip) := drain fst (f_rems f) (pending st) [] in          (* 770-783 *)
  let '(pend2, ev1) := send_all (tlb st) data pend1 in                   (* 792-796 *)
  match intake (f_reqs f) prior1 pend2 skip with                         (* 803-833 *)
  | None => (st, FErr EDuplicate)
  | Some (pend3, ev2) =>
    let tlb1 := tlb st + zlen data in                                    (* 838 *)
    let batch := ev1 ++ ev2 in
    if negb (stack_ok k batch) then (st, FErr EStack)                    (* 842-848 *)
    else
      let prior2 := prune B tlb1 prior1 in                               (* 852-858 *)
      let fire := f_complete f && is_nil pend3 && armed st in            (* 860-867; queue is empty here *)
      ({| tlb := tlb1; pending := pend3; prior := prior2; armed := armed st && negb fire |},
       FOut batch fire)
  end.

(* a raised exception finishes the generator: nothing after it is observable *)
Fixpoint trace (B : Z) (k : kind) (st : xstate) (fs : list feed) : list (xstate * fout) :=
  match fs with
  | [] => []
  | f :: t => let '(st', o) := feed_step B k st f in
              match o with FErr _ => [(st', o)] | FOut _ _ => (st', o) :: trace B k st' t end
  end.
Definition run (B : Z) (k : kind) (fs : list feed) : list fout := map snd (trace B k xinit fs).

(* ---- what the harness can see of one send() ---- *)
Inductive obs :=
| ObsErr (e : xerr)
| ObsOut (rows : list (list Z))                      (* one row per delivered epoch *)
         (ann : option (Z * list (Z * bool)))        (* PipelineData result: s0, per epoch (rid, only-own-metadata) *)
         (cb : bool).

Definition observe (k : kind) (o : fout) : obs :=
  match o with
  | FErr e => ObsErr e
  | FOut b cb =>
    ObsOut (map i_data b)
           (match b with
            | [] => None
            | x :: _ => if annot k || i_missed x
                        then Some (i_s0 x, map (fun it => (i_rid it, i_missed it)) b) else None
            end) cb
  end.

Definition eqb_xerr (a b : xerr) : bool :=
  match a, b with EDuplicate, EDuplicate => true | EStack, EStack => true | _, _ => false end.
Definition eqb_ann (a b : Z * list (Z * bool)) : bool :=
  (fst a =? fst b) && eqb_list (fun p q => (fst p =? fst q) && Bool.eqb (snd p) (snd q)) (snd a) (snd b).
Definition eqb_obs (a b : obs) : bool :=
  match a, b with
  | ObsErr x, ObsErr y => eqb_xerr x y
  | ObsOut r1 a1 c1, ObsOut r2 a2 c2 =>
    eqb_list eqb_listZ r1 r2 && eqb_option eqb_ann a1 a2 && Bool.eqb c1 c2
  | _, _ => false
  end.

Definition mkreq (k lo n rid : Z) : request := {| r_key := k; r_lo := lo; r_n := n; r_rid := rid |}.
Definition mkfeed (c : list Z) (rems : list Z) (reqs : list request) (cpl : bool) : feed :=
  {| f_chunk := c; f_rems := rems; f_reqs := reqs; f_complete := cpl |}.
Definition mkkind (a m : bool) : kind := {| annot := a; multi := m |}.

(* the model predicts exactly what the implementation showed, send by send *)
Definition check_run (B : Z) (k : kind) (fs : list feed) (got : list obs) : bool :=
  eqb_list eqb_obs (map (observe k) (run B k fs)) got.

(* ---- capture_epoch used stand-alone (added for the coverage audit; nothing above depends on it) ----
   capture_epoch(epoch_s0, epoch_samples, info, target) fed with (slb, data) tuples: per send nothing,
   target(data) + StopIteration, or target(empty "missed" PipelineData) + StopIteration *)
Inductive cobs := CNone | CData (d : list Z) | CMiss.
Fixpoint capture_run (c : capture) (sends : list (Z * list Z)) : list cobs :=
  match sends with
  | [] => []
  | (s, d) :: t => match cap_send c s d with
                   | CCont c' => CNone :: capture_run c' t
                   | CDone x => [CData x]
                   | CMissed => [CMiss]
                   end
  end.
Definition eqb_cobs (a b : cobs) : bool :=
  match a, b with
  | CNone, CNone => true
  | CData x, CData y => eqb_listZ x y
  | CMiss, CMiss => true
  | _, _ => false
  end.
Definition check_capture (lo n : Z) (sends : list (Z * list Z)) (got : list cobs) : bool :=
  eqb_list eqb_cobs (capture_run (new_capture (mkreq 0 lo n 0)) sends) got.

(* ---- empty_queue_cb=None (added for the coverage audit): the callback is never armed ---- *)
Definition xinit_nocb : xstate := {| tlb := 0; pending := []; prior := []; armed := false |}.
Definition check_run_nocb (B : Z) (k : kind) (fs : list feed) (got : list obs) : bool :=
  eqb_list eqb_obs (map (observe k) (map snd (trace B k xinit_nocb fs))) got.
