(* C05 proofs, part 3: what the abstract specification delivers, for every well-formed schedule.
   One send of the specification is characterised with list filters; the fate of each request
   (delivered once / never) is then computed by two small recursive functions on the schedule. *)
From Coq Require Import ZArith List Bool Lia ZifyBool.
From PV Require Import Extract.Model Extract.Spec Extract.ProofsCapture.
Import ListNotations.
Open Scope Z_scope.

(* ---------------------------------------------------------------- generic list facts *)
Lemma memz_In k l : memz k l = true <-> In k l.
Proof.
  unfold memz. rewrite existsb_exists. split.
  - intros (x & Hx & E). apply Z.eqb_eq in E. now subst.
  - intros H. exists k. split; [assumption|apply Z.eqb_refl].
Qed.
Lemma memz_false k l : memz k l = false <-> ~ In k l.
Proof. rewrite <- memz_In. destruct (memz k l); split; congruence. Qed.
Lemma memz_app k a b : memz k (a ++ b) = memz k a || memz k b.
Proof. unfold memz. apply existsb_app. Qed.

Lemma memz_cons k x l : memz k (x :: l) = (k =? x) || memz k l.
Proof. reflexivity. Qed.

Lemma memz_remove_first_neq k k' l : k' <> k -> memz k' (remove_first k l) = memz k' l.
Proof.
  intros Hne. induction l as [|x t IH]; [reflexivity|]. cbn [remove_first].
  destruct (x =? k) eqn:E.
  - apply Z.eqb_eq in E. subst x. rewrite memz_cons. destruct (k' =? k) eqn:E2; [lia|reflexivity].
  - rewrite !memz_cons. now rewrite IH.
Qed.

Lemma filter_comm {A} (p q : A -> bool) l : filter p (filter q l) = filter q (filter p l).
Proof.
  induction l as [|x t IH]; [reflexivity|]. cbn.
  destruct (q x) eqn:Eq, (p x) eqn:Ep; cbn; rewrite ?Eq, ?Ep, IH; reflexivity.
Qed.
Lemma filter_filter {A} (p q : A -> bool) l : filter p (filter q l) = filter (fun x => q x && p x) l.
Proof.
  induction l as [|x t IH]; [reflexivity|]. cbn.
  destruct (q x) eqn:Eq; cbn; [destruct (p x)|]; now rewrite IH.
Qed.
Lemma filter_all {A} (p : A -> bool) l : (forall x, In x l -> p x = true) -> filter p l = l.
Proof.
  induction l as [|x t IH]; intros H; [reflexivity|]. cbn.
  rewrite (H x (or_introl eq_refl)). f_equal. apply IH. intros y Hy. apply H. now right.
Qed.
Lemma filter_none {A} (p : A -> bool) l : (forall x, In x l -> p x = false) -> filter p l = [].
Proof.
  induction l as [|x t IH]; intros H; [reflexivity|]. cbn.
  rewrite (H x (or_introl eq_refl)). apply IH. intros y Hy. apply H. now right.
Qed.
Lemma Forall_filter {A} (P : A -> Prop) p l : Forall P l -> Forall P (filter p l).
Proof. induction 1; cbn; [constructor|]. destruct (p x); auto. Qed.

Lemma NoDup_app_disjoint_l {A} (a b : list A) x : NoDup (a ++ b) -> In x a -> ~ In x b.
Proof.
  induction a as [|y t IH]; cbn; intros Hnd Hin; [contradiction|].
  inversion Hnd as [|? ? Hn Hd]; subst. destruct Hin as [->|Hin]; [|auto].
  intros Hb. apply Hn. apply in_or_app. now right.
Qed.
Lemma NoDup_app_disjoint {A} (a b : list A) x : NoDup (a ++ b) -> In x a -> In x b -> False.
Proof. intros H Ha Hb. exact (NoDup_app_disjoint_l a b x H Ha Hb). Qed.
Lemma NoDup_app_remove_r {A} (a b : list A) : NoDup (a ++ b) -> NoDup a.
Proof.
  induction a as [|y t IH]; cbn; intros Hnd; [constructor|].
  inversion Hnd as [|? ? Hn Hd]; subst. constructor; [|auto].
  intros H. apply Hn. apply in_or_app. now left.
Qed.
Lemma NoDup_app_remove_l {A} (a b : list A) : NoDup (a ++ b) -> NoDup b.
Proof. induction a as [|y t IH]; cbn; intros Hnd; [assumption|]. inversion Hnd; auto. Qed.

Section Keys.
  Context {A : Type} (key : A -> Z).

  Lemma has_key_In k l : has_key key k l = true <-> In k (map key l).
  Proof.
    induction l as [|x t IH]; cbn; [split; [discriminate|tauto]|].
    rewrite orb_true_iff, IH, Z.eqb_eq. tauto.
  Qed.
  Lemma has_key_false k l : has_key key k l = false <-> ~ In k (map key l).
  Proof. rewrite <- has_key_In. destruct (has_key key k l); split; congruence. Qed.

  Lemma NoDup_map_filter p l X : NoDup (map key l ++ X) -> NoDup (map key (filter p l) ++ X).
  Proof.
    induction l as [|x t IH]; cbn; [auto|]. intros H. inversion H as [|? ? Hn Hd]; subst.
    destruct (p x); cbn; [|auto]. constructor; [|auto].
    intros Hin. apply Hn. apply in_app_or in Hin. apply in_or_app. destruct Hin as [Hin|Hin]; [|now right].
    left. apply in_map_iff in Hin. destruct Hin as (y & <- & Hy). apply in_map. now apply filter_In in Hy.
  Qed.

  Lemma NoDup_map_filter0 p l : NoDup (map key l) -> NoDup (map key (filter p l)).
  Proof.
    intros H. pose proof (NoDup_map_filter p l []) as H0. rewrite !app_nil_r in H0. auto.
  Qed.

  Lemma del_key_filter k l : NoDup (map key l) -> del_key key k l = filter (fun x => negb (key x =? k)) l.
  Proof.
    induction l as [|x t IH]; cbn; [reflexivity|]. intros H. inversion H as [|? ? Hn Hd]; subst.
    destruct (key x =? k) eqn:E; cbn.
    - apply Z.eqb_eq in E. symmetry. apply filter_all. intros y Hy.
      destruct (key y =? k) eqn:E2; [|reflexivity]. apply Z.eqb_eq in E2.
      exfalso. apply Hn. rewrite E, <- E2. now apply in_map.
    - f_equal. auto.
  Qed.

  Lemma drain_fst rems : forall l skip, NoDup (map key l) ->
    fst (drain key rems l skip) = filter (fun x => negb (memz (key x) rems)) l.
  Proof.
    induction rems as [|k t IH]; intros l skip Hnd; cbn [drain].
    - cbn. symmetry. apply filter_all. reflexivity.
    - destruct (has_key key k l) eqn:E.
      + assert (Hnd' : NoDup (map key (del_key key k l))).
        { rewrite del_key_filter by assumption. now apply NoDup_map_filter0. }
        rewrite IH by assumption. rewrite del_key_filter by assumption.
        rewrite filter_filter. apply filter_ext. intros x. cbn.
        now rewrite negb_orb.
      + rewrite IH by assumption. apply filter_ext_in. intros x Hx. cbn.
        apply has_key_false in E. destruct (key x =? k) eqn:E2.
        * apply Z.eqb_eq in E2. exfalso. apply E. rewrite <- E2. now apply in_map.
        * reflexivity.
  Qed.

  Lemma has_key_del_key k k' l : has_key key k l = false -> has_key key k (del_key key k' l) = false.
  Proof.
    induction l as [|x t IH]; cbn; [auto|]. intros H. apply orb_false_iff in H. destruct H as [H1 H2].
    destruct (key x =? k'); cbn; [assumption|]. now rewrite H1, IH.
  Qed.

  Lemma drain_snd k rems : forall l skip, has_key key k l = false ->
    memz k (snd (drain key rems l skip)) = memz k skip || memz k rems.
  Proof.
    induction rems as [|k0 t IH]; intros l skip Hk; cbn [drain].
    - cbn. now rewrite orb_false_r.
    - destruct (has_key key k0 l) eqn:E.
      + rewrite IH by now apply has_key_del_key. cbn. f_equal.
        destruct (k =? k0) eqn:E2; [|reflexivity]. apply Z.eqb_eq in E2. subst. congruence.
      + rewrite IH by assumption. rewrite memz_app. cbn. now rewrite orb_false_r, orb_assoc.
  Qed.
End Keys.

(* ---------------------------------------------------------------- the pieces of one send *)
Lemma sready_char S T W :
  sready S T W = (filter (nready T) W, map (s_item S) (filter (ready T) W)).
Proof.
  induction W as [|r t IH]; [reflexivity|]. cbn [sready]. rewrite IH.
  unfold nready, ready. cbn. destruct (r_lo r + r_n r <=? T); reflexivity.
Qed.

Lemma sintake_char S T P : forall reqs W skip,
  NoDup (map r_key W ++ map r_key reqs) -> Forall (fun r => P <= r_lo r) reqs ->
  sintake S T P reqs W skip =
  Some (W ++ filter (nready T) (filter (notrem skip) reqs),
        map (s_item S) (filter (ready T) (filter (notrem skip) reqs))).
Proof.
  induction reqs as [|r t IH]; intros W skip Hnd Hvis.
  - cbn. now rewrite app_nil_r.
  - inversion Hvis as [|? ? Hr Ht]; subst. cbn [sintake map] in *.
    assert (Hnd' : NoDup (map r_key W ++ map r_key t)) by (eapply NoDup_remove_1; eauto).
    assert (Hrt : ~ In (r_key r) (map r_key t)).
    { apply NoDup_remove_2 in Hnd. intros H. apply Hnd. apply in_or_app. now right. }
    assert (HrW : ~ In (r_key r) (map r_key W)).
    { apply NoDup_remove_2 in Hnd. intros H. apply Hnd. apply in_or_app. now left. }
    cbn [filter]. change (notrem skip r) with (negb (memz (r_key r) skip)).
    destruct (memz (r_key r) skip) eqn:E; cbn [negb].
    + rewrite IH by assumption.
      assert (Hf : filter (notrem (remove_first (r_key r) skip)) t = filter (notrem skip) t).
      { apply filter_ext_in. intros x Hx. unfold notrem. rewrite memz_remove_first_neq; [reflexivity|].
        intros Heq. apply Hrt. rewrite <- Heq. now apply in_map. }
      now rewrite Hf.
    + destruct (r_lo r <? P) eqn:E1; [lia|].
      cbn [filter]. change (nready T r) with (negb (r_lo r + r_n r <=? T)).
      change (ready T r) with (r_lo r + r_n r <=? T).
      destruct (r_lo r + r_n r <=? T) eqn:E2; cbn [negb].
      * rewrite IH by assumption. reflexivity.
      * assert (Hk : has_key r_key (r_key r) W = false) by now apply has_key_false.
        rewrite Hk. rewrite IH.
        -- rewrite <- app_assoc. reflexivity.
        -- rewrite map_app, <- app_assoc. exact Hnd.
        -- assumption.
Qed.

Lemma stack_ok_items k S X : Forall (fun r => 0 <= r_lo r /\ 0 <= r_n r /\ r_lo r + r_n r <= zlen S) X ->
  uniform_n X = true -> stack_ok k (map (s_item S) X) = true.
Proof.
  intros HX Hu. unfold stack_ok.
  assert (Hm : existsb i_missed (map (s_item S) X) = false).
  { clear Hu. induction X as [|r t IH]; [reflexivity|]. cbn. apply IH. now inversion HX. }
  rewrite Hm. cbn [negb]. rewrite orb_true_r, orb_true_l, andb_true_r.
  assert (Hl : forall r, In r X -> zlen (i_data (s_item S r)) = r_n r).
  { intros r Hr. rewrite Forall_forall in HX. destruct (HX r Hr) as (H1 & H2 & H3).
    cbn. rewrite sl_zlen; lia. }
  destruct X as [|r t]; [reflexivity|]. cbn [map uniform_len]. cbn [uniform_n] in Hu.
  apply forallb_forall. intros it Hit. apply in_map_iff in Hit. destruct Hit as (r' & <- & Hr').
  rewrite (Hl r' (or_intror Hr')), (Hl r (or_introl eq_refl)).
  rewrite forallb_forall in Hu. exact (Hu r' Hr').
Qed.

Lemma Forall_sprune {P : Z * Z -> Prop} B T kept : Forall P kept -> Forall P (sprune B T kept).
Proof.
  induction 1 as [|[a m] t Hx Ht IH]; cbn; [constructor|].
  destruct (a + m <? T - B); [assumption|constructor; assumption].
Qed.

(* ---------------------------------------------------------------- invariant of well-formed runs *)
Record GW (B : Z) (s : sstate) (fs : list feed) : Prop := {
  G_lens : lengths_ok (s_T s) (s_wait s) fs = true;
  G_T : 0 <= s_T s;
  G_len : zlen (s_stream s) = s_T s;
  G_kept : Forall (fun p => 0 <= fst p) (s_kept s);
  G_n : Forall (fun r => 0 <= r_n r) (s_wait s ++ all_reqs fs);
  G_nodup : NoDup (map r_key (s_wait s) ++ req_keys fs);
  G_vis : visible_from B (s_T s) (s_kept s) fs = true;
  G_wait : Forall (fun r => 0 <= r_lo r /\ s_T s < r_lo r + r_n r) (s_wait s) }.

Definition live (s : sstate) (f : feed) : list request := filter (notrem (f_rems f)) (s_wait s ++ f_reqs f).

Lemma req_keys_cons f rest : req_keys (f :: rest) = map r_key (f_reqs f) ++ req_keys rest.
Proof. unfold req_keys, all_reqs. cbn [flat_map]. now rewrite map_app. Qed.

Lemma spec_feed_char B k s f rest : GW B s (f :: rest) ->
  let T1 := s_T s + zlen (f_chunk f) in
  let S1 := s_stream s ++ f_chunk f in
  exists s', spec_feed B k s f =
             (s', FOut (map (s_item S1) (filter (ready T1) (live s f)))
                       (f_complete f && is_nil (s_wait s') && s_armed s)) /\
    s_wait s' = filter (nready T1) (live s f) /\ s_stream s' = S1 /\ s_T s' = T1 /\
    Forall (fun r => 0 <= r_lo r /\ 0 <= r_n r) (s_wait s ++ f_reqs f) /\
    NoDup (map r_key (s_wait s ++ f_reqs f)) /\
    GW B s' rest.
Proof.
  intros [Hlens HT Hlen Hkept Hn Hnd Hvis Hwait]. intros T1 S1.
  pose proof (zlen_nonneg (f_chunk f)) as Hm.
  rewrite req_keys_cons in Hnd.
  unfold all_reqs in Hn. cbn [flat_map] in Hn. fold (all_reqs rest) in Hn.
  cbn [visible_from] in Hvis. apply andb_true_iff in Hvis. destruct Hvis as [Hv1 Hv2].
  cbn [lengths_ok] in Hlens. apply andb_true_iff in Hlens. destruct Hlens as [Hu1 Hu2].
  set (kept1 := s_kept s ++ [(s_T s, zlen (f_chunk f))]) in *.
  set (P := lb_start (s_T s) kept1) in *.
  assert (HP : 0 <= P).
  { unfold P, kept1. destruct (s_kept s) as [|[a0 m0] t0]; cbn; [assumption|].
    inversion Hkept; subst. assumption. }
  assert (Hreq_lo : Forall (fun r => P <= r_lo r) (f_reqs f)).
  { apply Forall_forall. intros r Hr. rewrite forallb_forall in Hv1. specialize (Hv1 r Hr). lia. }
  assert (HndW : NoDup (map r_key (s_wait s))) by (eapply NoDup_app_remove_r; eauto).
  assert (HndL : NoDup (map r_key (s_wait s ++ f_reqs f))).
  { rewrite map_app. rewrite app_assoc in Hnd. eapply NoDup_app_remove_r; eauto. }
  assert (HL : Forall (fun r => 0 <= r_lo r /\ 0 <= r_n r) (s_wait s ++ f_reqs f)).
  { apply Forall_forall. intros r Hr. rewrite Forall_forall in Hn, Hwait, Hreq_lo. split.
    - apply in_app_or in Hr. destruct Hr as [Hr|Hr]; [apply Hwait in Hr; tauto|apply Hreq_lo in Hr; lia].
    - apply Hn. apply in_app_or in Hr. apply in_or_app. destruct Hr; [now left|right; apply in_or_app; now left]. }
  unfold spec_feed. fold kept1 S1 T1 P.
  pose proof (drain_fst r_key (f_rems f) (s_wait s) [] HndW) as Hd1.
  assert (Hd2 : forall r, In r (f_reqs f) ->
                memz (r_key r) (snd (drain r_key (f_rems f) (s_wait s) [])) = memz (r_key r) (f_rems f)).
  { intros r Hr. rewrite drain_snd; [reflexivity|]. apply has_key_false. intros Hin.
    rewrite map_app in HndL. eapply NoDup_app_disjoint; eauto. now apply in_map. }
  destruct (drain r_key (f_rems f) (s_wait s) []) as [W1 skip]. cbn [fst snd] in *. subst W1.
  rewrite sready_char.
  rewrite sintake_char; [|
    apply (NoDup_map_filter r_key); apply (NoDup_map_filter r_key); now rewrite <- map_app |
    assumption].
  assert (Hsk : filter (notrem skip) (f_reqs f) = filter (notrem (f_rems f)) (f_reqs f)).
  { apply filter_ext_in. intros r Hr. unfold notrem. now rewrite Hd2. }
  rewrite Hsk.
  fold (notrem (f_rems f)).
  rewrite <- map_app, <- !filter_app.
  change (filter (notrem (f_rems f)) (s_wait s ++ f_reqs f)) with (live s f).
  assert (Hlive : Forall (fun r => 0 <= r_lo r /\ 0 <= r_n r) (live s f)) by now apply Forall_filter.
  rewrite (stack_ok_items k S1); [| |exact Hu1].
  2:{ apply Forall_forall. intros r Hr. apply filter_In in Hr. destruct Hr as [Hr1 Hr2].
      rewrite Forall_forall in Hlive. destruct (Hlive r Hr1). unfold ready in Hr2.
      unfold S1. rewrite zlen_app, Hlen. fold T1. lia. }
  change (negb true) with false. cbv iota.
  match goal with |- exists s', (?x, _) = _ /\ _ => exists x end.
  split; [reflexivity|]. cbn [s_wait s_stream s_T s_kept s_armed].
  split; [reflexivity|]. split; [reflexivity|]. split; [reflexivity|].
  split; [exact HL|]. split; [exact HndL|].
  constructor; cbn [s_wait s_stream s_T s_kept s_armed]; auto.
  - unfold T1. lia.
  - unfold S1, T1. rewrite zlen_app. lia.
  - apply Forall_sprune. apply Forall_app. split; [assumption|]. constructor; [cbn; lia|constructor].
  - apply Forall_app. split.
    + apply Forall_filter. apply Forall_impl with (2 := Hlive). tauto.
    + apply Forall_app in Hn. destruct Hn as [_ Hn]. apply Forall_app in Hn. tauto.
  - apply (NoDup_map_filter r_key). apply (NoDup_map_filter r_key). rewrite map_app, <- app_assoc. exact Hnd.
  - apply Forall_forall. intros r Hr. apply filter_In in Hr. destruct Hr as [Hr1 Hr2].
    rewrite Forall_forall in Hlive. destruct (Hlive r Hr1). unfold nready, ready in Hr2. fold T1. lia.
Qed.

(* ---------------------------------------------------------------- deliveries of a run *)
Definition sdeliv (B : Z) (k : kind) (s : sstate) (fs : list feed) : list item :=
  delivered (map snd (spec_trace B k s fs)).

Lemma sdeliv_step B k s f rest s' b cb : spec_feed B k s f = (s', FOut b cb) ->
  sdeliv B k s (f :: rest) = b ++ sdeliv B k s' rest.
Proof. intros E. unfold sdeliv. cbn [spec_trace]. rewrite E. reflexivity. Qed.

Lemma s_item_app S c r : 0 <= r_lo r -> 0 <= r_n r -> r_lo r + r_n r <= zlen S ->
  s_item (S ++ c) r = s_item S r.
Proof. intros. unfold s_item. f_equal. now apply sl_app_l. Qed.

Lemma stream_of_cons f rest : stream_of (f :: rest) = f_chunk f ++ stream_of rest.
Proof. reflexivity. Qed.

(* every delivered epoch is the exact slice of the stream asked for by some request, with that
   request's key and metadata identity *)
Lemma sdeliv_sound B k : forall fs s, GW B s fs ->
  forall it, In it (sdeliv B k s fs) ->
  exists r, In r (s_wait s ++ all_reqs fs) /\ it = s_item (s_stream s ++ stream_of fs) r.
Proof.
  induction fs as [|f rest IH]; intros s HG it Hit; [contradiction|].
  destruct (spec_feed_char B k s f rest HG) as (s' & E & HW & HS & HT & HL & HndL & HG').
  rewrite (sdeliv_step _ _ _ _ _ _ _ _ E) in Hit. apply in_app_or in Hit.
  rewrite stream_of_cons, app_assoc.
  unfold all_reqs. cbn [flat_map]. fold (all_reqs rest).
  destruct Hit as [Hit|Hit].
  - apply in_map_iff in Hit. destruct Hit as (r & <- & Hr).
    apply filter_In in Hr. destruct Hr as [Hr Hrd]. apply filter_In in Hr. destruct Hr as [Hr _].
    exists r. split; [rewrite app_assoc; apply in_or_app; now left|].
    rewrite Forall_forall in HL. destruct (HL r Hr) as [H1 H2].
    symmetry. apply s_item_app; [lia|destruct HG; lia|].
    unfold ready in Hrd. rewrite zlen_app, (G_len _ _ _ HG). lia.
  - destruct (IH s' HG' it Hit) as (r & Hr & ->). rewrite HS. exists r. split; [|reflexivity].
    rewrite HW in Hr. rewrite app_assoc. apply in_app_or in Hr. apply in_or_app.
    destruct Hr as [Hr|Hr]; [left|now right].
    apply filter_In in Hr. destruct Hr as [Hr _]. now apply filter_In in Hr.
Qed.

Lemma count_key_app k a b : count_key k (a ++ b) = count_key k a + count_key k b.
Proof. unfold count_key. now rewrite filter_app, zlen_app. Qed.

Lemma count_key_zero k l : (forall it, In it l -> i_key it <> k) -> count_key k l = 0.
Proof.
  intros H. unfold count_key. rewrite filter_none; [reflexivity|].
  intros it Hit. specialize (H it Hit). lia.
Qed.

Lemma sdeliv_unknown B k fs s key : GW B s fs ->
  ~ In key (map r_key (s_wait s) ++ req_keys fs) -> count_key key (sdeliv B k s fs) = 0.
Proof.
  intros HG Hk. apply count_key_zero. intros it Hit Heq.
  destruct (sdeliv_sound B k fs s HG it Hit) as (r & Hr & ->). cbn in Heq. apply Hk.
  unfold req_keys. rewrite <- map_app, <- Heq. now apply in_map.
Qed.

Lemma count_key_items key S X :
  count_key key (map (s_item S) X) = zlen (filter (fun r => r_key r =? key) X).
Proof.
  unfold count_key. induction X as [|r t IH]; [reflexivity|]. cbn [map filter i_key s_item].
  destruct (r_key r =? key); [rewrite !zlen_cons|]; lia.
Qed.

Lemma filter_key_unique L r : NoDup (map r_key L) -> In r L ->
  filter (fun r' => r_key r' =? r_key r) L = [r].
Proof.
  induction L as [|x t IH]; intros Hnd Hin; [contradiction|]. cbn in *.
  inversion Hnd as [|? ? Hn Hd]; subst. destruct Hin as [->|Hin].
  - rewrite Z.eqb_refl. f_equal. apply filter_none. intros y Hy.
    destruct (r_key y =? r_key r) eqn:E; [|reflexivity]. apply Z.eqb_eq in E.
    exfalso. apply Hn. rewrite <- E. now apply in_map.
  - destruct (r_key x =? r_key r) eqn:E.
    + apply Z.eqb_eq in E. exfalso. apply Hn. rewrite E. now apply in_map.
    + auto.
Qed.

Lemma count_filter_unique S L p r : NoDup (map r_key L) -> In r L ->
  count_key (r_key r) (map (s_item S) (filter p L)) = Z.b2z (p r).
Proof.
  intros Hnd Hin. rewrite count_key_items, filter_comm, (filter_key_unique L r Hnd Hin).
  cbn. destruct (p r); reflexivity.
Qed.

(* ---------------------------------------------------------------- the fate of a request *)
(* a request that is waiting (or becomes visible) before the first send of fs, T samples received *)
Fixpoint fate_w (T : Z) (fs : list feed) (r : request) : bool :=
  match fs with
  | [] => false
  | f :: rest =>
    if memz (r_key r) (f_rems f) then false
    else if r_lo r + r_n r <=? T + zlen (f_chunk f) then true
    else fate_w (T + zlen (f_chunk f)) rest r
  end.
(* a request that becomes visible at some send of fs *)
Fixpoint fate_f (T : Z) (fs : list feed) (r : request) : bool :=
  match fs with
  | [] => false
  | f :: rest =>
    if has_key r_key (r_key r) (f_reqs f) then fate_w T fs r
    else fate_f (T + zlen (f_chunk f)) rest r
  end.

Lemma step_in_live B k s f rest r : GW B s (f :: rest) -> In r (s_wait s ++ f_reqs f) ->
  forall s' b cb, spec_feed B k s f = (s', FOut b cb) ->
  let T1 := s_T s + zlen (f_chunk f) in
  count_key (r_key r) b = Z.b2z (notrem (f_rems f) r && ready T1 r) /\
  (notrem (f_rems f) r && ready T1 r = true -> In (s_item (s_stream s ++ f_chunk f) r) b) /\
  (notrem (f_rems f) r && nready T1 r = true -> In r (s_wait s')) /\
  (notrem (f_rems f) r && nready T1 r = false -> ~ In (r_key r) (map r_key (s_wait s') ++ req_keys rest)).
Proof.
  intros HG Hr s' b cb E T1.
  destruct (spec_feed_char B k s f rest HG) as (s0 & E0 & HW & HS & HT & HL & HndL & HG').
  rewrite E0 in E. inversion E; subst s0 b cb. clear E.
  unfold live. fold T1. rewrite HW. unfold live.
  rewrite !filter_filter.
  split; [|split; [|split]].
  - now rewrite count_filter_unique.
  - intros Hp. apply in_map. apply filter_In. split; assumption.
  - intros Hp. apply filter_In. split; assumption.
  - intros Hp Hin. apply in_app_or in Hin. destruct Hin as [Hin|Hin].
    + apply in_map_iff in Hin. destruct Hin as (r' & Hk & Hr').
      apply filter_In in Hr'. destruct Hr' as [Hr' Hp'].
      assert (r' = r).
      { assert (H1 : In r' (filter (fun x => r_key x =? r_key r) (s_wait s ++ f_reqs f))).
        { apply filter_In. split; [assumption|]. now apply Z.eqb_eq. }
        rewrite (filter_key_unique _ r HndL Hr) in H1. destruct H1 as [H1|[]]. now subst. }
      subst r'. unfold T1 in *. congruence.
    + destruct HG as [_ _ _ _ _ Hnd _ _]. rewrite req_keys_cons, app_assoc, <- map_app in Hnd.
      eapply NoDup_app_disjoint; eauto. now apply in_map.
Qed.

Theorem count_fate B k : forall fs s, GW B s fs -> forall r,
  (In r (s_wait s) ->
     count_key (r_key r) (sdeliv B k s fs) = Z.b2z (fate_w (s_T s) fs r) /\
     (fate_w (s_T s) fs r = true -> In (s_item (s_stream s ++ stream_of fs) r) (sdeliv B k s fs))) /\
  (In r (all_reqs fs) ->
     count_key (r_key r) (sdeliv B k s fs) = Z.b2z (fate_f (s_T s) fs r) /\
     (fate_f (s_T s) fs r = true -> In (s_item (s_stream s ++ stream_of fs) r) (sdeliv B k s fs))).
Proof.
  induction fs as [|f rest IH]; intros s HG r.
  - split; [|intros []]. intros _. cbn. split; [reflexivity|discriminate].
  - destruct (spec_feed_char B k s f rest HG) as (s' & E & HW & HS & HT & HL & HndL & HG').
    assert (Hcase : In r (s_wait s ++ f_reqs f) ->
      count_key (r_key r) (sdeliv B k s (f :: rest)) = Z.b2z (fate_w (s_T s) (f :: rest) r) /\
      (fate_w (s_T s) (f :: rest) r = true ->
       In (s_item (s_stream s ++ stream_of (f :: rest)) r) (sdeliv B k s (f :: rest)))).
    { intros Hr.
      destruct (step_in_live B k s f rest r HG Hr _ _ _ E) as (Hc & Hin & Hw & Hgone).
      rewrite (sdeliv_step _ _ _ _ _ _ _ _ E), count_key_app, Hc.
      rewrite stream_of_cons, app_assoc, <- HS.
      cbn [fate_w]. unfold notrem, nready, ready in *.
      destruct (memz (r_key r) (f_rems f)) eqn:Erem; cbn [negb andb] in *.
      { rewrite (sdeliv_unknown B k rest s' _ HG' (Hgone eq_refl)). split; [reflexivity|discriminate]. }
      destruct (r_lo r + r_n r <=? s_T s + zlen (f_chunk f)) eqn:Erd; cbn [negb] in *.
      { rewrite (sdeliv_unknown B k rest s' _ HG' (Hgone eq_refl)). split; [reflexivity|].
        intros _. apply in_or_app. left.
        rewrite Forall_forall in HL. destruct (HL r Hr) as [H1 H2].
        rewrite HS, s_item_app; [now apply Hin|lia|destruct HG; lia|].
        rewrite zlen_app, (G_len _ _ _ HG). lia. }
      destruct (IH s' HG' r) as [IHw _]. destruct (IHw (Hw eq_refl)) as [IH1 IH2].
      rewrite HT in IH1, IH2. rewrite IH1. split; [reflexivity|].
      intros Hf. apply in_or_app. right. now apply IH2. }
    split.
    + intros Hr. apply Hcase. apply in_or_app. now left.
    + intros Hr. cbn [fate_f].
      destruct (has_key r_key (r_key r) (f_reqs f)) eqn:Ek.
      * (* the key is among this send's requests: by uniqueness it is r itself *)
        apply has_key_In in Ek. apply in_map_iff in Ek. destruct Ek as (r' & Hk & Hr').
        assert (r' = r).
        { destruct HG as [_ _ _ _ _ Hnd _ _].
          apply NoDup_app_remove_l in Hnd. unfold req_keys in Hnd.
          assert (H1 : In r' (all_reqs (f :: rest))).
          { unfold all_reqs. cbn [flat_map]. apply in_or_app. now left. }
          assert (H2 : In r' (filter (fun x => r_key x =? r_key r) (all_reqs (f :: rest)))).
          { apply filter_In. split; [assumption|]. now apply Z.eqb_eq. }
          rewrite (filter_key_unique _ r Hnd Hr) in H2. destruct H2 as [H2|[]]. now subst. }
        subst r'. apply Hcase. apply in_or_app. now right.
      * apply has_key_false in Ek.
        assert (Hrest : In r (all_reqs rest)).
        { unfold all_reqs in Hr. cbn [flat_map] in Hr. apply in_app_or in Hr. destruct Hr as [Hr|Hr]; [|assumption].
          exfalso. apply Ek. now apply in_map. }
        assert (HkW : ~ In (r_key r) (map r_key (s_wait s))).
        { destruct HG as [_ _ _ _ _ Hnd _ _]. intros Hin.
          eapply NoDup_app_disjoint_l; eauto. unfold req_keys. apply in_map.
          unfold all_reqs. cbn [flat_map]. apply in_or_app. now right. }
        rewrite (sdeliv_step _ _ _ _ _ _ _ _ E), count_key_app.
        rewrite count_key_items, filter_none.
        2:{ intros x Hx. apply filter_In in Hx. destruct Hx as [Hx _]. unfold live in Hx.
            apply filter_In in Hx. destruct Hx as [Hx _].
            destruct (r_key x =? r_key r) eqn:E2; [|reflexivity]. apply Z.eqb_eq in E2. exfalso.
            apply in_app_or in Hx. destruct Hx as [Hx|Hx].
            - apply HkW. rewrite <- E2. now apply in_map.
            - apply Ek. rewrite <- E2. now apply in_map. }
        destruct (IH s' HG' r) as [_ IHf]. destruct (IHf Hrest) as [IH1 IH2].
        rewrite HT in IH1, IH2. rewrite IH1. split; [reflexivity|].
        intros Hf. apply in_or_app. right.
        rewrite stream_of_cons, app_assoc, <- HS. now apply IH2.
Qed.

(* no send of a well-formed schedule raises, and every send is answered *)
Lemma spec_no_error B k : forall fs s, GW B s fs ->
  Forall (fun o => is_err o = false) (map snd (spec_trace B k s fs)) /\
  length (spec_trace B k s fs) = length fs.
Proof.
  induction fs as [|f rest IH]; intros s HG; [split; [constructor|reflexivity]|].
  destruct (spec_feed_char B k s f rest HG) as (s' & E & _ & _ & _ & _ & _ & HG').
  cbn [spec_trace]. rewrite E. cbn [map snd length]. destruct (IH s' HG') as [IH1 IH2].
  split; [constructor; [reflexivity|assumption]|now rewrite IH2].
Qed.

(* ---------------------------------------------------------------- fates in terms of the schedule *)
Lemma seen_cons f rest j : seen (f :: rest) (S j) = zlen (f_chunk f) + seen rest j.
Proof. unfold seen. cbn [firstn]. rewrite stream_of_cons, zlen_app. reflexivity. Qed.
Lemma seen_0 fs : seen fs 0 = 0.
Proof. reflexivity. Qed.

Lemma removed_at_0 f rest k : removed_at (f :: rest) 0 k <-> In k (f_rems f).
Proof.
  unfold removed_at. cbn. split.
  - intros (f' & E & H). inversion E; now subst.
  - intros H. eauto.
Qed.
Lemma removed_at_S f rest j k : removed_at (f :: rest) (S j) k <-> removed_at rest j k.
Proof. unfold removed_at. cbn. tauto. Qed.
Lemma arrives_0 f rest r : arrives (f :: rest) 0 r <-> In r (f_reqs f).
Proof.
  unfold arrives. cbn. split.
  - intros (f' & E & H). inversion E; now subst.
  - intros H. eauto.
Qed.
Lemma arrives_S f rest a r : arrives (f :: rest) (S a) r <-> arrives rest a r.
Proof. unfold arrives. cbn. tauto. Qed.

Lemma arrives_in fs a r : arrives fs a r -> In r (all_reqs fs).
Proof.
  intros (f & E & H). unfold all_reqs. apply in_flat_map. exists f. split; [|assumption].
  eapply nth_error_In; eauto.
Qed.

(* waiting/just visible, never removed before its last sample is in: delivered *)
Lemma fate_w_true r : forall rest f T,
  (forall j, removed_at (f :: rest) j (r_key r) -> (0 < j)%nat /\ r_lo r + r_n r <= T + seen (f :: rest) j) ->
  r_lo r + r_n r <= T + zlen (stream_of (f :: rest)) ->
  fate_w T (f :: rest) r = true.
Proof.
  induction rest as [|f' rest IH]; intros f T Hrem Htot; cbn [fate_w].
  - destruct (memz (r_key r) (f_rems f)) eqn:E.
    { apply memz_In in E. apply (proj2 (removed_at_0 f [] (r_key r))) in E. apply Hrem in E. lia. }
    rewrite stream_of_cons in Htot. cbn in Htot. rewrite app_nil_r in Htot.
    destruct (r_lo r + r_n r <=? T + zlen (f_chunk f)) eqn:E2; [reflexivity|lia].
  - destruct (memz (r_key r) (f_rems f)) eqn:E.
    { apply memz_In in E. apply (proj2 (removed_at_0 f (f' :: rest) (r_key r))) in E. apply Hrem in E. lia. }
    destruct (r_lo r + r_n r <=? T + zlen (f_chunk f)) eqn:E2; [reflexivity|].
    apply IH.
    + intros j Hj. apply (proj2 (removed_at_S f (f' :: rest) j (r_key r))) in Hj. apply Hrem in Hj.
      rewrite seen_cons in Hj. destruct j; [rewrite seen_0 in Hj; lia|lia].
    + rewrite stream_of_cons, zlen_app in Htot. lia.
Qed.

Lemma fate_f_true r : forall fs T a, NoDup (req_keys fs) -> arrives fs a r ->
  (forall j, removed_at fs j (r_key r) -> (a < j)%nat /\ r_lo r + r_n r <= T + seen fs j) ->
  r_lo r + r_n r <= T + zlen (stream_of fs) ->
  fate_f T fs r = true.
Proof.
  induction fs as [|f rest IH]; intros T a Hnd Harr Hrem Htot.
  - destruct Harr as (f & E & _). destruct a; discriminate.
  - cbn [fate_f]. rewrite req_keys_cons in Hnd. destruct a as [|a].
    + apply (proj1 (arrives_0 f rest r)) in Harr.
      replace (has_key r_key (r_key r) (f_reqs f)) with true
        by (symmetry; apply has_key_In; now apply in_map).
      apply fate_w_true; [|assumption]. intros j Hj. apply Hrem in Hj. lia.
    + apply (proj1 (arrives_S f rest a r)) in Harr.
      replace (has_key r_key (r_key r) (f_reqs f)) with false.
      2:{ symmetry. apply has_key_false. intros Hin. eapply NoDup_app_disjoint_l; eauto.
          unfold req_keys. apply in_map. eapply arrives_in; eauto. }
      apply (IH _ a).
      * eapply NoDup_app_remove_l; eauto.
      * assumption.
      * intros j Hj. apply (proj2 (removed_at_S f rest j (r_key r))) in Hj. apply Hrem in Hj.
        rewrite seen_cons in Hj. lia.
      * rewrite stream_of_cons, zlen_app in Htot. lia.
Qed.

(* removed at send j while its last sample had not arrived before that send (or at the very send
   it became visible): never delivered *)
Lemma fate_w_false r : forall fs T j, removed_at fs j (r_key r) ->
  (j = 0%nat \/ T + seen fs j < r_lo r + r_n r) -> fate_w T fs r = false.
Proof.
  induction fs as [|f rest IH]; intros T j Hrem Hj; [reflexivity|]. cbn [fate_w].
  destruct (memz (r_key r) (f_rems f)) eqn:E; [reflexivity|].
  apply memz_false in E. destruct j as [|j].
  { apply (proj1 (removed_at_0 f rest (r_key r))) in Hrem. contradiction. }
  apply (proj1 (removed_at_S f rest j (r_key r))) in Hrem. rewrite seen_cons in Hj.
  pose proof (zlen_nonneg (stream_of (firstn j rest))) as Hs. fold (seen rest j) in Hs.
  destruct (r_lo r + r_n r <=? T + zlen (f_chunk f)) eqn:E2; [lia|].
  apply (IH _ j); [assumption|]. right. lia.
Qed.

Lemma rems_ok_later f rest k : rems_ok (f :: rest) = true -> In k (f_rems f) -> ~ In k (req_keys rest).
Proof.
  cbn [rems_ok]. intros H Hk. apply andb_true_iff in H. destruct H as [H _].
  rewrite forallb_forall in H. specialize (H k Hk). apply negb_true_iff in H. now apply memz_false.
Qed.

Lemma fate_f_false r : forall fs T a j, NoDup (req_keys fs) -> rems_ok fs = true ->
  arrives fs a r -> removed_at fs j (r_key r) ->
  ((j <= a)%nat \/ T + seen fs j < r_lo r + r_n r) -> fate_f T fs r = false.
Proof.
  induction fs as [|f rest IH]; intros T a j Hnd Hok Harr Hrem Hj; [reflexivity|].
  cbn [fate_f]. rewrite req_keys_cons in Hnd. destruct a as [|a].
  - apply (proj1 (arrives_0 f rest r)) in Harr.
    replace (has_key r_key (r_key r) (f_reqs f)) with true
      by (symmetry; apply has_key_In; now apply in_map).
    apply (fate_w_false r _ T j); [assumption|]. destruct Hj; [left; lia|now right].
  - apply (proj1 (arrives_S f rest a r)) in Harr.
    replace (has_key r_key (r_key r) (f_reqs f)) with false.
    2:{ symmetry. apply has_key_false. intros Hin. eapply NoDup_app_disjoint_l; eauto.
        unfold req_keys. apply in_map. eapply arrives_in; eauto. }
    destruct j as [|j].
    { (* a removal notice ahead of its request is excluded by rems_ok *)
      apply (proj1 (removed_at_0 f rest (r_key r))) in Hrem. exfalso. eapply rems_ok_later; eauto.
      unfold req_keys. apply in_map. eapply arrives_in; eauto. }
    apply (proj1 (removed_at_S f rest j (r_key r))) in Hrem. rewrite seen_cons in Hj.
    apply (IH _ a j); auto.
    + eapply NoDup_app_remove_l; eauto.
    + cbn [rems_ok] in Hok. apply andb_true_iff in Hok. tauto.
    + destruct Hj; [left; lia|right; lia].
Qed.

(* ---------------------------------------------------------------- wf_sched gives the invariant *)
Lemma nodupz_NoDup l : nodupz l = true -> NoDup l.
Proof.
  induction l as [|x t IH]; cbn; [constructor|]. intros H. apply andb_true_iff in H. destruct H as [H1 H2].
  constructor; [|auto]. apply negb_true_iff in H1. now apply memz_false.
Qed.

Lemma wf_GW B fs : wf_sched B fs = true -> GW B sinit fs.
Proof.
  unfold wf_sched. intros H. repeat (apply andb_true_iff in H; destruct H as [H ?]).
  constructor; cbn; try lia; try constructor; auto.
  - apply Forall_forall. intros r Hr. rewrite forallb_forall in H4. specialize (H4 r Hr). lia.
  - now apply nodupz_NoDup.
Qed.

Lemma wf_parts B fs : wf_sched B fs = true ->
  0 <= B /\ Forall (fun r => 0 <= r_n r) (all_reqs fs) /\ NoDup (req_keys fs) /\ rems_ok fs = true.
Proof.
  unfold wf_sched. intros H. repeat (apply andb_true_iff in H; destruct H as [H ?]).
  repeat split; try lia; auto.
  - apply Forall_forall. intros r Hr. rewrite forallb_forall in H4. specialize (H4 r Hr). lia.
  - now apply nodupz_NoDup.
Qed.

(* one epoch length for the whole schedule (epoch_size given) is the common special case *)
Lemma uniform_n_same n0 X : Forall (fun r => r_n r = n0) X -> uniform_n X = true.
Proof.
  intros H. destruct X as [|x t]; [reflexivity|]. cbn. inversion H; subst.
  apply forallb_forall. intros y Hy. rewrite Forall_forall in H3. rewrite (H3 y Hy). apply Z.eqb_refl.
Qed.

Lemma lengths_ok_same n0 : forall fs T W, Forall (fun r => r_n r = n0) (W ++ all_reqs fs) ->
  lengths_ok T W fs = true.
Proof.
  induction fs as [|f rest IH]; intros T W H; [reflexivity|]. cbn [lengths_ok].
  unfold all_reqs in H. cbn [flat_map] in H. fold (all_reqs rest) in H. rewrite app_assoc in H.
  apply Forall_app in H. destruct H as [H1 H2].
  apply andb_true_iff. split.
  - apply (uniform_n_same n0). now do 2 apply Forall_filter.
  - apply IH. apply Forall_app. split; [now do 2 apply Forall_filter|assumption].
Qed.

(* ---------------------------------------------------------------- the configured look-back suffices *)
Definition Jk (B T : Z) (kept : list (Z * Z)) : Prop :=
  match kept with [] => T <= 0 | (a0, _) :: _ => a0 <= 0 \/ a0 < T - B end.

Lemma sprune_J B T1 : 0 <= B -> forall kept a, contig a kept T1 -> kept <> [] ->
  (match kept with [] => True | (a0, _) :: _ => a0 <= 0 \/ a0 < T1 - B end) ->
  Jk B T1 (sprune B T1 kept) /\ exists a', contig a' (sprune B T1 kept) T1.
Proof.
  intros HB. induction kept as [|[s m] t IH]; intros a Hc Hne HJ; [congruence|].
  cbn [sprune]. cbn in Hc. destruct Hc as (<- & Hm & Hc).
  destruct (s + m <? T1 - B) eqn:E.
  - destruct t as [|[s2 m2] t2].
    + cbn in Hc. lia.
    + apply (IH (s + m)); [assumption|discriminate|].
      cbn in Hc. destruct Hc as (-> & _). right. lia.
  - split; [exact HJ|]. exists s. cbn. auto.
Qed.

Lemma within_visible B : 0 <= B -> forall fs T kept a, contig a kept T -> Jk B T kept ->
  within_lookback B T fs = true -> visible_from B T kept fs = true.
Proof.
  intros HB. induction fs as [|f rest IH]; intros T kept a Hc HJ Hw; [reflexivity|].
  cbn [within_lookback visible_from] in *. apply andb_true_iff in Hw. destruct Hw as [Hw1 Hw2].
  pose proof (zlen_nonneg (f_chunk f)) as Hm.
  apply andb_true_iff. split.
  - apply forallb_forall. intros r Hr. rewrite forallb_forall in Hw1. specialize (Hw1 r Hr).
    destruct kept as [|[a0 m0] t0]; cbn in *; lia.
  - assert (Hc1 : contig a (kept ++ [(T, zlen (f_chunk f))]) (T + zlen (f_chunk f))) by now apply contig_app.
    destruct (sprune_J B (T + zlen (f_chunk f)) HB _ a Hc1) as (HJ' & a' & Hc').
    + now destruct kept.
    + destruct kept as [|[a0 m0] t0]; cbn in *; lia.
    + apply (IH _ _ a'); assumption.
Qed.

Lemma lookback_sufficient B fs : 0 <= B -> within_lookback B 0 fs = true -> visible B fs = true.
Proof.
  intros HB H. unfold visible. apply (within_visible B HB fs 0 [] 0); cbn; auto; lia.
Qed.
