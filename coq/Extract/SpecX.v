(* Vocabulary of the theorems about the coverage-audit additions of Extract/Model.v
   (capture_run / check_capture, xinit_nocb / check_run_nocb) and about the `kind` parameter.
   Definitions only; proofs in Extract/ProofsX*.v.  Nothing of Model.v / Spec.v is changed. *)
From PV Require Export Extract.Model Extract.Spec.

(* ---- capture_epoch stand-alone ---- *)
(* the sends of a contiguous stream: chunks cs tagged with consecutive start samples from s0 on *)
Fixpoint tag (s0 : Z) (cs : list (list Z)) : list (Z * list Z) :=
  match cs with [] => [] | c :: t => (s0, c) :: tag (s0 + zlen c) t end.

(* what a capture whose last sample is e - 1 must show, send by send, for the chunks cs that follow sample
   T: nothing until the chunk that brings the stream up to sample e, then the data d, then it is finished *)
Fixpoint cap_spec (T e : Z) (d : list Z) (cs : list (list Z)) : list cobs :=
  match cs with
  | [] => []
  | c :: t => if e <=? T + zlen c then [CData d] else CNone :: cap_spec (T + zlen c) e d t
  end.

(* ---- empty_queue_cb = None ---- *)
(* the same send with the all-done callback taken away *)
Definition silence (o : fout) : fout := match o with FOut b _ => FOut b false | FErr e => FErr e end.
Definition disarm (st : xstate) : xstate :=
  {| tlb := tlb st; pending := pending st; prior := prior st; armed := false |}.
Definition mute (p : xstate * fout) : xstate * fout := (disarm (fst p), silence (snd p)).
Definition run_nocb (B : Z) (k : kind) (fs : list feed) : list fout := map snd (trace B k xinit_nocb fs).

(* ---- kinds ---- *)
(* what an annotated / plain target sees of a batch of epochs cut for the requests rs *)
Definition obs_of_reqs (k : kind) (S : list Z) (rs : list request) (cb : bool) : obs :=
  ObsOut (map (fun r => sl S (r_lo r) (r_n r)) rs)
         (match rs with
          | [] => None
          | r :: _ => if annot k then Some (r_lo r, map (fun r => (r_rid r, false)) rs) else None
          end) cb.
