(* C05, translator tie: the step function that translate/pycapture2coq.py regenerates from the CURRENT source of the
   coroutine psiaudio.pipeline.capture_epoch (coq/gen/CaptureGen.v: capture_epoch_init, capture_epoch_step) computes
   what the hand-written model (Extract/Model.v: new_capture, cap_send, capture_run) computes - for every state,
   every slb and every chunk, under the model's only well-formedness condition: auto_send = False.
   With that, the theorems about the model are theorems about the definitions read from the source.

   generated                                   model
   ------------------------------------------  -------------------------------------------------
   ce_state (epoch_s0, epoch_samples, info,    capture (c_s0, c_rem, c_rid, c_acc = the pieces joined, c_cur)
     auto_send, accumulated_data = the list
     of pieces, current_s0, md)
   capture_epoch_init lo n rid auto            new_capture (mkreq _ lo n rid)
   capture_epoch_step st slb data              cap_send (abs st) slb data
     (st', None, false)                          CCont (abs st')
     (_, Some (OTarget d), true)                 CDone d
     (_, Some (OMissed s0 md), true)             CMissed   [s0 = c_s0, md = c_rid: what missed_item carries]
   source_capture_run (send until `break`)     capture_run                                               *)
From Coq Require Import ZArith List Bool Lia ZifyBool.
From PV Require Import Extract.Model Extract.Spec Extract.SpecX Extract.ProofsRefine Extract.ProofsXCapture gen.CaptureGen.
Import ListNotations.
Open Scope Z_scope.

(* ---------------------------------------------------------------- vocabulary *)
(* the model's capture that a state of the coroutine stands for: the pieces are kept joined *)
Definition abs (st : ce_state) : capture :=
  {| c_s0 := ce_epoch_s0 st; c_cur := ce_current_s0 st; c_rem := ce_epoch_samples st;
     c_acc := concat (ce_accumulated_data st); c_rid := ce_md st |}.

(* a state of the coroutine for a capture of the model (auto_send = False, the pieces as one piece) *)
Definition rep (c : capture) : ce_state :=
  {| ce_epoch_s0 := c_s0 c; ce_epoch_samples := c_rem c; ce_info := c_rid c; ce_auto_send := false;
     ce_accumulated_data := [c_acc c]; ce_current_s0 := c_cur c; ce_md := c_rid c |}.

(* the model's well-formedness condition on coroutine states: the model describes auto_send = False only *)
Definition wf_ce (st : ce_state) : Prop := ce_auto_send st = false.

(* a result of the generated step read as a result of the model; None: a step the model does not have
   (target called and the coroutine goes on, or `break` without a call) *)
Definition view (r : ce_state * option ce_out * bool) : option cres :=
  match r with
  | (st', None, false) => Some (CCont (abs st'))
  | (_, Some (OTarget d), true) => Some (CDone d)
  | (_, Some (OMissed _ _), true) => Some CMissed
  | _ => None
  end.

Definition obs_of (o : option ce_out) : cobs :=
  match o with None => CNone | Some (OTarget d) => CData d | Some (OMissed _ _) => CMiss end.

(* the generator protocol: send after send until `break` (StopIteration) *)
Fixpoint source_capture_run (st : ce_state) (sends : list (Z * list Z)) : list cobs :=
  match sends with
  | [] => []
  | (s, d) :: t => let '(st', o, fin) := capture_epoch_step st s d in
                   obs_of o :: (if fin then [] else source_capture_run st' t)
  end.

(* ---------------------------------------------------------------- the step *)
Lemma abs_rep c : abs (rep c) = c.
Proof. destruct c. unfold abs, rep. cbn. now rewrite app_nil_r. Qed.

Lemma wf_rep c : wf_ce (rep c).
Proof. reflexivity. Qed.

(* generated step = model step, for every state with auto_send = False, every slb, every chunk *)
Theorem step_is_cap_send st slb data : wf_ce st ->
  view (capture_epoch_step st slb data) = Some (cap_send (abs st) slb data).
Proof.
  unfold wf_ce. intros Ha. unfold capture_epoch_step, cap_send, abs. cbv zeta.
  cbn [c_s0 c_cur c_rem c_acc c_rid]. rewrite Ha.
  destruct (ce_current_s0 st <? slb); [reflexivity|].
  destruct (ce_current_s0 st <=? slb + zlen data); [|reflexivity].
  destruct (ce_epoch_samples st - Z.min (ce_epoch_samples st) (zlen data - (ce_current_s0 st - slb)) =? 0).
  - cbn [view]. rewrite (concat_app (ce_accumulated_data st)). cbn [concat]. now rewrite app_nil_r.
  - cbn [view]. unfold abs. cbn [ce_epoch_s0 ce_current_s0 ce_epoch_samples ce_accumulated_data ce_md].
    rewrite (concat_app (ce_accumulated_data st)). cbn [concat]. now rewrite app_nil_r.
Qed.

(* the same from the model's side: every capture of the model is a state of the coroutine *)
Theorem cap_send_is_step c slb data :
  view (capture_epoch_step (rep c) slb data) = Some (cap_send c slb data).
Proof. rewrite (step_is_cap_send (rep c) slb data (wf_rep c)). now rewrite abs_rep. Qed.

(* what a step never touches *)
Lemma step_frame st slb data :
  let st' := fst (fst (capture_epoch_step st slb data)) in
  ce_epoch_s0 st' = ce_epoch_s0 st /\ ce_md st' = ce_md st /\ ce_info st' = ce_info st /\
  ce_auto_send st' = ce_auto_send st.
Proof.
  unfold capture_epoch_step. cbv zeta.
  destruct (ce_current_s0 st <? slb); [cbn; auto|].
  destruct (ce_current_s0 st <=? slb + zlen data); [|cbn; auto].
  destruct (ce_auto_send st) eqn:Ea;
    destruct (ce_epoch_samples st - Z.min (ce_epoch_samples st) (zlen data - (ce_current_s0 st - slb)) =? 0);
    cbn; auto.
Qed.

Lemma step_wf st slb data : wf_ce st -> wf_ce (fst (fst (capture_epoch_step st slb data))).
Proof. unfold wf_ce. intros H. destruct (step_frame st slb data) as (_ & _ & _ & E). cbv zeta in E. congruence. Qed.

(* the "missed" stub carries the start sample and the metadata identity the model's missed_item carries *)
Theorem step_missed_stub st slb data s0 md :
  snd (fst (capture_epoch_step st slb data)) = Some (OMissed s0 md) ->
  s0 = c_s0 (abs st) /\ md = c_rid (abs st) /\ cap_send (abs st) slb data = CMissed.
Proof.
  unfold capture_epoch_step, cap_send, abs. cbv zeta. cbn [c_s0 c_cur c_rem c_acc c_rid].
  destruct (ce_current_s0 st <? slb); [cbn; intros H; inversion H; auto|].
  destruct (ce_current_s0 st <=? slb + zlen data); [|cbn; discriminate].
  destruct (ce_auto_send st);
    destruct (ce_epoch_samples st - Z.min (ce_epoch_samples st) (zlen data - (ce_current_s0 st - slb)) =? 0);
    cbn; discriminate.
Qed.

(* the items extract_epochs appends for a finished capture, read off the generated step *)
Definition source_item (k : Z) (st : ce_state) (o : ce_out) : item :=
  match o with
  | OTarget d => {| i_key := k; i_rid := ce_md st; i_s0 := ce_epoch_s0 st; i_data := d; i_missed := false |}
  | OMissed s0 md => {| i_key := k; i_rid := md; i_s0 := s0; i_data := []; i_missed := true |}
  end.

Theorem step_item k st slb data st' o : wf_ce st ->
  capture_epoch_step st slb data = (st', Some o, true) ->
  match cap_send (abs st) slb data with
  | CDone d => source_item k st o = done_item k (abs st) d
  | CMissed => source_item k st o = missed_item k (abs st)
  | CCont _ => False
  end.
Proof.
  intros Hw E. pose proof (step_is_cap_send st slb data Hw) as V. rewrite E in V.
  destruct o as [d|s0 md]; cbn [view] in V; inversion V as [V1]; clear V.
  - reflexivity.
  - assert (M : snd (fst (capture_epoch_step st slb data)) = Some (OMissed s0 md)) by now rewrite E.
    destruct (step_missed_stub st slb data s0 md M) as (-> & -> & _). reflexivity.
Qed.

(* ---------------------------------------------------------------- the run *)
Theorem source_run_is_capture_run : forall sends st, wf_ce st ->
  source_capture_run st sends = capture_run (abs st) sends.
Proof.
  induction sends as [|[s d] t IH]; intros st Hw; [reflexivity|].
  cbn [source_capture_run capture_run].
  pose proof (step_is_cap_send st s d Hw) as V. pose proof (step_wf st s d Hw) as W.
  destruct (capture_epoch_step st s d) as [[st' o] fin]. cbn [fst] in W.
  destruct o as [[x|s0 md]|]; destruct fin; cbn [view] in V; try discriminate;
    inversion V as [V1]; clear V; cbn [obs_of]; try reflexivity.
  f_equal. now apply IH.
Qed.

Lemma abs_init k lo n rid a : abs (capture_epoch_init lo n rid a) = new_capture (mkreq k lo n rid).
Proof. reflexivity. Qed.

(* the default of the parameter auto_send in the source is the case the model describes *)
Lemma wf_init_default lo n rid : wf_ce (capture_epoch_init lo n rid capture_epoch_default_auto_send).
Proof. reflexivity. Qed.

Theorem source_run_init k lo n rid sends :
  source_capture_run (capture_epoch_init lo n rid capture_epoch_default_auto_send) sends =
  capture_run (new_capture (mkreq k lo n rid)) sends.
Proof. rewrite source_run_is_capture_run by apply wf_init_default. now rewrite (abs_init k). Qed.

(* ---------------------------------------------------------------- the hypothesis is needed, and satisfiable *)
Example wf_ce_ex : wf_ce (capture_epoch_init 4 5 0 capture_epoch_default_auto_send) /\
  view (capture_epoch_step (capture_epoch_init 4 5 0 capture_epoch_default_auto_send) 2 [12; 13; 14]) =
  Some (cap_send (new_capture (mkreq 0 4 5 0)) 2 [12; 13; 14]).
Proof. split; reflexivity. Qed.

(* with auto_send = True the coroutine hands every piece over at once and goes on: a step the model does not have *)
Theorem step_is_cap_send_refuted : exists st slb data,
  ce_auto_send st = true /\
  view (capture_epoch_step st slb data) <> Some (cap_send (abs st) slb data) /\
  capture_epoch_step st slb data =
    ({| ce_epoch_s0 := 4; ce_epoch_samples := 4; ce_info := 0; ce_auto_send := true; ce_accumulated_data := [];
        ce_current_s0 := 5; ce_md := 0 |}, Some (OTarget [14]), false).
Proof.
  exists (capture_epoch_init 4 5 0 true), 2, [12; 13; 14]. split; [reflexivity|]. split; [|reflexivity].
  vm_compute. discriminate.
Qed.

(* ---------------------------------------------------------------- the capture theorems, over the generated step *)
Theorem source_capture_standalone rid lo n s0 cs : 0 <= n -> s0 <= lo ->
  source_capture_run (capture_epoch_init lo n rid capture_epoch_default_auto_send) (tag s0 cs) =
  cap_spec s0 (lo + n) (sl (concat cs) (lo - s0) n) cs.
Proof. intros Hn Hs. rewrite (source_run_init 0). now apply capture_standalone. Qed.

Theorem source_capture_any_chunking rid lo n s0 cs : 0 <= n -> s0 <= lo ->
  let out := source_capture_run (capture_epoch_init lo n rid capture_epoch_default_auto_send) (tag s0 cs) in
  let d := sl (concat cs) (lo - s0) n in
  (s0 + zlen (concat cs) < lo + n -> out = repeat CNone (length cs)) /\
  (lo + n <= s0 + zlen (concat cs) -> cs <> [] ->
   exists j, (j < length cs)%nat /\ out = repeat CNone j ++ [CData d] /\ zlen d = n /\
             lo + n <= s0 + zlen (concat (firstn (S j) cs)) /\
             (forall i, (i < j)%nat -> s0 + zlen (concat (firstn (S i) cs)) < lo + n)).
Proof. intros Hn Hs. rewrite (source_run_init 0). now apply capture_any_chunking. Qed.

Theorem source_capture_chunking_independent rid lo n s0 cs1 cs2 : 0 <= n -> s0 <= lo ->
  concat cs1 = concat cs2 -> lo + n <= s0 + zlen (concat cs1) -> cs1 <> [] -> cs2 <> [] ->
  exists j1 j2,
    source_capture_run (capture_epoch_init lo n rid capture_epoch_default_auto_send) (tag s0 cs1) =
      repeat CNone j1 ++ [CData (sl (concat cs1) (lo - s0) n)] /\
    source_capture_run (capture_epoch_init lo n rid capture_epoch_default_auto_send) (tag s0 cs2) =
      repeat CNone j2 ++ [CData (sl (concat cs1) (lo - s0) n)].
Proof. intros. rewrite !(source_run_init 0). now apply capture_chunking_independent. Qed.

Theorem source_capture_missed rid lo n s0 cs : 0 <= n ->
  (In CMiss (source_capture_run (capture_epoch_init lo n rid capture_epoch_default_auto_send) (tag s0 cs)) <->
   cs <> [] /\ lo < s0).
Proof. intros Hn. rewrite (source_run_init 0). now apply capture_missed_iff. Qed.

Example source_capture_ex :
  source_capture_run (capture_epoch_init 4 5 0 capture_epoch_default_auto_send)
    (tag 2 [[12;13;14]; []; [15]; [16;17;18;19]; [20;21]]) = [CNone; CNone; CNone; CData [14;15;16;17;18]] /\
  source_capture_run (capture_epoch_init 4 5 0 capture_epoch_default_auto_send) (tag 5 [[15;16]; [17]]) = [CMiss].
Proof. vm_compute. split; reflexivity. Qed.

(* ================================================================================================================ *)
(* extract_epochs: the look-back bookkeeping regenerated from the source (the slice of its loop body over tlb and
   prior_samples: append (tlb, data), tlb += len(data), the pruning loop) against Model.feed_step / Model.prune, and
   the creation of a capture against Model.new_capture.

   The pruning loop of the source reads prior_samples[0] on every pass: when it has popped the last chunk the send
   raises IndexError (generated: None), where Model.prune returns [].  The two agree exactly when the model's result
   is not empty - which is the case in every send of feed_step as soon as buffer_samples >= 0 (prune_keeps_last). *)

Lemma source_prune_some : forall pr fuel T B, (length pr < fuel)%nat -> prune B T pr <> [] ->
  extract_epochs_prune fuel T pr B = Some (prune B T pr).
Proof.
  induction pr as [|[s d] t IH]; intros fuel T B Hf Hne; [now cbn in Hne|].
  destruct fuel as [|fuel]; [cbn in Hf; lia|].
  cbn [extract_epochs_prune]. unfold extract_epochs_prune_body. cbv zeta. cbn [fst snd].
  cbn [prune] in Hne |- *.
  destruct (s + zlen d <? T - B).
  - apply IH; [cbn in Hf; lia|assumption].
  - reflexivity.
Qed.

(* ... and the loop raises exactly when the model's prune empties the list *)
Lemma source_prune_none : forall pr fuel T B, prune B T pr = [] -> extract_epochs_prune fuel T pr B = None.
Proof.
  induction pr as [|[s d] t IH]; intros fuel T B He; destruct fuel as [|fuel]; try reflexivity.
  cbn [extract_epochs_prune]. unfold extract_epochs_prune_body. cbv zeta. cbn [fst snd].
  cbn [prune] in He. destruct (s + zlen d <? T - B); [now apply IH|discriminate].
Qed.

(* one send: tlb and prior_samples afterwards are what feed_step computes (lines 766, 838, 852-858 of the model's
   numbering), for every state, chunk and look-back B >= 0, with any fuel above the number of buffered chunks *)
Theorem source_lookback_is_model B T pr data fuel : 0 <= B -> (length pr + 1 < fuel)%nat ->
  extract_epochs_lookback fuel T pr B data =
  Some (T + zlen data, prune B (T + zlen data) (pr ++ [(T, data)])).
Proof.
  intros HB Hf. unfold extract_epochs_lookback. cbv zeta.
  rewrite source_prune_some; [reflexivity| |now apply prune_keeps_last].
  rewrite app_length. cbn [length]. lia.
Qed.

Theorem source_lookback_feed_step B k st f st' b cb fuel : 0 <= B -> (length (prior st) + 1 < fuel)%nat ->
  feed_step B k st f = (st', FOut b cb) ->
  extract_epochs_lookback fuel (tlb st) (prior st) B (f_chunk f) = Some (tlb st', prior st').
Proof.
  intros HB Hf E. rewrite source_lookback_is_model by assumption.
  unfold feed_step in E.
  destruct (drain fst (f_rems f) (pending st) []) as [pend1 skip].
  destruct (send_all (tlb st) (f_chunk f) pend1) as [pend2 ev1].
  destruct (intake (f_reqs f) (prior st ++ [(tlb st, f_chunk f)]) pend2 skip) as [[pend3 ev2]|]; [|discriminate].
  destruct (negb (stack_ok k (ev1 ++ ev2))); [discriminate|].
  inversion E; subst. reflexivity.
Qed.

(* the hypothesis 0 <= B is needed: with a negative look-back the source raises IndexError where the model goes on
   with an empty buffer (outside the property's assumption buffer_size >= 0; the harness does not go there) *)
Theorem source_lookback_is_model_refuted : exists B T pr data fuel,
  (length pr + 1 < fuel)%nat /\
  extract_epochs_lookback fuel T pr B data = None /\
  prune B (T + zlen data) (pr ++ [(T, data)]) = [].
Proof. exists (-2), 0, [], [], 5%nat. split; [cbn; lia|]. split; reflexivity. Qed.

Example source_lookback_ex :
  extract_epochs_lookback 5 6 [(0, [28; 81]); (2, []); (2, [34; 81; 46; 38])] 7 [47; 12; 97; 69; 53] =
  Some (11, [(2, [34; 81; 46; 38]); (6, [47; 12; 97; 69; 53])]).
Proof. reflexivity. Qed.

(* the extractor starts where the model starts *)
Lemma source_extract_init : extract_epochs_tlb0 = tlb xinit /\ extract_epochs_prior_samples0 = prior xinit.
Proof. split; reflexivity. Qed.

(* capture_epoch(t0, epoch_samples, info, epochs.append, fs): the model's new_capture, auto_send left at its default *)
Theorem source_new_capture k lo n rid :
  abs (extract_epochs_new_capture lo n rid) = new_capture (mkreq k lo n rid) /\
  wf_ce (extract_epochs_new_capture lo n rid).
Proof. split; reflexivity. Qed.

(* what extract_epochs does with every pending capture (lines 792-796): the generated step on the generated state *)
Theorem source_send_new_capture k lo n rid slb data :
  view (capture_epoch_step (extract_epochs_new_capture lo n rid) slb data) =
  Some (cap_send (new_capture (mkreq k lo n rid)) slb data).
Proof.
  destruct (source_new_capture k lo n rid) as [E W]. rewrite step_is_cap_send by exact W. now rewrite E.
Qed.
