(* C05 proofs, part 2: the coroutine model (captures, accumulation, replay) refines the abstract
   specification (cut the epoch out of the stream when its last sample is there): same outputs,
   send by send, for every schedule whose requests have n >= 0. *)
From Coq Require Import ZArith List Bool Lia ZifyBool.
From PV Require Import Extract.Model Extract.Spec Extract.ProofsCapture.
Import ListNotations.
Open Scope Z_scope.

(* ---------------------------------------------------------------- keyed lists under map *)
Section KeyedMap.
  Context {A B : Type} (ka : A -> Z) (kb : B -> Z) (g : A -> B).
  Hypothesis Hk : forall x, kb (g x) = ka x.

  Lemma has_key_map k l : has_key kb k (map g l) = has_key ka k l.
  Proof. induction l as [|x t IH]; cbn; [reflexivity|]. now rewrite Hk, IH. Qed.

  Lemma del_key_map k l : del_key kb k (map g l) = map g (del_key ka k l).
  Proof.
    induction l as [|x t IH]; cbn; [reflexivity|]. rewrite Hk.
    destruct (ka x =? k); [reflexivity|]. cbn. now rewrite IH.
  Qed.

  Lemma drain_map rems : forall l skip,
    drain kb rems (map g l) skip = (map g (fst (drain ka rems l skip)), snd (drain ka rems l skip)).
  Proof.
    induction rems as [|k t IH]; intros l skip; cbn; [reflexivity|].
    rewrite has_key_map. destruct (has_key ka k l).
    - rewrite del_key_map. apply IH.
    - apply IH.
  Qed.
End KeyedMap.

Section KeyedForall.
  Context {A : Type} (key : A -> Z) (P : A -> Prop).
  Lemma Forall_del_key k l : Forall P l -> Forall P (del_key key k l).
  Proof.
    induction 1 as [|x t Hx Ht IH]; cbn; [constructor|].
    destruct (key x =? k); [assumption|constructor; assumption].
  Qed.
  Lemma Forall_drain rems : forall l skip, Forall P l -> Forall P (fst (drain key rems l skip)).
  Proof.
    induction rems as [|k t IH]; intros l skip H; cbn; [assumption|].
    destruct (has_key key k l); apply IH; auto using Forall_del_key.
  Qed.
End KeyedForall.

(* ---------------------------------------------------------------- abstraction *)
Definition absp (S : list Z) (T : Z) (W : list request) : list (Z * capture) :=
  map (fun r => (r_key r, mkcap S T r)) W.

Definition wait_ok (T : Z) (r : request) : Prop := 0 <= r_lo r /\ 0 <= r_n r /\ T < r_lo r + r_n r.

Record R (st : xstate) (s : sstate) : Prop := {
  R_tlb : tlb st = s_T s;
  R_len : zlen (s_stream s) = s_T s;
  R_armed : armed st = s_armed s;
  R_prior : prior st = kept_prior (s_stream s) (s_kept s);
  R_contig : exists P, 0 <= P /\ contig P (s_kept s) (s_T s);
  R_pend : pending st = absp (s_stream s) (s_T s) (s_wait s);
  R_wait : Forall (wait_ok (s_T s)) (s_wait s) }.

Lemma R_init : R xinit sinit.
Proof.
  constructor; cbn; try reflexivity.
  - exists 0. split; [lia|reflexivity].
  - constructor.
Qed.

(* ---------------------------------------------------------------- send to all pending *)
Lemma cap_send_live S c T r : zlen S = T -> 0 <= T -> wait_ok T r ->
  cap_send (mkcap S T r) T c =
  if r_lo r + r_n r <=? T + zlen c then CDone (sl (S ++ c) (r_lo r) (r_n r))
  else CCont (mkcap (S ++ c) (T + zlen c) r).
Proof.
  intros HS HT (Hlo & Hn & Hlt). pose proof (zlen_nonneg c) as Hc.
  pose proof (cap_send_mk (S ++ c) T (zlen c) r) as H.
  rewrite (mkcap_app S c T r HS Hlo) in H.
  assert (Hsl : sl (S ++ c) T (zlen c) = c) by (subst T; apply sl_whole_r).
  rewrite Hsl in H. apply H; rewrite ?zlen_app; lia.
Qed.

Lemma send_all_abs S c T W : zlen S = T -> 0 <= T -> Forall (wait_ok T) W ->
  send_all T c (absp S T W) =
  (absp (S ++ c) (T + zlen c) (fst (sready (S ++ c) (T + zlen c) W)),
   snd (sready (S ++ c) (T + zlen c) W)).
Proof.
  intros HS HT. induction 1 as [|r t Hr Ht IH]; [reflexivity|].
  cbn [absp map send_all sready]. fold (absp S T t). rewrite IH.
  destruct (sready (S ++ c) (T + zlen c) t) as [W' ev]. cbn [fst snd].
  rewrite (cap_send_live S c T r HS HT Hr).
  destruct (r_lo r + r_n r <=? T + zlen c); reflexivity.
Qed.

Lemma sready_Forall S T W P : Forall P W -> Forall P (fst (sready S T W)).
Proof.
  induction 1 as [|r t Hr Ht IH]; cbn; [constructor|].
  destruct (sready S T t) as [W' ev]. cbn in *.
  destruct (r_lo r + r_n r <=? T); cbn; [assumption|constructor; assumption].
Qed.

Lemma sready_wait_ok S T T1 W : T <= T1 -> Forall (wait_ok T) W -> Forall (wait_ok T1) (fst (sready S T1 W)).
Proof.
  intros HT. induction 1 as [|r t Hr Ht IH]; cbn; [constructor|].
  destruct (sready S T1 t) as [W' ev]. cbn in *.
  destruct (r_lo r + r_n r <=? T1) eqn:E; cbn; [assumption|].
  constructor; [|assumption]. unfold wait_ok in *. lia.
Qed.

(* ---------------------------------------------------------------- intake *)
Definition lift (S : list Z) (T : Z) (o : option (list request * list item))
  : option (list (Z * capture) * list item) :=
  match o with Some (W, ev) => Some (absp S T W, ev) | None => None end.

Lemma lift_cons S T x o : opt_cons x (lift S T o) = lift S T (sopt_cons x o).
Proof. destruct o as [[W ev]|]; reflexivity. Qed.

Lemma intake_abs S T P kept reqs :
  contig P kept T -> kept <> [] -> 0 <= P -> T <= zlen S ->
  Forall (fun r => 0 <= r_n r) reqs ->
  forall W skip,
  intake reqs (kept_prior S kept) (absp S T W) skip = lift S T (sintake S T P reqs W skip).
Proof.
  intros Hc Hne HP HT Hreqs. induction Hreqs as [|r t Hr Ht IH]; intros W skip; [reflexivity|].
  cbn [intake sintake]. destruct (memz (r_key r) skip); [apply IH|].
  destruct (r_lo r <? P) eqn:E1.
  - rewrite (replay_missed r kept P T S) by (auto; lia).
    rewrite IH, lift_cons. reflexivity.
  - rewrite (replay_first S r kept P T) by (auto; lia).
    destruct (r_lo r + r_n r <=? T) eqn:E2.
    + rewrite IH, lift_cons. reflexivity.
    + unfold absp at 1. rewrite (has_key_map r_key fst) by reflexivity.
      destruct (has_key r_key (r_key r) W); [reflexivity|].
      rewrite <- IH. f_equal. unfold absp. now rewrite map_app.
Qed.

Lemma sintake_wait_ok S T P reqs : 0 <= P ->
  Forall (fun r => 0 <= r_n r) reqs ->
  forall W skip W' ev, Forall (wait_ok T) W -> sintake S T P reqs W skip = Some (W', ev) ->
  Forall (wait_ok T) W'.
Proof.
  intros HP. induction 1 as [|r t Hr Ht IH]; intros W skip W' ev HW H; cbn in H.
  - now inversion H; subst.
  - destruct (memz (r_key r) skip); [eapply IH; eauto|].
    destruct (r_lo r <? P) eqn:E1.
    { destruct (sintake S T P t W skip) as [[W0 ev0]|] eqn:E; cbn in H; [|discriminate].
      inversion H; subst. eapply IH; eauto. }
    destruct (r_lo r + r_n r <=? T) eqn:E2.
    { destruct (sintake S T P t W skip) as [[W0 ev0]|] eqn:E; cbn in H; [|discriminate].
      inversion H; subst. eapply IH; eauto. }
    destruct (has_key r_key (r_key r) W); [discriminate|].
    eapply IH; [|exact H]. apply Forall_app. split; [assumption|].
    constructor; [|constructor]. unfold wait_ok. lia.
Qed.

(* ---------------------------------------------------------------- pruning *)
Lemma prune_abs B T1 S : forall kept a, contig a kept T1 -> 0 <= a -> T1 <= zlen S ->
  prune B T1 (kept_prior S kept) = kept_prior S (sprune B T1 kept).
Proof.
  induction kept as [|[s m] t IH]; intros a Hc Ha HT; [reflexivity|].
  cbn in Hc. destruct Hc as (<- & Hm & Hc). pose proof (contig_le _ _ _ Hc) as Hle.
  cbn [kept_prior map prune sprune fst snd].
  rewrite sl_zlen by lia.
  destruct (s + m <? T1 - B); [|reflexivity].
  apply (IH (s + m)); auto; lia.
Qed.

Lemma sprune_contig B T' : forall kept a T, contig a kept T -> 0 <= a ->
  exists a', 0 <= a' /\ contig a' (sprune B T' kept) T.
Proof.
  induction kept as [|[s m] t IH]; intros a T Hc Ha.
  - exists a. split; assumption.
  - cbn [sprune]. destruct (s + m <? T' - B).
    + cbn in Hc. destruct Hc as (<- & Hm & Hc). apply (IH (s + m)); auto; lia.
    + exists a. split; assumption.
Qed.

(* the IndexError of `prior_samples[0]` on an emptied list cannot happen for B >= 0 *)
Lemma prune_keeps_last B T pr c : 0 <= B -> prune B (T + zlen c) (pr ++ [(T, c)]) <> [].
Proof.
  intros HB. induction pr as [|[s d] t IH]; cbn.
  - destruct (T + zlen c <? T + zlen c - B) eqn:E; [lia|discriminate].
  - destruct (s + zlen d <? T + zlen c - B); [assumption|discriminate].
Qed.

(* ---------------------------------------------------------------- one send *)
Lemma is_nil_absp S T W : is_nil (absp S T W) = is_nil W.
Proof. destruct W; reflexivity. Qed.

Lemma feed_refines B k st s f : R st s -> Forall (fun r => 0 <= r_n r) (f_reqs f) ->
  exists st' s' o, feed_step B k st f = (st', o) /\ spec_feed B k s f = (s', o) /\
                   (is_err o = false -> R st' s').
Proof.
  intros [Htlb Hlen Harm Hprior (P & HP & Hc) Hpend Hwait] Hreqs.
  unfold feed_step, spec_feed.
  set (c := f_chunk f). set (S := s_stream s) in *. set (T := s_T s) in *.
  set (m := zlen c). pose proof (zlen_nonneg c) as Hm. fold m in Hm.
  assert (HT0 : 0 <= T) by (apply contig_le in Hc; lia).
  rewrite Hpend, Htlb, Hprior, Harm.
  unfold absp at 1. rewrite (drain_map r_key fst) by reflexivity.
  pose proof (Forall_drain r_key (wait_ok T) (f_rems f) (s_wait s) [] Hwait) as HW1.
  destruct (drain r_key (f_rems f) (s_wait s) []) as [W1 skip]. cbn [fst snd] in *.
  change (map (fun r : request => (r_key r, mkcap S T r)) W1) with (absp S T W1).
  rewrite (send_all_abs S c T W1 Hlen HT0 HW1). fold m.
  pose proof (sready_wait_ok (S ++ c) T (T + m) W1 ltac:(lia) HW1) as HW2.
  destruct (sready (S ++ c) (T + m) W1) as [W2 ev1]. cbn [fst snd] in *.
  (* the look-back chunks, now including the current one, seen as cuts of the longer stream *)
  assert (Hc1 : contig P (s_kept s ++ [(T, m)]) (T + m)) by (apply contig_app; auto).
  assert (Hpr : kept_prior S (s_kept s) ++ [(T, c)] = kept_prior (S ++ c) (s_kept s ++ [(T, m)])).
  { unfold kept_prior at 2. rewrite map_app. fold (kept_prior (S ++ c) (s_kept s)).
    rewrite (kept_prior_app S c (s_kept s) P T) by (auto; lia).
    cbn [map fst snd]. unfold m. rewrite <- Hlen. now rewrite sl_whole_r. }
  rewrite Hpr.
  assert (HS1 : T + m <= zlen (S ++ c)) by (rewrite zlen_app; fold m; lia).
  rewrite (intake_abs (S ++ c) (T + m) P (s_kept s ++ [(T, m)]) (f_reqs f) Hc1
             ltac:(now destruct (s_kept s)) HP HS1 Hreqs W2 skip).
  assert (Hlb : lb_start T (s_kept s ++ [(T, m)]) = P).
  { destruct (s_kept s) as [|[a0 m0] t0]; cbn in *; [lia|tauto]. }
  rewrite Hlb.
  pose proof (sintake_wait_ok (S ++ c) (T + m) P (f_reqs f) HP Hreqs W2 skip) as HW3.
  destruct (sintake (S ++ c) (T + m) P (f_reqs f) W2 skip) as [[W3 ev2]|]; cbn [lift].
  2:{ do 3 eexists. split; [reflexivity|]. split; [reflexivity|]. cbn. discriminate. }
  specialize (HW3 W3 ev2 HW2 eq_refl).
  destruct (negb (stack_ok k (ev1 ++ ev2))).
  { do 3 eexists. split; [reflexivity|]. split; [reflexivity|]. cbn. discriminate. }
  rewrite is_nil_absp.
  do 3 eexists. split; [reflexivity|]. split; [reflexivity|]. intros _.
  constructor; cbn [tlb pending prior armed s_T s_stream s_wait s_kept s_armed].
  - reflexivity.
  - rewrite zlen_app. fold m. lia.
  - reflexivity.
  - apply (prune_abs B (T + m) (S ++ c) _ P); auto; lia.
  - apply (sprune_contig B (T + m) _ P); auto.
  - reflexivity.
  - assumption.
Qed.

(* ---------------------------------------------------------------- whole runs *)
Lemma trace_refines B k : forall fs st s, R st s ->
  Forall (fun r => 0 <= r_n r) (all_reqs fs) ->
  map snd (trace B k st fs) = map snd (spec_trace B k s fs).
Proof.
  induction fs as [|f t IH]; intros st s HR Hreqs; [reflexivity|].
  unfold all_reqs in Hreqs. cbn [flat_map] in Hreqs. apply Forall_app in Hreqs. destruct Hreqs as [Hf Ht].
  destruct (feed_refines B k st s f HR Hf) as (st' & s' & o & E1 & E2 & HR').
  cbn [trace spec_trace]. rewrite E1, E2.
  destruct o as [b cb|e]; cbn [map snd]; [|reflexivity].
  f_equal. apply IH; auto.
Qed.

Theorem run_refines_spec B k fs : Forall (fun r => 0 <= r_n r) (all_reqs fs) ->
  run B k fs = spec_run B k fs.
Proof. intros H. unfold run, spec_run. apply trace_refines; [apply R_init|assumption]. Qed.

(* pending is empty in the model exactly when nothing waits in the specification *)
Lemma trace_pending B k : forall fs st s, R st s ->
  Forall (fun r => 0 <= r_n r) (all_reqs fs) ->
  Forall2 (fun a b => snd a = snd b /\ (is_err (snd b) = false -> pending (fst a) = [] <-> s_wait (fst b) = []))
          (trace B k st fs) (spec_trace B k s fs).
Proof.
  induction fs as [|f t IH]; intros st s HR Hreqs; [constructor|].
  unfold all_reqs in Hreqs. cbn [flat_map] in Hreqs. apply Forall_app in Hreqs. destruct Hreqs as [Hf Ht].
  destruct (feed_refines B k st s f HR Hf) as (st' & s' & o & E1 & E2 & HR').
  cbn [trace spec_trace]. rewrite E1, E2.
  assert (Hp : is_err o = false -> pending st' = [] <-> s_wait s' = []).
  { intros He. specialize (HR' He). rewrite (R_pend _ _ HR'). unfold absp.
    destruct (s_wait s'); cbn; split; congruence. }
  destruct o as [b cb|e].
  - constructor; [split; auto|]. apply IH; auto.
  - constructor; [split; auto|constructor].
Qed.
