(* C05, coverage-audit additions, part 3: the input kind (plain / annotated, 1-D / multichannel).
   The theorems of Props/C05.v hold for every kind k; here: the kind is IRRELEVANT for what is delivered
   as soon as every epoch has at least one sample (it only enters through the stacking of zero-length epochs
   with "missed" stubs), and what a target observes of an annotated stream is the request's own metadata. *)
From Coq Require Import ZArith List Bool Lia ZifyBool.
From PV Require Import Extract.Model Extract.Spec Extract.SpecX Extract.ProofsCapture Extract.ProofsSpec Extract.Proofs.
Import ListNotations.
Open Scope Z_scope.

Definition posc (p : Z * capture) : Prop := 1 <= c_rem (snd p).
Definition good (it : item) : Prop := if i_missed it then i_data it = [] else 1 <= zlen (i_data it).

Lemma py_slice_zlen (l : list Z) i d : 0 <= i -> 0 <= d -> i + d <= zlen l ->
  zlen (py_slice (Some i) (Some (i + d)) l) = d.
Proof.
  intros Hi Hd Hl. rewrite py_slice_sl by lia. replace (i + d - i) with d by lia. apply sl_zlen; lia.
Qed.

Lemma cap_send_pos c slb d : 1 <= c_rem c ->
  match cap_send c slb d with CCont c' => 1 <= c_rem c' | CDone x => 1 <= zlen x | CMissed => True end.
Proof.
  intros Hp. unfold cap_send.
  destruct (c_cur c <? slb) eqn:E1; [exact I|].
  destruct (c_cur c <=? slb + zlen d) eqn:E2; [|exact Hp].
  set (i := c_cur c - slb). set (dd := Z.min (c_rem c) (zlen d - i)).
  assert (Hi : 0 <= i) by (unfold i; lia).
  assert (Hd0 : 0 <= dd) by (unfold dd, i; lia).
  assert (Hd1 : i + dd <= zlen d) by (unfold dd; lia).
  destruct (c_rem c - dd =? 0) eqn:E3.
  - rewrite zlen_app, py_slice_zlen by assumption. pose proof (zlen_nonneg (c_acc c)). lia.
  - cbn [c_rem]. unfold dd in *. lia.
Qed.

Lemma send_all_pos slb data : forall pend, Forall posc pend ->
  Forall posc (fst (send_all slb data pend)) /\ Forall good (snd (send_all slb data pend)).
Proof.
  induction pend as [|[k c] t IH]; intros H; cbn [send_all]; [split; constructor|].
  inversion H as [|? ? Hc Ht]; subst. destruct (IH Ht) as [IH1 IH2].
  destruct (send_all slb data t) as [p' ev]. cbn [fst snd] in *.
  pose proof (cap_send_pos c slb data Hc) as Hs.
  destruct (cap_send c slb data) as [c'|x|]; cbn [fst snd].
  - split; [constructor; assumption|assumption].
  - split; [assumption|]. constructor; [exact Hs|assumption].
  - split; [assumption|]. constructor; [reflexivity|assumption].
Qed.

Lemma replay_pos : forall pr c, 1 <= c_rem c ->
  match replay c pr with CCont c' => 1 <= c_rem c' | CDone x => 1 <= zlen x | CMissed => True end.
Proof.
  induction pr as [|[s d] t IH]; intros c Hc; cbn [replay]; [exact Hc|].
  pose proof (cap_send_pos c s d Hc) as Hs.
  destruct (cap_send c s d) as [c'|x|]; [now apply IH|exact Hs|exact I].
Qed.

Lemma intake_pos pr : forall reqs pend skip p ev, Forall (fun r => 1 <= r_n r) reqs -> Forall posc pend ->
  intake reqs pr pend skip = Some (p, ev) -> Forall posc p /\ Forall good ev.
Proof.
  induction reqs as [|r t IH]; intros pend skip p ev Hr Hp E; cbn [intake] in E.
  - inversion E; subst. split; [assumption|constructor].
  - inversion Hr as [|? ? Hr1 Hr2]; subst.
    destruct (memz (r_key r) skip); [now apply (IH _ _ _ _ Hr2 Hp E)|].
    pose proof (replay_pos pr (new_capture r) Hr1) as Hs.
    destruct (replay (new_capture r) pr) as [c'|x|].
    + destruct (has_key fst (r_key r) pend); [discriminate|].
      apply (IH _ _ _ _ Hr2) in E; [assumption|]. apply Forall_app. split; [assumption|].
      constructor; [exact Hs|constructor].
    + destruct (intake t pr pend skip) as [[p0 ev0]|] eqn:E0; cbn [opt_cons] in E; [|discriminate].
      inversion E; subst. destruct (IH _ _ _ _ Hr2 Hp E0) as [H1 H2].
      split; [assumption|]. constructor; [exact Hs|assumption].
    + destruct (intake t pr pend skip) as [[p0 ev0]|] eqn:E0; cbn [opt_cons] in E; [|discriminate].
      inversion E; subst. destruct (IH _ _ _ _ Hr2 Hp E0) as [H1 H2].
      split; [assumption|]. constructor; [reflexivity|assumption].
Qed.

Lemma del_key_Forall {A} (key : A -> Z) (P : A -> Prop) k : forall l, Forall P l -> Forall P (del_key key k l).
Proof.
  induction l as [|x t IH]; intros H; cbn [del_key]; [constructor|]. inversion H; subst.
  destruct (key x =? k); [assumption|]. constructor; auto.
Qed.
Lemma drain_Forall {A} (key : A -> Z) (P : A -> Prop) : forall rems l skip, Forall P l ->
  Forall P (fst (drain key rems l skip)).
Proof.
  induction rems as [|k t IH]; intros l skip H; cbn [drain]; [assumption|].
  destruct (has_key key k l); apply IH; [now apply del_key_Forall|assumption].
Qed.

(* a batch without zero-length epochs is stackable, or not, whatever the kind *)
Lemma stack_ok_kind k1 k2 b : Forall good b -> stack_ok k1 b = stack_ok k2 b.
Proof.
  intros Hg. unfold stack_ok. destruct (uniform_len b) eqn:Eu; [|reflexivity]. cbn [andb].
  destruct b as [|x t]; [reflexivity|].
  inversion Hg as [|? ? Hx Ht]; subst. cbn [uniform_len] in Eu. rewrite forallb_forall in Eu.
  unfold good in Hx. destruct (i_missed x) eqn:Ex.
  - assert (Hall : forallb i_missed (x :: t) = true).
    { cbn [forallb]. rewrite Ex. cbn [andb]. apply forallb_forall. intros y Hy.
      specialize (Eu y Hy). rewrite Forall_forall in Ht. specialize (Ht y Hy). unfold good in Ht.
      destruct (i_missed y); [reflexivity|]. rewrite Hx in Eu. unfold zlen in *. cbn [length] in Eu. lia. }
    rewrite Hall. reflexivity.
  - assert (Hnone : existsb i_missed (x :: t) = false).
    { cbn [existsb]. rewrite Ex. cbn [orb]. apply not_true_is_false. intros He.
      apply existsb_exists in He. destruct He as (y & Hy & Hm).
      specialize (Eu y Hy). rewrite Forall_forall in Ht. specialize (Ht y Hy). unfold good in Ht.
      rewrite Hm in Ht. rewrite Ht in Eu. unfold zlen in *. cbn [length] in Eu. lia. }
    rewrite Hnone. cbn [negb]. rewrite !orb_true_r. reflexivity.
Qed.

Lemma feed_step_kind B k1 k2 st f : Forall posc (pending st) -> Forall (fun r => 1 <= r_n r) (f_reqs f) ->
  feed_step B k1 st f = feed_step B k2 st f /\ Forall posc (pending (fst (feed_step B k1 st f))).
Proof.
  intros Hp Hr. unfold feed_step.
  pose proof (drain_Forall fst posc (f_rems f) (pending st) [] Hp) as Hd.
  destruct (drain fst (f_rems f) (pending st) []) as [pend1 skip]. cbn [fst] in Hd.
  destruct (send_all_pos (tlb st) (f_chunk f) pend1 Hd) as [Hs1 Hs2].
  destruct (send_all (tlb st) (f_chunk f) pend1) as [pend2 ev1]. cbn [fst snd] in Hs1, Hs2.
  destruct (intake (f_reqs f) (prior st ++ [(tlb st, f_chunk f)]) pend2 skip) as [[pend3 ev2]|] eqn:Ei.
  - destruct (intake_pos _ _ _ _ _ _ Hr Hs1 Ei) as [Hi1 Hi2].
    assert (Hg : Forall good (ev1 ++ ev2)) by (apply Forall_app; split; assumption).
    rewrite (stack_ok_kind k1 k2 _ Hg).
    destruct (negb (stack_ok k2 (ev1 ++ ev2))); split; try reflexivity; cbn [fst pending]; assumption.
  - split; [reflexivity|assumption].
Qed.

Lemma all_reqs_cons f rest : all_reqs (f :: rest) = f_reqs f ++ all_reqs rest.
Proof. reflexivity. Qed.

Lemma trace_kind B k1 k2 : forall fs st, Forall posc (pending st) -> Forall (fun r => 1 <= r_n r) (all_reqs fs) ->
  trace B k1 st fs = trace B k2 st fs.
Proof.
  induction fs as [|f rest IH]; intros st Hp Hr; [reflexivity|].
  rewrite all_reqs_cons in Hr. apply Forall_app in Hr. destruct Hr as [Hr1 Hr2].
  cbn [trace]. destruct (feed_step_kind B k1 k2 st f Hp Hr1) as [E Hp'].
  rewrite <- E. destruct (feed_step B k1 st f) as [st' o]. cbn [fst] in Hp'.
  destruct o as [b cb|e]; [|reflexivity]. f_equal. now apply IH.
Qed.

Theorem kind_irrelevant B k1 k2 fs : Forall (fun r => 1 <= r_n r) (all_reqs fs) ->
  trace B k1 xinit fs = trace B k2 xinit fs /\ run B k1 fs = run B k2 fs /\
  trace B k1 xinit_nocb fs = trace B k2 xinit_nocb fs.
Proof.
  intros H. split; [|split].
  - apply trace_kind; [constructor|assumption].
  - unfold run. f_equal. apply trace_kind; [constructor|assumption].
  - apply trace_kind; [constructor|assumption].
Qed.

(* with zero-length epochs the kind does matter: a zero-length epoch and a "missed" stub completing in the
   same send are stacked for 1-D input (captured one first) but raise for multichannel input *)
Theorem kind_irrelevant_refuted : exists B k1 k2 fs,
  Forall (fun r => 0 <= r_n r) (all_reqs fs) /\ nodupz (req_keys fs) = true /\ run B k1 fs <> run B k2 fs.
Proof.
  exists 0, (mkkind false false), (mkkind false true),
    [mkfeed [1;2] [] [] false; mkfeed [3;4] [] [] false; mkfeed [5;6] [] [mkreq 0 4 0 7; mkreq 1 1 0 8] false].
  split; [repeat constructor; cbn; lia|]. split; [reflexivity|]. vm_compute. discriminate.
Qed.

(* ---------------------------------------------------------------- what the target observes *)
Lemma batch_reqs fs S : forall b,
  (forall it, In it b -> exists a r, arrives fs a r /\ it = s_item S r) ->
  exists rs, b = map (s_item S) rs /\ Forall (fun r => exists a, arrives fs a r) rs.
Proof.
  induction b as [|x t IH]; intros H; [exists []; split; constructor|].
  destruct (H x (or_introl eq_refl)) as (a & r & Ha & ->).
  destruct IH as (rs & -> & Hrs); [intros it Hit; apply H; now right|].
  exists (r :: rs). split; [reflexivity|]. constructor; [now exists a|assumption].
Qed.

Lemma observe_reqs k S rs cb : observe k (FOut (map (s_item S) rs) cb) = obs_of_reqs k S rs cb.
Proof.
  unfold observe, obs_of_reqs. rewrite !map_map. cbn [i_data s_item].
  destruct rs as [|r t]; [reflexivity|]. cbn [map i_missed i_s0 i_rid s_item]. rewrite orb_false_r.
  reflexivity.
Qed.

(* every send of a well-formed schedule shows the target, for some requests rs of the schedule: one row
   stream[lo, lo+n) per request, and - for annotated input only - the start sample of the first and every
   request's own metadata identity, none marked as carrying only its own metadata (no "missed" stub);
   for plain input no annotation at all *)
Theorem observed_metadata B k fs : wf_sched B fs = true ->
  forall o, In o (run B k fs) ->
  exists rs, Forall (fun r => exists a, arrives fs a r) rs /\
             o = FOut (map (s_item (stream_of fs)) rs) (fired o) /\
             observe k o = obs_of_reqs k (stream_of fs) rs (fired o).
Proof.
  intros Hwf o Ho.
  destruct (no_error B k fs Hwf) as [Hne _]. rewrite Forall_forall in Hne. specialize (Hne o Ho).
  destruct o as [b cb|e]; [|discriminate]. cbn [fired].
  destruct (batch_reqs fs (stream_of fs) b) as (rs & -> & Hrs).
  { intros it Hit. apply (delivered_sound B k fs Hwf). unfold delivered. apply in_flat_map.
    exists (FOut b cb). split; [assumption|exact Hit]. }
  exists rs. split; [assumption|]. split; [reflexivity|apply observe_reqs].
Qed.

Example observed_ex :
  map (observe (mkkind true true)) (run 3 (mkkind true true)
    [mkfeed [10;11;12] [] [mkreq 0 2 5 100; mkreq 3 1 5 103] false; mkfeed [13;14;15;16] [] [] false]) =
  [ObsOut [] None false; ObsOut [[12;13;14;15;16]; [11;12;13;14;15]] (Some (2, [(100, false); (103, false)])) false].
Proof. vm_compute. reflexivity. Qed.
