(* C05 proofs, part 1: slices of the stream; one capture_epoch step and the replay over the
   look-back chunks, expressed with the stream the chunks were cut from. *)
From Coq Require Import ZArith List Bool Lia ZifyBool.
From PV Require Import Extract.Model Extract.Spec.
Import ListNotations.
Open Scope Z_scope.

(* ---------------------------------------------------------------- zlen / sl *)
Lemma zlen_nonneg {A} (l : list A) : 0 <= zlen l.
Proof. unfold zlen. lia. Qed.
Lemma zlen_app {A} (a b : list A) : zlen (a ++ b) = zlen a + zlen b.
Proof. unfold zlen. rewrite app_length. lia. Qed.
Lemma zlen_nil {A} : zlen (@nil A) = 0.
Proof. reflexivity. Qed.
Lemma zlen_cons {A} (x : A) l : zlen (x :: l) = 1 + zlen l.
Proof. unfold zlen. cbn [length]. lia. Qed.

Lemma sl_zero l a : sl l a 0 = [].
Proof. reflexivity. Qed.

Lemma sl_zlen l a n : 0 <= a -> 0 <= n -> a + n <= zlen l -> zlen (sl l a n) = n.
Proof.
  intros Ha Hn Hl. unfold sl, zlen in *. rewrite firstn_length, skipn_length. lia.
Qed.

Lemma sl_app_l l r a n : 0 <= a -> 0 <= n -> a + n <= zlen l -> sl (l ++ r) a n = sl l a n.
Proof.
  intros Ha Hn Hl. unfold sl, zlen in *. rewrite skipn_app, firstn_app.
  rewrite skipn_length.
  replace (Z.to_nat n - (length l - Z.to_nat a))%nat with 0%nat by lia.
  cbn [firstn]. now rewrite app_nil_r.
Qed.

Lemma sl_whole_r l r : sl (l ++ r) (zlen l) (zlen r) = r.
Proof.
  unfold sl, zlen. rewrite !Nat2Z.id, skipn_app, skipn_all, Nat.sub_diag. cbn [skipn app].
  apply firstn_all.
Qed.

Lemma skipn_skipn' {A} (x y : nat) (l : list A) : skipn x (skipn y l) = skipn (y + x) l.
Proof.
  revert l. induction y as [|y IH]; intros l; [reflexivity|].
  destruct l as [|h t]; cbn [skipn Nat.add]; [now destruct x|apply IH].
Qed.

Lemma firstn_add_skipn {A} (x y : nat) (L : list A) :
  firstn x L ++ firstn y (skipn x L) = firstn (x + y) L.
Proof.
  revert L. induction x as [|x IH]; intros L; [reflexivity|].
  destruct L as [|h t]; cbn [firstn skipn Nat.add app].
  - now rewrite firstn_nil.
  - f_equal. apply IH.
Qed.

Lemma sl_split l a x y : 0 <= a -> 0 <= x -> 0 <= y -> sl l a x ++ sl l (a + x) y = sl l a (x + y).
Proof.
  intros Ha Hx Hy. unfold sl.
  replace (Z.to_nat (a + x)) with (Z.to_nat a + Z.to_nat x)%nat by lia.
  rewrite <- skipn_skipn'.
  replace (Z.to_nat (x + y)) with (Z.to_nat x + Z.to_nat y)%nat by lia.
  apply firstn_add_skipn.
Qed.

Lemma sl_sl S s m i d : 0 <= s -> 0 <= i -> 0 <= d -> i + d <= m -> sl (sl S s m) i d = sl S (s + i) d.
Proof.
  intros Hs Hi Hd Hm. unfold sl.
  rewrite skipn_firstn_comm, firstn_firstn, skipn_skipn'.
  replace (Z.to_nat (s + i)) with (Z.to_nat s + Z.to_nat i)%nat by lia.
  f_equal. lia.
Qed.

Lemma py_slice_sl (l : list Z) i j : 0 <= i -> i <= j -> j <= zlen l ->
  py_slice (Some i) (Some j) l = sl l i (j - i).
Proof.
  intros Hi Hij Hj. unfold py_slice, py_lo, py_hi, adj_bound, sl.
  destruct (i <? 0) eqn:E1; [lia|]. destruct (j <? 0) eqn:E2; [lia|].
  rewrite !Z.min_l by lia. reflexivity.
Qed.

(* ---------------------------------------------------------------- one capture step *)
(* the capture of request r after all samples below T have been offered to it *)
Definition mkcap (S : list Z) (T : Z) (r : request) : capture :=
  {| c_s0 := r_lo r; c_cur := Z.max (r_lo r) T;
     c_rem := r_n r - (Z.max (r_lo r) T - r_lo r);
     c_acc := sl S (r_lo r) (Z.max (r_lo r) T - r_lo r); c_rid := r_rid r |}.

Lemma mkcap_ext S T1 T2 r : Z.max (r_lo r) T1 = Z.max (r_lo r) T2 -> mkcap S T1 r = mkcap S T2 r.
Proof. intros H. unfold mkcap. now rewrite H. Qed.

Lemma mkcap_new S P r : P <= r_lo r -> new_capture r = mkcap S P r.
Proof.
  intros H. unfold new_capture, mkcap. rewrite Z.max_l by lia.
  replace (r_lo r - r_lo r) with 0 by lia. rewrite sl_zero. f_equal. lia.
Qed.

Lemma mkcap_app S c T r : zlen S = T -> 0 <= r_lo r -> mkcap (S ++ c) T r = mkcap S T r.
Proof.
  intros HS Hlo. unfold mkcap. f_equal.
  destruct (Z.max_spec (r_lo r) T) as [[H1 H2]|[H1 H2]]; rewrite H2.
  - apply sl_app_l; lia.
  - replace (r_lo r - r_lo r) with 0 by lia. now rewrite !sl_zero.
Qed.

Lemma cap_send_mk S s m r :
  0 <= s -> 0 <= m -> s + m <= zlen S -> 0 <= r_lo r -> 0 <= r_n r -> s <= r_lo r + r_n r ->
  cap_send (mkcap S s r) s (sl S s m) =
  if r_lo r + r_n r <=? s + m then CDone (sl S (r_lo r) (r_n r)) else CCont (mkcap S (s + m) r).
Proof.
  intros Hs Hm HS Hlo Hn Hle.
  unfold cap_send. rewrite (sl_zlen S s m) by lia.
  cbn [mkcap c_cur c_rem c_acc c_s0 c_rid].
  set (cur := Z.max (r_lo r) s).
  assert (Hc1 : s <= cur) by (unfold cur; lia).
  assert (Hc2 : r_lo r <= cur) by (unfold cur; lia).
  assert (Hc3 : cur <= r_lo r + r_n r) by (unfold cur; lia).
  destruct (cur <? s) eqn:E0; [lia|].
  destruct (cur <=? s + m) eqn:E1.
  - set (d := Z.min (r_n r - (cur - r_lo r)) (m - (cur - s))).
    assert (Hd0 : 0 <= d) by (unfold d; lia).
    assert (Hd1 : cur - s + d <= m) by (unfold d; lia).
    rewrite py_slice_sl by (rewrite ?sl_zlen; lia).
    replace (cur - s + d - (cur - s)) with d by lia.
    rewrite sl_sl by lia.
    replace (s + (cur - s)) with (r_lo r + (cur - r_lo r)) by lia.
    rewrite sl_split by lia.
    destruct (r_lo r + r_n r <=? s + m) eqn:E2.
    + assert (Hd : d = r_n r - (cur - r_lo r)) by (unfold d; lia).
      replace (r_n r - (cur - r_lo r) - d =? 0) with true by lia.
      f_equal. f_equal. lia.
    + assert (Hd : d = m - (cur - s)) by (unfold d; lia).
      replace (r_n r - (cur - r_lo r) - d =? 0) with false by lia.
      f_equal. unfold mkcap.
      assert (Hmx : Z.max (r_lo r) (s + m) = s + m) by lia.
      rewrite Hmx. f_equal; try lia. f_equal; lia.
  - assert (Hcur : cur = r_lo r) by (unfold cur in *; lia).
    destruct (r_lo r + r_n r <=? s + m) eqn:E2; [lia|].
    f_equal. apply mkcap_ext. fold cur. lia.
Qed.

Lemma cap_send_new_missed r P d : r_lo r < P -> cap_send (new_capture r) P d = CMissed.
Proof.
  intros H. unfold cap_send, new_capture. cbn [c_cur].
  destruct (r_lo r <? P) eqn:E; [reflexivity|lia].
Qed.

(* ---------------------------------------------------------------- the kept chunks *)
(* bounds (start, length) of consecutive chunks covering [a, T) *)
Fixpoint contig (a : Z) (kept : list (Z * Z)) (T : Z) : Prop :=
  match kept with
  | [] => a = T
  | (s, m) :: t => s = a /\ 0 <= m /\ contig (a + m) t T
  end.

Definition kept_prior (S : list Z) (kept : list (Z * Z)) : list (Z * list Z) :=
  map (fun p => (fst p, sl S (fst p) (snd p))) kept.

Lemma contig_le a kept T : contig a kept T -> a <= T.
Proof.
  revert a. induction kept as [|[s m] t IH]; intros a H; cbn in H.
  - lia.
  - destruct H as (-> & Hm & H). apply IH in H. lia.
Qed.

Lemma contig_app a kept T m : contig a kept T -> 0 <= m -> contig a (kept ++ [(T, m)]) (T + m).
Proof.
  revert a. induction kept as [|[s m'] t IH]; intros a H Hm; cbn in *.
  - subst. repeat split; lia.
  - destruct H as (-> & Hm' & H). repeat split; auto.
Qed.

Lemma contig_bounds a kept T : contig a kept T -> 0 <= a ->
  forall p, In p kept -> 0 <= fst p /\ 0 <= snd p /\ fst p + snd p <= T.
Proof.
  revert a. induction kept as [|[s m] t IH]; intros a H Ha p Hin; cbn in *.
  - contradiction.
  - destruct H as (-> & Hm & H). destruct Hin as [<-|Hin].
    + cbn. apply contig_le in H. lia.
    + eapply IH; eauto. lia.
Qed.

Lemma contig_lb_start a kept T : contig a kept T -> lb_start T kept = a.
Proof. destruct kept as [|[s m] t]; cbn; intros H; [lia|tauto]. Qed.

Lemma kept_prior_app S c kept a T : contig a kept T -> 0 <= a -> T <= zlen S ->
  kept_prior (S ++ c) kept = kept_prior S kept.
Proof.
  intros Hc Ha HT. unfold kept_prior. apply map_ext_in. intros p Hp.
  destruct (contig_bounds _ _ _ Hc Ha p Hp) as (H1 & H2 & H3).
  f_equal. apply sl_app_l; lia.
Qed.

(* replay over consecutive chunks that start at s: the capture ends complete iff its last sample
   is below T *)
Lemma replay_strict S r : 0 <= r_lo r -> 0 <= r_n r ->
  forall kept s T, contig s kept T -> 0 <= s -> T <= zlen S -> s < r_lo r + r_n r ->
  replay (mkcap S s r) (kept_prior S kept) =
  if r_lo r + r_n r <=? T then CDone (sl S (r_lo r) (r_n r)) else CCont (mkcap S T r).
Proof.
  intros Hlo Hn. induction kept as [|[a m] t IH]; intros s T Hc Hs HT Hlt; cbn in Hc.
  - subst. cbn. destruct (r_lo r + r_n r <=? T) eqn:E; [lia|reflexivity].
  - destruct Hc as (-> & Hm & Hc). pose proof (contig_le _ _ _ Hc) as Hle.
    cbn [kept_prior map replay fst snd].
    rewrite cap_send_mk by lia.
    destruct (r_lo r + r_n r <=? s + m) eqn:E.
    + destruct (r_lo r + r_n r <=? T) eqn:E2; [reflexivity|lia].
    + apply IH; auto; lia.
Qed.

Lemma replay_first S r kept s T : 0 <= r_lo r -> 0 <= r_n r ->
  contig s kept T -> kept <> [] -> 0 <= s -> T <= zlen S -> s <= r_lo r ->
  replay (new_capture r) (kept_prior S kept) =
  if r_lo r + r_n r <=? T then CDone (sl S (r_lo r) (r_n r)) else CCont (mkcap S T r).
Proof.
  intros Hlo Hn Hc Hne Hs HT Hle. destruct kept as [|[a m] t]; [congruence|].
  cbn in Hc. destruct Hc as (-> & Hm & Hc). pose proof (contig_le _ _ _ Hc) as Hle2.
  rewrite (mkcap_new S s r Hle).
  cbn [kept_prior map replay fst snd].
  rewrite cap_send_mk by lia.
  destruct (r_lo r + r_n r <=? s + m) eqn:E.
  - destruct (r_lo r + r_n r <=? T) eqn:E2; [reflexivity|lia].
  - apply (replay_strict S r Hlo Hn t (s + m) T); auto; lia.
Qed.

Lemma replay_missed r kept s T S : contig s kept T -> kept <> [] -> r_lo r < s ->
  replay (new_capture r) (kept_prior S kept) = CMissed.
Proof.
  intros Hc Hne Hlt. destruct kept as [|[a m] t]; [congruence|].
  cbn in Hc. destruct Hc as (-> & _). cbn [kept_prior map replay fst snd].
  now rewrite cap_send_new_missed.
Qed.
