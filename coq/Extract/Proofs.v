(* C05 proofs, part 4: the property theorems about the coroutine model (Model.run), obtained from
   the refinement (ProofsRefine) and the analysis of the specification (ProofsSpec); and the
   all-done callback, proved on the model directly. *)
From Coq Require Import ZArith List Bool Lia ZifyBool.
From PV Require Import Extract.Model Extract.Spec Extract.ProofsCapture Extract.ProofsRefine Extract.ProofsSpec.
Import ListNotations.
Open Scope Z_scope.

Lemma wf_nonneg B fs : wf_sched B fs = true -> Forall (fun r => 0 <= r_n r) (all_reqs fs).
Proof. intros H. now destruct (wf_parts B fs H) as (_ & Hn & _). Qed.

Lemma run_is_sdeliv B k fs : wf_sched B fs = true ->
  delivered (run B k fs) = sdeliv B k sinit fs.
Proof.
  intros H. rewrite (run_refines_spec B k fs (wf_nonneg B fs H)). reflexivity.
Qed.

Lemma in_all_reqs_arrives fs r : In r (all_reqs fs) -> exists a, arrives fs a r.
Proof.
  intros H. unfold all_reqs in H. apply in_flat_map in H. destruct H as (f & Hf & Hr).
  apply In_nth_error in Hf. destruct Hf as (a & Ha). exists a, f. split; assumption.
Qed.

(* ---------------------------------------------------------------- delivered exactly once *)
Theorem delivered_once B k fs a r :
  wf_sched B fs = true -> arrives fs a r ->
  (forall j, removed_at fs j (r_key r) -> (a < j)%nat /\ r_lo r + r_n r <= seen fs j) ->
  r_lo r + r_n r <= zlen (stream_of fs) ->
  count_key (r_key r) (delivered (run B k fs)) = 1 /\
  In (s_item (stream_of fs) r) (delivered (run B k fs)) /\
  (forall it, In it (delivered (run B k fs)) -> i_key it = r_key r -> it = s_item (stream_of fs) r).
Proof.
  intros Hwf Harr Hrem Htot. rewrite (run_is_sdeliv B k fs Hwf).
  pose proof (wf_GW B fs Hwf) as HG.
  destruct (wf_parts B fs Hwf) as (_ & _ & Hnd & _).
  pose proof (arrives_in fs a r Harr) as Hin.
  destruct (count_fate B k fs sinit HG r) as [_ Hf]. destruct (Hf Hin) as [Hc Hi]. cbn [s_T sinit] in *.
  assert (Hfate : fate_f 0 fs r = true) by (apply (fate_f_true r fs 0 a); auto).
  rewrite Hfate in *. cbn [s_stream sinit app] in Hi.
  split; [exact Hc|]. split; [now apply Hi|].
  intros it Hit Hk. destruct (sdeliv_sound B k fs sinit HG it Hit) as (r' & Hr' & ->).
  cbn [s_wait s_stream sinit app] in *. cbn in Hk. f_equal.
  assert (H2 : In r' (filter (fun x => r_key x =? r_key r) (all_reqs fs))).
  { apply filter_In. split; [assumption|]. now apply Z.eqb_eq. }
  rewrite (filter_key_unique _ r Hnd Hin) in H2. destruct H2 as [H2|[]]. now subst.
Qed.

Theorem exact_once B k fs a r :
  wf_sched B fs = true -> arrives fs a r ->
  (forall j, ~ removed_at fs j (r_key r)) ->
  r_lo r + r_n r <= zlen (stream_of fs) ->
  count_key (r_key r) (delivered (run B k fs)) = 1 /\
  In (s_item (stream_of fs) r) (delivered (run B k fs)) /\
  (forall it, In it (delivered (run B k fs)) -> i_key it = r_key r -> it = s_item (stream_of fs) r).
Proof.
  intros Hwf Harr Hrem Htot. apply (delivered_once B k fs a r); auto.
  intros j Hj. exfalso. exact (Hrem j Hj).
Qed.

(* ---------------------------------------------------------------- removed: never delivered *)
Theorem removed_never B k fs a j r :
  wf_sched B fs = true -> arrives fs a r -> removed_at fs j (r_key r) ->
  ((j <= a)%nat \/ seen fs j < r_lo r + r_n r) ->
  count_key (r_key r) (delivered (run B k fs)) = 0.
Proof.
  intros Hwf Harr Hrem Hj. rewrite (run_is_sdeliv B k fs Hwf).
  pose proof (wf_GW B fs Hwf) as HG.
  destruct (wf_parts B fs Hwf) as (_ & _ & Hnd & Hok).
  pose proof (arrives_in fs a r Harr) as Hin.
  destruct (count_fate B k fs sinit HG r) as [_ Hf]. destruct (Hf Hin) as [Hc _]. cbn [s_T sinit] in *.
  rewrite Hc, (fate_f_false r fs 0 a j); auto.
Qed.

(* ---------------------------------------------------------------- whatever is delivered is right *)
Theorem delivered_sound B k fs : wf_sched B fs = true ->
  forall it, In it (delivered (run B k fs)) ->
  exists a r, arrives fs a r /\ it = s_item (stream_of fs) r.
Proof.
  intros Hwf it Hit. rewrite (run_is_sdeliv B k fs Hwf) in Hit.
  destruct (sdeliv_sound B k fs sinit (wf_GW B fs Hwf) it Hit) as (r & Hr & ->).
  cbn [s_wait s_stream sinit app] in *. destruct (in_all_reqs_arrives fs r Hr) as (a & Ha).
  exists a, r. split; [assumption|reflexivity].
Qed.

Theorem no_error B k fs : wf_sched B fs = true ->
  Forall (fun o => is_err o = false) (run B k fs) /\ length (run B k fs) = length fs.
Proof.
  intros Hwf. rewrite (run_refines_spec B k fs (wf_nonneg B fs Hwf)). unfold spec_run.
  destruct (spec_no_error B k fs sinit (wf_GW B fs Hwf)) as [H1 H2].
  split; [assumption|]. now rewrite map_length.
Qed.

(* sufficient conditions in the user's terms: one epoch length n0 >= 0 (epoch_size given) and every
   request's first sample not older than B samples before the chunk being sent when it becomes visible *)
Theorem lookback_ok B n0 fs :
  (0 <=? B) && (0 <=? n0) && forallb (fun r => r_n r =? n0) (all_reqs fs) && nodupz (req_keys fs) &&
  within_lookback B 0 fs && rems_ok fs = true -> wf_sched B fs = true.
Proof.
  intros H. unfold wf_sched. repeat (apply andb_true_iff in H; destruct H as [H ?]).
  assert (Hn : Forall (fun r => r_n r = n0) (all_reqs fs)).
  { apply Forall_forall. intros r Hr. rewrite forallb_forall in H3. specialize (H3 r Hr). lia. }
  repeat (apply andb_true_iff; split); auto.
  - apply forallb_forall. intros r Hr. rewrite Forall_forall in Hn. rewrite (Hn r Hr). lia.
  - apply (lengths_ok_same n0). exact Hn.
  - apply lookback_sufficient; [lia|assumption].
Qed.

(* the statement without the equal-length precondition is false: witness *)
Theorem unequal_lengths_refuted : exists B k fs a r,
  (0 <=? B) && forallb (fun r => 0 <=? r_n r) (all_reqs fs) && nodupz (req_keys fs) && visible B fs &&
  rems_ok fs = true /\
  arrives fs a r /\ (forall j, ~ removed_at fs j (r_key r)) /\ r_lo r + r_n r <= zlen (stream_of fs) /\
  count_key (r_key r) (delivered (run B k fs)) = 0 /\ run B k fs = [FErr EStack].
Proof.
  exists 0, (mkkind false false), [mkfeed [1;2;3;4] [] [mkreq 0 0 2 7; mkreq 1 1 3 8] true], 0%nat, (mkreq 0 0 2 7).
  split; [vm_compute; reflexivity|]. split; [eexists; split; [reflexivity|cbn; auto]|].
  split.
  { intros j (f & E & H). destruct j as [|[|j]]; cbn in E; inversion E; subst; cbn in H; contradiction. }
  split; [vm_compute; discriminate|]. split; vm_compute; reflexivity.
Qed.

(* ---------------------------------------------------------------- the all-done callback *)
Lemma feed_step_out B k st f st' b cb : feed_step B k st f = (st', FOut b cb) ->
  cb = f_complete f && is_nil (pending st') && armed st /\ armed st' = armed st && negb cb.
Proof.
  unfold feed_step. destruct (drain fst (f_rems f) (pending st) []) as [pend1 skip].
  destruct (send_all (tlb st) (f_chunk f) pend1) as [pend2 ev1].
  destruct (intake (f_reqs f) (prior st ++ [(tlb st, f_chunk f)]) pend2 skip) as [[pend3 ev2]|]; [|discriminate].
  destruct (negb (stack_ok k (ev1 ++ ev2))); [discriminate|].
  intros E. inversion E; subst. cbn. split; reflexivity.
Qed.

Lemma fire_count_cons o outs : fire_count (o :: outs) = Z.b2z (fired o) + fire_count outs.
Proof. unfold fire_count. cbn [filter]. destruct (fired o); [rewrite zlen_cons|]; cbn; lia. Qed.

Lemma fire_le B k : forall fs st, fire_count (map snd (trace B k st fs)) <= Z.b2z (armed st).
Proof.
  induction fs as [|f rest IH]; intros st; cbn [trace].
  - cbn. destruct (armed st); cbn; lia.
  - destruct (feed_step B k st f) as [st' o] eqn:E. destruct o as [b cb|e].
    + destruct (feed_step_out _ _ _ _ _ _ _ E) as [Hcb Harm].
      cbn [map snd]. rewrite fire_count_cons. cbn [fired]. specialize (IH st'). rewrite Harm in IH.
      destruct cb eqn:Ecb, (armed st) eqn:Ea; cbn [Z.b2z andb negb] in *; lia.
    + cbn. destruct (armed st); cbn; lia.
Qed.

Theorem done_at_most_once B k fs : fire_count (run B k fs) <= 1.
Proof. unfold run. pose proof (fire_le B k fs xinit). cbn in *. lia. Qed.

(* complete characterisation: the callback fires at send #j exactly when the source is flagged
   complete at that send, nothing is pending after it, and it has not fired before *)
Lemma fire_char B k : forall fs st0 j st b cb f,
  nth_error (trace B k st0 fs) j = Some (st, FOut b cb) -> nth_error fs j = Some f ->
  cb = f_complete f && is_nil (pending st) &&
       (armed st0 && negb (existsb fired (firstn j (map snd (trace B k st0 fs))))).
Proof.
  induction fs as [|f0 rest IH]; intros st0 j st b cb f Ht Hf; [destruct j; discriminate|].
  cbn [trace] in *. destruct (feed_step B k st0 f0) as [st' o] eqn:E. destruct o as [b0 cb0|e].
  - destruct (feed_step_out _ _ _ _ _ _ _ E) as [Hcb Harm]. destruct j as [|j].
    + cbn in Ht, Hf. inversion Ht; inversion Hf; subst. cbn. now rewrite andb_true_r.
    + cbn [nth_error] in Ht, Hf. rewrite (IH st' j st b cb f Ht Hf).
      cbn [map snd firstn existsb fired]. rewrite Harm.
      destruct (armed st0), cb0; cbn; reflexivity.
  - destruct j as [|[|j]]; cbn in Ht; discriminate.
Qed.

Theorem done_only_when B k fs j st b :
  nth_error (trace B k xinit fs) j = Some (st, FOut b true) ->
  pending st = [] /\ (exists f, nth_error fs j = Some f /\ f_complete f = true) /\
  existsb fired (firstn j (run B k fs)) = false.
Proof.
  intros Ht.
  assert (Hlen : (j < length fs)%nat).
  { apply nth_error_Some. intros Hn.
    assert (Hl : forall fs st0, (length (trace B k st0 fs) <= length fs)%nat).
    { induction fs0 as [|f0 r0 IH]; intros st0; cbn [trace]; [cbn; lia|].
      destruct (feed_step B k st0 f0) as [st' o]. destruct o; cbn; [specialize (IH st')|]; lia. }
    apply nth_error_None in Hn. specialize (Hl fs xinit).
    assert (nth_error (trace B k xinit fs) j <> None) by congruence.
    apply nth_error_Some in H. lia. }
  destruct (nth_error fs j) as [f|] eqn:Ef; [|apply nth_error_None in Ef; lia].
  pose proof (fire_char B k fs xinit j st b true f Ht Ef) as H. symmetry in H.
  apply andb_true_iff in H. destruct H as [H H3]. apply andb_true_iff in H. destruct H as [H1 H2].
  split; [now destruct (pending st)|]. split; [eauto|].
  cbn in H3. unfold run. now apply negb_true_iff in H3.
Qed.

Theorem done_fires B k fs j st b f :
  nth_error (trace B k xinit fs) j = Some (st, FOut b false) -> nth_error fs j = Some f ->
  f_complete f = true -> pending st = [] ->
  existsb fired (firstn j (run B k fs)) = true.
Proof.
  intros Ht Ef Hc Hp. pose proof (fire_char B k fs xinit j st b false f Ht Ef) as H.
  rewrite Hc, Hp in H. cbn in H. unfold run. destruct (existsb fired _); [reflexivity|discriminate].
Qed.

(* "pending is empty" in terms of the requests: nothing waits in the specification either *)
Theorem done_means_all_delivered B k fs j st b :
  wf_sched B fs = true ->
  nth_error (trace B k xinit fs) j = Some (st, FOut b true) ->
  exists s, nth_error (spec_trace B k sinit fs) j = Some (s, FOut b true) /\ s_wait s = [].
Proof.
  intros Hwf Ht.
  pose proof (trace_pending B k fs xinit sinit R_init (wf_nonneg B fs Hwf)) as HF.
  destruct (done_only_when B k fs j st b Ht) as (Hp & _ & _).
  revert j Ht. induction HF as [|[st1 o1] [s1 o2] l1 l2 [Ho Hw] HF IH]; intros j Ht; [destruct j; discriminate|].
  destruct j as [|j]; cbn in *.
  - inversion Ht; subst. exists s1. split; [reflexivity|]. apply Hw; [reflexivity|assumption].
  - apply IH. assumption.
Qed.
