(* C05, coverage-audit additions, part 2: extract_epochs with empty_queue_cb=None (Model.xinit_nocb).
   The callback is observation only: the run without it is, send by send and state by state, the run with it
   with the `armed` flag down and the callback output taken away; it never fires. *)
From Coq Require Import ZArith List Bool Lia ZifyBool.
From PV Require Import Extract.Model Extract.Spec Extract.SpecX Extract.ProofsCapture Extract.ProofsSpec Extract.Proofs.
Import ListNotations.
Open Scope Z_scope.

Lemma feed_step_disarm B k st f : feed_step B k (disarm st) f = mute (feed_step B k st f).
Proof.
  unfold feed_step, mute, disarm. cbn [tlb pending prior armed].
  destruct (drain fst (f_rems f) (pending st) []) as [pend1 skip].
  destruct (send_all (tlb st) (f_chunk f) pend1) as [pend2 ev1].
  destruct (intake (f_reqs f) (prior st ++ [(tlb st, f_chunk f)]) pend2 skip) as [[pend3 ev2]|]; [|reflexivity].
  destruct (negb (stack_ok k (ev1 ++ ev2))); [reflexivity|].
  cbn [fst snd silence tlb pending prior armed]. rewrite andb_false_r. reflexivity.
Qed.

(* the simulation: disarming the start state disarms every state of the trace and silences every output *)
Lemma trace_disarm B k : forall fs st, trace B k (disarm st) fs = map mute (trace B k st fs).
Proof.
  induction fs as [|f rest IH]; intros st; [reflexivity|].
  cbn [trace]. rewrite feed_step_disarm. destruct (feed_step B k st f) as [st' o].
  unfold mute at 1. cbn [fst snd]. destruct o as [b cb|e]; cbn [silence map].
  - rewrite IH. reflexivity.
  - reflexivity.
Qed.

Lemma xinit_nocb_disarm : xinit_nocb = disarm xinit.
Proof. reflexivity. Qed.

Lemma batch_of_silence o : batch_of (silence o) = batch_of o.
Proof. now destruct o. Qed.
Lemma is_err_silence o : is_err (silence o) = is_err o.
Proof. now destruct o. Qed.
Lemma fired_silence o : fired (silence o) = false.
Proof. now destruct o. Qed.

Lemma delivered_silence l : delivered (map silence l) = delivered l.
Proof.
  unfold delivered. induction l as [|o t IH]; [reflexivity|].
  cbn [map flat_map]. rewrite IH, batch_of_silence. reflexivity.
Qed.

Theorem nocb_simulation B k fs :
  trace B k xinit_nocb fs = map mute (trace B k xinit fs) /\
  run_nocb B k fs = map silence (run B k fs).
Proof.
  rewrite xinit_nocb_disarm. split; [apply trace_disarm|].
  unfold run_nocb, run. rewrite xinit_nocb_disarm, trace_disarm, !map_map. reflexivity.
Qed.

Lemma fire_count_zero l : Forall (fun o => fired o = false) l -> fire_count l = 0.
Proof.
  unfold fire_count. induction 1 as [|o t Ho _ IH]; [reflexivity|]. cbn [filter]. now rewrite Ho.
Qed.

Theorem nocb_never_fires B k fs :
  Forall (fun o => fired o = false) (run_nocb B k fs) /\ fire_count (run_nocb B k fs) = 0 /\
  Forall (fun p => armed (fst p) = false) (trace B k xinit_nocb fs).
Proof.
  destruct (nocb_simulation B k fs) as [Ht Hr]. rewrite Hr, Ht.
  assert (HF : Forall (fun o => fired o = false) (map silence (run B k fs))).
  { apply Forall_forall. intros o Ho. apply in_map_iff in Ho. destruct Ho as (o' & <- & _). apply fired_silence. }
  split; [exact HF|]. split.
  - now apply fire_count_zero.
  - apply Forall_forall. intros p Hp. apply in_map_iff in Hp. destruct Hp as (p' & <- & _). reflexivity.
Qed.

(* send by send, the epochs delivered and the errors raised are those of the run with the callback *)
Theorem nocb_same_epochs B k fs :
  length (run_nocb B k fs) = length (run B k fs) /\
  map batch_of (run_nocb B k fs) = map batch_of (run B k fs) /\
  map is_err (run_nocb B k fs) = map is_err (run B k fs) /\
  delivered (run_nocb B k fs) = delivered (run B k fs) /\
  (forall j o, nth_error (run B k fs) j = Some o -> nth_error (run_nocb B k fs) j = Some (silence o)).
Proof.
  destruct (nocb_simulation B k fs) as [_ Hr]. rewrite Hr.
  split; [apply map_length|]. split; [|split; [|split]].
  - rewrite map_map. apply map_ext. apply batch_of_silence.
  - rewrite map_map. apply map_ext. apply is_err_silence.
  - apply delivered_silence.
  - intros j o Hj. now apply map_nth_error.
Qed.

(* ... so every C05 statement about delivered epochs holds without the callback too *)
Theorem nocb_exact_once B k fs a r :
  wf_sched B fs = true -> arrives fs a r ->
  (forall j, removed_at fs j (r_key r) -> (a < j)%nat /\ r_lo r + r_n r <= seen fs j) ->
  r_lo r + r_n r <= zlen (stream_of fs) ->
  Forall (fun o => is_err o = false) (run_nocb B k fs) /\
  count_key (r_key r) (delivered (run_nocb B k fs)) = 1 /\
  In (s_item (stream_of fs) r) (delivered (run_nocb B k fs)) /\
  (forall it, In it (delivered (run_nocb B k fs)) -> i_key it = r_key r -> it = s_item (stream_of fs) r).
Proof.
  intros Hwf Harr Hrem Htot.
  destruct (nocb_same_epochs B k fs) as (_ & _ & He & Hd & _). rewrite Hd.
  split; [|now apply (delivered_once B k fs a r)].
  destruct (no_error B k fs Hwf) as [Hn _].
  apply Forall_forall. intros o Ho.
  assert (Hin : In (is_err o) (map is_err (run_nocb B k fs))) by now apply in_map.
  rewrite He in Hin. apply in_map_iff in Hin. destruct Hin as (o' & Ho' & Hin').
  rewrite Forall_forall in Hn. rewrite <- Ho'. now apply Hn.
Qed.

Theorem nocb_removed_never B k fs a j r :
  wf_sched B fs = true -> arrives fs a r -> removed_at fs j (r_key r) ->
  ((j <= a)%nat \/ seen fs j < r_lo r + r_n r) ->
  count_key (r_key r) (delivered (run_nocb B k fs)) = 0.
Proof.
  intros Hwf Harr Hrem Hj. destruct (nocb_same_epochs B k fs) as (_ & _ & _ & Hd & _). rewrite Hd.
  now apply (removed_never B k fs a j r).
Qed.

(* the harness predicate check_run_nocb is check_run on the silenced observations *)
Definition obs_silence (o : obs) : obs :=
  match o with ObsErr e => ObsErr e | ObsOut rows ann _ => ObsOut rows ann false end.
Lemma observe_silence k o : observe k (silence o) = obs_silence (observe k o).
Proof. now destruct o. Qed.
Theorem check_run_nocb_spec B k fs got :
  check_run_nocb B k fs got = eqb_list eqb_obs (map obs_silence (map (observe k) (run B k fs))) got.
Proof.
  unfold check_run_nocb. fold (run_nocb B k fs).
  destruct (nocb_simulation B k fs) as [_ Hr]. rewrite Hr, !map_map.
  f_equal. apply map_ext. intros o. apply observe_silence.
Qed.

(* a schedule on which the armed run does fire: the two runs differ there, and only there *)
Example nocb_ex :
  let fs := [mkfeed [1;2] [] [mkreq 0 1 2 7] false; mkfeed [3;4] [] [] true; mkfeed [5] [] [] true] in
  run 0 (mkkind false false) fs =
    [FOut [] false; FOut [{| i_key := 0; i_rid := 7; i_s0 := 1; i_data := [2;3]; i_missed := false |}] true; FOut [] false] /\
  run_nocb 0 (mkkind false false) fs =
    [FOut [] false; FOut [{| i_key := 0; i_rid := 7; i_s0 := 1; i_data := [2;3]; i_missed := false |}] false; FOut [] false].
Proof. vm_compute. split; reflexivity. Qed.
