(* C05, coverage-audit additions, part 1: capture_epoch used stand-alone (Model.capture_run).
   A capture of [lo, lo+n) fed with ANY chunking (empty chunks included) of a contiguous stream shows
   nothing until the chunk that contains sample lo+n-1 and then exactly stream[lo, lo+n); it reports
   "missed" exactly when the first chunk starts after lo. *)
From Coq Require Import ZArith List Bool Lia ZifyBool.
From PV Require Import Extract.Model Extract.Spec Extract.SpecX Extract.ProofsCapture.
Import ListNotations.
Open Scope Z_scope.

(* ---------------------------------------------------------------- translation of the sample axis *)
Definition shiftc (dl : Z) (c : capture) : capture :=
  {| c_s0 := c_s0 c + dl; c_cur := c_cur c + dl; c_rem := c_rem c; c_acc := c_acc c; c_rid := c_rid c |}.
Definition shiftr (dl : Z) (r : cres) : cres :=
  match r with CCont c => CCont (shiftc dl c) | CDone d => CDone d | CMissed => CMissed end.

Lemma cap_send_shift dl c slb d : cap_send (shiftc dl c) (slb + dl) d = shiftr dl (cap_send c slb d).
Proof.
  unfold cap_send, shiftc. cbn [c_cur c_rem c_acc c_s0 c_rid].
  destruct (c_cur c + dl <? slb + dl) eqn:E1; destruct (c_cur c <? slb) eqn:E2; try lia; [reflexivity|].
  destruct (c_cur c + dl <=? slb + dl + zlen d) eqn:E3; destruct (c_cur c <=? slb + zlen d) eqn:E4; try lia;
    [|reflexivity].
  replace (c_cur c + dl - (slb + dl)) with (c_cur c - slb) by lia.
  destruct (c_rem c - Z.min (c_rem c) (zlen d - (c_cur c - slb)) =? 0); [reflexivity|].
  cbn [shiftr]. unfold shiftc. cbn [c_cur c_rem c_acc c_s0 c_rid]. f_equal. f_equal. lia.
Qed.

Lemma capture_run_shift dl : forall cs c s,
  capture_run (shiftc dl c) (tag (s + dl) cs) = capture_run c (tag s cs).
Proof.
  induction cs as [|x t IH]; intros c s; [reflexivity|].
  cbn [tag capture_run]. rewrite cap_send_shift.
  destruct (cap_send c s x) as [c'| |]; cbn [shiftr]; [|reflexivity|reflexivity].
  f_equal. replace (s + dl + zlen x) with (s + zlen x + dl) by lia. apply IH.
Qed.

Lemma cap_spec_shift dl e d : forall cs T, cap_spec (T + dl) (e + dl) d cs = cap_spec T e d cs.
Proof.
  induction cs as [|x t IH]; intros T; [reflexivity|]. cbn [cap_spec].
  destruct (e + dl <=? T + dl + zlen x) eqn:E1; destruct (e <=? T + zlen x) eqn:E2; try lia; [reflexivity|].
  f_equal. replace (T + dl + zlen x) with (T + zlen x + dl) by lia. apply IH.
Qed.

(* ---------------------------------------------------------------- the stream from sample 0 on *)
Lemma sl_mid (A c R : list Z) : sl (A ++ c ++ R) (zlen A) (zlen c) = c.
Proof.
  rewrite app_assoc. rewrite sl_app_l.
  - apply sl_whole_r.
  - apply zlen_nonneg.
  - apply zlen_nonneg.
  - rewrite zlen_app. lia.
Qed.

Lemma capture_run_mk S r : 0 <= r_lo r -> 0 <= r_n r ->
  forall cs A, S = A ++ concat cs -> zlen A <= r_lo r + r_n r ->
  capture_run (mkcap S (zlen A) r) (tag (zlen A) cs) =
  cap_spec (zlen A) (r_lo r + r_n r) (sl S (r_lo r) (r_n r)) cs.
Proof.
  intros Hlo Hn. induction cs as [|c t IH]; intros A HS Hle; [reflexivity|].
  cbn [concat] in HS. cbn [tag capture_run cap_spec].
  assert (Hc : sl S (zlen A) (zlen c) = c) by (rewrite HS; apply sl_mid).
  assert (HlenS : zlen A + zlen c <= zlen S).
  { rewrite HS, !zlen_app. pose proof (zlen_nonneg (concat t)). lia. }
  replace (cap_send (mkcap S (zlen A) r) (zlen A) c)
    with (cap_send (mkcap S (zlen A) r) (zlen A) (sl S (zlen A) (zlen c))) by (now rewrite Hc).
  pose proof (zlen_nonneg A) as HA. pose proof (zlen_nonneg c) as Hcn.
  rewrite cap_send_mk by lia.
  destruct (r_lo r + r_n r <=? zlen A + zlen c) eqn:E; [reflexivity|].
  f_equal. rewrite <- zlen_app. apply IH.
  - now rewrite <- app_assoc.
  - rewrite zlen_app. lia.
Qed.

(* ---------------------------------------------------------------- the theorems *)
Theorem capture_standalone k rid lo n s0 cs : 0 <= n -> s0 <= lo ->
  capture_run (new_capture (mkreq k lo n rid)) (tag s0 cs) =
  cap_spec s0 (lo + n) (sl (concat cs) (lo - s0) n) cs.
Proof.
  intros Hn Hs.
  set (r := mkreq k (lo - s0) n rid).
  assert (E1 : new_capture (mkreq k lo n rid) = shiftc s0 (new_capture r)).
  { unfold new_capture, shiftc, r, mkreq. cbn. f_equal; lia. }
  rewrite E1. replace (tag s0 cs) with (tag (0 + s0) cs) by (f_equal; lia).
  rewrite capture_run_shift.
  rewrite (mkcap_new (concat cs) 0 r) by (unfold r; cbn; lia).
  change 0 with (zlen (@nil Z)) at 1 2.
  rewrite (capture_run_mk (concat cs) r) by (unfold r; cbn; try reflexivity; lia).
  unfold r. cbn [r_lo r_n mkreq]. change (zlen (@nil Z)) with 0.
  rewrite <- (cap_spec_shift s0 (lo - s0 + n) (sl (concat cs) (lo - s0) n) cs 0).
  f_equal; lia.
Qed.

Theorem capture_missed k rid lo n s0 c cs : lo < s0 ->
  capture_run (new_capture (mkreq k lo n rid)) (tag s0 (c :: cs)) = [CMiss].
Proof.
  intros H. cbn [tag capture_run]. now rewrite cap_send_new_missed by (cbn; lia).
Qed.

(* shape of the specified observation: nothing while the stream is short of sample e, then the data once *)
Lemma cap_spec_pending e d : forall cs T, T + zlen (concat cs) < e ->
  cap_spec T e d cs = repeat CNone (length cs).
Proof.
  induction cs as [|c t IH]; intros T H; [reflexivity|]. cbn [concat] in H. rewrite zlen_app in H.
  pose proof (zlen_nonneg (concat t)). cbn [cap_spec length repeat].
  destruct (e <=? T + zlen c) eqn:E; [lia|]. f_equal. apply IH. lia.
Qed.

Lemma cap_spec_done e d : forall cs T, e <= T + zlen (concat cs) -> cs <> [] ->
  exists j, (j < length cs)%nat /\ cap_spec T e d cs = repeat CNone j ++ [CData d] /\
            e <= T + zlen (concat (firstn (S j) cs)) /\
            (forall i, (i < j)%nat -> T + zlen (concat (firstn (S i) cs)) < e).
Proof.
  induction cs as [|c t IH]; intros T H Hne; [congruence|]. cbn [cap_spec].
  destruct (e <=? T + zlen c) eqn:E.
  - exists 0%nat. cbn [length repeat app firstn concat]. rewrite app_nil_r.
    repeat split; [lia|lia|intros i Hi; lia].
  - cbn [concat] in H. rewrite zlen_app in H.
    assert (Ht : t <> []) by (intros ->; cbn in H; lia).
    destruct (IH (T + zlen c)) as (j & Hj & Hs & Hle & Hlt); [lia|assumption|].
    exists (S j). cbn [length repeat app]. split; [lia|]. split; [now rewrite Hs|].
    split.
    + change (firstn (S (S j)) (c :: t)) with (c :: firstn (S j) t). cbn [concat]. rewrite zlen_app. lia.
    + intros i Hi. change (firstn (S i) (c :: t)) with (c :: firstn i t). cbn [concat]. rewrite zlen_app.
      destruct i as [|i]; [cbn; lia|]. specialize (Hlt i). lia.
Qed.

Lemma cap_spec_no_miss e d : forall cs T, ~ In CMiss (cap_spec T e d cs).
Proof.
  induction cs as [|c t IH]; intros T; cbn [cap_spec]; [tauto|].
  destruct (e <=? T + zlen c).
  - intros [H|[]]. discriminate.
  - intros [H|H]; [discriminate|]. exact (IH _ H).
Qed.

(* "missed" is reported exactly when there is a first chunk and it starts after lo *)
Theorem capture_missed_iff k rid lo n s0 cs : 0 <= n ->
  In CMiss (capture_run (new_capture (mkreq k lo n rid)) (tag s0 cs)) <-> cs <> [] /\ lo < s0.
Proof.
  intros Hn. split.
  - intros H. destruct (Z_lt_le_dec lo s0) as [Hlt|Hle].
    + split; [|assumption]. intros ->. exact H.
    + rewrite capture_standalone in H by assumption. exfalso. exact (cap_spec_no_miss _ _ _ _ H).
  - intros [Hne Hlt]. destruct cs as [|c t]; [congruence|]. rewrite capture_missed by assumption. now left.
Qed.

(* the whole answer in one statement: whatever the chunking, once the stream reaches sample lo+n the capture
   has shown j times nothing and then exactly stream[lo, lo+n), where chunk #j is the first that brings the
   stream up to lo+n; while the stream is shorter it has shown nothing *)
Theorem capture_any_chunking k rid lo n s0 cs : 0 <= n -> s0 <= lo ->
  let out := capture_run (new_capture (mkreq k lo n rid)) (tag s0 cs) in
  let d := sl (concat cs) (lo - s0) n in
  (s0 + zlen (concat cs) < lo + n -> out = repeat CNone (length cs)) /\
  (lo + n <= s0 + zlen (concat cs) -> cs <> [] ->
   exists j, (j < length cs)%nat /\ out = repeat CNone j ++ [CData d] /\ zlen d = n /\
             lo + n <= s0 + zlen (concat (firstn (S j) cs)) /\
             (forall i, (i < j)%nat -> s0 + zlen (concat (firstn (S i) cs)) < lo + n)).
Proof.
  intros Hn Hs out d. unfold out. rewrite capture_standalone by assumption. split.
  - apply cap_spec_pending.
  - intros Hle Hne. destruct (cap_spec_done (lo + n) d cs s0 Hle Hne) as (j & Hj & Hsp & H1 & H2).
    exists j. repeat split; auto. unfold d. apply sl_zlen; lia.
Qed.

(* two chunkings of the same stream end with the same epoch *)
Theorem capture_chunking_independent k rid lo n s0 cs1 cs2 : 0 <= n -> s0 <= lo ->
  concat cs1 = concat cs2 -> lo + n <= s0 + zlen (concat cs1) -> cs1 <> [] -> cs2 <> [] ->
  exists j1 j2,
    capture_run (new_capture (mkreq k lo n rid)) (tag s0 cs1) = repeat CNone j1 ++ [CData (sl (concat cs1) (lo - s0) n)] /\
    capture_run (new_capture (mkreq k lo n rid)) (tag s0 cs2) = repeat CNone j2 ++ [CData (sl (concat cs1) (lo - s0) n)].
Proof.
  intros Hn Hs Hc Hle H1 H2.
  destruct (capture_any_chunking k rid lo n s0 cs1 Hn Hs) as [_ Ha].
  destruct (capture_any_chunking k rid lo n s0 cs2 Hn Hs) as [_ Hb].
  destruct (Ha Hle H1) as (j1 & _ & E1 & _). rewrite Hc in Hle. destruct (Hb Hle H2) as (j2 & _ & E2 & _).
  exists j1, j2. split; [exact E1|]. rewrite Hc. exact E2.
Qed.

(* the harness predicate check_capture accepts exactly the specified observation *)
Lemma eqb_listZ_refl l : eqb_listZ l l = true.
Proof. induction l as [|x t IH]; [reflexivity|]. cbn. rewrite IH. lia. Qed.
Lemma eqb_cobs_refl l : eqb_list eqb_cobs l l = true.
Proof.
  induction l as [|x t IH]; [reflexivity|]. cbn [eqb_list]. rewrite IH.
  destruct x; cbn; [reflexivity|now rewrite eqb_listZ_refl|reflexivity].
Qed.
Lemma eqb_listZ_eq : forall a b, eqb_listZ a b = true -> a = b.
Proof.
  induction a as [|x a IH]; destruct b as [|y b]; cbn; intros H; try discriminate; [reflexivity|].
  apply andb_true_iff in H. destruct H as [H1 H2]. f_equal; [lia|now apply IH].
Qed.
Lemma eqb_cobs_eq : forall a b, eqb_list eqb_cobs a b = true -> a = b.
Proof.
  induction a as [|x a IH]; destruct b as [|y b]; cbn [eqb_list]; intros H; try discriminate; [reflexivity|].
  apply andb_true_iff in H. destruct H as [H1 H2]. f_equal; [|now apply IH].
  destruct x, y; cbn in H1; try discriminate; try reflexivity. f_equal. now apply eqb_listZ_eq.
Qed.

Theorem check_capture_spec lo n s0 cs got : 0 <= n -> s0 <= lo ->
  check_capture lo n (tag s0 cs) got = true <-> got = cap_spec s0 (lo + n) (sl (concat cs) (lo - s0) n) cs.
Proof.
  intros Hn Hs. unfold check_capture. rewrite capture_standalone by assumption. split.
  - intros H. symmetry. now apply eqb_cobs_eq.
  - intros ->. apply eqb_cobs_refl.
Qed.

(* the hypotheses are satisfiable: capture [4,9) from a stream that starts at sample 2, chunks of 3,0,1,4,2 *)
Example capture_ex :
  capture_run (new_capture (mkreq 0 4 5 0)) (tag 2 [[12;13;14]; []; [15]; [16;17;18;19]; [20;21]]) =
  [CNone; CNone; CNone; CData [14;15;16;17;18]] /\
  capture_run (new_capture (mkreq 0 4 5 0)) (tag 5 [[15;16]; [17]]) = [CMiss].
Proof. vm_compute. split; reflexivity. Qed.
