(* Stateful map with accumulator, one-shot and chunk by chunk (used to state the filter lemma). *)
From Coq Require Import List.
Import ListNotations.

Fixpoint mapaccum {St A B} (f : St -> A -> St * B) (z : St) (l : list A) : St * list B :=
  match l with
  | [] => (z, [])
  | x :: t => let '(z1, y) := f z x in let '(z2, ys) := mapaccum f z1 t in (z2, y :: ys)
  end.

Fixpoint mapaccum_chunks {St A B} (f : St -> A -> St * B) (z : St) (chunks : list (list A)) : St * list B :=
  match chunks with
  | [] => (z, [])
  | c :: t => let '(z1, ys) := mapaccum f z c in let '(z2, rest) := mapaccum_chunks f z1 t in (z2, ys ++ rest)
  end.
