(* C01: chunk invariance of every generator expression. *)
From PV Require Import Stim.Model Stim.Spec Stim.ProofsLib Stim.ProofsFrag Stim.ProofsSqEnv.
From Coq Require Import ZArith List Bool Lia ZifyBool.
Import ListNotations.
Open Scope Z_scope.

(* ------------------------------------------------------------------ *)
(* FixedWaveform.next over a zrange *)
Lemma fixed_next_zrange (f : Z -> sample) L o n : 0 <= L -> 0 <= o -> 0 <= n ->
  fixed_next (zrange f 0 L) o n = zrange (fun p => if p <? L then f p else szero) o n.
Proof.
  intros HL Ho Hn. unfold fixed_next. rewrite py_slice_zrange by lia.
  remember (Z.min (o + n) L - Z.min o L) as m eqn:Em.
  assert (Hm : 0 <= m <= n /\ (0 < m -> Z.min o L = o /\ o + m <= L) /\ (m < n -> L <= o + m))
    by (clear - Em HL Ho Hn; lia).
  destruct Hm as (M1 & M2 & M3). rewrite zlen_zrange by lia.
  destruct (m <? n) eqn:E.
  - rewrite (zrepeat_zrange szero (o + m)).
    replace (zrange (fun p => if p <? L then f p else szero) o n)
      with (zrange (fun p => if p <? L then f p else szero) o (m + (n - m))) by (f_equal; lia).
    rewrite zrange_app by lia. f_equal; apply zrange_ext; intros k Hk.
    + destruct (o + k <? L) eqn:E2; [f_equal; lia|lia].
    + destruct (o + m + k <? L) eqn:E2; [lia|reflexivity].
  - replace n with m by lia. apply zrange_ext; intros k Hk.
    destruct (o + k <? L) eqn:E2; [f_equal; lia|lia].
Qed.

(* ------------------------------------------------------------------ *)
(* RepeatFactory: the tiled array is the denotation on [0, (n+skip)*period) *)
Lemma mod_off base period k : 0 < period -> base mod period = 0 -> 0 <= k < period ->
  (base + k) mod period = k.
Proof.
  intros Hp Hb Hk. symmetry. apply (Z.mod_unique (base + k) period (base / period)); [left; lia|].
  pose proof (Z.div_mod base period ltac:(lia)) as E. rewrite Hb in E. lia.
Qed.

Lemma concat_rows (rowf : Z -> sample) period (m : nat) : 0 < period -> forall base,
  base mod period = 0 ->
  concat (repeat (zrange rowf 0 period) m)
  = zrange (fun p => rowf (p mod period)) base (Z.of_nat m * period).
Proof.
  intros Hp. induction m as [|m IH]; intros base Hb; [reflexivity|].
  cbn [repeat concat].
  replace (Z.of_nat (S m) * period) with (period + Z.of_nat m * period) by lia.
  assert (0 <= Z.of_nat m * period) by (apply Z.mul_nonneg_nonneg; lia).
  rewrite zrange_app by lia. f_equal.
  - apply zrange_ext. intros k Hk. rewrite mod_off by assumption. f_equal.
  - apply IH. replace (base + period) with (base + 1 * period) by lia.
    rewrite Z.mod_add by lia. exact Hb.
Qed.

Lemma den_repeat_outside n skip period sdelay g p : 0 < period ->
  (n + skip) * period <= p -> den (GRepeat n skip period sdelay g) p = szero.
Proof.
  intros Hp H. cbn [den].
  assert (n + skip <= p / period) by (apply Z.div_le_lower_bound; lia).
  destruct (p / period <? skip + n) eqn:E; [lia|].
  rewrite andb_false_r. reflexivity.
Qed.

Lemma repeat_wave_eq n skip period sdelay g lw :
  0 <= n -> 0 <= skip -> 0 <= sdelay -> 0 < period -> 0 <= lw <= period - sdelay ->
  total_len all_repaired g = Some lw ->
  repeat_wave n skip period sdelay (zrange (den g) 0 lw)
  = Some (zrange (den (GRepeat n skip period sdelay g)) 0 ((n + skip) * period)).
Proof.
  intros Hn Hs Hd Hp Hlw Ht. unfold repeat_wave. rewrite zlen_zrange by lia.
  destruct (lw >? period - sdelay) eqn:E; [lia|]. clear E. f_equal.
  set (rowf := fun c => if (sdelay <=? c) && (c <? sdelay + lw) then den g (c - sdelay) else szero).
  assert (Hrow : zrepeat szero sdelay ++ zrange (den g) 0 lw ++ zrepeat szero (period - sdelay - lw)
                 = zrange rowf 0 period).
  { replace (zrange rowf 0 period) with (zrange rowf 0 (sdelay + (lw + (period - sdelay - lw))))
      by (f_equal; lia).
    rewrite !zrange_app by lia.
    rewrite (zrepeat_zrange szero 0 sdelay), (zrepeat_zrange szero (0 + sdelay + lw)).
    unfold rowf. f_equal; [|f_equal]; apply zrange_ext; intros k Hk.
    - destruct ((sdelay <=? 0 + k) && (0 + k <? sdelay + lw)) eqn:E; [lia|reflexivity].
    - destruct ((sdelay <=? 0 + sdelay + k) && (0 + sdelay + k <? sdelay + lw)) eqn:E; [f_equal; lia|lia].
    - destruct ((sdelay <=? 0 + sdelay + lw + k) && (0 + sdelay + lw + k <? sdelay + lw)) eqn:E; [lia|reflexivity]. }
  rewrite Hrow. unfold zrepeat at 2.
  rewrite (concat_rows rowf period (Z.to_nat n) Hp (skip * period)) by apply Z.mod_mul, Z.neq_sym, Z.lt_neq, Hp.
  rewrite Z2Nat.id by lia.
  assert (0 <= skip * period) by (apply Z.mul_nonneg_nonneg; lia).
  assert (0 <= n * period) by (apply Z.mul_nonneg_nonneg; lia).
  replace ((n + skip) * period) with (skip * period + n * period) by lia.
  rewrite zrange_app by lia. rewrite (zrepeat_zrange szero 0).
  f_equal; apply zrange_ext; intros k Hk.
  - cbn [den]. assert ((0 + k) / period < skip) by (apply Z.div_lt_upper_bound; lia).
    destruct (skip <=? (0 + k) / period) eqn:E; [lia|]. reflexivity.
  - cbn [den]. rewrite Ht.
    assert (skip <= (0 + skip * period + k) / period) by (apply Z.div_le_lower_bound; lia).
    assert ((0 + skip * period + k) / period < skip + n) by (apply Z.div_lt_upper_bound; lia).
    destruct (skip <=? (0 + skip * period + k) / period) eqn:E1; [|lia].
    destruct ((0 + skip * period + k) / period <? skip + n) eqn:E2; [|lia].
    cbn [andb]. reflexivity.
Qed.

(* ------------------------------------------------------------------ *)
(* the state of a generator after o samples have been drawn *)
Fixpoint state_at (g : gen) (o : Z) (s : gst) : Prop :=
  match g, s with
  | GCar _, SLeaf o' => o' = o
  | GSquare _ _ _, SLeaf o' => o' = o
  | GFixed _ _, SLeaf o' => o' = o
  | GGate _ _ g', SNode o' i => o' = o /\ state_at g' o i
  | GEnv _ _ _ _ g', SNode o' i => o' = o /\ state_at g' o i
  | GSam _ _ g', SNode o' i => o' = o /\ state_at g' o i
  | GSqEnv _ _ _ g', SNode o' i => o' = o /\ state_at g' o i
  | GFilt _ g', SNode o' i => o' = o /\ state_at g' o i
  | GRepeat n skip period sdelay g', SRep o' w _ =>
    o' = o /\ w = zrange (den (GRepeat n skip period sdelay g')) 0 ((n + skip) * period)
  | _, _ => False
  end.

Lemma wf_and a b : a && b = true -> a = true /\ b = true.
Proof. apply andb_prop. Qed.

Lemma gnext_step g : wf g = true -> forall o s n, 0 <= o -> 0 <= n -> state_at g o s ->
  exists s', gnext all_repaired g s n = Some (s', zrange (den g) o n) /\ state_at g (o + n) s'.
Proof.
  induction g as [cid|nid cycle on|wid len|start dur g IH|nid start dur rise g IH|nid D g IH
                  |nid P duty g IH|fid g IH|rn skip period sdelay g IH];
    intros Hwf o s n Ho Hn Hst; cbn [wf] in Hwf.
  - (* GCar *)
    destruct s as [o'| |]; cbn [state_at] in Hst; try contradiction. subst o'.
    exists (SLeaf (o + n)). split; [reflexivity|exact eq_refl].
  - (* GSquare *)
    destruct s as [o'| |]; cbn [state_at] in Hst; try contradiction. subst o'.
    exists (SLeaf (o + n)). split; [|exact eq_refl]. cbn [gnext r_square all_repaired].
    rewrite square_fragment by lia. reflexivity.
  - (* GFixed *)
    destruct s as [o'| |]; cbn [state_at] in Hst; try contradiction. subst o'.
    exists (SLeaf (o + n)). split; [|exact eq_refl]. cbn [gnext].
    rewrite fixed_next_zrange by lia. reflexivity.
  - (* GGate *)
    apply wf_and in Hwf as [Hp Hwf'].
    destruct s as [|o' i|]; cbn [state_at] in Hst; try contradiction. destruct Hst as [-> Hi].
    destruct (IH Hwf' o i n Ho Hn Hi) as (i' & E & Hi').
    exists (SNode (o + n) i'). split; [|exact (conj eq_refl Hi')].
    cbn [gnext r_gate all_repaired]. rewrite E. do 2 f_equal.
    destruct (start - o >=? 0) eqn:Elb.
    + rewrite py_set_const_zrange_lo by lia. rewrite py_set_const_zrange_hi by lia.
      apply zrange_ext. intros k Hk. cbn [den].
      destruct (o + Z.max (start - o + dur) 0 <=? o + k) eqn:E1;
      destruct (o + k <? o + (start - o)) eqn:E2;
      destruct ((start <=? o + k) && (o + k <? start + dur)) eqn:E3; try reflexivity; lia.
    + rewrite py_set_const_zrange_hi by lia.
      apply zrange_ext. intros k Hk. cbn [den].
      destruct (o + Z.max (start - o + dur) 0 <=? o + k) eqn:E1;
      destruct ((start <=? o + k) && (o + k <? start + dur)) eqn:E3; try reflexivity; lia.
  - (* GEnv *)
    apply wf_and in Hwf as [Hp Hwf'].
    destruct s as [|o' i|]; cbn [state_at] in Hst; try contradiction. destruct Hst as [-> Hi].
    destruct (IH Hwf' o i n Ho Hn Hi) as (i' & E & Hi').
    exists (SNode (o + n) i'). split; [|exact (conj eq_refl Hi')].
    cbn [gnext]. rewrite E. rewrite envelope_fragment by lia.
    rewrite map2_mul_zrange. reflexivity.
  - (* GSam *)
    apply wf_and in Hwf as [Hp Hwf'].
    destruct s as [|o' i|]; cbn [state_at] in Hst; try contradiction. destruct Hst as [-> Hi].
    destruct (IH Hwf' o i n Ho Hn Hi) as (i' & E & Hi').
    exists (SNode (o + n) i'). split; [|exact (conj eq_refl Hi')].
    cbn [gnext r_sam all_repaired]. rewrite E. rewrite zlen_zrange by lia.
    rewrite sam_fragment by lia. rewrite map2_mul_zrange. rewrite zlen_zrange by lia. reflexivity.
  - (* GSqEnv *)
    apply wf_and in Hwf as [Hp Hwf']. apply wf_and in Hp as [Hp Hp3]. apply wf_and in Hp as [Hp1 Hp2].
    destruct s as [|o' i|]; cbn [state_at] in Hst; try contradiction. destruct Hst as [-> Hi].
    destruct (IH Hwf' o i n Ho Hn Hi) as (i' & E & Hi').
    exists (SNode (o + n) i'). split; [|exact (conj eq_refl Hi')].
    cbn [gnext r_sqenv all_repaired]. rewrite E. rewrite zlen_zrange by lia.
    rewrite sqenv_fragment_wf by (try assumption; lia).
    rewrite map2_mul_zrange. rewrite zlen_zrange by lia. reflexivity.
  - (* GFilt *)
    destruct s as [|o' i|]; cbn [state_at] in Hst; try contradiction. destruct Hst as [-> Hi].
    destruct (IH Hwf o i n Ho Hn Hi) as (i' & E & Hi').
    exists (SNode (o + n) i'). split; [|exact (conj eq_refl Hi')].
    cbn [gnext]. rewrite E. rewrite zlen_zrange by lia. reflexivity.
  - (* GRepeat *)
    apply wf_and in Hwf as [Hp _]. apply wf_and in Hp as [Hp _].
    destruct s as [| |o' w i]; cbn [state_at] in Hst; try contradiction. destruct Hst as [-> ->].
    eexists (SRep (o + n) _ i). split; [|exact (conj eq_refl eq_refl)].
    cbn [gnext]. do 2 f_equal.
    assert (0 <= (rn + skip) * period) by (apply Z.mul_nonneg_nonneg; lia).
    rewrite fixed_next_zrange by lia. apply zrange_ext. intros k Hk.
    destruct (o + k <? (rn + skip) * period) eqn:E; [reflexivity|].
    symmetry. apply den_repeat_outside; lia.
Qed.

Lemma remaining_nonneg g : forall s r, remaining g s = Some r -> 0 <= r.
Proof.
  induction g; intros s r H; cbn [remaining] in H; try discriminate;
    try (injection H as <-; lia);
    try (destruct s; try discriminate; eapply IHg; eassumption).
  destruct s; try discriminate. injection H as <-. lia.
Qed.

Lemma greset_ok g : wf g = true ->
  exists s0, greset all_repaired g = Some s0 /\ state_at g 0 s0.
Proof.
  induction g as [cid|nid cycle on|wid len|start dur g IH|nid start dur rise g IH|nid D g IH
                  |nid P duty g IH|fid g IH|rn skip period sdelay g IH];
    intros Hwf; cbn [wf] in Hwf.
  - eexists; split; [reflexivity|exact eq_refl].
  - eexists; split; [reflexivity|exact eq_refl].
  - eexists; split; [reflexivity|exact eq_refl].
  - apply wf_and in Hwf as [_ Hwf']. destruct (IH Hwf') as (i & E & Hi).
    cbn [greset]. rewrite E. eexists; split; [reflexivity|exact (conj eq_refl Hi)].
  - apply wf_and in Hwf as [_ Hwf']. destruct (IH Hwf') as (i & E & Hi).
    cbn [greset]. rewrite E. eexists; split; [reflexivity|exact (conj eq_refl Hi)].
  - apply wf_and in Hwf as [_ Hwf']. destruct (IH Hwf') as (i & E & Hi).
    cbn [greset]. rewrite E. eexists; split; [reflexivity|exact (conj eq_refl Hi)].
  - apply wf_and in Hwf as [_ Hwf']. destruct (IH Hwf') as (i & E & Hi).
    cbn [greset]. rewrite E. eexists; split; [reflexivity|exact (conj eq_refl Hi)].
  - destruct (IH Hwf) as (i & E & Hi).
    cbn [greset]. rewrite E. eexists; split; [reflexivity|exact (conj eq_refl Hi)].
  - apply wf_and in Hwf as [Hp Hft]. apply wf_and in Hp as [Hp Hwf'].
    destruct (IH Hwf') as (i & E & Hi).
    destruct (finite_total g) as [lw|] eqn:Eft; [|discriminate].
    assert (Ht : total_len all_repaired g = Some lw) by exact Eft.
    unfold finite_total, total_len in Eft. rewrite E in Eft.
    pose proof (remaining_nonneg g i lw Eft) as Hlw.
    destruct (gnext_step g Hwf' 0 i lw ltac:(lia) Hlw Hi) as (i' & En & _).
    cbn [greset]. rewrite E, Eft, En.
    rewrite (repeat_wave_eq rn skip period sdelay g lw) by (try assumption; lia).
    eexists; split; [reflexivity|exact (conj eq_refl eq_refl)].
Qed.

Lemma sumZ_nonneg cs : nonneg cs = true -> 0 <= sumZ cs.
Proof.
  induction cs as [|c t IH]; cbn [nonneg forallb sumZ fold_right]; [lia|].
  intros H. apply andb_prop in H as [Hc Ht]. specialize (IH Ht). unfold sumZ in IH. lia.
Qed.

Lemma run_chunks_ok g : wf g = true -> forall cs o s, 0 <= o -> nonneg cs = true -> state_at g o s ->
  exists s1, run_chunks all_repaired g s cs = Some (s1, zrange (den g) o (sumZ cs))
             /\ state_at g (o + sumZ cs) s1.
Proof.
  intros Hwf. induction cs as [|c t IH]; intros o s Ho Hnn Hst.
  - exists s. split; [reflexivity|]. cbn [sumZ fold_right]. rewrite Z.add_0_r. exact Hst.
  - cbn [nonneg forallb] in Hnn. apply andb_prop in Hnn as [Hc Ht].
    pose proof (sumZ_nonneg t Ht) as Hs.
    destruct (gnext_step g Hwf o s c Ho ltac:(lia) Hst) as (s' & E & Hst').
    destruct (IH (o + c) s' ltac:(lia) Ht Hst') as (s1 & E1 & Hst1).
    exists s1. cbn [run_chunks]. rewrite E, E1. split.
    + do 2 f_equal. change (sumZ (c :: t)) with (c + sumZ t). rewrite zrange_app by lia. reflexivity.
    + change (sumZ (c :: t)) with (c + sumZ t). rewrite Z.add_assoc. exact Hst1.
Qed.

(* ------------------------------------------------------------------ *)
Theorem chunk_invariant : forall g cs, wf g = true -> nonneg cs = true ->
  exists s0 s1, greset all_repaired g = Some s0 /\
    run_chunks all_repaired g s0 cs = Some (s1, zrange (den g) 0 (sumZ cs)).
Proof.
  intros g cs Hwf Hnn. destruct (greset_ok g Hwf) as (s0 & E & Hst).
  destruct (run_chunks_ok g Hwf cs 0 s0 ltac:(lia) Hnn Hst) as (s1 & E1 & _).
  exists s0, s1. split; assumption.
Qed.

Theorem partition_independent : forall g cs1 cs2 s0,
  wf g = true -> nonneg cs1 = true -> nonneg cs2 = true -> sumZ cs1 = sumZ cs2 ->
  greset all_repaired g = Some s0 ->
  exists s1 s2 out, run_chunks all_repaired g s0 cs1 = Some (s1, out) /\
                    run_chunks all_repaired g s0 cs2 = Some (s2, out).
Proof.
  intros g cs1 cs2 s0 Hwf H1 H2 Hsum E0.
  destruct (greset_ok g Hwf) as (s0' & E & Hst). rewrite E0 in E. injection E as <-.
  destruct (run_chunks_ok g Hwf cs1 0 s0 ltac:(lia) H1 Hst) as (s1 & E1 & _).
  destruct (run_chunks_ok g Hwf cs2 0 s0 ltac:(lia) H2 Hst) as (s2 & E2 & _).
  exists s1, s2, (zrange (den g) 0 (sumZ cs1)). split; [exact E1|]. rewrite Hsum. exact E2.
Qed.

Example chunk_invariant_ex : wf (GRepeat 2 1 12 2 (GSqEnv 4 (7 # 2) 2 (GEnv 2 0 8 2 (GCar 1)))) = true
  /\ nonneg [5; 0; 20] = true.
Proof. vm_compute. split; reflexivity. Qed.

(* ------------------------------------------------------------------ *)
(* stateful filter: state carried across chunks = one pass *)
Lemma mapaccum_app {St A B} (f : St -> A -> St * B) z l1 l2 :
  mapaccum f z (l1 ++ l2) =
  let '(z1, y1) := mapaccum f z l1 in let '(z2, y2) := mapaccum f z1 l2 in (z2, y1 ++ y2).
Proof.
  revert z; induction l1 as [|x t IH]; intros z; cbn [mapaccum app].
  - destruct (mapaccum f z l2). reflexivity.
  - destruct (f z x) as [z1 y]. rewrite IH.
    destruct (mapaccum f z1 t) as [z2 ys]. destruct (mapaccum f z2 l2). reflexivity.
Qed.

Lemma mapaccum_chunks_concat {St A B} (f : St -> A -> St * B) chunks : forall z,
  mapaccum_chunks f z chunks = mapaccum f z (concat chunks).
Proof.
  induction chunks as [|c t IH]; intros z; cbn [mapaccum_chunks concat]; [reflexivity|].
  rewrite mapaccum_app. destruct (mapaccum f z c) as [z1 ys]. rewrite IH. reflexivity.
Qed.

Theorem filter_state_carry : forall (St A B : Type) (f : St -> A -> St * B) (z : St) (chunks : list (list A)),
  snd (mapaccum_chunks f z chunks) = snd (mapaccum f z (concat chunks)).
Proof. intros. now rewrite mapaccum_chunks_concat. Qed.

(* ------------------------------------------------------------------ *)
Theorem unrepaired_refuted : exists g cs1 cs2 s0 o1 o2,
  wf g = true /\ nonneg cs1 = true /\ nonneg cs2 = true /\ sumZ cs1 = sumZ cs2 /\
  greset none_repaired g = Some s0 /\
  run_chunks none_repaired g s0 cs1 = Some o1 /\ run_chunks none_repaired g s0 cs2 = Some o2 /\
  snd o1 <> snd o2.
Proof.
  exists (GGate 0 9 (GCar 1)), [9; 2], [11]. do 3 eexists.
  split; [reflexivity|]. split; [reflexivity|]. split; [reflexivity|]. split; [reflexivity|].
  split; [vm_compute; reflexivity|]. split; [vm_compute; reflexivity|].
  split; [vm_compute; reflexivity|]. vm_compute. discriminate.
Qed.
