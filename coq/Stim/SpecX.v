(* Vocabulary of the HISTORY-level statements of C01 / C09 (no proofs).

   Model.v runs a history of operations `Next n | Reset | Query | Rest` on one generator object
   (`run_ops`, what the correspondence harness drives) and prints everything observable as a flat list
   of integers.  Here:
     - the same run, structured (`run_evs`: one event per operation) and the state it ends in (`run_state`);
       `flatten_evs` turns events back into the integers `run_ops` prints (ProofsX.run_ops_flatten, for every
       repair set, generator, state and history);
     - the REFERENCE semantics of a history, which has no object state at all: only the position `pos` =
       number of samples drawn since the last Reset (`ref_run`, `pos_after`);
     - per-segment streams (a segment = the draws between two consecutive Resets). *)
From PV Require Export Stim.Model Stim.Spec.
Open Scope Z_scope.

(* every requested count is non-negative (a negative count is rejected by the code before any state changes) *)
Definition op_nonneg (o : sop) : bool := match o with Next n => 0 <=? n | _ => true end.
Definition ops_nonneg (ops : list sop) : bool := forallb op_nonneg ops.

(* one observable event per operation *)
Inductive ev :=
| EvNext (out : list sample)                      (* next / get_samples_remaining returned these samples *)
| EvRaise                                         (* the call raised *)
| EvReset                                         (* reset() returned *)
| EvQuery (ns rem : option Z) (c : bool).         (* n_samples(), n_samples_remaining(), is_complete() *)

Definition enc_ev (e : ev) : list Z :=
  match e with
  | EvNext out => 1 :: enc_samples out
  | EvRaise => [2]
  | EvReset => [3]
  | EvQuery ns rem c => 4 :: enc_opt ns ++ enc_opt rem ++ [if c then 1 else 0]
  end.
Definition flatten_evs (l : list ev) : list Z := flat_map enc_ev l.

(* run_ops, structured: same case analysis, one event per operation *)
Fixpoint run_evs (R : repairs) (g : gen) (s : option gst) (ops : list sop) : list ev :=
  match ops with
  | [] => []
  | o :: t =>
    match s with
    | None => [EvRaise]
    | Some st =>
      match o with
      | Next n =>
        match gnext R g st n with
        | None => EvRaise :: run_evs R g s t
        | Some (st', out) => EvNext out :: run_evs R g (Some st') t
        end
      | Rest =>
        match remaining g st with
        | None => EvRaise :: run_evs R g s t
        | Some r =>
          match gnext R g st r with
          | None => EvRaise :: run_evs R g s t
          | Some (st', out) => EvNext out :: run_evs R g (Some st') t
          end
        end
      | Reset =>
        match greset R g with
        | None => [EvRaise]
        | Some st' => EvReset :: run_evs R g (Some st') t
        end
      | Query => EvQuery (n_samples g st) (remaining g st) (complete g st) :: run_evs R g s t
      end
    end
  end.

(* the object state run_ops ends in (None = the object could not be built / a reset raised) *)
Fixpoint run_state (R : repairs) (g : gen) (s : option gst) (ops : list sop) : option gst :=
  match ops with
  | [] => s
  | o :: t =>
    match s with
    | None => None
    | Some st =>
      match o with
      | Next n =>
        match gnext R g st n with
        | None => run_state R g s t
        | Some (st', _) => run_state R g (Some st') t
        end
      | Rest =>
        match remaining g st with
        | None => run_state R g s t
        | Some r =>
          match gnext R g st r with
          | None => run_state R g s t
          | Some (st', _) => run_state R g (Some st') t
          end
        end
      | Reset =>
        match greset R g with
        | None => None
        | Some st' => run_state R g (Some st') t
        end
      | Query => run_state R g s t
      end
    end
  end.

(* ------------------------------------------------------------------ *)
(* reference semantics: the position is the only state *)

(* the classes that have an n_samples() method (the envelope / filter wrappers do not) *)
Definition has_n_samples (g : gen) : bool :=
  match g with
  | GFixed _ _ | GGate _ _ _ | GEnv _ _ _ _ _ | GRepeat _ _ _ _ _ => true
  | _ => false
  end.

Definition ref_remaining (g : gen) (pos : Z) : option Z :=
  match finite_total g with Some t => Some (Z.max (t - pos) 0) | None => None end.
Definition ref_complete (g : gen) (pos : Z) : bool :=
  match finite_total g with Some t => t <=? pos | None => false end.
Definition ref_query (g : gen) (pos : Z) : ev :=
  EvQuery (if has_n_samples g then finite_total g else None) (ref_remaining g pos) (ref_complete g pos).

Definition pos_step (g : gen) (pos : Z) (o : sop) : Z :=
  match o with
  | Next n => pos + n
  | Reset => 0
  | Query => pos
  | Rest => match ref_remaining g pos with Some r => pos + r | None => pos end
  end.

Definition ref_ev (g : gen) (pos : Z) (o : sop) : ev :=
  match o with
  | Next n => EvNext (zrange (den g) pos n)
  | Reset => EvReset
  | Query => ref_query g pos
  | Rest => match ref_remaining g pos with Some r => EvNext (zrange (den g) pos r) | None => EvRaise end
  end.

Fixpoint ref_run (g : gen) (pos : Z) (ops : list sop) : list ev :=
  match ops with
  | [] => []
  | o :: t => ref_ev g pos o :: ref_run g (pos_step g pos o) t
  end.

(* number of samples drawn since the last Reset, after the history *)
Definition pos_after (g : gen) (pos : Z) (ops : list sop) : Z := fold_left (pos_step g) ops pos.

(* ------------------------------------------------------------------ *)
(* segments: the draws between two consecutive Resets *)

(* concatenated stream of every segment of an observed run (cur = what the open segment holds so far) *)
Fixpoint seg_streams (cur : list sample) (evs : list ev) : list (list sample) :=
  match evs with
  | [] => [cur]
  | EvNext out :: t => seg_streams (cur ++ out) t
  | EvReset :: t => cur :: seg_streams [] t
  | _ :: t => seg_streams cur t
  end.

(* number of samples every segment of a history asks for (Rest = whatever is left of a finite generator) *)
Fixpoint seg_draws (g : gen) (pos : Z) (ops : list sop) : list Z :=
  match ops with
  | [] => [pos]
  | Reset :: t => pos :: seg_draws g 0 t
  | o :: t => seg_draws g (pos_step g pos o) t
  end.

(* for histories without Rest this is plain arithmetic on the Next counts *)
Fixpoint seg_sums (acc : Z) (ops : list sop) : list Z :=
  match ops with
  | [] => [acc]
  | Next n :: t => seg_sums (acc + n) t
  | Reset :: t => acc :: seg_sums 0 t
  | _ :: t => seg_sums acc t
  end.
Definition no_rest (ops : list sop) : bool :=
  forallb (fun o => match o with Rest => false | _ => true end) ops.

(* ------------------------------------------------------------------ *)
(* stimuli whose stream is exactly zero past the end: gated, enveloped, fixed and repeated waveforms and the
   multiplicative wrappers around them.  NOT a stateful filter over a finite input: it reports its input's
   sample count but keeps ringing after it. *)
Fixpoint zero_tail (g : gen) : bool :=
  match g with
  | GFixed _ _ | GGate _ _ _ | GEnv _ _ _ _ _ | GRepeat _ _ _ _ _ => true
  | GSam _ _ g' | GSqEnv _ _ _ g' => zero_tail g'
  | _ => false
  end.
Definition all_zero (l : list sample) : bool := forallb is_zero l.

(* nth sample of a concrete array, zero outside (the rows of RepeatFactory) *)
Definition nth_sample (w : list sample) (k : Z) : sample :=
  if (0 <=? k) && (k <? zlen w) then nth (Z.to_nat k) w szero else szero.

(* RepeatFactory, stated on the array w the input generator returned in ONE draw of all its samples:
   rows skip .. skip+n-1 of length `period` carry w at column sdelay, everything else is zero *)
Definition repeat_row_stream (n skip period sdelay : Z) (w : list sample) (p : Z) : sample :=
  if (skip <=? p / period) && (p / period <? skip + n) then nth_sample w (p mod period - sdelay) else szero.
