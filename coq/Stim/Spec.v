(* Statements' vocabulary for C01 / C09 (no proofs). *)
From PV Require Export Stim.Model Stim.Chunks.

(* draw a list of chunk sizes; None = some call raised *)
Fixpoint run_chunks (R : repairs) (g : gen) (s : gst) (cs : list Z) : option (gst * list sample) :=
  match cs with
  | [] => Some (s, [])
  | c :: t =>
    match gnext R g s c with
    | None => None
    | Some (s1, out) =>
      match run_chunks R g s1 t with
      | None => None
      | Some (s2, outs) => Some (s2, out ++ outs)
      end
    end
  end.

Definition nonneg (cs : list Z) : bool := forallb (fun c => 0 <=? c) cs.

(* finite generators: total number of samples *)
Definition finite_total (g : gen) : option Z := total_len all_repaired g.

(* parameter well-formedness: what the constructors / first call accept *)
Fixpoint wf (g : gen) : bool :=
  match g with
  | GCar _ => true
  | GSquare _ cycle on => (0 <? cycle) && (0 <=? on) && (on <=? cycle)
  | GFixed _ len => 0 <=? len
  | GGate start dur g' => (0 <=? start) && (0 <=? dur) && wf g'
  | GEnv _ start dur rise g' => (0 <=? start) && (0 <=? rise) && (2 * rise <=? dur) && wf g'
  | GSam _ D g' => (0 <=? D) && wf g'
  | GSqEnv _ P duty g' =>
    (* period of at least one sample, on-portion shorter than the shortest distance between two period starts *)
    (Qle_bool 1 P) && (1 <=? duty) && (duty <=? Qfloor P) && wf g'
  | GFilt _ g' => wf g'
  | GRepeat n skip period sdelay g' =>
    (0 <=? n) && (0 <=? skip) && (0 <=? sdelay) && (0 <? period) && wf g' &&
    match finite_total g' with
    | Some lw => lw <=? period - sdelay
    | None => false
    end
  end.

Definition is_zero (s : sample) : bool :=
  existsb (fun f => match f with (t, _, _) => t =? 0 end) s.

Definition eqb_factor (a b : factor) : bool :=
  match a, b with (t1, a1, b1), (t2, a2, b2) => (t1 =? t2) && (a1 =? a2) && (b1 =? b2) end.
Definition eqb_sample := eqb_list eqb_factor.

(* executable form of the chunk-invariance statement, evaluated on every correspondence case
   (a test of the theorem's statement; the theorem is in Props/C01.v) *)
Definition spec_ok (g : gen) (cs : list Z) : bool :=
  negb (wf g && nonneg cs) ||
  match greset all_repaired g with
  | None => false
  | Some s0 =>
    match run_chunks all_repaired g s0 cs with
    | None => false
    | Some (_, outs) => eqb_list eqb_sample outs (zrange (den g) 0 (sumZ cs))
    end
  end.
Definition spec_ok_Z (g : gen) (cs : list Z) : list Z := [if spec_ok g cs then 1 else 0].

Definition frag_ok_envelope (elb dur rise o n : Z) : list Z :=
  [if negb ((0 <=? elb) && (0 <=? rise) && (2 * rise <=? dur) && (0 <=? o) && (0 <=? n)) ||
      match envelope_frag 0 elb dur rise o n with
      | Some e => eqb_list eqb_factor e (zrange (env_at 0 elb dur rise) o n)
      | None => false
      end then 1 else 0].
Definition frag_ok_sam (D o n : Z) : list Z :=
  [if negb ((0 <=? D) && (0 <=? o) && (0 <=? n)) ||
      eqb_list eqb_factor (sam_frag true 0 D o n) (zrange (sam_at 0 D) o n) then 1 else 0].
Definition frag_ok_sqenv (P : Q) (duty o n : Z) : list Z :=
  [if negb ((Qle_bool 1 P) && (1 <=? duty) && (duty <=? Qfloor P) && (0 <=? o) && (0 <=? n)) ||
      eqb_list eqb_factor (sqenv_frag true 0 P duty o n) (zrange (sqenv_at 0 P duty) o n) then 1 else 0].
