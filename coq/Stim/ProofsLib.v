(* Library lemmas for the Stim proofs: zr / zrange algebra, slices and constant fills of a zrange. *)
From PV Require Import Stim.Model Stim.Spec.
From Coq Require Import ZArith List Bool Lia ZifyBool.
Import ListNotations.
Open Scope Z_scope.

Section ZR.
Context {A : Type}.
Implicit Types (f g : Z -> A).

Lemma zr_app f lo a b : zr f lo (a + b) = zr f lo a ++ zr f (lo + Z.of_nat a) b.
Proof.
  revert lo; induction a as [|a IH]; intros lo; cbn [zr Nat.add app].
  - f_equal. lia.
  - rewrite IH. do 3 f_equal. lia.
Qed.

Lemma zrange_app f lo a b : 0 <= a -> 0 <= b ->
  zrange f lo (a + b) = zrange f lo a ++ zrange f (lo + a) b.
Proof.
  intros Ha Hb. unfold zrange. rewrite Z2Nat.inj_add by lia. rewrite zr_app. do 2 f_equal. lia.
Qed.

Lemma zr_ext f g lo lo' n :
  (forall k, 0 <= k < Z.of_nat n -> f (lo + k) = g (lo' + k)) -> zr f lo n = zr g lo' n.
Proof.
  revert lo lo'; induction n as [|n IH]; intros lo lo' H; cbn [zr]; [reflexivity|].
  f_equal.
  - specialize (H 0). rewrite !Z.add_0_r in H. apply H. lia.
  - apply IH. intros k Hk. specialize (H (k + 1)).
    replace (lo + 1 + k) with (lo + (k + 1)) by lia.
    replace (lo' + 1 + k) with (lo' + (k + 1)) by lia. apply H. lia.
Qed.

Lemma zrange_ext f g lo lo' n :
  (forall k, 0 <= k < n -> f (lo + k) = g (lo' + k)) -> zrange f lo n = zrange g lo' n.
Proof. intros H. unfold zrange. apply zr_ext. intros k Hk. apply H. lia. Qed.

Lemma zrange_ext' f g lo n m :
  n = m -> (forall k, 0 <= k < n -> f (lo + k) = g (lo + k)) -> zrange f lo n = zrange g lo m.
Proof. intros <-. apply zrange_ext. Qed.

Lemma zr_length f lo n : length (zr f lo n) = n.
Proof. revert lo; induction n as [|n IH]; intros lo; cbn [zr length]; [reflexivity|]. now rewrite IH. Qed.

Lemma zlen_zrange f lo n : 0 <= n -> zlen (zrange f lo n) = n.
Proof. intros H. unfold zlen, zrange. rewrite zr_length. lia. Qed.

Lemma zrange_nil f lo n : n <= 0 -> zrange f lo n = [].
Proof. intros H. unfold zrange. replace (Z.to_nat n) with O by lia. reflexivity. Qed.

Lemma repeat_zr (x : A) lo n : repeat x n = zr (fun _ => x) lo n.
Proof. revert lo; induction n as [|n IH]; intros lo; cbn [zr repeat]; [reflexivity|]. now rewrite <- IH. Qed.

Lemma zrepeat_zrange (x : A) lo n : zrepeat x n = zrange (fun _ => x) lo n.
Proof. unfold zrepeat, zrange. apply repeat_zr. Qed.

Lemma zr_firstn f lo a n : firstn a (zr f lo n) = zr f lo (Nat.min a n).
Proof.
  revert lo n; induction a as [|a IH]; intros lo n; [reflexivity|].
  destruct n as [|n]; [reflexivity|]. cbn [zr firstn Nat.min]. now rewrite IH.
Qed.

Lemma zr_skipn f lo a n : skipn a (zr f lo n) = zr f (lo + Z.of_nat a) (n - a).
Proof.
  revert lo n; induction a as [|a IH]; intros lo n.
  - cbn [skipn]. rewrite Nat.sub_0_r. f_equal. lia.
  - destruct n as [|n]; [reflexivity|]. cbn [zr skipn Nat.sub]. rewrite IH. f_equal. lia.
Qed.

Lemma zrange_firstn f lo a L : 0 <= L ->
  firstn (Z.to_nat a) (zrange f lo L) = zrange f lo (Z.min a L).
Proof. intros HL. unfold zrange. rewrite zr_firstn. f_equal. lia. Qed.

Lemma zrange_skipn f lo a L : 0 <= a ->
  skipn (Z.to_nat a) (zrange f lo L) = zrange f (lo + a) (L - a).
Proof.
  intros Ha. unfold zrange. rewrite zr_skipn. f_equal; [|lia]. f_equal. lia.
Qed.

(* explicit-bounds slice of a zrange *)
Lemma slice_core f lo L a b : 0 <= L -> 0 <= a <= L -> b <= L ->
  firstn (Z.to_nat (b - a)) (skipn (Z.to_nat a) (zrange f lo L)) = zrange f (lo + a) (b - a).
Proof.
  intros HL Ha Hb. rewrite zrange_skipn by lia. rewrite zrange_firstn by lia.
  f_equal. lia.
Qed.

Lemma py_slice_zrange f lo L a b : 0 <= L -> 0 <= a -> 0 <= b ->
  py_slice (Some a) (Some b) (zrange f lo L) = zrange f (lo + Z.min a L) (Z.min b L - Z.min a L).
Proof.
  intros HL Ha Hb. unfold py_slice, py_lo, py_hi, adj_bound. rewrite zlen_zrange by lia.
  destruct (a <? 0) eqn:Ea; [lia|]. destruct (b <? 0) eqn:Eb; [lia|].
  apply slice_core; lia.
Qed.

(* explicit-bounds constant fill of a zrange *)
Lemma set_core f (v : A) lo L a b : 0 <= L -> 0 <= a <= L -> 0 <= b <= L ->
  (if b <=? a then zrange f lo L
   else firstn (Z.to_nat a) (zrange f lo L) ++ repeat v (Z.to_nat (b - a))
        ++ skipn (Z.to_nat b) (zrange f lo L))
  = zrange (fun p => if (lo + a <=? p) && (p <? lo + b) then v else f p) lo L.
Proof.
  intros HL Ha Hb. destruct (b <=? a) eqn:E.
  - apply zrange_ext. intros k Hk.
    destruct ((lo + a <=? lo + k) && (lo + k <? lo + b)) eqn:E2; [lia|reflexivity].
  - rewrite zrange_firstn by lia. rewrite zrange_skipn by lia.
    change (repeat v (Z.to_nat (b - a))) with (zrepeat v (b - a)).
    rewrite (zrepeat_zrange v (lo + a)).
    replace (Z.min a L) with a by lia.
    replace (zrange (fun p => if (lo + a <=? p) && (p <? lo + b) then v else f p) lo L)
      with (zrange (fun p => if (lo + a <=? p) && (p <? lo + b) then v else f p) lo (a + ((b - a) + (L - b))))
      by (f_equal; lia).
    rewrite !zrange_app by lia.
    replace (lo + a + (b - a)) with (lo + b) by lia.
    f_equal; [|f_equal]; apply zrange_ext; intros k Hk.
    + destruct ((lo + a <=? lo + k) && (lo + k <? lo + b)) eqn:E2; [lia|reflexivity].
    + destruct ((lo + a <=? lo + a + k) && (lo + a + k <? lo + b)) eqn:E2; [reflexivity|lia].
    + destruct ((lo + a <=? lo + b + k) && (lo + b + k <? lo + b)) eqn:E2; [lia|reflexivity].
Qed.

Lemma py_set_const_zrange f (v : A) lo L a b : 0 <= L -> 0 <= a -> 0 <= b ->
  py_set_const (Some a) (Some b) v (zrange f lo L)
  = zrange (fun p => if (lo + a <=? p) && (p <? lo + b) then v else f p) lo L.
Proof.
  intros HL Ha Hb. unfold py_set_const, py_lo, py_hi, adj_bound. rewrite zlen_zrange by lia.
  destruct (a <? 0) eqn:Ea; [lia|]. destruct (b <? 0) eqn:Eb; [lia|].
  rewrite set_core by lia. apply zrange_ext. intros k Hk.
  destruct ((lo + Z.min a L <=? lo + k) && (lo + k <? lo + Z.min b L)) eqn:E1;
  destruct ((lo + a <=? lo + k) && (lo + k <? lo + b)) eqn:E2; try reflexivity; lia.
Qed.

Lemma py_set_const_zrange_lo f (v : A) lo L b : 0 <= L -> 0 <= b ->
  py_set_const None (Some b) v (zrange f lo L)
  = zrange (fun p => if p <? lo + b then v else f p) lo L.
Proof.
  intros HL Hb. unfold py_set_const, py_lo, py_hi, adj_bound. rewrite zlen_zrange by lia.
  destruct (b <? 0) eqn:Eb; [lia|].
  rewrite set_core by lia. apply zrange_ext. intros k Hk.
  destruct ((lo + 0 <=? lo + k) && (lo + k <? lo + Z.min b L)) eqn:E1;
  destruct (lo + k <? lo + b) eqn:E2; try reflexivity; lia.
Qed.

Lemma py_set_const_zrange_hi f (v : A) lo L a : 0 <= L -> 0 <= a ->
  py_set_const (Some a) None v (zrange f lo L)
  = zrange (fun p => if lo + a <=? p then v else f p) lo L.
Proof.
  intros HL Ha. unfold py_set_const, py_lo, py_hi, adj_bound. rewrite zlen_zrange by lia.
  destruct (a <? 0) eqn:Ea; [lia|].
  rewrite set_core by lia. apply zrange_ext. intros k Hk.
  destruct ((lo + Z.min a L <=? lo + k) && (lo + k <? lo + L)) eqn:E1;
  destruct (lo + a <=? lo + k) eqn:E2; try reflexivity; lia.
Qed.

End ZR.

Lemma zr_combine (f : Z -> factor) (g : Z -> sample) lo n :
  map (fun p => fst p :: snd p) (combine (zr f lo n) (zr g lo n)) = zr (fun p => f p :: g p) lo n.
Proof.
  revert lo; induction n as [|n IH]; intros lo; cbn [zr combine map fst snd]; [reflexivity|].
  now rewrite IH.
Qed.

Lemma map2_mul_zrange (f : Z -> factor) (g : Z -> sample) lo n :
  map2_mul (zrange f lo n) (zrange g lo n) = Some (zrange (fun p => f p :: g p) lo n).
Proof.
  unfold map2_mul, zrange. rewrite !zr_length, Nat.eqb_refl. f_equal. apply zr_combine.
Qed.

Example zrange_app_ex : zrange (fun p => p) 3 (2 + 1) = zrange (fun p => p) 3 2 ++ zrange (fun p => p) (3 + 2) 1.
Proof. reflexivity. Qed.
