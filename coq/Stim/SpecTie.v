(* Vocabulary of the translator tie of Stim (C01 / C09): how the records of gen/StimIdxGen.v (regenerated from
   psiaudio/stim.py on every run by translate/pystim2coq.py) relate to the generator expressions / states of Stim/Model.v,
   the well-formedness invariants of those records, and draw histories over the GENERATED step functions.  Definitions only. *)
From PV Require Export Stim.Model Stim.Spec gen.StimIdxGen.
Open Scope Z_scope.

(* GateFactory: the record of a gate with the given start / duration that has handed out o samples *)
Definition gate_of (start dur o : Z) : gate_st :=
  {| gate_start_samples := start; gate_duration_samples := dur; gate_total_samples := start + dur; gate_offset := o |}.
(* the only relation between the fields the queries rely on (established by __init__, kept by next) *)
Definition gate_inv (st : gate_st) : Prop := gate_total_samples st = gate_start_samples st + gate_duration_samples st.

(* FixedWaveform over the symbolic array of GFixed wid len; RepeatFactory over its stored array *)
Definition fixed_of (wid len o : Z) : fixed_st :=
  {| fixed_waveform := zrange (fun p => [(7, wid, p)]) 0 len; fixed_offset := o |}.
Definition fixed_arr (w : list sample) (o : Z) : fixed_st := {| fixed_waveform := w; fixed_offset := o |}.

Definition square_of (nid cycle on o : Z) : square_st :=
  {| square_nid := nid; square_cycle_samples := cycle; square_on_samples := on; square_offset := o |}.

(* a draw history over the GENERATED GateFactory.next; the token of every draw is what the input generator hands out *)
Fixpoint src_gate_run (g' : gen) (st : gate_st) (i : gst) (cs : list Z) : option (gate_st * gst * list sample) :=
  match cs with
  | [] => Some (st, i, [])
  | c :: t =>
    match gnext all_repaired g' i c with
    | None => None
    | Some (i', tok) =>
      let '(st', out) := gen_gate_next st c tok in
      match src_gate_run g' st' i' t with
      | None => None
      | Some (st2, i2, outs) => Some (st2, i2, out ++ outs)
      end
    end
  end.

(* a draw history over the GENERATED EnvelopeFactory.next (which calls the generated envelope) *)
Fixpoint src_env_run (nid rise : Z) (g' : gen) (st : gate_st) (i : gst) (cs : list Z) : option (gate_st * gst * list sample) :=
  match cs with
  | [] => Some (st, i, [])
  | c :: t =>
    match gnext all_repaired g' i c with
    | None => None
    | Some (i', tok) =>
      match gen_env_next nid rise st c tok with
      | None => None
      | Some (st', out) =>
        match src_env_run nid rise g' st' i' t with
        | None => None
        | Some (st2, i2, outs) => Some (st2, i2, out ++ outs)
        end
      end
    end
  end.

(* a draw history over the GENERATED FixedWaveform.next *)
Fixpoint src_fixed_run (st : fixed_st) (cs : list Z) : fixed_st * list sample :=
  match cs with
  | [] => (st, [])
  | c :: t => let '(st', out) := gen_fixed_next st c in
              let '(st2, outs) := src_fixed_run st' t in (st2, out ++ outs)
  end.

(* a draw history over the GENERATED SquareWaveFactory.next *)
Fixpoint src_square_run (st : square_st) (cs : list Z) : square_st * list sample :=
  match cs with
  | [] => (st, [])
  | c :: t => let '(st', out) := gen_square_next st c in
              let '(st2, outs) := src_square_run st' t in (st2, out ++ outs)
  end.
