(* C01 / C09 at the level of HISTORIES of operations on one generator object (run_ops):
   Next n | Reset | Query | Rest, in any order and any number.
     run_ops_flatten            run_ops prints exactly the events of run_evs
     run_ops_app                run_state is the state run_ops continues from
     obs_at                     everything a Query observes is a function of the position
     run_evs_ref                the object run = the position-only reference run   (generalised over the position)
     history_refines_position   ... from a freshly built generator, flattened
     reset_replays, history_streams, history_chunk_invariant(_next)
     bookkeeping_history, rest_completes, draw_past_end_zero_partial / _refuted *)
From PV Require Import Stim.Model Stim.Spec Stim.SpecX Stim.Proofs Stim.ProofsC09.
From Coq Require Import ZArith List Bool Lia ZifyBool.
Import ListNotations.
Open Scope Z_scope.

(* ------------------------------------------------------------------ *)
(* the flat output of run_ops is the flattening of the structured run: every R, g, state, history *)
Lemma flatten_cons e l : flatten_evs (e :: l) = enc_ev e ++ flatten_evs l.
Proof. reflexivity. Qed.

Lemma flatten_app a b : flatten_evs (a ++ b) = flatten_evs a ++ flatten_evs b.
Proof. apply flat_map_app. Qed.

Theorem run_ops_flatten : forall R g ops s, run_ops R g s ops = flatten_evs (run_evs R g s ops).
Proof.
  intros R g ops. induction ops as [|o t IH]; intros s; [reflexivity|].
  destruct s as [st|]; [|reflexivity].
  destruct o as [n| | |]; cbn [run_ops run_evs].
  - destruct (gnext R g st n) as [[st' out]|]; rewrite flatten_cons, IH; reflexivity.
  - destruct (greset R g) as [st'|]; [|reflexivity]. rewrite flatten_cons, IH. reflexivity.
  - rewrite flatten_cons, IH. cbn [enc_ev app]. rewrite <- !app_assoc. cbn [app]. reflexivity.
  - destruct (remaining g st) as [r|]; [|rewrite flatten_cons, IH; reflexivity].
    destruct (gnext R g st r) as [[st' out]|]; rewrite flatten_cons, IH; reflexivity.
Qed.

(* run_state is the state from which run_ops goes on: every R, g, state, histories *)
Theorem run_ops_app : forall R g a b s s1, run_state R g s a = Some s1 ->
  run_ops R g s (a ++ b) = run_ops R g s a ++ run_ops R g (Some s1) b.
Proof.
  intros R g a b. induction a as [|o t IH]; intros s s1 H.
  - cbn [run_state] in H. subst s. reflexivity.
  - destruct s as [st|]; [|discriminate H].
    destruct o as [n| | |]; cbn [run_state] in H; cbn [run_ops app].
    + destruct (gnext R g st n) as [[st' out]|]; rewrite (IH _ _ H).
      * rewrite app_comm_cons, app_assoc. reflexivity.
      * reflexivity.
    + destruct (greset R g) as [st'|]; [|discriminate H]. rewrite (IH _ _ H). reflexivity.
    + rewrite (IH _ _ H). rewrite !app_comm_cons, !app_assoc. reflexivity.
    + destruct (remaining g st) as [r|]; [|rewrite (IH _ _ H); reflexivity].
      destruct (gnext R g st r) as [[st' out]|]; rewrite (IH _ _ H).
      * rewrite app_comm_cons, app_assoc. reflexivity.
      * reflexivity.
Qed.

(* ------------------------------------------------------------------ *)
(* what a Query observes in the state reached after pos samples is a function of pos *)
Lemma total_sam nid D g : finite_total (GSam nid D g) = finite_total g.
Proof. unfold finite_total, total_len. cbn [greset]. destruct (greset all_repaired g); reflexivity. Qed.
Lemma total_sqenv nid P duty g : finite_total (GSqEnv nid P duty g) = finite_total g.
Proof. unfold finite_total, total_len. cbn [greset]. destruct (greset all_repaired g); reflexivity. Qed.
Lemma total_filt fid g : finite_total (GFilt fid g) = finite_total g.
Proof. unfold finite_total, total_len. cbn [greset]. destruct (greset all_repaired g); reflexivity. Qed.

Lemma book_inf g : wf g = true -> finite_total g = None -> forall o s, state_at g o s ->
  remaining g s = None /\ complete g s = false.
Proof.
  induction g as [cid|nid cycle on|wid len|start dur g IH|nid start dur rise g IH|nid D g IH
                  |nid P duty g IH|fid g IH|rn skip period sdelay g IH];
    intros Hwf Ht o s Hst.
  - split; reflexivity.
  - split; reflexivity.
  - rewrite (total_fixed _ _ Hwf) in Ht. discriminate Ht.
  - rewrite (total_gate _ _ _ Hwf) in Ht. discriminate Ht.
  - rewrite (total_env _ _ _ _ _ Hwf) in Ht. discriminate Ht.
  - rewrite total_sam in Ht. cbn [wf] in Hwf. apply wf_and in Hwf as [_ Hwf'].
    destruct s as [|o' i|]; cbn [state_at] in Hst; try contradiction. destruct Hst as [_ Hi].
    cbn [remaining complete]. exact (IH Hwf' Ht o i Hi).
  - rewrite total_sqenv in Ht. cbn [wf] in Hwf. apply wf_and in Hwf as [_ Hwf'].
    destruct s as [|o' i|]; cbn [state_at] in Hst; try contradiction. destruct Hst as [_ Hi].
    cbn [remaining complete]. exact (IH Hwf' Ht o i Hi).
  - rewrite total_filt in Ht. cbn [wf] in Hwf.
    destruct s as [|o' i|]; cbn [state_at] in Hst; try contradiction. destruct Hst as [_ Hi].
    cbn [remaining complete]. exact (IH Hwf Ht o i Hi).
  - rewrite (total_repeat _ _ _ _ _ Hwf) in Ht. discriminate Ht.
Qed.

Lemma obs_at g : wf g = true -> forall pos s, state_at g pos s ->
  n_samples g s = (if has_n_samples g then finite_total g else None) /\
  remaining g s = ref_remaining g pos /\ complete g s = ref_complete g pos.
Proof.
  intros Hwf pos s Hst. split.
  - destruct g as [cid|nid cycle on|wid len|start dur g|nid start dur rise g|nid D g
                  |nid P duty g|fid g|rn skip period sdelay g]; cbn [has_n_samples]; try reflexivity.
    + rewrite (total_fixed _ _ Hwf). reflexivity.
    + rewrite (total_gate _ _ _ Hwf). reflexivity.
    + rewrite (total_env _ _ _ _ _ Hwf). reflexivity.
    + rewrite (total_repeat _ _ _ _ _ Hwf).
      destruct (repeat_len_nonneg _ _ _ _ _ Hwf) as (_ & _ & _ & _ & HL).
      destruct s as [| |o' w i]; cbn [state_at] in Hst; try contradiction. destruct Hst as [_ ->].
      cbn [n_samples]. rewrite zlen_zrange by assumption. reflexivity.
  - unfold ref_remaining, ref_complete. destruct (finite_total g) as [t|] eqn:Et.
    + exact (book g Hwf pos s t Hst Et).
    + exact (book_inf g Hwf Et pos s Hst).
Qed.

(* ------------------------------------------------------------------ *)
(* positions *)
Lemma pos_after_cons g pos o t : pos_after g pos (o :: t) = pos_after g (pos_step g pos o) t.
Proof. reflexivity. Qed.

Lemma pos_after_app g pos a b : pos_after g pos (a ++ b) = pos_after g (pos_after g pos a) b.
Proof. apply fold_left_app. Qed.

Lemma pos_after_last g pos h o : pos_after g pos (h ++ [o]) = pos_step g (pos_after g pos h) o.
Proof. rewrite pos_after_app. reflexivity. Qed.

Lemma pos_step_nonneg g pos o : 0 <= pos -> op_nonneg o = true -> 0 <= pos_step g pos o.
Proof.
  intros Hp Ho. destruct o as [n| | |]; cbn [pos_step op_nonneg] in *; try lia.
  unfold ref_remaining. destruct (finite_total g); lia.
Qed.

Lemma pos_after_nonneg g ops : forall pos, 0 <= pos -> ops_nonneg ops = true -> 0 <= pos_after g pos ops.
Proof.
  induction ops as [|o t IH]; intros pos Hp Hnn; [exact Hp|].
  cbn [ops_nonneg forallb] in Hnn. apply andb_prop in Hnn as [Ho Ht].
  rewrite pos_after_cons. apply IH; [apply pos_step_nonneg; assumption|exact Ht].
Qed.

Lemma ops_nonneg_app a b : ops_nonneg (a ++ b) = ops_nonneg a && ops_nonneg b.
Proof. apply forallb_app. Qed.

(* ------------------------------------------------------------------ *)
(* the object run from the state reached after pos samples = the reference run from position pos *)
Lemma run_evs_ref g : wf g = true -> forall ops pos s, 0 <= pos -> ops_nonneg ops = true -> state_at g pos s ->
  run_evs all_repaired g (Some s) ops = ref_run g pos ops /\
  exists s1, run_state all_repaired g (Some s) ops = Some s1 /\ state_at g (pos_after g pos ops) s1.
Proof.
  intros Hwf. induction ops as [|o t IH]; intros pos s Hp Hnn Hst.
  - split; [reflexivity|]. exists s. split; [reflexivity|exact Hst].
  - cbn [ops_nonneg forallb] in Hnn. apply andb_prop in Hnn as [Ho Ht].
    fold (ops_nonneg t) in Ht. rewrite pos_after_cons.
    destruct (obs_at g Hwf pos s Hst) as (Ons & Orem & Ocomp).
    destruct o as [n| | |]; cbn [op_nonneg] in Ho; cbn [run_evs run_state ref_run ref_ev pos_step].
    + (* Next *)
      destruct (gnext_step g Hwf pos s n Hp ltac:(lia) Hst) as (s' & E & Hst'). rewrite E.
      destruct (IH (pos + n) s' ltac:(lia) Ht Hst') as (E1 & s1 & E2 & Hst1).
      split; [now rewrite E1|]. exists s1. split; assumption.
    + (* Reset *)
      destruct (greset_ok g Hwf) as (s0 & E & Hst0). rewrite E.
      destruct (IH 0 s0 ltac:(lia) Ht Hst0) as (E1 & s1 & E2 & Hst1).
      split; [now rewrite E1|]. exists s1. split; assumption.
    + (* Query *)
      destruct (IH pos s Hp Ht Hst) as (E1 & s1 & E2 & Hst1).
      split; [|exists s1; split; assumption].
      rewrite E1. unfold ref_query. rewrite Ons, Orem, Ocomp. reflexivity.
    + (* Rest *)
      rewrite Orem. unfold ref_remaining. destruct (finite_total g) as [tot|].
      * destruct (gnext_step g Hwf pos s (Z.max (tot - pos) 0) Hp ltac:(lia) Hst) as (s' & E & Hst').
        rewrite E.
        destruct (IH (pos + Z.max (tot - pos) 0) s' ltac:(lia) Ht Hst') as (E1 & s1 & E2 & Hst1).
        split; [now rewrite E1|]. exists s1. split; assumption.
      * destruct (IH pos s Hp Ht Hst) as (E1 & s1 & E2 & Hst1).
        split; [now rewrite E1|]. exists s1. split; assumption.
Qed.

Theorem history_refines_position : forall g ops, wf g = true -> ops_nonneg ops = true ->
  run_ops all_repaired g (greset all_repaired g) ops = flatten_evs (ref_run g 0 ops).
Proof.
  intros g ops Hwf Hnn. rewrite run_ops_flatten.
  destruct (greset_ok g Hwf) as (s0 & E & Hst0). rewrite E.
  destruct (run_evs_ref g Hwf ops 0 s0 ltac:(lia) Hnn Hst0) as (E1 & _). now rewrite E1.
Qed.

(* the same, event by event (flatten_evs is a function, so this implies the flattened form) *)
Theorem history_refines_position_evs : forall g ops, wf g = true -> ops_nonneg ops = true ->
  run_evs all_repaired g (greset all_repaired g) ops = ref_run g 0 ops.
Proof.
  intros g ops Hwf Hnn. destruct (greset_ok g Hwf) as (s0 & E & Hst0). rewrite E.
  exact (proj1 (run_evs_ref g Hwf ops 0 s0 ltac:(lia) Hnn Hst0)).
Qed.

Example history_refines_position_ex :
  wf (GRepeat 2 1 12 2 (GSqEnv 4 (7 # 2) 2 (GEnv 2 0 8 2 (GCar 1)))) = true /\
  ops_nonneg [Next 5; Query; Rest; Next 3; Reset; Next 0; Query; Next 40; Rest] = true.
Proof. vm_compute. split; reflexivity. Qed.

(* ------------------------------------------------------------------ *)
(* Reset replays: whatever happened before, after reset() the object behaves as a freshly built one *)
Lemma ref_run_app g a : forall pos b,
  ref_run g pos (a ++ b) = ref_run g pos a ++ ref_run g (pos_after g pos a) b.
Proof.
  induction a as [|o t IH]; intros pos b; [reflexivity|].
  cbn [app ref_run]. rewrite IH, pos_after_cons. reflexivity.
Qed.

Theorem reset_replays : forall g h ops, wf g = true -> ops_nonneg h = true -> ops_nonneg ops = true ->
  run_gen g (h ++ Reset :: ops) = run_gen g h ++ 3 :: run_gen g ops.
Proof.
  intros g h ops Hwf Hh Hops. unfold run_gen.
  rewrite !history_refines_position; try assumption.
  - rewrite ref_run_app, flatten_app. reflexivity.
  - rewrite ops_nonneg_app, Hh. exact Hops.
Qed.

Example reset_replays_ex : wf (GGate 2 5 (GSam 4 3 (GCar 1))) = true /\
  ops_nonneg [Next 3; Rest; Query; Next 4] = true /\ ops_nonneg [Next 2; Query; Next 9] = true.
Proof. vm_compute. repeat split; reflexivity. Qed.

(* ------------------------------------------------------------------ *)
(* per segment (between two Resets) the concatenated stream is the one-shot stream of the segment's total *)
Lemma seg_streams_ref g ops : forall pos, 0 <= pos -> ops_nonneg ops = true ->
  seg_streams (zrange (den g) 0 pos) (ref_run g pos ops) = map (zrange (den g) 0) (seg_draws g pos ops).
Proof.
  induction ops as [|o t IH]; intros pos Hp Hnn; [reflexivity|].
  cbn [ops_nonneg forallb] in Hnn. apply andb_prop in Hnn as [Ho Ht]. fold (ops_nonneg t) in Ht.
  pose proof (pos_step_nonneg g pos o Hp Ho) as Hp'.
  destruct o as [n| | |]; cbn [op_nonneg] in Ho; cbn [ref_run ref_ev seg_streams seg_draws map].
  - cbn [pos_step] in *. rewrite <- (IH (pos + n)) by assumption. f_equal.
    rewrite zrange_app by lia. rewrite Z.add_0_l. reflexivity.
  - f_equal. exact (IH 0 ltac:(lia) Ht).
  - unfold ref_query. cbn [seg_streams pos_step]. exact (IH pos Hp Ht).
  - cbn [pos_step] in *. unfold ref_remaining in *. destruct (finite_total g) as [tot|]; cbn [seg_streams].
    + rewrite <- (IH (pos + Z.max (tot - pos) 0)) by assumption. f_equal.
      rewrite zrange_app by lia. rewrite Z.add_0_l. reflexivity.
    + exact (IH pos Hp Ht).
Qed.

Theorem history_streams : forall g h, wf g = true -> ops_nonneg h = true ->
  seg_streams [] (run_evs all_repaired g (greset all_repaired g) h) = map (zrange (den g) 0) (seg_draws g 0 h).
Proof.
  intros g h Hwf Hnn. destruct (greset_ok g Hwf) as (s0 & E & Hst0). rewrite E.
  destruct (run_evs_ref g Hwf h 0 s0 ltac:(lia) Hnn Hst0) as (E1 & _). rewrite E1.
  exact (seg_streams_ref g h 0 ltac:(lia) Hnn).
Qed.

Theorem history_chunk_invariant : forall g h1 h2, wf g = true -> ops_nonneg h1 = true -> ops_nonneg h2 = true ->
  seg_draws g 0 h1 = seg_draws g 0 h2 ->
  seg_streams [] (run_evs all_repaired g (greset all_repaired g) h1) =
  seg_streams [] (run_evs all_repaired g (greset all_repaired g) h2).
Proof.
  intros g h1 h2 Hwf H1 H2 Hd. rewrite !history_streams by assumption. now rewrite Hd.
Qed.

Lemma seg_draws_no_rest g ops : forall pos, no_rest ops = true -> seg_draws g pos ops = seg_sums pos ops.
Proof.
  induction ops as [|o t IH]; intros pos Hnr; [reflexivity|].
  cbn [no_rest forallb] in Hnr. apply andb_prop in Hnr as [Ho Ht].
  destruct o as [n| | |]; cbn [seg_draws seg_sums pos_step]; try discriminate Ho.
  - exact (IH _ Ht).
  - f_equal. exact (IH _ Ht).
  - exact (IH _ Ht).
Qed.

(* histories of next() / reset() / queries only: the hypothesis is plain arithmetic on the requested counts *)
Theorem history_chunk_invariant_next : forall g h1 h2, wf g = true ->
  ops_nonneg h1 = true -> ops_nonneg h2 = true -> no_rest h1 = true -> no_rest h2 = true ->
  seg_sums 0 h1 = seg_sums 0 h2 ->
  seg_streams [] (run_evs all_repaired g (greset all_repaired g) h1) =
  seg_streams [] (run_evs all_repaired g (greset all_repaired g) h2) /\
  seg_streams [] (run_evs all_repaired g (greset all_repaired g) h1) = map (zrange (den g) 0) (seg_sums 0 h1).
Proof.
  intros g h1 h2 Hwf H1 H2 N1 N2 Hs. split.
  - apply history_chunk_invariant; try assumption. rewrite !seg_draws_no_rest by assumption. exact Hs.
  - rewrite history_streams by assumption. now rewrite seg_draws_no_rest.
Qed.

Example history_chunk_invariant_ex : wf (GEnv 3 2 20 3 (GSam 2 5 (GCar 1))) = true /\
  ops_nonneg [Next 4; Query; Next 9; Reset; Next 30; Reset; Next 1] = true /\
  ops_nonneg [Next 13; Reset; Next 7; Next 0; Next 23; Query; Reset; Query; Next 1] = true /\
  no_rest [Next 4; Query; Next 9; Reset; Next 30; Reset; Next 1] = true /\
  no_rest [Next 13; Reset; Next 7; Next 0; Next 23; Query; Reset; Query; Next 1] = true /\
  seg_sums 0 [Next 4; Query; Next 9; Reset; Next 30; Reset; Next 1] =
  seg_sums 0 [Next 13; Reset; Next 7; Next 0; Next 23; Query; Reset; Query; Next 1] /\
  seg_draws (GEnv 3 2 20 3 (GSam 2 5 (GCar 1))) 0 [Next 4; Rest; Reset; Rest] =
  seg_draws (GEnv 3 2 20 3 (GSam 2 5 (GCar 1))) 0 [Next 22; Reset; Next 20; Next 2].
Proof. vm_compute. repeat split; reflexivity. Qed.

(* ------------------------------------------------------------------ *)
(* C09: bookkeeping after ANY history *)
Theorem bookkeeping_history : forall g h, wf g = true -> ops_nonneg h = true ->
  exists s1, run_state all_repaired g (greset all_repaired g) h = Some s1 /\
    (forall ops, run_gen g (h ++ ops) = run_gen g h ++ run_ops all_repaired g (Some s1) ops) /\
    let drawn := pos_after g 0 h in
    0 <= drawn /\
    (forall total, finite_total g = Some total ->
       remaining g s1 = Some (Z.max (total - drawn) 0) /\
       complete g s1 = (total <=? drawn) /\
       (has_n_samples g = true -> n_samples g s1 = Some total)) /\
    (finite_total g = None -> remaining g s1 = None /\ complete g s1 = false /\ n_samples g s1 = None).
Proof.
  intros g h Hwf Hnn. destruct (greset_ok g Hwf) as (s0 & E & Hst0).
  destruct (run_evs_ref g Hwf h 0 s0 ltac:(lia) Hnn Hst0) as (_ & s1 & E2 & Hst1).
  exists s1. rewrite E. split; [exact E2|]. split.
  { intros ops. unfold run_gen. rewrite E. apply run_ops_app. exact E2. }
  cbv zeta. split; [apply pos_after_nonneg; [lia|exact Hnn]|].
  destruct (obs_at g Hwf _ s1 Hst1) as (Ons & Orem & Ocomp).
  unfold ref_remaining in Orem. unfold ref_complete in Ocomp. split.
  - intros total Ht. rewrite Ht in *. split; [exact Orem|]. split; [exact Ocomp|].
    intros Hh. rewrite Hh in Ons. exact Ons.
  - intros Ht. rewrite Ht in *. split; [exact Orem|]. split; [exact Ocomp|].
    destruct (has_n_samples g); exact Ons.
Qed.

Example bookkeeping_history_ex : wf (GSam 4 3 (GGate 1 6 (GCar 1))) = true /\
  ops_nonneg [Next 3; Rest; Reset; Next 2; Query] = true /\
  finite_total (GSam 4 3 (GGate 1 6 (GCar 1))) = Some 7 /\ finite_total (GSam 4 3 (GCar 1)) = None /\
  has_n_samples (GGate 1 6 (GCar 1)) = true.
Proof. vm_compute. repeat split; reflexivity. Qed.

(* after get_samples_remaining() a finite generator is complete and nothing remains, wherever it was before *)
Theorem rest_completes : forall g h total, wf g = true -> ops_nonneg h = true -> finite_total g = Some total ->
  exists s1, run_state all_repaired g (greset all_repaired g) (h ++ [Rest]) = Some s1 /\
    complete g s1 = true /\ remaining g s1 = Some 0 /\
    pos_after g 0 (h ++ [Rest]) = Z.max (pos_after g 0 h) total.
Proof.
  intros g h total Hwf Hnn Ht.
  assert (Hnn' : ops_nonneg (h ++ [Rest]) = true) by (rewrite ops_nonneg_app, Hnn; reflexivity).
  destruct (bookkeeping_history g (h ++ [Rest]) Hwf Hnn') as (s1 & E & _ & _ & Hfin & _).
  destruct (Hfin total Ht) as (Hrem & Hcomp & _).
  pose proof (pos_after_nonneg g h 0 ltac:(lia) Hnn) as Hp.
  assert (Hpos : pos_after g 0 (h ++ [Rest]) = Z.max (pos_after g 0 h) total).
  { rewrite pos_after_last. cbn [pos_step]. unfold ref_remaining. rewrite Ht. lia. }
  exists s1. split; [exact E|]. rewrite Hpos in Hrem, Hcomp.
  split; [rewrite Hcomp; lia|]. split; [rewrite Hrem; f_equal; lia|exact Hpos].
Qed.

Example rest_completes_ex : wf (GRepeat 3 1 12 2 (GEnv 2 0 8 2 (GCar 1))) = true /\
  ops_nonneg [Next 5; Reset; Next 100; Reset; Next 7] = true /\
  finite_total (GRepeat 3 1 12 2 (GEnv 2 0 8 2 (GCar 1))) = Some 48.
Proof. vm_compute. repeat split; reflexivity. Qed.

(* ------------------------------------------------------------------ *)
(* every draw once complete returns only zero samples *)
Lemma is_zero_cons f s : is_zero s = true -> is_zero (f :: s) = true.
Proof. intros H. unfold is_zero in *. cbn [existsb]. rewrite H. apply orb_true_r. Qed.

Lemma den_zero_past_end g : wf g = true -> zero_tail g = true -> forall total p,
  finite_total g = Some total -> total <= p -> 0 <= p -> is_zero (den g p) = true.
Proof.
  induction g as [cid|nid cycle on|wid len|start dur g IH|nid start dur rise g IH|nid D g IH
                  |nid P duty g IH|fid g IH|rn skip period sdelay g IH];
    intros Hwf Hz total p Ht Hle Hp; cbn [zero_tail] in Hz; try discriminate Hz.
  - rewrite (total_fixed _ _ Hwf) in Ht. injection Ht as <-.
    apply (zero_outside (GFixed wid len) p Hwf Hp). exact Hle.
  - rewrite (total_gate _ _ _ Hwf) in Ht. injection Ht as <-.
    apply (zero_outside (GGate start dur g) p Hwf Hp). right. exact Hle.
  - rewrite (total_env _ _ _ _ _ Hwf) in Ht. injection Ht as <-.
    apply (zero_outside (GEnv nid start dur rise g) p Hwf Hp). right. exact Hle.
  - rewrite total_sam in Ht. cbn [wf] in Hwf. apply wf_and in Hwf as [_ Hwf'].
    cbn [den]. apply is_zero_cons. exact (IH Hwf' Hz total p Ht Hle Hp).
  - rewrite total_sqenv in Ht. cbn [wf] in Hwf. apply wf_and in Hwf as [_ Hwf'].
    cbn [den]. apply is_zero_cons. exact (IH Hwf' Hz total p Ht Hle Hp).
  - rewrite (total_repeat _ _ _ _ _ Hwf) in Ht. injection Ht as <-.
    apply (zero_outside (GRepeat rn skip period sdelay g) p Hwf Hp). exact Hle.
Qed.

Lemma forallb_zr {A} (P : A -> bool) f lo n :
  (forall k, 0 <= k < Z.of_nat n -> P (f (lo + k)) = true) -> forallb P (zr f lo n) = true.
Proof.
  revert lo; induction n as [|n IH]; intros lo H; cbn [zr forallb]; [reflexivity|].
  apply andb_true_intro. split.
  - specialize (H 0). rewrite Z.add_0_r in H. apply H. lia.
  - apply IH. intros k Hk. replace (lo + 1 + k) with (lo + (k + 1)) by lia. apply H. lia.
Qed.

Lemma forallb_zrange {A} (P : A -> bool) f lo n :
  (forall k, 0 <= k < n -> P (f (lo + k)) = true) -> forallb P (zrange f lo n) = true.
Proof. intros H. unfold zrange. apply forallb_zr. intros k Hk. apply H. lia. Qed.

Theorem draw_past_end_zero_partial : forall g h n, wf g = true -> zero_tail g = true ->
  ops_nonneg h = true -> 0 <= n ->
  exists s1, run_state all_repaired g (greset all_repaired g) h = Some s1 /\
    (complete g s1 = true ->
     exists s2 out, gnext all_repaired g s1 n = Some (s2, out) /\
       zlen out = n /\ all_zero out = true /\ complete g s2 = true /\ remaining g s2 = Some 0).
Proof.
  intros g h n Hwf Hz Hnn Hn. destruct (greset_ok g Hwf) as (s0 & E & Hst0).
  destruct (run_evs_ref g Hwf h 0 s0 ltac:(lia) Hnn Hst0) as (_ & s1 & E2 & Hst1).
  pose proof (pos_after_nonneg g h 0 ltac:(lia) Hnn) as Hp.
  exists s1. rewrite E. split; [exact E2|]. intros Hc.
  destruct (obs_at g Hwf _ s1 Hst1) as (_ & _ & Ocomp). rewrite Hc in Ocomp.
  unfold ref_complete in Ocomp. destruct (finite_total g) as [total|] eqn:Et; [|discriminate Ocomp].
  destruct (gnext_step g Hwf _ s1 n Hp Hn Hst1) as (s2 & En & Hst2).
  destruct (book g Hwf _ s2 total Hst2 Et) as (Hrem & Hcomp).
  exists s2, (zrange (den g) (pos_after g 0 h) n). split; [exact En|].
  split; [apply zlen_zrange; exact Hn|]. split.
  - apply forallb_zrange. intros k Hk. apply (den_zero_past_end g Hwf Hz total); [exact Et|lia|lia].
  - split; [rewrite Hcomp; lia|rewrite Hrem; f_equal; lia].
Qed.

Example draw_past_end_zero_ex : wf (GSqEnv 4 (7 # 2) 2 (GEnv 2 0 8 2 (GCar 1))) = true /\
  zero_tail (GSqEnv 4 (7 # 2) 2 (GEnv 2 0 8 2 (GCar 1))) = true /\
  ops_nonneg [Next 3; Reset; Next 6; Next 6] = true /\
  match run_state all_repaired (GSqEnv 4 (7 # 2) 2 (GEnv 2 0 8 2 (GCar 1)))
          (greset all_repaired (GSqEnv 4 (7 # 2) 2 (GEnv 2 0 8 2 (GCar 1)))) [Next 3; Reset; Next 6; Next 6] with
  | Some s1 => complete (GSqEnv 4 (7 # 2) 2 (GEnv 2 0 8 2 (GCar 1))) s1 = true
  | None => False
  end.
Proof. vm_compute. repeat split; reflexivity. Qed.

(* without zero_tail the statement is false: a stateful filter over a gated input reports the input's sample
   count and completion, but what it returns after that is the filter's own output (it rings), not zeros *)
Theorem draw_past_end_zero_refuted : exists g h n s1 s2 out total,
  wf g = true /\ ops_nonneg h = true /\ 0 <= n /\ finite_total g = Some total /\
  run_state all_repaired g (greset all_repaired g) h = Some s1 /\ complete g s1 = true /\
  gnext all_repaired g s1 n = Some (s2, out) /\ all_zero out = false.
Proof.
  exists (GFilt 9 (GGate 0 4 (GCar 1))), [Rest], 2. do 4 eexists.
  split; [reflexivity|]. split; [reflexivity|]. split; [lia|].
  split; [vm_compute; reflexivity|]. split; [vm_compute; reflexivity|].
  split; [vm_compute; reflexivity|]. split; vm_compute; reflexivity.
Qed.
