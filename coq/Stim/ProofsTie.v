(* Translator tie of Stim (C01 / C09): the definitions of gen/StimIdxGen.v - regenerated on every run from the CURRENT
   psiaudio/stim.py by translate/pystim2coq.py - equal the hand-written model definitions of Stim/Model.v that the theorems of
   Stim/Proofs*.v are about, for ALL inputs (or all states satisfying the stated invariant); then the main C01 / C09 theorems
   restated over the generated definitions. *)
From PV Require Import Stim.Model Stim.Spec Stim.Proofs Stim.ProofsC09 Stim.SpecTie.
From Coq Require Import ZArith List Bool Lia ZifyBool.
Open Scope Z_scope.

(* ------------------------------------------------------------------ envelope() *)
Theorem envelope_tie : forall nid elb dur rise o n,
  gen_envelope nid elb dur rise o (Some n) = envelope_frag nid elb dur rise o n.
Proof. intros. reflexivity. Qed.

(* samples='auto' is the whole stimulus: i_env_lb + i_duration samples *)
Theorem envelope_auto_tie : forall nid elb dur rise o,
  gen_envelope nid elb dur rise o None = envelope_frag nid elb dur rise o (elb + dur).
Proof. intros. reflexivity. Qed.

Theorem envelope_helpers_tie : forall a b c d,
  gen_envelope_get_i a b = get_i a b /\ gen_envelope_get_n a b c d = get_n a b c d.
Proof. intros. split; reflexivity. Qed.

(* ------------------------------------------------------------------ _sam_envelope *)
Theorem sam_tie : forall nid D o n, gen_sam_envelope nid D o n = sam_frag true nid D o n.
Proof. intros. reflexivity. Qed.

(* ------------------------------------------------------------------ GateFactory *)
Theorem gate_init_tie : forall start dur, gen_gate_init start dur = gate_of start dur 0.
Proof. intros. reflexivity. Qed.

Lemma gate_init_inv : forall start dur, gate_inv (gen_gate_init start dur).
Proof. intros. reflexivity. Qed.

Lemma gate_next_fst : forall st n tok,
  fst (gen_gate_next st n tok) =
  {| gate_start_samples := gate_start_samples st; gate_duration_samples := gate_duration_samples st;
     gate_total_samples := gate_total_samples st; gate_offset := gate_offset st + n |}.
Proof. intros. reflexivity. Qed.

Lemma gate_next_inv : forall st n tok, gate_inv st -> gate_inv (fst (gen_gate_next st n tok)).
Proof. intros st n tok H. rewrite gate_next_fst. exact H. Qed.

Lemma gate_next_of : forall start dur o n tok,
  fst (gen_gate_next (gate_of start dur o) n tok) = gate_of start dur (o + n).
Proof. intros. reflexivity. Qed.

Lemma gate_inv_of : forall st, gate_inv st ->
  st = gate_of (gate_start_samples st) (gate_duration_samples st) (gate_offset st).
Proof. intros [a b c d] H. unfold gate_inv in H. cbn in H. subst c. reflexivity. Qed.

(* next(): for EVERY record (no invariant needed: next does not read total_samples) the model's gate step is the generated
   step applied to the token the input generator hands out *)
Theorem gate_next_tie : forall st g' i n,
  gnext all_repaired (GGate (gate_start_samples st) (gate_duration_samples st) g') (SNode (gate_offset st) i) n =
  match gnext all_repaired g' i n with
  | None => None
  | Some (i', tok) => let '(st', out) := gen_gate_next st n tok in Some (SNode (gate_offset st') i', out)
  end.
Proof.
  intros st g' i n. cbn [gnext].
  destruct (gnext all_repaired g' i n) as [[i' tok]|]; [|reflexivity].
  unfold gen_gate_next. cbn [r_gate all_repaired gate_offset].
  destruct (gate_start_samples st - gate_offset st >=? 0); reflexivity.
Qed.

Corollary gate_next_tie_of : forall start dur o g' i n,
  gnext all_repaired (GGate start dur g') (SNode o i) n =
  match gnext all_repaired g' i n with
  | None => None
  | Some (i', tok) => let '(st', out) := gen_gate_next (gate_of start dur o) n tok in Some (SNode (gate_offset st') i', out)
  end.
Proof. intros. exact (gate_next_tie (gate_of start dur o) g' i n). Qed.

(* the queries: equal to the model's under the invariant total_samples = start_samples + duration_samples *)
Theorem gate_queries_tie : forall st g' i, gate_inv st ->
  let g := GGate (gate_start_samples st) (gate_duration_samples st) g' in
  let s := SNode (gate_offset st) i in
  remaining g s = Some (gen_gate_n_samples_remaining st) /\
  n_samples g s = Some (gen_gate_n_samples st) /\
  complete g s = gen_gate_is_complete st.
Proof.
  intros st g' i H. unfold gate_inv in H. cbn [remaining n_samples complete st_offset].
  unfold gen_gate_n_samples_remaining, gen_gate_n_samples, gen_gate_is_complete. rewrite H. repeat split.
Qed.

Example gate_inv_ex : gate_inv (fst (gen_gate_next (gen_gate_init 3 5) 4 [szero; szero; szero; szero])).
Proof. reflexivity. Qed.

(* ... and not without it: a record whose total_samples is stale answers differently from the model *)
Theorem gate_queries_tie_refuted : exists st g' i, ~ gate_inv st /\
  remaining (GGate (gate_start_samples st) (gate_duration_samples st) g') (SNode (gate_offset st) i)
  <> Some (gen_gate_n_samples_remaining st).
Proof.
  exists {| gate_start_samples := 2; gate_duration_samples := 5; gate_total_samples := 9; gate_offset := 0 |}, (GCar 0), (SLeaf 0).
  split; [unfold gate_inv; cbn; lia | cbn; discriminate].
Qed.

Lemma gate_inv_kept : forall start dur st n tok,
  gate_inv (gen_gate_init start dur) /\ (gate_inv st -> gate_inv (fst (gen_gate_next st n tok))).
Proof. intros. split; [exact (gate_init_inv start dur) | exact (gate_next_inv st n tok)]. Qed.

(* ------------------------------------------------------------------ EnvelopeFactory (a GateFactory: same record, same queries) *)
Theorem env_next_tie : forall R nid rise st g' i n,
  gnext R (GEnv nid (gate_start_samples st) (gate_duration_samples st) rise g') (SNode (gate_offset st) i) n =
  match gnext R g' i n with
  | None => None
  | Some (i', tok) =>
    match gen_env_next nid rise st n tok with
    | None => None
    | Some (st', out) => Some (SNode (gate_offset st') i', out)
    end
  end.
Proof.
  intros R nid rise st g' i n. cbn [gnext].
  destruct (gnext R g' i n) as [[i' tok]|]; [|reflexivity].
  unfold gen_env_next. cbv zeta. rewrite envelope_tie.
  destruct (envelope_frag nid (gate_start_samples st) (gate_duration_samples st) rise (gate_offset st) n) as [e|]; [|reflexivity].
  destruct (map2_mul e tok); reflexivity.
Qed.

Lemma env_next_of : forall nid rise start dur o n tok st' out,
  gen_env_next nid rise (gate_of start dur o) n tok = Some (st', out) -> st' = gate_of start dur (o + n).
Proof.
  intros nid rise start dur o n tok st' out H. unfold gen_env_next in H. cbv zeta in H.
  destruct (gen_envelope _ _ _ _ _ _) as [e|]; [|discriminate].
  destruct (map2_mul e tok); [|discriminate]. inversion H. reflexivity.
Qed.

Theorem env_queries_tie : forall nid rise st g' i, gate_inv st ->
  let g := GEnv nid (gate_start_samples st) (gate_duration_samples st) rise g' in
  let s := SNode (gate_offset st) i in
  remaining g s = Some (gen_gate_n_samples_remaining st) /\
  n_samples g s = Some (gen_gate_n_samples st) /\
  complete g s = gen_gate_is_complete st.
Proof.
  intros nid rise st g' i H. unfold gate_inv in H. cbn [remaining n_samples complete st_offset].
  unfold gen_gate_n_samples_remaining, gen_gate_n_samples, gen_gate_is_complete. rewrite H. repeat split.
Qed.

(* ------------------------------------------------------------------ FixedWaveform (and RepeatFactory, which inherits next) *)
Theorem fixed_next_tie : forall st n,
  gen_fixed_next st n =
  ({| fixed_waveform := fixed_waveform st; fixed_offset := fixed_offset st + n |},
   fixed_next (fixed_waveform st) (fixed_offset st) n).
Proof.
  intros st n. unfold gen_fixed_next, fixed_next. cbv zeta.
  destruct (zlen (py_slice (Some (fixed_offset st)) (Some (fixed_offset st + n)) (fixed_waveform st)) <? n); reflexivity.
Qed.

Theorem fixed_gnext_tie : forall R wid len o n,
  gnext R (GFixed wid len) (SLeaf o) n =
  let '(st', out) := gen_fixed_next (fixed_of wid len o) n in Some (SLeaf (fixed_offset st'), out).
Proof. intros. rewrite fixed_next_tie. reflexivity. Qed.

Theorem repeat_gnext_tie : forall R a b c d g' o w i n,
  gnext R (GRepeat a b c d g') (SRep o w i) n =
  let '(st', out) := gen_fixed_next (fixed_arr w o) n in Some (SRep (fixed_offset st') w i, out).
Proof. intros. rewrite fixed_next_tie. reflexivity. Qed.

(* the queries of a stored array: unconditional (RepeatFactory's state carries the array itself) *)
Theorem repeat_queries_tie : forall a b c d g' o w i,
  let g := GRepeat a b c d g' in
  let s := SRep o w i in
  remaining g s = Some (gen_fixed_n_samples_remaining (fixed_arr w o)) /\
  n_samples g s = Some (gen_fixed_n_samples (fixed_arr w o)) /\
  complete g s = gen_fixed_is_complete (fixed_arr w o).
Proof. intros. repeat split. Qed.

(* the queries of GFixed wid len: the model speaks of `len`, the code of len(self.waveform): equal when 0 <= len *)
Theorem fixed_queries_tie : forall wid len o, 0 <= len ->
  let g := GFixed wid len in
  let s := SLeaf o in
  remaining g s = Some (gen_fixed_n_samples_remaining (fixed_of wid len o)) /\
  n_samples g s = Some (gen_fixed_n_samples (fixed_of wid len o)) /\
  complete g s = gen_fixed_is_complete (fixed_of wid len o).
Proof.
  intros wid len o H. cbn [remaining n_samples complete st_offset].
  unfold gen_fixed_n_samples_remaining, gen_fixed_n_samples, gen_fixed_is_complete, fixed_of. cbn [fixed_waveform fixed_offset].
  rewrite zlen_zrange by exact H. repeat split.
Qed.

Example fixed_queries_ex : 0 <= 13. Proof. lia. Qed.

(* a negative length is outside the model's domain (wf): no array has it *)
Theorem fixed_queries_tie_refuted : exists wid len o, len < 0 /\
  n_samples (GFixed wid len) (SLeaf o) <> Some (gen_fixed_n_samples (fixed_of wid len o)).
Proof. exists 0, (-1), 0. split; [lia | cbn; discriminate]. Qed.

(* ------------------------------------------------------------------ SquareWaveFactory *)
Lemma square_loop_tie : forall fuel st n w o,
  fst (gen_square_next_loop fuel st n w o) =
  sq_loop fuel true (square_nid st) (square_cycle_samples st) (square_on_samples st) n o w.
Proof.
  induction fuel as [|f IH]; intros st n w o; cbn [gen_square_next_loop sq_loop]; [reflexivity|].
  destruct (o <? n); [|reflexivity]. cbv zeta. apply IH.
Qed.

Theorem square_next_tie : forall st n,
  gen_square_next st n =
  ({| square_nid := square_nid st; square_cycle_samples := square_cycle_samples st;
      square_on_samples := square_on_samples st; square_offset := square_offset st + n |},
   square_frag true (square_nid st) (square_cycle_samples st) (square_on_samples st) (square_offset st) n).
Proof.
  intros st n. unfold gen_square_next, square_frag. cbv zeta.
  rewrite <- square_loop_tie.
  destruct (gen_square_next_loop _ st n _ _) as [w o']. reflexivity.
Qed.

Theorem square_gnext_tie : forall nid cycle on o n,
  gnext all_repaired (GSquare nid cycle on) (SLeaf o) n =
  let '(st', out) := gen_square_next (square_of nid cycle on o) n in Some (SLeaf (square_offset st'), out).
Proof. intros. rewrite square_next_tie. reflexivity. Qed.

(* ================================================================== corollaries: C01 / C09 over the generated definitions *)

(* C01_envelope_fragment *)
Theorem source_envelope_fragment : forall nid elb dur rise o n,
  0 <= elb -> 0 <= rise -> 2 * rise <= dur -> 0 <= o -> 0 <= n ->
  gen_envelope nid elb dur rise o (Some n) = Some (zrange (env_at nid elb dur rise) o n).
Proof. intros. rewrite envelope_tie. apply envelope_fragment; assumption. Qed.

(* C09_envelope_shape, for the call with samples='auto' *)
Theorem source_envelope_shape : forall nid elb dur rise, 0 <= elb -> 0 <= rise -> 2 * rise <= dur ->
  gen_envelope nid elb dur rise 0 None =
  Some (zrepeat fzero elb ++ zrange (fun j => (2, nid, j)) 0 rise ++ zrepeat fone (dur - 2 * rise)
        ++ zrange (fun j => (2, nid, j)) rise rise).
Proof. intros. rewrite envelope_auto_tie. apply envelope_shape; assumption. Qed.

(* C09_rise_rejected *)
Theorem source_rise_rejected : forall nid elb dur rise o n, dur < 2 * rise -> gen_envelope nid elb dur rise o n = None.
Proof.
  intros nid elb dur rise o n H.
  destruct n as [n|]; [rewrite envelope_tie | rewrite envelope_auto_tie];
    apply (proj1 (rise_rejected nid elb dur rise o _ (GCar 0) (SLeaf 0) H)).
Qed.

(* C01_sam_fragment *)
Theorem source_sam_fragment : forall nid D o n, 0 <= D -> 0 <= o -> 0 <= n ->
  gen_sam_envelope nid D o n = zrange (sam_at nid D) o n.
Proof. intros. rewrite sam_tie. apply sam_fragment; assumption. Qed.

(* C01_square_fragment: one call of the generated next from any offset *)
Theorem source_square_fragment : forall nid cycle on o n,
  0 < cycle -> 0 <= on <= cycle -> 0 <= o -> 0 <= n ->
  gen_square_next (square_of nid cycle on o) n = (square_of nid cycle on (o + n), zrange (square_at nid cycle on) o n).
Proof. intros. rewrite square_next_tie. cbn [square_of square_nid square_cycle_samples square_on_samples square_offset].
  rewrite square_fragment by assumption. reflexivity. Qed.

(* draw histories over the generated gate step = draw histories of the model *)
Lemma src_gate_run_eq : forall g' start dur cs o i,
  run_chunks all_repaired (GGate start dur g') (SNode o i) cs =
  match src_gate_run g' (gate_of start dur o) i cs with
  | None => None
  | Some (st, i1, out) => Some (SNode (gate_offset st) i1, out)
  end.
Proof.
  intros g' start dur cs. induction cs as [|c t IH]; intros o i; [reflexivity|].
  cbn [run_chunks src_gate_run]. rewrite gate_next_tie_of.
  destruct (gnext all_repaired g' i c) as [[i' tok]|]; [|reflexivity].
  pose proof (gate_next_of start dur o c tok) as Hf.
  destruct (gen_gate_next (gate_of start dur o) c tok) as [st' out]. cbn [fst] in Hf. subst st'.
  cbn [gate_of gate_offset]. rewrite IH.
  destruct (src_gate_run g' (gate_of start dur (o + c)) i' t) as [[[st2 i2] outs]|]; reflexivity.
Qed.

Lemma src_gate_run_state : forall g' start dur cs o i st i1 out,
  src_gate_run g' (gate_of start dur o) i cs = Some (st, i1, out) -> st = gate_of start dur (o + sumZ cs).
Proof.
  intros g' start dur cs. induction cs as [|c t IH]; intros o i st i1 out H; cbn [src_gate_run sumZ fold_right] in H.
  - inversion H. unfold sumZ. cbn. f_equal. lia.
  - destruct (gnext all_repaired g' i c) as [[i' tok]|]; [|discriminate].
    pose proof (gate_next_of start dur o c tok) as Hf.
    destruct (gen_gate_next (gate_of start dur o) c tok) as [st' o']. cbn [fst] in Hf. subst st'.
    destruct (src_gate_run g' (gate_of start dur (o + c)) i' t) as [[[st2 i2] outs]|] eqn:E; [|discriminate].
    inversion H; subst. apply IH in E. subst st. f_equal. unfold sumZ. cbn [fold_right]. lia.
Qed.

(* C01_chunk_invariant for a gate over any well-formed input: ANY draw history over the generated GateFactory.next
   (started by the generated __init__) never raises and yields the whole-stream denotation *)
Theorem source_gate_chunk_invariant : forall start dur g' cs, wf (GGate start dur g') = true -> nonneg cs = true ->
  exists i0 st1 i1, greset all_repaired g' = Some i0 /\
    src_gate_run g' (gen_gate_init start dur) i0 cs = Some (st1, i1, zrange (den (GGate start dur g')) 0 (sumZ cs)).
Proof.
  intros start dur g' cs Hwf Hcs.
  destruct (chunk_invariant (GGate start dur g') cs Hwf Hcs) as (s0 & s1 & Hr & Hc).
  cbn [greset] in Hr. destruct (greset all_repaired g') as [i0|]; [|discriminate]. inversion Hr; subst s0.
  rewrite src_gate_run_eq in Hc. rewrite gate_init_tie.
  destruct (src_gate_run g' (gate_of start dur 0) i0 cs) as [[[st i1] out]|] eqn:E; [|discriminate].
  inversion Hc; subst. exists i0, st, i1. split; [reflexivity | exact E].
Qed.

(* C09_bookkeeping for a gate, over the generated queries *)
Theorem source_bookkeeping_gate : forall start dur g' cs i0 st1 i1 out,
  src_gate_run g' (gen_gate_init start dur) i0 cs = Some (st1, i1, out) ->
  gen_gate_n_samples_remaining st1 = Z.max (start + dur - sumZ cs) 0 /\
  gen_gate_is_complete st1 = (start + dur <=? sumZ cs) /\
  gen_gate_n_samples st1 = start + dur.
Proof.
  intros start dur g' cs i0 st1 i1 out H. rewrite gate_init_tie in H. apply src_gate_run_state in H. subst st1.
  unfold gen_gate_n_samples_remaining, gen_gate_is_complete, gen_gate_n_samples, gate_of.
  cbn [gate_total_samples gate_offset]. repeat split. apply Z.geb_leb.
Qed.

(* the same for EnvelopeFactory *)
Lemma src_env_run_eq : forall nid rise g' start dur cs o i,
  run_chunks all_repaired (GEnv nid start dur rise g') (SNode o i) cs =
  match src_env_run nid rise g' (gate_of start dur o) i cs with
  | None => None
  | Some (st, i1, out) => Some (SNode (gate_offset st) i1, out)
  end.
Proof.
  intros nid rise g' start dur cs. induction cs as [|c t IH]; intros o i; [reflexivity|].
  cbn [run_chunks src_env_run].
  pose proof (env_next_tie all_repaired nid rise (gate_of start dur o) g' i c) as T.
  cbn [gate_of gate_start_samples gate_duration_samples gate_offset] in T. fold (gate_of start dur o) in T. rewrite T. clear T.
  destruct (gnext all_repaired g' i c) as [[i' tok]|]; [|reflexivity].
  destruct (gen_env_next nid rise (gate_of start dur o) c tok) as [[st' out]|] eqn:E; [|reflexivity].
  apply env_next_of in E. subst st'. cbn [gate_of gate_offset]. rewrite IH.
  destruct (src_env_run nid rise g' (gate_of start dur (o + c)) i' t) as [[[st2 i2] outs]|]; reflexivity.
Qed.

Lemma src_env_run_state : forall nid rise g' start dur cs o i st i1 out,
  src_env_run nid rise g' (gate_of start dur o) i cs = Some (st, i1, out) -> st = gate_of start dur (o + sumZ cs).
Proof.
  intros nid rise g' start dur cs. induction cs as [|c t IH]; intros o i st i1 out H; cbn [src_env_run] in H.
  - inversion H. unfold sumZ. cbn. f_equal. lia.
  - destruct (gnext all_repaired g' i c) as [[i' tok]|]; [|discriminate].
    destruct (gen_env_next nid rise (gate_of start dur o) c tok) as [[st' o']|] eqn:E1; [|discriminate].
    apply env_next_of in E1. subst st'.
    destruct (src_env_run nid rise g' (gate_of start dur (o + c)) i' t) as [[[st2 i2] outs]|] eqn:E; [|discriminate].
    inversion H; subst. apply IH in E. subst st. f_equal. unfold sumZ. cbn [fold_right]. lia.
Qed.

Theorem source_env_chunk_invariant : forall nid start dur rise g' cs,
  wf (GEnv nid start dur rise g') = true -> nonneg cs = true ->
  exists i0 st1 i1, greset all_repaired g' = Some i0 /\
    src_env_run nid rise g' (gen_gate_init start dur) i0 cs =
    Some (st1, i1, zrange (den (GEnv nid start dur rise g')) 0 (sumZ cs)).
Proof.
  intros nid start dur rise g' cs Hwf Hcs.
  destruct (chunk_invariant (GEnv nid start dur rise g') cs Hwf Hcs) as (s0 & s1 & Hr & Hc).
  cbn [greset] in Hr. destruct (greset all_repaired g') as [i0|]; [|discriminate]. inversion Hr; subst s0.
  rewrite src_env_run_eq in Hc. rewrite gate_init_tie.
  destruct (src_env_run nid rise g' (gate_of start dur 0) i0 cs) as [[[st i1] out]|] eqn:E; [|discriminate].
  inversion Hc; subst. exists i0, st, i1. split; [reflexivity | exact E].
Qed.

Theorem source_bookkeeping_env : forall nid rise start dur g' cs i0 st1 i1 out,
  src_env_run nid rise g' (gen_gate_init start dur) i0 cs = Some (st1, i1, out) ->
  gen_gate_n_samples_remaining st1 = Z.max (start + dur - sumZ cs) 0 /\
  gen_gate_is_complete st1 = (start + dur <=? sumZ cs) /\
  gen_gate_n_samples st1 = start + dur.
Proof.
  intros nid rise start dur g' cs i0 st1 i1 out H. rewrite gate_init_tie in H. apply src_env_run_state in H. subst st1.
  unfold gen_gate_n_samples_remaining, gen_gate_is_complete, gen_gate_n_samples, gate_of.
  cbn [gate_total_samples gate_offset]. repeat split. apply Z.geb_leb.
Qed.

(* the same for FixedWaveform *)
Lemma src_fixed_run_eq : forall R wid len cs o,
  run_chunks R (GFixed wid len) (SLeaf o) cs =
  let '(st, out) := src_fixed_run (fixed_of wid len o) cs in Some (SLeaf (fixed_offset st), out).
Proof.
  intros R wid len cs. induction cs as [|c t IH]; intros o; [reflexivity|].
  cbn [run_chunks src_fixed_run]. rewrite fixed_gnext_tie, fixed_next_tie.
  change {| fixed_waveform := fixed_waveform (fixed_of wid len o); fixed_offset := fixed_offset (fixed_of wid len o) + c |}
    with (fixed_of wid len (o + c)).
  cbn [fixed_offset fixed_of]. rewrite IH.
  destruct (src_fixed_run (fixed_of wid len (o + c)) t) as [st2 outs]. reflexivity.
Qed.

Lemma src_fixed_run_state : forall w cs o st out,
  src_fixed_run (fixed_arr w o) cs = (st, out) -> st = fixed_arr w (o + sumZ cs).
Proof.
  intros w cs. induction cs as [|c t IH]; intros o st out H; cbn [src_fixed_run] in H.
  - inversion H. unfold sumZ. cbn. f_equal. lia.
  - rewrite fixed_next_tie in H.
    change {| fixed_waveform := fixed_waveform (fixed_arr w o); fixed_offset := fixed_offset (fixed_arr w o) + c |}
      with (fixed_arr w (o + c)) in H.
    destruct (src_fixed_run (fixed_arr w (o + c)) t) as [st2 outs] eqn:E. inversion H; subst.
    apply IH in E. subst st. f_equal. unfold sumZ. cbn [fold_right]. lia.
Qed.

Theorem source_fixed_chunk_invariant : forall wid len cs, 0 <= len -> nonneg cs = true ->
  snd (src_fixed_run (fixed_of wid len 0) cs) = zrange (den (GFixed wid len)) 0 (sumZ cs).
Proof.
  intros wid len cs Hlen Hcs.
  assert (Hwf : wf (GFixed wid len) = true) by (cbn; lia).
  destruct (chunk_invariant (GFixed wid len) cs Hwf Hcs) as (s0 & s1 & Hr & Hc).
  cbn [greset] in Hr. inversion Hr; subst s0. rewrite src_fixed_run_eq in Hc.
  destruct (src_fixed_run (fixed_of wid len 0) cs) as [st out]. inversion Hc. reflexivity.
Qed.

Theorem source_bookkeeping_fixed : forall w cs,
  let st := fst (src_fixed_run (fixed_arr w 0) cs) in
  gen_fixed_n_samples_remaining st = Z.max (zlen w - sumZ cs) 0 /\
  gen_fixed_is_complete st = (zlen w <=? sumZ cs) /\
  gen_fixed_n_samples st = zlen w.
Proof.
  intros w cs. destruct (src_fixed_run (fixed_arr w 0) cs) as [st out] eqn:E. cbn [fst].
  apply src_fixed_run_state in E. subst st.
  unfold gen_fixed_n_samples_remaining, gen_fixed_is_complete, gen_fixed_n_samples, fixed_arr.
  cbn [fixed_waveform fixed_offset]. repeat split. apply Z.geb_leb.
Qed.

(* and for SquareWaveFactory: any draw history over the generated next *)
Lemma src_square_run_eq : forall nid cycle on cs o,
  run_chunks all_repaired (GSquare nid cycle on) (SLeaf o) cs =
  let '(st, out) := src_square_run (square_of nid cycle on o) cs in Some (SLeaf (square_offset st), out).
Proof.
  intros nid cycle on cs. induction cs as [|c t IH]; intros o; [reflexivity|].
  cbn [run_chunks src_square_run]. rewrite square_gnext_tie, square_next_tie.
  change {| square_nid := square_nid (square_of nid cycle on o);
            square_cycle_samples := square_cycle_samples (square_of nid cycle on o);
            square_on_samples := square_on_samples (square_of nid cycle on o);
            square_offset := square_offset (square_of nid cycle on o) + c |} with (square_of nid cycle on (o + c)).
  cbn [square_offset square_of]. rewrite IH.
  destruct (src_square_run (square_of nid cycle on (o + c)) t) as [st2 outs]. reflexivity.
Qed.

Theorem source_square_chunk_invariant : forall nid cycle on cs,
  0 < cycle -> 0 <= on <= cycle -> nonneg cs = true ->
  snd (src_square_run (square_of nid cycle on 0) cs) = zrange (square_at nid cycle on) 0 (sumZ cs).
Proof.
  intros nid cycle on cs Hc Hon Hcs.
  assert (Hwf : wf (GSquare nid cycle on) = true) by (cbn; lia).
  destruct (chunk_invariant (GSquare nid cycle on) cs Hwf Hcs) as (s0 & s1 & Hr & Hrun).
  cbn [greset] in Hr. inversion Hr; subst s0. rewrite src_square_run_eq in Hrun.
  destruct (src_square_run (square_of nid cycle on 0) cs) as [st out]. inversion Hrun. reflexivity.
Qed.

Example source_ex : wf (GGate 2 5 (GSquare 1 4 2)) = true /\ nonneg [3; 0; 6] = true /\
  (exists st i, src_gate_run (GSquare 1 4 2) (gen_gate_init 2 5) (SLeaf 0) [3; 0; 6] =
                Some (st, i, zrange (den (GGate 2 5 (GSquare 1 4 2))) 0 9)).
Proof. split; [reflexivity|]. split; [reflexivity|]. eexists. eexists. vm_compute. reflexivity. Qed.
