(* The cosine-squared ramp sin^2(pi*j/m) (stim.cos2ramp) stays within [0, 1], over the reals. *)
From Coq Require Import Reals Lra.
Open Scope R_scope.

Definition cos2ramp_R (m j : R) : R := Rsqr (sin (PI * j / m)).

(* the statement, named so that Props/C09.v (a Z-scoped file) can state it without importing Reals *)
Definition cos2ramp_within_unit_interval : Prop := forall m j : R, 0 <= cos2ramp_R m j <= 1.

Lemma cos2ramp_unit_interval : cos2ramp_within_unit_interval.
Proof.
  intros m j. unfold cos2ramp_R, Rsqr.
  pose proof (SIN_bound (PI * j / m)) as [H1 H2].
  split; nra.
Qed.

(* ... starts at 0, and reaches 1 in the middle of a window of 2*r samples *)
Lemma cos2ramp_start : forall m, cos2ramp_R m 0 = 0.
Proof. intros m. unfold cos2ramp_R. replace (PI * 0 / m) with 0 by (unfold Rdiv; ring). rewrite sin_0. unfold Rsqr; ring. Qed.

Lemma cos2ramp_middle : forall r, 0 < r -> cos2ramp_R (2 * r) r = 1.
Proof.
  intros r Hr. unfold cos2ramp_R.
  replace (PI * r / (2 * r)) with (PI / 2) by (field; lra).
  rewrite sin_PI2. unfold Rsqr; ring.
Qed.
