(* Translator tie of Stim, second part: repeat(), RepeatFactory.reset, Transform.next / reset of gen/StimIdxGen.v
   (regenerated from psiaudio/stim.py by translate/pystim2coq.py) against repeat_wave, the GRepeat case of greset and the
   offset update of the GFilt / GSam cases of gnext in Stim/Model.v; corollaries over the generated definitions. *)
From PV Require Import Stim.Model Stim.Spec Stim.Proofs Stim.ProofsC09 Stim.SpecX Stim.ProofsXRep Stim.SpecTie Stim.ProofsTie.
From Coq Require Import ZArith List Bool Lia ZifyBool.
Open Scope Z_scope.

(* ------------------------------------------------------------------ list facts about the row layout *)
Lemma firstn_skipn_repeat {A} (x : A) (a b : nat) :
  firstn a (repeat x (a + b)) = repeat x a /\ skipn a (repeat x (a + b)) = repeat x b.
Proof. induction a as [|a [IH1 IH2]]; cbn; [split; reflexivity|]. split; [f_equal|]; assumption. Qed.

Lemma map_repeat' {A B} (f : A -> B) (x : A) (n : nat) : map f (repeat x n) = repeat (f x) n.
Proof. induction n; cbn; [reflexivity | f_equal; assumption]. Qed.

Lemma concat_repeat_repeat {A} (z : A) (p k : nat) : concat (repeat (repeat z p) k) = repeat z (k * p).
Proof. induction k; cbn; [reflexivity|]. rewrite IHk, <- repeat_app. reflexivity. Qed.

(* ------------------------------------------------------------------ repeat() *)
(* the model's domain (wf of GRepeat): counts and delay are not negative *)
Theorem repeat_tie : forall n skip period sdelay w, 0 <= n -> 0 <= skip -> 0 <= sdelay ->
  gen_repeat period sdelay w n skip = repeat_wave n skip period sdelay w.
Proof.
  intros n skip period sdelay w Hn Hs Hd. unfold gen_repeat, repeat_wave. cbv zeta.
  destruct (zlen w >? period - sdelay) eqn:E; [reflexivity|].
  assert (Hlw : 0 <= zlen w) by (unfold zlen; lia).
  assert (Hfit : zlen w <= period - sdelay) by lia.
  f_equal. unfold np_ravel, np_set_rows, np_zeros2, zrepeat.
  replace (Z.to_nat (n + skip)) with (Z.to_nat skip + Z.to_nat n)%nat by lia.
  destruct (firstn_skipn_repeat (repeat szero (Z.to_nat period)) (Z.to_nat skip) (Z.to_nat n)) as [F S].
  rewrite F, S, map_repeat', concat_app, concat_repeat_repeat.
  replace (Z.to_nat (skip * period)) with (Z.to_nat skip * Z.to_nat period)%nat by (rewrite Z2Nat.inj_mul; lia).
  f_equal. f_equal. f_equal.
  set (r := Z.to_nat (period - sdelay - zlen w)).
  assert (E1 : Z.to_nat period = (Z.to_nat sdelay + (Z.to_nat (zlen w) + r))%nat) by (subst r; lia).
  assert (E2 : Z.to_nat period = (Z.to_nat (sdelay + zlen w) + r)%nat) by (subst r; lia).
  rewrite E1 at 1. rewrite E2.
  rewrite (proj1 (firstn_skipn_repeat szero _ _)), (proj2 (firstn_skipn_repeat szero _ _)). reflexivity.
Qed.

Example repeat_tie_ex : gen_repeat 5 1 [[fone]; [fone]] 2 1 = repeat_wave 2 1 5 1 [[fone]; [fone]] /\
  repeat_wave 2 1 5 1 [[fone]; [fone]] <> None.
Proof. split; [reflexivity | intro H; apply (f_equal (fun o => match o with Some _ => true | None => false end)) in H; vm_compute in H; discriminate H]. Qed.

(* outside it (a negative delay) source and model differ: the model pads a row to period - sdelay, NumPy's row stays period *)
Theorem repeat_tie_refuted : exists n skip period sdelay w, sdelay < 0 /\
  gen_repeat period sdelay w n skip <> repeat_wave n skip period sdelay w.
Proof.
  exists 1, 0, 3, (-2), [[fone]]. split; [lia|]. intro H.
  apply (f_equal (fun o => match o with Some l => zlen l | None => 0 end)) in H. vm_compute in H. discriminate H.
Qed.

(* the ValueError: exactly when the waveform does not fit between the delay and the end of the period (unconditional) *)
Theorem repeat_raises_tie : forall n skip period sdelay w,
  (gen_repeat period sdelay w n skip = None <-> zlen w > period - sdelay) /\
  (repeat_wave n skip period sdelay w = None <-> zlen w > period - sdelay).
Proof.
  intros. unfold gen_repeat, repeat_wave. cbv zeta.
  destruct (zlen w >? period - sdelay) eqn:E; split; split; intros H; try reflexivity; try discriminate; lia.
Qed.

(* ------------------------------------------------------------------ RepeatFactory.reset *)
Theorem repeat_reset_tie : forall n skip period sdelay st w,
  gen_repeat_reset period sdelay n skip st w =
  match gen_repeat period sdelay w n skip with
  | None => None
  | Some wave => Some (fixed_arr wave 0)
  end.
Proof. intros. unfold gen_repeat_reset. cbv zeta. destruct (gen_repeat period sdelay w n skip); reflexivity. Qed.

(* the GRepeat case of greset: reset of the input, get_samples_remaining of the input (model side), then the generated
   RepeatFactory.reset on what the input handed out - from ANY previous record of the object *)
Theorem repeat_greset_tie : forall R n skip period sdelay g st, 0 <= n -> 0 <= skip -> 0 <= sdelay ->
  greset R (GRepeat n skip period sdelay g) =
  match greset R g with
  | None => None
  | Some i =>
    match remaining g i with
    | None => None
    | Some r =>
      match gnext R g i r with
      | None => None
      | Some (i', w) =>
        match gen_repeat_reset period sdelay n skip st w with
        | None => None
        | Some st' => Some (SRep (fixed_offset st') (fixed_waveform st') i')
        end
      end
    end
  end.
Proof.
  intros R n skip period sdelay g st Hn Hs Hd. cbn [greset].
  destruct (greset R g) as [i|]; [|reflexivity]. destruct (remaining g i) as [r|]; [|reflexivity].
  destruct (gnext R g i r) as [[i' w]|]; [|reflexivity].
  rewrite repeat_reset_tie, repeat_tie by assumption.
  destruct (repeat_wave n skip period sdelay w); reflexivity.
Qed.

(* ------------------------------------------------------------------ Transform.next / Transform.reset *)
Theorem transform_next_tie : forall o n tok out,
  gen_transform_next {| xform_offset := o |} n tok out = ({| xform_offset := o + zlen out |}, out).
Proof. intros. reflexivity. Qed.

Theorem transform_reset_tie : forall st, gen_transform_reset st = {| xform_offset := 0 |}.
Proof. intros. reflexivity. Qed.

(* NotchFilterFactory (GFilt): the filter output has the token's length; the offset advances by len(output) *)
Theorem filt_next_tie : forall R fid g' o i n,
  gnext R (GFilt fid g') (SNode o i) n =
  match gnext R g' i n with
  | None => None
  | Some (i', tok) =>
    let '(st', out) := gen_transform_next {| xform_offset := o |} n tok (zrange (fun p => [(8, fid, p)]) o (zlen tok)) in
    Some (SNode (xform_offset st') i', out)
  end.
Proof.
  intros R fid g' o i n. cbn [gnext]. destruct (gnext R g' i n) as [[i' tok]|]; [|reflexivity].
  rewrite transform_next_tie. cbv zeta. rewrite zlen_zrange by (unfold zlen; lia). reflexivity.
Qed.

(* SAMEnvelopeFactory (GSam): Modulator.transform = env(len(token)) * token with the generated _sam_envelope *)
Theorem sam_next_tie : forall nid D g' o i n,
  gnext all_repaired (GSam nid D g') (SNode o i) n =
  match gnext all_repaired g' i n with
  | None => None
  | Some (i', tok) =>
    match map2_mul (gen_sam_envelope nid D o (zlen tok)) tok with
    | None => None
    | Some w => let '(st', out) := gen_transform_next {| xform_offset := o |} n tok w in
                Some (SNode (xform_offset st') i', out)
    end
  end.
Proof.
  intros nid D g' o i n. cbn [gnext]. destruct (gnext all_repaired g' i n) as [[i' tok]|]; [|reflexivity].
  cbn [r_sam all_repaired]. change (gen_sam_envelope nid D o (zlen tok)) with (sam_frag true nid D o (zlen tok)).
  destruct (map2_mul (sam_frag true nid D o (zlen tok)) tok); reflexivity.
Qed.

(* Transform.reset in greset: the node's offset after reset is the generated one *)
Theorem transform_greset_tie : forall R fid g' st,
  greset R (GFilt fid g') =
  match greset R g' with Some i => Some (SNode (xform_offset (gen_transform_reset st)) i) | None => None end.
Proof. intros. reflexivity. Qed.

(* ================================================================== corollaries *)
Lemma src_repeat_run_eq : forall R a b c d g' w i cs o,
  run_chunks R (GRepeat a b c d g') (SRep o w i) cs =
  let '(st, out) := src_fixed_run (fixed_arr w o) cs in Some (SRep (fixed_offset st) w i, out).
Proof.
  intros R a b c d g' w i cs. induction cs as [|k t IH]; intros o; [reflexivity|].
  cbn [run_chunks src_fixed_run]. rewrite repeat_gnext_tie, fixed_next_tie.
  change {| fixed_waveform := fixed_waveform (fixed_arr w o); fixed_offset := fixed_offset (fixed_arr w o) + k |}
    with (fixed_arr w (o + k)).
  cbn [fixed_offset fixed_arr]. rewrite IH.
  destruct (src_fixed_run (fixed_arr w (o + k)) t) as [st2 outs]. reflexivity.
Qed.

(* C01_repeat_rows over the generated definitions: the generated RepeatFactory.reset, applied (from any previous record) to
   what the input handed out, stores the row stream, and every draw history over the generated next yields that stream *)
Theorem source_repeat_rows : forall n skip period sdelay g cs st0,
  wf (GRepeat n skip period sdelay g) = true -> nonneg cs = true ->
  exists i0 lw i1 w,
    greset all_repaired g = Some i0 /\ remaining g i0 = Some lw /\
    gnext all_repaired g i0 lw = Some (i1, w) /\ zlen w = lw /\
    let W := zrange (repeat_row_stream n skip period sdelay w) 0 ((n + skip) * period) in
    gen_repeat_reset period sdelay n skip st0 w = Some (fixed_arr W 0) /\
    snd (src_fixed_run (fixed_arr W 0) cs) = zrange (repeat_row_stream n skip period sdelay w) 0 (sumZ cs).
Proof.
  intros n skip period sdelay g cs st0 Hwf Hcs.
  destruct (repeat_rows n skip period sdelay g cs Hwf Hcs) as (i0 & lw & i1 & w & s1 & H0 & Hr & Hn & Hl & Hg & Hrun).
  destruct (repeat_len_nonneg _ _ _ _ _ Hwf) as (Pn & Ps & Pd & _ & _).
  exists i0, lw, i1, w. repeat (split; [assumption|]). cbv zeta.
  rewrite (repeat_greset_tie all_repaired n skip period sdelay g st0 Pn Ps Pd), H0, Hr, Hn in Hg.
  rewrite repeat_reset_tie in Hg |- *.
  destruct (gen_repeat period sdelay w n skip) as [wave|]; [|discriminate].
  cbn [fixed_arr fixed_offset fixed_waveform] in Hg. inversion Hg as [Hw]. split; [reflexivity|].
  rewrite src_repeat_run_eq in Hrun.
  destruct (src_fixed_run (fixed_arr _ 0) cs) as [st out]. inversion Hrun. reflexivity.
Qed.

(* C09_bookkeeping for RepeatFactory over the generated reset / next / queries *)
Theorem source_bookkeeping_repeat : forall n skip period sdelay g cs st0 i0 lw i1 w st,
  wf (GRepeat n skip period sdelay g) = true ->
  greset all_repaired g = Some i0 -> remaining g i0 = Some lw -> gnext all_repaired g i0 lw = Some (i1, w) ->
  gen_repeat_reset period sdelay n skip st0 w = Some st ->
  let st1 := fst (src_fixed_run st cs) in
  gen_fixed_n_samples_remaining st1 = Z.max ((n + skip) * period - sumZ cs) 0 /\
  gen_fixed_is_complete st1 = ((n + skip) * period <=? sumZ cs) /\
  gen_fixed_n_samples st1 = (n + skip) * period.
Proof.
  intros n skip period sdelay g cs st0 i0 lw i1 w st Hwf H0 Hr Hn Hg.
  destruct (repeat_rows n skip period sdelay g [] Hwf eq_refl) as (i0' & lw' & i1' & w' & s1 & H0' & Hr' & Hn' & _ & Hg' & _).
  rewrite H0 in H0'. inversion H0'; subst i0'. rewrite Hr in Hr'. inversion Hr'; subst lw'.
  rewrite Hn in Hn'. inversion Hn'; subst i1' w'.
  destruct (repeat_len_nonneg _ _ _ _ _ Hwf) as (Pn & Ps & Pd & _ & PL).
  rewrite (repeat_greset_tie all_repaired n skip period sdelay g st0 Pn Ps Pd), H0, Hr, Hn, Hg in Hg'.
  rewrite repeat_reset_tie in Hg. destruct (gen_repeat period sdelay w n skip) as [wave|]; [|discriminate].
  inversion Hg; subst st. cbn [fixed_arr fixed_offset fixed_waveform] in Hg'. inversion Hg' as [Hw].
  pose proof (source_bookkeeping_fixed (zrange (repeat_row_stream n skip period sdelay w) 0 ((n + skip) * period)) cs) as B.
  cbv zeta in B |- *. rewrite zlen_zrange in B by assumption. exact B.
Qed.
