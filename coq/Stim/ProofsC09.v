(* C09: duration contract, bookkeeping and envelope shape of finite stimuli. *)
From PV Require Import Stim.Model Stim.Spec Stim.Proofs.
From Coq Require Import ZArith List Bool Lia ZifyBool.
Import ListNotations.
Open Scope Z_scope.

(* the total reported right after reset, by constructor *)
Lemma total_node g : wf g = true -> forall i, greset all_repaired g = Some i ->
  finite_total g = remaining g i.
Proof. intros _ i E. unfold finite_total, total_len. now rewrite E. Qed.

Lemma total_gate start dur g : wf (GGate start dur g) = true ->
  finite_total (GGate start dur g) = Some (start + dur).
Proof.
  intros Hwf. destruct (greset_ok _ Hwf) as (s0 & E & Hst).
  unfold finite_total, total_len. rewrite E. cbn [wf] in Hwf. apply wf_and in Hwf as [Hp _].
  destruct s0 as [|o i|]; cbn [state_at] in Hst; try contradiction. destruct Hst as [-> _].
  cbn [remaining st_offset]. f_equal. lia.
Qed.

Lemma total_env nid start dur rise g : wf (GEnv nid start dur rise g) = true ->
  finite_total (GEnv nid start dur rise g) = Some (start + dur).
Proof.
  intros Hwf. destruct (greset_ok _ Hwf) as (s0 & E & Hst).
  unfold finite_total, total_len. rewrite E. cbn [wf] in Hwf. apply wf_and in Hwf as [Hp _].
  destruct s0 as [|o i|]; cbn [state_at] in Hst; try contradiction. destruct Hst as [-> _].
  cbn [remaining st_offset]. f_equal. lia.
Qed.

Lemma total_fixed wid len : wf (GFixed wid len) = true -> finite_total (GFixed wid len) = Some len.
Proof. cbn [wf]. intros H. cbv [finite_total total_len greset remaining st_offset]. f_equal. lia. Qed.

Lemma repeat_len_nonneg n skip period sdelay g : wf (GRepeat n skip period sdelay g) = true ->
  0 <= n /\ 0 <= skip /\ 0 <= sdelay /\ 0 < period /\ 0 <= (n + skip) * period.
Proof.
  cbn [wf]. intros Hwf. apply wf_and in Hwf as [Hp _]. apply wf_and in Hp as [Hp _].
  assert (0 <= n /\ 0 <= skip /\ 0 <= sdelay /\ 0 < period) as (H1 & H2 & H3 & H4) by lia.
  repeat split; try assumption. apply Z.mul_nonneg_nonneg; lia.
Qed.

Lemma total_repeat n skip period sdelay g : wf (GRepeat n skip period sdelay g) = true ->
  finite_total (GRepeat n skip period sdelay g) = Some ((n + skip) * period).
Proof.
  intros Hwf. destruct (greset_ok _ Hwf) as (s0 & E & Hst).
  destruct (repeat_len_nonneg _ _ _ _ _ Hwf) as (_ & _ & _ & _ & HL).
  unfold finite_total, total_len. rewrite E.
  destruct s0 as [| |o w i]; cbn [state_at] in Hst; try contradiction. destruct Hst as [-> ->].
  cbn [remaining]. rewrite zlen_zrange by assumption. f_equal. lia.
Qed.

Theorem totals : forall g,
  match g with
  | GGate start dur g' => wf g = true -> finite_total g = Some (start + dur)
  | GEnv _ start dur _ g' => wf g = true -> finite_total g = Some (start + dur)
  | GFixed _ len => wf g = true -> finite_total g = Some len
  | GRepeat n skip period _ _ => wf g = true -> finite_total g = Some ((n + skip) * period)
  | _ => True
  end.
Proof.
  intros g. destruct g; try exact I.
  - apply total_fixed.
  - apply total_gate.
  - apply total_env.
  - apply total_repeat.
Qed.

(* bookkeeping in a state reached after o samples *)
Lemma book g : wf g = true -> forall o s total, state_at g o s -> finite_total g = Some total ->
  remaining g s = Some (Z.max (total - o) 0) /\ complete g s = (total <=? o).
Proof.
  induction g as [cid|nid cycle on|wid len|start dur g IH|nid start dur rise g IH|nid D g IH
                  |nid P duty g IH|fid g IH|rn skip period sdelay g IH];
    intros Hwf o s total Hst Ht.
  - discriminate Ht.
  - discriminate Ht.
  - rewrite (total_fixed _ _ Hwf) in Ht. injection Ht as <-.
    destruct s as [o'| |]; cbn [state_at] in Hst; try contradiction. subst o'.
    cbn [remaining complete st_offset]. split; [reflexivity|]. apply Z.geb_leb.
  - rewrite (total_gate _ _ _ Hwf) in Ht. injection Ht as <-.
    destruct s as [|o' i|]; cbn [state_at] in Hst; try contradiction. destruct Hst as [-> _].
    cbn [remaining complete st_offset]. split; [reflexivity|]. apply Z.geb_leb.
  - rewrite (total_env _ _ _ _ _ Hwf) in Ht. injection Ht as <-.
    destruct s as [|o' i|]; cbn [state_at] in Hst; try contradiction. destruct Hst as [-> _].
    cbn [remaining complete st_offset]. split; [reflexivity|]. apply Z.geb_leb.
  - destruct (greset_ok _ Hwf) as (s0 & E & _).
    cbn [wf] in Hwf. apply wf_and in Hwf as [_ Hwf'].
    unfold finite_total, total_len in Ht. rewrite E in Ht. cbn [greset] in E.
    destruct (greset all_repaired g) as [i0|] eqn:E0; [|discriminate]. injection E as <-.
    cbn [remaining] in Ht.
    destruct s as [|o' i|]; cbn [state_at] in Hst; try contradiction. destruct Hst as [-> Hi].
    cbn [remaining complete]. apply (IH Hwf' o i total Hi).
    unfold finite_total, total_len. now rewrite E0.
  - destruct (greset_ok _ Hwf) as (s0 & E & _).
    cbn [wf] in Hwf. apply wf_and in Hwf as [_ Hwf'].
    unfold finite_total, total_len in Ht. rewrite E in Ht. cbn [greset] in E.
    destruct (greset all_repaired g) as [i0|] eqn:E0; [|discriminate]. injection E as <-.
    cbn [remaining] in Ht.
    destruct s as [|o' i|]; cbn [state_at] in Hst; try contradiction. destruct Hst as [-> Hi].
    cbn [remaining complete]. apply (IH Hwf' o i total Hi).
    unfold finite_total, total_len. now rewrite E0.
  - destruct (greset_ok _ Hwf) as (s0 & E & _).
    cbn [wf] in Hwf.
    unfold finite_total, total_len in Ht. rewrite E in Ht. cbn [greset] in E.
    destruct (greset all_repaired g) as [i0|] eqn:E0; [|discriminate]. injection E as <-.
    cbn [remaining] in Ht.
    destruct s as [|o' i|]; cbn [state_at] in Hst; try contradiction. destruct Hst as [-> Hi].
    cbn [remaining complete]. apply (IH Hwf o i total Hi).
    unfold finite_total, total_len. now rewrite E0.
  - rewrite (total_repeat _ _ _ _ _ Hwf) in Ht. injection Ht as <-.
    destruct (repeat_len_nonneg _ _ _ _ _ Hwf) as (_ & _ & _ & _ & HL).
    destruct s as [| |o' w i]; cbn [state_at] in Hst; try contradiction. destruct Hst as [-> ->].
    cbn [remaining complete]. rewrite zlen_zrange by assumption.
    split; [reflexivity|]. apply Z.geb_leb.
Qed.

Theorem bookkeeping : forall g cs total s0 s1 out,
  wf g = true -> nonneg cs = true -> finite_total g = Some total ->
  greset all_repaired g = Some s0 -> run_chunks all_repaired g s0 cs = Some (s1, out) ->
  remaining g s1 = Some (Z.max (total - sumZ cs) 0) /\
  complete g s1 = (total <=? sumZ cs) /\
  (forall n, n_samples g s0 = Some n -> n_samples g s1 = Some n /\ n = total).
Proof.
  intros g cs total s0 s1 out Hwf Hnn Ht E0 Er.
  destruct (greset_ok g Hwf) as (s0' & E & Hst0). rewrite E0 in E. injection E as <-.
  destruct (run_chunks_ok g Hwf cs 0 s0 ltac:(lia) Hnn Hst0) as (s1' & E1 & Hst1).
  rewrite Er in E1. injection E1 as <- _. rewrite Z.add_0_l in Hst1.
  destruct (book g Hwf (sumZ cs) s1 total Hst1 Ht) as [B1 B2].
  split; [exact B1|]. split; [exact B2|].
  intros n Hns. destruct g; cbn [n_samples] in Hns |- *; try discriminate Hns.
  - (* GFixed *) rewrite (total_fixed _ _ Hwf) in Ht. injection Ht as <-. injection Hns as <-.
    split; reflexivity.
  - (* GGate *) rewrite (total_gate _ _ _ Hwf) in Ht. injection Ht as <-. injection Hns as <-.
    split; reflexivity.
  - (* GEnv *) rewrite (total_env _ _ _ _ _ Hwf) in Ht. injection Ht as <-. injection Hns as <-.
    split; reflexivity.
  - (* GRepeat *) rewrite (total_repeat _ _ _ _ _ Hwf) in Ht. injection Ht as <-.
    destruct (repeat_len_nonneg _ _ _ _ _ Hwf) as (_ & _ & _ & _ & HL).
    destruct s0 as [| |o0 w0 i0]; cbn [state_at] in Hst0; try contradiction. destruct Hst0 as [_ ->].
    destruct s1 as [| |o1 w1 i1]; cbn [state_at] in Hst1; try contradiction. destruct Hst1 as [_ ->].
    injection Hns as <-. split; [reflexivity|apply zlen_zrange; assumption].
Qed.

Example bookkeeping_ex : wf (GEnv 2 1 8 2 (GCar 1)) = true /\ nonneg [4; 7] = true /\
  finite_total (GEnv 2 1 8 2 (GCar 1)) = Some 9.
Proof. vm_compute. repeat split; reflexivity. Qed.

Theorem zero_outside : forall g p, wf g = true -> 0 <= p ->
  match g with
  | GGate start dur _ | GEnv _ start dur _ _ => (p < start \/ start + dur <= p) -> is_zero (den g p) = true
  | GFixed _ len => len <= p -> is_zero (den g p) = true
  | GRepeat n skip period _ _ => (n + skip) * period <= p -> is_zero (den g p) = true
  | _ => True
  end.
Proof.
  intros g p Hwf Hp. destruct g as [cid|nid cycle on|wid len|start dur g|nid start dur rise g|nid D g
                  |nid P duty g|fid g|rn skip period sdelay g]; try exact I.
  - intros H. cbn [den]. destruct (p <? len) eqn:E; [lia|reflexivity].
  - intros H. cbn [den]. destruct ((start <=? p) && (p <? start + dur)) eqn:E; [lia|reflexivity].
  - intros H. cbn [wf] in Hwf. apply wf_and in Hwf as [Hq _]. cbn [den]. unfold env_at.
    destruct (p <? start) eqn:E1; [reflexivity|].
    destruct (p <? start + rise) eqn:E2; [lia|].
    destruct (p <? start + dur - rise) eqn:E3; [lia|].
    destruct (p <? start + dur) eqn:E4; [lia|reflexivity].
  - intros H. destruct (repeat_len_nonneg _ _ _ _ _ Hwf) as (_ & _ & _ & Hper & _).
    rewrite den_repeat_outside by assumption. reflexivity.
Qed.

Theorem envelope_shape : forall nid elb dur rise, 0 <= elb -> 0 <= rise -> 2 * rise <= dur ->
  envelope_frag nid elb dur rise 0 (elb + dur) =
  Some (zrepeat fzero elb ++ zrange (fun j => (2, nid, j)) 0 rise ++ zrepeat fone (dur - 2 * rise)
        ++ zrange (fun j => (2, nid, j)) rise rise).
Proof.
  intros nid elb dur rise Hlb Hr Hd. rewrite envelope_fragment by lia. f_equal.
  replace (elb + dur) with (elb + (rise + ((dur - 2 * rise) + rise))) by lia.
  rewrite !zrange_app by lia.
  rewrite (zrepeat_zrange fzero 0), (zrepeat_zrange fone (0 + elb + rise)).
  unfold env_at. f_equal; [|f_equal; [|f_equal]]; apply zrange_ext; intros k Hk.
  - destruct (0 + k <? elb) eqn:E; [reflexivity|lia].
  - destruct (0 + elb + k <? elb) eqn:E1; [lia|].
    destruct (0 + elb + k <? elb + rise) eqn:E2; [f_equal; lia|lia].
  - destruct (0 + elb + rise + k <? elb) eqn:E1; [lia|].
    destruct (0 + elb + rise + k <? elb + rise) eqn:E2; [lia|].
    destruct (0 + elb + rise + k <? elb + dur - rise) eqn:E3; [reflexivity|lia].
  - destruct (0 + elb + rise + (dur - 2 * rise) + k <? elb) eqn:E1; [lia|].
    destruct (0 + elb + rise + (dur - 2 * rise) + k <? elb + rise) eqn:E2; [lia|].
    destruct (0 + elb + rise + (dur - 2 * rise) + k <? elb + dur - rise) eqn:E3; [lia|].
    destruct (0 + elb + rise + (dur - 2 * rise) + k <? elb + dur) eqn:E4; [f_equal; lia|lia].
Qed.

Example envelope_shape_ex : envelope_frag 0 2 10 3 0 (2 + 10) =
  Some (zrepeat fzero 2 ++ zrange (fun j => (2, 0, j)) 0 3 ++ zrepeat fone (10 - 2 * 3)
        ++ zrange (fun j => (2, 0, j)) 3 3).
Proof. apply envelope_shape; lia. Qed.

Theorem rise_rejected : forall nid elb dur rise o n g s, dur < 2 * rise ->
  envelope_frag nid elb dur rise o n = None /\
  (forall R i, s = SNode o i -> gnext R (GEnv nid elb dur rise g) s n = None).
Proof.
  intros nid elb dur rise o n g s H.
  assert (E : envelope_frag nid elb dur rise o n = None).
  { unfold envelope_frag. destruct (dur <? rise * 2) eqn:E; [reflexivity|lia]. }
  split; [exact E|]. intros R i ->. cbn [gnext].
  destruct (gnext R g i n) as [[i' tok]|]; [|reflexivity]. rewrite E. reflexivity.
Qed.

Example rise_rejected_ex : 5 < 2 * 3 /\ envelope_frag 0 0 5 3 0 4 = None.
Proof. split; [lia|reflexivity]. Qed.
