(* C01 proofs: re-export.
   ProofsLib   - zr / zrange algebra, slices and constant fills of a zrange
   ProofsFrag  - envelope_fragment, sam_fragment, square_fragment
   ProofsSqEnv - sqenv_fragment (square-wave envelope, rational period)
   ProofsGen   - state_at, gnext_step, greset_ok, run_chunks_ok, chunk_invariant, partition_independent,
                 filter_state_carry, unrepaired_refuted *)
From PV Require Export Stim.ProofsLib Stim.ProofsFrag Stim.ProofsSqEnv Stim.ProofsGen.
