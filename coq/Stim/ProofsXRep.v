(* C01 additions: RepeatFactory stated on what its input returned (no denotation of the input involved), and the
   directly called fragment functions in the encoding the correspondence harness evaluates (run_envelope / run_sam /
   run_sqenv). *)
From PV Require Import Stim.Model Stim.Spec Stim.SpecX Stim.Proofs Stim.ProofsC09.
From Coq Require Import ZArith List Bool Lia ZifyBool.
Import ListNotations.
Open Scope Z_scope.

Lemma nth_zr {A} (f : Z -> A) d n : forall lo k, (k < n)%nat -> nth k (zr f lo n) d = f (lo + Z.of_nat k).
Proof.
  induction n as [|n IH]; intros lo k Hk; [lia|].
  destruct k as [|k]; cbn [zr nth].
  - f_equal. lia.
  - rewrite IH by lia. f_equal. lia.
Qed.

Lemma nth_zrange {A} (f : Z -> A) d lo n k : 0 <= k < n -> nth (Z.to_nat k) (zrange f lo n) d = f (lo + k).
Proof. intros Hk. unfold zrange. rewrite nth_zr by lia. f_equal. lia. Qed.

Lemma den_repeat_rows n skip period sdelay g lw p : 0 <= lw -> total_len all_repaired g = Some lw ->
  den (GRepeat n skip period sdelay g) p = repeat_row_stream n skip period sdelay (zrange (den g) 0 lw) p.
Proof.
  intros Hlw Ht. cbn [den]. rewrite Ht. unfold repeat_row_stream, nth_sample. rewrite zlen_zrange by exact Hlw.
  destruct (skip <=? p / period); [|reflexivity].
  destruct (p / period <? skip + n); [|reflexivity]. cbn [andb].
  destruct (sdelay <=? p mod period) eqn:E1; destruct (p mod period <? sdelay + lw) eqn:E2;
    destruct (0 <=? p mod period - sdelay) eqn:E3; destruct (p mod period - sdelay <? lw) eqn:E4;
    cbn [andb]; try reflexivity; try lia.
  rewrite nth_zrange by lia. reflexivity.
Qed.

Theorem repeat_rows : forall n skip period sdelay g cs,
  wf (GRepeat n skip period sdelay g) = true -> nonneg cs = true ->
  exists i0 lw i1 w s1,
    greset all_repaired g = Some i0 /\ remaining g i0 = Some lw /\
    gnext all_repaired g i0 lw = Some (i1, w) /\ zlen w = lw /\
    greset all_repaired (GRepeat n skip period sdelay g)
      = Some (SRep 0 (zrange (repeat_row_stream n skip period sdelay w) 0 ((n + skip) * period)) i1) /\
    run_chunks all_repaired (GRepeat n skip period sdelay g)
      (SRep 0 (zrange (repeat_row_stream n skip period sdelay w) 0 ((n + skip) * period)) i1) cs
      = Some (s1, zrange (repeat_row_stream n skip period sdelay w) 0 (sumZ cs)).
Proof.
  intros n skip period sdelay g cs Hwf Hnn. pose proof Hwf as Hwf0.
  cbn [wf] in Hwf. apply wf_and in Hwf as [Hp Hft]. apply wf_and in Hp as [Hp Hwf'].
  destruct (finite_total g) as [lw|] eqn:Eft; [|discriminate Hft].
  assert (Ht : total_len all_repaired g = Some lw) by exact Eft.
  destruct (greset_ok g Hwf') as (i0 & E0 & Hi0).
  unfold finite_total, total_len in Eft. rewrite E0 in Eft.
  pose proof (remaining_nonneg g i0 lw Eft) as Hlw.
  destruct (gnext_step g Hwf' 0 i0 lw ltac:(lia) Hlw Hi0) as (i1 & En & _).
  destruct (chunk_invariant _ cs Hwf0 Hnn) as (s0 & s1 & Er & Ec).
  assert (Hs0 : s0 = SRep 0 (zrange (repeat_row_stream n skip period sdelay (zrange (den g) 0 lw)) 0
                                     ((n + skip) * period)) i1).
  { cbn [greset] in Er. rewrite E0, Eft, En in Er.
    rewrite (repeat_wave_eq n skip period sdelay g lw) in Er by (try assumption; lia).
    injection Er as <-. f_equal. apply zrange_ext. intros k _. now apply den_repeat_rows. }
  exists i0, lw, i1, (zrange (den g) 0 lw), s1.
  split; [exact E0|]. split; [exact Eft|]. split; [exact En|]. split; [apply zlen_zrange; exact Hlw|].
  rewrite <- Hs0. split; [exact Er|]. rewrite Ec. do 2 f_equal.
  apply zrange_ext. intros k _. now apply den_repeat_rows.
Qed.

Example repeat_rows_ex : wf (GRepeat 2 1 12 2 (GSqEnv 4 (7 # 2) 2 (GEnv 2 0 8 2 (GCar 1)))) = true
  /\ nonneg [5; 0; 31; 9] = true.
Proof. vm_compute. split; reflexivity. Qed.

(* the tiled array is built once: no draw changes it or touches the input generator again, under every repair set *)
Theorem repeat_wave_fixed : forall R n skip period sdelay g o w i k,
  gnext R (GRepeat n skip period sdelay g) (SRep o w i) k = Some (SRep (o + k) w i, fixed_next w o k).
Proof. reflexivity. Qed.

(* ------------------------------------------------------------------ *)
(* the fragment functions as the harness calls them *)
Theorem fragment_runs :
  (forall elb dur rise o n, 0 <= elb -> 0 <= rise -> 2 * rise <= dur -> 0 <= o -> 0 <= n ->
     run_envelope elb dur rise o n = 1 :: enc_factors (zrange (env_at 0 elb dur rise) o n)) /\
  (forall elb dur rise o n, dur < 2 * rise -> run_envelope elb dur rise o n = [2]) /\
  (forall D o n, 0 <= D -> 0 <= o -> 0 <= n -> run_sam D o n = enc_factors (zrange (sam_at 0 D) o n)) /\
  (forall P duty o n, Qle_bool 1 P = true -> 1 <= duty -> duty <= Qfloor P -> 0 <= o -> 0 <= n ->
     run_sqenv P duty o n = enc_factors (zrange (sqenv_at 0 P duty) o n)).
Proof.
  split; [|split; [|split]].
  - intros. unfold run_envelope. rewrite envelope_fragment by assumption. reflexivity.
  - intros elb dur rise o n H. unfold run_envelope.
    destruct (rise_rejected 0 elb dur rise o n (GCar 0) (SLeaf 0) H) as [E _]. rewrite E. reflexivity.
  - intros. unfold run_sam. rewrite sam_fragment by assumption. reflexivity.
  - intros. unfold run_sqenv. rewrite sqenv_fragment_wf by assumption. reflexivity.
Qed.

Example fragment_runs_ex : (0 <= 2 /\ 0 <= 3 /\ 2 * 3 <= 10) /\ 5 < 2 * 3 /\
  (Qle_bool 1 (7 # 2) = true /\ 1 <= 2 /\ 2 <= Qfloor (7 # 2)).
Proof. vm_compute. repeat split; discriminate. Qed.
