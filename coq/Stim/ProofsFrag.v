(* C01: the fragment functions (envelope, SAM envelope, square wave) return slices of the whole. *)
From PV Require Import Stim.Model Stim.Spec Stim.ProofsLib.
From Coq Require Import ZArith List Bool Lia ZifyBool.
Import ListNotations.
Open Scope Z_scope.

(* ------------------------------------------------------------------ *)
(* envelope *)

(* one segment [s, s+len): if the budget left is what remains of the chunk from max(s,o) on,
   get_n is the overlap, it is >= 0, the next budget has the same form, and the k-th sample
   taken lies at absolute index max(s,o)+k inside the segment *)
Lemma seg s len o n bud :
  0 <= s -> 0 <= len -> 0 <= o -> 0 <= n ->
  bud = Z.max 0 (o + n - Z.max s o) ->
  let g := get_n len o s bud in
  0 <= g /\ bud - g = Z.max 0 (o + n - Z.max (s + len) o) /\
  (forall k, 0 <= k < g -> s <= o + (n - bud) + k < s + len /\ o + (n - bud) + k = get_i o s + s + k).
Proof. intros. unfold get_n, get_i, np_clip in *. repeat split; lia. Qed.

Lemma ramp_slice (f : Z -> factor) L a c : 0 <= L -> 0 <= a -> 0 <= c -> (0 < c -> a + c <= L) ->
  py_slice (Some a) (Some (a + c)) (zrange f 0 L) = zrange f a c.
Proof.
  intros HL Ha Hc Hb. rewrite py_slice_zrange by lia.
  destruct (Z.eq_dec c 0) as [->|Hne].
  - rewrite !zrange_nil by lia. reflexivity.
  - f_equal; lia.
Qed.

Theorem envelope_fragment : forall nid elb dur rise o n,
  0 <= elb -> 0 <= rise -> 2 * rise <= dur -> 0 <= o -> 0 <= n ->
  envelope_frag nid elb dur rise o n = Some (zrange (env_at nid elb dur rise) o n).
Proof.
  intros nid elb dur rise o n Hlb Hr Hd Ho Hn. unfold envelope_frag.
  destruct (dur <? rise * 2) eqn:Edr; [lia|]. clear Edr. f_equal.
  set (ub := elb + dur).
  pose proof (seg 0 elb o n n ltac:(lia) Hlb Ho Hn ltac:(lia)) as (P1 & B1 & K1).
  remember (get_n elb o 0 n) as n1 eqn:D1. clear D1.
  replace (0 + elb) with elb in B1 by lia.
  pose proof (seg elb rise o n (n - n1) Hlb Hr Ho Hn B1) as (P2 & B2 & K2).
  remember (get_n rise o elb (n - n1)) as n2 eqn:D2. clear D2.
  pose proof (seg (elb + rise) (dur - 2 * rise) o n (n - n1 - n2) ltac:(lia) ltac:(lia) Ho Hn B2) as (P3 & B3 & K3).
  remember (get_n (dur - 2 * rise) o (elb + rise) (n - n1 - n2)) as n3 eqn:D3. clear D3.
  replace (elb + rise + (dur - 2 * rise)) with (ub - rise) in * by (unfold ub; lia).
  pose proof (seg (ub - rise) rise o n (n - n1 - n2 - n3) ltac:(unfold ub; lia) Hr Ho Hn B3) as (P4 & B4 & K4).
  remember (get_n rise o (ub - rise) (n - n1 - n2 - n3)) as n4 eqn:D4. clear D4.
  replace (ub - rise + rise) with ub in B4 by lia.
  remember (n - n1 - n2 - n3 - n4) as n5 eqn:D5.
  assert (P5 : 0 <= n5) by (clear - B4 D5; lia).
  assert (K5 : 0 < n5 -> ub <= o + (n - n5)) by (clear - B4 D5 Ho Hn; lia).
  clear B1 B2 B3 B4.
  (* the two ramp slices are zranges *)
  assert (G2 : 0 <= get_i o elb) by (unfold get_i; lia).
  assert (G4 : 0 <= get_i o (ub - rise)) by (unfold get_i; lia).
  assert (R2 : 0 < n2 -> get_i o elb + n2 <= 2 * rise).
  { intros Hp. destruct (K2 (n2 - 1) ltac:(lia)) as [R E]. clear - R E Hr. lia. }
  assert (R4 : 0 < n4 -> rise + get_i o (ub - rise) + n4 <= 2 * rise).
  { intros Hp. destruct (K4 (n4 - 1) ltac:(lia)) as [R E]. clear - R E Hr. lia. }
  rewrite (ramp_slice _ (2 * rise) (get_i o elb) n2) by lia.
  rewrite (ramp_slice _ (2 * rise) (rise + get_i o (ub - rise)) n4) by lia.
  rewrite (zrepeat_zrange fzero o n1), (zrepeat_zrange fone (o + n1 + n2) n3),
          (zrepeat_zrange fzero (o + n1 + n2 + n3 + n4) n5).
  replace (zrange (env_at nid elb dur rise) o n)
    with (zrange (env_at nid elb dur rise) o (n1 + (n2 + (n3 + (n4 + n5))))) by (f_equal; lia).
  rewrite !zrange_app by lia.
  unfold env_at. fold ub.
  f_equal; [|f_equal; [|f_equal; [|f_equal]]]; apply zrange_ext; intros k Hk.
  - destruct (K1 k Hk) as [R _]. clear - R. destruct (_ <? _) eqn:?; [reflexivity|lia].
  - replace (o + n1 + k) with (o + (n - (n - n1)) + k) by lia.
    destruct (K2 k Hk) as [R E]. rewrite E. clear - R E Hr.
    destruct (_ <? elb) eqn:?; [lia|]. destruct (_ <? elb + rise) eqn:?; [|lia]. f_equal; lia.
  - replace (o + n1 + n2 + k) with (o + (n - (n - n1 - n2)) + k) by lia.
    destruct (K3 k Hk) as [R E]. clear - R Hr Hd. unfold ub in *.
    destruct (_ <? elb) eqn:?; [lia|]. destruct (_ <? elb + rise) eqn:?; [lia|].
    destruct (_ <? elb + dur - rise) eqn:?; [reflexivity|lia].
  - replace (o + n1 + n2 + n3 + k) with (o + (n - (n - n1 - n2 - n3)) + k) by lia.
    destruct (K4 k Hk) as [R E]. rewrite E. clear - R E Hr Hd. unfold ub in *.
    destruct (_ <? elb) eqn:?; [lia|]. destruct (_ <? elb + rise) eqn:?; [lia|].
    destruct (_ <? elb + dur - rise) eqn:?; [lia|]. destruct (_ <? elb + dur) eqn:?; [|lia].
    f_equal; lia.
  - assert (ub <= o + n1 + n2 + n3 + n4 + k) by (clear - K5 Hk D5; lia).
    clear - H Hr Hd. unfold ub in *.
    destruct (_ <? elb) eqn:?; [lia|]. destruct (_ <? elb + rise) eqn:?; [lia|].
    destruct (_ <? elb + dur - rise) eqn:?; [lia|]. destruct (_ <? elb + dur) eqn:?; [lia|].
    reflexivity.
Qed.

Example envelope_fragment_ex :
  envelope_frag 0 2 10 3 4 20 = Some (zrange (env_at 0 2 10 3) 4 20).
Proof. apply envelope_fragment; lia. Qed.

(* ------------------------------------------------------------------ *)
(* SAM envelope *)
Theorem sam_fragment : forall nid D o n, 0 <= D -> 0 <= o -> 0 <= n ->
  sam_frag true nid D o n = zrange (sam_at nid D) o n.
Proof.
  intros nid D o n HD Ho Hn. unfold sam_frag.
  remember (np_clip (D - o) 0 n) as dn eqn:Edn.
  assert (Hdn : 0 <= dn <= n /\ dn <= Z.max (D - o) 0 /\ (dn < n -> D - o <= dn))
    by (unfold np_clip in Edn; lia).
  clear Edn. destruct Hdn as (H1 & H2 & H3).
  replace (zrange (sam_at nid D) o n) with (zrange (sam_at nid D) o (dn + (n - dn))) by (f_equal; lia).
  rewrite zrange_app by lia. rewrite (zrepeat_zrange fone o dn).
  unfold sam_at. f_equal; apply zrange_ext; intros k Hk.
  - destruct (_ <? D) eqn:?; [reflexivity|lia].
  - destruct (_ <? D) eqn:?; [lia|]. f_equal. lia.
Qed.

Example sam_fragment_ex : sam_frag true 0 5 3 7 = zrange (sam_at 0 5) 3 7.
Proof. apply sam_fragment; lia. Qed.

(* ------------------------------------------------------------------ *)
(* square wave *)
Section Square.
Variables (nid cycle on offset samples : Z).
Hypothesis Hc : 0 < cycle.
Hypothesis Hon : 0 <= on <= cycle.

Hypothesis Hn : 0 <= samples.

(* what has been written when the loop variable is o: everything before absolute index offset+o *)
Let F (o : Z) : Z -> sample := fun p => if p <? offset + o then square_at nid cycle on p else szero.

Lemma sq_mod o p : (offset + o) mod cycle = 0 -> offset + o <= p < offset + o + cycle ->
  p mod cycle = p - (offset + o).
Proof.
  intros Hm Hp. symmetry. apply (Z.mod_unique p cycle ((offset + o) / cycle)); [left; lia|].
  pose proof (Z.div_mod (offset + o) cycle ltac:(lia)) as E. rewrite Hm in E. lia.
Qed.

Lemma sq_step o : (offset + o) mod cycle = 0 ->
  py_set_const (Some (Z.max o 0)) (Some (Z.max (o + on) 0)) [(5, nid, 0)] (zrange (F o) offset samples)
  = zrange (F (o + cycle)) offset samples.
Proof.
  intros Hm. rewrite py_set_const_zrange by lia. apply zrange_ext. intros k Hk. unfold F.
  destruct (offset + k <? offset + o) eqn:E1.
  - destruct (offset + k <? offset + (o + cycle)) eqn:E2; [|lia].
    destruct ((offset + Z.max o 0 <=? offset + k) && (offset + k <? offset + Z.max (o + on) 0)) eqn:E3; [lia|].
    reflexivity.
  - destruct (offset + k <? offset + (o + cycle)) eqn:E2.
    + unfold square_at. rewrite (sq_mod o (offset + k) Hm) by lia.
      destruct ((offset + Z.max o 0 <=? offset + k) && (offset + k <? offset + Z.max (o + on) 0)) eqn:E3;
      destruct (offset + k - (offset + o) <? on) eqn:E4; try reflexivity; lia.
    + destruct ((offset + Z.max o 0 <=? offset + k) && (offset + k <? offset + Z.max (o + on) 0)) eqn:E3; [lia|].
      reflexivity.
Qed.

Lemma sq_loop_inv fuel : forall o,
  (offset + o) mod cycle = 0 -> - cycle < o -> samples - Z.max o 0 + 1 <= Z.of_nat fuel ->
  sq_loop fuel true nid cycle on samples o (zrange (F o) offset samples)
  = zrange (square_at nid cycle on) offset samples.
Proof.
  induction fuel as [|f IH]; intros o Hm Hlo Hf.
  - cbn [sq_loop]. apply zrange_ext. intros k Hk. unfold F.
    destruct (offset + k <? offset + o) eqn:E; [reflexivity|lia].
  - cbn [sq_loop]. destruct (o <? samples) eqn:E.
    + rewrite sq_step by assumption. apply IH.
      * replace (offset + (o + cycle)) with (offset + o + 1 * cycle) by lia.
        rewrite Z.mod_add by lia. assumption.
      * lia.
      * lia.
    + apply zrange_ext. intros k Hk. unfold F.
      destruct (offset + k <? offset + o) eqn:E2; [reflexivity|lia].
Qed.
End Square.

Theorem square_fragment : forall nid cycle on o n,
  0 < cycle -> 0 <= on <= cycle -> 0 <= o -> 0 <= n ->
  square_frag true nid cycle on o n = zrange (square_at nid cycle on) o n.
Proof.
  intros nid cycle on o n Hc Hon Ho Hn. unfold square_frag.
  pose proof (Z.mod_pos_bound o cycle Hc) as Hb.
  rewrite <- (sq_loop_inv nid cycle on o n Hc Hon Hn (Z.to_nat n + 2) (- (o mod cycle))).
  - f_equal. rewrite (zrepeat_zrange szero o n). apply zrange_ext. intros k Hk.
    destruct (o + k <? o + - (o mod cycle)) eqn:E; [lia|reflexivity].
  - replace (o + - (o mod cycle)) with (cycle * (o / cycle)).
    + rewrite Z.mul_comm. apply Z.mod_mul. lia.
    + pose proof (Z.div_mod o cycle ltac:(lia)). lia.
  - lia.
  - lia.
Qed.

Example square_fragment_ex : square_frag true 0 5 2 7 11 = zrange (square_at 0 5 2) 7 11.
Proof. apply square_fragment; lia. Qed.
