(* C01: the square-wave envelope fragment (rational period) is a slice of the whole envelope. *)
From PV Require Import Stim.Model Stim.Spec Stim.ProofsLib.
From Coq Require Import ZArith List Bool Lia ZifyBool QArith Qround Lqa.
Import ListNotations.
Open Scope Z_scope.

(* ------------------------------------------------------------------ *)
(* rounding facts *)
Lemma Qfloor_unique q z : (inject_Z z <= q)%Q -> (q < inject_Z z + 1)%Q -> Qfloor q = z.
Proof.
  intros H1 H2. pose proof (Qfloor_le q) as F1. pose proof (Qlt_floor q) as F2.
  assert (A : z < Qfloor q + 1) by (rewrite Zlt_Qlt; eapply Qle_lt_trans; eassumption).
  assert (B : Qfloor q < z + 1).
  { rewrite Zlt_Qlt, inject_Z_plus. eapply Qle_lt_trans; eassumption. }
  lia.
Qed.

Lemma rhu_bounds q :
  (inject_Z (round_half_up q) <= q + (1 # 2))%Q /\ (q + (1 # 2) < inject_Z (round_half_up q) + 1)%Q.
Proof.
  unfold round_half_up. split; [apply Qfloor_le|].
  pose proof (Qlt_floor (q + (1 # 2))) as H. rewrite inject_Z_plus in H. exact H.
Qed.

Lemma rhu_shift q z : round_half_up (q - inject_Z z) = round_half_up q - z.
Proof.
  destruct (rhu_bounds q) as [B1 B2]. unfold round_half_up at 1. apply Qfloor_unique.
  - unfold Z.sub. rewrite inject_Z_plus, inject_Z_opp. lra.
  - unfold Z.sub. rewrite inject_Z_plus, inject_Z_opp. lra.
Qed.

Lemma rhu_comp q r : (q == r)%Q -> round_half_up q = round_half_up r.
Proof. intros H. unfold round_half_up. apply Qfloor_comp. rewrite H. reflexivity. Qed.

Lemma Zlt_of_Q a b : (inject_Z a < inject_Z b + 1)%Q -> a <= b.
Proof.
  intros H. assert (a < b + 1); [|lia]. rewrite Zlt_Qlt, inject_Z_plus. exact H.
Qed.

Section SqEnv.
Variables (nid : Z) (P : Q) (duty : Z).
Hypothesis HP : (1 <= P)%Q.
Hypothesis Hd1 : 1 <= duty.
Hypothesis HdP : duty <= Qfloor P.

Let T : Z -> factor := fun j => (6, nid, j).
Let cst : factor := (5, nid, 0).
(* start of on-period J *)
Definition St (J : Z) : Z := round_half_up (P * inject_Z J).

Lemma dutyP : (inject_Z duty <= P)%Q.
Proof. eapply Qle_trans; [|apply (Qfloor_le P)]. rewrite <- Zle_Qle. exact HdP. Qed.

Lemma PJ1 J : (P * inject_Z (J + 1) == P * inject_Z J + P)%Q.
Proof. rewrite inject_Z_plus. change (inject_Z 1) with 1%Q. ring. Qed.

Lemma St_step J : St J + duty <= St (J + 1).
Proof.
  unfold St. destruct (rhu_bounds (P * inject_Z J)) as [A1 _].
  destruct (rhu_bounds (P * inject_Z (J + 1))) as [_ B2]. pose proof (PJ1 J) as E.
  pose proof dutyP as D. apply Zlt_of_Q. rewrite inject_Z_plus. lra.
Qed.

Lemma St_mono a b : a <= b -> St a <= St b.
Proof.
  intros H. replace b with (a + Z.of_nat (Z.to_nat (b - a))) by lia.
  generalize (Z.to_nat (b - a)) as m. induction m as [|m IH]; [rewrite Z.add_0_r; lia|].
  replace (a + Z.of_nat (S m)) with (a + Z.of_nat m + 1) by lia.
  pose proof (St_step (a + Z.of_nat m)). lia.
Qed.

Lemma St_le J p : (P * inject_Z J <= inject_Z p)%Q -> St J <= p.
Proof.
  intros H. unfold St. destruct (rhu_bounds (P * inject_Z J)) as [A1 _].
  apply Zlt_of_Q. lra.
Qed.

Lemma St_ge J p : (inject_Z p < P * inject_Z J)%Q -> p <= St J.
Proof.
  intros H. unfold St. destruct (rhu_bounds (P * inject_Z J)) as [_ A2].
  apply Zlt_of_Q. lra.
Qed.

Lemma floor_k p : let k := Qfloor (inject_Z p / P) in
  (P * inject_Z k <= inject_Z p)%Q /\ (inject_Z p < P * inject_Z (k + 1))%Q.
Proof.
  intros k. assert (P0 : (0 < P)%Q) by lra. assert (Pn : ~ (P == 0)%Q) by lra.
  pose proof (Qmult_div_r (inject_Z p) P Pn) as E. split.
  - assert (A : (P * inject_Z k <= P * (inject_Z p / P))%Q)
      by (apply Qmult_le_l; [exact P0|]; apply Qfloor_le).
    rewrite E in A. exact A.
  - assert (A : (P * (inject_Z p / P) < P * inject_Z (k + 1))%Q)
      by (apply Qmult_lt_l; [exact P0|]; apply Qlt_floor).
    rewrite E in A. exact A.
Qed.

(* the whole envelope between two consecutive period starts *)
Lemma sqenv_at_window J p : St J <= p < St (J + 1) ->
  sqenv_at nid P duty p = if p <? St J + duty then T (p - St J) else cst.
Proof.
  intros Hp. unfold sqenv_at.
  destruct (floor_k p) as [K1 K2]. set (k := Qfloor (inject_Z p / P)) in *.
  pose proof (St_le k p K1) as L1. pose proof (St_ge (k + 1) p K2) as L2.
  assert (Hk : k = J \/ k = J - 1).
  { destruct (Z_le_gt_dec (J + 1) k) as [G|G].
    - pose proof (St_mono (J + 1) k G). lia.
    - destruct (Z_le_gt_dec k (J - 2)) as [G2|G2]; [|lia].
      pose proof (St_step (k + 1)) as S1. pose proof (St_mono (k + 1 + 1) J ltac:(lia)). lia. }
  clear K1 K2. fold (St (k + 1)) (St k) (St (k - 1)).
  destruct Hk as [Hk|Hk]; rewrite Hk in *; clear Hk k.
  - pose proof (St_step (J - 1)) as S1. replace (J - 1 + 1) with J in S1 by lia.
    destruct ((St (J + 1) <=? p) && (p <? St (J + 1) + duty)) eqn:E1; [lia|].
    destruct ((St J <=? p) && (p <? St J + duty)) eqn:E2.
    + destruct (p <? St J + duty) eqn:E3; [reflexivity|lia].
    + destruct ((0 <=? J - 1) && (St (J - 1) <=? p) && (p <? St (J - 1) + duty)) eqn:E3; [lia|].
      destruct (p <? St J + duty) eqn:E4; [lia|reflexivity].
  - replace (J - 1 + 1) with J in * by lia.
    pose proof (St_step (J - 1)) as S1. replace (J - 1 + 1) with J in S1 by lia.
    pose proof (St_step (J - 1 - 1)) as S2. replace (J - 1 - 1 + 1) with (J - 1) in S2 by lia.
    destruct ((St J <=? p) && (p <? St J + duty)) eqn:E1.
    + destruct (p <? St J + duty) eqn:E3; [reflexivity|lia].
    + destruct ((St (J - 1) <=? p) && (p <? St (J - 1) + duty)) eqn:E2; [lia|].
      destruct ((0 <=? J - 1 - 1) && (St (J - 1 - 1) <=? p) && (p <? St (J - 1 - 1) + duty)) eqn:E3; [lia|].
      destruct (p <? St J + duty) eqn:E4; [lia|reflexivity].
Qed.

(* what has been written once periods < J are done *)
Definition Fq (J : Z) : Z -> factor := fun p => if p <? St J then sqenv_at nid P duty p else cst.

Lemma Fq_step_lo J p : p < St J -> Fq (J + 1) p = Fq J p.
Proof.
  intros H. unfold Fq. pose proof (St_step J).
  destruct (p <? St (J + 1)) eqn:E1; [|lia]. destruct (p <? St J) eqn:E2; [reflexivity|lia].
Qed.
Lemma Fq_step_in J p : St J <= p < St J + duty -> Fq (J + 1) p = T (p - St J).
Proof.
  intros H. unfold Fq. pose proof (St_step J).
  destruct (p <? St (J + 1)) eqn:E1; [|lia]. rewrite (sqenv_at_window J) by lia.
  destruct (p <? St J + duty) eqn:E2; [reflexivity|lia].
Qed.
Lemma Fq_step_hi J p : St J + duty <= p -> Fq (J + 1) p = cst /\ Fq J p = cst.
Proof.
  intros H. unfold Fq. pose proof (St_step J). split.
  - destruct (p <? St (J + 1)) eqn:E1; [|reflexivity]. rewrite (sqenv_at_window J) by lia.
    destruct (p <? St J + duty) eqn:E2; [lia|reflexivity].
  - destruct (p <? St J) eqn:E2; [lia|reflexivity].
Qed.

(* the loop body *)
Definition body (samples s : Z) (env : list factor) : list factor :=
  let tuk := zrange (fun j => (6, nid, j)) 0 duty in
  if s <? 0 then
    let n_remaining := duty + s in
    if n_remaining >? 0 then
      let i := np_clip n_remaining 0 samples in
      set_range 0 (py_slice None (Some i) (py_slice (Some (- n_remaining)) None tuk)) env
    else env
  else
    let lb := np_clip s 0 samples in
    let ub := np_clip (s + duty) 0 samples in
    set_range lb (py_slice None (Some (ub - lb)) tuk) env.

Lemma loop_unfold f n fm env :
  sqenv_loop (S f) true nid P duty n fm env =
  let env' := body n (round_half_up fm) env in
  if Qlt_le_dec (inject_Z n) (fm + P)%Q then env'
  else sqenv_loop f true nid P duty n (fm + P)%Q env'.
Proof. reflexivity. Qed.

Lemma slice_tail (f : Z -> factor) L m : 0 < m <= L ->
  py_slice (Some (- m)) None (zrange f 0 L) = zrange f (L - m) m.
Proof.
  intros H. unfold py_slice, py_lo, py_hi, adj_bound. rewrite zlen_zrange by lia.
  destruct (- m <? 0) eqn:E; [|lia].
  replace (Z.max 0 (- m + L)) with (L - m) by lia.
  rewrite slice_core by lia. f_equal; lia.
Qed.

Lemma slice_head (f : Z -> factor) lo L i : 0 <= i <= L ->
  py_slice None (Some i) (zrange f lo L) = zrange f lo i.
Proof.
  intros H. unfold py_slice, py_lo, py_hi, adj_bound. rewrite zlen_zrange by lia.
  destruct (i <? 0) eqn:E; [lia|].
  replace (Z.min i L) with i by lia.
  rewrite (slice_core f lo L 0 i) by lia. f_equal; lia.
Qed.

Lemma set_range_zrange (f g : Z -> factor) o n lb c glo : 0 <= n -> 0 <= lb -> 0 <= c -> lb + c <= n ->
  set_range lb (zrange g glo c) (zrange f o n)
  = zrange f o lb ++ zrange g glo c ++ zrange f (o + (lb + c)) (n - (lb + c)).
Proof.
  intros Hn Hlb Hc Hle. unfold set_range.
  rewrite zrange_firstn by lia. replace (Z.min lb n) with lb by lia.
  replace (Z.to_nat lb + length (zrange g glo c))%nat with (Z.to_nat (lb + c)).
  - rewrite zrange_skipn by lia. reflexivity.
  - unfold zrange. rewrite zr_length. lia.
Qed.

Lemma body_eq o n J : 0 <= o -> 0 <= n ->
  body n (St J - o) (zrange (Fq J) o n) = zrange (Fq (J + 1)) o n.
Proof.
  intros Ho Hn. unfold body. set (s := St J - o).
  destruct (s <? 0) eqn:Es.
  - destruct (duty + s >? 0) eqn:Er.
    + remember (np_clip (duty + s) 0 n) as i eqn:Ei.
      assert (Hi : 0 <= i <= n /\ i <= duty + s /\ (i < n -> i = duty + s))
        by (unfold np_clip in Ei; lia). clear Ei. destruct Hi as (Hi1 & Hi2 & Hi3).
      rewrite slice_tail by lia. rewrite slice_head by lia.
      rewrite set_range_zrange by lia. cbn [app].
      replace (zrange (Fq (J + 1)) o n) with (zrange (Fq (J + 1)) o (i + (n - i))) by (f_equal; lia).
      rewrite zrange_app by lia.
      replace (o + (0 + i)) with (o + i) by lia. replace (n - (0 + i)) with (n - i) by lia.
      rewrite (zrange_nil (Fq J) o 0) by lia. cbn [app].
      f_equal; apply zrange_ext; intros k Hk.
      * rewrite Fq_step_in by (unfold s in *; lia). unfold T. f_equal. unfold s. lia.
      * destruct (Fq_step_hi J (o + i + k)) as [E1 E2]; [unfold s in *; lia|]. now rewrite E1, E2.
    + apply zrange_ext. intros k Hk.
      destruct (Fq_step_hi J (o + k)) as [E1 E2]; [unfold s in *; lia|]. now rewrite E1, E2.
  - remember (np_clip s 0 n) as lb eqn:Elb. remember (np_clip (s + duty) 0 n) as ub eqn:Eub.
    assert (Hb : 0 <= lb <= ub /\ ub <= n /\ lb <= s /\ ub <= s + duty /\ (lb < n -> lb = s) /\ (ub < n -> ub = s + duty))
      by (unfold np_clip in *; lia).
    clear Elb Eub. destruct Hb as (B1 & B2 & B3 & B4 & B5 & B6).
    rewrite slice_head by lia. rewrite set_range_zrange by lia.
    replace (lb + (ub - lb)) with ub by lia.
    replace (zrange (Fq (J + 1)) o n) with (zrange (Fq (J + 1)) o (lb + ((ub - lb) + (n - ub)))) by (f_equal; lia).
    rewrite !zrange_app by lia. replace (o + lb + (ub - lb)) with (o + ub) by lia.
    f_equal; [|f_equal]; apply zrange_ext; intros k Hk.
    + symmetry. apply Fq_step_lo. unfold s in *; lia.
    + rewrite Fq_step_in by (unfold s in *; lia). unfold T. f_equal. unfold s in *. lia.
    + destruct (Fq_step_hi J (o + ub + k)) as [E1 E2]; [unfold s in *; lia|]. now rewrite E1, E2.
Qed.

Lemma rhu_fm fm J o : (fm == P * inject_Z J - inject_Z o)%Q -> round_half_up fm = St J - o.
Proof. intros H. rewrite (rhu_comp _ _ H). apply rhu_shift. Qed.

Lemma done_ext o n J : o + n <= St J -> zrange (Fq J) o n = zrange (sqenv_at nid P duty) o n.
Proof.
  intros H. apply zrange_ext. intros k Hk. unfold Fq.
  destruct (o + k <? St J) eqn:E; [reflexivity|lia].
Qed.

Lemma loop_done o n J fm : (fm == P * inject_Z J - inject_Z o)%Q -> (inject_Z n < fm)%Q -> o + n <= St J.
Proof.
  intros Hfm Hlt. apply St_ge. rewrite inject_Z_plus. lra.
Qed.

Lemma loop_gen o n : 0 <= o -> 0 <= n -> forall fuel J fm,
  (fm == P * inject_Z J - inject_Z o)%Q -> (fm <= inject_Z n)%Q ->
  (inject_Z (n + 1 - Z.of_nat fuel) < fm)%Q ->
  sqenv_loop fuel true nid P duty n fm (zrange (Fq J) o n) = zrange (sqenv_at nid P duty) o n.
Proof.
  intros Ho Hn. induction fuel as [|f IH]; intros J fm Hfm Hle Hfu.
  - exfalso. change (Z.of_nat 0) with 0 in Hfu. rewrite Z.sub_0_r, inject_Z_plus in Hfu.
    change (inject_Z 1) with 1%Q in Hfu. lra.
  - rewrite loop_unfold. cbv zeta. rewrite (rhu_fm fm J o Hfm). rewrite body_eq by assumption.
    assert (Hfm' : (fm + P == P * inject_Z (J + 1) - inject_Z o)%Q) by (rewrite PJ1, Hfm; ring).
    destruct (Qlt_le_dec (inject_Z n) (fm + P)) as [Hs|Hs].
    + apply done_ext. eapply loop_done; eassumption.
    + apply IH; [exact Hfm'|exact Hs|].
      replace (n + 1 - Z.of_nat f) with ((n + 1 - Z.of_nat (S f)) + 1) by lia.
      rewrite inject_Z_plus. change (inject_Z 1) with 1%Q. lra.
Qed.

Theorem sqenv_fragment o n : 0 <= o -> 0 <= n ->
  sqenv_frag true nid P duty o n = zrange (sqenv_at nid P duty) o n.
Proof.
  intros Ho Hn. unfold sqenv_frag.
  destruct (floor_k o) as [K1 K2]. set (k := Qfloor (inject_Z o / P)) in *.
  replace (Z.to_nat n + 2)%nat with (S (Z.to_nat n + 1)) by lia.
  assert (Hfm : (P * inject_Z k - inject_Z o == P * inject_Z k - inject_Z o)%Q) by reflexivity.
  rewrite (zrepeat_zrange (5, nid, 0) o n).
  replace (zrange (fun _ => (5, nid, 0)) o n) with (zrange (Fq k) o n).
  2:{ apply zrange_ext. intros j Hj. unfold Fq. pose proof (St_le k o K1).
      destruct (o + j <? St k) eqn:E; [lia|reflexivity]. }
  rewrite loop_unfold. cbv zeta. rewrite (rhu_fm _ k o Hfm). rewrite body_eq by assumption.
  assert (Hfm' : (P * inject_Z k - inject_Z o + P == P * inject_Z (k + 1) - inject_Z o)%Q)
    by (rewrite PJ1; ring).
  destruct (Qlt_le_dec (inject_Z n) (P * inject_Z k - inject_Z o + P)) as [Hs|Hs].
  - apply done_ext. eapply loop_done; eassumption.
  - apply loop_gen; [assumption|assumption|exact Hfm'|exact Hs|].
    rewrite PJ1 in K2.
    replace (n + 1 - Z.of_nat (Z.to_nat n + 1)) with 0 by lia. change (inject_Z 0) with 0%Q. lra.
Qed.
End SqEnv.

Theorem sqenv_fragment_wf nid P duty o n :
  Qle_bool 1 P = true -> 1 <= duty -> duty <= Qfloor P -> 0 <= o -> 0 <= n ->
  sqenv_frag true nid P duty o n = zrange (sqenv_at nid P duty) o n.
Proof.
  intros HP Hd1 HdP Ho Hn. apply sqenv_fragment; try assumption. apply Qle_bool_iff. exact HP.
Qed.

Example sqenv_fragment_ex : sqenv_frag true 0 (7 # 2) 2 5 13 = zrange (sqenv_at 0 (7 # 2) 2) 5 13.
Proof. apply sqenv_fragment_wf; [reflexivity| lia | vm_compute; discriminate | lia | lia]. Qed.

Print Assumptions sqenv_fragment_wf.
